"""C20 — plots draw the trajectory's own coordinates on the labelled axes (evo/tools/plot.py).
Model: lean/EvoModel/Model/Plot.lean; tables: Gen/PlotModes.lean (translate/plotmodes.py)."""
import math
import numpy as np
import core
from core import Fraction, frac, rat, ratlist, hexs
from translate import plotmodes

MODELLED = ["evo/tools/plot.py:plot_mode_to_idx", "evo/tools/plot.py:prepare_axis", "evo/tools/plot.py:traj",
            "evo/tools/plot.py:add_start_end_markers", "evo/tools/plot.py:colored_line_collection",
            "evo/tools/plot.py:traj_colormap", "evo/tools/plot.py:draw_coordinate_axes",
            "evo/tools/plot.py:draw_correspondence_edges", "evo/tools/plot.py:traj_xyz", "evo/tools/plot.py:traj_rpy",
            "evo/tools/plot.py:speeds", "evo/tools/plot.py:trajectories", "evo/tools/plot.py:error_array",
            "evo/core/trajectory.py:calc_speed", "evo/core/units.py:Unit"]

RULE = ("cases = (trajectory of 2..500 poses [+ second trajectory], plot mode, length unit, with/without timestamps, start time, "
        "start/end markers, marker scale, colour array, error array / x array / cumulative); every plotting function of the anchor "
        "is called on fresh Agg figures and the data of the Line2D/Line3D/LineCollection/Line3DCollection/PathCollection artists "
        "and the label strings are read back; compared exactly (as rationals) with the series of the Lean model (only the tips of "
        "the coordinate-frame markers of the random stream to 64 ulp: numpy's dot may fuse); trajectories built through the constructor "
        "from int64/int32/float32/float64 position arrays (mixed pairs, both argument orders, offsets ~5e5, int colour/error arrays) are "
        "compared with the model fed the exact rational value of each input element (also strided / Fortran / read-only arrays and lists, "
        "pre-read caches); a third of the cases replay an object-reuse history (speeds -> traj_xyz twice -> traj_rpy -> speeds twice -> traj "
        "twice on one Axes) where every call is judged on the object's own data; trajectories() with dict of 2/3, list of 3, single object and "
        "adversarial names; numeric arguments (start time, marker scale, colour-map bounds) as Python int/float, numpy float64/float32/int64/"
        "int32 scalars and 0-d arrays (value made exactly representable first); figure-management variants (target figure not pyplot's "
        "current one, bare Figure with an Agg canvas, second current Axes in the same figure: labels read from the axes drawn into, witness "
        "axes must stay empty); all 7 modes x 4 units enumerated "
        "first, then random combinations; non-trivial = at least 3 poses and not all coordinates equal; distinct by content hash")

MODES = ["xy", "xz", "yx", "yz", "zx", "zy", "xyz"]
UNITS = {"millimeters": "mm", "centimeters": "cm", "meters": "m", "kilometers": "km"}   # the oracle's own table
NON_LENGTH = ["degrees", "seconds", "none", "percent"]

# 24 proper rotations with entries in {0, ±1}
def _rotations():
    import itertools
    out = []
    for perm in itertools.permutations(range(3)):
        for signs in itertools.product([1, -1], repeat=3):
            m = [[0.0] * 3 for _ in range(3)]
            for r in range(3):
                m[r][perm[r]] = float(signs[r])
            det = (m[0][0] * (m[1][1] * m[2][2] - m[1][2] * m[2][1]) - m[0][1] * (m[1][0] * m[2][2] - m[1][2] * m[2][0])
                   + m[0][2] * (m[1][0] * m[2][1] - m[1][1] * m[2][0]))
            if det == 1:
                out.append([x for row in m for x in row])
    return out


ROT24 = _rotations()


def quat_to_rot(w, x, y, z):
    n = math.sqrt(w * w + x * x + y * y + z * z)
    w, x, y, z = w / n, x / n, y / n, z / n
    return [1 - 2 * (y * y + z * z), 2 * (x * y - z * w), 2 * (x * z + y * w),
            2 * (x * y + z * w), 1 - 2 * (x * x + z * z), 2 * (y * z - x * w),
            2 * (x * z - y * w), 2 * (y * z + x * w), 1 - 2 * (x * x + y * y)]


# ----------------------------------------------------------------------------- generators
def gen_traj(r, n, grid):
    """positions, rotation blocks (9 floats), stamps"""
    pos, rot, stamps = [], [], []
    if grid:
        q = r.choice([1, 2, 4])
        p = [r.randint(-8, 8) / q for _ in range(3)]
        t = r.randint(0, 40) / q
        for _ in range(n):
            pos.append(list(p))
            rot.append(list(r.choice(ROT24)))
            stamps.append(t)
            p = [c + r.randint(-4, 4) / q for c in p]
            t += r.randint(1, 5) / q
    else:
        off = r.choice([0.0, 0.0, 1e6 * r.random(), 4.5e5])
        p = [off + r.uniform(-10, 10), off / 7 + r.uniform(-10, 10), r.uniform(-2, 2)]
        t = r.choice([0.0, 1.5e9 + r.random() * 1e6, r.uniform(-5, 5)])
        for _ in range(n):
            pos.append(list(p))
            rot.append(quat_to_rot(*[r.gauss(0, 1) for _ in range(4)]))
            stamps.append(t)
            p = [c + r.uniform(-0.5, 0.5) for c in p]
            t += r.choice([0.1, 0.05, r.uniform(0.01, 0.3)])
    return pos, rot, stamps


def gen_case(r, grid, n, mode=None, unit=None):
    pos, rot, stamps = gen_traj(r, n, grid)
    pos2, _, _ = gen_traj(r, n, grid)
    has_stamps = r.random() < 0.7
    start = None
    if r.random() < 0.6:
        start = r.choice([stamps[0], 0.0, stamps[0] - (r.randint(1, 9) / 4 if grid else r.uniform(0, 3)), stamps[n // 2]])
    narr = r.choice([n, n, n - 1])
    if grid:
        arr = [r.randint(0, 16) / 4 for _ in range(narr)]
        err = [r.randint(0, 64) / 8 for _ in range(n)]
        scale = r.choice([0.5, 0.25, 1.0, 2.0, 0.125])
    else:
        arr = [r.uniform(0, 3) for _ in range(narr)]
        err = [abs(r.gauss(0, 1)) for _ in range(n)]
        scale = r.choice([0.1, 0.1, r.uniform(0.01, 2.0)])
    if r.random() < 0.06:
        scale = r.choice([0.0, -0.5])
    err_x = None
    if r.random() < 0.6:
        err_x = stamps if r.random() < 0.5 else [float(3 * k + 1) for k in range(n)]
        how = r.random()
        if how < 0.2:
            err_x = list(reversed(err_x))                    # "the given x array in order": descending,
        elif how < 0.35:
            err_x = list(err_x)
            r.shuffle(err_x)                                  # permuted,
        elif how < 0.45 and n > 3:
            err_x = [float(k % 3) for k in range(n)]          # wrapping (laps) with repeated values
    if r.random() < 0.05 and n > 2:
        pos2 = pos2[:-1]
    step = r.choice([1, 2, 2, 3])
    ncol = (n // step if step > 1 else r.choice([n, n - 1])) if r.random() < 0.8 else max(1, n // step - 1)
    clc_n = step * (n // step) if (step > 1 and n >= step and r.random() < 0.7) else n
    return {"kind": "grid" if grid else "random", "mode": mode or r.choice(MODES),
            "unit": unit or r.choice(list(UNITS)), "pos": pos, "rot": rot,
            "stamps": stamps if has_stamps else None, "start": start, "markers": r.random() < 0.6, "scale": scale,
            "pos2": pos2, "arr": arr, "amin": min(arr), "amax": max(arr) + (0.0 if r.random() < 0.5 else 1.0),
            "err": err, "err_x": err_x, "cumulative": r.random() < 0.3,
            "via_trajectories": r.choice([False] * 6 + [True, True, "dict3", "list3", "single"]),
            "names": r.sample(["est", "a_b", "\u00fc x", "1e3", " lead", "b.tum", "-1", "x" * 40], 3),
            "preread": r.sample(["positions_xyz", "orientations_quat_wxyz", "poses_se3", "distances", "check", "timestamps"], r.randint(0, 3)),
            "stamps_readonly": r.random() < 0.15, "reuse": r.random() < 0.35,
            "tr2_stamped": r.random() < 0.4,
            "modify": r.choice([None, None, None, "project:XY", "project:XZ", "project:YZ", "transform", "scale", "reduce"]),
            "modify_right": r.random() < 0.5,
            "figmgmt": r.choice([None, None, "other_current", "bare", "two_axes"]),
            "step": step, "ncol": ncol, "clc_n": clc_n, "bad_unit": r.choice(NON_LENGTH) if r.random() < 0.05 else None}


DTYPES = ["float64", "float32", "int64", "int32"]
DTYPE_PAIRS = [("int64", "float64"), ("float64", "int64"), ("float32", "float64"), ("float64", "float32"), ("int32", "float32"),
               ("float32", "int64"), ("int32", "int64"), ("float32", "float32")]


def typed_positions(r, n, dtype, offset):
    """values exactly representable in `dtype` (stored as Python floats = their exact value), not in the coarser types"""
    out = []
    p = [offset + r.randint(-50, 50), offset / 8 + r.randint(-50, 50), r.randint(-5, 5)]
    for _ in range(n):
        if dtype in ("int64", "int32"):
            out.append([float(int(c)) for c in p])
        elif dtype == "float32":
            out.append([float(np.float32(c + r.random())) for c in p])
        else:
            out.append([float(c + r.choice([0.25, -0.5, 0.1, 0.7, r.random()])) for c in p])
        p = [c + r.randint(-3, 3) for c in p]
    return out


def gen_typed_case(r, mode, dt1, dt2):
    """trajectories built through the constructor from int / float32 / float64 position arrays (PosePath3D keeps the dtype)"""
    c = gen_case(r, False, r.randint(3, 8), mode)
    n = len(c["pos"])
    offset = r.choice([0, 0, 450000, 5400000 // 8])
    c["kind"] = "typed"
    c["dtypes"] = [dt1, dt2]
    c["layouts"] = [r.choice([None, "strided", "fortran", "readonly", "list"]), r.choice([None, "strided", "fortran", "readonly", "list"])]
    c["pos"] = typed_positions(r, n, dt1, offset)
    c["pos2"] = typed_positions(r, n, dt2, offset)
    c["rot"] = [[1.0, 0.0, 0.0, 0.0, 1.0, 0.0, 0.0, 0.0, 1.0] for _ in range(n)]
    c["arr_dtype"] = r.choice(["float64", "int64", "int32"])
    if c["arr_dtype"] != "float64":
        c["arr"] = [float(r.randint(0, 9)) for _ in c["arr"]]
        c["amin"], c["amax"] = 0.0, 10.0
    c["err_dtype"] = r.choice(["float64", "int64"])
    if c["err_dtype"] != "float64":
        c["err"] = [float(r.randint(0, 9)) for _ in c["err"]]
        if c["err_x"] is not None:
            c["err_x"] = [float(3 * k + 1) for k in range(n)]
    c["scale"] = r.choice([0.5, 0.25, 1.0])
    c["clc_n"] = min(c["clc_n"], n)
    return c


def add_forms(r, c):
    """argument forms of the numeric options: the value is first made exactly representable in the form"""
    if r.random() < 0.5:
        return c
    f = {"start": r.choice(ARG_FORMS), "scale": r.choice(ARG_FORMS), "map": r.choice(["pyfloat", "pyint", "np.int64", "np.float64", "0d-int"])}
    if c["start"] is not None:
        c["start"] = representable(f["start"], c["start"])
    sc = representable(f["scale"], c["scale"])
    if sc <= 0 < c["scale"]:
        sc = 1.0
    c["scale"] = sc
    if f["map"] != "pyfloat":
        c["amin"], c["amax"] = float(math.floor(c["amin"])), float(math.ceil(c["amax"]) + 1)
    c["forms"] = f
    return c


def gen_cases(ctx):
    for c in gen_cases_(ctx):
        yield add_forms(ctx.rng, c)


def gen_cases_(ctx):
    r = ctx.rng
    # every mode x unit first (small, exact grid), then random combinations
    for mode in MODES:
        for unit in UNITS:
            yield gen_case(r, True, r.randint(2, 6), mode, unit)
    # numeric types: every mode x mixed dtype pairs, both argument orders
    for rep in range(1 if not ctx.thorough else 6):
        for mode in MODES:
            for dt1, dt2 in DTYPE_PAIRS:
                yield gen_typed_case(r, mode, dt1, dt2)
    n_grid, n_rand = (800, 800) if ctx.thorough else (130, 130) if ctx.extended else (65, 65)
    for k in range(n_grid):
        yield gen_case(r, True, r.choice([2, 3, 3, 4, 5, 7, 8, 9, 13, 15, 16, 17, 31, 32, 33, r.randint(2, 40)]))
    for k in range(n_rand):
        big = r.random() < (0.04 if not ctx.thorough else 0.1)
        yield gen_case(r, False, r.choice([255, 256, 257, 500, r.randint(200, 500)]) if big else r.choice([2, 3, 4, 7, 8, 9, 63, 64, 65, r.randint(2, 60)]))


# ----------------------------------------------------------------------------- implementation side
def fl(a):
    return [float(x) for x in np.asarray(a, dtype=float).ravel()]


ARG_FORMS = ["pyfloat", "pyint", "np.float64", "np.float32", "np.int64", "np.int32", "0d", "0d-int"]


def representable(form, x):
    """the value nearest to x that the argument form holds exactly (the case stores that value)"""
    if form in ("pyint", "np.int64", "np.int32", "0d-int"):
        return float(int(round(x)))
    if form == "np.float32":
        return float(np.float32(x))
    return float(x)


def as_form(form, x):
    if x is None or form in (None, "pyfloat"):
        return x
    return {"pyint": lambda v: int(v), "np.float64": np.float64, "np.float32": np.float32, "np.int64": lambda v: np.int64(int(v)),
            "np.int32": lambda v: np.int32(int(v)), "0d": lambda v: np.array(v), "0d-int": lambda v: np.array(int(v))}[form](x)


def make_traj(pos, rot, stamps, dtype=None, layout=None):
    from evo.core.trajectory import PosePath3D, PoseTrajectory3D
    if dtype is not None:       # constructor route: the caller's array type is kept by PosePath3D
        xyz = np.array(pos, dtype=dtype)
        if layout == "strided":         # a non-contiguous view into a larger buffer
            big = np.zeros((2 * len(pos), 6), dtype=dtype)
            big[::2, ::2] = xyz
            xyz = big[::2, ::2]
        elif layout == "fortran":
            xyz = np.asfortranarray(xyz)
        elif layout == "readonly":
            xyz.setflags(write=False)
        elif layout == "list":
            xyz = [list(map(xyz.dtype.type, p)) for p in pos]
        quat = np.array([[1.0, 0.0, 0.0, 0.0]] * len(pos))
        if stamps is None:
            return PosePath3D(positions_xyz=xyz, orientations_quat_wxyz=quat)
        return PoseTrajectory3D(positions_xyz=xyz, orientations_quat_wxyz=quat, timestamps=np.array(stamps, dtype=float))
    poses = []
    for p, m in zip(pos, rot):
        T = np.eye(4)
        T[:3, :3] = np.array(m, dtype=float).reshape(3, 3)
        T[:3, 3] = p
        poses.append(T)
    if stamps is None:
        return PosePath3D(poses_se3=poses)
    return PoseTrajectory3D(poses_se3=poses, timestamps=np.array(stamps, dtype=float))


def line_data(ln):
    if hasattr(ln, "get_data_3d"):
        return [fl(a) for a in ln.get_data_3d()]
    return [fl(ln.get_xdata(orig=True)), fl(ln.get_ydata(orig=True))]


def coll_segments(c):
    """list of segments, each [[p0 coords], [p1 coords]]"""
    if hasattr(c, "_segments3d"):
        return [[fl(v) for v in s] for s in c._segments3d]
    return [[fl(v) for v in s] for s in c.get_segments()]


def scatter_point(c):
    if hasattr(c, "_offsets3d"):
        return [float(np.asarray(a).ravel()[0]) for a in c._offsets3d]
    return fl(np.asarray(c.get_offsets())[0])


def axis_labels(ax):
    return [ax.get_xlabel(), ax.get_ylabel(), ax.get_zlabel() if hasattr(ax, "get_zlabel") else None]


def run_impl(case):
    import warnings
    with warnings.catch_warnings():
        warnings.simplefilter("ignore")
        return run_impl_(case)


def run_impl_(case):
    import matplotlib.pyplot as plt
    from evo.tools import plot
    from evo.tools.settings import SETTINGS
    from evo.core.units import Unit
    out = {}
    mode = plot.PlotMode[case["mode"]]
    unit = Unit[case["unit"]]
    dts = case.get("dtypes") or [None, None]
    forms = case.get("forms") or {}
    START = as_form(forms.get("start"), case["start"])
    SCALE = as_form(forms.get("scale"), case["scale"])
    AMIN, AMAX = as_form(forms.get("map"), case["amin"]), as_form(forms.get("map"), case["amax"])

    def prepared(subplot_fig_only=False):
        """figure-management variants: the figure handed to evo is not pyplot's current one / is a bare Figure / holds a second,
        current Axes; returns (fig, prepared axes or None, witness axes that must stay untouched)"""
        from matplotlib.figure import Figure
        from matplotlib.backends.backend_agg import FigureCanvasAgg
        kind = case.get("figmgmt")
        wit = []
        if kind == "bare":
            fig = Figure()
            FigureCanvasAgg(fig)
            wit.append(plt.figure().add_subplot(111))
        elif kind == "other_current" or (kind == "two_axes" and subplot_fig_only):
            fig = plt.figure()
            wit.append(plt.figure().add_subplot(111))
        elif kind == "two_axes":
            fig = plt.figure()
            wit.append(fig.add_subplot(121))
        else:
            fig = plt.figure()
        if subplot_fig_only:
            return fig, None, wit
        ax = plot.prepare_axis(fig, mode, 122 if kind == "two_axes" else 111, unit)
        if kind == "two_axes":
            plt.sca(wit[0])
        return fig, ax, wit

    def wstate(wit):
        return [[w.get_xlabel(), w.get_ylabel(), w.get_title(), len(w.lines), len(w.collections)] for w in wit]

    lay = case.get("layouts") or [None, None]
    tr = make_traj(case["pos"], case["rot"], case["stamps"], dts[0], lay[0])
    st2 = None
    if case.get("tr2_stamped") and case["stamps"] is not None and len(case["pos2"]) <= len(case["stamps"]):
        # the second trajectory carries timestamps of its own (another clock: offset and drift far beyond any association
        # tolerance): pose correspondences are by index, in pose order, whatever the stamps say
        st2 = [t + 0.75 + 0.013 * k for k, t in enumerate(case["stamps"][:len(case["pos2"])])]
    tr2 = make_traj(case["pos2"], case["rot"][:len(case["pos2"])], st2, dts[1], lay[1])
    if case.get("stamps_readonly") and case["stamps"] is not None:
        tr.timestamps.setflags(write=False)
    for attr in case.get("preread") or []:        # L4: caches materialised before the calls under test
        try:
            getattr(tr, attr)() if attr == "check" else getattr(tr, attr)
        except Exception:  # noqa: BLE001
            pass

    def guarded(name, f):
        try:
            f()
        except plot.PlotException:
            out[name] = "E_PLOT"
        except Exception as e:  # noqa: BLE001 -- a crashing plot function is an oracle failure, not a tool error
            out[name] = f"RAISED {type(e).__name__}: {e}"
        finally:
            plt.close("all")

    def f_idx():
        x, y, z = plot.plot_mode_to_idx(mode)
        out["idx"] = [int(x), int(y), None if z is None else int(z)]
    guarded("idx", f_idx)

    def f_traj():
        via = case["via_trajectories"]
        fig, ax, wit = prepared(subplot_fig_only=bool(via))
        if via:
            names = case.get("names") or ["est", "other", "third"]
            arg = {"dict3": {names[0]: tr, names[1]: tr2, names[2]: tr}, "list3": [tr, tr2, tr], "single": tr}.get(
                via, {names[0]: tr, names[1]: tr2})
            plot.trajectories(fig, arg, mode, plot_start_end_markers=case["markers"], length_unit=unit)
            ax = fig.axes[0]
            nlines = 2
        else:
            plot.traj(ax, mode, tr, "-", "black", "est", plot_start_end_markers=case["markers"])
            nlines = 1
        d = {"labels": axis_labels(ax), "nlines": len(ax.lines), "line": line_data(ax.lines[0]),
             "line_label": ax.lines[0].get_label(), "ncoll": len(ax.collections)}
        if nlines == 2 and len(ax.lines) >= 2:
            d["line2"] = line_data(ax.lines[1])
        d["witness"] = wstate(wit)
        d["all_lines"] = [line_data(ln) for ln in ax.lines]
        d["all_labels"] = [ln.get_label() for ln in ax.lines]
        if len(ax.collections) >= 2:
            d["start"] = scatter_point(ax.collections[0])
            d["end"] = scatter_point(ax.collections[1])
        out["traj"] = d
    guarded("traj", f_traj)

    if case["bad_unit"]:
        def f_bad():
            fig = plt.figure()
            plot.prepare_axis(fig, mode, 111, Unit[case["bad_unit"]])
            out["bad_unit"] = "accepted"
        guarded("bad_unit", f_bad)

    def f_axes():
        fig, ax, wit = prepared()
        plot.draw_coordinate_axes(ax, tr, mode, SCALE)
        if not ax.collections:
            out["axes"] = "NONE"
        else:
            c = ax.collections[-1]
            out["axes"] = {"segs": coll_segments(c), "colors": [fl(x) for x in c.get_color()], "witness": wstate(wit),
                           "labels": axis_labels(ax)}
    guarded("axes", f_axes)

    def f_edges():
        fig, ax, wit = prepared()
        plot.draw_correspondence_edges(ax, tr, tr2, mode)
        out["edges"] = {"segs": coll_segments(ax.collections[-1]), "witness": wstate(wit), "labels": axis_labels(ax)}
    guarded("edges", f_edges)

    def f_cmap():
        fig, ax, wit = prepared()
        plot.traj_colormap(ax, tr, np.array(case["arr"], dtype=case.get("arr_dtype", "float64")), mode, AMIN, AMAX, fig=fig,
                           plot_start_end_markers=case["markers"])
        c = ax.collections[0]
        d = {"segs": coll_segments(c), "colors": [fl(x) for x in c.get_color()], "ncoll": len(ax.collections),
             "cmap": SETTINGS.plot_trajectory_cmap, "witness": wstate(wit), "labels": axis_labels(ax)}
        if len(ax.collections) >= 3:
            d["start"] = scatter_point(ax.collections[1])
            d["end"] = scatter_point(ax.collections[2])
            d["start_color"] = fl(ax.collections[1].get_facecolor()[0])
            d["end_color"] = fl(ax.collections[2].get_facecolor()[0])
        out["cmap"] = d
    guarded("cmap", f_cmap)

    def f_clc():
        colors = ["red"] * case["ncol"]
        lc = plot.colored_line_collection(np.array(case["pos"][:case["clc_n"]], dtype=dts[0] or "float64"), colors, mode, step=case["step"])
        out["clc"] = {"segs": coll_segments(lc)}
    guarded("clc", f_clc)

    def f_xyz():
        fig, axarr = plt.subplots(3)
        plot.traj_xyz(axarr, tr, start_timestamp=START, length_unit=unit)
        out["xyz"] = {"x": [fl(a.lines[0].get_xdata(orig=True)) for a in axarr],
                      "y": [fl(a.lines[0].get_ydata(orig=True)) for a in axarr],
                      "ylabels": [a.get_ylabel() for a in axarr], "xlabel": axarr[2].get_xlabel()}
    guarded("xyz", f_xyz)

    def f_rpy():
        fig, axarr = plt.subplots(3)
        plot.traj_rpy(axarr, tr, start_timestamp=START)
        ang = tr.get_orientations_euler(SETTINGS.euler_angle_sequence)
        out["rpy"] = {"x": [fl(a.lines[0].get_xdata(orig=True)) for a in axarr],
                      "y": [fl(a.lines[0].get_ydata(orig=True)) for a in axarr],
                      "ylabels": [a.get_ylabel() for a in axarr], "xlabel": axarr[2].get_xlabel(),
                      "angles": [fl(row) for row in ang], "seq": SETTINGS.euler_angle_sequence}
    guarded("rpy", f_rpy)

    def f_speeds():
        fig = plt.figure()
        ax = fig.add_subplot(111)
        plot.speeds(ax, tr, start_timestamp=START)
        out["speeds"] = {"x": fl(ax.lines[0].get_xdata(orig=True)), "y": fl(ax.lines[0].get_ydata(orig=True)),
                         "labels": [ax.get_xlabel(), ax.get_ylabel()], "param": fl(tr.speeds)}
    guarded("speeds", f_speeds)

    def f_err():
        fig = plt.figure()
        ax = fig.add_subplot(111)
        plt.sca(ax)
        edt = case.get("err_dtype", "float64")
        x = None if case["err_x"] is None else np.array(case["err_x"], dtype=edt)
        plot.error_array(ax, np.array(case["err"], dtype=edt), x_array=x, cumulative=case["cumulative"],
                         name="err", xlabel="xl")
        out["err"] = {"x": fl(ax.lines[0].get_xdata(orig=True)), "y": fl(ax.lines[0].get_ydata(orig=True)),
                      "labels": [ax.get_xlabel(), ax.get_ylabel()]}
    guarded("err", f_err)

    def f_reuse():
        """L1: the same trajectory object / the same Axes across several calls; each call judged on the object's own data"""
        d = {}
        if case["stamps"] is not None:
            fig = plt.figure()
            ax = fig.add_subplot(111)
            plot.speeds(ax, tr, start_timestamp=START)
            d["speeds1"] = [fl(ax.lines[0].get_xdata(orig=True)), fl(ax.lines[0].get_ydata(orig=True))]
        fig, axarr = plt.subplots(3)
        plot.traj_xyz(axarr, tr, start_timestamp=START, length_unit=unit)
        plot.traj_xyz(axarr, tr, start_timestamp=START, length_unit=unit)          # same axes twice
        d["xyz"] = [[fl(ln.get_xdata(orig=True)), fl(ln.get_ydata(orig=True))] for a in axarr for ln in a.lines]
        fig, axarr = plt.subplots(3)
        plot.traj_rpy(axarr, tr, start_timestamp=START)
        d["rpy_x"] = [fl(a.lines[0].get_xdata(orig=True)) for a in axarr]
        if case["stamps"] is not None:
            fig = plt.figure()
            ax = fig.add_subplot(111)
            plot.speeds(ax, tr, start_timestamp=START)
            plot.speeds(ax, tr, start_timestamp=START)
            d["speeds2"] = [[fl(ln.get_xdata(orig=True)), fl(ln.get_ydata(orig=True))] for ln in ax.lines]
        fig = plt.figure()
        ax = plot.prepare_axis(fig, mode, 111, unit)
        plot.traj(ax, mode, tr, "-", "black", "a")
        plot.draw_correspondence_edges(ax, tr, tr2, mode) if len(case["pos2"]) == len(case["pos"]) else None
        plot.traj(ax, mode, tr, "-", "red", "b")
        d["traj_twice"] = [line_data(ln) for ln in ax.lines]
        # the same Figure and subplot prepared twice, the second time for another mode / unit: the labels are those of the
        # second request (whatever axes object is handed back)
        other_mode = plot.PlotMode[{"xy": "zx", "xz": "yx", "yx": "xz", "yz": "xy", "zx": "yz", "zy": "xz", "xyz": "xyz"}[case["mode"]]]
        other_unit = Unit["millimeters" if case["unit"] != "millimeters" else "meters"]
        fig = plt.figure()
        plot.prepare_axis(fig, mode, 111, unit)
        ax2 = plot.prepare_axis(fig, other_mode, 111, other_unit)
        fig3 = plt.figure()
        ref_ax = plot.prepare_axis(fig3, other_mode, 111, other_unit)
        d["prepared_twice"] = [axis_labels(ax2), axis_labels(ref_ax)]
        out["reuse"] = d
    if case.get("reuse", True):
        guarded("reuse", f_reuse)

    def f_modify():
        """L1 with a modification in between: the trajectory that was plotted above is changed in place (projection,
        transformation, scaling, index reduction) and plotted again; every plot must show the object's data *now*, i.e.
        exactly what the same calls draw for a freshly built trajectory that underwent the same operation"""
        from evo.core.trajectory import Plane
        op = case["modify"]
        fresh = make_traj(case["pos"], case["rot"], case["stamps"], dts[0], lay[0])

        def apply(t):
            if op.startswith("project"):
                t.project(Plane[op.split(":")[1]])
            elif op == "transform":
                T = np.eye(4)
                T[:3, :3] = [[0.0, -1.0, 0.0], [1.0, 0.0, 0.0], [0.0, 0.0, 1.0]]
                T[:3, 3] = [1.0, -2.0, 0.5]
                t.transform(T, right_mul=case.get("modify_right", False))
            elif op == "scale":
                t.scale(2.0)
            else:
                t.reduce_to_ids([0, t.num_poses - 1] if t.num_poses > 1 else [0])

        def draw(t):
            d = {}
            fig = plt.figure()
            ax = plot.prepare_axis(fig, mode, 111, unit)
            plot.draw_coordinate_axes(ax, t, mode, SCALE)
            d["axes"] = coll_segments(ax.collections[-1]) if ax.collections else "NONE"
            fig = plt.figure()
            ax = plot.prepare_axis(fig, mode, 111, unit)
            plot.traj(ax, mode, t, "-", "black", "est", plot_start_end_markers=True)
            d["traj"] = [line_data(ln) for ln in ax.lines]
            d["markers"] = [scatter_point(c) for c in ax.collections]
            fig, axarr = plt.subplots(3)
            plot.traj_xyz(axarr, t, start_timestamp=START, length_unit=unit)
            d["xyz"] = [[fl(ln.get_xdata(orig=True)), fl(ln.get_ydata(orig=True))] for a in axarr for ln in a.lines]
            fig, axarr = plt.subplots(3)
            plot.traj_rpy(axarr, t, start_timestamp=START)
            d["rpy"] = [[fl(ln.get_xdata(orig=True)), fl(ln.get_ydata(orig=True))] for a in axarr for ln in a.lines]
            if case["stamps"] is not None and t.num_poses > 1:
                fig = plt.figure()
                ax = fig.add_subplot(111)
                plot.speeds(ax, t, start_timestamp=START)
                d["speeds"] = [fl(ax.lines[0].get_xdata(orig=True)), fl(ax.lines[0].get_ydata(orig=True))]
            plt.close("all")
            return d
        draw(tr)                 # (again) before the modification: whatever is cached is cached now
        apply(tr)
        apply(fresh)
        same, ref = draw(tr), draw(fresh)
        bad = [k for k in ref if same.get(k) != ref[k]]
        out["modify"] = {"op": op, "differs": bad, "same_object": {k: same[k] for k in bad[:1]}, "fresh": {k: ref[k] for k in bad[:1]}}
    if case.get("modify"):
        guarded("modify", f_modify)
    return out


# ----------------------------------------------------------------------------- model side
def v3list(pts):
    return " ".join([str(len(pts))] + [rat(c) for p in pts for c in p])


def timeargs(case):
    st = case["stamps"]
    return f"{1 if st is not None else 0} {ratlist(st or [])} {'-' if case['start'] is None else rat(case['start'])}"


OPS = ["idx", "labels", "xyzlabels", "traj", "traj2", "startend", "cmap", "cmapmark", "axes", "edges", "clc", "xyz",
       "rpy", "speeds", "speedcore", "err", "badunit"]


def model_lines(case, impl):
    m = case["mode"]
    pos = case["pos"]
    poses = " ".join([str(len(pos))] + [" ".join(rat(v) for v in (r[0], r[1], r[2], p[0], r[3], r[4], r[5], p[1], r[6], r[7], r[8], p[2]))
                                        for p, r in zip(pos, case["rot"])])
    ang = impl["rpy"]["angles"] if isinstance(impl.get("rpy"), dict) else [[0.0, 0.0, 0.0]] * len(pos)
    sp = impl["speeds"]["param"] if isinstance(impl.get("speeds"), dict) else []
    stamps = case["stamps"] or []
    ex = case["err_x"]
    return [f"C20 idx {m}",
            f"C20 labels {m} {hexs(UNITS[case['unit']])}",
            f"C20 xyzlabels {hexs(UNITS[case['unit']])}",
            f"C20 traj {m} {v3list(pos)}",
            f"C20 traj {m} {v3list(case['pos2'])}",
            f"C20 startend {m} {v3list(pos)}",
            f"C20 cmap {m} {v3list(pos)} {ratlist(case['arr'])}",
            f"C20 cmapmark {ratlist(case['arr'])}",
            f"C20 axes {m} {rat(case['scale'])} {poses}",
            f"C20 edges {m} {v3list(pos)} {v3list(case['pos2'])}",
            f"C20 segs {m} {case['step']} {case['ncol']} {v3list(pos[:case['clc_n']])}",
            f"C20 xyz {timeargs(case)} {v3list(pos)}",
            f"C20 rpy {timeargs(case)} {v3list(ang)}",
            f"C20 speeds {ratlist(stamps)} {'-' if case['start'] is None else rat(case['start'])} {ratlist(sp)}",
            f"C20 speedcore {ratlist(stamps)} {v3list(pos)}",
            f"C20 err {1 if case['cumulative'] else 0} {ratlist(case['err'])} {1 if ex is not None else 0} {ratlist(ex or [])}",
            f"C20 labels {m} {hexs(BAD_VALUES.get(case['bad_unit'] or '', 'deg'))}"]


BAD_VALUES = {"degrees": "deg", "seconds": "s", "none": "unit-less", "percent": "%"}


def rats(s):
    return [core.parse_rat(t) for t in s.split()] if s.strip() else []


def unhex(s):
    return None if s == "-" else bytes.fromhex(s).decode()


def chunks(l, k):
    return [l[i:i + k] for i in range(0, len(l), k)]


def parse_segs(s, d):
    """'n v…' -> list of [p0, p1]"""
    if s in ("E_PLOT", "NONE"):
        return s
    v = rats(s)
    n, v = int(v[0]), v[1:]
    return [[seg[:d], seg[d:]] for seg in chunks(v, 2 * d)] if n else []


def parse_series(s):
    return [rats(part) for part in s.split("|")]


def fr(l):
    return [frac(x) for x in l]


def fsegs(segs):
    return [[fr(p) for p in s] for s in segs]


# ----------------------------------------------------------------------------- judge
def judge(ctx, case, impl, outs):
    o = dict(zip(OPS, outs))
    m = case["mode"]
    d = len(m)
    grid = case["kind"] == "grid"
    n = len(case["pos"])

    def differs(what, a, b):
        ctx.mismatch(case, f"{what}: evo differs from the model", a if not isinstance(a, list) else core.trim(a, 6),
                     b if not isinstance(b, list) else core.trim([[str(x) for x in p] if isinstance(p, list) else str(p) for p in b], 6))

    for k, v in impl.items():
        if isinstance(v, str) and v.startswith("RAISED"):
            ctx.fail(case, "plot-function-raised", f"{k}: {v}")
    # ---- correspondence model <-> evo
    if isinstance(impl.get("idx"), list):
        mi = [None if t == "-" else int(t) for t in o["idx"].split()]
        if mi != impl["idx"]:
            differs("plot_mode_to_idx", impl["idx"], mi)
    t = impl.get("traj")
    if isinstance(t, dict):
        ml = [unhex(x) for x in o["labels"].split()]
        if t["labels"] != ml:
            differs("prepare_axis labels", t["labels"], ml)
        pts = chunks(rats(o["traj"]), d)
        want = [[p[c] for p in pts] for c in range(d)]
        if [fr(a) for a in t["line"]] != want:
            differs("traj line data", t["line"], want)
        if "line2" in t:
            pts2 = chunks(rats(o["traj2"]), d)
            if [fr(a) for a in t["line2"]] != [[p[c] for p in pts2] for c in range(d)]:
                differs("trajectories(): second line", t["line2"], pts2)
        ntr = {False: 1, True: 2, "dict3": 3, "list3": 3, "single": 1}[case["via_trajectories"]]
        exp_coll = (2 if case["markers"] else 0) * ntr
        if t["ncoll"] != exp_coll:
            differs("number of marker collections", t["ncoll"], exp_coll)
        if case["markers"] and "start" in t:
            se = rats(o["startend"])
            if fr(t["start"]) + fr(t["end"]) != se:
                differs("start/end markers", t["start"] + t["end"], se)
    elif t == "E_PLOT":
        differs("prepare_axis refused a length unit", t, o["labels"])
    if case["bad_unit"]:
        if (impl.get("bad_unit") == "E_PLOT") != (o["badunit"] == "E_PLOT"):
            differs("prepare_axis with a non-length unit", impl.get("bad_unit"), o["badunit"])
    # colour-mapped segments
    c = impl.get("cmap")
    if isinstance(c, dict):
        v = rats(o["cmap"])
        k, v = int(v[0]), v[1:]
        rows = chunks(v, 2 * d + 1)
        msegs = [[row[:d], row[d:2 * d]] for row in rows]
        mvals = [row[2 * d] for row in rows]
        if fsegs(c["segs"])[:k] != msegs or len(c["segs"]) != n - 1:
            differs("traj_colormap segments", c["segs"], msegs)
        cols = expected_colors(c["cmap"], case["amin"], case["amax"], [float(x) for x in mvals])
        if [list(map(float, x)) for x in c["colors"][:k]] != cols:
            differs("traj_colormap: colour of segment k is not the colour of the model's value k", c["colors"][:3], cols[:3])
        if case["markers"] and "start_color" in c and o["cmapmark"] != "NONE":
            a, b = rats(o["cmapmark"])
            ec = expected_colors(c["cmap"], case["amin"], case["amax"], [float(a), float(b)])
            if [c["start_color"], c["end_color"]] != ec:
                differs("traj_colormap marker colours", [c["start_color"], c["end_color"]], ec)
            se = rats(o["startend"])
            if fr(c["start"]) + fr(c["end"]) != se:
                differs("traj_colormap start/end markers", c["start"] + c["end"], se)
    # coordinate-frame markers
    a = impl.get("axes")
    ma = parse_segs(o["axes"], d)
    if isinstance(a, dict):
        if isinstance(ma, str):
            differs("draw_coordinate_axes drew although the model does not", len(a["segs"]), ma)
        else:
            isegs = fsegs(a["segs"])
            ok = len(isegs) == len(ma)
            if ok:
                mag = max([abs(x) for p in case["pos"] for x in p] + [abs(case["scale"])])
                for s_i, s_m in zip(isegs, ma):
                    if s_i[0] != s_m[0]:
                        ok = False
                    for x, y in zip(s_i[1], s_m[1]):
                        if grid:
                            ok = ok and x == y
                        else:
                            ok = ok and abs(x - y) <= Fraction(64, 2 ** 53) * (frac(mag) + abs(y))
            if not ok:
                differs("draw_coordinate_axes segments", a["segs"], ma)
            exp_cols = [expected_named(["r", "g", "b"][j // n]) for j in range(3 * n)]
            if a["colors"] != exp_cols:
                differs("draw_coordinate_axes colours (x block red, y block green, z block blue)", a["colors"][:3], exp_cols[:3])
    elif a in ("NONE", "E_PLOT"):
        if ma != a:
            differs("draw_coordinate_axes", a, o["axes"][:60])
    # correspondence edges
    e = impl.get("edges")
    me = parse_segs(o["edges"], d)
    if isinstance(e, dict):
        if isinstance(me, str) or fsegs(e["segs"]) != me:
            differs("draw_correspondence_edges segments", e["segs"], me)
    elif e == "E_PLOT" and me != "E_PLOT":
        differs("draw_correspondence_edges refused", e, o["edges"][:60])
    # colored_line_collection with a step
    cl = impl.get("clc")
    mc = parse_segs(o["clc"], d)
    if isinstance(cl, dict):
        if isinstance(mc, str) or fsegs(cl["segs"]) != mc:
            differs("colored_line_collection segments", cl["segs"], mc)
    elif cl == "E_PLOT" and mc != "E_PLOT":
        differs("colored_line_collection refused", cl, o["clc"][:60])
    # xyz / rpy
    for name in ("xyz", "rpy"):
        s = impl.get(name)
        if not isinstance(s, dict):
            continue
        ms = parse_series(o[name])
        for i in range(3):
            if fr(s["x"][i]) != ms[0]:
                differs(f"traj_{name} x values of subplot {i}", s["x"][i], ms[0])
                break
            my = ms[1 + i]
            if name == "rpy":
                my = [frac(float(np.rad2deg(float(v)))) for v in my]
            if fr(s["y"][i]) != my:
                differs(f"traj_{name} y values of subplot {i}", s["y"][i], my)
                break
        if name == "xyz":
            ml = [unhex(x) for x in o["xyzlabels"].split()]
            if s["ylabels"] != ml:
                differs("traj_xyz y labels", s["ylabels"], ml)
    # speeds
    s = impl.get("speeds")
    if isinstance(s, dict):
        ms = parse_series(o["speeds"])
        if fr(s["x"]) != ms[0] or fr(s["y"]) != ms[1]:
            differs("speeds series", [s["x"], s["y"]], ms)
        core_ = rats(o["speedcore"])
        for k, (dsq, dt) in enumerate(chunks(core_, 2)):
            want = math.sqrt(dsq) / dt if dt > 0 else float("nan")
            rel = 1e-5 if (case.get("dtypes") or [None])[0] == "float32" else 64 * 2.0 ** -53 * 4   # float32 positions: evo's norm is single precision
            if not (abs(s["param"][k] - want) <= rel * (abs(want) + 1e-300) + 1e-300):
                differs("traj.speeds value vs rational core", s["param"][k], want)
                break
    elif s == "E_PLOT" and case["stamps"] is not None:
        differs("speeds refused a trajectory with timestamps", s, "series")
    # error array
    s = impl.get("err")
    if isinstance(s, dict):
        ms = parse_series(o["err"])
        if fr(s["x"]) != ms[0] or fr(s["y"]) != ms[1]:
            differs("error_array series", [s["x"], s["y"]], ms)
    ru = impl.get("reuse")
    if isinstance(ru, dict):
        mx = parse_series(o["xyz"])
        for j, (x, y) in enumerate(ru["xyz"]):
            if fr(x) != mx[0] or fr(y) != mx[1 + j // 2]:
                differs(f"object reuse: traj_xyz line {j} after speeds() on the same trajectory", [x[:4], y[:4]], [mx[0][:4], mx[1 + j // 2][:4]])
                break
        if "speeds2" in ru and isinstance(impl.get("speeds"), dict):
            msx = parse_series(o["speeds"])
            for x, y in [ru["speeds1"]] + ru["speeds2"]:
                if fr(x) != msx[0] or fr(y) != msx[1]:
                    differs("object reuse: repeated speeds() on the same trajectory", [x[:4], y[:4]], [msx[0][:4], msx[1][:4]])
                    break
    # ---- oracle: the property sentence on evo's artists, independent of evo's tables and of the model
    oracle(ctx, case, impl)
    # ---- bookkeeping
    ctx.count("dist", f"mode:{m}")
    ctx.count("dist", f"unit:{case['unit']}")
    ctx.count("dist", case["kind"])
    if case.get("dtypes"):
        ctx.count("dist", "dtypes:" + "/".join(case["dtypes"]))
        ctx.count("dist", "layouts:" + "/".join(str(x) for x in case.get("layouts") or []))
    ctx.count("dist", f"via_trajectories:{case['via_trajectories']}")
    ctx.count("dist", f"figmgmt:{case.get('figmgmt')}")
    for k2, v2 in (case.get("forms") or {}).items():
        ctx.count("dist", f"form:{k2}:{v2}")
    ctx.count("branch", "reuse-" + ("done" if isinstance(impl.get("reuse"), dict) else "failed" if case.get("reuse", True) else "not-run"))
    ctx.count("dist", "timestamps" if case["stamps"] is not None else "no-timestamps")
    ctx.count("dist", "start:" + ("none" if case["start"] is None else "zero" if case["start"] == 0 else "given"))
    ctx.count("dist", "n" + ("<=8" if n <= 8 else "<=60" if n <= 60 else ">=200"))
    ctx.count("branch", "3d" if d == 3 else "2d")
    ctx.count("branch", "markers" if case["markers"] else "no-markers")
    ctx.count("branch", "axes-" + ("none" if ma == "NONE" else "drawn"))
    ctx.count("branch", "edges-" + ("refused" if me == "E_PLOT" else "drawn"))
    ctx.count("branch", "clc-" + ("refused" if mc == "E_PLOT" else f"step{case['step']}"))
    ctx.count("branch", "cumulative" if case["cumulative"] else "plain-error")
    ctx.count("branch", "err-x-given" if case["err_x"] is not None else "err-index")
    if case["bad_unit"]:
        ctx.count("branch", "non-length-unit-refused")
    nontrivial = n >= 3 and len({tuple(p) for p in case["pos"]}) > 1
    ctx.record(case, nontrivial)


_CM = {}


def expected_colors(cmap_name, vmin, vmax, values):
    import matplotlib as mpl
    key = (cmap_name, vmin, vmax)
    if key not in _CM:
        _CM.clear()
        _CM[key] = (mpl.colormaps[cmap_name], mpl.colors.Normalize(vmin=vmin, vmax=vmax, clip=True))
    cm_, norm = _CM[key]
    return [[float(x) for x in cm_(float(norm(v)))] for v in values]


def expected_named(c):
    import matplotlib.colors as mc
    return [float(x) for x in mc.to_rgba(c)]


def rot_from_euler_sxyz(roll, pitch, yaw):
    cr, sr, cp, sp, cy, sy = math.cos(roll), math.sin(roll), math.cos(pitch), math.sin(pitch), math.cos(yaw), math.sin(yaw)
    return [cy * cp, cy * sp * sr - sy * cr, cy * sp * cr + sy * sr,
            sy * cp, sy * sp * sr + cy * cr, sy * sp * cr - cy * sr,
            -sp, cp * sr, cp * cr]


def oracle(ctx, case, impl):
    m = case["mode"]
    ax_idx = ["xyz".index(ch) for ch in m]           # the axes *named by the mode*
    d = len(m)
    u = UNITS[case["unit"]]
    pos, pos2 = case["pos"], case["pos2"]
    n = len(pos)
    proj = lambda p: [p[i] for i in ax_idx]          # noqa: E731
    want_labels = [f"${ch}$ ({u})" for ch in m] + ([None] if d == 2 else [])
    tags = {"mode": m}

    for name in ("traj", "axes", "edges", "cmap"):
        v = impl.get(name)
        if not isinstance(v, dict):
            continue
        if any(w != ["", "", "", 0, 0] for w in v.get("witness") or []):
            ctx.fail(case, "labels-and-artists-on-the-given-axes", f"{name} ({case.get('figmgmt')}): another axes / figure gained labels or artists: "
                     f"{v['witness']}", tags)
        if name != "traj" and v.get("labels") is not None and v["labels"] != want_labels:
            ctx.fail(case, "labels-name-plotted-axes-and-unit", f"{name} ({case.get('figmgmt')}): the prepared axes carry {v['labels']}, "
                     f"expected {want_labels}", tags)
    t = impl.get("traj")
    if isinstance(t, dict):
        if t["labels"] != want_labels:
            ctx.fail(case, "labels-name-plotted-axes-and-unit", f"mode {m} unit {u}: labels {t['labels']}, expected {want_labels}", tags)
        want = [[p[i] for p in pos] for i in ax_idx]
        if t["line"] != want:
            ctx.fail(case, "trajectory-line-at-own-coordinates", f"mode {m}: line data differ from positions[:, {ax_idx}]", tags)
        if "line2" in t and t["line2"] != [[p[i] for p in pos2] for i in ax_idx]:
            ctx.fail(case, "trajectory-line-at-own-coordinates", f"mode {m}: second trajectory's line data differ", tags)
        via = case["via_trajectories"]
        seq = {False: [pos], True: [pos, pos2], "dict3": [pos, pos2, pos], "list3": [pos, pos2, pos], "single": [pos]}[via]
        if t.get("all_lines") is not None and t["all_lines"] != [[[p[i] for p in q] for i in ax_idx] for q in seq]:
            ctx.fail(case, "trajectory-line-at-own-coordinates", f"mode {m}: trajectories() ({via}): the lines are not the given trajectories in order", tags)
        if via in (True, "dict3") and t.get("all_labels") != (case.get("names") or ["est", "other", "third"])[:len(seq)]:
            ctx.fail(case, "trajectory-line-at-own-coordinates", f"trajectories(): labels {t.get('all_labels')} are not the dictionary keys", tags)
        if case["markers"]:
            if "start" not in t:
                ctx.fail(case, "start-end-markers", "markers requested but not drawn", tags)
            elif t["start"] != proj(pos[0]) or t["end"] != proj(pos[-1]):
                ctx.fail(case, "start-end-markers", f"markers at {t['start']} / {t['end']}, expected {proj(pos[0])} / {proj(pos[-1])}", tags)
    elif t == "E_PLOT":
        ctx.fail(case, "labels-name-plotted-axes-and-unit", f"length unit {u} refused", tags)
    if case["bad_unit"] and impl.get("bad_unit") == "accepted":
        ctx.fail(case, "labels-name-plotted-axes-and-unit", f"non-length unit {case['bad_unit']} accepted as length unit", tags)

    c = impl.get("cmap")
    if isinstance(c, dict):
        want = [[proj(pos[k]), proj(pos[k + 1])] for k in range(n - 1)]
        if c["segs"] != want:
            ctx.fail(case, "colour-segments-at-own-coordinates", f"mode {m}: segment k is not (pose k, pose k+1)", tags)
        k = min(len(case["arr"]), n - 1)
        cols = expected_colors(c["cmap"], case["amin"], case["amax"], case["arr"][:k])
        if c["colors"][:k] != cols:
            bad = next(i for i in range(k) if i >= len(c["colors"]) or c["colors"][i] != cols[i])
            ctx.fail(case, "colour-segments-in-pose-order", f"segment {bad} does not carry the colour of array value {bad}", tags)
        if case["markers"] and "start" in c and (c["start"] != proj(pos[0]) or c["end"] != proj(pos[-1])):
            ctx.fail(case, "start-end-markers", "colour-map markers not at first/last position", tags)

    a = impl.get("axes")
    if isinstance(a, dict):
        if case["scale"] <= 0:
            ctx.fail(case, "frame-markers-start-at-pose", "markers drawn for non-positive scale", tags)
        elif len(a["segs"]) != 3 * n:
            ctx.fail(case, "frame-markers-start-at-pose", f"{len(a['segs'])} marker segments for {n} poses", tags)
        else:
            sc = frac(case["scale"])
            mag = max(abs(x) for p in pos for x in p) + abs(case["scale"])
            tol = Fraction(64, 2 ** 53) * frac(mag) * 2
            for j, s in enumerate(a["segs"]):
                axis, i = divmod(j, n)
                if s[0] != proj(pos[i]):
                    ctx.fail(case, "frame-markers-start-at-pose", f"marker {j} starts at {s[0]}, pose {i} is at {proj(pos[i])}", tags)
                    break
                col = [case["rot"][i][3 * r + axis] for r in range(3)]
                tip = [frac(pos[i][r]) + sc * frac(col[r]) for r in range(3)]
                if any(abs(frac(x) - tip[r]) > tol for x, r in zip(s[1], ax_idx)):
                    ctx.fail(case, "frame-markers-point-along-pose-axes",
                             f"marker {j} (axis {'xyz'[axis]} of pose {i}) ends at {s[1]}, expected {[float(tip[r]) for r in ax_idx]}", tags)
                    break
            if a["colors"] != [expected_named("rgb"[j // n]) for j in range(3 * n)]:
                ctx.fail(case, "frame-markers-point-along-pose-axes", "marker colours are not red/green/blue by axis", tags)
    elif a == "NONE" and case["scale"] > 0:
        ctx.fail(case, "frame-markers-start-at-pose", "no markers drawn for positive scale", tags)

    e = impl.get("edges")
    if isinstance(e, dict):
        if len(pos2) != n:
            ctx.fail(case, "correspondence-edges", "edges drawn for trajectories of different length", tags)
        elif e["segs"] != [[proj(pos[k]), proj(pos2[k])] for k in range(n)]:
            ctx.fail(case, "correspondence-edges", f"mode {m}: edge k does not join pose k of trajectory 1 and pose k of trajectory 2", tags)
    elif e == "E_PLOT" and len(pos2) == n:
        ctx.fail(case, "correspondence-edges", "edges refused for trajectories of equal length", tags)

    st = case["stamps"]
    start = case["start"]
    if st is not None:
        tx = [s - start for s in st] if start is not None else list(st)
        tlabel = "$t$ (s)"
    else:
        tx = [float(k) for k in range(n)]
        tlabel = "index"
    s = impl.get("xyz")
    if isinstance(s, dict):
        for i in range(3):
            if s["x"][i] != tx:
                ctx.fail(case, "xyz-against-time", f"subplot {i}: x values are not timestamps{' - start' if start is not None else ''} / indices", tags)
                break
            if s["y"][i] != [p[i] for p in pos]:
                ctx.fail(case, "xyz-against-time", f"subplot {i} does not show coordinate {'xyz'[i]}", tags)
                break
        if s["ylabels"] != [f"${ch}$ ({u})" for ch in "xyz"] or s["xlabel"] != tlabel:
            ctx.fail(case, "xyz-against-time", f"labels {s['ylabels']} / {s['xlabel']}", tags)
    s = impl.get("rpy")
    if isinstance(s, dict) and s["seq"] == "sxyz":
        if any(x != tx for x in s["x"]):
            ctx.fail(case, "rpy-against-time", "x values are not the (shifted) timestamps / indices", tags)
        elif any(len(y) != n for y in s["y"]):
            ctx.fail(case, "rpy-against-time", "wrong number of angle values", tags)
        else:
            for k in range(n):
                R = rot_from_euler_sxyz(*[math.radians(s["y"][i][k]) for i in range(3)])
                if max(abs(x - y) for x, y in zip(R, case["rot"][k])) > 1e-9:
                    ctx.fail(case, "rpy-against-time", f"pose {k}: plotted roll/pitch/yaw do not reproduce the pose's rotation", tags)
                    break
        if s["ylabels"] != ["$roll$ (deg)", "$pitch$ (deg)", "$yaw$ (deg)"] or s["xlabel"] != tlabel:
            ctx.fail(case, "rpy-against-time", f"labels {s['ylabels']} / {s['xlabel']}", tags)
    s = impl.get("speeds")
    if st is None:
        if s != "E_PLOT":
            ctx.fail(case, "speed-against-time", "speeds accepted a path without timestamps", tags)
    elif isinstance(s, dict):
        if s["x"] != tx[1:]:
            ctx.fail(case, "speed-against-time", "speed k is not shown at the stamp of the newer pose k+1", tags)
        else:
            for k in range(n - 1):
                dsq = sum((frac(pos[k + 1][i]) - frac(pos[k][i])) ** 2 for i in range(3))
                want = math.sqrt(dsq) / float(frac(st[k + 1]) - frac(st[k]))
                rel = 1e-5 if (case.get("dtypes") or [None])[0] == "float32" else 1e-12
                if k >= len(s["y"]) or abs(s["y"][k] - want) > rel * (abs(want) + 1e-300) + 1e-300:
                    ctx.fail(case, "speed-against-time", f"value {k} is not the speed between poses {k} and {k + 1}", tags)
                    break
        if s["labels"] != ["$t$ (s)", "$v$ (m/s)"]:
            ctx.fail(case, "speed-against-time", f"labels {s['labels']}", tags)
    elif s == "E_PLOT":
        ctx.fail(case, "speed-against-time", "speeds refused a trajectory with timestamps", tags)
    ru = impl.get("reuse")
    if isinstance(ru, dict):
        want_line = [[p[i] for p in pos] for i in ax_idx]
        if any(x != tx or y != [p[j // 2] for p in pos] for j, (x, y) in enumerate(ru["xyz"])) or len(ru["xyz"]) != 6:
            ctx.fail(case, "xyz-against-time", "a trajectory plotted again (after speeds(), twice on the same axes) is not shown at its own "
                     "coordinates against its own timestamps", tags)
        if any(x != tx for x in ru["rpy_x"]):
            ctx.fail(case, "rpy-against-time", "traj_rpy after speeds()/traj_xyz on the same trajectory: x values are not its timestamps", tags)
        if "speeds2" in ru:
            for x, y in [ru["speeds1"]] + ru["speeds2"]:
                if x != tx[1:] or y != ru["speeds1"][1]:
                    ctx.fail(case, "speed-against-time", "speeds() repeated on the same trajectory: x is not the newer stamp / values changed", tags)
                    break
        if "prepared_twice" in ru and ru["prepared_twice"][0] != ru["prepared_twice"][1]:
            ctx.fail(case, "labels-name-plotted-axes", f"a subplot prepared a second time for another mode / unit carries the labels "
                     f"{ru['prepared_twice'][0]} instead of {ru['prepared_twice'][1]}", tags)
        if ru["traj_twice"] != [want_line, want_line]:
            ctx.fail(case, "trajectory-line-at-own-coordinates", "the same trajectory drawn twice into one Axes: line data differ", tags)
    mo = impl.get("modify")
    if isinstance(mo, dict):
        if mo["differs"]:
            clause = {"axes": "frame-markers-at-pose", "traj": "trajectory-line-at-own-coordinates", "markers": "start-end-markers",
                      "xyz": "xyz-against-time", "rpy": "rpy-against-time", "speeds": "speed-against-time"}[mo["differs"][0]]
            ctx.fail(case, clause, f"after the in-place operation {mo['op']} on an already plotted trajectory the plots {mo['differs']} do "
                     f"not show its current poses (they differ from what the same calls draw for a freshly built trajectory "
                     f"after the same operation): {str(mo['same_object'])[:120]} vs {str(mo['fresh'])[:120]}", tags)
        ctx.count("branch", "modify:" + mo["op"])
    elif isinstance(mo, str) and not (mo == "E_PLOT"):
        # TrajectoryException of project()/reduce on degenerate input is evo's refusal, anything else was raised by a plot call
        if "TrajectoryException" not in mo:
            ctx.fail(case, "no-unexpected-exception", f"re-plotting after {case.get('modify')}: {mo[:160]}", tags)
    s = impl.get("err")
    if isinstance(s, dict):
        ex = case["err_x"] if case["err_x"] is not None else [float(k) for k in range(n)]
        if s["x"] != ex:
            ctx.fail(case, "error-values-against-x", "x values are not the given x array / the index", tags)
        elif not case["cumulative"] and s["y"] != case["err"]:
            ctx.fail(case, "error-values-against-x", "y values are not the error values in order", tags)
        elif case["cumulative"]:
            acc, ok = Fraction(0), len(s["y"]) == n
            for k in range(n if ok else 0):
                acc += frac(case["err"][k])
                ok = ok and abs(frac(s["y"][k]) - acc) <= Fraction(n, 2 ** 50) * (abs(acc) + 1)
            if not ok:
                ctx.fail(case, "error-values-against-x", "cumulative y values are not the running sums", tags)
        if s["labels"] != ["xl", "err"]:
            ctx.fail(case, "error-values-against-x", f"labels {s['labels']}", tags)


# ----------------------------------------------------------------------------- driver glue
def shrink(case):
    n = len(case["pos"])
    if n > 2:
        for keep in (n // 2, n - 1):
            keep = max(2, keep)
            c = dict(case)
            c["pos"], c["rot"] = case["pos"][:keep], case["rot"][:keep]
            c["pos2"] = case["pos2"][:keep - (n - len(case["pos2"]))] if len(case["pos2"]) != n else case["pos2"][:keep]
            c["stamps"] = None if case["stamps"] is None else case["stamps"][:keep]
            c["arr"] = case["arr"][:keep - (n - len(case["arr"]))]
            c["err"] = case["err"][:keep]
            c["err_x"] = None if case["err_x"] is None else case["err_x"][:keep]
            c["ncol"] = keep // case["step"] if case["step"] > 1 else keep
            c["clc_n"] = keep
            yield c
    for key, val in (("markers", False), ("via_trajectories", False), ("cumulative", False), ("bad_unit", None)):
        if case[key] != val:
            c = dict(case)
            c[key] = val
            yield c


def evaluate(ctx, cases):
    impls = [run_impl(c) for c in cases]
    lines = []
    for c, i in zip(cases, impls):
        lines += model_lines(c, i)
    outs = core.run_driver(lines)
    k = len(OPS)
    for j, c in enumerate(cases):
        try:
            judge(ctx, c, impls[j], outs[k * j: k * j + k])
        except Exception as e:  # noqa: BLE001 -- unreadable artist data is an oracle failure, not a harness crash
            ctx.fail(c, "artist-data-readable", f"{type(e).__name__}: {e}"[:300], {"mode": c["mode"]})


def check(ctx):
    lean = core.lean_side(ctx.prop, ctx.tier, pre_build=plotmodes.regenerate)
    core.drift(ctx, MODELLED)
    cases = list(gen_cases(ctx))
    evaluate(ctx, cases)
    core.shrink_all(ctx, shrink, evaluate, budget=60)
    return core.finish(ctx, lean, rule=RULE,
                       open_clauses=["rendering (pixels, projection of 3-D axes, autoscaling) is matplotlib's: the claim ends at the artists' data and label strings",
                                     "Euler angles of traj_rpy and traj.speeds enter the model as parameters (checked by the oracle: angles reproduce the rotation, speeds = distance/dt)",
                                     "tips of coordinate-frame markers: exact on the grid stream, 64 ulp on the random stream (numpy dot rounding)",
                                     "ros_map(), PlotCollection, error_array's statistics lines/legend are outside the property"],
                       assumptions=["Agg backend, default evo settings (plot_xyz_realistic, euler_angle_sequence sxyz, cmap jet)",
                                    "start_timestamp is a finite float or None"])


def replay(ctx, data):
    core.sh("lake build drv_C20", cwd=core.LEAN)
    evaluate(ctx, [data["case"]])
    return core.finish_replay(ctx)
