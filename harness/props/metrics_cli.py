"""CLI part shared by C01 (evo_ape) and C02 (evo_rpe): files in a temp dir, `run(parser().parse_args(argv))`
in-process with `--save_results`, the driver's plan interpreted with evo's core API on fresh copies
(bit-identical comparison), and an oracle pipeline written from the documented option semantics whose final
pose pairs are evaluated with the textbook definition in exact arithmetic."""
import copy
import io
import os
import shutil
import tempfile

import numpy as np

import core
from core import Fraction, frac, rat
from props import metrics_common as mc

LEN_FACTOR = {"mm": 1e3, "cm": 1e2, "m": 1.0, "km": 1e-3}


# ------------------------------------------------------------------------------------------------ generator
def gen_traj_pair(r, n, fmt, base, off):
    """reference and estimate as rows7 (+stamps); estimate = similarity-transformed noisy copy on a sub-sampled,
    jittered time grid; `off` is the time offset the estimate clock lags behind"""
    from props.C02 import walk
    ref12 = walk(r, n, r.choice([0.3, 2.0]), 0.4, stationary=r.choice([0.0, 0.0, 0.2]))
    s = r.choice([1.0, 1.0, 0.5, 2.5])
    T = mc.rigid_T(r, exact=False)
    est12 = []
    for p in ref12:
        m = mc.pose12_to_np(p)
        m[:3, 3] = m[:3, 3] * s + np.array([r.gauss(0, 0.02) for _ in range(3)])
        dq = mc.quat_to_mat(mc.axis_angle_quat(mc.rand_unit(r, 3), r.uniform(0, 0.05)))
        m[:3, :3] = m[:3, :3] @ np.array(dq)
        est12.append(mc.np_to_pose12(T @ m))
    dt = 0.1
    if fmt == "euroc":
        ns0 = int(base * 1e9)
        ref_ns = [ns0 + k * 100000000 for k in range(n)]
        ref_stamps = [t / 1e9 for t in ref_ns]
    else:
        ref_ns = None
        ref_stamps = [base + k * dt for k in range(n)]
    keep = [k for k in range(n) if r.random() < 0.85] or [0]
    if fmt == "kitti":
        keep = list(range(n))
    est_stamps = [ref_stamps[k] + r.uniform(-0.004, 0.004) - off for k in keep]
    est12 = [est12[k] for k in keep]
    if fmt != "kitti" and r.random() < 0.3:
        # extra estimate poses outside the reference range
        extra = r.randint(1, 3)
        last = est_stamps[-1]
        for e in range(extra):
            est_stamps.append(last + (e + 1) * dt)
            est12.append(est12[-1])
    return {"ref12": ref12, "est12": est12, "ref_stamps": ref_stamps, "est_stamps": est_stamps, "ref_ns": ref_ns}


def gen_grid_case(r, which):
    """exact-grid CLI case: dyadic stamps (multiples of 1/8, estimate shifted by 0, +-1/64), thresholds hit exactly
    (max_diff = 1/64, t_start/t_end on stamps, motion-filter distance = a 3-4-5 step), quarter-turn rotations,
    dyadic positions: every float operation of the selection steps is exact"""
    fmt = r.choice(["tum", "tum", "kitti", "euroc"])
    n = r.randint(6, 14)
    pos = [0.0, 0.0, 0.0]
    ref12 = []
    R = r.choice(mc.AXIS_ROTS)
    # path-pair variant (evo_rpe, delta in metres): fine rational steps so that | path - delta | falls between
    # rel_tol and delta * rel_tol; no geometry options, so the path lengths stay on the exact grid
    fine = which == "rpe" and r.random() < 0.35
    for k in range(n):
        if r.random() < 0.8:
            step = r.choice([(3, 4, 0), (0, 3, 4), (4, 0, 3), (-3, 0, 4), (0, 0, 0), (6, 8, 0)]) if not fine else \
                r.choice([(0, 0, 1), (0, 0, 2), (0, 0, 3), (3, 4, 0), (0, 1, 0), (0, 0, 0), (0, 0, 5)])
            pos = [pos[i] + step[i] / 8 for i in range(3)]
        if r.random() < 0.4:
            R = r.choice(mc.AXIS_ROTS)
        ref12.append(mc.mat_pose(R, pos))
    T = mc.rigid_T(r, exact=True)
    sc = r.choice([1.0, 1.0, 0.5, 2.0])
    est12 = []
    for p in ref12:
        m = mc.pose12_to_np(p)
        m[:3, 3] = m[:3, 3] * sc
        est12.append(mc.np_to_pose12(T @ m))
    off = None
    if fmt != "kitti" and r.random() < 0.5:
        off = r.choice([0.5, -0.5, 0.03125, -0.03125])
    base = r.choice([-0.5, 0.0, 16.0])
    if fmt == "euroc":
        ns0 = 1400000000 * 10 ** 9
        ref_ns = [ns0 + k * 125000000 for k in range(n)]
        ref_stamps = [t / 1e9 for t in ref_ns]
    else:
        ref_ns = None
        ref_stamps = [base + k / 8 for k in range(n)]
    keep = list(range(n)) if fmt == "kitti" else ([k for k in range(n) if r.random() < 0.85] or [0])
    est_stamps = [ref_stamps[k] + r.choice([0, 0, 1, -1, 2]) / 64 - (off or 0.0) for k in keep]
    if fmt == "tum" and len(est_stamps) > 2 and r.random() < 0.15:
        k = r.randrange(1, len(est_stamps))
        est_stamps[k] = est_stamps[k - 1]          # duplicate stamp in the estimate (contested / tied counterparts)
    data = {"ref12": ref12, "est12": [est12[k] for k in keep], "ref_stamps": ref_stamps, "est_stamps": est_stamps,
            "ref_ns": ref_ns}
    o = {"pose_relation": r.choice(mc.RELS[:6] if which == "ape" else mc.RELS)}
    if fmt != "kitti":
        o["t_max_diff"] = r.choice([0.015625, 0.015625, 0.03125, 0.0, 0.25])
        if r.random() < 0.4:
            o["t_start"] = r.choice(ref_stamps)
        if r.random() < 0.4:
            o["t_end"] = r.choice(ref_stamps)
        if r.random() < 0.3:
            o["motion_filter"] = [r.choice([0.625, 1.25, 0.0]), 400.0]
    if r.random() < 0.3:
        o["downsample"] = r.choice([2, 3, n - 1, n, max(2, n // 2)])
    k = r.random()
    if fine:
        pass
    elif k < 0.3:
        o["align"] = True
    elif k < 0.45:
        o["align_origin"] = True
    if not fine and r.random() < 0.3:
        o["correct_scale"] = True
    if fine:
        o["delta_unit"] = "m"
        o["delta"] = r.choice([0.5, 2.5, 1.25, 0.25, 2.0])
        o["delta_tol"] = r.choice([0.1, 0.5, 0.25, 0.125])
        o["all_pairs"] = r.random() < 0.8
        if r.random() < 0.5:
            o["pairs_from_reference"] = True
    elif which == "rpe":
        u = r.choice(["f", "f", "m"])
        o["delta_unit"] = u
        o["delta"] = {"f": r.choice([1.0, 2.0]), "m": r.choice([0.625, 1.25])}[u]
        if r.random() < 0.4:
            o["all_pairs"] = True
        if r.random() < 0.5:
            o["pairs_from_reference"] = True
        if r.random() < 0.3:
            o["delta_tol"] = r.choice([0.5, 0.25])
    return {"kind": "cli", "which": which, "stream": "grid", "fmt": fmt, "data": data, "off": off, "opts": o}


def gen_rigid_case(r, which):
    """the estimate is an exact rigid (or similarity) image of the reference — planar (z = 0), seen from a frame with
    the opposite "up", exactly three poses or `--n_to_align 3`: Umeyama alignment must bring every error to zero"""
    fmt = r.choice(["tum", "kitti"])
    shape = r.choice(["planar", "planar-flipped", "three", "general"])
    n = 3 if shape == "three" else r.randint(4, 10)
    pos, ref12 = [0.0, 0.0, 0.0], []
    for k in range(n):
        step = r.choice([(3, 4, 0), (4, -3, 0), (-3, 4, 0), (6, 8, 0), (0, 5, 0)]) if shape != "general" else \
            r.choice([(3, 4, 0), (0, 3, 4), (4, 0, 3), (-3, 0, 4)])
        pos = [pos[i] + step[i] / 8 for i in range(3)]
        Rz = r.choice([m for m in mc.AXIS_ROTS if m[2][2] == 1.0]) if shape != "general" else r.choice(mc.AXIS_ROTS)
        ref12.append(mc.mat_pose(Rz, pos))
    T = np.eye(4)
    if shape == "planar-flipped":
        T[:3, :3] = np.array(r.choice([m for m in mc.AXIS_ROTS if m[2][2] == -1.0]))     # opposite "up"
    elif shape == "planar":
        T[:3, :3] = np.array(r.choice([m for m in mc.AXIS_ROTS if m[2][2] == 1.0]))
    else:
        T[:3, :3] = np.array(r.choice(mc.AXIS_ROTS))
    T[:3, 3] = [r.randint(-16, 16) / 8, r.randint(-16, 16) / 8, 0.0 if shape.startswith("planar") else r.randint(-8, 8) / 8]
    o = {"pose_relation": r.choice(["trans_part", "full", "rot_part", "angle_rad", "point_distance"]), "align": True}
    sc = 1.0
    if r.random() < 0.4:
        sc = r.choice([0.5, 2.0])
        o["correct_scale"] = True
    if shape != "three" and r.random() < 0.5:
        o["n_to_align"] = 3
    est12 = []
    for p in ref12:
        m = mc.pose12_to_np(p)
        m[:3, 3] = m[:3, 3] * sc
        est12.append(mc.np_to_pose12(T @ m))
    stamps = [k / 4 for k in range(n)]
    if fmt != "kitti":
        o["t_max_diff"] = r.choice([0.0, 0.25, 0.01])
    if which == "rpe":
        o["delta"], o["delta_unit"] = 1.0, "f"
    data = {"ref12": ref12, "est12": est12, "ref_stamps": stamps, "est_stamps": list(stamps), "ref_ns": None}
    return {"kind": "cli", "which": which, "stream": "rigid", "rigid_copy": True, "shape": shape, "fmt": fmt, "data": data,
            "off": None, "opts": o}


def gen_opts(r, which, fmt, data):
    n = len(data["ref12"])
    o = {"pose_relation": r.choice(mc.RELS[:6] if which == "ape" else mc.RELS)}
    k = r.random()
    if k < 0.25:
        o["align"] = True
    elif k < 0.4:
        o["align_origin"] = True
    if r.random() < 0.35:
        o["correct_scale"] = True
    if (o.get("align") or o.get("correct_scale")) and r.random() < 0.4:
        o["n_to_align"] = r.choice([3, max(3, n // 2), 1, 2, -2, 100])
    if r.random() < 0.25:
        o["downsample"] = r.choice([0, max(2, n // 2), max(3, n - 2), 1000, -1, 1, n])
    if r.random() < 0.2:
        o["motion_filter"] = [r.choice([0.0, 0.2, 1.0]), r.choice([0.0, 5.0, 20.0])]
    if r.random() < 0.3:
        o["project_to_plane"] = r.choice(["xy", "xz", "yz"])
    if r.random() < 0.3:
        rel = o["pose_relation"]
        if rel in ("trans_part", "point_distance"):
            o["change_unit"] = r.choice(["mm", "cm", "km", "m", "deg"])
        elif rel in ("angle_deg", "angle_rad"):
            o["change_unit"] = r.choice(["deg", "rad", "mm"])
        else:
            o["change_unit"] = r.choice(["mm", "deg"])
    if fmt != "kitti":
        t0, t1 = data["ref_stamps"][0], data["ref_stamps"][-1]
        if r.random() < 0.35:
            o["t_start"] = r.choice([t0 + 0.25 * (t1 - t0), t0, 0.0])
        if r.random() < 0.3:
            o["t_end"] = r.choice([t0 + 0.8 * (t1 - t0), t1, 0.0 if t0 < 0 else t1 + 1])
        if r.random() < 0.3:
            o["t_max_diff"] = r.choice([0.001, 0.02, 0.05, "1e-2", "5E-3", 0.0])
    if which == "rpe":
        u = r.choice(["f", "f", "m", "d", "r"])
        o["delta_unit"] = u
        o["delta"] = {"f": r.choice([1.0, 2.0, 3.0]), "m": r.choice([0.5, 1.5]), "d": r.choice([5.0, 15.0]),
                      "r": r.choice([0.1, 0.3])}[u]
        if r.random() < 0.4:
            o["all_pairs"] = True
        if r.random() < 0.5:
            o["pairs_from_reference"] = True
        if r.random() < 0.25:
            o["delta_tol"] = r.choice([0.05, 0.3, 0.0, "1e-1"])
        if r.random() < 0.08 and (u != "f" or o.get("all_pairs")):
            o["delta"] = 0.0
    return o


NAMES = [("ref.txt", "est.txt"), ("ref traj.txt", "est traj.txt"), ("r\u00e9f.txt", "\u00e9st.txt"), ("1e3", "b.tum"),
         ("ref.txt ", "est.kitti"), ("a.zip", "-.txt")]
SPELLINGS = ["abs", "abs", "rel", "dot", "updown"]


def decorate(r, case, pool):
    """L2/L7/L9/L10 variants of a CLI case: file names from an adversarial set, path spellings (relative to the working
    directory, ./f, sub/../f), the same file as reference and estimate, a previous run on the same paths with other content"""
    if case["fmt"] != "euroc":
        case["names"] = list(r.choice(NAMES))
    case["spelling"] = r.choice(SPELLINGS)
    if case["fmt"] != "euroc" and r.random() < 0.06:
        case["same_file"] = True
    if pool and r.random() < 0.15:
        other = r.choice(pool)
        if other["fmt"] == case["fmt"]:
            case["prewrite"] = other["data"]
    pl = case.get("opts", {}).get("project_to_plane")
    if pl and not any(case["opts"].get(k) for k in ("align", "correct_scale", "align_origin")) and r.random() < 0.6 \
            and isinstance(case.get("data"), dict) and "ref12" in case["data"]:
        # positions that already lie exactly in the plane (2-D SLAM / wheel odometry: z = 0 throughout) with full 3-D
        # orientations: the projection must still make every orientation a rotation about the normal
        idx = {"xy": 11, "xz": 7, "yz": 3}[pl]
        for key in ("ref12", "est12"):
            case["data"][key] = [[0.0 if j == idx else v for j, v in enumerate(p)] for p in case["data"][key]]
        case["flat_positions"] = True
    if r.random() < 0.06:
        # options outside the model that run BEFORE the result is saved: plotting (to a file) with colour-map bounds inside the
        # error range / a percentile bound; they must not change what is stored (the stored values are the computed ones)
        case["plot_extra"] = r.choice([["--plot_colormap_min", "0", "--plot_colormap_max", "0.05"], ["--plot_colormap_max_percentile", "50"],
                                       ["--plot_colormap_min", "0", "--plot_colormap_max", "1e9"], ["--plot_colormap_max_percentile", "10"], []])
    return case


def gen_cli_cases(ctx, which):
    pool = []
    for c in gen_cli_cases0(ctx, which):
        c = decorate(ctx.rng, c, pool)
        pool.append(c)
        yield c


def gen_cli_cases0(ctx, which):
    r = ctx.rng
    n_cases = 120 if not ctx.thorough else 2500
    # corpus: F9 (t_start 0 with stamps straddling zero), offset signs, crop on the reference only
    data = gen_traj_pair(r, 10, "tum", -0.5, 0.0)
    yield {"kind": "cli", "which": which, "fmt": "tum", "data": data, "off": None,
           "opts": dict({"pose_relation": "trans_part", "t_start": 0.0}, **({"delta": 1.0, "delta_unit": "f"} if which == "rpe" else {}))}
    yield {"kind": "cli", "which": which, "fmt": "tum", "data": data, "off": None,
           "opts": dict({"pose_relation": "trans_part", "t_end": 0.0}, **({"delta": 1.0, "delta_unit": "f"} if which == "rpe" else {}))}
    for _ in range(60 if not ctx.thorough else 1200):
        yield gen_grid_case(r, which)
    for _ in range(30 if not ctx.thorough else 400):
        yield gen_rigid_case(r, which)
    for _ in range(n_cases):
        fmt = r.choice(["tum", "tum", "kitti", "euroc"])
        n = r.randint(6, 24)
        base = r.choice([-0.5, 0.0, 100.0, 1.5e9 + r.randint(0, 10 ** 6)]) if fmt != "euroc" else 1.4e9 + r.randint(0, 10 ** 6)
        off = None
        if fmt != "kitti" and r.random() < 0.4:
            off = r.choice([0.5, -0.5, 0.03, -0.03, 2.0])
        data = gen_traj_pair(r, n, fmt, base, off or 0.0)
        yield {"kind": "cli", "which": which, "fmt": fmt, "data": data, "off": off, "opts": gen_opts(r, which, fmt, data)}


# ------------------------------------------------------------------------------------------------ tables
def check_tables(ctx, which):
    """T: every `-r` choice of the real parser → PoseRelation (common.get_pose_relation) → unit of the metric,
    against the model's tables (driver op `relinfo`)"""
    import argparse
    from evo import common_ape_rpe as common
    from evo.core import metrics
    if which == "ape":
        from evo import main_ape_parser as mp
    else:
        from evo import main_rpe_parser as mp
    choices = None
    sub = [a for a in mp.parser()._actions if isinstance(a, argparse._SubParsersAction)][0]
    for a in sub.choices["tum"]._actions:
        if a.dest == "pose_relation":
            choices = list(a.choices)
    prop = "C01" if which == "ape" else "C02"
    outs = core.run_driver([f"{prop} relinfo {c}" for c in choices], prop)
    table = {}
    for c, o in zip(choices, outs):
        rel = common.get_pose_relation(argparse.Namespace(pose_relation=c))
        unit = (metrics.APE(rel) if which == "ape" else metrics.RPE(rel)).unit.value
        got = f"{rel.value}|{unit}"
        f = o.split("|")
        want = "BAD-OP" if len(f) != 3 else f"{f[0]}|{f[1] if which == 'ape' else f[2]}"
        table[c] = got
        if got != want:
            ctx.mismatch({"kind": "table", "choice": c}, f"-r {c}: relation/unit table differs from the model", got, want)
    ctx.notes["relation_table"] = table
    ctx.count("branch", "relation-unit-table", len(choices))


# ------------------------------------------------------------------------------------------------ API re-evaluation histories
def gen_api_cases(ctx):
    """the same in-memory trajectory objects (pose matrices materialised) associated and evaluated by main_ape.ape()
    several times with different planes / relations"""
    r = ctx.rng
    for _ in range(12 if not ctx.thorough else 150):
        data = gen_traj_pair(r, r.randint(6, 14), "tum", r.choice([0.0, 100.0]), 0.0)
        evals = []
        for _ in range(r.randint(2, 4)):
            if r.random() < 0.65:
                evals.append({"plane": r.choice(["xy", "xz", "yz"]), "rel": r.choice(["trans_part", "point_distance"])})
            else:
                evals.append({"plane": None, "rel": r.choice(["trans_part", "angle_rad", "rot_part", "full", "angle_deg"])})
        yield {"kind": "api2", "which": "ape", "data": data, "evals": evals}


def build_originals(data):
    from evo.core.trajectory import PoseTrajectory3D
    ref = PoseTrajectory3D(poses_se3=[mc.pose12_to_np(p) for p in data["ref12"]], timestamps=np.array(data["ref_stamps"]))
    est = PoseTrajectory3D(poses_se3=[mc.pose12_to_np(p) for p in data["est12"]], timestamps=np.array(data["est_stamps"]))
    return ref, est


def one_api_eval(ref_o, est_o, ev):
    from evo import main_ape
    from evo.core import sync
    from evo.core.trajectory import Plane
    with mc.quiet():
        r, e = sync.associate_trajectories(ref_o, est_o, 0.01, 0.0)
        res = main_ape.ape(r, e, mc.pose_relation(ev["rel"]), project_to_plane=Plane(ev["plane"]) if ev["plane"] else None)
    return [float(v) for v in res.np_arrays["error_array"]], [float(t) for t in r.timestamps], [float(t) for t in e.timestamps]


def evaluate_api(ctx, case):
    from props import C01 as P1
    data = case["data"]
    ref_o, est_o = build_originals(data)
    for k, ev in enumerate(case["evals"]):
        try:
            vals, rs, es = one_api_eval(ref_o, est_o, ev)                      # the same originals, again and again
            fvals, frs, fes = one_api_eval(*build_originals(data), ev)          # fresh objects from the same numbers
        except Exception as e:  # noqa
            ctx.mismatch(case, f"evaluation {k} raised {type(e).__name__}", str(e)[:100], None)
            break
        if vals != fvals or rs != frs or es != fes:
            ctx.mismatch(case, f"evaluation {k} ({ev}) of re-used trajectory objects differs from the evaluation of fresh objects",
                         vals[:5], fvals[:5])
        # oracle from the pristine numbers: pairs by stamp, in-plane distance / textbook definition without projection
        ri = [data["ref_stamps"].index(t) for t in frs]
        ei = [data["est_stamps"].index(t) for t in fes]
        keep = {"xy": (3, 7), "xz": (3, 11), "yz": (7, 11), None: (3, 7, 11)}[ev["plane"]]
        for j, (a, b) in enumerate(zip(ri, ei)):
            pr, pe = mc.F12(data["ref12"][a]), mc.F12(data["est12"][b])
            if ev["rel"] in ("trans_part", "point_distance"):
                want = mc.fsqrt(sum((pe[c] - pr[c]) ** 2 for c in keep))
            else:
                want = P1.textbook_ape(ev["rel"], pr, pe)
            tol = 64 * mc.tolerance(ev["rel"], [data["ref12"][a], data["est12"][b]], want)
            if j >= len(vals) or not abs(vals[j] - want) <= tol:
                ctx.fail(case, "api-reevaluation-value-equals-definition",
                         f"evaluation {k} ({ev}): value {j} is {vals[j] if j < len(vals) else None!r}, definition on the given poses {want!r}")
                break
        ctx.count("branch", "api-reevaluation:" + str(ev["plane"]))
    ctx.record(case, True)


# ------------------------------------------------------------------------------------------------ files, argv
def file_names(case):
    if case["fmt"] == "euroc":
        return "data.csv", "est.txt"
    rn, en = case.get("names", ("ref.txt", "est.txt"))
    return rn, (rn if case.get("same_file") else en)


def spell(case, d, name):
    """the path of file `name` in directory `d` as given on the command line (the working directory is `d`)"""
    sp = case.get("spelling", "abs")
    if sp == "rel":
        return name if not name.startswith("-") else "./" + name
    if sp == "dot":
        return "./" + name
    if sp == "updown":
        return "sub/../" + name
    return os.path.join(d, name)


def write_files(case, d, data=None):
    data, fmt = data or case["data"], case["fmt"]
    rn, en = file_names(case)
    os.makedirs(os.path.join(d, "sub"), exist_ok=True)
    ref, est = os.path.join(d, rn), os.path.join(d, en)
    if fmt == "kitti":
        mc.write_kitti(ref, data["ref12"])
        mc.write_kitti(est, data["est12"])
    else:
        est7 = mc.to_quat_rows(data["est12"])
        mc.write_tum(est, data["est_stamps"], est7)
        ref7 = mc.to_quat_rows(data["ref12"])
        if fmt == "euroc":
            mc.write_euroc(ref, data["ref_ns"], ref7)
        elif not case.get("same_file"):
            mc.write_tum(ref, data["ref_stamps"], ref7)
    if case.get("same_file") and fmt == "kitti":
        mc.write_kitti(ref, data["est12"])
    return spell(case, d, rn), spell(case, d, en)


def argv_of(case, ref, est, zip_path):
    o = case["opts"]
    a = [case["fmt"], ref, est, "-r", o["pose_relation"], "--save_results", zip_path, "--no_warnings", "--silent"]
    for flag in ("align", "correct_scale", "align_origin", "all_pairs", "pairs_from_reference"):
        if o.get(flag):
            a.append("--" + flag)
    for key in ("n_to_align", "downsample", "project_to_plane", "change_unit", "t_start", "t_end", "t_max_diff",
                "delta", "delta_unit", "delta_tol"):
        if o.get(key) is not None:
            v = o[key]
            a.append(f"--{key}={v!r}" if isinstance(v, float) else f"--{key}={v}")     # strings (1e-2) verbatim
    if case.get("off") is not None:
        a.append(f"--t_offset={case['off']!r}")
    if o.get("motion_filter") is not None:
        a += ["--motion_filter", repr(o["motion_filter"][0]), repr(o["motion_filter"][1])]
    if case.get("plot_extra") is not None:
        a += ["--save_plot", os.path.join(os.path.dirname(zip_path) or ".", "plot_out.pdf")] + list(case["plot_extra"])
    return a


def opt_rat(x):
    return "-" if x is None else rat(x)


def plan_line(which, args):
    """the parsed argparse namespace → the model's option tokens"""
    has_stamps = args.subcommand != "kitti"
    mf = args.motion_filter
    toks = ["1" if has_stamps else "0",
            "-" if args.downsample is None else str(int(args.downsample)),
            "-" if mf is None else rat(mf[0]), "-" if mf is None else rat(mf[1]),
            opt_rat(getattr(args, "t_start", None)), opt_rat(getattr(args, "t_end", None)),
            rat(getattr(args, "t_max_diff", 0.01)), rat(getattr(args, "t_offset", 0.0)),
            "1" if args.align else "0", "1" if args.correct_scale else "0", str(int(args.n_to_align)),
            "1" if args.align_origin else "0", args.project_to_plane or "-", args.pose_relation, args.change_unit or "-"]
    if which == "rpe":
        toks += [rat(args.delta), args.delta_unit, rat(args.delta_tol), "1" if args.all_pairs else "0",
                 "1" if args.pairs_from_reference else "0"]
    return ("C01" if which == "ape" else "C02") + " plan " + " ".join(toks)


# ------------------------------------------------------------------------------------------------ running evo
_PARSERS = {}


def the_parser(which):
    """one parser object per tool for the whole process (L1: parser reuse)"""
    if which not in _PARSERS:
        if which == "ape":
            from evo import main_ape_parser as mp
        else:
            from evo import main_rpe_parser as mp
        _PARSERS[which] = mp.parser()
    return _PARSERS[which]


def run_cli(case):
    """evo_ape / evo_rpe in-process; returns the stored arrays (bytes) or the exception class"""
    from evo.tools.settings import SETTINGS
    if case["which"] == "ape":
        from evo import main_ape as main
    else:
        from evo import main_rpe as main
    d = tempfile.mkdtemp(prefix="evo_verif_cli_")
    cwd = os.getcwd()
    old = SETTINGS.save_traj_in_zip
    try:
        os.chdir(d)
        SETTINGS.save_traj_in_zip = True
        zp = os.path.join(d, "res.zip")
        if case.get("prewrite"):
            # L2: an earlier run of the tool on the same paths with other content (and an existing result file)
            ref, est = write_files(case, d, data=case["prewrite"])
            try:
                with mc.quiet():
                    main.run(the_parser(case["which"]).parse_args(argv_of(case, ref, est, zp)))
            except Exception:  # noqa
                pass
        ref, est = write_files(case, d)
        argv = argv_of(case, ref, est, zp)
        out = {"argv": [a.replace(d, "<dir>") for a in argv]}
        with mc.quiet():
            args = the_parser(case["which"]).parse_args(argv)
        out["plan_line"] = plan_line(case["which"], args)
        if case.get("prewrite") and os.path.exists(zp):
            os.utime(zp, (1, 1))
        try:
            with mc.quiet():
                main.run(args)
            out["exc"] = None
        except Exception as e:  # noqa
            out["exc"] = type(e).__name__
            out["exc_msg"] = str(e)[:200]
        if out["exc"] is None:
            if case.get("prewrite") and os.path.getmtime(zp) == 1:
                out["exc"] = "ResultNotWritten"
            else:
                z = mc.read_zip_arrays(zp)
                out["error_array"] = z["error_array"]
                out["timestamps"] = z.get("timestamps")
                import zipfile
                rn, en = file_names(case)
                if not case.get("same_file"):
                    with zipfile.ZipFile(zp) as zf:
                        out["trajs"] = {}
                        for n in zf.namelist():
                            if n.endswith((".tum", ".kitti")):
                                base = os.path.basename(n.rsplit(".", 1)[0])
                                out["trajs"]["ref" if base == rn else "est"] = zf.read(n)
        out["dir"] = d
        return out
    except Exception:
        shutil.rmtree(d, ignore_errors=True)
        raise
    finally:
        os.chdir(cwd)
        SETTINGS.save_traj_in_zip = old


def load_fresh(case, d):
    from evo.tools import file_interface as fi
    fmt = case["fmt"]
    rn, en = file_names(case)
    ref, est = os.path.join(d, rn), os.path.join(d, en)
    with mc.quiet():
        if fmt == "kitti":
            return fi.read_kitti_poses_file(ref), fi.read_kitti_poses_file(est)
        if fmt == "euroc":
            return fi.read_euroc_csv_trajectory(ref), fi.read_tum_trajectory_file(est)
        return fi.read_tum_trajectory_file(ref), fi.read_tum_trajectory_file(est)


def parse_plan(s):
    return [st.split() for st in s.split(" | ")] if s.strip() else []


def opt_float(tok):
    return None if tok == "-" else float(core.parse_rat(tok))


def apply_steps(steps, ref, est, stop_before_metric=False, capture=None, own_assoc=None):
    """interpret a list of steps ([name, args…], rationals as p/q text or floats) with evo's core API;
    `capture` (a dict) receives the poses the metric step sees"""
    from evo.core import sync, metrics
    from evo.core.trajectory import Plane
    from evo.core.units import Unit
    metric = None

    def num(x):
        return float(core.parse_rat(x)) if isinstance(x, str) else x
    GEO = ("align", "align_origin", "project", "ape", "rpe")
    with mc.quiet():
        for st in steps:
            op = st[0]
            if capture is not None and op in GEO and "sel_ref" not in capture:
                capture["sel_ref"], capture["sel_est"] = mc.seen_poses(ref), mc.seen_poses(est)
            if op == "downsample":
                ref.downsample(int(st[1]))
                est.downsample(int(st[1]))
            elif op == "E_FILTER":
                from evo.core.filters import FilterException
                raise FilterException("plan: motion filter on trajectories without timestamps")
            elif op == "motion_filter":
                if capture is not None:
                    capture["mf_ref"], capture["mf_est"] = motion_par(ref), motion_par(est)
                ref.motion_filter(num(st[1]), num(st[2]), True)
                est.motion_filter(num(st[1]), num(st[2]), True)
            elif op == "crop_ref":
                s = None if st[1] in ("-", None) else num(st[1])
                e = None if st[2] in ("-", None) else num(st[2])
                ref.reduce_to_time_range(s, e)
            elif op == "associate" and own_assoc is not None:
                # oracle: the association of the property text, not evo's (exact arithmetic on the stamps)
                i1, i2, margin = own_associate(ref.timestamps, est.timestamps, num(st[1]), num(st[2]))
                mag = max([abs(float(x)) for x in list(ref.timestamps) + list(est.timestamps)] + [1.0])
                if own_assoc["grid"] or margin > Fraction(32, 2 ** 52) * frac(mag):
                    own_assoc["used"] = True
                    if not i1:
                        raise sync.SyncException("oracle: no pose pair within max_diff")
                    ref, est = copy.deepcopy(ref), copy.deepcopy(est)
                    ref.reduce_to_ids(i1)
                    est.reduce_to_ids(i2)
                else:
                    ref, est = sync.associate_trajectories(ref, est, num(st[1]), num(st[2]))
            elif op == "associate":
                ref, est = sync.associate_trajectories(ref, est, num(st[1]), num(st[2]))
            elif op == "align":
                kind, n = st[1], int(st[2])
                rv = est.align(ref, correct_scale=kind in ("sim3", "scale_only"), correct_only_scale=kind == "scale_only", n=n)
                if capture is not None:
                    capture["ume"] = (np.array(rv[0], dtype=float), np.array(rv[1], dtype=float), float(rv[2]))
            elif op == "align_origin":
                est.align_origin(ref)
            elif op == "project":
                ref.project(Plane(st[1]))
                est.project(Plane(st[1]))
                if capture is not None:
                    capture["dirs_ref"], capture["dirs_est"] = dirs_of(ref, st[1]), dirs_of(est, st[1])
            elif op == "ape":
                if stop_before_metric:
                    return ref, est, None
                if capture is not None:
                    capture["ref"], capture["est"] = mc.seen_poses(ref), mc.seen_poses(est)
                metric = metrics.APE(mc.pose_relation(st[1]))
                metric.process_data((ref, est))
            elif op == "rpe":
                if stop_before_metric:
                    return ref, est, None
                unit = {"f": Unit.frames, "m": Unit.meters, "r": Unit.radians, "d": Unit.degrees}[st[3]]
                if capture is not None:
                    capture["ref"], capture["est"] = mc.seen_poses(ref), mc.seen_poses(est)
                    capture["driving"] = ref if st[6] in ("1", True) else est
                    capture["pc"] = {"delta": num(st[2]), "unit": st[3], "tol": num(st[4]), "all_pairs": st[5] in ("1", True)}
                    capture["driving"] = copy.deepcopy(capture["driving"])
                    capture["pairs_par"] = pairs_par(capture["driving"], st[3], st[5] in ("1", True))
                metric = metrics.RPE(mc.pose_relation(st[1]), num(st[2]), unit, num(st[4]), st[5] in ("1", True),
                                     st[6] in ("1", True))
                metric.process_data((ref, est))
            elif op == "change_unit":
                metric.change_unit(Unit(st[1]))
            elif op == "reduce_to_first_and_pair_ends":
                ids = [0] + list(metric.delta_ids)
                ref.reduce_to_ids(ids)
                est.reduce_to_ids(ids)
            else:
                raise core.ToolError("unknown plan step " + op)
        if metric is not None:
            metric.get_result()      # result assembly of ape()/rpe(): statistics of the error array
    return ref, est, metric


# ------------------------------------------------------------------------------------------------ Params of Model/Pipeline
def motion_par(traj):
    """what filter_by_motion looks at: accumulated distances and pairwise rotation angles (radians, evo's own
    float primitives) of the trajectory entering the filter"""
    from evo.core import geometry, lie_algebra as lie
    poses = traj.poses_se3
    acc = geometry.accumulated_distances(np.array([p[:3, 3] for p in poses]))
    tri = []
    for i in range(len(poses) - 1):
        for j in range(i + 1, len(poses)):
            tri.append(lie.so3_log_angle(lie.relative_so3(poses[i][:3, :3], poses[j][:3, :3])))
    return {"acc": [float(x) for x in acc], "tri": [float(x) for x in tri]}


def dirs_of(traj, plane):
    """(cos phi, sin phi) of the rotation about the plane normal that project() stored"""
    out = []
    for p in traj.poses_se3:
        if plane == "xy":
            out.append((float(p[0, 0]), float(p[1, 0])))
        elif plane == "xz":
            out.append((float(p[0, 0]), float(p[0, 2])))
        else:
            out.append((float(p[1, 1]), float(p[2, 1])))
    return out


def pairs_par(traj, unit, all_pairs):
    """what id_pairs_from_delta looks at in the driving trajectory: step lengths, consecutive and pairwise
    relative angles (radians), computed with evo's own float primitives (as in harness/props/C10.py)"""
    from props import C10
    poses = traj.poses_se3
    steps = [float(np.linalg.norm(b[:3, 3] - a[:3, 3])) for a, b in zip(poses, poses[1:])]
    cang = [float(x) for x in C10.evo_consec_angles(poses)]
    tri = []
    if unit in ("r", "d") and all_pairs:
        with mc.quiet():
            for i in range(len(poses) - 1):
                tri += [float(x) for x in C10.evo_pair_angles(poses, i)]
    return {"steps": steps, "cang": cang, "tri": tri}


def traj_tokens(stamps, rows12):
    return core.ratlist(stamps) + " " + mc.poselist(rows12)


def run_line(which, impl, cap):
    """`run` request of the driver: options as parsed by evo's parser, Params from the interpreted run, the two
    input trajectories as loaded by evo's readers (exact rationals)"""
    opts = impl["plan_line"].split(" ", 2)[2]
    e = {"acc": [], "tri": []}
    mr, me = cap.get("mf_ref", e), cap.get("mf_est", e)
    R, t, sc = cap.get("ume", (np.eye(3), np.zeros(3), 1.0))
    ume = " ".join(rat(float(x)) for x in list(R.reshape(-1)) + list(t.reshape(-1)) + [sc])
    dr = [x for cs in cap.get("dirs_ref", []) for x in cs]
    de = [x for cs in cap.get("dirs_est", []) for x in cs]
    pp = cap.get("pairs_par", {"steps": [], "cang": [], "tri": []})
    par = " ".join([rat(float(np.pi)), core.ratlist(mr["acc"]), core.ratlist(mr["tri"]), core.ratlist(me["acc"]),
                    core.ratlist(me["tri"]), ume, core.ratlist(dr), core.ratlist(de), core.ratlist(pp["steps"]),
                    core.ratlist(pp["cang"]), core.ratlist(pp["tri"])])
    return (f"{'C01' if which == 'ape' else 'C02'} run {opts} {par} "
            f"{traj_tokens(*cap['in_ref'])} {traj_tokens(*cap['in_est'])}")


def compare_model_run(ctx, case, impl, run, which):
    """Model/Pipeline.lean executed on the input trajectories against what evo_ape / evo_rpe stored:
    refusal class, kept poses (index lists -> input poses, stamps) exactly, values to tolerance"""
    from props import C02 as P2
    out = run.get("model_run")
    if out is None:
        return
    cap = run["capture"]
    fields = [f.strip() for f in out.split("|")]
    mtoks = fields[-1].split()
    margin = core.parse_rat(mtoks[0])                                   # selection phase (stamps, motion filter)
    pmargin = core.parse_rat(mtoks[1]) if len(mtoks) > 1 else None      # pair selection (distances / angles)
    grid = case.get("stream") in ("grid", "rigid")
    mag = max([abs(x) for x in cap["in_ref"][0] + cap["in_est"][0]] + [1.0])
    slack = Fraction(32, 2 ** 52) * frac(mag) if case["fmt"] != "kitti" else Fraction(1, 10 ** 12)
    # the pair selection runs on the processed estimate/reference: after an alignment its positions are no longer on
    # the exact grid, so its margin is applied to the grid stream too
    aligned = any(case["opts"].get(k) for k in ("align", "correct_scale", "align_origin", "project_to_plane"))
    pslack = Fraction(1, 10 ** 9)
    if (not grid and margin < slack) or (pmargin is not None and pmargin < pslack and (not grid or aligned)):
        ctx.skipped += 1
        ctx.count("branch", "model-run-borderline-skipped")
        return
    head = fields[0]
    if head.startswith("E:"):
        cls = head[2:]
        if cls == "BAD-PARAMS":
            ctx.mismatch(case, "Pipeline rejects the Params built from evo's run", impl["exc"], head)
        elif impl["exc"] != cls:
            ctx.mismatch(case, f"evo_{which} outcome differs from Pipeline.{which}Run", impl["exc"] or "stored a result", cls)
        else:
            ctx.count("branch", "model-run-refusal:" + cls)
        return
    if impl["exc"] is not None:
        ctx.mismatch(case, f"evo_{which} raised but Pipeline.{which}Run returns a result", impl["exc"], "OK")
        return
    unit = head.split()[1]
    rel = case["opts"]["pose_relation"]
    fac = 1.0 if unit == "-" else unit_factor(rel, unit)
    in_ref, in_est = cap["in_ref"][1], cap["in_est"][1]
    sel_ref, sel_est = cap.get("sel_ref"), cap.get("sel_est")
    vals = [float(v) for v in impl["error_array"].reshape(-1)]
    if which == "ape":
        ref_ids = [int(x) for x in fields[1].split()]
        est_ids = [int(x) for x in fields[2].split()]
        stamps = [core.parse_rat(x) for x in fields[3].split()]
        toks = fields[4].split()
        if [in_ref[i] for i in ref_ids] != sel_ref or [in_est[i] for i in est_ids] != sel_est:
            ctx.mismatch(case, "poses kept by evo_ape are not the input poses named by Pipeline.apeRun's index lists",
                         len(sel_ref), [ref_ids[:12], est_ids[:12]])
            return
        where = [(k, k) for k in range(len(toks))]
    else:
        delta_ids = [int(x) for x in fields[1].split()]
        rp = [tuple(map(int, x.split(":"))) for x in fields[2].split()]
        ep = [tuple(map(int, x.split(":"))) for x in fields[3].split()]
        stamps = [core.parse_rat(x) for x in fields[4].split()]
        toks = fields[5].split()
        if delta_ids != [int(j) for j in run["metric"].delta_ids]:
            ctx.mismatch(case, "delta_ids of evo_rpe differ from Pipeline.rpeRun", list(run["metric"].delta_ids)[:12], delta_ids[:12])
            return
        ok = len(rp) == len(delta_ids) == len(ep)
        for k, j in enumerate(delta_ids):
            ok = ok and in_ref[rp[k][1]] == sel_ref[j] and in_est[ep[k][1]] == sel_est[j]
        if not ok:
            ctx.mismatch(case, "pair ends of evo_rpe are not the input poses named by Pipeline.rpeRun", None, [rp[:8], ep[:8]])
            return
        where = None
    if case["fmt"] != "kitti":
        got = [frac(float(x)) for x in impl["timestamps"]]
        if got != stamps:
            ctx.mismatch(case, f"timestamps stored by evo_{which} differ from Pipeline.{which}Run", [float(x) for x in got[:6]],
                         [float(x) for x in stamps[:6]])
            return
    if len(toks) != len(vals):
        ctx.mismatch(case, f"evo_{which} stored {len(vals)} values, Pipeline.{which}Run {len(toks)}", len(vals), len(toks))
        return
    allp = in_ref + in_est + cap["ref"] + cap["est"]
    m = max([abs(x) for p in allp for x in p] + [1.0])
    for k, (v, tok) in enumerate(zip(vals, toks)):
        f = tok.split(":")
        mv = mc.value_of_core(tok) if not (f[0] == "R" and core.parse_rat(f[1]) == 0) else float("nan")
        extra = 1.0
        if f[0] == "R":
            extra = 100.0 / max(mc.fsqrt(core.parse_rat(f[1])), 1e-300)
        if rel == "angle_deg":
            extra = mc.DEG
        tol = 4096 * float(mc.U) * (m * extra + abs(mv)) * abs(fac)
        if not abs(v - mv * fac) <= tol:
            ctx.mismatch(case, f"value {k} stored by evo_{which} differs from Pipeline.{which}Run ({rel})", v, mv * fac)
            return
    ctx.count("branch", "cli-end-to-end-model-run" + (":grid" if grid else ""))
    ctx.notes["cli_runs_checked_end_to_end"] = ctx.notes.get("cli_runs_checked_end_to_end", 0) + 1


# ------------------------------------------------------------------------------------------------ oracle primitives
def own_associate(s1, s2, md, off):
    """time association from the property text, in exact arithmetic on the given stamps: every pose of the shorter
    trajectory is paired with its nearest counterpart (first on ties) if |t1 - (t2 + offset)| <= max_diff; a
    counterpart claimed twice goes to the closer (earlier on equal distance). Returns (ids1, ids2, margin)."""
    t1, t2, md, off = [frac(x) for x in s1], [frac(x) for x in s2], frac(md), frac(off)
    first_drives = len(t2) > len(t1)
    drive, other = (t1, t2) if first_drives else (t2, t1)
    d = (lambda a, b: abs(b + off - a)) if first_drives else (lambda a, b: abs(a + off - b))
    raw, margin = [], Fraction(1)
    for i, a in enumerate(drive):
        ds = [d(a, b) for b in other]
        j = min(range(len(ds)), key=lambda k: (ds[k], k))
        srt = sorted(ds)
        if len(srt) > 1 and srt[1] != srt[0]:
            margin = min(margin, srt[1] - srt[0])
        if ds[j] != md:
            margin = min(margin, abs(ds[j] - md))
        if ds[j] <= md:
            raw.append((i, j, ds[j]))
    kept = [m for m in raw if not any(o[1] == m[1] and (o[2] < m[2] or (o[2] == m[2] and o[0] < m[0])) for o in raw)]
    a, b = [m[0] for m in kept], [m[1] for m in kept]
    return (a, b, margin) if first_drives else (b, a, margin)


def exact_len(p, q):
    """|p - q| of two 12-float poses as an exact rational, None when it is irrational"""
    import math
    sq = sum((frac(p[c]) - frac(q[c])) ** 2 for c in (3, 7, 11))
    n, dn = math.isqrt(sq.numerator), math.isqrt(sq.denominator)
    return Fraction(n, dn) if n * n == sq.numerator and dn * dn == sq.denominator else None


def own_path_pairs(rows, delta, tol, all_pairs):
    """pairs for a delta in metres from the property text (exact arithmetic; None when a step length is irrational):
    consecutive: a pair ends where the path since the last pair end reaches delta; all pairs: for every i the pose j > i
    whose path distance from i is closest to delta (first on ties), kept if | path - delta | <= tol (= delta * rel_tol)"""
    steps = [exact_len(a, b) for a, b in zip(rows, rows[1:])]
    if any(x is None for x in steps):
        return None
    delta, tol = frac(delta), frac(tol)
    acc = [Fraction(0)]
    for x in steps:
        acc.append(acc[-1] + x)
    if not all_pairs:
        ids, cur = [], Fraction(0)
        for i, x in enumerate([Fraction(0)] + steps):
            cur += x
            if cur >= delta:
                ids.append(i)
                cur = Fraction(0)
        return list(zip(ids, ids[1:]))
    out = []
    for i in range(len(acc) - 1):
        dv = [abs(acc[j] - acc[i] - delta) for j in range(i + 1, len(acc))]
        c = min(range(len(dv)), key=lambda k: (dv[k], k))
        if dv[c] <= tol:
            out.append((i, c + i + 1))
    return out


def documented_steps(case, which):
    """the pipeline as documented (evo_ape --help, wiki): down-sampling and motion filter on both trajectories before
    the synchronisation; time range on the reference; association with max_diff and offset; Umeyama alignment
    (-a: SE(3), -as: Sim(3), -s alone: scale only) over the first n_to_align poses; origin alignment; projection after
    the alignment; the metric; the unit change. Written from the option help texts, independent of the Lean plan."""
    o = case["opts"]
    st = []
    if o.get("downsample"):
        st.append(["downsample", o["downsample"]])
    if o.get("motion_filter") is not None:
        if case["fmt"] == "kitti":
            return st + [["E_FILTER"]]       # refused after the down-sampling that precedes it
        st.append(["motion_filter", o["motion_filter"][0], o["motion_filter"][1]])
    if case["fmt"] != "kitti":
        if o.get("t_start") is not None or o.get("t_end") is not None:
            st.append(["crop_ref", o.get("t_start"), o.get("t_end")])
        st.append(["associate", float(o.get("t_max_diff", 0.01)), case["off"] if case.get("off") is not None else 0.0])
    a, s = bool(o.get("align")), bool(o.get("correct_scale"))
    if a or s:
        st.append(["align", "sim3" if (a and s) else "se3" if a else "scale_only", o.get("n_to_align", -1)])
    if o.get("align_origin"):
        st.append(["align_origin"])
    if o.get("project_to_plane"):
        st.append(["project", o["project_to_plane"]])
    st.append(["ape" if which == "ape" else "rpe"])
    return st


# ------------------------------------------------------------------------------------------------ oracle on the CLI output
def unit_factor(rel, new):
    """expected multiplier of the error values for --change_unit, None = conversion must be refused"""
    cur = {"trans_part": "m", "point_distance": "m", "angle_deg": "deg", "angle_rad": "rad",
           "point_distance_error_ratio": "%"}.get(rel, "none")
    if new is None or new == cur:
        return 1.0
    if cur in LEN_FACTOR and new in LEN_FACTOR:
        return LEN_FACTOR[new]
    if cur == "deg" and new == "rad":
        return 1.0 / mc.DEG
    if cur == "rad" and new == "deg":
        return mc.DEG
    return None


def is_evo_exception(name):
    import evo
    from evo.core import sync, filters, geometry, metrics, trajectory, lie_algebra, result
    from evo.tools import file_interface
    for mod in (sync, filters, geometry, metrics, trajectory, lie_algebra, result, file_interface):
        c = getattr(mod, name, None)
        if isinstance(c, type) and issubclass(c, evo.EvoException):
            return True
    return name == "EvoException"


def cli_oracle(ctx, case, impl, which):
    from props import C01 as P1, C02 as P2
    from evo import EvoException
    o = case["opts"]
    rel = o["pose_relation"]
    steps = documented_steps(case, which)
    want_exc = None
    ref = est = None
    grid = case.get("stream") in ("grid", "rigid")
    # a raw Python / numpy error of the run is a failing input, except the two documented observations
    # (Umeyama on zero poses: ZeroDivisionError; ratio relation with every pair skipped: ValueError, judged below)
    if impl["exc"] is not None and not is_evo_exception(impl["exc"]) and impl["exc"] not in ("ZeroDivisionError", "ValueError"):
        ctx.fail(case, "cli-raw-exception", f"evo_{which} ended in {impl['exc']}: {impl.get('exc_msg')}",
                 tags={"exception": impl["exc"]})
        return None
    own = {"grid": grid, "used": False}
    if steps == "FilterException":
        want_exc = "FilterException"
    else:
        try:
            ref, est = load_fresh(case, impl["dir"])
            ref, est, _ = apply_steps(steps, ref, est, stop_before_metric=True, own_assoc=own)
            if own["used"]:
                ctx.count("branch", "oracle-own-association")
        except core.ToolError:
            raise
        except Exception as e:  # noqa (L12): evo's exceptions and raw Python errors of its primitives alike
            want_exc = type(e).__name__
    fac = unit_factor(rel, o.get("change_unit"))
    if want_exc is None and ref.num_poses != est.num_poses:
        want_exc = "MetricsException"
    pairs = None
    if want_exc is None and which == "rpe":
        pc = {"delta": o.get("delta", 1.0), "unit": o.get("delta_unit", "f"), "tol": float(o.get("delta_tol", 0.1)),
              "all_pairs": bool(o.get("all_pairs"))}
        try:
            driving = ref if o.get("pairs_from_reference") else est
            pairs = P2.evo_pairs(pc, driving)
            geo = any(o.get(k) for k in ("align", "correct_scale", "align_origin", "project_to_plane"))
            if grid and pc["unit"] == "m" and not geo and pc["delta"] > 0:
                # exact grid: the pair definition of the property text decides, not evo's selection
                mine = own_path_pairs(mc.seen_poses(driving), pc["delta"], frac(pc["delta"]) * frac(pc["tol"]), pc["all_pairs"])
                if mine is not None:
                    pairs = mine or None
                    ctx.count("branch", "oracle-own-path-pairs")
        except Exception as e:  # delta not integral for frames etc.
            want_exc = type(e).__name__
        if pairs is None and want_exc is None:
            want_exc = "FilterException"
    if want_exc is None and fac is None:
        want_exc = "MetricsException"
    if want_exc is not None:
        if impl["exc"] is None:
            ctx.fail(case, "cli-refusal", f"documented pipeline raises {want_exc}, evo_{which} stored {len(impl['error_array'])} values")
        return want_exc
    if impl["exc"] is not None:
        if impl["exc"] == "ValueError" and which == "rpe" and rel == "point_distance_error_ratio" and pairs is not None:
            eref = [mc.F12(p) for p in mc.seen_poses(ref)]
            if all(P2.dist_sq(eref[i], eref[j]) == 0 for i, j in pairs):
                # outside the property (decision of the coordinator): values and pair ends are both empty, evo then fails
                # in the statistics of the empty array; mirrored by the model (RunErr.valueError), counted as a branch
                ctx.count("branch", "all-pairs-skipped-valueerror")
                return "ValueError"
        ctx.fail(case, "cli-runs", f"evo_{which} raised {impl['exc']}: {impl.get('exc_msg')} but the documented pipeline succeeds")
        return None
    vals = [float(v) for v in impl["error_array"].reshape(-1)]
    sref, sest = mc.seen_poses(ref), mc.seen_poses(est)
    eref, eest = [mc.F12(p) for p in sref], [mc.F12(p) for p in sest]
    pim = {"seen_ref": sref, "seen_est": sest}
    if which == "ape":
        want = [(k, k, P1.textbook_ape(rel, eref[k], eest[k])) for k in range(len(eref))]
        want_stamps = None if case["fmt"] == "kitti" else est.timestamps
    else:
        want = []
        for (i, j) in pairs:
            w = P2.textbook_rpe(rel, eref[i], eref[j], eest[i], eest[j])
            if w is not None:
                want.append((i, j, w))
        want_stamps = None if case["fmt"] == "kitti" else est.timestamps[[j for _, j, _ in want]]
    if len(vals) != len(want):
        ctx.fail(case, "cli-values-for-exactly-the-remaining-pairs",
                 f"evo_{which} stored {len(vals)} values, {len(want)} pose pairs remain after the requested processing")
        return None
    if want_stamps is not None:
        got = impl["timestamps"]
        if got is None or np.asarray(got).tobytes() != np.asarray(want_stamps, dtype=float).tobytes():
            ctx.fail(case, "cli-timestamps-of-the-remaining-pairs",
                     f"stored timestamps {None if got is None else list(got[:5])} … expected {list(want_stamps[:5])} …")
            return None
    if case.get("rigid_copy"):
        # the estimate is an exact similarity image of the reference: every error is zero after the alignment
        m = max([abs(x) for p in case["data"]["ref12"] + case["data"]["est12"] for x in p] + [1.0])
        ztol = 1e-8 * m * (mc.DEG if rel == "angle_deg" else 1.0) * abs(fac)
        bad = [k for k, v in enumerate(vals) if not abs(v) <= ztol]
        if bad:
            ctx.fail(case, "cli-zero-for-a-rigid-copy-after-alignment",
                     f"{rel}: value {bad[0]} is {vals[bad[0]]!r} although the estimate is an exact rigid/similarity image of the reference")
            return None
        ctx.count("branch", "rigid-copy-zero")
    for k, (i, j, w) in enumerate(want):
        w2 = w * fac
        tol = 4 * P2.pair_tol(rel, pim, i, j, w) * abs(fac)
        if not abs(vals[k] - w2) <= tol:
            ctx.fail(case, "cli-value-equals-definition",
                     f"{rel}: value {k} (poses {i},{j}): stored {vals[k]!r}, definition {w2!r} (tol {tol:.3g})")
            return None
    return None


# ------------------------------------------------------------------------------------------------ evaluate
def traj_text(traj):
    from evo.tools import file_interface as fi
    from evo.core.trajectory import PoseTrajectory3D
    buf = io.StringIO()
    with mc.quiet():
        if isinstance(traj, PoseTrajectory3D):
            fi.write_tum_trajectory_file(buf, traj)
        else:
            fi.write_kitti_poses_file(buf, traj)
    return buf.getvalue().encode("utf-8")


def evaluate(ctx, cases, which):
    for c in cases:
        if c["kind"] == "api2":
            evaluate_api(ctx, c)
    cases = [c for c in cases if c["kind"] == "cli"]
    if not cases:
        return
    prop = "C01" if which == "ape" else "C02"
    impls = []
    try:
        for c in cases:
            impls.append(run_cli(c))
        plans = core.run_driver([im["plan_line"] for im in impls], prop)
        runs = [interpret(case, impl, plan) for case, impl, plan in zip(cases, impls, plans)]
        # the interpreted metric step against the model core on the processed trajectories
        lines, idx = [], []
        for k, (case, run) in enumerate(zip(cases, runs)):
            cap = run.get("capture")
            if run["exc"] is None and cap and "ref" in cap and len(cap["ref"]) == len(cap["est"]):
                rel = case["opts"]["pose_relation"]
                if which == "ape":
                    lines.append(f"C01 ape {rel} {mc.poselist(cap['ref'])} {mc.poselist(cap['est'])}")
                else:
                    from props import C02 as P2
                    pairs = P2.evo_pairs(cap["pc"], cap["driving"])
                    if pairs is None:
                        continue
                    run["pairs"] = pairs
                    lines.append(f"C02 rpe {rel} {P2.pairlist(pairs)} {mc.poselist(cap['ref'])} {mc.poselist(cap['est'])}")
                idx.append(k)
        outs = core.run_driver(lines, prop) if lines else []
        for k, o in zip(idx, outs):
            runs[k]["model_metric"] = o
        # the whole pipeline inside the model (Model/Pipeline.lean) on the input trajectories
        rl, ridx = [], []
        for k, (case, impl, run) in enumerate(zip(cases, impls, runs)):
            if "in_ref" in run["capture"]:
                rl.append(run_line(which, impl, run["capture"]))
                ridx.append(k)
        routs = core.run_driver(rl, prop) if rl else []
        for k, o in zip(ridx, routs):
            if o == "BAD-OP":
                raise core.ToolError("driver rejected a run request")
            runs[k]["model_run"] = o
        for case, impl, plan, run in zip(cases, impls, plans, runs):
            judge(ctx, case, impl, plan, run, which)
    finally:
        for im in impls:
            shutil.rmtree(im.get("dir", ""), ignore_errors=True)


def interpret(case, impl, plan):
    """the Lean plan, interpreted with evo's core API on fresh copies of the two files"""
    from evo import EvoException
    run = {"exc": None, "ref": None, "est": None, "metric": None, "capture": {}}
    if plan == "BAD-OP":
        raise core.ToolError("driver rejected " + impl["plan_line"])
    else:
        try:
            ref, est = load_fresh(case, impl["dir"])
            for name, tr in (("in_ref", ref), ("in_est", est)):
                st = [float(x) for x in tr.timestamps] if hasattr(tr, "timestamps") else [float(k) for k in range(tr.num_poses)]
                run["capture"][name] = (st, mc.seen_poses(tr))
            run["ref"], run["est"], run["metric"] = apply_steps(parse_plan(plan), ref, est, capture=run["capture"])
        except core.ToolError:
            raise
        except Exception as e:  # noqa: evo's own exceptions, and numpy's ValueError on an empty error array
            run["exc"] = type(e).__name__
    return run


def compare_with_model_core(ctx, case, run, which):
    """values of the interpreted metric step = the model's cores on the processed trajectories"""
    from props import C02 as P2
    o = run.get("model_metric")
    if o is None:
        return
    rel = case["opts"]["pose_relation"]
    fac = unit_factor(rel, case["opts"].get("change_unit"))
    vals = [float(v) for v in np.asarray(run["metric"].error).reshape(-1)]
    if not o.startswith("OK"):
        ctx.mismatch(case, f"model refuses the metric step of the interpreted plan ({o}) but evo computed values", len(vals), o)
        return
    cap = run["capture"]
    pim = {"seen_ref": cap["ref"], "seen_est": cap["est"]}
    if which == "ape":
        toks = o.split()[1:]
        where = [(k, k) for k in range(len(toks))]
    else:
        head, _, tail = o.partition("|")
        ids = [int(x) for x in head.split()[2:]]
        toks = tail.split()
        if ids != [int(j) for j in run["metric"].delta_ids]:
            ctx.mismatch(case, "delta_ids of the interpreted plan differ from the model", list(run["metric"].delta_ids)[:10], ids[:10])
            return
        kept = run["pairs"]
        if rel == "point_distance_error_ratio":
            kept = [p for p, keep in zip(kept, P2.kept_mask(pim, kept)) if keep]
        where = kept
    if len(toks) != len(vals) or fac is None:
        ctx.mismatch(case, "number of values of the interpreted plan differs from the model", len(vals), len(toks))
        return
    for k, (v, tok) in enumerate(zip(vals, toks)):
        mv = mc.value_of_core(tok)
        i, j = where[k]
        if not abs(v - mv * fac) <= P2.pair_tol(rel, pim, i, j, mv) * abs(fac) * 2:
            ctx.mismatch(case, f"value {k} of evo_{which} differs from the model core on the processed trajectories ({rel})",
                         v, mv * fac)
            return
    ctx.count("branch", "cli-values-vs-model-core")


def judge(ctx, case, impl, plan, run, which):
    # ---- correspondence: the Lean plan, interpreted, must reproduce the CLI bit for bit
    m_exc, ref, est, metric = run["exc"], run["ref"], run["est"], run["metric"]
    if m_exc is not None or impl["exc"] is not None:
        if m_exc != impl["exc"]:
            ctx.mismatch(case, f"evo_{which} outcome differs from the interpreted plan", impl["exc"] or "stored a result",
                         m_exc or "plan runs")
        ctx.count("branch", "cli-refused:" + str(m_exc))
    else:
        if np.asarray(metric.error).tobytes() != impl["error_array"].tobytes():
            ctx.mismatch(case, f"error_array stored by evo_{which} is not bit-identical to the interpreted plan",
                         [float(v) for v in impl["error_array"][:6]], [float(v) for v in np.asarray(metric.error)[:6]])
        elif case["fmt"] != "kitti":
            ts = est.timestamps if which == "ape" else est.timestamps[1:]
            if impl["timestamps"] is None or np.asarray(ts).tobytes() != impl["timestamps"].tobytes():
                ctx.mismatch(case, f"timestamps stored by evo_{which} differ from the interpreted plan",
                             None if impl["timestamps"] is None else [float(v) for v in impl["timestamps"][:6]],
                             [float(v) for v in ts[:6]])
        if impl.get("trajs"):
            for name, tr in (("ref", ref), ("est", est)):
                if name in impl["trajs"] and impl["trajs"][name] != traj_text(tr):
                    ctx.mismatch(case, f"{name} trajectory stored by evo_{which} differs from the interpreted plan", None, None)
        for st in parse_plan(plan):
            ctx.count("branch", "step:" + st[0] + (":" + st[1] if st[0] == "align" else ""))
        compare_with_model_core(ctx, case, run, which)
    compare_model_run(ctx, case, impl, run, which)
    # ---- oracle
    cli_oracle(ctx, case, impl, which)
    # ---- bookkeeping
    ctx.count("dist", f"cli:{case['fmt']}")
    for k in case["opts"]:
        if k != "pose_relation":
            ctx.count("dist", "opt:" + k)
    if case.get("off") is not None:
        ctx.count("dist", "opt:t_offset" + ("+" if case["off"] > 0 else "-"))
    ctx.count("dist", "path:" + case.get("spelling", "abs"))
    for k in ("same_file", "prewrite"):
        if case.get(k):
            ctx.count("dist", "cli:" + k)
    if case.get("names") and tuple(case["names"]) != ("ref.txt", "est.txt"):
        ctx.count("dist", "cli:odd-file-names")
    ctx.record({k: v for k, v in case.items()}, nontrivial=len(case["opts"]) > 1 or case.get("off") is not None)


def shrink(case):
    if case.get("kind") != "cli":
        return
    for k in ("prewrite", "same_file", "names"):
        if case.get(k):
            c = copy.deepcopy(case)
            del c[k]
            yield c
    if case.get("spelling", "abs") != "abs":
        c = copy.deepcopy(case)
        c["spelling"] = "abs"
        yield c
    o = case["opts"]
    for k in list(o):
        if k in ("pose_relation", "delta", "delta_unit"):
            continue
        c = copy.deepcopy(case)
        del c["opts"][k]
        yield c
    if case.get("off") is None and len(case["data"]["ref12"]) > 4 and case["fmt"] == "kitti":
        c = copy.deepcopy(case)
        for key in ("ref12", "est12"):
            c["data"][key] = c["data"][key][:-1]
        yield c
