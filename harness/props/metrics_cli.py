"""CLI part shared by C01/C02 (stub, filled below)"""


def gen_cli_cases(ctx, which):
    return iter(())


def evaluate(ctx, cases, which):
    return


def shrink(case):
    return iter(())
