"""Shared by C01 (APE) and C02 (RPE): pose generators, exact-rational reference arithmetic, the single
final sqrt/atan2 in high precision, the textbook oracle, in-process CLI runs and plan interpretation."""
import contextlib
import decimal
import io
import math
import os
import tempfile
import zipfile

import numpy as np

import core
from core import Fraction, frac, rat

RELS = ["full", "trans_part", "rot_part", "angle_rad", "angle_deg", "point_distance", "point_distance_error_ratio"]
U = Fraction(1, 2 ** 53)
DEG = 180.0 / math.pi
decimal.getcontext().prec = 60


def pose_relation(name):
    from evo.core.metrics import PoseRelation as P
    return {"full": P.full_transformation, "trans_part": P.translation_part, "rot_part": P.rotation_part,
            "angle_rad": P.rotation_angle_rad, "angle_deg": P.rotation_angle_deg, "point_distance": P.point_distance,
            "point_distance_error_ratio": P.point_distance_error_ratio}[name]


# ------------------------------------------------------------------ float pose construction (generators)
def quat_to_mat(q):
    w, x, y, z = q
    return [[1 - 2 * (y * y + z * z), 2 * (x * y - z * w), 2 * (x * z + y * w)],
            [2 * (x * y + z * w), 1 - 2 * (x * x + z * z), 2 * (y * z - x * w)],
            [2 * (x * z - y * w), 2 * (y * z + x * w), 1 - 2 * (x * x + y * y)]]


def rand_unit(r, n):
    while True:
        v = [r.gauss(0, 1) for _ in range(n)]
        s = math.sqrt(sum(a * a for a in v))
        if s > 1e-3:
            return [a / s for a in v]


def axis_angle_quat(axis, ang):
    s = math.sin(ang / 2)
    return [math.cos(ang / 2), axis[0] * s, axis[1] * s, axis[2] * s]


def qmul(a, b):
    return [a[0] * b[0] - a[1] * b[1] - a[2] * b[2] - a[3] * b[3],
            a[0] * b[1] + a[1] * b[0] + a[2] * b[3] - a[3] * b[2],
            a[0] * b[2] - a[1] * b[3] + a[2] * b[0] + a[3] * b[1],
            a[0] * b[3] + a[1] * b[2] - a[2] * b[1] + a[3] * b[0]]


def qnorm(q):
    s = math.sqrt(sum(a * a for a in q))
    return [a / s for a in q]


# the 24 proper signed permutation matrices as exact quaternions would need sqrt(1/2): use matrices
def axis_rots():
    import itertools
    out = []
    for perm in itertools.permutations(range(3)):
        for signs in itertools.product([1, -1], repeat=3):
            m = [[0.0] * 3 for _ in range(3)]
            for i in range(3):
                m[i][perm[i]] = float(signs[i])
            det = (m[0][0] * (m[1][1] * m[2][2] - m[1][2] * m[2][1]) - m[0][1] * (m[1][0] * m[2][2] - m[1][2] * m[2][0])
                   + m[0][2] * (m[1][0] * m[2][1] - m[1][1] * m[2][0]))
            if det == 1.0:
                out.append(m)
    return out


AXIS_ROTS = axis_rots()
# exact quaternions of half of them (those whose quaternion has entries in {0, ±1/2, ±1}): 12 of 24
EXACT_QUATS = [[1.0, 0, 0, 0], [0, 1.0, 0, 0], [0, 0, 1.0, 0], [0, 0, 0, 1.0]] + \
              [[0.5 * a, 0.5 * b, 0.5 * c, 0.5 * d] for a in (1,) for b in (1, -1) for c in (1, -1) for d in (1, -1)]


def mat_pose(R, t):
    """12 floats, row-major 3x4"""
    return [float(R[0][0]), float(R[0][1]), float(R[0][2]), float(t[0]),
            float(R[1][0]), float(R[1][1]), float(R[1][2]), float(t[1]),
            float(R[2][0]), float(R[2][1]), float(R[2][2]), float(t[2])]


def pose12_to_np(p):
    m = np.eye(4)
    m[:3, :] = np.array(p, dtype=float).reshape(3, 4)
    return m


def np_to_pose12(m):
    return [float(x) for x in np.asarray(m)[:3, :].reshape(-1)]


FLAVOURS = ["plain", "plain", "alias", "view", "fortran", "readonly", "list"]
PREREADS = [(), (), ("poses",), ("pos",), ("quat",), ("pos", "quat"), ("pos", "quat", "poses"), ("check",)]


def make_path(mode, poses, stamps=None, flavour="plain", preread=()):
    """mode 'mat': poses = 12-float rows; mode 'quat': poses = [x y z qw qx qy qz].
    flavour (L3): how the arrays are handed over — 'alias': equal consecutive poses share one ndarray object,
    'view': every pose matrix / the two arrays are views of one base array, 'fortran': non-contiguous (transposed
    storage), 'readonly': write flag cleared, 'list': nested Python lists where evo converts itself (quat mode).
    preread (L4): which cached views are materialised before the object is handed to the code under test."""
    from evo.core.trajectory import PosePath3D, PoseTrajectory3D
    if mode == "mat":
        ms = [pose12_to_np(p) for p in poses]
        if flavour == "alias":
            for k in range(1, len(ms)):
                if poses[k] == poses[k - 1]:
                    ms[k] = ms[k - 1]
        elif flavour == "view":
            base = np.zeros((len(ms), 6, 6))
            for k, m in enumerate(ms):
                base[k, 1:5, 1:5] = m
            ms = [base[k, 1:5, 1:5] for k in range(len(ms))]
        elif flavour == "fortran":
            ms = [np.asfortranarray(m) for m in ms]
        elif flavour == "readonly":
            for m in ms:
                m.setflags(write=False)
        kw = {"poses_se3": ms}
    else:
        a = np.array(poses, dtype=float).reshape(-1, 7)
        pos, quat = a[:, :3].copy(), a[:, 3:].copy()
        if flavour == "view":
            pos, quat = a[:, :3], a[:, 3:]
        elif flavour == "fortran":
            pos, quat = np.asfortranarray(pos), np.asfortranarray(quat)
        elif flavour == "readonly":
            pos.setflags(write=False)
            quat.setflags(write=False)
        elif flavour == "list":
            pos, quat = pos.tolist(), quat.tolist()
        kw = {"positions_xyz": pos, "orientations_quat_wxyz": quat}
    tr = PosePath3D(**kw) if stamps is None else PoseTrajectory3D(timestamps=np.array(stamps, dtype=float), **kw)
    for what in preread:
        if what == "poses":
            tr.poses_se3
        elif what == "pos":
            tr.positions_xyz
        elif what == "quat":
            tr.orientations_quat_wxyz
        elif what == "check":
            tr.check()
    return tr


def twin_poses(mode, poses):
    """the SE(3) matrices the metric code reads, taken from an identically built twin (the object under test is
    not read by the harness)"""
    return seen_poses(make_path(mode, poses))


def seen_poses(path):
    """the SE(3) matrices the metric code reads (12 floats each)"""
    return [np_to_pose12(m) for m in path.poses_se3]


def poselist(ps):
    return " ".join([str(len(ps))] + [rat(x) for p in ps for x in p])


# ------------------------------------------------------------------ exact arithmetic on 12-float poses
def F12(p):
    return [frac(x) for x in p]


def rot_of(p):
    return [[p[0], p[1], p[2]], [p[4], p[5], p[6]], [p[8], p[9], p[10]]]


def t_of(p):
    return [p[3], p[7], p[11]]


def mm(a, b):
    return [[sum(a[i][k] * b[k][j] for k in range(3)) for j in range(3)] for i in range(3)]


def mv(a, v):
    return [sum(a[i][k] * v[k] for k in range(3)) for i in range(3)]


def tr_(a):
    return [[a[j][i] for j in range(3)] for i in range(3)]


def det3(a):
    return (a[0][0] * (a[1][1] * a[2][2] - a[1][2] * a[2][1]) - a[0][1] * (a[1][0] * a[2][2] - a[1][2] * a[2][0])
            + a[0][2] * (a[1][0] * a[2][1] - a[1][1] * a[2][0]))


def inv3(a):
    """true inverse (adjugate / determinant), not the transpose"""
    d = det3(a)
    c = [[a[(i + 1) % 3][(j + 1) % 3] * a[(i + 2) % 3][(j + 2) % 3] - a[(i + 1) % 3][(j + 2) % 3] * a[(i + 2) % 3][(j + 1) % 3]
          for j in range(3)] for i in range(3)]
    return [[c[j][i] / d for j in range(3)] for i in range(3)]


def rel_true(a, b):
    """a^-1 * b with the true inverse: (R, t) of the relative pose (exact)"""
    Ra, Rb = rot_of(a), rot_of(b)
    Ri = inv3(Ra)
    R = mm(Ri, Rb)
    d = [x - y for x, y in zip(t_of(b), t_of(a))]
    return R, mv(Ri, d)


def frob_minus_I(R):
    return sum((R[i][j] - (1 if i == j else 0)) ** 2 for i in range(3) for j in range(3))


def dsqrt(x):
    """sqrt of a non-negative Fraction, 60 digits, as Decimal"""
    if x <= 0:
        return decimal.Decimal(0)
    return (decimal.Decimal(x.numerator) / decimal.Decimal(x.denominator)).sqrt()


def fsqrt(x):
    return float(dsqrt(x))


def angle_from_core(c, s2):
    """theta = atan2(sqrt(s2), c) in [0, pi]"""
    return math.atan2(fsqrt(s2), float(c))


def D(x):
    return decimal.Decimal(x.numerator) / decimal.Decimal(x.denominator) if isinstance(x, Fraction) else decimal.Decimal(x)


def quat_angle(R):
    """rotation angle of a (nearly) proper rotation by the quaternion route (Shepperd), independent of the
    (trace, antisymmetric part) formula of the model: theta = 2*atan2(|q_xyz|, |q_w|)"""
    t = R[0][0] + R[1][1] + R[2][2]
    cand = [t, R[0][0], R[1][1], R[2][2]]
    k = max(range(4), key=lambda i: cand[i])
    if k == 0:
        q = [1 + t, R[2][1] - R[1][2], R[0][2] - R[2][0], R[1][0] - R[0][1]]
    elif k == 1:
        q = [R[2][1] - R[1][2], 1 + 2 * R[0][0] - t, R[0][1] + R[1][0], R[0][2] + R[2][0]]
    elif k == 2:
        q = [R[0][2] - R[2][0], R[0][1] + R[1][0], 1 + 2 * R[1][1] - t, R[1][2] + R[2][1]]
    else:
        q = [R[1][0] - R[0][1], R[0][2] + R[2][0], R[1][2] + R[2][1], 1 + 2 * R[2][2] - t]
    v = fsqrt(q[1] ** 2 + q[2] ** 2 + q[3] ** 2)
    return 2.0 * math.atan2(v, abs(float(q[0])))


def exact_pose_from_quat(p7):
    """exact rational pose of [x y z qw qx qy qz] (quaternion normalised exactly: R = N(q)/|q|^2)"""
    x, y, z, w, a, b, c = [frac(v) for v in p7]
    n = w * w + a * a + b * b + c * c
    R = [[(w * w + a * a - b * b - c * c) / n, 2 * (a * b - c * w) / n, 2 * (a * c + b * w) / n],
         [2 * (a * b + c * w) / n, (w * w - a * a + b * b - c * c) / n, 2 * (b * c - a * w) / n],
         [2 * (a * c - b * w) / n, 2 * (b * c + a * w) / n, (w * w - a * a - b * b + c * c) / n]]
    return [R[0][0], R[0][1], R[0][2], x, R[1][0], R[1][1], R[1][2], y, R[2][0], R[2][1], R[2][2], z]


def textbook_value(rel, E):
    """error value of the definition for the relative pose E = (R, t) (exact rationals) — for the relations
    that are functions of E"""
    R, t = E
    if rel == "full":
        return fsqrt(frob_minus_I(R) + sum(v * v for v in t))
    if rel == "trans_part":
        return fsqrt(sum(v * v for v in t))
    if rel == "rot_part":
        return fsqrt(frob_minus_I(R))
    if rel == "angle_rad":
        return quat_angle(R)
    if rel == "angle_deg":
        return quat_angle(R) * DEG
    raise ValueError(rel)


def value_of_core(tok):
    """the reported number of a core token of the driver (`S:r`, `A:c:s2:rad|deg`, `D:a:b`, `R:a:b`)"""
    f = tok.split(":")
    if f[0] == "S":
        return fsqrt(core.parse_rat(f[1]))
    if f[0] == "A":
        th = angle_from_core(core.parse_rat(f[1]), core.parse_rat(f[2]))
        return th * DEG if f[3] == "deg" else th
    if f[0] == "D":
        return float(abs(dsqrt(core.parse_rat(f[1])) - dsqrt(core.parse_rat(f[2]))))
    if f[0] == "R":
        a, b = dsqrt(core.parse_rat(f[1])), dsqrt(core.parse_rat(f[2]))
        return float(abs(a - b) / a * 100)
    raise ValueError(tok)


def tolerance(rel, poses, result, extra=1.0):
    """64 * 2^-53 * (max|input| + |result|); inputs = rotation entries only for the pure rotation relations,
    degrees scale the input magnitude by 180/pi; ratio by 100/ref distance (passed in `extra`)"""
    if rel in ("rot_part", "angle_rad", "angle_deg"):
        m = max([abs(p[i]) for p in poses for i in (0, 1, 2, 4, 5, 6, 8, 9, 10)] + [1.0])
    else:
        m = max([abs(x) for p in poses for x in p] + [1.0])
    if rel == "angle_deg":
        m *= DEG
    return 64 * float(U) * (m * extra + abs(result)) + 1e-300


# ------------------------------------------------------------------ random trajectories
def gen_rotation(r, style):
    if style == "axis":
        return r.choice(AXIS_ROTS)
    return quat_to_mat(rand_unit(r, 4))


def perturb_rotation(r, R, how):
    """R * dR with dR of a chosen relative angle"""
    if how == "same":
        return [row[:] for row in R], 0.0
    if how == "tiny":
        ang = 10.0 ** r.uniform(-16, -3)
    elif how == "near_pi":
        ang = math.pi - 10.0 ** r.uniform(-12, -3)
    elif how == "pi":
        ang = math.pi
    else:
        ang = r.uniform(0, math.pi)
    dR = quat_to_mat(axis_angle_quat(rand_unit(r, 3), ang))
    M = np.array(R) @ np.array(dR)
    return M.tolist(), ang


def gen_pair_lists(r, n, scale, offset, rot_style, pert):
    """reference and estimate as 12-float rows (mat mode)"""
    ref, est = [], []
    pos = [r.uniform(-scale, scale) for _ in range(3)]
    for _ in range(n):
        pos = [pos[k] + r.uniform(-1, 1) * scale * 0.1 for k in range(3)]
        R = gen_rotation(r, rot_style)
        how = pert if pert != "mixed" else r.choice(["same", "tiny", "near_pi", "uniform", "uniform"])
        Re, _ = perturb_rotation(r, R, how)
        noise = scale * r.choice([0.0, 1e-9, 1e-3, 0.1])
        pe = [pos[k] + r.uniform(-1, 1) * noise for k in range(3)]
        ref.append(mat_pose(R, [pos[k] + offset[k] for k in range(3)]))
        est.append(mat_pose(Re, [pe[k] + offset[k] for k in range(3)]))
    return ref, est


def mat_to_quat_float(R):
    """Shepperd in floats (for building quaternion-mode inputs from generated matrices)"""
    m = np.array(R, dtype=float)
    t = np.trace(m)
    cand = [t, m[0, 0], m[1, 1], m[2, 2]]
    k = int(np.argmax(cand))
    if k == 0:
        q = [1 + t, m[2, 1] - m[1, 2], m[0, 2] - m[2, 0], m[1, 0] - m[0, 1]]
    elif k == 1:
        q = [m[2, 1] - m[1, 2], 1 + 2 * m[0, 0] - t, m[0, 1] + m[1, 0], m[0, 2] + m[2, 0]]
    elif k == 2:
        q = [m[0, 2] - m[2, 0], m[0, 1] + m[1, 0], 1 + 2 * m[1, 1] - t, m[1, 2] + m[2, 1]]
    else:
        q = [m[1, 0] - m[0, 1], m[0, 2] + m[2, 0], m[1, 2] + m[2, 1], 1 + 2 * m[2, 2] - t]
    return qnorm([float(x) for x in q])


def to_quat_rows(rows):
    return [[p[3], p[7], p[11]] + mat_to_quat_float(rot_of(p)) for p in rows]


def rigid_T(r, exact):
    """a rigid motion as a 4x4 numpy matrix; exact = axis rotation + dyadic translation"""
    T = np.eye(4)
    if exact:
        T[:3, :3] = np.array(r.choice(AXIS_ROTS))
        T[:3, 3] = [r.randint(-64, 64) / 8 for _ in range(3)]
    else:
        T[:3, :3] = np.array(quat_to_mat(rand_unit(r, 4)))
        T[:3, 3] = [r.uniform(-100, 100) for _ in range(3)]
    return T


# ------------------------------------------------------------------ CLI in-process
@contextlib.contextmanager
def quiet():
    buf = io.StringIO()
    with contextlib.redirect_stdout(buf), contextlib.redirect_stderr(buf):
        yield buf


def fmt17(x):
    return repr(float(x))


def write_tum(path, stamps, rows7):
    """rows7: [x y z qw qx qy qz]; TUM order is t x y z qx qy qz qw"""
    with open(path, "w") as f:
        for t, p in zip(stamps, rows7):
            f.write(" ".join(fmt17(v) for v in [t, p[0], p[1], p[2], p[4], p[5], p[6], p[3]]) + "\n")


def write_kitti(path, rows12):
    with open(path, "w") as f:
        for p in rows12:
            f.write(" ".join(fmt17(v) for v in p) + "\n")


def write_euroc(path, stamps_ns, rows7):
    """EuRoC ground truth csv: #timestamp [ns], p x y z, q w x y z, v(3), bw(3), ba(3)"""
    with open(path, "w") as f:
        f.write("#timestamp, p_RS_R_x [m], p_RS_R_y [m], p_RS_R_z [m], q_RS_w [], q_RS_x [], q_RS_y [], q_RS_z [], "
                "v_RS_R_x [m s^-1], v_RS_R_y [m s^-1], v_RS_R_z [m s^-1], b_w_RS_S_x [rad s^-1], b_w_RS_S_y [rad s^-1], "
                "b_w_RS_S_z [rad s^-1], b_a_RS_S_x [m s^-2], b_a_RS_S_y [m s^-2], b_a_RS_S_z [m s^-2]\n")
        for t, p in zip(stamps_ns, rows7):
            f.write(",".join([str(int(t))] + [fmt17(v) for v in p] + ["0.0"] * 9) + "\n")


def read_zip_arrays(path):
    out = {}
    with zipfile.ZipFile(path) as z:
        for n in z.namelist():
            if n.endswith(".npy"):
                out[n[:-4]] = np.load(io.BytesIO(z.read(n)))
            elif n.endswith(".json"):
                import json
                out[n] = json.loads(z.read(n).decode())
    return out
