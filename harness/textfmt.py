"""
Shared by C06 and C07: an independent reference reader of the published text conventions
(written from the format descriptions, exact arithmetic), literal generators, bit-pattern helpers.
Nothing here calls evo or the Lean model.
"""
import math
import re
import struct
from fractions import Fraction

LITERAL = re.compile(r"^([+-]?)(?:(\d+)(?:\.(\d*))?|\.(\d+))(?:[eE]([+-]?\d+))?$")
F64_MAX = Fraction(2 ** 1024 - 2 ** 971)
BOM = "\ufeff"


def bits(x) -> str:
    return struct.pack(">d", float(x)).hex()


def from_bits(h: str) -> float:
    return struct.unpack(">d", bytes.fromhex(h))[0]


def exact(tok: str):
    """exact rational value of a decimal literal of the grammar, None for any other string"""
    m = LITERAL.match(tok)
    if not m or "\n" in tok:
        return None
    sign, ip, fp, fp2, ex = m.groups()
    if ip is None:
        ip, fp = "", fp2
    fp = fp or ""
    v = Fraction(int((ip + fp) or "0")) * Fraction(10) ** (int(ex or 0) - len(fp))
    return -v if sign == "-" else v


def to_double(q: Fraction, negative_zero=False) -> float:
    """correctly rounded binary64 of an exact rational (CPython's int/int true division)"""
    if q == 0:
        return -0.0 if negative_zero else 0.0
    return q.numerator / q.denominator


def literal_double(tok: str):
    """the double a literal denotes (None: not a literal; 'inf' literals are out of the domain)"""
    q = exact(tok)
    if q is None:
        return None
    if abs(q) >= F64_MAX + Fraction(2 ** 970):
        return math.copysign(math.inf, -1 if tok.startswith("-") else 1)
    return to_double(q, tok.startswith("-"))


def ref_rows(text: str, delim: str, path_variant: bool):
    """reference csv layer: list of rows of fields, comment lines dropped, BOM skipped for paths"""
    if path_variant and text.startswith(BOM):
        text = text[1:]
    lines = text.split("\n")
    if lines and lines[-1] == "":
        lines.pop()
    rows = []
    for ln in lines:
        if ln.endswith("\r"):
            ln = ln[:-1]
        if ln.startswith("#"):
            continue
        rows.append(ln.split(delim) if ln != "" else [])
    return rows


def ref_read(fmt: str, text: str, path_variant: bool):
    """reference reader of the conventions: 'reject' or the list of rows in evo's slot order
    tum / euroc: (stamp, x, y, z, qw, qx, qy, qz);  kitti: 12 row-major entries."""
    delim = "," if fmt == "euroc" else " "
    rows = ref_rows(text, delim, path_variant)
    if not rows:
        return "reject"
    width = {"tum": 8, "kitti": 12}.get(fmt)
    out = []
    n0 = len(rows[0])
    for r in rows:
        if width is not None and len(r) != width:
            return "reject"
        if width is None and (len(r) < 8 or len(r) != n0):
            return "reject"
        vals = [literal_double(f) for f in r]
        if any(v is None for v in vals):
            return "reject"
        if fmt == "tum":
            t, x, y, z, qx, qy, qz, qw = vals
            out.append([t, x, y, z, qw, qx, qy, qz])
        elif fmt == "kitti":
            out.append(vals)
        else:
            ns = vals[0]
            if math.isinf(ns):
                t = ns
            else:
                t = to_double(Fraction(ns) / 10 ** 9, ns < 0 or (ns == 0 and math.copysign(1, ns) < 0))
            out.append([t] + vals[1:8])
    return out


def has_inf(rows):
    return any(math.isinf(v) for r in rows for v in r)


# ------------------------------------------------------------------ literal spellings
def spellings(r, x: float):
    """several literals of the grammar that denote (something near) x; all inside the grammar"""
    s = [("%.18e" % x), repr(x), ("%.17g" % x), ("%.20e" % x).replace("e", "E")]
    if abs(x) < 1e15 and x == int(x):
        s += [str(int(x)), str(int(x)) + ".", "%+d" % int(x), "00" + str(abs(int(x)))]
    if 1e-4 < abs(x) < 1e15:
        s.append("%.25f" % x)
    out = r.choice(s)
    if out.startswith("0.") and r.random() < 0.3:
        out = out[1:]
    if out.startswith("-0.") and r.random() < 0.3:
        out = "-" + out[2:]
    if "e" in out and r.random() < 0.2:
        m, e = out.split("e")
        out = m + "e" + ("+" if not e.startswith(("+", "-")) and r.random() < 0.5 else "") + e
    if not out.startswith(("+", "-")) and r.random() < 0.1:
        out = "+" + out
    if exact(out) is None:      # repr can give 'inf'/'nan': never for the finite values generated
        out = "%.18e" % x
    return out


SPECIAL = ["1.", ".5", "+3", "-4E+0", "0e0", "1.e5", "-.5e-3", "007", "1e+007", "0.1", "-0.0", "+0.",
           "1e-320", "4.9e-324", "5e-324", "2.5e-324", "2.4703282292062328e-324",
           "1.7976931348623157e308", "1.7976931348623157e+308", "179769313486231570000000000000e279",
           "9007199254740993", "9007199254740992.5", "0.1000000000000000055511151231257827021181583404541015625",
           "123456789012345678901234567890", "1E5", "1e5", "1.0000000000000002", "1.00000000000000011102230246251565404236316680908203125",
           "1.00000000000000011102230246251565404236316680908203124", "1.00000000000000011102230246251565404236316680908203126",
           "0.30000000000000004", "1e22", "1e23", "8.41e21", "2.2250738585072011e-308", "2.2250738585072014e-308",
           "0." + "0" * 40 + "1", "1" + "0" * 30 + ".0e-30", "1403636580838555648", "1403636580838555649e0"]

# strings float() and the model both refuse (nothing float() would accept)
BAD_TOKENS = ["abc", "1.2.3", "1e", "e5", "--1", "0x10", ".", "+", "-", "1e+", "1..2", "1e5e5", "1d5", "x",
              "1.0f", "#", "1e1.5", "+-1", "1-", "1/2", "1;5", "..", "e", "1e-", "١٢٣x"]


def hexs(s: str) -> str:
    return s.encode("utf-8").hex() or "-"
