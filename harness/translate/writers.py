"""T (translator): AST of evo/*.py and evo/tools/*.py -> lean/EvoModel/Gen/Writers.lean
  * every function with a `confirm_overwrite` parameter (a *writer*) with the shape of its guard(s)
  * every call site of a writer with the expression passed as confirm_overwrite
  * direct uses of check_and_confirm_overwrite and raw open(…,'w') in the command modules
  * the shape of user.confirm"""
import ast
import json
import sys
from pathlib import Path

import core
from settings import lean_str, write_if_changed

CLI_FILES = ["evo/main_ape.py", "evo/main_rpe.py", "evo/main_traj.py", "evo/main_res.py",
             "evo/main_config.py", "evo/common_ape_rpe.py"]


# decision helpers: functions (any module of evo/, evo/tools/) that take `confirm_overwrite` and reach
# check_and_confirm_overwrite, e.g. a `_overwrite_permitted(path, confirm_overwrite)` extracted from the writers.
# name -> isinstance types tested inside the helper (None = untyped).  Filled by generate() before guards_of is used.
HELPERS = {}


def _callee(n):
    return getattr(n.func, "attr", None) or getattr(n.func, "id", None)


def calls_check(node):
    return any(isinstance(n, ast.Call) and (_callee(n) == "check_and_confirm_overwrite" or _callee(n) in HELPERS)
               for n in ast.walk(node))


def helper_types(node):
    """isinstance types of a decision helper called in `node` (None if there is no such call / the helper is untyped)"""
    for n in ast.walk(node):
        if isinstance(n, ast.Call) and _callee(n) in HELPERS and HELPERS[_callee(n)] is not None:
            return HELPERS[_callee(n)]
    return None


def passes_flag(node):
    """the flag reaches the decision: mentioned in the test itself or passed to a decision helper"""
    return mentions_flag(node)


def mentions_flag(node):
    return any(isinstance(n, ast.Name) and n.id == "confirm_overwrite" for n in ast.walk(node))


def isinstance_types(node):
    for n in ast.walk(node):
        if isinstance(n, ast.Call) and getattr(n.func, "id", None) == "isinstance" and len(n.args) == 2:
            t = n.args[1]
            elts = t.elts if isinstance(t, ast.Tuple) else [t]
            return [ast.unparse(e) for e in elts]
    return None


def body_returns(body):
    return len(body) >= 1 and isinstance(body[0], ast.Return)


def negated_check(test):
    """the test declines when check() is False: `… and not check(p)` / `not check(p)`"""
    for n in ast.walk(test):
        if isinstance(n, ast.UnaryOp) and isinstance(n.op, ast.Not) and calls_check(n.operand):
            return True
    return False


def guards_of(fn):
    """guards in a writer function, in source order"""
    out = []

    def visit(stmts, in_loop, outer_types, outer_flag):
        for st in stmts:
            if isinstance(st, ast.If):
                test_types = isinstance_types(st.test)
                if calls_check(st.test):
                    if mentions_flag(st.test) and negated_check(st.test):
                        ht = helper_types(st.test)
                        if ht is not None and outer_types is None:
                            # `if not helper(path, confirm_overwrite): return` with the isinstance test inside the helper
                            out.append({"kind": "typedInner", "types": ht, "inLoop": in_loop,
                                        "ret": body_returns(st.body), "line": st.lineno})
                        else:
                            kind = "typedOuter" if outer_types is not None else "plain"
                            out.append({"kind": kind, "types": outer_types or [], "inLoop": in_loop,
                                        "ret": body_returns(st.body), "line": st.lineno})
                    elif outer_flag and negated_check(st.test):
                        out.append({"kind": "typedInner", "types": outer_types or [], "inLoop": in_loop,
                                    "ret": body_returns(st.body), "line": st.lineno})
                    else:
                        out.append({"kind": "direct", "types": [], "inLoop": in_loop,
                                    "ret": False, "line": st.lineno})
                    visit(st.orelse, in_loop, outer_types, outer_flag)
                    continue
                visit(st.body, in_loop, test_types if test_types is not None else outer_types,
                      outer_flag or mentions_flag(st.test))
                visit(st.orelse, in_loop, outer_types, outer_flag)
            elif isinstance(st, (ast.For, ast.While)):
                visit(st.body, True, outer_types, outer_flag)
            elif isinstance(st, (ast.With, ast.Try)):
                visit(st.body, in_loop, outer_types, outer_flag)
    visit(fn.body, False, None, False)
    return out


def confirm_shape_semantic(fn):
    """`user.confirm` written in another way than `if input(..) != key: return False / else: return True` (e.g.
    `return input(..) == key`).  It is the same decision iff (i) its source compares the answer with `key` by exactly one
    ==/!= and does nothing else to it (no other comparison, no `in`, no string method, no boolean operator), and (ii) the
    function of the tree under test, evaluated on sample answers and keys, returns `answer == key` with exactly one
    question asked.  Then the canonical shape is emitted; otherwise the shape stays unknown and the theorem fails."""
    cmps = [c for c in ast.walk(fn) if isinstance(c, ast.Compare)]
    plain = (len(cmps) == 1 and len(cmps[0].ops) == 1 and isinstance(cmps[0].ops[0], (ast.Eq, ast.NotEq))
             and any(isinstance(x, ast.Name) and x.id == "key" for x in [cmps[0].left] + cmps[0].comparators)
             and not any(isinstance(x, (ast.BoolOp,)) for x in ast.walk(fn))
             and not any(isinstance(x, ast.Call) and isinstance(x.func, ast.Attribute)
                         and x.func.attr not in ("format",) and not (isinstance(x.func.value, ast.Name) and x.func.value.id in ("logger", "logging"))
                         for x in ast.walk(fn)))
    if not plain:
        return {}
    import builtins
    from evo.tools import user
    real = builtins.input
    ok = True
    try:
        for key in ("y", "ok"):
            for ans in ("y", "n", "", "Y", "yes", " y", "y ", "\ty", "yy", "N", "ok", "OK", "0", "1"):
                asked = []

                def fake(prompt="", _a=ans, _asked=asked):
                    _asked.append(prompt)
                    return _a
                builtins.input = fake
                got = user.confirm("m", key)
                ok = ok and (got is (ans == key)) and len(asked) == 1
    except Exception:  # noqa: BLE001
        ok = False
    finally:
        builtins.input = real
    return {"op": "NotEq", "then": False, "else": True} if ok else {}


def generate():
    repo = core.REPO
    files = sorted(list((repo / "evo").glob("*.py")) + list((repo / "evo" / "tools").glob("*.py")))
    trees = {}
    for f in files:
        rel = str(f.relative_to(repo))
        trees[rel] = ast.parse(f.read_text())
    # decision helpers: a function with a confirm_overwrite parameter that returns the decision (every `return` has a value),
    # reaches check_and_confirm_overwrite, and is only called from inside functions that have a confirm_overwrite parameter
    HELPERS.clear()
    fdefs = {}
    for rel, tree in trees.items():
        for n in ast.walk(tree):
            if isinstance(n, ast.FunctionDef) and "confirm_overwrite" in [a_.arg for a_ in n.args.args]:
                fdefs.setdefault(n.name, []).append(n)
    enclosing = {}          # callee name -> set of enclosing function nodes (None = module level / other function)
    for rel, tree in trees.items():
        def walk(node, encl):
            for c in ast.iter_child_nodes(node):
                e = c if isinstance(c, (ast.FunctionDef, ast.AsyncFunctionDef)) else encl
                if isinstance(c, ast.Call) and _callee(c) in fdefs:
                    enclosing.setdefault(_callee(c), []).append(encl)
                walk(c, e)
        walk(tree, None)
    for name, nodes in fdefs.items():
        if len(nodes) != 1:
            continue
        fn = nodes[0]
        rets = [r for r in ast.walk(fn) if isinstance(r, ast.Return)]
        direct = any(isinstance(c, ast.Call) and _callee(c) == "check_and_confirm_overwrite" for c in ast.walk(fn))
        only_from_writers = bool(enclosing.get(name)) and all(
            e is not None and "confirm_overwrite" in [a_.arg for a_ in e.args.args] for e in enclosing[name])
        if direct and rets and all(r.value is not None for r in rets) and only_from_writers:
            HELPERS[name] = isinstance_types(fn)
    writers = []
    for rel, tree in trees.items():
        class V(ast.NodeVisitor):
            def __init__(self):
                self.cls = []

            def visit_ClassDef(self, node):
                self.cls.append(node.name)
                self.generic_visit(node)
                self.cls.pop()

            def visit_FunctionDef(self, node):
                names = [a.arg for a in node.args.args]
                if "confirm_overwrite" in names and node.name not in HELPERS:
                    i = names.index("confirm_overwrite")
                    d = node.args.defaults
                    off = len(names) - len(d)
                    dflt = ast.literal_eval(d[i - off]) if i >= off else False
                    writers.append({"name": node.name, "qual": ".".join(self.cls + [node.name]), "file": rel,
                                    "default": bool(dflt), "pos": i - (1 if names and names[0] == "self" else 0),
                                    "guards": guards_of(node)})
                self.generic_visit(node)
        V().visit(tree)
    wnames = {w["name"]: w for w in writers}
    sites, directs, raws = [], [], []
    for rel, tree in trees.items():
        parents = {}
        for n in ast.walk(tree):
            for c in ast.iter_child_nodes(n):
                parents[c] = n
        for n in ast.walk(tree):
            if not isinstance(n, ast.Call):
                continue
            fname = getattr(n.func, "attr", None) or getattr(n.func, "id", None)
            if fname in wnames:
                w = wnames[fname]
                expr = None
                for kw in n.keywords:
                    if kw.arg == "confirm_overwrite":
                        expr = ast.unparse(kw.value)
                if expr is None and len(n.args) > w["pos"]:
                    expr = ast.unparse(n.args[w["pos"]])
                sites.append({"file": rel, "line": n.lineno, "writer": fname,
                              "confirm": expr if expr is not None else "<default>", "cli": rel in CLI_FILES})
            if rel in CLI_FILES:
                def guarded_by_check(node):
                    p = parents.get(node)
                    child = node
                    while p is not None:
                        if isinstance(p, ast.If) and calls_check(p.test) and child in p.body:
                            return True
                        child, p = p, parents.get(p)
                    return False
                if fname == "open" and len(n.args) >= 2 and isinstance(n.args[1], ast.Constant) \
                        and isinstance(n.args[1].value, str) and any(c in n.args[1].value for c in "wax+"):
                    raws.append({"file": rel, "line": n.lineno, "guarded": guarded_by_check(n)})
        if rel in CLI_FILES:
            for n in ast.walk(tree):
                if isinstance(n, ast.If) and calls_check(n.test):
                    has_open = any(isinstance(c, ast.Call) and getattr(c.func, "id", None) == "open"
                                   and len(c.args) >= 2 and isinstance(c.args[1], ast.Constant)
                                   and "w" in str(c.args[1].value) for b in n.body for c in ast.walk(b))
                    directs.append({"file": rel, "line": n.lineno, "test": ast.unparse(n.test), "guardsWrite": has_open})
    # assignments to an attribute that a confirm_overwrite expression reads (e.g. `args.no_warnings = True`)
    flag_attrs = set()
    for st in sites:
        try:
            for n in ast.walk(ast.parse(st["confirm"], mode="eval")):
                if isinstance(n, ast.Attribute):
                    flag_attrs.add(n.attr)
        except SyntaxError:
            pass
    flag_attrs.add("no_warnings")
    assigns = []
    for rel, tree in trees.items():
        for n in ast.walk(tree):
            targets = []
            if isinstance(n, ast.Assign):
                targets = n.targets
            elif isinstance(n, (ast.AugAssign, ast.AnnAssign)):
                targets = [n.target]
            elif isinstance(n, (ast.NamedExpr,)):
                targets = [n.target]
            elif isinstance(n, ast.Delete):
                targets = n.targets
            for t in targets:
                for x in ast.walk(t):
                    if isinstance(x, ast.Attribute) and x.attr in flag_attrs:
                        assigns.append({"file": rel, "line": n.lineno, "target": ast.unparse(x)})
                    if isinstance(x, ast.Subscript) and isinstance(x.slice, ast.Constant) and x.slice.value in flag_attrs:
                        assigns.append({"file": rel, "line": n.lineno, "target": ast.unparse(x)})
            if isinstance(n, ast.Call) and getattr(n.func, "id", None) in ("setattr", "delattr") and len(n.args) >= 2 \
                    and isinstance(n.args[1], ast.Constant) and n.args[1].value in flag_attrs:
                assigns.append({"file": rel, "line": n.lineno, "target": ast.unparse(n)})
    # shape of user.confirm
    shape = {"op": "?", "then": False, "else": False}
    for n in ast.walk(trees["evo/tools/user.py"]):
        if isinstance(n, ast.FunctionDef) and n.name == "confirm":
            for st in n.body:
                if isinstance(st, ast.If) and isinstance(st.test, ast.Compare) and len(st.test.ops) == 1 \
                        and any(isinstance(c, ast.Call) and getattr(c.func, "id", None) == "input" for c in ast.walk(st.test.left)) \
                        and body_returns(st.body) and body_returns(st.orelse) \
                        and isinstance(st.test.comparators[0], ast.Name) and st.test.comparators[0].id == "key":
                    shape = {"op": type(st.test.ops[0]).__name__, "then": bool(ast.literal_eval(st.body[0].value)),
                             "else": bool(ast.literal_eval(st.orelse[0].value))}
            kd = n.args.defaults[-1] if n.args.defaults else None
            shape["key"] = ast.literal_eval(kd) if kd is not None else "?"
            if shape["op"] == "?":
                shape.update(confirm_shape_semantic(n))
    b = lambda x: "true" if x else "false"  # noqa
    L = ["-- GENERATED by harness/translate/writers.py from the AST of evo/*.py, evo/tools/*.py — do not edit",
         "import EvoModel.Model.Overwrite", "namespace Evo.Gen", "open Evo.Overwrite", "",
         "def writers : List Writer := ["]
    for i, w in enumerate(writers):
        gs = ", ".join("{ kind := .%s, types := [%s], inLoop := %s, returnsOnDecline := %s }" %
                       (g["kind"], ", ".join(lean_str(t) for t in g["types"]), b(g["inLoop"]), b(g["ret"]))
                       for g in w["guards"])
        L.append(f"  {{ name := {lean_str(w['name'])}, file := {lean_str(w['file'])}, dflt := {b(w['default'])}, guards := [{gs}] }}"
                 + ("," if i + 1 < len(writers) else ""))
    L += ["]", "", "def callSites : List CallSite := ["]
    for i, s in enumerate(sites):
        L.append(f"  {{ file := {lean_str(s['file'])}, line := {s['line']}, writer := {lean_str(s['writer'])}, "
                 f"confirm := {lean_str(s['confirm'])}, cli := {b(s['cli'])} }}" + ("," if i + 1 < len(sites) else ""))
    L += ["]", "", "def directGuards : List DirectGuard := ["]
    for i, d in enumerate(directs):
        L.append(f"  {{ file := {lean_str(d['file'])}, line := {d['line']}, test := {lean_str(d['test'])}, "
                 f"guardsWrite := {b(d['guardsWrite'])} }}" + ("," if i + 1 < len(directs) else ""))
    L += ["]", "", "def rawWrites : List RawWrite := ["]
    for i, r in enumerate(raws):
        L.append(f"  {{ file := {lean_str(r['file'])}, line := {r['line']}, guarded := {b(r['guarded'])} }}"
                 + ("," if i + 1 < len(raws) else ""))
    L += ["]", "", "/-- assignments anywhere in evo/ to an attribute read by a confirm_overwrite expression: (file, line, target) -/",
          "def flagAssignments : List (String × Nat × String) := ["]
    for i, a in enumerate(assigns):
        L.append(f"  ({lean_str(a['file'])}, {a['line']}, {lean_str(a['target'])})" + ("," if i + 1 < len(assigns) else ""))
    L += ["]", "", "def flagAttributes : List String := [" + ", ".join(lean_str(x) for x in sorted(flag_attrs)) + "]"]
    L += ["", f"def confirmShape : ConfirmShape := {{ op := {lean_str(shape['op'])}, thenRet := {b(shape['then'])}, "
                   f"elseRet := {b(shape['else'])} }}",
          f"def confirmKey : String := {lean_str(str(shape.get('key', '?')))}", "", "end Evo.Gen"]
    changed = write_if_changed(core.LEAN / "EvoModel" / "Gen" / "Writers.lean", "\n".join(L) + "\n")
    return {"Gen/Writers.lean": {"writers": [w["qual"] for w in writers], "call_sites": len(sites),
                                 "cli_sites": sum(1 for s in sites if s["cli"]), "direct_guards": len(directs),
                                 "raw_writes": len(raws), "flag_assignments": assigns, "changed": changed}}


if __name__ == "__main__":
    print(json.dumps(generate(), indent=1))
