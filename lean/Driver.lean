/-
Line protocol driver: `<prop> <op> <args…>` per line in, one canonical line out.
Linked only against the Mathlib-free `EvoModel.Model.*` / `EvoModel.Drv.*` modules.
-/
import EvoModel.Drv.C05

def dispatch (prop op : String) (args : List String) : Option String :=
  match prop with
  | "C05" => Evo.Drv.C05.handle op args
  | _ => none

partial def loop (hin : IO.FS.Stream) (hout : IO.FS.Stream) : IO Unit := do
  let line ← hin.getLine
  if line.isEmpty then return ()
  let toks := (line.trimAscii.toString.splitOn " ").filter (· ≠ "")
  match toks with
  | ["flush"] => hout.putStrLn "ok"; hout.flush
  | prop :: op :: args =>
      match dispatch prop op args with
      | some out => hout.putStrLn out
      | none => hout.putStrLn "BAD-OP"
  | _ => hout.putStrLn "BAD-OP"
  loop hin hout

def main : IO Unit := do
  let hin ← IO.getStdin
  let hout ← IO.getStdout
  loop hin hout
  hout.flush
