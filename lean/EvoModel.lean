-- Library root: everything that `lake build` (setup) must check.
import EvoModel.Model.Basic
import EvoModel.Model.Lin
import EvoModel.Model.Sync
import EvoModel.Lemmas.Argmin
import EvoModel.Lemmas.Lin
import EvoModel.Lemmas.Sync
import EvoModel.Props.C05
