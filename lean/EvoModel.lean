import EvoModel.Model.Basic
import EvoModel.Model.Sync
