def hello := "world"
