import EvoModel.Model.Pipeline
namespace Evo.Drv.C01
open Evo

/-- ops:
  `ape rel n ref-poses… n est-poses…` → `OK core…` | `E_METRICS:len` | `E_METRICS:rel` | `E_GEOMETRY`
       (core tokens: `S:r` = √r, `A:c:s2:rad|deg` = atan2(√s2, c))
  `margin n ref… n est…`              → smallest distance of an `is_so3` guard quantity from its threshold
  `run <opts> <params> <ref traj> <est traj>` → the whole pipeline on rational trajectories (Model/Pipeline.lean):
       `OK unit | ids… | stamps | cores | margin` or `E:<exception class>`
  `relinfo <cli choice>`              → `PoseRelation value|APE unit|RPE unit` (table tie)
  `plan <15 option tokens>`           → `step | step | …` or `E_FILTER` -/
def handle (op : String) (args : List String) : Option String :=
  match op, args with
  | "ape", rel :: rest => do
      let rel ← PoseRelation.ofString? rel
      let (ref, rest) ← readPoseList rest
      let (est, _) ← readPoseList rest
      match ape rel ref est with
      | .error e => some (showMetricErr e)
      | .ok l => some ("OK " ++ showCores l)
  | "margin", rest => do
      let (ref, rest) ← readPoseList rest
      let (est, _) ← readPoseList rest
      some (showRat (((apeRots ref est).map so3Margin).foldl (fun a b => if b < a then b else a) 1))
  | "plan", rest => do
      let (o, _) ← readCommonOpts rest
      some (showPlan o (apePlan o))
  | "run", rest => do
      let (o, rest) ← readCommonOpts rest
      let (P, rest) ← Pipeline.readParams rest
      let (ref, rest) ← Pipeline.readTraj rest
      let (est, _) ← Pipeline.readTraj rest
      some (Pipeline.showApeRun (Pipeline.apeRun o P ref est) ++ " | " ++ showRat (Pipeline.selectMargin o P ref est))
  | "relinfo", [name] => do
      let rel ← PoseRelation.ofString? name
      some (rel.value ++ "|" ++ rel.apeUnit ++ "|" ++ rel.rpeUnit)
  | _, _ => none

end Evo.Drv.C01
