/- driver operations of C01 (stub: no model yet) -/
namespace Evo.Drv.C01
def handle (_op : String) (_args : List String) : Option String := none
end Evo.Drv.C01
