import EvoModel.Model.Pipeline
namespace Evo.Drv.C02
open Evo

/-- ops:
  `rpe rel 2k i1 j1 … n ref-poses… n est-poses…` → `OK m id… | core…` | `E_METRICS:len` | `E_GEOMETRY` | `E_INDEX`
       (core tokens: `S:r`, `A:c:s2:rad|deg`, `D:a:b` = |√a−√b|, `R:a:b` = |√a−√b|/√a·100)
  `margin 2k pairs… n ref… n est…`  → smallest distance of an `is_so3` guard quantity from its threshold
  `run <opts> <params> <ref traj> <est traj>` → the whole pipeline on rational trajectories (Model/Pipeline.lean):
       `OK unit | ids… | stamps | cores | margin` or `E:<exception class>`
  `relinfo <cli choice>`              → `PoseRelation value|APE unit|RPE unit` (table tie)
  `plan <15 common tokens> delta unit tol allPairs fromRef` → `step | step | …` or `E_FILTER` -/
def handle (op : String) (args : List String) : Option String :=
  match op, args with
  | "rpe", rel :: rest => do
      let rel ← PoseRelation.ofString? rel
      let (pairs, rest) ← readPairs rest
      let (ref, rest) ← readPoseList rest
      let (est, _) ← readPoseList rest
      match rpe rel pairs ref est with
      | .error e => some (showMetricErr e)
      | .ok r => some (s!"OK {r.deltaIds.length} " ++ showNats r.deltaIds ++ " | " ++ showCores r.values)
  | "margin", rest => do
      let (pairs, rest) ← readPairs rest
      let (ref, rest) ← readPoseList rest
      let (est, _) ← readPoseList rest
      some (showRat (((rpeRots ref est pairs).map so3Margin).foldl (fun a b => if b < a then b else a) 1))
  | "plan", rest => do
      let o ← readRpeOpts rest
      some (showPlan o.common (rpePlan o))
  | "run", rest => do
      let (c, rest) ← readCommonOpts rest
      match rest with
      | d :: u :: t :: a :: f :: rest => do
          let o ← readRpeOpts' c [d, u, t, a, f]
          let (P, rest) ← Pipeline.readParams rest
          let (ref, rest) ← Pipeline.readTraj rest
          let (est, _) ← Pipeline.readTraj rest
          let n := if o.pairsFromReference then P.pairs.steps.length + 1 else P.pairs.steps.length + 1
          some (Pipeline.showRpeRun (Pipeline.rpeRun o P ref est) ++ " | "
            ++ showRat (Pipeline.selectMargin c P ref est) ++ " " ++ showRat (Pipeline.pairMargin o P n))
      | _ => none
  | "relinfo", [name] => do
      let rel ← PoseRelation.ofString? name
      some (rel.value ++ "|" ++ rel.apeUnit ++ "|" ++ rel.rpeUnit)
  | _, _ => none

end Evo.Drv.C02
