/- driver operations of C02 (stub: no model yet) -/
namespace Evo.Drv.C02
def handle (_op : String) (_args : List String) : Option String := none
end Evo.Drv.C02
