/- driver operations of C03 (Umeyama certificate, refusal classes, rational formulas) -/
import EvoModel.Model.Umeyama
namespace Evo.Drv.C03
open Evo Evo.Ume

def toPoints : List Rat → Option (List (V3 Rat))
  | [] => some []
  | a :: b :: c :: r => (toPoints r).map (fun l => ⟨a, b, c⟩ :: l)
  | _ => none

/-- read a length-prefixed flat list `3n x1 y1 z1 …` as points -/
def readPoints (l : List String) : Option (List (V3 Rat) × List String) := do
  let (rs, rest) ← readRatList l
  let ps ← toPoints rs
  some (ps, rest)

def b (x : Bool) : String := if x then "1" else "0"

/-- ops:
  `umecert ε ws <x> <y> R(9) t(3) c` → `ortho det t sym psd scale all refusalClass`
  `refuse <x> <y>`                   → `refuses refusalClass`
  `formulas <x> <y> R(9) c`          → `t*(3) trA var pd`   (t* = μy − c·R·μx; pd = uniqueness condition certPD)
  `resid <x> <y> R(9) t(3) c`        → rational residual
  `approx ws <x> <y> R₁(9) t(3) c q(4)` → slacks and the optimality bound of `approxReport`, or `NONE` -/
def handle (op : String) (args : List String) : Option String :=
  match op, args with
  | "umecert", eps :: ws :: rest => do
      let eps ← parseRat? eps
      let ws := ws == "1"
      let (x, rest) ← readPoints rest
      let (y, rest) ← readPoints rest
      let (rr, rest) ← takeN 9 rest
      let R ← (parseRats? rr).bind M3.ofList
      let (tt, rest) ← takeN 3 rest
      let t ← (parseRats? tt).bind V3.ofList
      let c ← rest.head?.bind parseRat?
      if x.length != y.length || x.isEmpty then some ("0 0 0 0 0 0 0 " ++ toString (refusalClass x y)) else
      -- the six conjuncts of `umeCert` (its value is their conjunction, by definition)
      let r := [certOrtho eps R, certDet eps R, certT eps x y R t c, certSym eps x y R, certPsd eps x y R,
                certScale eps ws x y R c]
      some (" ".intercalate ((r ++ [r.all id]).map b) ++ " " ++ toString (refusalClass x y))
  | "approx", ws :: rest => do
      -- `approx ws <x> <y> R₁(9) t(3) c qw qx qy qz` → `eta e2 e3 e4 e5 gap b var_y` or `NONE`
      let ws := ws == "1"
      let (x, rest) ← readPoints rest
      let (y, rest) ← readPoints rest
      let (rr, rest) ← takeN 9 rest
      let R ← (parseRats? rr).bind M3.ofList
      let (tt, rest) ← takeN 3 rest
      let t ← (parseRats? tt).bind V3.ofList
      match rest with
      | [c, qw, qx, qy, qz] => do
          let c ← parseRat? c; let qw ← parseRat? qw; let qx ← parseRat? qx
          let qy ← parseRat? qy; let qz ← parseRat? qz
          match approxReport ws x y R t c qw qx qy qz with
          | none => some "NONE"
          | some r => some (showRats [r.eta, r.e2, r.e3, r.e4, r.e5, r.gap, r.b, var y])
      | _ => none
  | "refuse", rest => do
      let (x, rest) ← readPoints rest
      let (y, _) ← readPoints rest
      if x.isEmpty || y.isEmpty then some (b (shapeMismatch x y) ++ " " ++ (if shapeMismatch x y then "1" else "2")) else
      some (b (umeRefuses x y) ++ " " ++ toString (refusalClass x y))
  | "formulas", rest => do
      let (x, rest) ← readPoints rest
      let (y, rest) ← readPoints rest
      let (rr, rest) ← takeN 9 rest
      let R ← (parseRats? rr).bind M3.ofList
      let c ← rest.head?.bind parseRat?
      if x.length != y.length || x.isEmpty then some "REFUSED" else
      some (showRats ((tFormula x y R c).toList ++ [M3.trace (amat x y R), var x]) ++ " " ++ b (certPD x y R))
  | "resid", rest => do
      let (x, rest) ← readPoints rest
      let (y, rest) ← readPoints rest
      let (rr, rest) ← takeN 9 rest
      let R ← (parseRats? rr).bind M3.ofList
      let (tt, rest) ← takeN 3 rest
      let t ← (parseRats? tt).bind V3.ofList
      let c ← rest.head?.bind parseRat?
      some (showRat (resid x y R t c))
  | _, _ => none

end Evo.Drv.C03
