/- driver operations of C03 (stub: no model yet) -/
namespace Evo.Drv.C03
def handle (_op : String) (_args : List String) : Option String := none
end Evo.Drv.C03
