/- driver operations of C04 (stub: no model yet) -/
namespace Evo.Drv.C04
def handle (_op : String) (_args : List String) : Option String := none
end Evo.Drv.C04
