/- driver operations of C04 (trajectory alignment; the Umeyama certificate op is shared with C03) -/
import EvoModel.Model.Align
import EvoModel.Drv.C03
namespace Evo.Drv.C04
open Evo Evo.Align

def parseMode : String → Option Mode
  | "se3" => some .se3
  | "sim3" => some .sim3
  | "scale" => some .scaleOnly
  | _ => none

def readRts (l : List String) : Option (M3 Rat × V3 Rat × Rat × List String) := do
  let (rr, rest) ← takeN 9 l
  let R ← (parseRats? rr).bind M3.ofList
  let (tt, rest) ← takeN 3 rest
  let t ← (parseRats? tt).bind V3.ofList
  match rest with
  | s :: rest => do
      let s ← parseRat? s
      some (R, t, s, rest)
  | [] => none

def showPose (p : Pose Rat) : String := showRats p.toList

/-- ops:
  `align mode R(9) t(3) s <poses>`            → transformed poses
  `origin <ref poses> <est poses>`            → `T | poses` or `E_TRAJ`
  `firstn n N`                                → how many leading poses `align(..., n)` uses of `N`
  `ape a c o R(9) t(3) s <ref poses> <est poses>` → `poses | M` / `poses | none` / `E_TRAJ`
  `apeold …`                                  → the same for the code before fix aaba970
  `umecert …`                                 → as in C03 -/
def handle (op : String) (args : List String) : Option String :=
  match op, args with
  | "align", mode :: rest => do
      let m ← parseMode mode
      let (R, t, s, rest) ← readRts rest
      let (ps, _) ← readPoseList rest
      some (showPoses (alignApply m R t s ps))
  | "origin", rest => do
      let (ref, rest) ← readPoseList rest
      let (est, _) ← readPoseList rest
      match alignOrigin ref est with
      | none => some "E_TRAJ"
      | some (T, ps) => some (showPose T ++ " | " ++ showPoses ps)
  | "firstn", [n, N] => do
      let n ← n.toInt?
      let N ← N.toNat?
      some (toString (firstN n (List.range N)).length)
  | "ape", a :: c :: o :: rest => do
      let (R, t, s, rest) ← readRts rest
      let (ref, rest) ← readPoseList rest
      let (est, _) ← readPoseList rest
      match apeAlign ⟨a == "1", c == "1", o == "1"⟩ R t s ref est with
      | none => some "E_TRAJ"
      | some (ps, m) => some (showPoses ps ++ " | " ++ (match m with | none => "none" | some m => showPose m))
  | "apeold", a :: c :: o :: rest => do
      let (R, t, s, rest) ← readRts rest
      let (ref, rest) ← readPoseList rest
      let (est, _) ← readPoseList rest
      match apeAlignOld ⟨a == "1", c == "1", o == "1"⟩ R t s ref est with
      | none => some "E_TRAJ"
      | some (ps, m) => some (showPoses ps ++ " | " ++ (match m with | none => "none" | some m => showPose m))
  | "umecert", _ => Evo.Drv.C03.handle op args
  | _, _ => none

end Evo.Drv.C04
