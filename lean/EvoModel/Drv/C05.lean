import EvoModel.Model.Sync
namespace Evo.Drv.C05
open Evo Evo.Sync

def showPairs (l : List (Nat × Nat)) : String :=
  " ".intercalate (l.map fun p => s!"{p.1}:{p.2}")

/-- ops:
  `match maxDiff off k s1… k s2…`  → `i:j …` (repaired code) or `EMPTY`
  `matchold …`                     → same for the pre-repair code
  `assoc maxDiff off k t1… k t2…`  → `ids1 | ids2` or `E_SYNC`
  `margin maxDiff off k s1… k s2…` → rational -/
def handle (op : String) (args : List String) : Option String :=
  match op, args with
  | "match", md :: off :: rest => do
      let md ← parseRat? md; let off ← parseRat? off
      let (s1, rest) ← readRatList rest
      let (s2, _) ← readRatList rest
      some (showPairs (matchIdx s1 s2 md off))
  | "matchold", md :: off :: rest => do
      let md ← parseRat? md; let off ← parseRat? off
      let (s1, rest) ← readRatList rest
      let (s2, _) ← readRatList rest
      some (showPairs (matchOld s1 s2 md off))
  | "assoc", md :: off :: rest => do
      let md ← parseRat? md; let off ← parseRat? off
      let (s1, rest) ← readRatList rest
      let (s2, _) ← readRatList rest
      match associateIds s1 s2 md off with
      | .error _ => some "E_SYNC"
      | .ok (a, b) => some (showNats a ++ " | " ++ showNats b)
  | "margin", md :: off :: rest => do
      let md ← parseRat? md; let off ← parseRat? off
      let (s1, rest) ← readRatList rest
      let (s2, _) ← readRatList rest
      some (showRat (margin s1 s2 md off))
  | _, _ => none

end Evo.Drv.C05
