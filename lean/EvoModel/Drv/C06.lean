import EvoModel.Model.TextFormats
import EvoModel.Model.Json
import EvoModel.Drv.C07
/-! driver operations of C06: those of C07 (`rne`, `dec`, `num`, `tok`, `tum`, `kitti`, `bag`) plus
  `esc hex` → hex of the `json.dumps` string content;  `unesc hex` → hex of the decoded string | `E_FORMAT`;
  `tokrows hex k x1 … xk` → `OK` | `BAD i` (every token of the written text vs. its double) -/
namespace Evo.Drv.C06
open Evo Evo.Text

def handle (op : String) (args : List String) : Option String :=
  match op, args with
  | "esc", [h] => do
      let s ← Evo.Drv.C07.unhex h
      some (Evo.Drv.C07.tohex (Evo.Json.escape s))
  | "unesc", [h] => do
      let s ← Evo.Drv.C07.unhex h
      some (match Evo.Json.unescape s with
        | none => "E_FORMAT"
        | some r => Evo.Drv.C07.tohex r)
  | "tokrows", h :: rest => do
      let s ← Evo.Drv.C07.unhex h
      let (xs, _) ← readRatList rest
      some (match checkTokens s xs with | none => "OK" | some i => s!"BAD {i}")
  | _, _ => Evo.Drv.C07.handle op args

end Evo.Drv.C06
