import EvoModel.Model.TextFormats
import EvoModel.Model.Json
import EvoModel.Drv.C07
import EvoModel.Model.Containers
import EvoModel.Gen.DfColumns
/-! driver operations of C06: those of C07 (`rne`, `dec`, `num`, `tok`, `tum`, `kitti`, `bag`) plus
  `esc hex` → hex of the `json.dumps` string content;  `unesc hex` → hex of the decoded string | `E_FORMAT`;
  `tokrows hex k x1 … xk` → `OK` | `BAD i` (every token of the written text vs. its double)
  `df t|p n v…` (`t`: 8 numbers per pose `stamp x y z qw qx qy qz`, `p`: 7) →
      `names | index | col … | RT` (`RT` = 1 iff the model's `df_to_trajectory` gives the input back)
  `zip L na name… nt (t|k name)…` (names hex; `L` = 1: load_trajectories) →
      `member names | loaded array names | loaded trajectory names` or `NONE` -/
namespace Evo.Drv.C06
open Evo Evo.Text

def handle (op : String) (args : List String) : Option String :=
  match op, args with
  | "esc", [h] => do
      let s ← Evo.Drv.C07.unhex h
      some (Evo.Drv.C07.tohex (Evo.Json.escape s))
  | "unesc", [h] => do
      let s ← Evo.Drv.C07.unhex h
      some (match Evo.Json.unescape s with
        | none => "E_FORMAT"
        | some r => Evo.Drv.C07.tohex r)
  | "tokrows", h :: rest => do
      let s ← Evo.Drv.C07.unhex h
      let (xs, _) ← readRatList rest
      some (match checkTokens s xs with | none => "OK" | some i => s!"BAD {i}")
  | "df", v :: n :: rest => do
      let n ← n.toNat?
      let rs ← parseRats? rest
      let w := if v = "t" then 8 else 7
      if rs.length ≠ n * w then none else
      let rows := (List.range n).map fun i => (rs.drop (i * w)).take w
      let pose (r : List Rat) : Evo.Cont.Pose7 :=
        let r := if v = "t" then r.drop 1 else r
        ⟨r.getD 0 0, r.getD 1 0, r.getD 2 0, r.getD 3 0, r.getD 4 0, r.getD 5 0, r.getD 6 0⟩
      let t : Evo.Cont.Traj := if v = "t" then .timed (rows.map (·.getD 0 0)) (rows.map pose) else .path (rows.map pose)
      let df := Evo.Cont.trajToDfWith Evo.Gen.dfWriterSlots t
      let rt := decide (Evo.Cont.dfToTrajWith Evo.Gen.dfReaderQuat Evo.Gen.dfReaderPos df = some t)
      some (",".intercalate (df.cols.map (·.1)) ++ " | " ++
        (match df.index with | some st => showRats st | none => "RANGE") ++
        String.join (df.cols.map fun c => " | " ++ showRats c.2) ++ " | " ++ (if rt then "1" else "0"))
  | "zip", l :: na :: rest => do
      let na ← na.toNat?
      let (an, rest) ← takeN na rest
      let an ← an.mapM Evo.Drv.C07.unhex
      match rest with
      | nt :: rest => do
        let nt ← nt.toNat?
        if rest.length ≠ 2 * nt then none else
        let pairs := (List.range nt).map fun i => (rest.getD (2 * i) "", rest.getD (2 * i + 1) "")
        let tn ← pairs.mapM fun p => do
          let n ← Evo.Drv.C07.unhex p.2
          some (n, (if p.1 = "t" then Evo.Cont.Kind.tum else Evo.Cont.Kind.kitti), n)
        let r : Evo.Cont.Res Unit Unit Str Str := ⟨(), (), an.map fun n => (n, n), tn⟩
        let z := Evo.Cont.saveRes (fun _ t => t) r
        let names (l : List Str) : String := " ".intercalate (l.map Evo.Drv.C07.tohex)
        match Evo.Cont.loadRes (fun _ s => some s) (l = "1") z with
        | none => some "NONE"
        | some b =>
          let ok := b.arrays.all (fun e => e.1 == e.2) && b.trajs.all (fun e => e.1 == e.2.2)
          some (names (z.map (·.1)) ++ " | " ++ names (b.arrays.map (·.1)) ++ " | " ++ names (b.trajs.map (·.1))
            ++ (if ok then " | 1" else " | 0"))
      | _ => none
  | _, _ => Evo.Drv.C07.handle op args

end Evo.Drv.C06
