/- driver operations of C06 (stub: no model yet) -/
namespace Evo.Drv.C06
def handle (_op : String) (_args : List String) : Option String := none
end Evo.Drv.C06
