import EvoModel.Model.TextFormats
/-! driver operations of C07 (also used by C06): texts are hex-encoded UTF-8, `-` = empty -/
namespace Evo.Drv.C07
open Evo Evo.Text

def hexVal (c : Char) : Option Nat :=
  if '0' ≤ c ∧ c ≤ '9' then some (c.toNat - 48)
  else if 'a' ≤ c ∧ c ≤ 'f' then some (c.toNat - 87)
  else none

def hexBytes : List Char → ByteArray → Option ByteArray
  | [], acc => some acc
  | a :: b :: r, acc => do
      let x ← hexVal a
      let y ← hexVal b
      hexBytes r (acc.push (UInt8.ofNat (16 * x + y)))
  | _, _ => none

def unhex (s : String) : Option Str :=
  if s = "-" then some [] else do
    let b ← hexBytes s.toList ByteArray.empty
    let t ← String.fromUTF8? b
    some t.toList

def hexDigit (n : Nat) : Char := if n < 10 then Char.ofNat (48 + n) else Char.ofNat (87 + n)

def tohex (s : Str) : String :=
  let b := (String.ofList s).toUTF8
  if b.size = 0 then "-" else
  String.ofList (b.toList.flatMap fun u => [hexDigit (u.toNat / 16), hexDigit (u.toNat % 16)])

def showErr : Err → String
  | .format => "E_FORMAT"
  | .range => "E_RANGE"

def showPose (p : StampedPose) : String :=
  showRats [p.stamp, p.x, p.y, p.z, p.qw, p.qx, p.qy, p.qz]

def showMat (m : Mat34) : String := showRats (kittiRow m)

def showList {α} (f : α → String) (r : Except Err (List α)) : String :=
  match r with
  | .error e => showErr e
  | .ok l => toString l.length ++ " " ++ " ".intercalate (l.map f)

/-- ops:
  `rne p/q` → nearest double or `inf`;  `dec hex` → exact value or `E_FORMAT`;
  `num hex` → `rne (parseDec ·)` or `E_FORMAT` / `E_RANGE`;
  `tok x hex` → `OK` | `BADGRAMMAR` | `NOTCLOSE` (token written for the double `x`);
  `tum|kitti|euroc h|p hex` → `n` rows (TUM/EuRoC: stamp x y z qw qx qy qz; KITTI: 12 row-major);
  `tfjson hex` → `0|1 margin` + 16 rationals | `E_FORMAT` | `E_RANGE` | `NOJSON`;
  `quat w x y z` → 9 rationals;  `issim3 rows cols v…` → `0|1 margin`;
  `bag x` → `sec ns joined` -/
def handle (op : String) (args : List String) : Option String :=
  match op, args with
  | "rne", [x] => do
      let x ← parseRat? x
      some (match F64.rne x with | none => "inf" | some r => showRat r)
  | "dec", [h] => do
      let s ← unhex h
      some (match parseDec s with | none => "E_FORMAT" | some v => showRat v)
  | "num", [h] => do
      let s ← unhex h
      some (match parseDec s with
        | none => "E_FORMAT"
        | some v => match F64.rne v with | none => "E_RANGE" | some r => showRat r)
  | "tok", [x, h] => do
      let x ← parseRat? x
      let s ← unhex h
      if !inGrammar s then some "BADGRAMMAR" else
      match parseDec s with
      | none => some "BADGRAMMAR"
      | some y => some (if close x y then "OK" else "NOTCLOSE")
  | "tum", [v, h] => do
      let s ← unhex h
      some (showList showPose (if v = "p" then readTumPath s else readTum s))
  | "kitti", [v, h] => do
      let s ← unhex h
      some (showList showMat (if v = "p" then readKittiPath s else readKitti s))
  | "euroc", [v, h] => do
      let s ← unhex h
      some (showList showPose (if v = "p" then readEurocPath s else readEuroc s))
  | "tfjson", [h] => do
      let s ← unhex h
      some (match loadTransformJson s with
        | none => "NOJSON"
        | some (.error e) => showErr e
        | some (.ok m) => (if isSim3Tol m then "1 " else "0 ") ++ showRat (sim3Margin m) ++ " " ++ showRats m.flatten)
  | "quat", [w, x, y, z] => do
      let w ← parseRat? w; let x ← parseRat? x; let y ← parseRat? y; let z ← parseRat? z
      some (showRats (quatToRot w x y z).flatten)
  | "issim3", r :: c :: l => do
      let r ← r.toNat?
      let c ← c.toNat?
      let rs ← parseRats? l
      let mat := if c = 0 then [rs] else (List.range r).map fun i => (rs.drop (i * c)).take c
      some ((if isSim3Tol mat then "1 " else "0 ") ++ showRat (sim3Margin mat))
  | "bag", [x] => do
      let x ← parseRat? x
      match bagSplit x with
      | none => some "inf"
      | some (s, n) => match bagJoin s n with
        | none => some "inf"
        | some r => some s!"{s} {n} {showRat r}"
  | _, _ => none

end Evo.Drv.C07
