/- driver operations of C07 (stub: no model yet) -/
namespace Evo.Drv.C07
def handle (_op : String) (_args : List String) : Option String := none
end Evo.Drv.C07
