/- driver operations of C08 (stub: no model yet) -/
namespace Evo.Drv.C08
def handle (_op : String) (_args : List String) : Option String := none
end Evo.Drv.C08
