/-
Driver operations of C08: a whole operation history is one request.

  `run <init> <k> <op>…`  → per step `<out> ; <num> <check-on-a-copy> <cache bits>`, joined by ` | `
  `spec <init> <k> <op>…` → the same for the abstract spec (no cache bits)

`<init>` = `se3 n <12n rationals>` | `pq n <7n rationals: x y z  w qx qy qz>`, then `T <ratlist>` | `N`.
`<op>` = `tf L|R|P <12> <norm|->` | `sc s` | `red <natlist>` | `redi <k> <signed ints>` | `ds n <natlist>` | `mf <natlist>`
       | `crop <natlist>` | `al r|s|o <9> <3> c <norm|->` | `ao <12> <norm|->` | `pj nd k <9k>` | `cp`
       | `rd pos|quat|se3|stamps|num|dist` | `chk`
-/
import EvoModel.Model.Traj
namespace Evo.Drv.C08
open Evo Evo.Traj

abbrev Prs := StateT (List String) Option

def tok : Prs String := fun l => match l with | [] => none | a :: r => some (a, r)
def ratP : Prs Rat := do let t ← tok; (parseRat? t : Option Rat)
def natP : Prs Nat := do let t ← tok; (t.toNat? : Option Nat)
def repP {α} (p : Prs α) : Nat → Prs (List α)
  | 0 => pure []
  | n + 1 => do let a ← p; let r ← repP p n; pure (a :: r)
def intP : Prs Int := do let t ← tok; (t.toInt? : Option Int)
def intListP : Prs (List Int) := do let n ← natP; repP intP n
def natListP : Prs (List Nat) := do let n ← natP; repP natP n
def ratListP : Prs (List Rat) := do let n ← natP; repP ratP n
def v3P : Prs (V3 Rat) := do let a ← ratP; let b ← ratP; let c ← ratP; pure ⟨a, b, c⟩
def m3P : Prs (M3 Rat) := do
  let l ← repP ratP 9
  (M3.ofList l : Option (M3 Rat))
def poseP : Prs P := do
  let l ← repP ratP 12
  (Pose.ofList l : Option P)
def normP : Prs (Option Rat) := do
  let t ← tok
  if t = "-" then pure none else match parseRat? t with | some r => pure (some r) | none => failure
def stampsP : Prs (Option (List Rat)) := do
  let t ← tok
  if t = "N" then pure none else if t = "T" then do let l ← ratListP; pure (some l) else failure

def initP : Prs (St × ATraj) := do
  let t ← tok
  let n ← natP
  if t = "se3" then do
    let ps ← repP poseP n
    let st ← stampsP
    pure (initSe3 ps st, ATraj.init ps st)
  else if t = "pq" then do
    let l ← repP (do let p ← v3P; let w ← ratP; let x ← ratP; let y ← ratP; let z ← ratP; pure (p, quatToRot w x y z)) n
    let st ← stampsP
    let ps : List P := l.map (fun (p, r) => ⟨r, p⟩)
    pure (initPosQuat (l.map (·.1)) (l.map (·.2)) st, ATraj.init ps st)
  else failure

def opP : Prs Op := do
  let t ← tok
  match t with
  | "tf" => do
      let m ← tok
      let T ← poseP
      let nm ← normP
      let mode ← (match m with | "L" => pure Mode.left | "R" => pure Mode.right | "P" => pure Mode.prop | _ => failure : Prs Mode)
      pure (.transform mode T nm)
  | "sc" => do let s ← ratP; pure (.scale s)
  | "red" => do let l ← natListP; pure (.reduce l)
  | "redi" => do let l ← intListP; pure (.reduceInt l)
  | "ds" => do let n ← natP; let l ← natListP; pure (.downsample n l)
  | "mf" => do let l ← natListP; pure (.motionFilter l)
  | "crop" => do let l ← natListP; pure (.crop l)
  | "al" => do
      let m ← tok
      let r ← m3P; let t ← v3P; let c ← ratP; let nm ← normP
      let am ← (match m with | "r" => pure AlignMode.rigid | "s" => pure AlignMode.withScale | "o" => pure AlignMode.onlyScale | _ => failure : Prs AlignMode)
      pure (.align am r t c nm)
  | "ao" => do let p ← poseP; let nm ← normP; pure (.alignOrigin p nm)
  | "pj" => do let nd ← natP; let k ← natP; let l ← repP m3P k; pure (.project nd l)
  | "cp" => pure .copy
  | "rd" => do
      let v ← tok
      match v with
      | "pos" => pure (.read .pos) | "quat" => pure (.read .quat) | "se3" => pure (.read .se3)
      | "stamps" => pure (.read .stamps) | "num" => pure (.read .num) | "dist" => pure (.read .dist)
      | _ => failure
  | "chk" => pure .check
  | _ => failure

def b01 (b : Bool) : String := if b then "1" else "0"

def showOut : Out → String
  | .unit => "U"
  | .err => "E_TRAJ"
  | .vecs l => s!"V {l.length} " ++ showRats (l.flatMap V3.toList)
  | .rots l => s!"R {l.length} " ++ showRats (l.flatMap M3.toList)
  | .poses l => s!"M {l.length} " ++ showRats (l.flatMap Pose.toList)
  | .stamps none => "S -"
  | .stamps (some l) => s!"S {l.length} " ++ showRats l
  | .num n => s!"N {n}"
  | .rats l => s!"Q {l.length} " ++ showRats l
  | .chk a b r c => s!"C {b01 a} {b01 b} {showRat r} {b01 c}"

def runShow (s : St) : List Op → List String
  | [] => []
  | op :: r =>
      let (s', o) := step s op
      (showOut o ++ " ; " ++ toString s'.numPoses ++ " " ++ showOut s'.check.2 ++ " " ++ s'.cacheBits)
        :: runShow s' r

def specShow (a : ATraj) : List Op → List String
  | [] => []
  | op :: r =>
      let (a', o) := specStep a op
      (showOut o ++ " ; " ++ toString a'.items.length ++ " " ++ showOut (specStep a' .check).2)
        :: specShow a' r

def handle (op : String) (args : List String) : Option String :=
  match op with
  | "run" => do
      let ((s, _), rest) ← initP args
      let (ops, _) ← (do let k ← natP; repP opP k : Prs (List Op)) rest
      some (" | ".intercalate (runShow s ops))
  | "spec" => do
      let ((_, a), rest) ← initP args
      let (ops, _) ← (do let k ← natP; repP opP k : Prs (List Op)) rest
      some (" | ".intercalate (specShow a ops))
  | _ => none

end Evo.Drv.C08
