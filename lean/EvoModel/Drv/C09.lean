import EvoModel.Model.Lie
namespace Evo.Drv.C09
open Evo Evo.Lie

def mat4OfList : List Rat → Option (Mat4 Rat)
  | [a, b, c, tx, d, e, f, ty, g, h, i, tz, b0, b1, b2, b3] =>
      some ⟨⟨⟨a, b, c, d, e, f, g, h, i⟩, ⟨tx, ty, tz⟩⟩, b0, b1, b2, b3⟩
  | _ => none

def showB (b : Bool) : String := if b then "1" else "0"

/-- ops (matrices row-major; 3×3 = 9, pose = 12 (3×4), 4×4 = 16 rationals):
  `hat v`            → 9          `vee m`          → 3
  `se3inv pose`      → 12         `rel p1 p2`      → 12        `relso3 r1 r2` → 9
  `sim3 r t s`       → 12         `sim3inv pose s` → 12        `det m`        → 1
  `isso3 m`          → `b margin` `isse3 m4`       → `b margin bottom`
  `issim3 m4 s`      → `b margin bottom`
  `angle m`          → `c s²`     `rodrigues v a b` → 9 -/
def handle (op : String) (args : List String) : Option String := do
  let rs ← parseRats? args
  match op with
  | "hat" => do
      let v ← V3.ofList rs
      some (showRats (M3.hat v).toList)
  | "vee" => do
      let m ← M3.ofList rs
      some (showRats (M3.vee m).toList)
  | "se3inv" => do
      let p ← Pose.ofList rs
      some (showRats p.inv.toList)
  | "rel" => do
      let p ← Pose.ofList (rs.take 12)
      let q ← Pose.ofList (rs.drop 12)
      some (showRats (p.rel q).toList)
  | "relso3" => do
      let p ← M3.ofList (rs.take 9)
      let q ← M3.ofList (rs.drop 9)
      some (showRats (relSo3 p q).toList)
  | "sim3" => do
      let r ← M3.ofList (rs.take 9)
      let t ← V3.ofList ((rs.drop 9).take 3)
      match rs.drop 12 with
      | [s] => some (showRats (Pose.sim3 r t s).toList)
      | _ => none
  | "sim3inv" => do
      let p ← Pose.ofList (rs.take 12)
      match rs.drop 12 with
      | [s] => if s = 0 then some "E_GEOMETRY" else some (showRats (p.sim3Inv s).toList)
      | _ => none
  | "det" => do
      let m ← M3.ofList rs
      some (showRat m.det)
  | "isso3" => do
      let m ← M3.ofList rs
      some s!"{showB (isSo3Tol m)} {showRat (so3Margin m)}"
  | "isse3" => do
      let m ← mat4OfList rs
      some s!"{showB (isSe3Tol m)} {showRat (so3Margin m.top.rot)} {showB (bottomOk m)}"
  | "issim3" => do
      let m ← mat4OfList (rs.take 16)
      match rs.drop 16 with
      | [s] =>
          if s = 0 then some "E_GEOMETRY" else
          some s!"{showB (isSim3Tol m s)} {showRat (so3Margin (M3.smul (1 / s) m.top.rot))} {showB (bottomOk m)}"
      | _ => none
  | "angle" => do
      let m ← M3.ofList rs
      let (c, s2) := m.angleCore
      some s!"{showRat c} {showRat s2}"
  | "rodrigues" => do
      let v ← V3.ofList (rs.take 3)
      match rs.drop 3 with
      | [a, b] => some (showRats (rodrigues v a b).toList)
      | _ => none
  | _ => none

end Evo.Drv.C09
