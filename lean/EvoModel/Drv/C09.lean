/- driver operations of C09 (stub: no model yet) -/
namespace Evo.Drv.C09
def handle (_op : String) (_args : List String) : Option String := none
end Evo.Drv.C09
