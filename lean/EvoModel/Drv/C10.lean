/- driver operations of C10 (stub: no model yet) -/
namespace Evo.Drv.C10
def handle (_op : String) (_args : List String) : Option String := none
end Evo.Drv.C10
