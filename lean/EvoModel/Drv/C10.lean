import EvoModel.Model.Pairs
namespace Evo.Drv.C10
open Evo Evo.Pairs

def showPairs (l : IdPairs) : String :=
  if l.isEmpty then "-" else " ".intercalate (l.map fun p => s!"{p.1}:{p.2}")

def showRes : Except Err IdPairs → String
  | .error _ => "E_FILTER"
  | .ok ps => showPairs ps

/-- split the flattened upper triangle (`ang 0 1 … ang 0 (n−1), ang 1 2 …`) into rows -/
def triRows : Nat → Nat → List Rat → List (Array Rat)
  | 0, _, _ => []
  | fuel + 1, len, l => (l.take len).toArray :: triRows fuel (len - 1) (l.drop len)

def angOf (rows : Array (Array Rat)) (i j : Nat) : Rat :=
  ((rows[i]?.getD #[])[j - (i + 1)]?).getD 0

def parseBool? : String → Option Bool
  | "0" => some false
  | "1" => some true
  | _ => none

def parseUnit? : String → Option DUnit
  | "f" => some .frames
  | "m" => some .meters
  | "rad" => some .radians
  | "deg" => some .degrees
  | "other" => some .other
  | _ => none

/-- common argument layout of every op:
  `n pi δ t deg all  k steps…  k cang…  k tri…`
(`t` = `tol` for the filter ops and `rel_tol` for `delta:*`; unused lists are sent empty).
ops:
  `acc`            → accumulated distances of `steps`
  `index`          → `filter_pairs_by_index` with `int δ`
  `path`           → `filter_pairs_by_path(δ, tol=t, all)`
  `angle`          → `filter_pairs_by_angle(δ, tol=t, deg, all)` or `E_FILTER`
  `delta:<unit>`   → `id_pairs_from_delta(δ, unit, rel_tol=t, all)` or `E_FILTER`
  `rpe:<unit>`     → `RPE(delta=δ, delta_unit, rel_delta_tol=t, all_pairs).process_data`: pairs, `E_METRICS` or `E_FILTER`
  `mpath`, `mangle`→ smallest decision margin of the corresponding `path` / `angle` call
pairs are printed as `i:j …`, the empty list as `-`. -/
def handle (op : String) (args : List String) : Option String :=
  match args with
  | n :: pi :: δ :: t :: deg :: all :: rest => do
      let n ← n.toNat?
      let pi ← parseRat? pi
      let δ ← parseRat? δ
      let t ← parseRat? t
      let deg ← parseBool? deg
      let all ← parseBool? all
      let (steps, rest) ← readRatList rest
      let (cang, rest) ← readRatList rest
      let (tri, _) ← readRatList rest
      let rows := (triRows n (n - 1) tri).toArray
      let ang := angOf rows
      match op.splitOn ":" with
      | ["acc"] => some (showRats (accDist steps))
      | ["index"] => some (showPairs (pairsByIndex n (toFrames δ) all))
      | ["path"] => some (showPairs (pairsByPath steps δ t all))
      | ["angle"] => some (showRes (pairsByAngle cang ang n pi δ t deg all))
      | ["delta", u] => do
          let u ← parseUnit? u
          some (showRes (idPairsFromDelta ⟨n, steps, cang, ang, pi⟩ δ u t all))
      | ["rpe", u] => do
          let u ← parseUnit? u
          match rpePairs ⟨n, steps, cang, ang, pi⟩ δ u t all with
          | .error .metrics => some "E_METRICS"
          | .error .filter => some "E_FILTER"
          | .ok ps => some (showPairs ps)
      | ["mpath"] =>
          some (showRat (if all then pathAllMargin (accDist steps) δ t
                         else reachMargin δ (0 :: steps) 0 big))
      | ["mangle"] =>
          let δ' := if deg then deg2rad pi δ else δ
          let t' := if deg then deg2rad pi t else t
          some (showRat (if all then angleAllMargin ang n δ' t' else reachMargin δ' cang 0 big))
      | _ => none
  | _ => none

end Evo.Drv.C10
