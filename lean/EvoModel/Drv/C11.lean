/- driver operations of C11 (sub-sampling, cropping, splitting, merging) -/
import EvoModel.Model.Select
namespace Evo.Drv.C11
open Evo Evo.Select

def showErr : Err → String
  | .traj => "E_TRAJ"
  | .filter => "E_FILTER"

def showParts (ps : List (List Nat)) : String :=
  "|".intercalate (ps.map fun p => ",".intercalate (p.map toString))

def optRat? (s : String) : Option (Option Rat) :=
  if s = "-" then some none else (parseRat? s).map some

/-- angle between two rotations about one fixed axis with headings `h j`, `h i` given in degrees:
`|h i − h j|` wrapped into `[0, 180]` -/
def planarAngle (h : Array Rat) (j i : Nat) : Rat :=
  let x := h.getD i 0 - h.getD j 0
  let y := x - 360 * ((x / 360).floor : Rat)
  if y ≤ 180 then y else 360 - y

/-- ops (see `harness/props/C11.py`):
  `linspace n N`                          → ids
  `downsample n N`                        → `NOOP` | `E_TRAJ` | ids
  `motion d a k lens… m table…`           → ids | `E_FILTER`   (table: n×n angles row-major, n = k+1)
  `motionh d a k lens… n headings…`       → same, planar rotations, headings and `a` in degrees
  `crop s e k ts…`                        → ids | `E_TRAJ`     (`-` = None)
  `splitt dt k ts…`                       → parts of `range n` as `a,b|c,d`
  `splitd thr k lens…`                    → parts
  `splits vmax k lens… k ts…`             → parts | `E_TRAJ`
  `reduce n k ids…`                       → `reduce_to_ids` applied to `range n`
  `merge m (k stamps…)×m`                 → `order of positions ; order of orientations ; sorted stamps` -/
def handle (op : String) (args : List String) : Option String :=
  match op, args with
  | "linspace", [n, N] => do
      let n ← n.toNat?; let N ← N.toNat?
      some (showNats (linspaceIds n N))
  | "downsample", [n, N] => do
      let n ← n.toNat?; let N ← N.toNat?
      match downsampleIds n N with
      | .error e => some (showErr e)
      | .ok none => some "NOOP"
      | .ok (some ids) => some (showNats ids)
  | "motion", d :: a :: rest => do
      let d ← parseRat? d; let a ← parseRat? a
      let (lens, rest) ← readRatList rest
      let (tab, _) ← readRatList rest
      let n := lens.length + 1
      let arr := tab.toArray
      match motionFilterSteps lens (fun j i => arr.getD (j * n + i) 0) d a with
      | .error e => some (showErr e)
      | .ok ids => some (showNats ids)
  | "motionh", d :: a :: rest => do
      let d ← parseRat? d; let a ← parseRat? a
      let (lens, rest) ← readRatList rest
      let (hs, _) ← readRatList rest
      match motionFilterSteps lens (planarAngle hs.toArray) d a with
      | .error e => some (showErr e)
      | .ok ids => some (showNats ids)
  | "crop", s :: e :: rest => do
      let s ← optRat? s; let e ← optRat? e
      let (ts, _) ← readRatList rest
      match cropIds ts s e with
      | .error x => some (showErr x)
      | .ok ids => some (showNats ids)
  | "splitt", dt :: rest => do
      let dt ← parseRat? dt
      let (ts, _) ← readRatList rest
      some (showParts (slices (List.range ts.length) (splitTimeCuts ts dt)))
  | "splitd", thr :: rest => do
      let thr ← parseRat? thr
      let (lens, _) ← readRatList rest
      some (showParts (slices (List.range (lens.length + 1)) (splitDistCuts lens thr)))
  | "splits", v :: rest => do
      let v ← parseRat? v
      let (lens, rest) ← readRatList rest
      let (ts, _) ← readRatList rest
      match splitSpeedCuts lens ts v with
      | .error x => some (showErr x)
      | .ok cuts => some (showParts (slices (List.range ts.length) cuts))
  | "reduce", n :: rest => do
      let n ← n.toNat?
      let (ids, _) ← readNatList rest
      some (showNats (reduceIds (List.range n) ids))
  | "merge", m :: rest => do
      let m ← m.toNat?
      let rec go (k : Nat) (rest : List String) (off : Nat) (acc : List (Traj Nat Nat)) :
          Option (List (Traj Nat Nat)) :=
        match k with
        | 0 => some acc.reverse
        | k + 1 => do
            let (s, rest) ← readRatList rest
            -- payloads of both arrays: position in the concatenation
            let ids := List.range' off s.length
            go k rest (off + s.length) (⟨s, ids, ids⟩ :: acc)
      let ts ← go m rest 0 []
      let r := mergeTraj ts
      some (showNats r.xyz ++ " ; " ++ showNats r.quat ++ " ; " ++ showRats r.stamps)
  | _, _ => none

end Evo.Drv.C11
