/- driver operations of C11 (stub: no model yet) -/
namespace Evo.Drv.C11
def handle (_op : String) (_args : List String) : Option String := none
end Evo.Drv.C11
