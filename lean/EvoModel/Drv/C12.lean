import EvoModel.Model.Stats
import EvoModel.Model.StrHex
/-! driver operations of C12 (statistics, units, result bookkeeping) -/
namespace Evo.Drv.C12
open Evo Evo.Stats Evo.Gen.Units Evo.StrHex

def unitOf (s : String) : Option U := U.all.find? (fun u => u.name = s)
def relOf (s : String) : Option Rel := Rel.all.find? (fun r => toString (repr r) = "Evo.Gen.Units.Rel." ++ s)

def boolOf (s : String) : Option Bool :=
  if s = "1" then some true else if s = "0" then some false else none

def toV3s : List Rat → List (V3 Rat)
  | x :: y :: z :: r => ⟨x, y, z⟩ :: toV3s r
  | _ => []

def showComp (c : Companions) : String :=
  " | ".intercalate [showNats c.stored, showRats c.seconds, showRats c.timestamps, showNats c.poseOf,
    showRats c.refStepSq, showRats c.estStepSq, toString c.skip]

def showNaming : Option Naming → String
  | none => "REFUSED"
  | some n => n.unit.name ++ " " ++ hex n.label ++ " " ++ hex n.titleHead

def optUnit (s : String) : Option (Option U) :=
  if s = "-" then some none else (unitOf s).map some

/-- history of one metric object: tokens `P k v…` (process_data with fresh native values), `C unit`
(change_unit, exceptions ignored), `X` (a refused process_data), `R` (get_result → `unit hex(label) piPow k v…`) -/
def runReuse (name : String) (native : U) : Nat → PE → List String → List String → Option (List String)
  | 0, _, _, acc => some acc.reverse
  | _, _, [], acc => some acc.reverse
  | fuel+1, pe, "P" :: rest, acc => do
      let (v, rest) ← readRatList rest
      runReuse name native fuel (processBatch native pe (some v)) rest acc
  | fuel+1, pe, "X" :: rest, acc =>
      runReuse name native fuel (processBatch native pe none) rest acc
  | fuel+1, pe, "C" :: u :: rest, acc => do
      let u ← unitOf u
      runReuse name native fuel ((changeUnit pe u).getD pe) rest acc
  | fuel+1, pe, "R" :: rest, acc =>
      runReuse name native fuel pe rest
        ((pe.unit.name ++ " " ++ hex (metricLabel name pe.unit) ++ " " ++ toString pe.piPow ++ " " ++
          toString pe.error.length ++ (if pe.error.isEmpty then "" else " " ++ showRats pe.error)) :: acc)
  | _, _, _, _ => none

/-- ops:
  `reuse namehex nativeUnit ops…`           → results of the `R` steps joined by ` ; `
  `stats k e…`                              → `rmse² mean median std² min max sse`
  `factor u v`                              → `q piPow` | `REFUSED`
  `cu u piPow v k e…`                       → `v piPow e'…` | `REFUSED`
  `classify u v`                            → constructor of `Obs`
  `hist new|old namehex u v k e…`           → `hex(label) unitAtCreation | result array | pe unit | pe array`
  `ape k ts… 3k pr… 3k pe…`                 → companions
  `rpe k ts… 3k pr… 3k pe… m ids…`          → companions
  `ratio k ref… k est… k ids…`              → `ids | values`
  `naming ape rel chg|- nprobe`             → `unit hex(label) hex(title)` | `REFUSED`
  `naming rpe rel chg|- nprobe deltahex deltaUnit allPairs`
  `suffix align correctScale alignOrigin n planehex|-` → hex(suffix) -/
def handle (op : String) (args : List String) : Option String :=
  match op, args with
  | "reuse", name :: u :: rest => do
      let name ← unhex name; let u ← unitOf u
      let outs ← runReuse name u (rest.length + 1) { unit := u, error := [] } rest []
      some (" ; ".intercalate outs)
  | "stats", rest => do
      let (e, _) ← readRatList rest
      let s := allStats e
      some (showRats [s.rmseSq, s.mean, s.median, s.stdSq, s.min, s.max, s.sse])
  | "factor", [u, v] => do
      let u ← unitOf u; let v ← unitOf v
      match factor u v with
      | none => some "REFUSED"
      | some f => some (showRat f.q ++ " " ++ toString f.piPow)
  | "cu", u :: k :: v :: rest => do
      let u ← unitOf u; let v ← unitOf v; let k ← k.toInt?
      let (e, _) ← readRatList rest
      match changeUnit { unit := u, error := e, piPow := k } v with
      | none => some "REFUSED"
      | some pe => some (pe.unit.name ++ " " ++ toString pe.piPow ++ " " ++ showRats pe.error)
  | "classify", [u, v] => do
      let u ← unitOf u; let v ← unitOf v
      some (match classify u v with
        | .noop => "noop" | .refusedUntouched => "refusedUntouched" | .refusedTouched => "refusedTouched"
        | .other => "other" | .scaled q k => "scaled " ++ showRat q ++ " " ++ toString k)
  | "hist", which :: name :: u :: v :: rest => do
      let name ← unhex name
      let u ← unitOf u; let v ← unitOf v
      let (e, _) ← readRatList rest
      let h0 : Heap := [e]
      let pe0 : PEObj := ⟨u, 0⟩
      let res := getResultH name pe0
      let (h1, pe1) ← (if which = "new" then some (changeUnitH h0 pe0 v)
                        else if which = "old" then some (changeUnitHOld h0 pe0 v) else none)
      some (hex res.label ++ " " ++ res.unitAtCreation.name ++ " | " ++ showRats (h1.getD res.addr [])
            ++ " | " ++ pe1.unit.name ++ " | " ++ showRats (h1.getD pe1.addr []))
  | "ape", rest => do
      let (ts, rest) ← readRatList rest
      let (pr, rest) ← readRatList rest
      let (pe, _) ← readRatList rest
      some (showComp (apeResultArrays ts (toV3s pr) (toV3s pe)))
  | "rpe", rest => do
      let (ts, rest) ← readRatList rest
      let (pr, rest) ← readRatList rest
      let (pe, rest) ← readRatList rest
      let (ids, _) ← readNatList rest
      some (showComp (rpeResultArrays ts (toV3s pr) (toV3s pe) ids))
  | "ratio", rest => do
      let (r, rest) ← readRatList rest
      let (e, rest) ← readRatList rest
      let (ids, _) ← readNatList rest
      let (a, b) := ratioFilter r e ids
      some (showNats a ++ " | " ++ showRats b)
  | "naming", "ape" :: rel :: chg :: n :: _ => do
      let rel ← relOf rel; let chg ← optUnit chg; let n ← n.toNat?
      some (showNaming (apeNaming rel chg (List.replicate n 1)))
  | "naming", "rpe" :: rel :: chg :: n :: d :: du :: ap :: _ => do
      let rel ← relOf rel; let chg ← optUnit chg; let n ← n.toNat?
      let d ← unhex d; let du ← unitOf du; let ap ← boolOf ap
      some (showNaming (rpeNaming rel chg (List.replicate n 1) d du ap))
  | "suffix", [a, c, o, n, p] => do
      let a ← boolOf a; let c ← boolOf c; let o ← boolOf o; let n ← n.toInt?
      let p ← (if p = "-" then some none else (unhex p).map some)
      some (hex (titleSuffix a c o n p))
  | _, _ => none

end Evo.Drv.C12
