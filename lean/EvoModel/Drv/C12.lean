/- driver operations of C12 (stub: no model yet) -/
namespace Evo.Drv.C12
def handle (_op : String) (_args : List String) : Option String := none
end Evo.Drv.C12
