import EvoModel.Model.ResultMerge
import EvoModel.Model.StrHex
/-! driver operations of C13 (merging and tabulating results) -/
namespace Evo.Drv.C13
open Evo Evo.ResultMerge Evo.StrHex

/-- read `n` items with `f` -/
def readN {α} (f : List String → Option (α × List String)) : Nat → List String → Option (List α × List String)
  | 0, l => some ([], l)
  | n+1, l => do
      let (a, l) ← f l
      let (r, l) ← readN f n l
      some (a :: r, l)

def readCounted {α} (f : List String → Option (α × List String)) (l : List String) : Option (List α × List String) :=
  match l with
  | [] => none
  | k :: rest => do
      let n ← k.toNat?
      readN f n rest

def readInfo (l : List String) : Option ((String × String) × List String) :=
  match l with
  | k :: v :: rest => do some ((← unhex k, ← unhex v), rest)
  | _ => none

def readStat (l : List String) : Option ((String × Rat) × List String) :=
  match l with
  | k :: v :: rest => do some ((← unhex k, ← parseRat? v), rest)
  | _ => none

def readArr (l : List String) : Option ((String × List Rat) × List String) :=
  match l with
  | k :: rest => do
      let k ← unhex k
      let (a, rest) ← readRatList rest
      some ((k, a), rest)
  | _ => none

/-- `ni (hexk hexv)* ns (hexk rat)* na (hexk k rat…)*` -/
def readRes (l : List String) : Option (Res × List String) := do
  let (i, l) ← readCounted readInfo l
  let (s, l) ← readCounted readStat l
  let (a, l) ← readCounted readArr l
  some (⟨i, s, a⟩, l)

def readFileRes (l : List String) : Option ((String × Res) × List String) :=
  match l with
  | f :: rest => do
      let f ← unhex f
      let (r, rest) ← readRes rest
      some ((f, r), rest)
  | _ => none

def showStats (s : Dict Rat) : String :=
  " ".intercalate (toString s.length :: s.map fun p => hex p.1 ++ " " ++ showRat p.2)

def showRes (r : Res) : String :=
  " ".intercalate [
    " ".intercalate (toString r.info.length :: r.info.map fun p => hex p.1 ++ " " ++ hex p.2),
    showStats r.stats,
    " ".intercalate (toString r.arrays.length :: r.arrays.map fun p =>
      hex p.1 ++ " " ++ " ".intercalate (toString p.2.length :: p.2.map showRat))]

def showErr : Err → String
  | .noResults => "E_NORESULTS"
  | .keyMismatch => "E_KEYS"
  | .broadcast => "E_BROADCAST"
  | .duplicateLabels => "E_DUP"

/-- ops:
  `merge N res…` / `mergeold N res…` → `OK A|C res` (A = averaged, C = concatenated) | `E_…`
  `table useFilenames merge N (hexfile res)…` → `OK nrows (hexlabel stats)…` | `E_…` -/
def handle (op : String) (args : List String) : Option String :=
  match op, args with
  | "merge", rest => do
      let (rs, _) ← readCounted readRes rest
      match mergeResults rs with
      | .error e => some (showErr e)
      | .ok r => some ("OK " ++ (if average rs then "A " else "C ") ++ showRes r)
  | "mergeold", rest => do
      let (rs, _) ← readCounted readRes rest
      match mergeResultsOld rs with
      | .error e => some (showErr e)
      | .ok r => some ("OK " ++ (if averageOld rs then "A " else "C ") ++ showRes r)
  | "table", uf :: mg :: rest => do
      let uf ← (if uf = "1" then some true else if uf = "0" then some false else none)
      let mg ← (if mg = "1" then some true else if mg = "0" then some false else none)
      let (fs, _) ← readCounted readFileRes rest
      match resultTable fs uf mg with
      | .error e => some (showErr e)
      | .ok t => some ("OK " ++ " ".intercalate (toString t.length :: t.map fun p => hex p.1 ++ " " ++ showStats p.2))
  | _, _ => none

end Evo.Drv.C13
