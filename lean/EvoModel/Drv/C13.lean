/- driver operations of C13 (stub: no model yet) -/
namespace Evo.Drv.C13
def handle (_op : String) (_args : List String) : Option String := none
end Evo.Drv.C13
