import EvoModel.Model.Project
namespace Evo.Drv.C14
open Evo Evo.Project

def plane? : String → Option Plane
  | "xy" => some .xy | "xz" => some .xz | "yz" => some .yz | _ => none

def showB (b : Bool) : String := if b then "1" else "0"

/-- ops:
  `proj plane pose`        → `tx ty tz xsq xneg y gimbal margin`  (zeroed position, Euler direction, branch)
  `unit plane pose c s`    → `isUnit fixed` (exact: is (c, s) the normalised direction; is the pose unchanged)
  `hist n plane…`          → `OK`/`REFUSED` per call of `project` on one object -/
def handle (op : String) (args : List String) : Option String :=
  match op, args with
  | "proj", pl :: rest => do
      let pl ← plane? pl
      let rs ← parseRats? rest
      let p ← Pose.ofList rs
      let d := dirOf epsSqRat pl p.rot
      let t := zeroNormal pl p.t
      some s!"{showRats t.toList} {showRat d.xsq} {showB d.xneg} {showRat d.y} {showB d.gimbal} {showRat (gimbalMargin p.rot)}"
  | "unit", pl :: rest => do
      let pl ← plane? pl
      let rs ← parseRats? rest
      let p ← Pose.ofList (rs.take 12)
      match rs.drop 12 with
      | [c, s] =>
          let d := dirOf epsSqRat pl p.rot
          some s!"{showB (decide (d.IsUnit c s))} {showB (decide (projectPose pl p c s = p))}"
      | _ => none
  | "hist", _ :: pls => do
      let pls ← pls.mapM plane?
      let tr : Traj Rat := ⟨[0], [Pose.one], false⟩
      some (" ".intercalate ((history tr pls).map fun b => if b then "OK" else "REFUSED"))
  | _, _ => none

end Evo.Drv.C14
