/- driver operations of C14 (stub: no model yet) -/
namespace Evo.Drv.C14
def handle (_op : String) (_args : List String) : Option String := none
end Evo.Drv.C14
