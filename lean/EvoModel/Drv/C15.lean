/- driver operations of C15: the evo_traj plan and the rational semantics of invert / transform -/
import EvoModel.Model.TrajPlan
import EvoModel.Model.TrajPipeline
namespace Evo.Drv.C15
open Evo Evo.TrajPlan Evo.TrajPipeline

def b? (s : String) : Option Bool := if s = "1" then some true else if s = "0" then some false else none

def sub? : String → Option Sub
  | "tum" => some .tum | "kitti" => some .kitti | "euroc" => some .euroc | _ => none

def plane? : String → Option (Option Plane)
  | "-" => some none | "xy" => some (some .xy) | "xz" => some (some .xz) | "yz" => some (some .yz) | _ => none

def showB (b : Bool) : String := if b then "1" else "0"
def showPlane : Plane → String | .xy => "xy" | .xz => "xz" | .yz => "yz"
def showFile : TfFile → String | .left => "left" | .right => "right"

def showInt (i : Int) : String := toString i

def showStep : Step → String
  | .downsample n => s!"downsample:{n}"
  | .motionFilter d a => "motion_filter:" ++ showRat d ++ ":" ++ showRat a
  | .merge => "merge"
  | .tOffset dt => "t_offset:" ++ showRat dt
  | .sync md => "sync:" ++ showRat md
  | .align c o n => "align:" ++ showB c ++ ":" ++ showB o ++ ":" ++ showInt n
  | .alignOrigin => "align_origin"
  | .transform f i r p => "transform:" ++ showFile f ++ ":" ++ showB i ++ ":" ++ showB r ++ ":" ++ showB p
  | .project p => "project:" ++ showPlane p
  | .exportTum => "export_tum"
  | .exportKitti => "export_kitti"

def showDie : Die → String
  | .parser => "parser"
  | .mergeKitti => "merge_kitti"
  | .mergeNothing => "merge_nothing"
  | .offsetWithoutStamps => "offset_without_stamps"
  | .nToAlignUseless => "n_to_align_useless"
  | .noReference => "no_reference"
  | .tumWithoutStamps => "tum_without_stamps"

def showSteps (l : List Step) : String := if l.isEmpty then "-" else " ".intercalate (l.map showStep)

/-- 19 flag tokens in the field order of `Flags` -/
def readFlags : List String → Option (Flags × List String)
  | sub :: ref :: nt :: ds :: mf :: mg :: to :: nta :: sy :: al :: cs :: ao :: tl :: tr :: inv :: pr :: pl :: st :: sk :: rest => do
      let f : Flags := {
        sub := ← sub? sub, ref := ← b? ref, noTraj := ← b? nt, downsample := ← b? ds, motionFilter := ← b? mf,
        merge := ← b? mg, tOffset := ← b? to, nToAlign := ← b? nta, sync := ← b? sy, align := ← b? al,
        correctScale := ← b? cs, alignOrigin := ← b? ao, transformLeft := ← b? tl, transformRight := ← b? tr,
        invert := ← b? inv, propagate := ← b? pr, plane := ← plane? pl, saveTum := ← b? st, saveKitti := ← b? sk }
      some (f, rest)
  | _ => none

def readPose (l : List String) : Option (Pose Rat × List String) := do
  let (a, rest) ← takeN 12 l
  let rs ← parseRats? a
  let p ← Pose.ofList rs
  some (p, rest)

def readOptPose : List String → Option (Option (Pose Rat) × List String)
  | "-" :: rest => some (none, rest)
  | "+" :: rest => do
      let (p, rest) ← readPose rest
      some (some p, rest)
  | _ => none

/-- `hasStamps k stamps… k poses…` -/
def readTraj (l : List String) : Option (Traj × List String) :=
  match l with
  | has :: rest => do
      let (st, rest) ← readRatList rest
      let (ps, rest) ← readPoseList rest
      some (⟨if has = "1" then some st else none, ps⟩, rest)
  | [] => none

def chunk (n : Nat) : Nat → List Rat → List (List Rat)
  | 0, _ => []
  | k + 1, l => l.take n :: chunk n k (l.drop n)

def pairs : List Rat → List (Rat × Rat)
  | a :: b :: r => (a, b) :: pairs r
  | _ => []

/-- `k lens… n n·n angles… angRad R(9) t(3) s k 2k dirs…` -/
def readCert (l : List String) : Option (Cert × List String) := do
  let (lens, rest) ← readRatList l
  match rest with
  | n :: rest => do
      let n ← n.toNat?
      let (a, rest) ← takeN (n * n) rest
      let a ← parseRats? a
      let (b, rest) ← takeN 14 rest
      let b ← parseRats? b
      let (d, rest) ← readRatList rest
      match b with
      | ar :: r0 :: r1 :: r2 :: r3 :: r4 :: r5 :: r6 :: r7 :: r8 :: t0 :: t1 :: t2 :: [sc] =>
          some ({ mfLens := lens, mfAng := chunk n n a, mfAngRad := ar, umeR := ⟨r0, r1, r2, r3, r4, r5, r6, r7, r8⟩,
                  umeT := ⟨t0, t1, t2⟩, umeS := sc, projDirs := pairs d }, rest)
      | _ => none
  | [] => none

def readN {α} (f : List String → Option (α × List String)) : Nat → List String → Option (List α × List String)
  | 0, l => some ([], l)
  | n + 1, l => do
      let (a, rest) ← f l
      let (as, rest) ← readN f n rest
      some (a :: as, rest)

def showTraj (t : Traj) : String :=
  (match t.stamps with | some s => "1 " ++ toString s.length ++ " " ++ showRats s | none => "0 0") ++ " " ++
    toString t.poses.length ++ " " ++ showPoses t.poses

def showPErr : PErr → String
  | .select => "select" | .sync => "sync" | .align => "align" | .noRef => "no_ref" | .noStamps => "no_stamps"
  | .noTransform => "no_transform"

def readOpts (rest : List String) : Option (TrajOpts × List String) := do
  let (f, rest) ← readFlags rest
  match rest with
  | ds :: d :: a :: to :: md :: n :: rest => do
      let o : TrajOpts := { flags := f, downsample := ← ds.toNat?, mfDistance := ← parseRat? d,
                            mfAngleDeg := ← parseRat? a, tOffset := ← parseRat? to, tMaxDiff := ← parseRat? md,
                            nToAlign := ← n.toInt? }
      some (o, rest)
  | _ => none

/-- `run <flags> <values> tfScaleLeft tfScaleRight tfL tfR ntraj traj… cert… mergedCert hasRef [ref refCert]` -/
def handleRun (rest : List String) : Option String := do
  let (o, rest) ← readOpts rest
  match rest with
  | scl :: scr :: rest => do
      let scl ← parseRat? scl
      let scr ← parseRat? scr
      let (tl, rest) ← readOptPose rest
      let (tr, rest) ← readOptPose rest
      match rest with
      | nt :: rest => do
          let nt ← nt.toNat?
          let (trajs, rest) ← readN readTraj nt rest
          let (certs, rest) ← readN readCert nt rest
          let (mc, rest) ← readCert rest
          let (ref, refCert) ← (match rest with
            | "1" :: rest => do
                let (r, rest) ← readTraj rest
                let (c, _) ← readCert rest
                some (some r, c)
            | _ => some (none, ({} : Cert)))
          let inp : Inputs := ⟨trajs, ref, certs, mc, refCert, tl, tr, scl, scr⟩
          match trajRun o inp with
          | .error (.inl d) => some ("DIE " ++ showDie d)
          | .error (.inr e) => some ("ERR " ++ showPErr e)
          | .ok (ts, r) =>
              some ("OK " ++ toString ts.length ++ " " ++ " ".intercalate (ts.map showTraj) ++
                (match r with | some r => " 1 " ++ showTraj r | none => " 0"))
      | [] => none
  | _ => none

/-- ops:
  `plan <19 flags> downsample mfDist mfAngle tOffset tMaxDiff nToAlign` → `OK steps… | refsteps…` or `DIE reason`
  `run …`             → `trajRun` on rational inputs (see `handleRun`)
  `invert s M`        → `se3|sim3` and the 12 entries of the inverse used by `run`
  `invertold M`       → the 12 entries `se3_inverse` returns (code before fix 0088a59)
  `isse3 M`           → `1|0` and the margin of the tolerance tests
  `mul A B`           → `A·B`
  `transform rightMul propagate s T k poses…` → transformed poses -/
def handle (op : String) (args : List String) : Option String :=
  match op, args with
  | "run", rest => handleRun rest
  | "plan", rest => do
      let (f, rest) ← readFlags rest
      match rest with
      | [ds, d, a, to, md, n] => do
          let o : TrajOpts := { flags := f, downsample := ← ds.toNat?, mfDistance := ← parseRat? d,
                                mfAngleDeg := ← parseRat? a, tOffset := ← parseRat? to, tMaxDiff := ← parseRat? md,
                                nToAlign := ← n.toInt? }
          match trajPlan o with
          | .error d => some ("DIE " ++ showDie d)
          | .ok l => some ("OK " ++ showSteps l ++ " | " ++ showSteps (refPlan o))
      | _ => none
  | "invert", s :: rest => do
      let s ← parseRat? s
      let (m, _) ← readPose rest
      if s = 0 then none else
      some ((if isSe3Tol m then "se3 " else "sim3 ") ++ showRats (invertTransform m s).toList)
  | "invertold", rest => do
      let (m, _) ← readPose rest
      some (showRats (invertTransformOld m).toList)
  | "isse3", rest => do
      let (m, _) ← readPose rest
      some (showB (isSe3Tol m) ++ " " ++ showRat (se3Margin m))
  | "mul", rest => do
      let (a, rest) ← readPose rest
      let (b, _) ← readPose rest
      some (showRats (a.mul b).toList)
  | "transform", r :: p :: s :: rest => do
      let r ← b? r
      let p ← b? p
      let s ← parseRat? s
      let (t, rest) ← readPose rest
      let (poses, _) ← readPoseList rest
      if s = 0 then none else
      some (showPoses (applyTransform t r p s poses))
  | _, _ => none

end Evo.Drv.C15
