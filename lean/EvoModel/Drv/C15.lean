/- driver operations of C15 (stub: no model yet) -/
namespace Evo.Drv.C15
def handle (_op : String) (_args : List String) : Option String := none
end Evo.Drv.C15
