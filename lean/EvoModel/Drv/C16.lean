/-
Driver operations of C16: one aliasing scenario per request.

  `scen <init A> <k> <pre-ops on A> <deriv> <m> <ops on B>`
     → `<n derived> <shares-with-A per derived object> ; <B shares A after ops> <A changed> <A2 changed> <bits of A> ; <per op on B: p q s m>`
        where `p q s` = the positions / quaternion / stamps array is the same array as before the op, `m` = how many
        matrices of the new list are arrays of the old list (allocation behaviour of each method)

`<init>` and the ops use the C08 syntax (`tf`, `sc`, `red`, `pj`, `rd pos|quat|se3`; anything else is refused).
`<deriv>` = `copy` | `assoc <natlist>` | `merge <init A2>` | `split 0|1 <natlist bounds> <part>` |
            `splitold 0|1 <natlist bounds> <part>` | `self` |
            `other <init B> <k> <reads on A> <m> <ops on B>` (B.align_origin(A), B.align(A))
"A changed" compares what A shows (matrices, positions, rotations, stamps as the lazy properties
compute them) before the derivation and after the history on the derived object B.
-/
import EvoModel.Model.Heap
import EvoModel.Drv.C08
namespace Evo.Drv.C16
open Evo Evo.Traj Evo.Heap Evo.Drv.C08

def hopOf : Op → Option HOp
  | .transform m T norm => some (.transform m T norm)
  | .scale c => some (.scale c)
  | .reduce ids => some (.reduce ids)
  | .project nd rots => some (.project nd rots)
  | .read .pos => some .readPos
  | .read .quat => some .readQuat
  | .read .se3 => some .readSe3
  | _ => none

def hopsP : Prs (List HOp) := do
  let k ← natP
  let ops ← repP opP k
  (ops.mapM hopOf : Option (List HOp))

/-- build the object in the heap from the C08 machine state produced by the constructor parser -/
def alloc0 (h : Heap) (s : St) : Heap × Obj :=
  match s.se3? with
  | some ps => newSe3 h ps s.stamps
  | none => newPosQuat h (s.pos?.getD []) (s.quat?.getD []) s.stamps

def shown (h : Heap) (o : Obj) : List P × List (V3 Rat) × List (M3 Rat) × List Rat :=
  (se3Vals h o, posVals h o, quatVals h o, (o.stamps?.map h.rats).getD [])

def b01 (b : Bool) : String := if b then "1" else "0"

def bits (o : Obj) : String :=
  (if o.pos?.isSome then "p" else "-") ++ (if o.quat?.isSome then "q" else "-") ++ (if o.se3?.isSome then "m" else "-")

inductive Deriv
  | copy | self
  | assoc (ids : List Nat)
  | merge (s2 : St)
  | split (old cut : Bool) (bounds : List Nat) (part : Nat)
  /-- `B.align_origin(A)` / `B.align(A)`: B is a second object, A is read, B runs its own methods -/
  | other (s2 : St) (readsA opsB : List HOp)

def derivP : Prs Deriv := do
  let t ← tok
  match t with
  | "copy" => pure .copy
  | "self" => pure .self
  | "assoc" => do let l ← natListP; pure (.assoc l)
  | "merge" => do let (s2, _) ← initP; pure (.merge s2)
  | "other" => do let (s2, _) ← initP; let rd ← hopsP; let ob ← hopsP; pure (.other s2 rd ob)
  | "split" => do let c ← natP; let b ← natListP; let k ← natP; pure (.split false (c == 1) b k)
  | "splitold" => do let c ← natP; let b ← natListP; let k ← natP; pure (.split true (c == 1) b k)
  | _ => failure

def keptOpt (a b : Option Nat) : String :=
  match a, b with
  | some x, some y => b01 (x == y)
  | _, _ => "0"

def traceOps (h : Heap) (o : Obj) : List HOp → List String × Heap × Obj
  | [] => ([], h, o)
  | op :: r =>
      let (h1, o1) := hstep h o op
      let m := ((o1.se3?.getD []).filter (fun a => (o.se3?.getD []).contains a)).length
      let line := s!"{keptOpt o.pos? o1.pos?}{keptOpt o.quat? o1.quat?}{keptOpt o.stamps? o1.stamps?}{m}"
      let (ls, h2, o2) := traceOps h1 o1 r
      (line :: ls, h2, o2)

def scenario (sA : St) (pre : List HOp) (d : Deriv) (ops : List HOp) : String :=
  let (h0, a0) := alloc0 Heap.empty sA
  let (h1, a1) := hrun h0 a0 pre
  let before := shown h1 a1
  -- derivation: heap, A afterwards, optional second input afterwards, derived objects, index of B
  let (h2, a2, x2, ds, k) : Heap × Obj × Option (Obj × (List P × List (V3 Rat) × List (M3 Rat) × List Rat)) × List Obj × Nat :=
    match d with
    | .copy => let (h2, c) := deepcopy h1 a1; (h2, a1, none, [c], 0)
    | .self => (h1, a1, none, [a1], 0)
    | .assoc ids => let (h2, c) := associateOne h1 a1 ids; (h2, a1, none, [c], 0)
    | .merge s2 =>
        let (hx, x) := alloc0 h1 s2
        let bx := shown hx x
        let (h2, os, mg) := merge hx [a1, x]
        (h2, os.headD a1, some ((os.drop 1).headD x, bx), [mg], 0)
    | .other s2 rd ob =>
        let (hx, x) := alloc0 h1 s2
        let (h2, x', a') := alignWith hx x a1 rd ob
        (h2, a', none, [x'], 0)
    | .split old cut bounds part =>
        let (h2, p, parts) := if old then splitOld h1 a1 cut bounds else splitNew h1 a1 cut bounds
        (h2, p, none, parts, part)
  let sh := ds.map (fun p => b01 (sharesB p a2))
  let b := ds.getD k a2
  let (tr, h3, b3) := traceOps h2 b ops
  -- when B *is* A (self / pre-fix no-cut split) A is the mutated object itself
  let a3 := if b == a2 then b3 else a2
  let changedA := decide (shown h3 a3 ≠ before)
  let changedX := match x2 with
    | some (x, bx) => decide (shown h3 x ≠ bx)
    | none => false
  s!"{ds.length} {" ".intercalate sh} ; {b01 (b == a2 || sharesB b3 a2)} {b01 changedA} {b01 changedX} {bits a2} ; {" ".intercalate tr}"

def handle (op : String) (args : List String) : Option String :=
  match op with
  | "scen" => do
      let (((sA, _), pre, d, ops), _) ← (do
        let a ← initP
        let pre ← hopsP
        let d ← derivP
        let ops ← hopsP
        pure (a, pre, d, ops) : Prs _) args
      some (scenario sA pre d ops)
  | _ => none

end Evo.Drv.C16
