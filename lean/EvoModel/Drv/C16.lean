/- driver operations of C16 (stub: no model yet) -/
namespace Evo.Drv.C16
def handle (_op : String) (_args : List String) : Option String := none
end Evo.Drv.C16
