import EvoModel.Model.Basic
import EvoModel.Model.Hex
import EvoModel.Gen.Writers
/-! driver operations of C17: the guard outcome of a writer / call site as the regenerated tables describe it -/
namespace Evo.Drv.C17
open Evo Evo.Overwrite Evo.Gen

def parsePK : String → Option PathKind
  | "str" => some .str | "path" => some .path | "handle" => some .handle | _ => none

def b01 (s : String) : Option Bool := match s with | "1" => some true | "0" => some false | _ => none

def showOutcome (o : Outcome) : String :=
  (if o.prompted then "1" else "0") ++ " " ++ (if o.wrote then "1" else "0")

def findWriter (name : String) : Option Writer := writers.find? (·.name = name)

def readBools (n : Nat) (l : List String) : Option (List Bool × List String) := do
  let (a, b) ← takeN n l
  let bs ← a.mapM b01
  some (bs, b)

def showBools (l : List Bool) : String := String.ofList (l.map fun b => if b then '1' else '0')

/-- ops:
  `writer name pk exists confirm hexanswer`            → `prompted wrote` | `NO-GUARD`
  `export confirm n e1…en k hexanswers…`               → `wrotebits prompts` (split figures)
  `cli file writer nw exists hexanswer`                → `prompted wrote;…` one per matching cli site
  `cliexport file nw n e1…en k hexanswers…`            → `wrotebits prompts;…`
  `generate exists hexanswer`                          → `prompted wrote` (evo_config generate -o) -/
def handle (op : String) (args : List String) : Option String :=
  match op, args with
  | "writer", [name, pk, ex, cf, ans] => do
      let w ← findWriter name
      let pk ← parsePK pk
      let ex ← b01 ex
      let cf ← b01 cf
      let ans ← Hex.unhex ans
      match w.mainGuard with
      | none => some "NO-GUARD"
      | some g => some (showOutcome (g.run pk ex cf ans))
  | "export", cf :: n :: rest => do
      let w ← findWriter "export"
      let cf ← b01 cf
      let n ← n.toNat?
      let (es, rest) ← readBools n rest
      let (k, rest) ← match rest with | k :: r => some (k, r) | [] => none
      let k ← k.toNat?
      let (ans, _) ← takeN k rest
      let ans ← ans.mapM Hex.unhex
      match w.loopGuard with
      | none => some "NO-GUARD"
      | some g => let r := exportBy g cf es ans; some (showBools r.1 ++ " " ++ toString r.2)
  | "cli", [file, writer, nw, ex, ans] => do
      let w ← findWriter writer
      let nw ← b01 nw
      let ex ← b01 ex
      let ans ← Hex.unhex ans
      let sites := callSites.filter fun c => c.cli && c.file = file && c.writer = writer
      if sites.isEmpty then some "NO-SITE" else
      match w.mainGuard with
      | none => some "NO-GUARD"
      | some g =>
        some (";".intercalate (sites.map fun c =>
          match confirmExpr c.confirm w.dflt nw with
          | none => "UNKNOWN-EXPR"
          | some cf => showOutcome (g.run .str ex cf ans)))
  | "cliexport", file :: nw :: n :: rest => do
      let w ← findWriter "export"
      let nw ← b01 nw
      let n ← n.toNat?
      let (es, rest) ← readBools n rest
      let (k, rest) ← match rest with | k :: r => some (k, r) | [] => none
      let k ← k.toNat?
      let (ans, _) ← takeN k rest
      let ans ← ans.mapM Hex.unhex
      let sites := callSites.filter fun c => c.cli && c.file = file && c.writer = "export"
      if sites.isEmpty then some "NO-SITE" else
      match w.loopGuard with
      | none => some "NO-GUARD"
      | some g =>
        some (";".intercalate (sites.map fun c =>
          match confirmExpr c.confirm w.dflt nw with
          | none => "UNKNOWN-EXPR"
          | some cf => let r := exportBy g cf es ans; showBools r.1 ++ " " ++ toString r.2))
  | "generate", [ex, ans] => do
      let ex ← b01 ex
      let ans ← Hex.unhex ans
      match directGuards.find? (fun d => d.file = "evo/main_config.py" && d.guardsWrite) with
      | none => some "NO-GUARD"
      | some _ => some (showOutcome (checkAndConfirm ex ans))
  | _, _ => none

end Evo.Drv.C17
