/- driver operations of C17 (stub: no model yet) -/
namespace Evo.Drv.C17
def handle (_op : String) (_args : List String) : Option String := none
end Evo.Drv.C17
