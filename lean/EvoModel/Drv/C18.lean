import EvoModel.Model.Basic
import EvoModel.Model.Hex
import EvoModel.Model.Config
import EvoModel.Lemmas.Config
import EvoModel.Gen.Settings
import EvoModel.Gen.Options
/-! driver operations of C18.
Values on the wire: atoms `n` | `b0`/`b1` | `i<int>` | `f<p/q>` | `s<hex>`; a list is `l<k>` followed by k atoms;
a dict is `<n>` followed by n × (`<hexkey>` value). -/
namespace Evo.Drv.C18
open Evo Evo.Config

def showAtom : Atom → String
  | .null => "n"
  | .bool b => if b then "b1" else "b0"
  | .int i => "i" ++ toString i
  | .flt r => "f" ++ showRat r
  | .str s => "s" ++ Hex.hex s

def showVal : JVal → String
  | .atom a => showAtom a
  | .list l => " ".intercalate (("l" ++ toString l.length) :: l.map showAtom)

def showDict (d : Dict) : String :=
  " ".intercalate (toString d.length :: d.map fun kv => Hex.hex kv.1 ++ " " ++ showVal kv.2)

def readAtom (t : String) : Option Atom :=
  match t.toList with
  | ['n'] => some .null
  | ['b', '0'] => some (.bool false)
  | ['b', '1'] => some (.bool true)
  | 'i' :: r => (String.ofList r).toInt?.map .int
  | 'f' :: r => (parseRat? (String.ofList r)).map .flt
  | 's' :: r => (Hex.unhex (String.ofList r)).map .str
  | _ => none

def readVal : List String → Option (JVal × List String)
  | [] => none
  | t :: rest =>
    match t.toList with
    | 'l' :: r => do
        let n ← (String.ofList r).toNat?
        let (a, b) ← takeN n rest
        let as ← a.mapM readAtom
        some (.list as, b)
    | _ => (readAtom t).map fun a => (.atom a, rest)

def readEntries : Nat → List String → Option (Dict × List String)
  | 0, l => some ([], l)
  | n + 1, k :: rest => do
      let k ← Hex.unhex k
      let (v, rest) ← readVal rest
      let (d, rest) ← readEntries n rest
      some ((k, v) :: d, rest)
  | _, [] => none

def readDict : List String → Option (Dict × List String)
  | [] => none
  | n :: rest => do
      let n ← n.toNat?
      readEntries n rest

def readStrs : List String → Option (List String × List String)
  | [] => none
  | n :: rest => do
      let n ← n.toNat?
      let (a, b) ← takeN n rest
      let ss ← a.mapM Hex.unhex
      some (ss, b)

def showErr : Err → String
  | .overflow => "E_OVERFLOW" | .unsupported => "E_UNSUPPORTED" | .locked => "REFUSED"

def showRes : Except Err Dict → String
  | .ok d => showDict d
  | .error e => showErr e

def tableOf : String → Option (List Opt)
  | "ape" => some Gen.apeOptions | "rpe" => some Gen.rpeOptions | "traj" => some Gen.trajOptions | _ => none

/-- split a token list into option groups over the table (`none`: a token is not `--name` of the table
where an option is expected) -/
def splitGroups (T : List Opt) : List String → Option (List TGroup)
  | [] => some []
  | arg :: rest =>
    if !arg.startsWith "--" then none else
    match T.find? (fun o => o.name = (arg.drop 2).toString) with
    | none => none
    | some o =>
      let vals := rest.takeWhile (fun t => !t.startsWith "--")
      let after := rest.dropWhile (fun t => !t.startsWith "--")
      (splitGroups T after).map (fun gs => ⟨o, vals⟩ :: gs)
termination_by l => l.length
decreasing_by
  have : (List.dropWhile (fun t => !t.startsWith "--") rest).length ≤ rest.length :=
    (List.dropWhile_sublist _).length_le
  simp only [List.length_cons]; omega

def exclOf : String → List (List String)
  | "ape" => Gen.apeExclusive | "rpe" => Gen.rpeExclusive | "traj" => Gen.trajExclusive | _ => []

/-- ops:
  `set <dict> <strs>` · `resetsub <dict> <strs>` · `resetall` · `merge <soft> <dict> <dict>` · `upgrade <dict>`
  `lock <dict> <hexkey> <value>` · `generate <strs>` · `generateold <strs>`
  `mergecfg <args> <config> <settings>` → `<dict> | <dict>`
  `argparse <app> <strs>` → dict | `E_ARGS` · `viaconfig <app> <strs>` = merge_config(defaults, generate(strs)) namespace
  `wfargs <app> <strs>` → `1` iff the list is a well-formed option-group list (hypothesis of generate_equiv_args)
  `isnumber <hex>` → `0` | `1 <float as p/q | E_OVERFLOW>` · `defaults` → dict -/
def handle (op : String) (args : List String) : Option String :=
  match op with
  | "set" => do
      let (d, rest) ← readDict args
      let (ss, _) ← readStrs rest
      some (showRes (setConfig d ss))
  | "resetsub" => do
      let (d, rest) ← readDict args
      let (ss, _) ← readStrs rest
      some (showDict (resetSubset Gen.defaultSettings d ss))
  | "resetall" => some (showDict Gen.defaultSettings)
  | "defaults" => some (showDict Gen.defaultSettings)
  | "merge" =>
      match args with
      | soft :: rest => do
          let (a, rest) ← readDict rest
          let (b, _) ← readDict rest
          some (showDict (mergeDicts a b (soft = "1")))
      | [] => none
  | "upgrade" => do
      let (d, _) ← readDict args
      some (showDict (upgrade Gen.defaultSettings d))
  | "lock" => do
      let (d, rest) ← readDict args
      match rest with
      | k :: vrest => do
          let k ← Hex.unhex k
          let (v, _) ← readVal vrest
          some (showRes (lockedSet d k v))
      | [] => none
  | "generate" => do
      let (ss, _) ← readStrs args
      some (showRes (generate ss))
  | "generateold" => do
      let (ss, _) ← readStrs args
      some (showRes (generateOld ss))
  | "mergecfg" => do
      let (a, rest) ← readDict args
      let (c, rest) ← readDict rest
      let (s, _) ← readDict rest
      let r := mergeConfig a c s
      some (showDict r.1 ++ " | " ++ showDict r.2)
  | "argparse" =>
      match args with
      | app :: rest => do
          let t ← tableOf app
          let (ss, _) ← readStrs rest
          match argparseLong t ss (defaultsOf t) (exclOf app) with
          | some d => some (showDict d)
          | none => some "E_ARGS"
      | [] => none
  | "wfargs" =>
      match args with
      | app :: rest => do
          let t ← tableOf app
          let (ss, _) ← readStrs rest
          match splitGroups t ss with
          | none => some "0"
          | some gs =>
            if gs.flatMap TGroup.render == ss && gs.all (wfGroup t) && exclFree (exclOf app) ss then some "1" else some "0"
      | [] => none
  | "viaconfig" =>
      match args with
      | app :: rest => do
          let t ← tableOf app
          let (ss, _) ← readStrs rest
          match generate ss with
          | .ok c => some (showDict (mergeConfig (defaultsOf t) c []).1)
          | .error e => some (showErr e)
      | [] => none
  | "isnumber" =>
      match args with
      | [h] => do
          let s ← Hex.unhex h
          if isNumber s then
            match toFloat s with
            | .ok x => some ("1 " ++ showRat x)
            | .error e => some ("1 " ++ showErr e)
          else some "0"
      | _ => none
  | _ => none

end Evo.Drv.C18
