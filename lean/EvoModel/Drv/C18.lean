/- driver operations of C18 (stub: no model yet) -/
namespace Evo.Drv.C18
def handle (_op : String) (_args : List String) : Option String := none
end Evo.Drv.C18
