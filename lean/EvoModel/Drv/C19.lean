import EvoModel.Model.Basic
import EvoModel.Model.Hex
import EvoModel.Model.SettingsProc
/-! driver operations of C19: solo traces of the settings routines (trace correspondence) and
arbitrary schedules of several processes (crash / interleaving replay). -/
namespace Evo.Drv.C19
open Evo Evo.FS

def lackingDoc : Doc := Evo.Gen.defaultKeys.drop 3

/-- `ver:<hex>` = a complete assets_version holding that string -/
def parseV (s : String) : Option File :=
  match s with
  | "absent" => some .absent
  | "current" => some (.full (.ver current))
  | "old" => some (.full (.ver "v0.0.1"))
  | "empty" => some .empty
  | "torn" => some .torn
  | _ => if s.startsWith "ver:" then (Hex.unhex (s.drop 4).toString).map (fun v => .full (.ver v)) else none

def parseS : String → Option File
  | "absent" => some .absent
  | "wf" => some (.full (.doc Evo.Gen.defaultKeys))
  | "lacking" => some (.full (.doc lackingDoc))
  | "empty" => some .empty
  | "torn" => some .torn
  | "garbage" => some .garbage
  | _ => none

def mkFS (dir : String) (v s : File) : FS :=
  ((⟨dir = "1", fun _ => .absent⟩ : FS).set (.file .V) v).set (.file .S) s

def mergeEdit (d : Doc) : Doc := d ++ ["extra_key_of_other_file"]

/-- the program of a whole process (import evo, then the command) -/
def scenario (variant name : String) : Option Prog :=
  match variant, name with
  | "new", "start" => some (start .done)
  | "new", "reset_all" => some (start (resetAll .done))
  | "new", "reset_subset" => some (start (resetSubset id .done))
  | "new", "set" => some (start (setConfig id .done))
  | "new", "merge" => some (start (mergeUnion mergeEdit .done))
  -- evo_config's main(): show; set_config; [merge]; show   /  reset; show
  | "new", "cli_set" => some (start (showCfg (setConfig id (showCfg .done))))
  | "new", "cli_set_merge" => some (start (showCfg (setConfig id (mergeUnion mergeEdit (showCfg .done)))))
  | "new", "cli_reset_all" => some (start (resetAll (showCfg .done)))
  | "new", "cli_reset_subset" => some (start (resetSubset id (showCfg .done)))
  -- two evo_config invocations in ONE process: main(set …) then main(reset <subset>)
  | "new", "cli_set_then_reset" => some (start (showCfg (setConfig id (showCfg (resetSubset id (showCfg .done))))))
  -- the functions twice in one process: set_config; reset(subset); set_config
  | "new", "set_reset_set" => some (start (setConfig id (resetSubset id (setConfig id .done))))
  | "old", "start" => some (Old.start .done)
  | "old", "set" => some (Old.start (Old.setConfig id .done))
  | _, _ => none

def showFile : File → String
  | .absent => "absent" | .empty => "empty" | .torn => "torn" | .garbage => "garbage"
  | .full (.ver v) => if v = current then "ver-current" else "ver-old"
  | .full (.doc d) => if hasDefaults d then "doc-wf" else "doc-lacking"

def showLoaded : Option Doc → String
  | none => "none"
  | some d => if hasDefaults d then "wf" else "lacking"

def showStatus (p : Proc) : String :=
  if p.failed then "failed" else if p.prog.isDone then "done" else "running"

def showFS (fs : FS) : String :=
  s!"dir={if fs.dir then 1 else 0} S={showFile (fs.file (.file .S))} V={showFile (fs.file (.file .V))}"

/-- run a schedule, recording whether `Safe` held in every state passed -/
def runChecked (s : State) : List (Nat × Bool) → Bool → State × Bool
  | [], ok => (s, ok && decide (Safe s.fs))
  | (i, t) :: rest, ok => runChecked (s.sched i t) rest (ok && decide (Safe s.fs))

def readSched : List String → Option (List (Nat × Bool))
  | [] => some []
  | i :: t :: rest => do
      let i ← i.toNat?
      let r ← readSched rest
      some ((i, t = "1") :: r)
  | _ => none

/-- ops:
  `trace variant scenario dir V S`        → `l1;l2;…|status|dir=… S=… V=…|loaded=…`
  `sim variant n sc1 … scn dir V S i t …` → `st1,ld1 … | dir=… S=… V=… | safe-always=0/1 | tmp-left=k` -/
def handle (op : String) (args : List String) : Option String :=
  match op, args with
  | "trace", [variant, sc, dir, v, s] => do
      let prog ← scenario variant sc
      let v ← parseV v
      let s ← parseS s
      let fs := mkFS dir v s
      let (ls, p, fs') := soloTrace 0 200 { prog := prog } fs []
      some (";".intercalate ls ++ "|" ++ showStatus p ++ "|" ++ showFS fs' ++ "|loaded=" ++ showLoaded p.regs.loaded)
  | "sim", variant :: n :: rest => do
      let n ← n.toNat?
      let (scs, rest) ← takeN n rest
      let progs ← scs.mapM (scenario variant)
      match rest with
      | dir :: v :: s :: sched => do
          let v ← parseV v
          let s ← parseS s
          let sched ← readSched sched
          let st : State := { fs := mkFS dir v s, procs := progs.map fun p => { prog := p } }
          let (st', ok) := runChecked st sched true
          let ps := " ".intercalate (st'.procs.map fun p => showStatus p ++ "," ++ showLoaded p.regs.loaded)
          some (ps ++ " | " ++ showFS st'.fs ++ " | safe-always=" ++ (if ok then "1" else "0"))
      | _ => none
  | _, _ => none

end Evo.Drv.C19
