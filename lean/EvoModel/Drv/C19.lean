/- driver operations of C19 (stub: no model yet) -/
namespace Evo.Drv.C19
def handle (_op : String) (_args : List String) : Option String := none
end Evo.Drv.C19
