/- driver operations of C20 (stub: no model yet) -/
namespace Evo.Drv.C20
def handle (_op : String) (_args : List String) : Option String := none
end Evo.Drv.C20
