/- driver operations of C20: the series each matplotlib artist of evo/tools/plot.py must hold -/
import EvoModel.Model.Plot
namespace Evo.Drv.C20
open Evo Evo.Plot

def hexDigit? (c : Char) : Option Nat :=
  if '0' ≤ c ∧ c ≤ '9' then some (c.toNat - '0'.toNat)
  else if 'a' ≤ c ∧ c ≤ 'f' then some (c.toNat - 'a'.toNat + 10)
  else none

def unhexGo : List Char → Option (List Char)
  | [] => some []
  | a :: b :: r => do
      let x ← hexDigit? a
      let y ← hexDigit? b
      let rest ← unhexGo r
      some (Char.ofNat (16 * x + y) :: rest)
  | _ => none

/-- ASCII strings only (unit values, labels) -/
def unhex (s : String) : Option String :=
  if s = "-" then some "" else (unhexGo s.toList).map String.ofList

def hexNib (n : Nat) : Char := if n < 10 then Char.ofNat (48 + n) else Char.ofNat (87 + n)

def hex (s : String) : String :=
  if s.isEmpty then "-" else
  String.ofList (s.toList.flatMap (fun c => [hexNib (c.toNat / 16), hexNib (c.toNat % 16)]))

def toV3s : List Rat → List (V3 Rat)
  | a :: b :: c :: r => ⟨a, b, c⟩ :: toV3s r
  | _ => []

/-- `k x y z …` (k positions) -/
def readV3List (l : List String) : Option (List (V3 Rat) × List String) :=
  match l with
  | [] => none
  | k :: rest => do
      let n ← k.toNat?
      let (a, b) ← takeN (3 * n) rest
      let rs ← parseRats? a
      some (toV3s rs, b)

def showPts (l : List (List Rat)) : String := " ".intercalate (l.map showRats)
def showSegs (l : List (List Rat × List Rat)) : String :=
  toString l.length ++ " " ++ " ".intercalate (l.map (fun s => showRats s.1 ++ " " ++ showRats s.2))
def showSegsOpt : Option (List (List Rat × List Rat)) → String
  | none => "E_PLOT"
  | some l => showSegs l

def readOptRat (s : String) : Option (Option Rat) :=
  if s = "-" then some none else (parseRat? s).map some

/-- `hasStamps k stamps… start|-` -/
def readTime (l : List String) : Option (Option (List Rat) × Option Rat × List String) :=
  match l with
  | has :: rest => do
      let (ts, rest) ← readRatList rest
      match rest with
      | st :: rest => do
          let s ← readOptRat st
          some (if has = "1" then some ts else none, s, rest)
      | [] => none
  | [] => none

def rnd : Rat → Rat := F64.rne!

def showSeries (s : List Rat × List Rat) : String := showRats s.1 ++ " | " ++ showRats s.2

/-- ops (mode = `xy`…`xyz`; positions as `k x y z …`):
  `idx mode`                              → `xi yi zi|-`
  `labels mode unithex`                   → `hex(x) hex(y) hex(z)|-` or `E_PLOT`
  `xyzlabels unithex`                     → three hex labels or `E_PLOT`
  `traj mode pos`                         → points, flattened
  `startend mode pos`                     → `NONE` or the two points
  `segs mode step ncolors pos`            → `n` segments (2 points each) or `E_PLOT`
  `cmap mode pos k array…`                → `n` then per segment: 2 points and the colour value
  `cmapmark k array…`                     → `NONE` or the two marker values
  `axes mode scale k poses…`              → `NONE` | `E_PLOT` | segments
  `edges mode pos1 pos2`                  → `E_PLOT` | segments
  `time hasStamps k stamps… start|- n`    → x values
  `xyz hasStamps k stamps… start|- pos`   → `x | c0 | c1 | c2`
  `rpy hasStamps k stamps… start|- angles`→ `x | a0 | a1 | a2` (radians; the harness applies rad2deg)
  `speeds k stamps… start|- k speeds…`    → `x | y`
  `speedcore k stamps… pos`               → `d² dt …`
  `err cumulative k err… hasx k x…`       → `x | y` -/
def handle (op : String) (args : List String) : Option String :=
  match op, args with
  | "idx", [m] => do
      let m ← PlotMode.ofName? m
      let (xi, yi, zi) := modeIdx m
      some (s!"{xi} {yi} " ++ (match zi with | some z => toString z | none => "-"))
  | "labels", [m, u] => do
      let m ← PlotMode.ofName? m
      let u ← unhex u
      match prepareAxisLabels m u with
      | none => some "E_PLOT"
      | some (x, y, z) => some (hex x ++ " " ++ hex y ++ " " ++ (match z with | some z => hex z | none => "-"))
  | "xyzlabels", [u] => do
      let u ← unhex u
      match xyzLabels u with
      | none => some "E_PLOT"
      | some l => some (" ".intercalate (l.map hex))
  | "traj", m :: rest => do
      let m ← PlotMode.ofName? m
      let (pos, _) ← readV3List rest
      some (showPts (trajLine m pos))
  | "startend", m :: rest => do
      let m ← PlotMode.ofName? m
      let (pos, _) ← readV3List rest
      match startEnd m pos with
      | none => some "NONE"
      | some (s, e) => some (showRats s ++ " " ++ showRats e)
  | "segs", m :: step :: nc :: rest => do
      let m ← PlotMode.ofName? m
      let step ← step.toNat?
      let nc ← nc.toNat?
      let (pos, _) ← readV3List rest
      some (showSegsOpt (coloredLineCollection m step nc pos))
  | "cmap", m :: rest => do
      let m ← PlotMode.ofName? m
      let (pos, rest) ← readV3List rest
      let (arr, _) ← readRatList rest
      let l := colormapPairs m pos arr
      some (toString l.length ++ " " ++
        " ".intercalate (l.map (fun s => showRats s.1.1 ++ " " ++ showRats s.1.2 ++ " " ++ showRat s.2)))
  | "cmapmark", rest => do
      let (arr, _) ← readRatList rest
      match colormapMarkerValues arr with
      | none => some "NONE"
      | some (a, b) => some (showRat a ++ " " ++ showRat b)
  | "axes", m :: scale :: rest => do
      let m ← PlotMode.ofName? m
      let scale ← parseRat? scale
      let (poses, _) ← readPoseList rest
      match coordAxes m scale poses with
      | none => some "NONE"
      | some r => some (showSegsOpt r)
  | "edges", m :: rest => do
      let m ← PlotMode.ofName? m
      let (p1, rest) ← readV3List rest
      let (p2, _) ← readV3List rest
      some (showSegsOpt (corrEdges m p1 p2))
  | "time", rest => do
      let (ts, st, rest) ← readTime rest
      match rest with
      | [n] => do
          let n ← n.toNat?
          some (showRats (timeAxis rnd ts st n))
      | _ => none
  | "xyz", rest => do
      let (ts, st, rest) ← readTime rest
      let (pos, _) ← readV3List rest
      let s0 := xyzSeries rnd ts st pos 0
      some (showRats s0.1 ++ " | " ++ showRats s0.2 ++ " | " ++ showRats (xyzSeries rnd ts st pos 1).2
        ++ " | " ++ showRats (xyzSeries rnd ts st pos 2).2)
  | "rpy", rest => do
      let (ts, st, rest) ← readTime rest
      let (ang, _) ← readV3List rest
      let s0 := rpySeries rnd id ts st ang 0
      some (showRats s0.1 ++ " | " ++ showRats s0.2 ++ " | " ++ showRats (rpySeries rnd id ts st ang 1).2
        ++ " | " ++ showRats (rpySeries rnd id ts st ang 2).2)
  | "speeds", rest => do
      let (ts, rest) ← readRatList rest
      match rest with
      | st :: rest => do
          let st ← readOptRat st
          let (sp, _) ← readRatList rest
          some (showSeries (speedSeries rnd ts st sp))
      | [] => none
  | "speedcore", rest => do
      let (ts, rest) ← readRatList rest
      let (pos, _) ← readV3List rest
      some (" ".intercalate ((speedCores pos ts).map (fun c => showRat c.1 ++ " " ++ showRat c.2)))
  | "err", cum :: rest => do
      let (err, rest) ← readRatList rest
      match rest with
      | hasx :: rest => do
          let (x, _) ← readRatList rest
          some (showSeries (errorSeries rnd err (if hasx = "1" then some x else none) (cum = "1")))
      | [] => none
  | _, _ => none

end Evo.Drv.C20
