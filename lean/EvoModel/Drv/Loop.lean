/-
Line protocol loop shared by the per-property drivers: `<prop> <op> <args…>` per line in
(the first token is informational), one canonical line out.
-/
namespace Evo.Drv

partial def loopGo (handle : String → List String → Option String) (hin hout : IO.FS.Stream) : IO Unit := do
  let line ← hin.getLine
  if line.isEmpty then return ()
  let toks := (line.trimAscii.toString.splitOn " ").filter (· ≠ "")
  match toks with
  | _ :: op :: args =>
      match handle op args with
      | some out => hout.putStrLn out
      | none => hout.putStrLn "BAD-OP"
  | _ => hout.putStrLn "BAD-OP"
  loopGo handle hin hout

def loop (handle : String → List String → Option String) : IO Unit := do
  let hin ← IO.getStdin
  let hout ← IO.getStdout
  loopGo handle hin hout
  hout.flush

end Evo.Drv
