import EvoModel.Drv.Loop
import EvoModel.Drv.C01
def main : IO Unit := Evo.Drv.loop Evo.Drv.C01.handle
