import EvoModel.Drv.Loop
import EvoModel.Drv.C02
def main : IO Unit := Evo.Drv.loop Evo.Drv.C02.handle
