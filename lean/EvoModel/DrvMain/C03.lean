import EvoModel.Drv.Loop
import EvoModel.Drv.C03
def main : IO Unit := Evo.Drv.loop Evo.Drv.C03.handle
