import EvoModel.Drv.Loop
import EvoModel.Drv.C04
def main : IO Unit := Evo.Drv.loop Evo.Drv.C04.handle
