import EvoModel.Drv.Loop
import EvoModel.Drv.C05
def main : IO Unit := Evo.Drv.loop Evo.Drv.C05.handle
