import EvoModel.Drv.Loop
import EvoModel.Drv.C06
def main : IO Unit := Evo.Drv.loop Evo.Drv.C06.handle
