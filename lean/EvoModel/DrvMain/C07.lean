import EvoModel.Drv.Loop
import EvoModel.Drv.C07
def main : IO Unit := Evo.Drv.loop Evo.Drv.C07.handle
