import EvoModel.Drv.Loop
import EvoModel.Drv.C08
def main : IO Unit := Evo.Drv.loop Evo.Drv.C08.handle
