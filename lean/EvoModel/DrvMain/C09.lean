import EvoModel.Drv.Loop
import EvoModel.Drv.C09
def main : IO Unit := Evo.Drv.loop Evo.Drv.C09.handle
