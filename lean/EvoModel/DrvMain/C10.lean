import EvoModel.Drv.Loop
import EvoModel.Drv.C10
def main : IO Unit := Evo.Drv.loop Evo.Drv.C10.handle
