import EvoModel.Drv.Loop
import EvoModel.Drv.C11
def main : IO Unit := Evo.Drv.loop Evo.Drv.C11.handle
