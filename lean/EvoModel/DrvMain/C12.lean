import EvoModel.Drv.Loop
import EvoModel.Drv.C12
def main : IO Unit := Evo.Drv.loop Evo.Drv.C12.handle
