import EvoModel.Drv.Loop
import EvoModel.Drv.C13
def main : IO Unit := Evo.Drv.loop Evo.Drv.C13.handle
