import EvoModel.Drv.Loop
import EvoModel.Drv.C14
def main : IO Unit := Evo.Drv.loop Evo.Drv.C14.handle
