import EvoModel.Drv.Loop
import EvoModel.Drv.C15
def main : IO Unit := Evo.Drv.loop Evo.Drv.C15.handle
