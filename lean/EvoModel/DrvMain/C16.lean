import EvoModel.Drv.Loop
import EvoModel.Drv.C16
def main : IO Unit := Evo.Drv.loop Evo.Drv.C16.handle
