import EvoModel.Drv.Loop
import EvoModel.Drv.C17
def main : IO Unit := Evo.Drv.loop Evo.Drv.C17.handle
