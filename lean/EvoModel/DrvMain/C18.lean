import EvoModel.Drv.Loop
import EvoModel.Drv.C18
def main : IO Unit := Evo.Drv.loop Evo.Drv.C18.handle
