import EvoModel.Drv.Loop
import EvoModel.Drv.C19
def main : IO Unit := Evo.Drv.loop Evo.Drv.C19.handle
