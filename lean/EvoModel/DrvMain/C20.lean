import EvoModel.Drv.Loop
import EvoModel.Drv.C20
def main : IO Unit := Evo.Drv.loop Evo.Drv.C20.handle
