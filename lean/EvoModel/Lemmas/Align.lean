/-
Lemmas for C04 (trajectory alignment): what `alignApply` does to every pose, composition with
the origin transformation, the squared-error identity tying alignment to the Umeyama residual.
-/
import EvoModel.Model.Align
import EvoModel.Lemmas.Umeyama
namespace Evo.Align
open Evo Evo.Ume

set_option linter.unusedSectionVars false
variable {K : Type} [Field K]

/-- left multiplication by `T` after moving by `m` is moving by `T·m` -/
theorem moveBy_mul (T m : Pose K) (σ : K) (p : Pose K) : moveBy (T.mul m) σ p = T.mul (moveBy m σ p) := by
  ext <;> simp only [moveBy, Pose.mul, M3.mul, M3.smul, M3.mulVec, V3.add] <;> ring

theorem moveBy_sim3 (R : M3 K) (t : V3 K) (s : K) (hs : s ≠ 0) (p : Pose K) :
    moveBy (Pose.sim3 R t s) s p = ⟨R.mul p.rot, simApply R t s p.t⟩ := by
  ext <;> simp only [moveBy, Pose.sim3, M3.mul, M3.smul, M3.mulVec, V3.add, V3.smul, simApply] <;>
    field_simp

theorem moveBy_scale (s : K) (hs : s ≠ 0) (p : Pose K) :
    moveBy (Pose.sim3 M3.one V3.zero s) s p = ⟨p.rot, V3.smul s p.t⟩ := by
  ext <;> simp only [moveBy, Pose.sim3, M3.mul, M3.smul, M3.mulVec, V3.add, V3.smul, M3.one, V3.zero] <;>
    field_simp <;> ring

theorem moveBy_rigid (T : Pose K) (p : Pose K) : moveBy T 1 p = T.mul p := by
  ext <;> simp only [moveBy, Pose.mul, M3.mul, M3.smul, M3.mulVec, V3.add] <;> ring

/-- `alignApply` pose by pose -/
theorem alignApply_sim3 (R : M3 K) (t : V3 K) (s : K) (ps : List (Pose K)) :
    alignApply .sim3 R t s ps = ps.map (fun p => ⟨R.mul p.rot, simApply R t s p.t⟩) := by
  simp only [alignApply, transformLeft, scalePath, List.map_map]
  apply List.map_congr_left
  intro p _
  ext <;> simp only [Function.comp, Pose.mul, se3, M3.mulVec, V3.add, V3.smul, simApply] <;> ring

theorem alignApply_se3 (R : M3 K) (t : V3 K) (s : K) (ps : List (Pose K)) :
    alignApply .se3 R t s ps = ps.map (fun p => ⟨R.mul p.rot, simApply R t 1 p.t⟩) := by
  simp only [alignApply, transformLeft]
  apply List.map_congr_left
  intro p _
  ext <;> simp only [Pose.mul, se3, M3.mulVec, V3.add, V3.smul, simApply] <;> ring

theorem alignApply_scaleOnly (R : M3 K) (t : V3 K) (s : K) (ps : List (Pose K)) :
    alignApply .scaleOnly R t s ps = ps.map (fun p => ⟨p.rot, V3.smul s p.t⟩) := rfl

/-! ### `firstN` -/

theorem firstN_neg_one {α : Type} (l : List α) : firstN (-1) l = l := by simp [firstN]

theorem firstN_map {α β : Type} (f : α → β) (n : Int) (l : List α) : firstN n (l.map f) = (firstN n l).map f := by
  unfold firstN
  split_ifs <;> simp [List.map_take]

theorem firstN_append {α : Type} (n : Int) (hn : 0 ≤ n) (a b : List α) (ha : a.length = n.toNat) :
    firstN n (a ++ b) = a := by
  unfold firstN
  have h1 : n ≠ -1 := by omega
  rw [if_neg h1, if_pos hn, ← ha, List.take_left']
  rfl

/-! ### squared error after alignment = Umeyama residual -/

theorem sumMap_map {α β : Type} (g : α → β) (f : β → K) (l : List α) : sumMap f (l.map g) = sumMap (fun a => f (g a)) l := by
  induction l with
  | nil => rfl
  | cons a l ih => simp only [List.map_cons, sumMap_cons, ih]

theorem zip_map_left {α β γ : Type} (f : α → γ) (a : List α) (b : List β) :
    (a.map f).zip b = (a.zip b).map (fun p => (f p.1, p.2)) := by
  induction a generalizing b with
  | nil => rfl
  | cons x a ih =>
    cases b with
    | nil => rfl
    | cons y b => simp only [List.map_cons, List.zip_cons_cons, ih]

/-- the squared position error of the transformed points is the residual of the transformation -/
theorem sse_map (x y : List (V3 K)) (R : M3 K) (t : V3 K) (c : K) :
    sse (x.map (simApply R t c)) y = resid x y R t c := by
  unfold sse resid
  rw [zip_map_left, sumMap_map]

theorem simApply_id (p : V3 K) : simApply M3.one V3.zero 1 p = p := by
  ext <;> simp only [simApply, M3.one, V3.zero, M3.mulVec, V3.add, V3.smul] <;> ring

theorem sse_eq_resid_id (x y : List (V3 K)) : sse x y = resid x y M3.one V3.zero 1 := by
  unfold sse resid
  apply sumMap_congr
  intro p
  rw [simApply_id]

/-- composition of similarity maps -/
theorem simApply_comp (R' R : M3 K) (t' t : V3 K) (c' c : K) (p : V3 K) :
    simApply R' t' c' (simApply R t c p)
      = simApply (R'.mul R) (V3.add (V3.smul c' (R'.mulVec t)) t') (c' * c) p := by
  ext <;> simp only [simApply, M3.mul, M3.mulVec, V3.add, V3.smul] <;> ring

theorem resid_map_comp (x y : List (V3 K)) (R' R : M3 K) (t' t : V3 K) (c' c : K) :
    resid (x.map (simApply R t c)) y R' t' c'
      = resid x y (R'.mul R) (V3.add (V3.smul c' (R'.mulVec t)) t') (c' * c) := by
  unfold resid
  rw [zip_map_left, sumMap_map]
  apply sumMap_congr
  intro p
  simp only [simApply_comp]

end Evo.Align
