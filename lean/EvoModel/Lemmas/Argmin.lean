import EvoModel.Model.Basic
import Mathlib.Algebra.Order.Ring.Rat
import Mathlib.Tactic.Linarith
import Mathlib.Tactic.Ring
namespace Evo

theorem absR_eq_abs (x : Rat) : absR x = |x| := by
  unfold absR
  split
  · next h => rw [abs_of_neg h]
  · next h => rw [abs_of_nonneg (not_lt.mp h)]

theorem absR_nonneg (x : Rat) : 0 ≤ absR x := by rw [absR_eq_abs]; exact abs_nonneg x

theorem argminGo_spec (f : Rat → Rat) (l : List Rat) (pre : List Rat) (best : Nat) (bv : Rat)
    (hb : best < pre.length) (hbv : (pre[best]?).map f = some bv)
    (hmin : ∀ k (hk : k < pre.length), bv ≤ f pre[k])
    (hfirst : ∀ k (hk : k < best), bv < f (pre[k]'(by omega))) :
    let j := argminGo f l pre.length best bv
    ∃ hj : j < (pre ++ l).length,
      (∀ k (hk : k < (pre ++ l).length), f ((pre ++ l)[j]) ≤ f ((pre ++ l)[k])) ∧
      (∀ k (hk : k < j), f ((pre ++ l)[j]) < f ((pre ++ l)[k]'(by omega))) := by
  induction l generalizing pre best bv with
  | nil =>
    simp only [argminGo, List.append_nil]
    refine ⟨hb, ?_, ?_⟩
    · intro k hk
      have : f pre[best] = bv := by
        simp [List.getElem?_eq_getElem hb] at hbv; exact hbv
      rw [this]; exact hmin k hk
    · intro k hk
      have : f pre[best] = bv := by
        simp [List.getElem?_eq_getElem hb] at hbv; exact hbv
      rw [this]; exact hfirst k hk
  | cons x r ih =>
    simp only [argminGo]
    split
    · next hlt =>
      have := ih (pre ++ [x]) pre.length (f x) (by simp) (by simp)
        (by
          intro k hk
          simp at hk
          by_cases hkp : k < pre.length
          · rw [List.getElem_append_left hkp]; exact le_of_lt (lt_of_lt_of_le hlt (hmin k hkp))
          · have : k = pre.length := by omega
            subst this; simp)
        (by
          intro k hk
          rw [List.getElem_append_left hk]; exact lt_of_lt_of_le hlt (hmin k hk))
      simpa [List.length_append, List.append_assoc] using this
    · next hge =>
      have hge' : bv ≤ f x := not_lt.mp hge
      have := ih (pre ++ [x]) best bv (by simp; omega)
        (by rw [List.getElem?_append_left hb]; exact hbv)
        (by
          intro k hk
          simp at hk
          by_cases hkp : k < pre.length
          · rw [List.getElem_append_left hkp]; exact hmin k hkp
          · have : k = pre.length := by omega
            subst this; simpa using hge')
        (by
          intro k hk
          rw [List.getElem_append_left (by omega)]; exact hfirst k hk)
      simpa [List.length_append, List.append_assoc] using this

/-- `argminFirst` returns the first index at which `f` is minimal (like `numpy.argmin`). -/
theorem argminFirst_spec (f : Rat → Rat) (l : List Rat) (hne : l ≠ []) :
    ∃ hj : argminFirst f l < l.length,
      (∀ k (hk : k < l.length), f (l[argminFirst f l]) ≤ f (l[k])) ∧
      (∀ k (hk : k < argminFirst f l), f (l[argminFirst f l]) < f (l[k]'(by omega))) := by
  cases l with
  | nil => exact absurd rfl hne
  | cons x r =>
    have := argminGo_spec f r [x] 0 (f x) (by simp) (by simp)
      (by intro k hk; simp at hk; subst hk; simp) (by intro k hk; omega)
    simpa [argminFirst] using this

end Evo
