/-
ROS bag time stamps: the `sec/nanosec` split of `write_bag_trajectory` and the reassembly of
`read_bag_trajectory` (`Text.bagSplit`, `Text.bagJoin`), error analysis with the verified `rne`.
All float operations are evo's; rosbags only stores and returns the two unsigned integers.
-/
import EvoModel.Model.TextFormats
import EvoModel.Lemmas.F64
import Mathlib.Data.Rat.Floor
import Mathlib.Tactic.Push
namespace Evo.F64
open Evo.Text

theorem floor_eq (x : ℚ) : x.floor = ⌊x⌋ := rfl

/-- `stamp − sec` is exact in binary64: the fractional part of a non-negative binary64 value is a
binary64 value (same exponent, smaller mantissa) -/
theorem isF64_fract (x : ℚ) (hx : IsF64 x) (h0 : 0 ≤ x) : IsF64 (x - (⌊x⌋ : ℤ)) := by
  obtain ⟨m, e, hm, he1, he2, rfl⟩ := hx
  have hpe := two_zpow_pos e
  set x := (m : ℚ) * (2 : ℚ) ^ e with hxd
  have hfl : ((⌊x⌋ : ℤ) : ℚ) ≤ x := Int.floor_le x
  have hfl2 : x < (⌊x⌋ : ℤ) + 1 := Int.lt_floor_add_one x
  have hfl0 : 0 ≤ ⌊x⌋ := Int.floor_nonneg.mpr h0
  by_cases he : 0 ≤ e
  · -- an integer: fractional part 0
    obtain ⟨k, rfl⟩ := Int.eq_ofNat_of_zero_le he
    have : x = ((m * 2 ^ k : ℤ) : ℚ) := by rw [hxd, zpow_natCast]; push_cast; ring
    rw [this, Int.floor_intCast, sub_self]
    exact isF64_zero
  · have he' : 0 ≤ -e := by omega
    obtain ⟨k, hk⟩ := Int.eq_ofNat_of_zero_le he'
    have hek : e = -(k : ℤ) := by omega
    have h2k : (0 : ℚ) < 2 ^ k := by positivity
    have hxe : x * 2 ^ k = m := by
      rw [hxd, hek, zpow_neg, zpow_natCast]; field_simp
    have hm0 : 0 ≤ m := by
      have : (0 : ℚ) ≤ m := by rw [← hxe]; positivity
      exact_mod_cast this
    refine ⟨m - ⌊x⌋ * 2 ^ k, e, ?_, he1, he2, ?_⟩
    · -- 0 ≤ m' ≤ m < 2^53
      have h1 : (0 : ℚ) ≤ ((m - ⌊x⌋ * 2 ^ k : ℤ) : ℚ) := by
        push_cast; rw [← hxe]; nlinarith
      have h1' : 0 ≤ m - ⌊x⌋ * 2 ^ k := by exact_mod_cast h1
      have h2 : m - ⌊x⌋ * 2 ^ k ≤ m := by
        have : 0 ≤ ⌊x⌋ * 2 ^ k := by positivity
        omega
      rw [abs_of_nonneg h1']
      have : |m| = m := abs_of_nonneg hm0
      omega
    · push_cast
      rw [hek, zpow_neg, zpow_natCast]
      rw [hxd, hek, zpow_neg, zpow_natCast]
      field_simp

/-- the double nearest to 10⁻⁹ (the literal `1e-9` in `t.nanosec * 1e-9`) -/
def c9 : ℚ := 4835703278458517 / 4835703278458516698824704

theorem rne_c9 : rne (mkRat 1 1000000000) = some c9 := by unfold c9; decide +kernel

theorem c9_err : |c9 - 1 / 1000000000| ≤ 1 / 1000000000 / 2 ^ 53 := by
  unfold c9; rw [abs_le]; constructor <;> norm_num

theorem tiny_le : (2 : ℚ) ^ (-1075 : ℤ) ≤ 1 / 2 ^ 60 := by
  have : (2 : ℚ) ^ (-1075 : ℤ) ≤ (2 : ℚ) ^ (-60 : ℤ) := zpow_le_zpow_right₀ (by norm_num) (by norm_num)
  have e : (2 : ℚ) ^ (-60 : ℤ) = 1 / 2 ^ 60 := by norm_num [zpow_neg]
  rw [e] at this; exact this

theorem rne_exists (y : ℚ) (hb : |y| ≤ 2 ^ 40) : ∃ r, rne y = some r :=
  Option.isSome_iff_exists.mp (rne_isSome_of_abs_le y (le_trans hb closeBound_ge))

theorem roundHalfEven_spec (g : ℚ) (hg : 0 ≤ g) :
    |(roundHalfEven g : ℚ) - g| ≤ 1 / 2 ∧ 0 ≤ roundHalfEven g := by
  have h1 : ((g.floor : ℤ) : ℚ) ≤ g := Int.floor_le g
  have h2 : g < (g.floor : ℤ) + 1 := Int.lt_floor_add_one g
  have h0 : 0 ≤ g.floor := Int.floor_nonneg.mpr hg
  unfold roundHalfEven
  simp only
  by_cases c1 : g - ((g.floor : ℤ) : ℚ) < 1 / 2
  · rw [if_pos c1]; exact ⟨by rw [abs_le]; constructor <;> linarith, h0⟩
  · rw [if_neg c1]
    by_cases c2 : 1 / 2 < g - ((g.floor : ℤ) : ℚ)
    · rw [if_pos c2]
      exact ⟨by push_cast; rw [abs_le]; constructor <;> linarith, by omega⟩
    · rw [if_neg c2]
      have hd : g - ((g.floor : ℤ) : ℚ) = 1 / 2 := le_antisymm (not_lt.mp c2) (not_lt.mp c1)
      by_cases c3 : g.floor % 2 = 0
      · rw [if_pos c3]; exact ⟨by rw [abs_le]; constructor <;> linarith, h0⟩
      · rw [if_neg c3]; exact ⟨by push_cast; rw [abs_le]; constructor <;> linarith, by omega⟩

/-- every binary64 value `≥ 2²¹` is a multiple of `2⁻³¹` -/
theorem grid31 (z : ℚ) (hz : IsF64 z) (h : (2 : ℚ) ^ 21 ≤ z) : ∃ a : ℤ, z = a * (2 : ℚ) ^ (-31 : ℤ) := by
  obtain ⟨m, e, hm, -, -, rfl⟩ := hz
  by_cases he : -31 ≤ e
  · exact rescale m e (-31) he
  · exfalso
    have hpe := two_zpow_pos e
    have hmq : (m : ℚ) < 2 ^ 53 := by
      have : m < 2 ^ 53 := lt_of_le_of_lt (le_abs_self m) hm
      exact_mod_cast this
    have h2 : (2 : ℚ) ^ e ≤ (2 : ℚ) ^ (-32 : ℤ) := zpow_le_zpow_right₀ (by norm_num) (by omega)
    have h3 : (m : ℚ) * (2 : ℚ) ^ e < 2 ^ 53 * (2 : ℚ) ^ (-32 : ℤ) := by
      by_cases hm0 : (m : ℚ) ≤ 0
      · have : (m : ℚ) * (2 : ℚ) ^ e ≤ 0 := mul_nonpos_of_nonpos_of_nonneg hm0 hpe.le
        have : (0 : ℚ) < 2 ^ 53 * (2 : ℚ) ^ (-32 : ℤ) := by positivity
        linarith
      · push Not at hm0
        calc (m : ℚ) * (2 : ℚ) ^ e ≤ (m : ℚ) * (2 : ℚ) ^ (-32 : ℤ) := mul_le_mul_of_nonneg_left h2 hm0.le
          _ < 2 ^ 53 * (2 : ℚ) ^ (-32 : ℤ) := mul_lt_mul_of_pos_right hmq (two_zpow_pos _)
    have h4 : (2 : ℚ) ^ 53 * (2 : ℚ) ^ (-32 : ℤ) = 2 ^ 21 := by norm_num [zpow_neg]
    linarith

/-- reading back a header stamp `(s, n)` whose value `s + n·10⁻⁹` is within half a nanosecond
(plus rounding dust) of the binary64 stamp `x` gives a binary64 value within **one nanosecond** -/
theorem join_error (x : ℚ) (hx : IsF64 x) (h0 : 0 ≤ x) (h31 : x < 2 ^ 31) (s n : ℤ) (hs0 : 0 ≤ s)
    (hn0 : 0 ≤ n) (hn9 : n ≤ 10 ^ 9)
    (hH : |(s : ℚ) + (n : ℚ) / 10 ^ 9 - x| ≤ 1 / (2 * 10 ^ 9) + 2 / 2 ^ 53) :
    ∃ x', bagJoin s n = some x' ∧ IsF64 x' ∧ |x' - x| ≤ 1 / 10 ^ 9 ∧ |x' - x| ≤ 1 / 10 ^ 9 + 1 / 2 ^ 49 := by
  have ht := tiny_le
  have ht0 := two_zpow_pos (-1075)
  set t : ℚ := (2 : ℚ) ^ (-1075 : ℤ) with htd
  have hs0q : (0 : ℚ) ≤ s := by exact_mod_cast hs0
  have hn0q : (0 : ℚ) ≤ n := by exact_mod_cast hn0
  have hnleq : (n : ℚ) ≤ 1000000000 := by exact_mod_cast hn9
  obtain ⟨hH1, hH2⟩ := abs_le.mp hH
  have hc := c9_err
  obtain ⟨hc1, hc2⟩ := abs_le.mp hc
  have hc0 : 0 ≤ c9 := by unfold c9; norm_num
  have hnc : (n : ℚ) * c9 ≤ 2 := by
    have : c9 ≤ 2 / 1000000000 := by unfold c9; norm_num
    nlinarith
  obtain ⟨p, hp⟩ := rne_exists ((n : ℚ) * c9) (by rw [abs_of_nonneg (by positivity)]; norm_num; linarith)
  have hperr := rne_err _ _ hp
  rw [abs_of_nonneg (by positivity : (0 : ℚ) ≤ (n : ℚ) * c9)] at hperr
  have hp0 : 0 ≤ p := rne_nonneg _ _ (by positivity) hp
  obtain ⟨hpe1, hpe2⟩ := abs_le.mp hperr
  have hple : p ≤ 3 := by
    have : (n : ℚ) * c9 / 2 ^ 53 ≤ 1 / 2 := by norm_num; linarith
    have : t ≤ 1 / 2 := by linarith [show (1 : ℚ) / 2 ^ 60 ≤ 1 / 2 by norm_num]
    linarith
  have hsle : (s : ℚ) ≤ 2 ^ 31 + 1 := by
    have : (0 : ℚ) ≤ (n : ℚ) / 10 ^ 9 := by positivity
    norm_num at hH2 h31 ⊢; linarith
  obtain ⟨x', hx'⟩ := rne_exists ((s : ℚ) + p) (by
    rw [abs_of_nonneg (by positivity)]; norm_num at hsle ⊢; linarith)
  have hnear := rne_nearest _ _ hx'
  have hxerr := rne_err _ _ hx'
  rw [abs_of_nonneg (by positivity : (0 : ℚ) ≤ (s : ℚ) + p)] at hxerr
  have hjoin : bagJoin s n = some x' := by
    unfold bagJoin
    simp only [rne_c9, hp, hx']
  -- D = |s + p - x|
  have hD : |(s : ℚ) + p - x| ≤ 1 / (2 * 10 ^ 9) + 5 / 2 ^ 53 := by
    have b1 : (n : ℚ) * c9 ≤ (n : ℚ) * (1 / 1000000000) + 1 / 2 ^ 53 := by
      have : c9 ≤ 1 / 1000000000 + 1 / 1000000000 / 2 ^ 53 := by linarith
      have := mul_le_mul_of_nonneg_left this hn0q
      have : (n : ℚ) * (1 / 1000000000 / 2 ^ 53) ≤ 1 / 2 ^ 53 := by
        have := mul_le_mul_of_nonneg_right hnleq (by norm_num : (0 : ℚ) ≤ 1 / 1000000000 / 2 ^ 53)
        norm_num at this ⊢; linarith
      linarith
    have b2 : (n : ℚ) * (1 / 1000000000) - 1 / 2 ^ 53 ≤ (n : ℚ) * c9 := by
      have : 1 / 1000000000 - 1 / 1000000000 / 2 ^ 53 ≤ c9 := by linarith
      have := mul_le_mul_of_nonneg_left this hn0q
      have : (n : ℚ) * (1 / 1000000000 / 2 ^ 53) ≤ 1 / 2 ^ 53 := by
        have := mul_le_mul_of_nonneg_right hnleq (by norm_num : (0 : ℚ) ≤ 1 / 1000000000 / 2 ^ 53)
        norm_num at this ⊢; linarith
      linarith
    have d1 : (n : ℚ) * c9 / 2 ^ 53 ≤ 2 / 2 ^ 53 := div_le_div_of_nonneg_right hnc (by positivity)
    have t1 : t ≤ 1 / 2 ^ 60 := ht
    rw [abs_le]
    constructor
    · norm_num at *; linarith
    · norm_num at *; linarith
  obtain ⟨hD1, hD2⟩ := abs_le.mp hD
  have h2D : |x' - x| ≤ 1 / 10 ^ 9 + 10 / 2 ^ 53 := by
    have h2 := hnear.2 x hx
    have tri : |x' - x| ≤ |(s : ℚ) + p - x'| + |(s : ℚ) + p - x| := by
      have : x' - x = -((s : ℚ) + p - x') + ((s : ℚ) + p - x) := by ring
      rw [this]
      calc _ ≤ |-((s : ℚ) + p - x')| + |(s : ℚ) + p - x| := abs_add_le _ _
        _ = _ := by rw [abs_neg]
    norm_num at *; linarith
  refine ⟨x', hjoin, hnear.1, ?_, by norm_num at h2D ⊢; linarith⟩
  by_cases hsmall : x ≤ 4400000
  · -- relative error of the last rounding
    have hsp : (s : ℚ) + p ≤ x + 1 := by norm_num at hD2; linarith
    have e1 : ((s : ℚ) + p) / 2 ^ 53 ≤ (x + 1) / 2 ^ 53 := div_le_div_of_nonneg_right hsp (by positivity)
    have tri : |x' - x| ≤ |x' - ((s : ℚ) + p)| + |(s : ℚ) + p - x| := by
      have : x' - x = (x' - ((s : ℚ) + p)) + ((s : ℚ) + p - x) := by ring
      rw [this]; exact abs_add_le _ _
    have t1 : t ≤ 1 / 2 ^ 60 := ht
    norm_num at *; linarith
  · -- both values are multiples of 2⁻³¹; the difference is below three steps
    push Not at hsmall
    have hx21 : (2 : ℚ) ^ 21 ≤ x := by norm_num; linarith
    have hx'21 : (2 : ℚ) ^ 21 ≤ x' := by
      have := (abs_le.mp h2D).1; norm_num at this ⊢; linarith
    obtain ⟨a, ha⟩ := grid31 x hx hx21
    obtain ⟨a', ha'⟩ := grid31 x' hnear.1 hx'21
    have hG : (2 : ℚ) ^ (-31 : ℤ) = 1 / 2147483648 := by norm_num [zpow_neg]
    rw [ha, ha', hG] at h2D ⊢
    have hdiff : ((a' : ℚ) * (1 / 2147483648) - (a : ℚ) * (1 / 2147483648)) = ((a' - a : ℤ) : ℚ) * (1 / 2147483648) := by
      push_cast; ring
    rw [hdiff, abs_mul, abs_of_pos (by norm_num : (0 : ℚ) < 1 / 2147483648)] at h2D ⊢
    obtain ⟨J, hJ⟩ : ∃ J : ℚ, J = |((a' - a : ℤ) : ℚ)| := ⟨_, rfl⟩
    rw [← hJ] at h2D ⊢
    have hj : J ≤ 2 := by
      by_contra hcon
      push Not at hcon
      have h3 : (3 : ℚ) ≤ J := by
        rw [hJ]
        have hlt : (2 : ℚ) < |((a' - a : ℤ) : ℚ)| := by rw [← hJ]; exact hcon
        have : (2 : ℤ) < |a' - a| := by exact_mod_cast hlt
        have : (3 : ℤ) ≤ |a' - a| := by omega
        exact_mod_cast this
      norm_num at h2D; linarith
    norm_num; linarith

/-- **Bag stamps (repaired code).** For every binary64 stamp `0 ≤ x < 2³¹` the header stamp
`(sec, nanosec)` has `0 ≤ nanosec < 10⁹`, `sec = ⌊x⌋` (or `⌊x⌋ + 1` with `nanosec = 0`: the
carry), represents `x` to within half a nanosecond (plus 2⁻⁵² s rounding dust of the product), and
the stamp read back is a binary64 value `x'` with `|x' − x| ≤ 1 ns`. -/
theorem bag_roundtrip (x : ℚ) (hx : IsF64 x) (h0 : 0 ≤ x) (h31 : x < 2 ^ 31) :
    ∃ (sec ns : ℤ) (x' : ℚ), bagSplit x = some (sec, ns) ∧ 0 ≤ ns ∧ ns < 10 ^ 9 ∧
      (sec = ⌊x⌋ ∨ (sec = ⌊x⌋ + 1 ∧ ns = 0)) ∧
      |(sec : ℚ) + (ns : ℚ) / 10 ^ 9 - x| ≤ 1 / (2 * 10 ^ 9) + 2 / 2 ^ 53 ∧
      bagJoin sec ns = some x' ∧ IsF64 x' ∧ |x' - x| ≤ 1 / 10 ^ 9 ∧ |x' - x| ≤ 1 / 10 ^ 9 + 1 / 2 ^ 49 := by
  have ht := tiny_le
  have ht0 := two_zpow_pos (-1075)
  set t : ℚ := (2 : ℚ) ^ (-1075 : ℤ) with htd
  set s : ℤ := ⌊x⌋ with hs
  have hs1 : (s : ℚ) ≤ x := Int.floor_le x
  have hs2 : x < s + 1 := Int.lt_floor_add_one x
  have hs0 : 0 ≤ s := Int.floor_nonneg.mpr h0
  have hs0q : (0 : ℚ) ≤ s := by exact_mod_cast hs0
  set f : ℚ := x - s with hf
  have hf0 : 0 ≤ f := by linarith
  have hf1 : f < 1 := by linarith
  have hrf : rne f = some f := rne_id f (isF64_fract x hx h0)
  obtain ⟨g, hg⟩ := rne_exists (f * 1000000000) (by rw [abs_of_nonneg (by positivity)]; norm_num; nlinarith)
  have hgerr := rne_err _ _ hg
  rw [abs_of_nonneg (by positivity : (0 : ℚ) ≤ f * 1000000000)] at hgerr
  have hg0 : 0 ≤ g := rne_nonneg _ _ (by positivity) hg
  obtain ⟨hge1, hge2⟩ := abs_le.mp hgerr
  obtain ⟨hr, hr0⟩ := roundHalfEven_spec g hg0
  set ns : ℤ := roundHalfEven g with hns
  obtain ⟨hr1, hr2⟩ := abs_le.mp hr
  have hu : f * 1000000000 / 2 ^ 53 ≤ 1000000000 / 2 ^ 53 := by
    apply div_le_div_of_nonneg_right _ (by positivity); linarith
  have hnle : ns ≤ 10 ^ 9 := by
    have : (ns : ℚ) < ((10 ^ 9 + 1 : ℤ) : ℚ) := by
      push_cast; norm_num at hu ⊢; nlinarith
    have : ns < 10 ^ 9 + 1 := by exact_mod_cast this
    omega
  have hval : |(s : ℚ) + (ns : ℚ) / 10 ^ 9 - x| ≤ 1 / (2 * 10 ^ 9) + 2 / 2 ^ 53 := by
    have e : (s : ℚ) + (ns : ℚ) / 10 ^ 9 - x = ((ns : ℚ) - f * 1000000000) / 10 ^ 9 := by
      rw [hf]; field_simp; ring
    rw [e, abs_div, abs_of_pos (by positivity : (0 : ℚ) < 10 ^ 9), div_le_iff₀ (by positivity)]
    rw [abs_le]
    have t1 : t ≤ 1 / 2 ^ 60 := ht
    constructor
    · norm_num at *; linarith
    · norm_num at *; linarith
  have hsplit : bagSplit x = some (if ns = 1000000000 then (s + 1, 0) else (s, ns)) := by
    unfold bagSplit
    simp only [floor_eq]
    rw [← hs, ← hf, hrf]
    simp only [hg, ← hns]
  by_cases hcar : ns = 1000000000
  · have hH : |((s + 1 : ℤ) : ℚ) + ((0 : ℤ) : ℚ) / 10 ^ 9 - x| ≤ 1 / (2 * 10 ^ 9) + 2 / 2 ^ 53 := by
      have : ((s + 1 : ℤ) : ℚ) + ((0 : ℤ) : ℚ) / 10 ^ 9 - x = (s : ℚ) + (ns : ℚ) / 10 ^ 9 - x := by
        rw [hcar]; push_cast; norm_num
      rw [this]; exact hval
    obtain ⟨x', h1, h2, h3, h4⟩ := join_error x hx h0 h31 (s + 1) 0 (by omega) (le_refl _) (by norm_num) hH
    exact ⟨s + 1, 0, x', by rw [hsplit, if_pos hcar], le_refl _, by norm_num, Or.inr ⟨rfl, rfl⟩, hH, h1, h2, h3, h4⟩
  · have hlt : ns < 10 ^ 9 := by
      have : ns ≠ 10 ^ 9 := by simpa using hcar
      omega
    obtain ⟨x', h1, h2, h3, h4⟩ := join_error x hx h0 h31 s ns hs0 hr0 hnle hval
    exact ⟨s, ns, x', by rw [hsplit, if_neg hcar], hr0, hlt, Or.inl rfl, hval, h1, h2, h3, h4⟩

/-- around a normalised binary64 value `x = m·2^e` (`2⁵² ≤ m`) every other binary64 value is at
least `2^(e−1)` away -/
theorem f64_gap (m e : ℤ) (hm : 2 ^ 52 ≤ m) (z : ℚ) (hz : IsF64 z)
    (hne : z ≠ (m : ℚ) * (2 : ℚ) ^ e) : (2 : ℚ) ^ (e - 1) ≤ |z - (m : ℚ) * (2 : ℚ) ^ e| := by
  obtain ⟨m', e', hm', -, -, rfl⟩ := hz
  have hpe := two_zpow_pos e
  have hhalf : (2 : ℚ) ^ (e - 1) = (2 : ℚ) ^ e / 2 := by
    rw [show e - 1 = e + (-1) by ring, zpow_add₀ two_ne]; norm_num; ring
  rcases le_or_gt e e' with hle | hlt
  · obtain ⟨a, ha⟩ := rescale m' e' e hle
    rw [ha] at hne ⊢
    have := int_gap a m e hne
    rw [hhalf]; linarith
  · have hpe' := two_zpow_pos e'
    have hm'q : (m' : ℚ) ≤ 2 ^ 53 - 1 := by
      have : m' ≤ 2 ^ 53 - 1 := by have := le_abs_self m'; omega
      exact_mod_cast this
    have hmq : (2 : ℚ) ^ 52 ≤ m := by exact_mod_cast hm
    have h2 : (2 : ℚ) ^ e' ≤ (2 : ℚ) ^ (e - 1) := zpow_le_zpow_right₀ (by norm_num) (by omega)
    have hz : (m' : ℚ) * (2 : ℚ) ^ e' ≤ (2 ^ 53 - 1) * (2 : ℚ) ^ (e - 1) := by
      by_cases hneg : (m' : ℚ) ≤ 0
      · have : (m' : ℚ) * (2 : ℚ) ^ e' ≤ 0 := mul_nonpos_of_nonpos_of_nonneg hneg hpe'.le
        have : (0 : ℚ) ≤ (2 ^ 53 - 1) * (2 : ℚ) ^ (e - 1) := by
          have := two_zpow_pos (e - 1); positivity
        linarith
      · push Not at hneg
        calc (m' : ℚ) * (2 : ℚ) ^ e' ≤ (m' : ℚ) * (2 : ℚ) ^ (e - 1) := mul_le_mul_of_nonneg_left h2 hneg.le
          _ ≤ (2 ^ 53 - 1) * (2 : ℚ) ^ (e - 1) := mul_le_mul_of_nonneg_right hm'q (two_zpow_pos _).le
    have hx : (2 : ℚ) ^ 52 * (2 : ℚ) ^ e ≤ (m : ℚ) * (2 : ℚ) ^ e := mul_le_mul_of_nonneg_right hmq hpe.le
    have : (2 : ℚ) ^ (e - 1) ≤ (m : ℚ) * (2 : ℚ) ^ e - (m' : ℚ) * (2 : ℚ) ^ e' := by
      rw [hhalf] at hz ⊢; linarith
    rw [abs_sub_comm, abs_of_nonneg (by have := two_zpow_pos (e - 1); linarith)]
    exact this

/-- Stamps whose binary64 spacing exceeds 2 ns (`2^(e−1) > 1 ns + 2⁻⁴⁹`, i.e. all stamps
`≥ 2²⁴ s ≈ 194 days`, epoch stamps in particular) are read back **identically**. -/
theorem bag_exact_of_coarse (m e : ℤ) (hm : 2 ^ 52 ≤ m) (hm' : m < 2 ^ 53) (he1 : -1074 ≤ e) (he2 : e ≤ 971)
    (h31 : (m : ℚ) * (2 : ℚ) ^ e < 2 ^ 31) (hgap : 1 / 10 ^ 9 + 1 / 2 ^ 49 < (2 : ℚ) ^ (e - 1)) :
    ∃ sec ns : ℤ, bagSplit ((m : ℚ) * (2 : ℚ) ^ e) = some (sec, ns) ∧
      bagJoin sec ns = some ((m : ℚ) * (2 : ℚ) ^ e) := by
  have hm0 : (0 : ℚ) ≤ m := by
    have : (0 : ℤ) ≤ m := by omega
    exact_mod_cast this
  have hx : IsF64 ((m : ℚ) * (2 : ℚ) ^ e) :=
    ⟨m, e, by rw [abs_of_nonneg (by omega)]; exact hm', he1, he2, rfl⟩
  have h0 : (0 : ℚ) ≤ (m : ℚ) * (2 : ℚ) ^ e := mul_nonneg hm0 (two_zpow_pos e).le
  obtain ⟨sec, ns, x', h1, -, -, -, -, h2, h3, -, h5⟩ := bag_roundtrip _ hx h0 h31
  refine ⟨sec, ns, h1, ?_⟩
  have : x' = (m : ℚ) * (2 : ℚ) ^ e := by
    by_contra hne
    have := f64_gap m e hm x' h3 hne
    linarith
  rw [h2, this]

end Evo.F64
