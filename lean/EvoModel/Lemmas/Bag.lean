/-
ROS bag time stamps: the `sec/nanosec` split of `write_bag_trajectory` and the reassembly of
`read_bag_trajectory` (`Text.bagSplit`, `Text.bagJoin`), error analysis with the verified `rne`.
All float operations are evo's; rosbags only stores and returns the two unsigned integers.
-/
import EvoModel.Model.TextFormats
import EvoModel.Lemmas.F64
import Mathlib.Data.Rat.Floor
import Mathlib.Tactic.Push
namespace Evo.F64
open Evo.Text

theorem floor_eq (x : ℚ) : x.floor = ⌊x⌋ := rfl

/-- `stamp − sec` is exact in binary64: the fractional part of a non-negative binary64 value is a
binary64 value (same exponent, smaller mantissa) -/
theorem isF64_fract (x : ℚ) (hx : IsF64 x) (h0 : 0 ≤ x) : IsF64 (x - (⌊x⌋ : ℤ)) := by
  obtain ⟨m, e, hm, he1, he2, rfl⟩ := hx
  have hpe := two_zpow_pos e
  set x := (m : ℚ) * (2 : ℚ) ^ e with hxd
  have hfl : ((⌊x⌋ : ℤ) : ℚ) ≤ x := Int.floor_le x
  have hfl2 : x < (⌊x⌋ : ℤ) + 1 := Int.lt_floor_add_one x
  have hfl0 : 0 ≤ ⌊x⌋ := Int.floor_nonneg.mpr h0
  by_cases he : 0 ≤ e
  · -- an integer: fractional part 0
    obtain ⟨k, rfl⟩ := Int.eq_ofNat_of_zero_le he
    have : x = ((m * 2 ^ k : ℤ) : ℚ) := by rw [hxd, zpow_natCast]; push_cast; ring
    rw [this, Int.floor_intCast, sub_self]
    exact isF64_zero
  · have he' : 0 ≤ -e := by omega
    obtain ⟨k, hk⟩ := Int.eq_ofNat_of_zero_le he'
    have hek : e = -(k : ℤ) := by omega
    have h2k : (0 : ℚ) < 2 ^ k := by positivity
    have hxe : x * 2 ^ k = m := by
      rw [hxd, hek, zpow_neg, zpow_natCast]; field_simp
    have hm0 : 0 ≤ m := by
      have : (0 : ℚ) ≤ m := by rw [← hxe]; positivity
      exact_mod_cast this
    refine ⟨m - ⌊x⌋ * 2 ^ k, e, ?_, he1, he2, ?_⟩
    · -- 0 ≤ m' ≤ m < 2^53
      have h1 : (0 : ℚ) ≤ ((m - ⌊x⌋ * 2 ^ k : ℤ) : ℚ) := by
        push_cast; rw [← hxe]; nlinarith
      have h1' : 0 ≤ m - ⌊x⌋ * 2 ^ k := by exact_mod_cast h1
      have h2 : m - ⌊x⌋ * 2 ^ k ≤ m := by
        have : 0 ≤ ⌊x⌋ * 2 ^ k := by positivity
        omega
      rw [abs_of_nonneg h1']
      have : |m| = m := abs_of_nonneg hm0
      omega
    · push_cast
      rw [hek, zpow_neg, zpow_natCast]
      rw [hxd, hek, zpow_neg, zpow_natCast]
      field_simp

/-- the double nearest to 10⁻⁹ (the literal `1e-9` in `t.nanosec * 1e-9`) -/
def c9 : ℚ := 4835703278458517 / 4835703278458516698824704

theorem rne_c9 : rne (mkRat 1 1000000000) = some c9 := by unfold c9; decide +kernel

theorem c9_err : |c9 - 1 / 1000000000| ≤ 1 / 1000000000 / 2 ^ 53 := by
  unfold c9; rw [abs_le]; constructor <;> norm_num

theorem tiny_le : (2 : ℚ) ^ (-1075 : ℤ) ≤ 1 / 2 ^ 60 := by
  have : (2 : ℚ) ^ (-1075 : ℤ) ≤ (2 : ℚ) ^ (-60 : ℤ) := zpow_le_zpow_right₀ (by norm_num) (by norm_num)
  have e : (2 : ℚ) ^ (-60 : ℤ) = 1 / 2 ^ 60 := by norm_num [zpow_neg]
  rw [e] at this; exact this

theorem rne_exists (y : ℚ) (hb : |y| ≤ 2 ^ 40) : ∃ r, rne y = some r :=
  Option.isSome_iff_exists.mp (rne_isSome_of_abs_le y (le_trans hb closeBound_ge))

/-- **Bag stamps.** For every binary64 stamp `0 ≤ x < 2³¹`: the header stamp is
`sec = ⌊x⌋`, `0 ≤ nanosec ≤ 10⁹`, and the stamp read back is a binary64 value `x'` with
`|x' − x| ≤ 1 ns + x·2⁻⁵³ + 2⁻⁵⁰` and `|x' − x| ≤ 2 ns + 2⁻⁴⁹`. -/
theorem bag_roundtrip (x : ℚ) (hx : IsF64 x) (h0 : 0 ≤ x) (h31 : x < 2 ^ 31) :
    ∃ (ns : ℤ) (x' : ℚ), bagSplit x = some (⌊x⌋, ns) ∧ 0 ≤ ns ∧ ns ≤ 10 ^ 9 ∧
      bagJoin ⌊x⌋ ns = some x' ∧ IsF64 x' ∧
      |x' - x| ≤ 1 / 10 ^ 9 + x / 2 ^ 53 + 1 / 2 ^ 50 ∧ |x' - x| ≤ 2 / 10 ^ 9 + 1 / 2 ^ 49 := by
  have ht := tiny_le
  have ht0 := two_zpow_pos (-1075)
  set t : ℚ := (2 : ℚ) ^ (-1075 : ℤ) with htd
  set s : ℤ := ⌊x⌋ with hs
  have hs1 : (s : ℚ) ≤ x := Int.floor_le x
  have hs2 : x < s + 1 := Int.lt_floor_add_one x
  have hs0 : (0 : ℚ) ≤ s := by exact_mod_cast Int.floor_nonneg.mpr h0
  set f : ℚ := x - s with hf
  have hf0 : 0 ≤ f := by linarith
  have hf1 : f < 1 := by linarith
  have hrf : rne f = some f := rne_id f (isF64_fract x hx h0)
  -- g = rne (f * 1e9)
  obtain ⟨g, hg⟩ := rne_exists (f * 1000000000) (by rw [abs_of_nonneg (by positivity)]; norm_num; nlinarith)
  have hgerr := rne_err _ _ hg
  rw [abs_of_nonneg (by positivity : (0 : ℚ) ≤ f * 1000000000)] at hgerr
  have hg0 : 0 ≤ g := rne_nonneg _ _ (by positivity) hg
  obtain ⟨hge1, hge2⟩ := abs_le.mp hgerr
  set ns : ℤ := ⌊g⌋ with hns
  have hn1 : (ns : ℚ) ≤ g := Int.floor_le g
  have hn2 : g < ns + 1 := Int.lt_floor_add_one g
  have hn0 : 0 ≤ ns := Int.floor_nonneg.mpr hg0
  have hn0q : (0 : ℚ) ≤ ns := by exact_mod_cast hn0
  have hnle : ns ≤ 10 ^ 9 := by
    have : (ns : ℚ) < ((10 ^ 9 + 1 : ℤ) : ℚ) := by
      push_cast
      have : f * 1000000000 / 2 ^ 53 ≤ 1 := by norm_num; nlinarith
      nlinarith
    have : ns < 10 ^ 9 + 1 := by exact_mod_cast this
    omega
  have hnleq : (ns : ℚ) ≤ 1000000000 := by exact_mod_cast hnle
  -- split
  have hsplit : bagSplit x = some (s, ns) := by
    unfold bagSplit
    simp only [floor_eq]
    rw [← hs, ← hf, hrf]
    simp only [hg, not_lt.mpr hg0, if_false, ← hns]
  -- join
  have hc := c9_err
  obtain ⟨hc1, hc2⟩ := abs_le.mp hc
  have hc0 : 0 ≤ c9 := by unfold c9; norm_num
  have hnc : (ns : ℚ) * c9 ≤ 2 := by
    have : c9 ≤ 2 / 1000000000 := by unfold c9; norm_num
    nlinarith
  obtain ⟨p, hp⟩ := rne_exists ((ns : ℚ) * c9) (by rw [abs_of_nonneg (by positivity)]; norm_num; linarith)
  have hperr := rne_err _ _ hp
  rw [abs_of_nonneg (by positivity : (0 : ℚ) ≤ (ns : ℚ) * c9)] at hperr
  have hp0 : 0 ≤ p := rne_nonneg _ _ (by positivity) hp
  obtain ⟨hpe1, hpe2⟩ := abs_le.mp hperr
  have hple : p ≤ 3 := by
    have : (ns : ℚ) * c9 / 2 ^ 53 ≤ 1 / 2 := by norm_num; linarith
    have : t ≤ 1 / 2 := by linarith [show (1 : ℚ) / 2 ^ 60 ≤ 1 / 2 by norm_num]
    linarith
  obtain ⟨x', hx'⟩ := rne_exists ((s : ℚ) + p) (by
    rw [abs_of_nonneg (by positivity)]; norm_num at h31 ⊢; linarith)
  have hnear := rne_nearest _ _ hx'
  have hxerr := rne_err _ _ hx'
  rw [abs_of_nonneg (by positivity : (0 : ℚ) ≤ (s : ℚ) + p)] at hxerr
  have hjoin : bagJoin s ns = some x' := by
    unfold bagJoin
    simp only [rne_c9, hp, hx']
  -- D = |x - (s + p)| = |f - p|
  have hD : |(s : ℚ) + p - x| ≤ 1 / 10 ^ 9 + 5 / 2 ^ 53 := by
    have e : (s : ℚ) + p - x = p - f := by rw [hf]; ring
    rw [e, abs_le]
    have u1 : f * 1000000000 / 2 ^ 53 ≤ 1000000000 / 2 ^ 53 := by
      apply div_le_div_of_nonneg_right _ (by positivity); linarith
    have a1 : (ns : ℚ) ≤ f * 1000000000 + 1000000000 / 2 ^ 53 + t := by linarith
    have a2 : f * 1000000000 - 1000000000 / 2 ^ 53 - t - 1 ≤ ns := by linarith
    have b1 : (ns : ℚ) * c9 ≤ (ns : ℚ) * (1 / 1000000000) + 1 / 2 ^ 53 := by
      have : c9 ≤ 1 / 1000000000 + 1 / 1000000000 / 2 ^ 53 := by linarith
      have := mul_le_mul_of_nonneg_left this hn0q
      have : (ns : ℚ) * (1 / 1000000000 / 2 ^ 53) ≤ 1 / 2 ^ 53 := by
        have := mul_le_mul_of_nonneg_right hnleq (by norm_num : (0 : ℚ) ≤ 1 / 1000000000 / 2 ^ 53)
        norm_num at this ⊢; linarith
      linarith
    have b2 : (ns : ℚ) * (1 / 1000000000) - 1 / 2 ^ 53 ≤ (ns : ℚ) * c9 := by
      have : 1 / 1000000000 - 1 / 1000000000 / 2 ^ 53 ≤ c9 := by linarith
      have := mul_le_mul_of_nonneg_left this hn0q
      have : (ns : ℚ) * (1 / 1000000000 / 2 ^ 53) ≤ 1 / 2 ^ 53 := by
        have := mul_le_mul_of_nonneg_right hnleq (by norm_num : (0 : ℚ) ≤ 1 / 1000000000 / 2 ^ 53)
        norm_num at this ⊢; linarith
      linarith
    have d1 : (ns : ℚ) * c9 / 2 ^ 53 ≤ 2 / 2 ^ 53 := div_le_div_of_nonneg_right hnc (by positivity)
    have t1 : t ≤ 1 / 2 ^ 60 := ht
    constructor
    · norm_num at *; linarith
    · norm_num at *; linarith
  refine ⟨ns, x', hsplit, hn0, hnle, hjoin, hnear.1, ?_, ?_⟩
  · -- relative bound
    have hsp : (s : ℚ) + p ≤ x + 1 := by
      have := (abs_le.mp hD).2; norm_num at this; linarith
    have e1 : ((s : ℚ) + p) / 2 ^ 53 ≤ (x + 1) / 2 ^ 53 := div_le_div_of_nonneg_right hsp (by positivity)
    have tri : |x' - x| ≤ |x' - ((s : ℚ) + p)| + |(s : ℚ) + p - x| := by
      have : x' - x = (x' - ((s : ℚ) + p)) + ((s : ℚ) + p - x) := by ring
      rw [this]; exact abs_add_le _ _
    have t1 : t ≤ 1 / 2 ^ 60 := ht
    norm_num at *; linarith
  · have h2 := hnear.2 x hx
    have tri : |x' - x| ≤ |(s : ℚ) + p - x'| + |(s : ℚ) + p - x| := by
      have : x' - x = -((s : ℚ) + p - x') + ((s : ℚ) + p - x) := by ring
      rw [this]
      calc _ ≤ |-((s : ℚ) + p - x')| + |(s : ℚ) + p - x| := abs_add_le _ _
        _ = _ := by rw [abs_neg]
    norm_num at *; linarith


/-- around a normalised binary64 value `x = m·2^e` (`2⁵² ≤ m`) every other binary64 value is at
least `2^(e−1)` away -/
theorem f64_gap (m e : ℤ) (hm : 2 ^ 52 ≤ m) (z : ℚ) (hz : IsF64 z)
    (hne : z ≠ (m : ℚ) * (2 : ℚ) ^ e) : (2 : ℚ) ^ (e - 1) ≤ |z - (m : ℚ) * (2 : ℚ) ^ e| := by
  obtain ⟨m', e', hm', -, -, rfl⟩ := hz
  have hpe := two_zpow_pos e
  have hhalf : (2 : ℚ) ^ (e - 1) = (2 : ℚ) ^ e / 2 := by
    rw [show e - 1 = e + (-1) by ring, zpow_add₀ two_ne]; norm_num; ring
  rcases le_or_gt e e' with hle | hlt
  · obtain ⟨a, ha⟩ := rescale m' e' e hle
    rw [ha] at hne ⊢
    have := int_gap a m e hne
    rw [hhalf]; linarith
  · have hpe' := two_zpow_pos e'
    have hm'q : (m' : ℚ) ≤ 2 ^ 53 - 1 := by
      have : m' ≤ 2 ^ 53 - 1 := by have := le_abs_self m'; omega
      exact_mod_cast this
    have hmq : (2 : ℚ) ^ 52 ≤ m := by exact_mod_cast hm
    have h2 : (2 : ℚ) ^ e' ≤ (2 : ℚ) ^ (e - 1) := zpow_le_zpow_right₀ (by norm_num) (by omega)
    have hz : (m' : ℚ) * (2 : ℚ) ^ e' ≤ (2 ^ 53 - 1) * (2 : ℚ) ^ (e - 1) := by
      by_cases hneg : (m' : ℚ) ≤ 0
      · have : (m' : ℚ) * (2 : ℚ) ^ e' ≤ 0 := mul_nonpos_of_nonpos_of_nonneg hneg hpe'.le
        have : (0 : ℚ) ≤ (2 ^ 53 - 1) * (2 : ℚ) ^ (e - 1) := by
          have := two_zpow_pos (e - 1); positivity
        linarith
      · push Not at hneg
        calc (m' : ℚ) * (2 : ℚ) ^ e' ≤ (m' : ℚ) * (2 : ℚ) ^ (e - 1) := mul_le_mul_of_nonneg_left h2 hneg.le
          _ ≤ (2 ^ 53 - 1) * (2 : ℚ) ^ (e - 1) := mul_le_mul_of_nonneg_right hm'q (two_zpow_pos _).le
    have hx : (2 : ℚ) ^ 52 * (2 : ℚ) ^ e ≤ (m : ℚ) * (2 : ℚ) ^ e := mul_le_mul_of_nonneg_right hmq hpe.le
    have : (2 : ℚ) ^ (e - 1) ≤ (m : ℚ) * (2 : ℚ) ^ e - (m' : ℚ) * (2 : ℚ) ^ e' := by
      rw [hhalf] at hz ⊢; linarith
    rw [abs_sub_comm, abs_of_nonneg (by have := two_zpow_pos (e - 1); linarith)]
    exact this

/-- Stamps whose binary64 spacing is coarser than 4 ns (`2^(e−1) > 2 ns`, i.e. all stamps
`≥ 2²⁵ s ≈ 388 days`, epoch stamps in particular) are read back **identically**. -/
theorem bag_exact_of_coarse (m e : ℤ) (hm : 2 ^ 52 ≤ m) (hm' : m < 2 ^ 53) (he1 : -1074 ≤ e) (he2 : e ≤ 971)
    (h31 : (m : ℚ) * (2 : ℚ) ^ e < 2 ^ 31) (hgap : 2 / 10 ^ 9 + 1 / 2 ^ 49 < (2 : ℚ) ^ (e - 1)) :
    ∃ ns : ℤ, bagSplit ((m : ℚ) * (2 : ℚ) ^ e) = some (⌊(m : ℚ) * (2 : ℚ) ^ e⌋, ns) ∧
      bagJoin ⌊(m : ℚ) * (2 : ℚ) ^ e⌋ ns = some ((m : ℚ) * (2 : ℚ) ^ e) := by
  have hm0 : (0 : ℚ) ≤ m := by
    have : (0 : ℤ) ≤ m := by omega
    exact_mod_cast this
  have hx : IsF64 ((m : ℚ) * (2 : ℚ) ^ e) :=
    ⟨m, e, by rw [abs_of_nonneg (by omega)]; exact hm', he1, he2, rfl⟩
  have h0 : (0 : ℚ) ≤ (m : ℚ) * (2 : ℚ) ^ e := mul_nonneg hm0 (two_zpow_pos e).le
  obtain ⟨ns, x', h1, -, -, h2, h3, -, h5⟩ := bag_roundtrip _ hx h0 h31
  refine ⟨ns, h1, ?_⟩
  have : x' = (m : ℚ) * (2 : ℚ) ^ e := by
    by_contra hne
    have := f64_gap m e hm x' h3 hne
    linarith
  rw [h2, this]


end Evo.F64
