/-
C18 — lemmas about insertion-ordered dictionaries and the edit operations of `Model/Config.lean`.
No Mathlib needed.
-/
import EvoModel.Model.Config
set_option linter.unusedSimpArgs false
namespace Evo.Config

/-! ### dictionaries -/

theorem hasKey_cons (k' : String) (v : JVal) (r : Dict) (k : String) :
    hasKey ((k', v) :: r) k = (decide (k' = k) || hasKey r k) := by
  unfold hasKey
  simp only [lookup]
  by_cases h : k' = k <;> simp [h]

theorem lookup_setKey_self (d : Dict) (k : String) (v : JVal) : lookup (setKey d k v) k = some v := by
  induction d with
  | nil => simp [setKey, lookup]
  | cons kv r ih =>
    obtain ⟨k', v'⟩ := kv
    by_cases h : k' = k
    · simp [setKey, lookup, h]
    · simp [setKey, lookup, h, ih]

theorem lookup_setKey_ne (d : Dict) (k k₂ : String) (v : JVal) (hne : k₂ ≠ k) :
    lookup (setKey d k v) k₂ = lookup d k₂ := by
  induction d with
  | nil => simp [setKey, lookup, Ne.symm hne]
  | cons kv r ih =>
    obtain ⟨k', v'⟩ := kv
    by_cases h : k' = k
    · subst h
      simp [setKey, lookup, Ne.symm hne]
    · by_cases h2 : k' = k₂
      · subst h2; simp [setKey, lookup, h]
      · simp [setKey, lookup, h, h2, ih]

theorem keys_setKey_of_hasKey (d : Dict) (k : String) (v : JVal) (h : hasKey d k = true) :
    keys (setKey d k v) = keys d := by
  induction d with
  | nil => simp [hasKey, lookup] at h
  | cons kv r ih =>
    obtain ⟨k', v'⟩ := kv
    by_cases hk : k' = k
    · simp [setKey, keys, hk]
    · have : hasKey r k = true := by simpa [hasKey_cons, hk] using h
      have ih' := ih this
      simp only [keys] at ih' ⊢
      simp [setKey, hk, ih']

theorem keys_setKey_of_not_hasKey (d : Dict) (k : String) (v : JVal) (h : hasKey d k = false) :
    keys (setKey d k v) = keys d ++ [k] := by
  induction d with
  | nil => simp [setKey, keys]
  | cons kv r ih =>
    obtain ⟨k', v'⟩ := kv
    have hk : k' ≠ k := by
      intro hk; simp [hasKey_cons, hk] at h
    have : hasKey r k = false := by simpa [hasKey_cons, hk] using h
    have ih' := ih this
    simp only [keys] at ih' ⊢
    simp [setKey, hk, ih']

theorem hasKey_iff_lookup (d : Dict) (k : String) : hasKey d k = true ↔ ∃ v, lookup d k = some v := by
  unfold hasKey
  cases lookup d k <;> simp

theorem hasKey_setKey (d : Dict) (k k₂ : String) (v : JVal) :
    hasKey (setKey d k v) k₂ = (hasKey d k₂ || decide (k₂ = k)) := by
  by_cases h : k₂ = k
  · subst h; simp [hasKey, lookup_setKey_self]
  · simp [hasKey, lookup_setKey_ne _ _ _ _ h, h]

theorem hasKey_iff_mem_keys (d : Dict) (k : String) : hasKey d k = true ↔ k ∈ keys d := by
  induction d with
  | nil => simp [hasKey, lookup, keys]
  | cons kv r ih =>
    obtain ⟨k', v'⟩ := kv
    rw [hasKey_cons]
    simp only [keys, List.map_cons, List.mem_cons] at ih ⊢
    by_cases h : k' = k
    · simp [h]
    · simp [h, ih, Ne.symm h]

/-! ### toggle / finalize -/

theorem keys_toggle (cfg : Dict) (k : String) : keys (toggle cfg k) = keys cfg := by
  unfold toggle
  split
  · next b h => exact keys_setKey_of_hasKey _ _ _ ((hasKey_iff_lookup _ _).mpr ⟨_, h⟩)
  · rfl

theorem lookup_toggle_ne (cfg : Dict) (k k₂ : String) (h : k₂ ≠ k) : lookup (toggle cfg k) k₂ = lookup cfg k₂ := by
  unfold toggle
  split
  · exact lookup_setKey_ne _ _ _ _ h
  · rfl

/-- the type of a stored value -/
def typeAt (cfg : Dict) (k : String) : Option JType := (lookup cfg k).map JVal.type

theorem toggle_type (cfg : Dict) (k k₂ : String) : typeAt (toggle cfg k) k₂ = typeAt cfg k₂ := by
  unfold toggle typeAt
  split
  · next b h =>
    by_cases hk : k₂ = k
    · subst hk; simp [lookup_setKey_self, h, JVal.type, Atom.type]
    · rw [lookup_setKey_ne _ _ _ _ hk]
  · rfl

theorem finalize_bool (cfg : Dict) (k : String) (b : Bool) (vals : List Atom) (v : JVal)
    (hb : lookup cfg k = some (.atom (.bool b))) (h : finalizeValues cfg k vals = .ok v) :
    v.type = .bool ∨ vals = [] := by
  unfold finalizeValues at h
  split at h
  · cases h
  · cases vals with
    | nil => exact Or.inr rfl
    | cons v0 vs =>
      left
      simp only [hb] at h
      split at h
      · split at h
        · cases h; rfl
        · split at h <;> cases h <;> rfl
      · cases h; rfl

theorem finalize_list (cfg : Dict) (k : String) (l : List Atom) (vals : List Atom) (v : JVal)
    (hb : lookup cfg k = some (.list l)) (h : finalizeValues cfg k vals = .ok v) :
    v.type = .list ∨ vals = [] := by
  unfold finalizeValues at h
  split at h
  · cases h
  · cases vals with
    | nil => exact Or.inr rfl
    | cons v0 vs =>
      left
      simp only [hb] at h
      split at h
      · split at h <;> cases h <;> rfl
      · cases h; rfl

/-! ### set_config, step by step -/

/-- one unfolding of `setConfig` on a key argument -/
theorem setConfig_cons_ok (cfg : Dict) (arg : String) (rest : List String) (out : Dict)
    (h : setConfig cfg (arg :: rest) = .ok out) :
    (hasKey cfg arg = false ∧ setConfig cfg rest = .ok out) ∨
    (hasKey cfg arg = true ∧ setConfig (toggle cfg arg) rest = .ok out) ∨
    (hasKey cfg arg = true ∧ ∃ vals v, vals ≠ [] ∧ finalizeValues cfg arg vals = .ok v ∧
      setConfig (setKey cfg arg v) rest = .ok out) := by
  rw [setConfig] at h
  by_cases hk : hasKey cfg arg = true
  · simp only [hk, Bool.not_true, Bool.false_eq_true, if_false] at h
    by_cases ht : (List.takeWhile (fun t => !hasKey cfg t) rest).isEmpty = true
    · simp only [ht, if_true] at h
      exact Or.inr (Or.inl ⟨hk, h⟩)
    · simp only [ht, Bool.false_eq_true, if_false] at h
      cases hm : List.mapM convSet (List.takeWhile (fun t => !hasKey cfg t) rest) with
      | error e => simp [hm, bind, Except.bind] at h
      | ok vals =>
        cases hf : finalizeValues cfg arg vals with
        | error e => simp [hm, hf, bind, Except.bind] at h
        | ok v =>
          simp only [hm, hf, bind, Except.bind] at h
          refine Or.inr (Or.inr ⟨hk, vals, v, ?_, hf, h⟩)
          intro hv
          subst hv
          cases hl : List.takeWhile (fun t => !hasKey cfg t) rest with
          | nil => simp [hl] at ht
          | cons a as =>
            rw [hl] at hm
            simp only [List.mapM_cons, bind, Except.bind] at hm
            split at hm
            · cases hm
            · split at hm <;> cases hm
  · have hk' : hasKey cfg arg = false := by simpa using hk
    simp only [hk', Bool.not_false, if_true] at h
    exact Or.inl ⟨hk', h⟩

theorem setConfig_keys (args : List String) : ∀ (cfg out : Dict), setConfig cfg args = .ok out → keys out = keys cfg := by
  induction args with
  | nil => intro cfg out h; simp [setConfig, pure, Except.pure] at h; rw [h]
  | cons arg rest ih =>
    intro cfg out h
    rcases setConfig_cons_ok cfg arg rest out h with ⟨_, h'⟩ | ⟨_, h'⟩ | ⟨hk, vals, v, _, _, h'⟩
    · exact ih _ _ h'
    · rw [ih _ _ h', keys_toggle]
    · rw [ih _ _ h', keys_setKey_of_hasKey _ _ _ hk]

theorem setConfig_other (args : List String) (k : String) (hk : k ∉ args) :
    ∀ (cfg out : Dict), setConfig cfg args = .ok out → lookup out k = lookup cfg k := by
  induction args with
  | nil => intro cfg out h; simp [setConfig, pure, Except.pure] at h; rw [h]
  | cons arg rest ih =>
    intro cfg out h
    have hne : k ≠ arg := fun e => hk (by simp [e])
    have hr : k ∉ rest := fun e => hk (by simp [e])
    rcases setConfig_cons_ok cfg arg rest out h with ⟨_, h'⟩ | ⟨_, h'⟩ | ⟨_, vals, v, _, _, h'⟩
    · exact ih hr _ _ h'
    · rw [ih hr _ _ h', lookup_toggle_ne _ _ _ hne]
    · rw [ih hr _ _ h', lookup_setKey_ne _ _ _ _ hne]

/-- the set of types a `set` may give to a parameter of type `t`: bool stays bool, list stays list -/
def KeepsType (t : JType) (cfg out : Dict) (k : String) : Prop :=
  typeAt cfg k = some t → typeAt out k = some t

theorem setConfig_keeps_bool (args : List String) (k : String) :
    ∀ (cfg out : Dict), setConfig cfg args = .ok out → KeepsType .bool cfg out k := by
  induction args with
  | nil => intro cfg out h; simp [setConfig, pure, Except.pure] at h; rw [h]; exact id
  | cons arg rest ih =>
    intro cfg out h ht
    rcases setConfig_cons_ok cfg arg rest out h with ⟨_, h'⟩ | ⟨_, h'⟩ | ⟨_, vals, v, hne, hf, h'⟩
    · exact ih _ _ h' ht
    · exact ih _ _ h' (by rw [toggle_type]; exact ht)
    · refine ih _ _ h' ?_
      by_cases hk : k = arg
      · subst hk
        unfold typeAt at ht ⊢
        rw [lookup_setKey_self]
        cases hl : lookup cfg k with
        | none => simp [hl] at ht
        | some x =>
          cases x with
          | list l => simp [hl, JVal.type] at ht
          | atom a =>
            cases a with
            | bool b =>
              rcases finalize_bool cfg k b vals v hl hf with hv | hv
              · simp [hv]
              · exact absurd hv hne
            | _ => simp [hl, JVal.type, Atom.type] at ht
      · unfold typeAt at ht ⊢
        rw [lookup_setKey_ne _ _ _ _ hk]; exact ht

theorem setConfig_keeps_list (args : List String) (k : String) :
    ∀ (cfg out : Dict), setConfig cfg args = .ok out → KeepsType .list cfg out k := by
  induction args with
  | nil => intro cfg out h; simp [setConfig, pure, Except.pure] at h; rw [h]; exact id
  | cons arg rest ih =>
    intro cfg out h ht
    rcases setConfig_cons_ok cfg arg rest out h with ⟨_, h'⟩ | ⟨_, h'⟩ | ⟨_, vals, v, hne, hf, h'⟩
    · exact ih _ _ h' ht
    · exact ih _ _ h' (by rw [toggle_type]; exact ht)
    · refine ih _ _ h' ?_
      by_cases hk : k = arg
      · subst hk
        unfold typeAt at ht ⊢
        rw [lookup_setKey_self]
        cases hl : lookup cfg k with
        | none => simp [hl] at ht
        | some x =>
          cases x with
          | atom a => cases a <;> simp [hl, JVal.type, Atom.type] at ht
          | list l =>
            rcases finalize_list cfg k l vals v hl hf with hv | hv
            · simp [hv]
            · exact absurd hv hne
      · unfold typeAt at ht ⊢
        rw [lookup_setKey_ne _ _ _ _ hk]; exact ht

/-! ### reset -/

theorem resetSubset_lookup (defaults : Dict) (ps : List String) (k : String) :
    ∀ cfg : Dict, lookup (resetSubset defaults cfg ps) k =
      if k ∈ ps ∧ hasKey defaults k = true then lookup defaults k else lookup cfg k := by
  induction ps with
  | nil => intro cfg; simp [resetSubset]
  | cons p ps ih =>
    intro cfg
    rw [resetSubset]
    cases hd : lookup defaults p with
    | none =>
      simp only [hd]
      rw [ih]
      have hnp : hasKey defaults p = false := by simp [hasKey, hd]
      by_cases hkp : k = p
      · subst hkp; simp [hnp]
      · simp [hkp]
    | some v =>
      simp only [hd]
      rw [ih]
      by_cases hkp : k = p
      · subst hkp
        have : hasKey defaults k = true := by simp [hasKey, hd]
        simp [this, lookup_setKey_self, hd]
      · simp [hkp, lookup_setKey_ne _ _ _ _ hkp]

theorem resetSubset_keys (defaults : Dict) (ps : List String) :
    ∀ cfg : Dict, (∀ k, hasKey defaults k = true → hasKey cfg k = true) →
      keys (resetSubset defaults cfg ps) = keys cfg := by
  induction ps with
  | nil => intro cfg _; simp [resetSubset]
  | cons p ps ih =>
    intro cfg hall
    rw [resetSubset]
    cases hd : lookup defaults p with
    | none => simp only [hd]; exact ih cfg hall
    | some v =>
      simp only [hd]
      have hp : hasKey cfg p = true := hall p (by simp [hasKey, hd])
      rw [ih _ (fun k hk => by rw [hasKey_setKey]; simp [hall k hk]), keys_setKey_of_hasKey _ _ _ hp]

/-! ### merge -/

theorem foldl_soft_lookup_first (first : Dict) (second : Dict) :
    ∀ acc : Dict, (∀ k v, lookup first k = some v → lookup acc k = some v) →
      ∀ k v, lookup first k = some v →
        lookup (second.foldl (fun acc kv => if true && hasKey first kv.1 then acc else setKey acc kv.1 kv.2) acc) k = some v := by
  induction second with
  | nil => intro acc h k v hk; exact h k v hk
  | cons kv r ih =>
    intro acc h k v hk
    simp only [List.foldl_cons]
    apply ih _ _ k v hk
    intro k' v' hk'
    by_cases hf : hasKey first kv.1 = true
    · simp [hf, h k' v' hk']
    · have hne : k' ≠ kv.1 := by
        intro e; subst e; exact hf ((hasKey_iff_lookup _ _).mpr ⟨v', hk'⟩)
      simp [hf, lookup_setKey_ne _ _ _ _ hne, h k' v' hk']

theorem foldl_hasKey_mono (f : Dict → String × JVal → Dict)
    (hf : ∀ acc kv k, hasKey acc k = true → hasKey (f acc kv) k = true) (second : Dict) :
    ∀ acc k, hasKey acc k = true → hasKey (second.foldl f acc) k = true := by
  induction second with
  | nil => intro acc k h; exact h
  | cons kv r ih => intro acc k h; exact ih _ _ (hf _ _ _ h)

theorem mergeStep_mono (first : Dict) (soft : Bool) (acc : Dict) (kv : String × JVal) (k : String)
    (h : hasKey acc k = true) :
    hasKey (if soft && hasKey first kv.1 then acc else setKey acc kv.1 kv.2) k = true := by
  split
  · exact h
  · rw [hasKey_setKey]; simp [h]

/-- every key of the first dict is still a key after a merge -/
theorem merge_hasKey_first (first second : Dict) (soft : Bool) (k : String) (h : hasKey first k = true) :
    hasKey (mergeDicts first second soft) k = true :=
  foldl_hasKey_mono _ (fun acc kv k h => mergeStep_mono first soft acc kv k h) second first k h

/-- every key of the second dict is a key after a merge, provided the accumulator still has all keys of `first` -/
theorem merge_hasKey_second (first second : Dict) (soft : Bool) :
    ∀ acc : Dict, (∀ k, hasKey first k = true → hasKey acc k = true) →
      ∀ k, hasKey second k = true →
        hasKey (second.foldl (fun acc kv => if soft && hasKey first kv.1 then acc else setKey acc kv.1 kv.2) acc) k = true := by
  induction second with
  | nil => intro acc _ k h; simp [hasKey, lookup] at h
  | cons kv r ih =>
    intro acc hacc k h
    obtain ⟨k', v'⟩ := kv
    simp only [List.foldl_cons]
    have hacc' : ∀ k, hasKey first k = true →
        hasKey (if soft && hasKey first k' then acc else setKey acc k' v') k = true :=
      fun k hk => mergeStep_mono first soft acc (k', v') k (hacc k hk)
    rw [hasKey_cons] at h
    by_cases hk : k' = k
    · subst hk
      apply foldl_hasKey_mono _ (fun acc kv k h => mergeStep_mono first soft acc kv k h)
      by_cases hs : (soft && hasKey first k') = true
      · simp only [hs, if_true]
        exact hacc k' (by simp at hs; exact hs.2)
      · simp only [hs, Bool.false_eq_true, if_false]
        rw [hasKey_setKey]; simp
    · exact ih _ hacc' k (by simpa [hk] using h)

/-- a key of the result of a merge comes from one of the two dicts -/
theorem merge_hasKey_only (first second : Dict) (soft : Bool) :
    ∀ acc : Dict, ∀ k,
      hasKey (second.foldl (fun acc kv => if soft && hasKey first kv.1 then acc else setKey acc kv.1 kv.2) acc) k = true →
      hasKey acc k = true ∨ hasKey second k = true := by
  induction second with
  | nil => intro acc k h; exact Or.inl h
  | cons kv r ih =>
    intro acc k h
    obtain ⟨k', v'⟩ := kv
    simp only [List.foldl_cons] at h
    rcases ih _ k h with h1 | h1
    · by_cases hs : (soft && hasKey first k') = true
      · simp only [hs, if_true] at h1; exact Or.inl h1
      · simp only [hs, Bool.false_eq_true, if_false] at h1
        rw [hasKey_setKey] at h1
        rw [hasKey_cons]
        by_cases hk : k = k'
        · right; simp [hk]
        · left; simpa [hk] using h1
    · right; rw [hasKey_cons]; simp [h1]

/-- hard merge: a key that is not in the second dict keeps the first dict's value -/
theorem merge_hard_not_in_second (first second : Dict) (k : String) (h : hasKey second k = false) :
    lookup (mergeDicts first second false) k = lookup first k := by
  unfold mergeDicts
  simp only [Bool.false_and, Bool.false_eq_true, if_false]
  induction second generalizing first with
  | nil => rfl
  | cons kv r ih =>
    obtain ⟨k', v'⟩ := kv
    rw [hasKey_cons] at h
    have hk : k' ≠ k := by intro e; simp [e] at h
    have hr : hasKey r k = false := by simpa [hk] using h
    simp only [List.foldl_cons]
    rw [ih _ hr, lookup_setKey_ne _ _ _ _ (Ne.symm hk)]

/-- hard merge: the second dict's value wins (keys of the second dict are unique, as in a JSON file) -/
theorem merge_hard_second_wins (first second : Dict) (k : String) (v : JVal)
    (hnd : (keys second).Nodup) (h : lookup second k = some v) :
    lookup (mergeDicts first second false) k = some v := by
  unfold mergeDicts
  simp only [Bool.false_and, Bool.false_eq_true, if_false]
  induction second generalizing first with
  | nil => simp [lookup] at h
  | cons kv r ih =>
    obtain ⟨k', v'⟩ := kv
    simp only [keys, List.map_cons, List.nodup_cons] at hnd
    simp only [List.foldl_cons]
    by_cases hk : k' = k
    · subst hk
      simp only [lookup, if_true] at h
      cases h
      have hnot : hasKey r k' = false := by
        cases hh : hasKey r k' with
        | false => rfl
        | true => exact absurd ((hasKey_iff_mem_keys _ _).mp hh) hnd.1
      have := merge_hard_not_in_second (setKey first k' v) r k' hnot
      unfold mergeDicts at this
      simp only [Bool.false_and, Bool.false_eq_true, if_false] at this
      rw [this, lookup_setKey_self]
    · simp only [lookup, hk, if_false] at h
      exact ih _ hnd.2 h

/-! ### lock / update_existing_keys -/

theorem keys_updateExisting (s o : Dict) : keys (updateExisting s o) = keys s := by
  unfold updateExisting keys
  rw [List.map_map]
  apply List.map_congr_left
  intro kv _
  simp only [Function.comp]
  split <;> rfl

theorem lookup_updateExisting (s o : Dict) (k : String) :
    lookup (updateExisting s o) k =
      match lookup s k with
      | none => none
      | some v => some ((lookup o k).getD v) := by
  induction s with
  | nil => simp [updateExisting, lookup]
  | cons kv r ih =>
    obtain ⟨k', v'⟩ := kv
    unfold updateExisting at ih ⊢
    simp only [List.map_cons]
    by_cases hk : k' = k
    · subst hk
      cases ho : lookup o k' <;> simp [lookup, ho]
    · cases ho : lookup o k' <;> simp [lookup, ho, hk, ih]

end Evo.Config
