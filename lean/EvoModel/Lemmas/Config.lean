/-
C18 — lemmas about insertion-ordered dictionaries and the edit operations of `Model/Config.lean`.
No Mathlib needed.
-/
import EvoModel.Model.Config
set_option linter.unusedSimpArgs false
namespace Evo.Config

/-! ### dictionaries -/

theorem hasKey_cons (k' : String) (v : JVal) (r : Dict) (k : String) :
    hasKey ((k', v) :: r) k = (decide (k' = k) || hasKey r k) := by
  unfold hasKey
  simp only [lookup]
  by_cases h : k' = k <;> simp [h]

theorem lookup_setKey_self (d : Dict) (k : String) (v : JVal) : lookup (setKey d k v) k = some v := by
  induction d with
  | nil => simp [setKey, lookup]
  | cons kv r ih =>
    obtain ⟨k', v'⟩ := kv
    by_cases h : k' = k
    · simp [setKey, lookup, h]
    · simp [setKey, lookup, h, ih]

theorem lookup_setKey_ne (d : Dict) (k k₂ : String) (v : JVal) (hne : k₂ ≠ k) :
    lookup (setKey d k v) k₂ = lookup d k₂ := by
  induction d with
  | nil => simp [setKey, lookup, Ne.symm hne]
  | cons kv r ih =>
    obtain ⟨k', v'⟩ := kv
    by_cases h : k' = k
    · subst h
      simp [setKey, lookup, Ne.symm hne]
    · by_cases h2 : k' = k₂
      · subst h2; simp [setKey, lookup, h]
      · simp [setKey, lookup, h, h2, ih]

theorem keys_setKey_of_hasKey (d : Dict) (k : String) (v : JVal) (h : hasKey d k = true) :
    keys (setKey d k v) = keys d := by
  induction d with
  | nil => simp [hasKey, lookup] at h
  | cons kv r ih =>
    obtain ⟨k', v'⟩ := kv
    by_cases hk : k' = k
    · simp [setKey, keys, hk]
    · have : hasKey r k = true := by simpa [hasKey_cons, hk] using h
      have ih' := ih this
      simp only [keys] at ih' ⊢
      simp [setKey, hk, ih']

theorem keys_setKey_of_not_hasKey (d : Dict) (k : String) (v : JVal) (h : hasKey d k = false) :
    keys (setKey d k v) = keys d ++ [k] := by
  induction d with
  | nil => simp [setKey, keys]
  | cons kv r ih =>
    obtain ⟨k', v'⟩ := kv
    have hk : k' ≠ k := by
      intro hk; simp [hasKey_cons, hk] at h
    have : hasKey r k = false := by simpa [hasKey_cons, hk] using h
    have ih' := ih this
    simp only [keys] at ih' ⊢
    simp [setKey, hk, ih']

theorem hasKey_iff_lookup (d : Dict) (k : String) : hasKey d k = true ↔ ∃ v, lookup d k = some v := by
  unfold hasKey
  cases lookup d k <;> simp

theorem hasKey_setKey (d : Dict) (k k₂ : String) (v : JVal) :
    hasKey (setKey d k v) k₂ = (hasKey d k₂ || decide (k₂ = k)) := by
  by_cases h : k₂ = k
  · subst h; simp [hasKey, lookup_setKey_self]
  · simp [hasKey, lookup_setKey_ne _ _ _ _ h, h]

theorem hasKey_iff_mem_keys (d : Dict) (k : String) : hasKey d k = true ↔ k ∈ keys d := by
  induction d with
  | nil => simp [hasKey, lookup, keys]
  | cons kv r ih =>
    obtain ⟨k', v'⟩ := kv
    rw [hasKey_cons]
    simp only [keys, List.map_cons, List.mem_cons] at ih ⊢
    by_cases h : k' = k
    · simp [h]
    · simp [h, ih, Ne.symm h]

/-! ### toggle / finalize -/

theorem keys_toggle (cfg : Dict) (k : String) : keys (toggle cfg k) = keys cfg := by
  unfold toggle
  split
  · next b h => exact keys_setKey_of_hasKey _ _ _ ((hasKey_iff_lookup _ _).mpr ⟨_, h⟩)
  · rfl

theorem lookup_toggle_ne (cfg : Dict) (k k₂ : String) (h : k₂ ≠ k) : lookup (toggle cfg k) k₂ = lookup cfg k₂ := by
  unfold toggle
  split
  · exact lookup_setKey_ne _ _ _ _ h
  · rfl

/-- the type of a stored value -/
def typeAt (cfg : Dict) (k : String) : Option JType := (lookup cfg k).map JVal.type

theorem toggle_type (cfg : Dict) (k k₂ : String) : typeAt (toggle cfg k) k₂ = typeAt cfg k₂ := by
  unfold toggle typeAt
  split
  · next b h =>
    by_cases hk : k₂ = k
    · subst hk; simp [lookup_setKey_self, h, JVal.type, Atom.type]
    · rw [lookup_setKey_ne _ _ _ _ hk]
  · rfl

theorem finalize_bool (cfg : Dict) (k : String) (b : Bool) (vals : List Atom) (v : JVal)
    (hb : lookup cfg k = some (.atom (.bool b))) (h : finalizeValues cfg k vals = .ok v) :
    v.type = .bool ∨ vals = [] := by
  unfold finalizeValues at h
  split at h
  · cases h
  · cases vals with
    | nil => exact Or.inr rfl
    | cons v0 vs =>
      left
      simp only [hb] at h
      split at h
      · split at h
        · cases h; rfl
        · split at h <;> cases h <;> rfl
      · cases h; rfl

theorem finalize_list (cfg : Dict) (k : String) (l : List Atom) (vals : List Atom) (v : JVal)
    (hb : lookup cfg k = some (.list l)) (h : finalizeValues cfg k vals = .ok v) :
    v.type = .list ∨ vals = [] := by
  unfold finalizeValues at h
  split at h
  · cases h
  · cases vals with
    | nil => exact Or.inr rfl
    | cons v0 vs =>
      left
      simp only [hb] at h
      split at h
      · split at h <;> cases h <;> rfl
      · cases h; rfl

/-! ### set_config, step by step -/

/-- one unfolding of `setConfig` on a key argument -/
theorem setConfig_cons_ok (cfg : Dict) (arg : String) (rest : List String) (out : Dict)
    (h : setConfig cfg (arg :: rest) = .ok out) :
    (hasKey cfg arg = false ∧ setConfig cfg rest = .ok out) ∨
    (hasKey cfg arg = true ∧ setConfig (toggle cfg arg) rest = .ok out) ∨
    (hasKey cfg arg = true ∧ ∃ vals v, vals ≠ [] ∧ finalizeValues cfg arg vals = .ok v ∧
      setConfig (setKey cfg arg v) rest = .ok out) := by
  rw [setConfig] at h
  by_cases hk : hasKey cfg arg = true
  · simp only [hk, Bool.not_true, Bool.false_eq_true, if_false] at h
    by_cases ht : (List.takeWhile (fun t => !hasKey cfg t) rest).isEmpty = true
    · simp only [ht, if_true] at h
      exact Or.inr (Or.inl ⟨hk, h⟩)
    · simp only [ht, Bool.false_eq_true, if_false] at h
      cases hm : List.mapM convSet (List.takeWhile (fun t => !hasKey cfg t) rest) with
      | error e => simp [hm, bind, Except.bind] at h
      | ok vals =>
        cases hf : finalizeValues cfg arg vals with
        | error e => simp [hm, hf, bind, Except.bind] at h
        | ok v =>
          simp only [hm, hf, bind, Except.bind] at h
          refine Or.inr (Or.inr ⟨hk, vals, v, ?_, hf, h⟩)
          intro hv
          subst hv
          cases hl : List.takeWhile (fun t => !hasKey cfg t) rest with
          | nil => simp [hl] at ht
          | cons a as =>
            rw [hl] at hm
            simp only [List.mapM_cons, bind, Except.bind] at hm
            split at hm
            · cases hm
            · split at hm <;> cases hm
  · have hk' : hasKey cfg arg = false := by simpa using hk
    simp only [hk', Bool.not_false, if_true] at h
    exact Or.inl ⟨hk', h⟩

theorem setConfig_keys (args : List String) : ∀ (cfg out : Dict), setConfig cfg args = .ok out → keys out = keys cfg := by
  induction args with
  | nil => intro cfg out h; simp [setConfig, pure, Except.pure] at h; rw [h]
  | cons arg rest ih =>
    intro cfg out h
    rcases setConfig_cons_ok cfg arg rest out h with ⟨_, h'⟩ | ⟨_, h'⟩ | ⟨hk, vals, v, _, _, h'⟩
    · exact ih _ _ h'
    · rw [ih _ _ h', keys_toggle]
    · rw [ih _ _ h', keys_setKey_of_hasKey _ _ _ hk]

theorem setConfig_other (args : List String) (k : String) (hk : k ∉ args) :
    ∀ (cfg out : Dict), setConfig cfg args = .ok out → lookup out k = lookup cfg k := by
  induction args with
  | nil => intro cfg out h; simp [setConfig, pure, Except.pure] at h; rw [h]
  | cons arg rest ih =>
    intro cfg out h
    have hne : k ≠ arg := fun e => hk (by simp [e])
    have hr : k ∉ rest := fun e => hk (by simp [e])
    rcases setConfig_cons_ok cfg arg rest out h with ⟨_, h'⟩ | ⟨_, h'⟩ | ⟨_, vals, v, _, _, h'⟩
    · exact ih hr _ _ h'
    · rw [ih hr _ _ h', lookup_toggle_ne _ _ _ hne]
    · rw [ih hr _ _ h', lookup_setKey_ne _ _ _ _ hne]

/-- the set of types a `set` may give to a parameter of type `t`: bool stays bool, list stays list -/
def KeepsType (t : JType) (cfg out : Dict) (k : String) : Prop :=
  typeAt cfg k = some t → typeAt out k = some t

theorem setConfig_keeps_bool (args : List String) (k : String) :
    ∀ (cfg out : Dict), setConfig cfg args = .ok out → KeepsType .bool cfg out k := by
  induction args with
  | nil => intro cfg out h; simp [setConfig, pure, Except.pure] at h; rw [h]; exact id
  | cons arg rest ih =>
    intro cfg out h ht
    rcases setConfig_cons_ok cfg arg rest out h with ⟨_, h'⟩ | ⟨_, h'⟩ | ⟨_, vals, v, hne, hf, h'⟩
    · exact ih _ _ h' ht
    · exact ih _ _ h' (by rw [toggle_type]; exact ht)
    · refine ih _ _ h' ?_
      by_cases hk : k = arg
      · subst hk
        unfold typeAt at ht ⊢
        rw [lookup_setKey_self]
        cases hl : lookup cfg k with
        | none => simp [hl] at ht
        | some x =>
          cases x with
          | list l => simp [hl, JVal.type] at ht
          | atom a =>
            cases a with
            | bool b =>
              rcases finalize_bool cfg k b vals v hl hf with hv | hv
              · simp [hv]
              · exact absurd hv hne
            | _ => simp [hl, JVal.type, Atom.type] at ht
      · unfold typeAt at ht ⊢
        rw [lookup_setKey_ne _ _ _ _ hk]; exact ht

theorem setConfig_keeps_list (args : List String) (k : String) :
    ∀ (cfg out : Dict), setConfig cfg args = .ok out → KeepsType .list cfg out k := by
  induction args with
  | nil => intro cfg out h; simp [setConfig, pure, Except.pure] at h; rw [h]; exact id
  | cons arg rest ih =>
    intro cfg out h ht
    rcases setConfig_cons_ok cfg arg rest out h with ⟨_, h'⟩ | ⟨_, h'⟩ | ⟨_, vals, v, hne, hf, h'⟩
    · exact ih _ _ h' ht
    · exact ih _ _ h' (by rw [toggle_type]; exact ht)
    · refine ih _ _ h' ?_
      by_cases hk : k = arg
      · subst hk
        unfold typeAt at ht ⊢
        rw [lookup_setKey_self]
        cases hl : lookup cfg k with
        | none => simp [hl] at ht
        | some x =>
          cases x with
          | atom a => cases a <;> simp [hl, JVal.type, Atom.type] at ht
          | list l =>
            rcases finalize_list cfg k l vals v hl hf with hv | hv
            · simp [hv]
            · exact absurd hv hne
      · unfold typeAt at ht ⊢
        rw [lookup_setKey_ne _ _ _ _ hk]; exact ht

/-! ### reset -/

theorem resetSubset_lookup (defaults : Dict) (ps : List String) (k : String) :
    ∀ cfg : Dict, lookup (resetSubset defaults cfg ps) k =
      if k ∈ ps ∧ hasKey defaults k = true then lookup defaults k else lookup cfg k := by
  induction ps with
  | nil => intro cfg; simp [resetSubset]
  | cons p ps ih =>
    intro cfg
    rw [resetSubset]
    cases hd : lookup defaults p with
    | none =>
      simp only [hd]
      rw [ih]
      have hnp : hasKey defaults p = false := by simp [hasKey, hd]
      by_cases hkp : k = p
      · subst hkp; simp [hnp]
      · simp [hkp]
    | some v =>
      simp only [hd]
      rw [ih]
      by_cases hkp : k = p
      · subst hkp
        have : hasKey defaults k = true := by simp [hasKey, hd]
        simp [this, lookup_setKey_self, hd]
      · simp [hkp, lookup_setKey_ne _ _ _ _ hkp]

theorem resetSubset_keys (defaults : Dict) (ps : List String) :
    ∀ cfg : Dict, (∀ k, hasKey defaults k = true → hasKey cfg k = true) →
      keys (resetSubset defaults cfg ps) = keys cfg := by
  induction ps with
  | nil => intro cfg _; simp [resetSubset]
  | cons p ps ih =>
    intro cfg hall
    rw [resetSubset]
    cases hd : lookup defaults p with
    | none => simp only [hd]; exact ih cfg hall
    | some v =>
      simp only [hd]
      have hp : hasKey cfg p = true := hall p (by simp [hasKey, hd])
      rw [ih _ (fun k hk => by rw [hasKey_setKey]; simp [hall k hk]), keys_setKey_of_hasKey _ _ _ hp]

/-! ### merge -/

theorem foldl_soft_lookup_first (first : Dict) (second : Dict) :
    ∀ acc : Dict, (∀ k v, lookup first k = some v → lookup acc k = some v) →
      ∀ k v, lookup first k = some v →
        lookup (second.foldl (fun acc kv => if true && hasKey first kv.1 then acc else setKey acc kv.1 kv.2) acc) k = some v := by
  induction second with
  | nil => intro acc h k v hk; exact h k v hk
  | cons kv r ih =>
    intro acc h k v hk
    simp only [List.foldl_cons]
    apply ih _ _ k v hk
    intro k' v' hk'
    by_cases hf : hasKey first kv.1 = true
    · simp [hf, h k' v' hk']
    · have hne : k' ≠ kv.1 := by
        intro e; subst e; exact hf ((hasKey_iff_lookup _ _).mpr ⟨v', hk'⟩)
      simp [hf, lookup_setKey_ne _ _ _ _ hne, h k' v' hk']

theorem foldl_hasKey_mono (f : Dict → String × JVal → Dict)
    (hf : ∀ acc kv k, hasKey acc k = true → hasKey (f acc kv) k = true) (second : Dict) :
    ∀ acc k, hasKey acc k = true → hasKey (second.foldl f acc) k = true := by
  induction second with
  | nil => intro acc k h; exact h
  | cons kv r ih => intro acc k h; exact ih _ _ (hf _ _ _ h)

theorem mergeStep_mono (first : Dict) (soft : Bool) (acc : Dict) (kv : String × JVal) (k : String)
    (h : hasKey acc k = true) :
    hasKey (if soft && hasKey first kv.1 then acc else setKey acc kv.1 kv.2) k = true := by
  split
  · exact h
  · rw [hasKey_setKey]; simp [h]

/-- every key of the first dict is still a key after a merge -/
theorem merge_hasKey_first (first second : Dict) (soft : Bool) (k : String) (h : hasKey first k = true) :
    hasKey (mergeDicts first second soft) k = true :=
  foldl_hasKey_mono _ (fun acc kv k h => mergeStep_mono first soft acc kv k h) second first k h

/-- every key of the second dict is a key after a merge, provided the accumulator still has all keys of `first` -/
theorem merge_hasKey_second (first second : Dict) (soft : Bool) :
    ∀ acc : Dict, (∀ k, hasKey first k = true → hasKey acc k = true) →
      ∀ k, hasKey second k = true →
        hasKey (second.foldl (fun acc kv => if soft && hasKey first kv.1 then acc else setKey acc kv.1 kv.2) acc) k = true := by
  induction second with
  | nil => intro acc _ k h; simp [hasKey, lookup] at h
  | cons kv r ih =>
    intro acc hacc k h
    obtain ⟨k', v'⟩ := kv
    simp only [List.foldl_cons]
    have hacc' : ∀ k, hasKey first k = true →
        hasKey (if soft && hasKey first k' then acc else setKey acc k' v') k = true :=
      fun k hk => mergeStep_mono first soft acc (k', v') k (hacc k hk)
    rw [hasKey_cons] at h
    by_cases hk : k' = k
    · subst hk
      apply foldl_hasKey_mono _ (fun acc kv k h => mergeStep_mono first soft acc kv k h)
      by_cases hs : (soft && hasKey first k') = true
      · simp only [hs, if_true]
        exact hacc k' (by simp at hs; exact hs.2)
      · simp only [hs, Bool.false_eq_true, if_false]
        rw [hasKey_setKey]; simp
    · exact ih _ hacc' k (by simpa [hk] using h)

/-- a key of the result of a merge comes from one of the two dicts -/
theorem merge_hasKey_only (first second : Dict) (soft : Bool) :
    ∀ acc : Dict, ∀ k,
      hasKey (second.foldl (fun acc kv => if soft && hasKey first kv.1 then acc else setKey acc kv.1 kv.2) acc) k = true →
      hasKey acc k = true ∨ hasKey second k = true := by
  induction second with
  | nil => intro acc k h; exact Or.inl h
  | cons kv r ih =>
    intro acc k h
    obtain ⟨k', v'⟩ := kv
    simp only [List.foldl_cons] at h
    rcases ih _ k h with h1 | h1
    · by_cases hs : (soft && hasKey first k') = true
      · simp only [hs, if_true] at h1; exact Or.inl h1
      · simp only [hs, Bool.false_eq_true, if_false] at h1
        rw [hasKey_setKey] at h1
        rw [hasKey_cons]
        by_cases hk : k = k'
        · right; simp [hk]
        · left; simpa [hk] using h1
    · right; rw [hasKey_cons]; simp [h1]

/-- hard merge: a key that is not in the second dict keeps the first dict's value -/
theorem merge_hard_not_in_second (first second : Dict) (k : String) (h : hasKey second k = false) :
    lookup (mergeDicts first second false) k = lookup first k := by
  unfold mergeDicts
  simp only [Bool.false_and, Bool.false_eq_true, if_false]
  induction second generalizing first with
  | nil => rfl
  | cons kv r ih =>
    obtain ⟨k', v'⟩ := kv
    rw [hasKey_cons] at h
    have hk : k' ≠ k := by intro e; simp [e] at h
    have hr : hasKey r k = false := by simpa [hk] using h
    simp only [List.foldl_cons]
    rw [ih _ hr, lookup_setKey_ne _ _ _ _ (Ne.symm hk)]

/-- hard merge: the second dict's value wins (keys of the second dict are unique, as in a JSON file) -/
theorem merge_hard_second_wins (first second : Dict) (k : String) (v : JVal)
    (hnd : (keys second).Nodup) (h : lookup second k = some v) :
    lookup (mergeDicts first second false) k = some v := by
  unfold mergeDicts
  simp only [Bool.false_and, Bool.false_eq_true, if_false]
  induction second generalizing first with
  | nil => simp [lookup] at h
  | cons kv r ih =>
    obtain ⟨k', v'⟩ := kv
    simp only [keys, List.map_cons, List.nodup_cons] at hnd
    simp only [List.foldl_cons]
    by_cases hk : k' = k
    · subst hk
      simp only [lookup, if_true] at h
      cases h
      have hnot : hasKey r k' = false := by
        cases hh : hasKey r k' with
        | false => rfl
        | true => exact absurd ((hasKey_iff_mem_keys _ _).mp hh) hnd.1
      have := merge_hard_not_in_second (setKey first k' v) r k' hnot
      unfold mergeDicts at this
      simp only [Bool.false_and, Bool.false_eq_true, if_false] at this
      rw [this, lookup_setKey_self]
    · simp only [lookup, hk, if_false] at h
      exact ih _ hnd.2 h

/-! ### lock / update_existing_keys -/

theorem keys_updateExisting (s o : Dict) : keys (updateExisting s o) = keys s := by
  unfold updateExisting keys
  rw [List.map_map]
  apply List.map_congr_left
  intro kv _
  simp only [Function.comp]
  split <;> rfl

theorem lookup_updateExisting (s o : Dict) (k : String) :
    lookup (updateExisting s o) k =
      match lookup s k with
      | none => none
      | some v => some ((lookup o k).getD v) := by
  induction s with
  | nil => simp [updateExisting, lookup]
  | cons kv r ih =>
    obtain ⟨k', v'⟩ := kv
    unfold updateExisting at ih ⊢
    simp only [List.map_cons]
    by_cases hk : k' = k
    · subst hk
      cases ho : lookup o k' <;> simp [lookup, ho]
    · cases ho : lookup o k' <;> simp [lookup, ho, hk, ih]

/-! ### generate ≡ args: typed option groups -/

/-- an option of the table with its value tokens -/
structure TGroup where
  opt : Opt
  vals : List String

def TGroup.tok (g : TGroup) : String := "--" ++ g.opt.name
def TGroup.render (g : TGroup) : List String := g.tok :: g.vals

/-- the option token `--name` is read as this option by `generate` and by argparse
(a closed fact about each table entry; `decide` over the regenerated tables) -/
def tokOk (T : List Opt) (o : Opt) : Bool :=
  let tok := "--" ++ o.name
  isOptionTok tok && optionLike tok && tok.startsWith "--" && decide ((tok.drop 2).toString = o.name)
    && decide (stripDashes tok = o.name) && decide (T.find? (fun p => p.name = o.name) = some o)

/-- the modelled value token classes, per option type:
* never option-like for either reader (does not start with `-`, or is a negative number `-d+`, `-d*.d+`);
* int option: an integer token `[+-]?d+`;
* float option: a number token of the decimal grammar whose binary64 value exists; an integer token must be
  exactly representable (else `generate` keeps the exact integer and argparse rounds it);
* string option: not a number token (a numeric-looking string would become a number in the config), and one
  of the choices if the option has choices. -/
def valOk (o : Opt) (v : String) : Bool :=
  !isOptionTok v && !optionLike v &&
  (o.choices.isEmpty || (decide (o.kind = .str) && o.choices.contains v)) &&
  match o.kind with
  | .flag => false
  | .int => isNumber v && (parseInt v).isSome
  | .float => isNumber v &&
      (match parseInt v, toFloat v with
       | some i, .ok x => decide (x = (i : Rat))
       | none, .ok _ => true
       | _, _ => false)
  | .str => !isNumber v

def arityOk (o : Opt) (vals : List String) : Bool :=
  match o.kind, o.nargs with
  | .flag, _ => vals.isEmpty
  | _, none => decide (vals.length = 1)
  | _, some n => decide (2 ≤ n) && decide (vals.length = n)

/-- **well-formed group**: option of the table, arity respected, values in the modelled classes -/
def wfGroup (T : List Opt) (g : TGroup) : Bool :=
  tokOk T g.opt && arityOk g.opt g.vals && g.vals.all (valOk g.opt)

/-- no two members of a mutually exclusive group are given (argparse's own check) -/
def exclFree (excl : List (List String)) (toks : List String) : Bool :=
  !(excl.any (fun g => decide ((g.filter (fun n =>
      ((toks.filter (fun t => t.startsWith "--")).map (fun t => (t.drop 2).toString)).contains n)).length ≥ 2)))

def genAtom (v : String) : Atom := match convGen v with | .ok a => a | .error _ => .null
def argAtom (k : OptKind) (v : String) : Atom := (convArg k v).getD .null

/-- what `generate` stores for a group / what argparse stores -/
def genValue (g : TGroup) : JVal :=
  if g.vals.isEmpty then .atom (.bool true) else scalarOrList (g.vals.map genAtom)
def argValue (g : TGroup) : JVal :=
  match g.opt.kind, g.opt.nargs with
  | .flag, _ => .atom (.bool true)
  | k, none => .atom (argAtom k (g.vals.headD ""))
  | k, some _ => .list (g.vals.map (argAtom k))

theorem atomApprox_refl (a : Atom) : atomApprox a a = true := by
  cases a <;> simp [atomApprox]

/-- per-type value agreement (`generate_value_int/float` + argparse's `type=`) -/
theorem value_agreement (o : Opt) (v : String) (h : valOk o v = true) :
    convGen v = .ok (genAtom v) ∧ convArg o.kind v = some (argAtom o.kind v) ∧
    atomApprox (genAtom v) (argAtom o.kind v) = true := by
  unfold valOk at h
  simp only [Bool.and_eq_true] at h
  obtain ⟨_, hk⟩ := h
  cases hkind : o.kind with
  | flag => simp [hkind] at hk
  | int =>
    simp only [hkind, Bool.and_eq_true] at hk
    obtain ⟨hn, hi⟩ := hk
    obtain ⟨i, hi⟩ := Option.isSome_iff_exists.mp hi
    simp [genAtom, argAtom, convGen, convArg, hn, hi, pure, Except.pure, atomApprox]
  | float =>
    simp only [hkind, Bool.and_eq_true] at hk
    obtain ⟨hn, hv⟩ := hk
    cases hi : parseInt v with
    | none =>
      cases hx : toFloat v with
      | error e => simp [hi, hx] at hv
      | ok x => simp [genAtom, argAtom, convGen, convArg, hn, hi, hx, pure, Except.pure, bind, Except.bind, atomApprox]
    | some i =>
      cases hx : toFloat v with
      | error e => simp [hi, hx] at hv
      | ok x =>
        have hxi : x = (i : Rat) := by simpa [hi, hx] using hv
        simp [genAtom, argAtom, convGen, convArg, hn, hi, hx, pure, Except.pure, atomApprox, hxi]
  | str =>
    simp only [hkind] at hk
    have hn : isNumber v = false := by simpa using hk
    simp [genAtom, argAtom, convGen, convArg, hn, pure, Except.pure, atomApprox]

theorem mapM_convGen (o : Opt) (vals : List String) (h : ∀ v ∈ vals, valOk o v = true) :
    vals.mapM convGen = .ok (vals.map genAtom) := by
  induction vals with
  | nil => rfl
  | cons v vs ih =>
    have h1 := (value_agreement o v (h v (by simp))).1
    have h2 := ih (fun w hw => h w (by simp [hw]))
    simp [List.mapM_cons, h1, h2, bind, Except.bind, pure, Except.pure]

theorem mapM_convArg (o : Opt) (vals : List String) (h : ∀ v ∈ vals, valOk o v = true) :
    vals.mapM (convArg o.kind) = some (vals.map (argAtom o.kind)) := by
  induction vals with
  | nil => rfl
  | cons v vs ih =>
    have h1 := (value_agreement o v (h v (by simp))).2.1
    have h2 := ih (fun w hw => h w (by simp [hw]))
    simp [List.mapM_cons, h1, h2]

theorem zip_all_approx (o : Opt) (vals : List String) (h : ∀ v ∈ vals, valOk o v = true) :
    ((vals.map genAtom).zip (vals.map (argAtom o.kind))).all (fun p => atomApprox p.1 p.2) = true := by
  induction vals with
  | nil => rfl
  | cons v vs ih =>
    have h1 := (value_agreement o v (h v (by simp))).2.2
    have h2 := ih (fun w hw => h w (by simp [hw]))
    simp only [List.map_cons, List.zip_cons_cons, List.all_cons, h1, h2, Bool.and_self]

theorem wfGroup_parts {T : List Opt} {g : TGroup} (h : wfGroup T g = true) :
    tokOk T g.opt = true ∧ arityOk g.opt g.vals = true ∧ ∀ v ∈ g.vals, valOk g.opt v = true := by
  unfold wfGroup at h
  simp only [Bool.and_eq_true, List.all_eq_true] at h
  exact ⟨h.1.1, h.1.2, h.2⟩

theorem tokOk_parts {T : List Opt} {o : Opt} (h : tokOk T o = true) :
    isOptionTok ("--" ++ o.name) = true ∧ optionLike ("--" ++ o.name) = true ∧
    ("--" ++ o.name).startsWith "--" = true ∧ (("--" ++ o.name).drop 2).toString = o.name ∧
    stripDashes ("--" ++ o.name) = o.name ∧ T.find? (fun p => p.name = o.name) = some o := by
  unfold tokOk at h
  simp only [Bool.and_eq_true, decide_eq_true_eq] at h
  exact ⟨h.1.1.1.1.1, h.1.1.1.1.2, h.1.1.1.2, h.1.1.2, h.1.2, h.2⟩

theorem valOk_not_option {o : Opt} {v : String} (h : valOk o v = true) :
    isOptionTok v = false ∧ optionLike v = false := by
  unfold valOk at h
  simp only [Bool.and_eq_true, Bool.not_eq_true'] at h
  exact ⟨h.1.1.1, h.1.1.2⟩

theorem valOk_choices {o : Opt} {v : String} (h : valOk o v = true) :
    (o.choices.isEmpty || o.choices.contains v) = true := by
  unfold valOk at h
  simp only [Bool.and_eq_true, Bool.or_eq_true] at h
  rcases h.1.2 with h' | h'
  · simp [h']
  · have := h'.2
    simp only [List.contains_eq_mem, decide_eq_true_eq] at this
    simp [this]

theorem takeWhile_app (p : String → Bool) (vals rest : List String) (hv : ∀ v ∈ vals, p v = true)
    (hr : rest = [] ∨ ∃ a r, rest = a :: r ∧ p a = false) : (vals ++ rest).takeWhile p = vals := by
  induction vals with
  | nil =>
    rcases hr with h | ⟨a, r, h, ha⟩
    · simp [h]
    · simp [h, List.takeWhile, ha]
  | cons v vs ih =>
    have := hv v (by simp)
    simp [List.takeWhile, this, ih (fun w hw => hv w (by simp [hw]))]

theorem dropWhile_app (p : String → Bool) (vals rest : List String) (hv : ∀ v ∈ vals, p v = true)
    (hr : rest = [] ∨ ∃ a r, rest = a :: r ∧ p a = false) : (vals ++ rest).dropWhile p = rest := by
  induction vals with
  | nil =>
    rcases hr with h | ⟨a, r, h, ha⟩
    · simp [h]
    · simp [h, List.dropWhile, ha]
  | cons v vs ih =>
    have := hv v (by simp)
    simp [List.dropWhile, this, ih (fun w hw => hv w (by simp [hw]))]

theorem render_head (T : List Opt) (gs : List TGroup) (hwf : ∀ g ∈ gs, wfGroup T g = true) (p : String → Bool)
    (hp : ∀ g ∈ gs, p g.tok = false) :
    gs.flatMap TGroup.render = [] ∨ ∃ a r, gs.flatMap TGroup.render = a :: r ∧ p a = false := by
  cases gs with
  | nil => left; rfl
  | cons g gs =>
    right
    exact ⟨g.tok, g.vals ++ gs.flatMap TGroup.render, by simp [TGroup.render], hp g (by simp)⟩

/-- the values agree group by group -/
theorem group_value_approx {T : List Opt} {g : TGroup} (h : wfGroup T g = true) :
    valApprox (genValue g) (argValue g) = true := by
  obtain ⟨_, har, hv⟩ := wfGroup_parts h
  unfold arityOk at har
  unfold genValue argValue
  cases hk : g.opt.kind with
  | flag =>
    simp only [hk] at har
    simp [har, valApprox, atomApprox]
  | int | float | str =>
    all_goals
      simp only [hk] at har
      cases hn : g.opt.nargs with
      | none =>
        simp only [hn, decide_eq_true_eq] at har
        match hvals : g.vals, har with
        | [v], _ =>
          have := (value_agreement g.opt v (hv v (by simp [hvals]))).2.2
          rw [hk] at this
          simp [scalarOrList, valApprox, this]
      | some n =>
        simp only [hn, Bool.and_eq_true, decide_eq_true_eq] at har
        have hne : g.vals.isEmpty = false := by
          cases hvals : g.vals with
          | nil => rw [hvals] at har; simp at har; omega
          | cons a as => rfl
        have hz := zip_all_approx g.opt g.vals hv
        rw [hk] at hz
        have hl : scalarOrList (g.vals.map genAtom) = .list (g.vals.map genAtom) := by
          match hvals : g.vals with
          | [] => rw [hvals] at har; simp at har; omega
          | [a] => rw [hvals] at har; simp at har; omega
          | a :: b :: r => simp [scalarOrList]
        simp [hne, hl, valApprox, hz]

/-- the dictionary after storing one entry per group, with the given value function -/
def foldGroups (val : TGroup → JVal) : List TGroup → Dict → Dict
  | [], d => d
  | g :: gs, d => foldGroups val gs (setKey d g.opt.name (val g))

/-- **group decomposition of argparse**: one well-formed group is consumed in one step -/
theorem argparseGo_group (T : List Opt) (g : TGroup) (gs : List TGroup) (hg : wfGroup T g = true)
    (hgs : ∀ g' ∈ gs, wfGroup T g' = true) (fuel : Nat) (d : Dict) :
    argparseGo T (fuel + 1) (g.render ++ gs.flatMap TGroup.render) d
      = argparseGo T fuel (gs.flatMap TGroup.render) (setKey d g.opt.name (argValue g)) := by
  obtain ⟨htok, har, hv⟩ := wfGroup_parts hg
  obtain ⟨_, _, hsw, hdrop, _, hfind⟩ := tokOk_parts htok
  have hrest := render_head T gs hgs (fun t => !optionLike t)
    (fun g' hg' => by
      have := (tokOk_parts (wfGroup_parts (hgs g' hg')).1).2.1
      simp [TGroup.tok, this])
  have hvp : ∀ v ∈ g.vals, (fun t => !optionLike t) v = true := fun v hv' => by simp [(valOk_not_option (hv v hv')).2]
  have htw := takeWhile_app _ g.vals _ hvp hrest
  have hdw := dropWhile_app _ g.vals _ hvp hrest
  simp only [TGroup.render, TGroup.tok, List.cons_append, argparseGo, hsw, Bool.not_true, Bool.false_eq_true,
    if_false, hdrop, hfind, htw, hdw]
  unfold arityOk at har
  unfold argValue
  cases hk : g.opt.kind with
  | flag =>
    simp only [hk] at har
    simp [har]
  | int | float | str =>
    all_goals
      simp only [hk] at har
      cases hn : g.opt.nargs with
      | none =>
        simp only [hn, decide_eq_true_eq] at har
        match hvals : g.vals, har with
        | [v], _ =>
          have hv1 := hv v (by simp [hvals])
          have hc := valOk_choices hv1
          have ha := (value_agreement g.opt v hv1).2.1
          rw [hk] at ha
          have hc' : g.opt.choices = [] ∨ v ∈ g.opt.choices := by simpa using hc
          simp [ha]
          intro h1 h2
          rcases hc' with h | h
          · exact absurd h h1
          · exact absurd h h2
      | some n =>
        simp only [hn, Bool.and_eq_true, decide_eq_true_eq] at har
        have hm := mapM_convArg g.opt g.vals hv
        rw [hk] at hm
        simp [har.2, hm]

theorem argparseGo_groups (T : List Opt) (gs : List TGroup) (hgs : ∀ g ∈ gs, wfGroup T g = true) :
    ∀ (fuel : Nat) (d : Dict), gs.length ≤ fuel →
      argparseGo T fuel (gs.flatMap TGroup.render) d = some (foldGroups argValue gs d) := by
  induction gs with
  | nil => intro fuel d _; cases fuel <;> simp [argparseGo, foldGroups]
  | cons g gs ih =>
    intro fuel d hf
    cases fuel with
    | zero => simp at hf
    | succ fuel =>
      rw [List.flatMap_cons, argparseGo_group T g gs (hgs g (by simp)) (fun g' hg' => hgs g' (by simp [hg'])) fuel d]
      exact ih (fun g' hg' => hgs g' (by simp [hg'])) fuel _ (by simpa using hf)

theorem flatMap_render_length (gs : List TGroup) : gs.length ≤ (gs.flatMap TGroup.render).length := by
  induction gs with
  | nil => simp
  | cons g gs ih =>
    rw [List.flatMap_cons, List.length_append]
    simp only [TGroup.render, List.length_cons]
    omega

/-- **argparse half**: a well-formed list is accepted and stores one entry per group -/
theorem argparseLong_groups (T : List Opt) (excl : List (List String)) (gs : List TGroup)
    (hgs : ∀ g ∈ gs, wfGroup T g = true) (hex : exclFree excl (gs.flatMap TGroup.render) = true) (d : Dict) :
    argparseLong T (gs.flatMap TGroup.render) d excl = some (foldGroups argValue gs d) := by
  unfold argparseLong
  unfold exclFree at hex
  simp only [Bool.not_eq_true'] at hex
  simp only [hex, Bool.false_eq_true, if_false]
  exact argparseGo_groups T gs hgs _ d (flatMap_render_length gs)

theorem genSkipVals (isOpt : String → Bool) (conv : String → Except Err Atom) (vals rest : List String) (d : Dict)
    (hv : ∀ v ∈ vals, isOpt v = false) :
    generateWith isOpt conv (vals ++ rest) d = generateWith isOpt conv rest d := by
  induction vals with
  | nil => rfl
  | cons v vs ih =>
    have := hv v (by simp)
    simp only [List.cons_append, generateWith, this, Bool.false_eq_true, if_false]
    exact ih (fun w hw => hv w (by simp [hw]))

/-- **generate half** on typed groups: one entry per group, stored under the option's name -/
theorem generateWith_groups (T : List Opt) (gs : List TGroup) (hgs : ∀ g ∈ gs, wfGroup T g = true) (d : Dict) :
    generateWith isOptionTok convGen (gs.flatMap TGroup.render) d = .ok (foldGroups genValue gs d) := by
  induction gs generalizing d with
  | nil => rfl
  | cons g gs ih =>
    have hg := hgs g (by simp)
    have hgs' : ∀ g' ∈ gs, wfGroup T g' = true := fun g' hg' => hgs g' (by simp [hg'])
    obtain ⟨htok, har, hv⟩ := wfGroup_parts hg
    obtain ⟨hopt, _, _, _, hstrip, _⟩ := tokOk_parts htok
    have hrest := render_head T gs hgs' (fun t => !isOptionTok t)
      (fun g' hg' => by
        have := (tokOk_parts (wfGroup_parts (hgs' g' hg')).1).1
        simp [TGroup.tok, this])
    have hvo : ∀ v ∈ g.vals, isOptionTok v = false := fun v hv' => (valOk_not_option (hv v hv')).1
    have htw := takeWhile_app (fun t => !isOptionTok t) g.vals _ (fun v hv' => by simp [hvo v hv']) hrest
    simp only [List.flatMap_cons, TGroup.render, TGroup.tok, List.cons_append, generateWith, hopt, if_true, htw,
      hstrip, foldGroups, genValue]
    by_cases he : g.vals.isEmpty = true
    · simp only [he, if_true]
      rw [genSkipVals _ _ _ _ _ hvo]
      exact ih hgs' _
    · simp only [he, Bool.false_eq_true, if_false, mapM_convGen g.opt g.vals hv, bind, Except.bind]
      rw [genSkipVals _ _ _ _ _ hvo]
      exact ih hgs' _

/-! ### comparing the two resulting dictionaries -/

/-- the value stored last for `k` by a list of groups -/
def lastVal (val : TGroup → JVal) : List TGroup → String → Option JVal
  | [], _ => none
  | g :: gs, k => match lastVal val gs k with
    | some v => some v
    | none => if g.opt.name = k then some (val g) else none

theorem lookup_foldGroups (val : TGroup → JVal) (gs : List TGroup) (k : String) :
    ∀ d : Dict, lookup (foldGroups val gs d) k = match lastVal val gs k with
      | some v => some v
      | none => lookup d k := by
  induction gs with
  | nil => intro d; rfl
  | cons g gs ih =>
    intro d
    simp only [foldGroups, lastVal]
    rw [ih]
    cases hl : lastVal val gs k with
    | some v => rfl
    | none =>
      by_cases hk : g.opt.name = k
      · subst hk; simp [lookup_setKey_self]
      · simp [hk, lookup_setKey_ne _ _ _ _ (Ne.symm hk)]

theorem keys_nodup_setKey (d : Dict) (k : String) (v : JVal) (h : (keys d).Nodup) : (keys (setKey d k v)).Nodup := by
  by_cases hk : hasKey d k = true
  · rw [keys_setKey_of_hasKey _ _ _ hk]; exact h
  · have hk' : hasKey d k = false := by simpa using hk
    rw [keys_setKey_of_not_hasKey _ _ _ hk', List.nodup_append]
    refine ⟨h, by simp, ?_⟩
    intro a ha b hb
    simp only [List.mem_singleton] at hb
    subst hb
    intro e; subst e
    exact hk ((hasKey_iff_mem_keys _ _).mpr ha)

theorem keys_nodup_foldGroups (val : TGroup → JVal) (gs : List TGroup) :
    ∀ d : Dict, (keys d).Nodup → (keys (foldGroups val gs d)).Nodup := by
  induction gs with
  | nil => intro d h; exact h
  | cons g gs ih => intro d h; exact ih _ (keys_nodup_setKey _ _ _ h)

/-- agreement of optional values: both absent, or both present and `≈` -/
def optApprox : Option JVal → Option JVal → Bool
  | none, none => true
  | some x, some y => valApprox x y
  | _, _ => false

theorem valApprox_refl (v : JVal) : valApprox v v = true := by
  cases v with
  | atom a => simp [valApprox, atomApprox_refl]
  | list l =>
    simp only [valApprox, decide_true, Bool.true_and]
    induction l with
    | nil => rfl
    | cons a as ih => simp [List.zip_cons_cons, atomApprox_refl, ih]

theorem lastVal_approx (T : List Opt) (gs : List TGroup) (hgs : ∀ g ∈ gs, wfGroup T g = true) (k : String) :
    optApprox (lastVal genValue gs k) (lastVal argValue gs k) = true := by
  induction gs with
  | nil => rfl
  | cons g gs ih =>
    have ih' := ih (fun g' hg' => hgs g' (by simp [hg']))
    simp only [lastVal]
    cases h1 : lastVal genValue gs k with
    | some v =>
      cases h2 : lastVal argValue gs k with
      | some w => simpa [h1, h2] using ih'
      | none => simp [h1, h2, optApprox] at ih'
    | none =>
      cases h2 : lastVal argValue gs k with
      | some w => simp [h1, h2, optApprox] at ih'
      | none =>
        by_cases hk : g.opt.name = k
        · simp [hk, optApprox, group_value_approx (hgs g (by simp))]
        · simp [hk, optApprox]

end Evo.Config
