import EvoModel.Model.Containers
import EvoModel.Lemmas.TextFormats
import Mathlib.Data.List.Basic
import Mathlib.Data.List.Nodup
namespace Evo.Cont
open Evo.Text

/-! ### DataFrame -/

theorem zip7_maps (ps : List Pose7) :
    zip7 (ps.map (·.x)) (ps.map (·.y)) (ps.map (·.z)) (ps.map (·.qw)) (ps.map (·.qx)) (ps.map (·.qy))
      (ps.map (·.qz)) = ps := by
  induction ps with
  | nil => rfl
  | cons p ps ih => simp only [List.map_cons, zip7, ih]

/-- the concrete tables of the pinned `pandas_bridge.py` -/
def stdSlots : List (String × String × Nat) :=
  [("x", "positions_xyz", 0), ("y", "positions_xyz", 1), ("z", "positions_xyz", 2),
   ("qw", "orientations_quat_wxyz", 0), ("qx", "orientations_quat_wxyz", 1),
   ("qy", "orientations_quat_wxyz", 2), ("qz", "orientations_quat_wxyz", 3)]

theorem df_roundtrip_std (t : Traj) :
    dfToTrajWith ["qw", "qx", "qy", "qz"] ["x", "y", "z"] (trajToDfWith stdSlots t) = some t := by
  have hs : ∀ ps : List Pose7,
      (ps.map (slot "positions_xyz" 0) = ps.map (·.x)) ∧ (ps.map (slot "positions_xyz" 1) = ps.map (·.y)) ∧
      (ps.map (slot "positions_xyz" 2) = ps.map (·.z)) ∧
      (ps.map (slot "orientations_quat_wxyz" 0) = ps.map (·.qw)) ∧
      (ps.map (slot "orientations_quat_wxyz" 1) = ps.map (·.qx)) ∧
      (ps.map (slot "orientations_quat_wxyz" 2) = ps.map (·.qy)) ∧
      (ps.map (slot "orientations_quat_wxyz" 3) = ps.map (·.qz)) := by
    intro ps
    refine ⟨?_, ?_, ?_, ?_, ?_, ?_, ?_⟩ <;> (apply List.map_congr_left; intro p _; simp [slot])
  cases t with
  | timed st ps =>
    obtain ⟨h1, h2, h3, h4, h5, h6, h7⟩ := hs ps
    simp [dfToTrajWith, trajToDfWith, stdSlots, mapOpt, col, List.find?, h1, h2, h3, h4, h5, h6, h7, zip7_maps]
  | path ps =>
    obtain ⟨h1, h2, h3, h4, h5, h6, h7⟩ := hs ps
    simp [dfToTrajWith, trajToDfWith, stdSlots, mapOpt, col, List.find?, h1, h2, h3, h4, h5, h6, h7, zip7_maps]

/-! ### result archive -/


def ValidName (n : Str) : Prop := n ≠ [] ∧ '/' ∉ n

theorem endsWith_append (n suf : Str) : endsWith (n ++ suf) suf = true := by
  unfold endsWith
  rw [List.reverse_append]
  exact List.isPrefixOf_iff_prefix.mpr (List.prefix_append _ _)

theorem ew_npy_tum (n : Str) : endsWith (n ++ suffNpy) suffTum = false := by
  simp [endsWith, suffNpy, suffTum, List.isPrefixOf]
theorem ew_npy_kitti (n : Str) : endsWith (n ++ suffNpy) suffKitti = false := by
  simp [endsWith, suffNpy, suffKitti, List.isPrefixOf]
theorem ew_tum_npy (n : Str) : endsWith (n ++ suffTum) suffNpy = false := by
  simp [endsWith, suffNpy, suffTum, List.isPrefixOf]
theorem ew_tum_npz (n : Str) : endsWith (n ++ suffTum) suffNpz = false := by
  simp [endsWith, suffNpz, suffTum, List.isPrefixOf]
theorem ew_tum_kitti (n : Str) : endsWith (n ++ suffTum) suffKitti = false := by
  simp [endsWith, suffKitti, suffTum, List.isPrefixOf]
theorem ew_kitti_npy (n : Str) : endsWith (n ++ suffKitti) suffNpy = false := by
  simp [endsWith, suffNpy, suffKitti, List.isPrefixOf]
theorem ew_kitti_npz (n : Str) : endsWith (n ++ suffKitti) suffNpz = false := by
  simp [endsWith, suffNpz, suffKitti, List.isPrefixOf]
theorem ew_kitti_tum (n : Str) : endsWith (n ++ suffKitti) suffTum = false := by
  simp [endsWith, suffTum, suffKitti, List.isPrefixOf]
theorem ew_fixed : endsWith nameInfo suffNpy = false ∧ endsWith nameInfo suffNpz = false ∧
    endsWith nameInfo suffTum = false ∧ endsWith nameInfo suffKitti = false ∧
    endsWith nameStats suffNpy = false ∧ endsWith nameStats suffNpz = false ∧
    endsWith nameStats suffTum = false ∧ endsWith nameStats suffKitti = false := by decide

theorem takeWhile_all {α} (p : α → Bool) : ∀ l : List α, (∀ c ∈ l, p c = true) → l.takeWhile p = l
  | [], _ => rfl
  | a :: l, h => by
      simp only [List.takeWhile, h a (List.mem_cons_self ..)]
      rw [takeWhile_all p l fun c hc => h c (List.mem_cons_of_mem _ hc)]

/-- `Path(name + suffix).stem = name` -/
theorem stem_append (n suf : Str) (hn : ValidName n) (rest : Str)
    (hsuf : suf.reverse = rest ++ ['.']) (hrest : rest ≠ []) (hr1 : '.' ∉ rest) (hr2 : '/' ∉ rest) :
    stem (n ++ suf) = n := by
  obtain ⟨hne, hsl⟩ := hn
  unfold stem
  have hrev : (n ++ suf).reverse = rest ++ '.' :: n.reverse := by
    rw [List.reverse_append, hsuf]; simp
  have hall : ∀ c ∈ rest ++ '.' :: n.reverse, (c != '/') = true := by
    intro c hc
    simp only [List.mem_append, List.mem_cons, List.mem_reverse] at hc
    rcases hc with h | h | h
    · simp; rintro rfl; exact hr2 h
    · subst h; decide
    · simp; rintro rfl; exact hsl h
  have htw : (rest ++ '.' :: n.reverse).takeWhile (fun c => c != '/') = rest ++ '.' :: n.reverse :=
    takeWhile_all _ _ hall
  simp only [hrev, htw]
  have hrestp : ∀ c ∈ rest, (c != '.') = true := by
    intro c hc; simp; rintro rfl; exact hr1 hc
  have h1 : (rest ++ '.' :: n.reverse).takeWhile (fun c => c != '.') = rest := by
    rw [List.takeWhile_append_of_pos hrestp]; simp
  have h2 : (rest ++ '.' :: n.reverse).dropWhile (fun c => c != '.') = '.' :: n.reverse := by
    rw [List.dropWhile_append_of_pos hrestp]; simp
  simp only [h1, h2]
  have : n.reverse.isEmpty = false := by
    cases hn' : n.reverse with
    | nil => exact absurd (List.reverse_eq_nil_iff.mp hn') hne
    | cons _ _ => rfl
  have hr : rest.isEmpty = false := by
    cases rest with
    | nil => exact absurd rfl hrest
    | cons _ _ => rfl
  simp [this, hr]

theorem stem_npy (n : Str) (hn : ValidName n) : stem (n ++ suffNpy) = n :=
  stem_append n suffNpy hn ['y', 'p', 'n'] (by decide) (by decide) (by decide) (by decide)
theorem stem_tum (n : Str) (hn : ValidName n) : stem (n ++ suffTum) = n :=
  stem_append n suffTum hn ['m', 'u', 't'] (by decide) (by decide) (by decide) (by decide)
theorem stem_kitti (n : Str) (hn : ValidName n) : stem (n ++ suffKitti) = n :=
  stem_append n suffKitti hn ['i', 't', 't', 'i', 'k'] (by decide) (by decide) (by decide) (by decide)



theorem readMember_none {C : Type} : ∀ (z : List (Str × C)) (n : Str), n ∉ z.map (·.1) → readMember z n = none
  | [], _, _ => rfl
  | (k, v) :: r, n, h => by
      simp only [List.map_cons, List.mem_cons, not_or] at h
      simp only [readMember, readMember_none r n h.2]
      simp [Ne.symm h.1]

theorem readMember_of_mem {C : Type} : ∀ (z : List (Str × C)) (k : Str) (v : C),
    (z.map (·.1)).Nodup → (k, v) ∈ z → readMember z k = some v
  | (k0, v0) :: r, k, v, hnd, hm => by
      simp only [List.map_cons, List.nodup_cons] at hnd
      rcases List.mem_cons.mp hm with h | h
      · cases h
        simp only [readMember, readMember_none r _ hnd.1]
        simp
      · simp only [readMember, readMember_of_mem r k v hnd.2 h]

theorem dictSet_new {V : Type} (d : List (Str × V)) (k : Str) (v : V) (h : k ∉ d.map (·.1)) :
    dictSet d k v = d ++ [(k, v)] := by
  unfold dictSet
  have : d.any (fun e => e.1 == k) = false := by
    rw [List.any_eq_false]
    intro e he hek
    exact h (List.mem_map.mpr ⟨e, he, by simpa using hek⟩)
  simp [this]

/-- processing the member names in archive order: every member of the group is read back by name,
decoded and stored under its stem; with pairwise different stems nothing is overwritten -/
theorem loadGroup_spec {C V : Type} (z : List (Str × C)) (isMine : Str → Bool) (dec : Str → C → Option V) :
    ∀ (fns : List Str) (acc out : List (Str × V)),
      List.Forall₂ (fun fn kv => kv.1 = stem fn ∧ ∃ c, readMember z fn = some c ∧ dec fn c = some kv.2)
        (fns.filter isMine) out →
      ((acc ++ out).map (·.1)).Nodup →
      loadGroup z isMine dec fns acc = some (acc ++ out)
  | [], acc, out, h, _ => by
      cases h; simp [loadGroup]
  | fn :: rest, acc, out, h, hnd => by
      by_cases hm : isMine fn = true
      · rw [List.filter_cons_of_pos hm] at h
        cases h with
        | cons hh ht =>
          rename_i kv out'
          obtain ⟨hk, c, hc, hd⟩ := hh
          have hnew : stem fn ∉ acc.map (·.1) := by
            intro hmem
            rw [List.map_append, List.nodup_append] at hnd
            exact hnd.2.2 _ hmem _ (by simp [hk]) rfl
          simp only [loadGroup, hm, if_true, hc, hd]
          rw [dictSet_new acc (stem fn) kv.2 hnew]
          have e : acc ++ [(stem fn, kv.2)] ++ out' = acc ++ kv :: out' := by
            rw [← hk]; simp
          rw [← e] at hnd ⊢
          exact loadGroup_spec z isMine dec rest _ out' ht hnd
      · have hm' : isMine fn = false := by simpa using hm
        rw [List.filter_cons_of_neg (by simp [hm'])] at h
        simp only [loadGroup, hm', Bool.false_eq_true, if_false]
        exact loadGroup_spec z isMine dec rest acc out h hnd


section
variable {I S A T : Type}

def memberA (e : Str × A) : Str × Content I S A := (e.1 ++ suffNpy, Content.npy e.2)
def memberT (ser : Kind → T → Str) (e : Str × Kind × T) : Str × Content I S A :=
  (e.1 ++ suffixOf e.2.1, Content.text (ser e.2.1 e.2.2))

theorem saveRes_eq (ser : Kind → T → Str) (r : Res I S A T) :
    saveRes ser r = (nameInfo, .info r.info) :: (nameStats, .stats r.stats) ::
      (r.arrays.map memberA ++ r.trajs.map (memberT ser)) := rfl

theorem suffix_cases (k : Kind) : suffixOf k = suffTum ∨ suffixOf k = suffKitti := by
  cases k <;> simp [suffixOf]

/-- archive member names are pairwise different -/
theorem saveRes_names_nodup (ser : Kind → T → Str) (r : Res I S A T)
    (hAn : (r.arrays.map (·.1)).Nodup) (hTn : (r.trajs.map (·.1)).Nodup) :
    ((saveRes ser r).map (·.1)).Nodup := by
  obtain ⟨i1, i2, i3, i4, s1, s2, s3, s4⟩ := ew_fixed
  have hAname : ∀ e ∈ r.arrays, ∀ n : Str, n = e.1 ++ suffNpy → endsWith n suffNpy = true := by
    intro e _ n hn; rw [hn]; exact endsWith_append _ _
  rw [saveRes_eq]
  simp only [List.map_cons, List.map_append, List.map_map]
  have hAmap : (r.arrays.map ((·.1) ∘ (memberA (I := I) (S := S)))) = (r.arrays.map (·.1)).map (· ++ suffNpy) := by
    simp [memberA, Function.comp_def]
  have hndA : (r.arrays.map ((·.1) ∘ (memberA (I := I) (S := S)))).Nodup := by
    rw [hAmap]; exact hAn.map (fun a b h => List.append_cancel_right h)
  have hndT : (r.trajs.map ((·.1) ∘ (memberT (I := I) (S := S) (A := A) ser))).Nodup := by
    have hinj : ∀ e ∈ r.trajs, ∀ e' ∈ r.trajs, e.1 ++ suffixOf e.2.1 = e'.1 ++ suffixOf e'.2.1 → e.1 = e'.1 := by
      intro e _ e' _ h
      rcases suffix_cases e.2.1 with h1 | h1 <;> rcases suffix_cases e'.2.1 with h2 | h2 <;> rw [h1, h2] at h
      · exact List.append_cancel_right h
      · have := endsWith_append e.1 suffTum; rw [h, ew_kitti_tum] at this; cases this
      · have := endsWith_append e'.1 suffTum; rw [← h, ew_kitti_tum] at this; cases this
      · exact List.append_cancel_right h
    rw [List.nodup_map_iff_inj_on (List.Nodup.of_map _ hTn)]
    intro e he e' he' h
    have h1 := hinj e he e' he' (by simpa [memberT] using h)
    exact List.inj_on_of_nodup_map hTn he he' h1
  have hmemA : ∀ n ∈ r.arrays.map ((·.1) ∘ (memberA (I := I) (S := S))), endsWith n suffNpy = true := by
    intro n hn
    obtain ⟨e, _, rfl⟩ := List.mem_map.mp hn
    exact endsWith_append _ _
  have hmemT : ∀ n ∈ r.trajs.map ((·.1) ∘ (memberT (I := I) (S := S) (A := A) ser)),
      endsWith n suffNpy = false ∧ (endsWith n suffTum = true ∨ endsWith n suffKitti = true) := by
    intro n hn
    obtain ⟨e, _, rfl⟩ := List.mem_map.mp hn
    rcases suffix_cases e.2.1 with h | h <;> simp only [Function.comp, memberT, h]
    · exact ⟨ew_tum_npy _, Or.inl (endsWith_append _ _)⟩
    · exact ⟨ew_kitti_npy _, Or.inr (endsWith_append _ _)⟩
  refine List.nodup_cons.mpr ⟨?_, List.nodup_cons.mpr ⟨?_, ?_⟩⟩
  · simp only [List.mem_cons, List.mem_append, not_or]
    refine ⟨by decide, fun h => ?_, fun h => ?_⟩
    · have := hmemA _ h; rw [i1] at this; cases this
    · rcases (hmemT _ h).2 with h' | h' <;> simp_all
  · simp only [List.mem_append, not_or]
    refine ⟨fun h => ?_, fun h => ?_⟩
    · have := hmemA _ h; rw [s1] at this; cases this
    · rcases (hmemT _ h).2 with h' | h' <;> simp_all
  · rw [List.nodup_append]
    refine ⟨hndA, hndT, ?_⟩
    intro a ha b hb hab
    subst hab
    have := hmemA _ ha
    rw [(hmemT _ hb).1] at this; cases this

/-- the names a group test selects from the archive -/
theorem names_filter (ser : Kind → T → Str) (r : Res I S A T) (p : Str → Bool)
    (h1 : p nameInfo = false) (h2 : p nameStats = false) :
    ((saveRes ser r).map (·.1)).filter p =
      (r.arrays.filter fun e => p (e.1 ++ suffNpy)).map (fun e => e.1 ++ suffNpy) ++
      (r.trajs.filter fun e => p (e.1 ++ suffixOf e.2.1)).map (fun e => e.1 ++ suffixOf e.2.1) := by
  rw [saveRes_eq]
  simp only [List.map_cons, List.map_append, List.map_map, List.filter_cons, h1, h2,
    Bool.false_eq_true, if_false, List.filter_append, List.filter_map]
  rfl

theorem res_roundtrip (ser : Kind → T → Str) (de : Kind → Str → Option T)
    (hde : ∀ k t, de k (ser k t) = some t) (r : Res I S A T)
    (hA : ∀ e ∈ r.arrays, ValidName e.1) (hAn : (r.arrays.map (·.1)).Nodup)
    (hT : ∀ e ∈ r.trajs, ValidName e.1) (hTn : (r.trajs.map (·.1)).Nodup) :
    loadRes de true (saveRes ser r) = some ⟨r.info, r.stats, r.arrays,
      (r.trajs.filter fun e => e.2.1 = .tum) ++ (r.trajs.filter fun e => e.2.1 = .kitti)⟩ ∧
    loadRes de false (saveRes ser r) = some ⟨r.info, r.stats, r.arrays, []⟩ := by
  obtain ⟨i1, i2, i3, i4, s1, s2, s3, s4⟩ := ew_fixed
  have hz := saveRes_names_nodup ser r hAn hTn
  set z := saveRes ser r with hzd
  have hmem : ∀ x, x ∈ z ↔ x = (nameInfo, .info r.info) ∨ x = (nameStats, .stats r.stats) ∨
      x ∈ r.arrays.map memberA ∨ x ∈ r.trajs.map (memberT ser) := by
    intro x; rw [hzd, saveRes_eq]; simp [List.mem_cons, List.mem_append]
  have hrA : ∀ e ∈ r.arrays, readMember z (e.1 ++ suffNpy) = some (.npy e.2) := fun e he =>
    readMember_of_mem z _ _ hz ((hmem _).mpr (Or.inr (Or.inr (Or.inl (List.mem_map.mpr ⟨e, he, rfl⟩)))))
  have hrT : ∀ e ∈ r.trajs, readMember z (e.1 ++ suffixOf e.2.1) = some (.text (ser e.2.1 e.2.2)) := fun e he =>
    readMember_of_mem z _ _ hz ((hmem _).mpr (Or.inr (Or.inr (Or.inr (List.mem_map.mpr ⟨e, he, rfl⟩)))))
  have hri : readMember z nameInfo = some (.info r.info) :=
    readMember_of_mem z _ _ hz ((hmem _).mpr (Or.inl rfl))
  have hrs : readMember z nameStats = some (.stats r.stats) :=
    readMember_of_mem z _ _ hz ((hmem _).mpr (Or.inr (Or.inl rfl)))
  have hcont : ((z.map (·.1)).contains nameInfo && (z.map (·.1)).contains nameStats) = true := by
    rw [hzd, saveRes_eq]; simp
  -- arrays
  have hfA : (z.map (·.1)).filter isNpyName
      = r.arrays.map (fun e => e.1 ++ suffNpy) := by
    rw [hzd, names_filter ser r _ (by simp [isNpyName, i1, i2]) (by simp [isNpyName, s1, s2])]
    simp only [isNpyName]
    have a1 : (r.arrays.filter fun e => endsWith (e.1 ++ suffNpy) suffNpy || endsWith (e.1 ++ suffNpy) suffNpz) = r.arrays := by
      apply List.filter_eq_self.mpr; intro e _; simp [endsWith_append]
    have a2 : (r.trajs.filter fun e => endsWith (e.1 ++ suffixOf e.2.1) suffNpy || endsWith (e.1 ++ suffixOf e.2.1) suffNpz) = [] := by
      apply List.filter_eq_nil_iff.mpr; intro e _
      rcases suffix_cases e.2.1 with h | h <;> simp [h, ew_tum_npy, ew_tum_npz, ew_kitti_npy, ew_kitti_npz]
    rw [a1, a2]; simp
  have hgA : loadGroup z isNpyName decNpy (z.map (·.1)) [] = some r.arrays := by
    have := loadGroup_spec z isNpyName decNpy (z.map (·.1)) [] r.arrays
      (by
        rw [hfA, List.forall₂_map_left_iff, List.forall₂_same]
        intro e he
        exact ⟨(stem_npy e.1 (hA e he)).symm, _, hrA e he, rfl⟩)
      (by simpa using hAn)
    simpa using this
  -- trajectories
  have hfT : ∀ (k : Kind), (z.map (·.1)).filter (isKindName k)
      = (r.trajs.filter fun e => e.2.1 = k).map (fun e => e.1 ++ suffixOf e.2.1) := by
    intro k
    rw [hzd, names_filter ser r _ (by cases k <;> simp [isKindName, suffixOf, i3, i4]) (by cases k <;> simp [isKindName, suffixOf, s3, s4])]
    simp only [isKindName]
    have a1 : (r.arrays.filter fun e => endsWith (e.1 ++ suffNpy) (suffixOf k)) = [] := by
      apply List.filter_eq_nil_iff.mpr; intro e _
      cases k <;> simp [suffixOf, ew_npy_tum, ew_npy_kitti]
    have a2 : (r.trajs.filter fun e => endsWith (e.1 ++ suffixOf e.2.1) (suffixOf k))
        = r.trajs.filter fun e => e.2.1 = k := by
      apply List.filter_congr; intro e _
      cases k <;> cases h : e.2.1 <;> simp [suffixOf, endsWith_append, ew_tum_kitti, ew_kitti_tum]
    rw [a1, a2]; simp
  have hgT : ∀ (k : Kind) (acc : List (Str × Kind × T)),
      ((acc ++ r.trajs.filter fun e => e.2.1 = k).map (·.1)).Nodup →
      loadGroup z (isKindName k) (decText de k) (z.map (·.1)) acc = some (acc ++ r.trajs.filter fun e => e.2.1 = k) := by
    intro k acc hnd
    apply loadGroup_spec z _ _ _ acc _ _ hnd
    rw [hfT k, List.forall₂_map_left_iff, List.forall₂_same]
    intro e he
    obtain ⟨he1, he2⟩ := List.mem_filter.mp he
    have hk : e.2.1 = k := by simpa using he2
    refine ⟨?_, _, hrT e he1, ?_⟩
    · rcases suffix_cases e.2.1 with h | h <;> rw [h]
      · exact (stem_tum e.1 (hT e he1)).symm
      · exact (stem_kitti e.1 (hT e he1)).symm
    · rw [← hk]; simp [decText, hde]
  have hndT : ((r.trajs.filter fun e => e.2.1 = Kind.tum) ++ (r.trajs.filter fun e => e.2.1 = Kind.kitti)).map (·.1) |>.Nodup := by
    rw [List.map_append, List.nodup_append]
    refine ⟨(hTn.sublist ((List.filter_sublist).map _)), (hTn.sublist ((List.filter_sublist).map _)), ?_⟩
    intro a ha b hb hab
    subst hab
    obtain ⟨e1, he1, rfl⟩ := List.mem_map.mp ha
    obtain ⟨e2, he2, h12⟩ := List.mem_map.mp hb
    obtain ⟨m1, k1⟩ := List.mem_filter.mp he1
    obtain ⟨m2, k2⟩ := List.mem_filter.mp he2
    have : e2 = e1 := List.inj_on_of_nodup_map hTn m2 m1 h12
    subst this
    simp at k1 k2; rw [k1] at k2; cases k2
  have hg1 := hgT .tum [] (by
    simp only [List.nil_append]
    exact hTn.sublist ((List.filter_sublist).map _))
  have hg2 := hgT .kitti (r.trajs.filter fun e => e.2.1 = Kind.tum) hndT
  simp only [List.nil_append] at hg1
  constructor
  · unfold loadRes
    simp only [hcont, Bool.not_true, Bool.false_eq_true, if_false, hri, hrs, hgA, hg1, hg2]
  · unfold loadRes
    simp only [hcont, Bool.not_true, Bool.false_eq_true, if_false, hri, hrs, hgA, Bool.not_false, if_true]

end
end Evo.Cont
