/-
binary64 as a set of rationals, and the decimal round-trip core of C06/C07:
a rational within relative distance 2⁻⁵⁵ of a binary64 value `x` has `x` as its *only* nearest
binary64 value (`f64_unique_near`), and a decimal correctly rounded to ≥ 18 significant digits is
that close (`digits_suffice`).
-/
import EvoModel.Model.F64
import EvoModel.Model.Basic
import Mathlib.Algebra.Order.Field.Rat
import Mathlib.Algebra.Order.Field.Power
import Mathlib.Algebra.Order.Ring.Rat
import Mathlib.Tactic.Linarith
import Mathlib.Tactic.Positivity
import Mathlib.Tactic.Ring
import Mathlib.Tactic.NormNum
import Mathlib.Tactic.Push
import Mathlib.Tactic.FieldSimp
import Mathlib.Data.Rat.Defs
namespace Evo.F64

/-- binary64 values (finite) as rationals `m · 2^e`, `|m| < 2⁵³`, `−1074 ≤ e ≤ 971` -/
def IsF64 (x : ℚ) : Prop :=
  ∃ m e : ℤ, |m| < 2 ^ 53 ∧ -1074 ≤ e ∧ e ≤ 971 ∧ x = m * (2 : ℚ) ^ e

/-- `r` is a binary64 value nearest to `y` (what any IEEE round-to-nearest conversion returns) -/
def IsNearestF64 (y r : ℚ) : Prop := IsF64 r ∧ ∀ z, IsF64 z → |y - r| ≤ |y - z|

/-- `y` is within relative distance 2⁻⁵⁵ of `x` -/
def Close (x y : ℚ) : Prop := |y - x| ≤ |x| / 2 ^ 55

theorem isF64_zero : IsF64 0 := ⟨0, 0, by norm_num, by norm_num, by norm_num, by norm_num⟩

theorem isF64_neg {x : ℚ} (h : IsF64 x) : IsF64 (-x) := by
  obtain ⟨m, e, hm, h1, h2, rfl⟩ := h
  exact ⟨-m, e, by rwa [abs_neg], h1, h2, by push_cast; ring⟩

theorem isF64_one : IsF64 1 := ⟨1, 0, by norm_num, by norm_num, by norm_num, by norm_num⟩

theorem two_zpow_pos (e : ℤ) : (0 : ℚ) < (2 : ℚ) ^ e := by positivity

/-- a value `m * 2^e` rewritten with a smaller exponent `E` has an integer mantissa -/
theorem rescale (m e E : ℤ) (h : E ≤ e) :
    ∃ a : ℤ, (m : ℚ) * (2 : ℚ) ^ e = a * (2 : ℚ) ^ E := by
  obtain ⟨d, hd⟩ := Int.eq_ofNat_of_zero_le (sub_nonneg.mpr h)
  refine ⟨m * 2 ^ d, ?_⟩
  have he : e = E + d := by omega
  rw [he, zpow_add₀ (by norm_num : (2 : ℚ) ≠ 0)]
  push_cast
  rw [zpow_natCast]
  ring

/-- two different points of the grid `2^E · ℤ` are at least `2^E` apart -/
theorem int_gap (a b E : ℤ) (h : (a : ℚ) * (2 : ℚ) ^ E ≠ b * (2 : ℚ) ^ E) :
    (2 : ℚ) ^ E ≤ |(a : ℚ) * (2 : ℚ) ^ E - b * (2 : ℚ) ^ E| := by
  have hab : a ≠ b := by rintro rfl; exact h rfl
  have h1 : (1 : ℚ) ≤ |((a - b : ℤ) : ℚ)| := by
    have : (1 : ℤ) ≤ |a - b| := Int.one_le_abs (sub_ne_zero.mpr hab)
    exact_mod_cast this
  have hp := two_zpow_pos E
  have : (a : ℚ) * (2 : ℚ) ^ E - b * (2 : ℚ) ^ E = ((a - b : ℤ) : ℚ) * (2 : ℚ) ^ E := by
    push_cast; ring
  rw [this, abs_mul, abs_of_pos hp]
  nlinarith

/-- The only binary64 value at least as near to `y` as `x` is `x` itself, whenever
`y` is within relative distance `2^-55` of the binary64 value `x`. -/
theorem f64_unique_near (x x' y : ℚ) (hx : IsF64 x) (hx' : IsF64 x')
    (hclose : |y - x| ≤ |x| / 2 ^ 55) (hnear : |y - x'| ≤ |y - x|) : x' = x := by
  by_contra hne
  obtain ⟨m, e, hm, -, -, rfl⟩ := hx
  obtain ⟨m', e', hm', -, -, rfl⟩ := hx'
  set x := (m : ℚ) * (2 : ℚ) ^ e with hxdef
  set x' := (m' : ℚ) * (2 : ℚ) ^ e' with hx'def
  have hd : |x - x'| ≤ |x| / 2 ^ 54 := by
    have h1 : |x - x'| ≤ |y - x| + |y - x'| := by
      have : x - x' = -(y - x) + (y - x') := by ring
      rw [this]
      calc |-(y - x) + (y - x')| ≤ |-(y - x)| + |y - x'| := abs_add_le _ _
        _ = |y - x| + |y - x'| := by rw [abs_neg]
    have h2 : |y - x| + |y - x'| ≤ 2 * (|x| / 2 ^ 55) := by linarith
    have h3 : 2 * (|x| / 2 ^ 55) = |x| / 2 ^ 54 := by ring
    linarith
  have hmq : |(m : ℚ)| < 2 ^ 53 := by exact_mod_cast hm
  have hmq' : |(m' : ℚ)| < 2 ^ 53 := by exact_mod_cast hm'
  have hxabs : |x| = |(m : ℚ)| * (2 : ℚ) ^ e := by
    rw [hxdef, abs_mul, abs_of_pos (two_zpow_pos e)]
  have hx'abs : |x'| = |(m' : ℚ)| * (2 : ℚ) ^ e' := by
    rw [hx'def, abs_mul, abs_of_pos (two_zpow_pos e')]
  rcases le_total e e' with hle | hle
  · obtain ⟨a', ha'⟩ := rescale m' e' e hle
    have hgap : (2 : ℚ) ^ e ≤ |x - x'| := by
      rw [hxdef, hx'def, ha']
      apply int_gap
      intro h; apply hne; rw [hx'def, hxdef, ha']; exact h.symm
    have hp := two_zpow_pos e
    have : |x| / 2 ^ 54 < (2 : ℚ) ^ e := by
      rw [hxabs, div_lt_iff₀ (by positivity)]
      nlinarith
    linarith
  · obtain ⟨a, ha⟩ := rescale m e e' hle
    have hgap : (2 : ℚ) ^ e' ≤ |x - x'| := by
      rw [hxdef, hx'def, ha]
      apply int_gap
      intro h; apply hne; rw [hx'def, hxdef, ha]; exact h.symm
    have hp := two_zpow_pos e'
    have htri : |x| ≤ |x'| + |x - x'| := by
      have : x = x' + (x - x') := by ring
      calc |x| = |x' + (x - x')| := by rw [← this]
        _ ≤ |x'| + |x - x'| := abs_add_le _ _
    have hx'lt : |x'| < 2 ^ 53 * (2 : ℚ) ^ e' := by
      rw [hx'abs]; exact mul_lt_mul_of_pos_right hmq' hp
    have hxnn : 0 ≤ |x| := abs_nonneg x
    have h54 : (0 : ℚ) < 2 ^ 54 := by positivity
    have hd' : |x - x'| * 2 ^ 54 ≤ |x| := by
      rwa [le_div_iff₀ h54] at hd
    nlinarith

/-- Any round-to-nearest conversion returns `x` for every rational `y` close to the binary64
value `x`: the text → double direction of the round trip. -/
theorem nearest_of_close {x y r : ℚ} (hx : IsF64 x) (hc : Close x y) (hr : IsNearestF64 y r) :
    r = x :=
  f64_unique_near x r y hx hr.1 hc (hr.2 x hx)

/-- A decimal `y` correctly rounded to `d ≥ 18` significant digits (`|y − x| ≤ ½·10^(k+1−d)` where
`10^k ≤ |x|`) is within relative distance 2⁻⁵⁵ of `x`.  (`%.18e` prints `d = 19` digits.) -/
theorem digits_suffice (x y : ℚ) (k : ℤ) (d : ℕ) (hd : 18 ≤ d) (hk : (10 : ℚ) ^ k ≤ |x|)
    (hy : |y - x| ≤ (10 : ℚ) ^ (k + 1 - d) / 2) : Close x y := by
  unfold Close
  have h10 : (10 : ℚ) ≠ 0 := by norm_num
  have hsplit : (10 : ℚ) ^ (k + 1 - d) = (10 : ℚ) ^ k * (10 : ℚ) ^ (1 - (d : ℤ)) := by
    rw [← zpow_add₀ h10]; congr 1; ring
  have hsmall : (10 : ℚ) ^ (1 - (d : ℤ)) ≤ (10 : ℚ) ^ (-17 : ℤ) := by
    apply zpow_le_zpow_right₀ (by norm_num)
    have : (18 : ℤ) ≤ d := by exact_mod_cast hd
    omega
  have hpk : (0 : ℚ) < (10 : ℚ) ^ k := by positivity
  have hp1 : (0 : ℚ) ≤ (10 : ℚ) ^ (1 - (d : ℤ)) := by positivity
  have hnum : (10 : ℚ) ^ (-17 : ℤ) / 2 ≤ 1 / 2 ^ 55 := by norm_num
  have hxn : 0 ≤ |x| := abs_nonneg x
  calc |y - x| ≤ (10 : ℚ) ^ (k + 1 - d) / 2 := hy
    _ = (10 : ℚ) ^ k * ((10 : ℚ) ^ (1 - (d : ℤ)) / 2) := by rw [hsplit]; ring
    _ ≤ |x| * ((10 : ℚ) ^ (-17 : ℤ) / 2) := by
        apply mul_le_mul hk _ (by positivity) hxn
        exact div_le_div_of_nonneg_right hsmall (by norm_num)
    _ ≤ |x| * (1 / 2 ^ 55) := by
        apply mul_le_mul_of_nonneg_left hnum hxn
    _ = |x| / 2 ^ 55 := by ring

theorem absR_eq_abs (x : ℚ) : Evo.absR x = |x| := by
  unfold Evo.absR
  split
  · rename_i h; rw [abs_of_neg h]
  · rename_i h; rw [abs_of_nonneg (not_lt.mp h)]


/-! ### the executable `rne` is a round-to-nearest (and does not overflow near binary64 values) -/


theorem pow2_eq (k : ℕ) : pow2 k = 2 ^ k := by unfold pow2; exact Nat.one_shiftLeft k

/-- `rhe n d` is an integer nearest to `n / d` -/
theorem rhe_near (n d : ℕ) (hd : 0 < d) : |(n : ℚ) / d - (rhe n d : ℚ)| ≤ 1 / 2 := by
  have hdq : (0 : ℚ) < d := by exact_mod_cast hd
  have hn : (n : ℚ) = (d : ℚ) * ((n / d : ℕ) : ℚ) + ((n % d : ℕ) : ℚ) := by
    exact_mod_cast (Nat.div_add_mod n d).symm
  have hr : ((n % d : ℕ) : ℚ) < d := by exact_mod_cast Nat.mod_lt n hd
  have hr0 : (0 : ℚ) ≤ ((n % d : ℕ) : ℚ) := by positivity
  have hdiv : (n : ℚ) / d = ((n / d : ℕ) : ℚ) + ((n % d : ℕ) : ℚ) / d := by
    rw [hn]; field_simp
  rw [hdiv, abs_le]
  unfold rhe
  simp only
  split
  · rename_i h
    have h' : 2 * ((n % d : ℕ) : ℚ) < d := by exact_mod_cast h
    have : ((n % d : ℕ) : ℚ) / d < 1 / 2 := by rw [div_lt_iff₀ hdq]; linarith
    have h0 : 0 ≤ ((n % d : ℕ) : ℚ) / d := by positivity
    constructor <;> linarith
  · split
    · rename_i h1 h
      have h' : (d : ℚ) < 2 * ((n % d : ℕ) : ℚ) := by exact_mod_cast h
      have : 1 / 2 < ((n % d : ℕ) : ℚ) / d := by rw [lt_div_iff₀ hdq]; linarith
      have h1' : ((n % d : ℕ) : ℚ) / d < 1 := by rw [div_lt_one hdq]; exact hr
      push_cast
      constructor <;> linarith
    · rename_i h1 h2
      have he : 2 * (n % d) = d := by omega
      have he' : 2 * ((n % d : ℕ) : ℚ) = d := by exact_mod_cast he
      have : ((n % d : ℕ) : ℚ) / d = 1 / 2 := by rw [div_eq_iff (ne_of_gt hdq)]; linarith
      split
      · constructor <;> linarith
      · push_cast; constructor <;> linarith



theorem two_ne : (2 : ℚ) ≠ 0 := by norm_num

theorem log2_bounds (p : ℕ) (hp : 0 < p) :
    (2 : ℚ) ^ ((Nat.log2 p : ℕ) : ℤ) ≤ p ∧ (p : ℚ) < (2 : ℚ) ^ (((Nat.log2 p : ℕ) : ℤ) + 1) := by
  have h1 : 2 ^ Nat.log2 p ≤ p := Nat.log2_self_le (Nat.pos_iff_ne_zero.mp hp)
  have h2 : p < 2 ^ (Nat.log2 p + 1) := Nat.lt_log2_self
  constructor
  · rw [zpow_natCast]; exact_mod_cast h1
  · have : ((Nat.log2 p : ℕ) : ℤ) + 1 = ((Nat.log2 p + 1 : ℕ) : ℤ) := by push_cast; ring
    rw [this, zpow_natCast]; exact_mod_cast h2

theorem ilog2_spec (p q : ℕ) (hp : 0 < p) (hq : 0 < q) :
    (2 : ℚ) ^ (ilog2 p q) ≤ (p : ℚ) / q ∧ (p : ℚ) / q < (2 : ℚ) ^ (ilog2 p q + 1) := by
  obtain ⟨hp1, hp2⟩ := log2_bounds p hp
  obtain ⟨hq1, hq2⟩ := log2_bounds q hq
  have hpq : (0 : ℚ) < p := by exact_mod_cast hp
  have hqq : (0 : ℚ) < q := by exact_mod_cast hq
  set lp : ℤ := ((Nat.log2 p : ℕ) : ℤ) with hlp
  set lq : ℤ := ((Nat.log2 q : ℕ) : ℤ) with hlq
  -- crude bounds
  have hup : (p : ℚ) / q < (2 : ℚ) ^ (lp - lq + 1) := by
    have e : (2 : ℚ) ^ (lp - lq + 1) = (2 : ℚ) ^ (lp + 1) / (2 : ℚ) ^ lq := by
      rw [← zpow_sub₀ two_ne]; congr 1; ring
    rw [e, div_lt_div_iff₀ hqq (two_zpow_pos lq)]
    calc (p : ℚ) * 2 ^ lq ≤ p * q := by apply mul_le_mul_of_nonneg_left hq1 hpq.le
      _ < 2 ^ (lp + 1) * q := by apply mul_lt_mul_of_pos_right hp2 hqq
  have hlo : (2 : ℚ) ^ (lp - lq - 1) < (p : ℚ) / q := by
    have e : (2 : ℚ) ^ (lp - lq - 1) = (2 : ℚ) ^ lp / (2 : ℚ) ^ (lq + 1) := by
      rw [← zpow_sub₀ two_ne]; congr 1; ring
    rw [e, div_lt_div_iff₀ (two_zpow_pos (lq + 1)) hqq]
    calc (2 : ℚ) ^ lp * q < 2 ^ lp * 2 ^ (lq + 1) := by
            apply mul_lt_mul_of_pos_left hq2 (two_zpow_pos lp)
      _ ≤ p * 2 ^ (lq + 1) := by apply mul_le_mul_of_nonneg_right hp1 (two_zpow_pos _).le
  -- the test decides
  unfold ilog2
  simp only
  rw [← hlp, ← hlq]
  have key : ∀ ok : Bool, (ok = true ↔ (2 : ℚ) ^ (lp - lq) ≤ (p : ℚ) / q) →
      (2 : ℚ) ^ (if ok = true then lp - lq else lp - lq - 1) ≤ (p : ℚ) / q ∧
      (p : ℚ) / q < (2 : ℚ) ^ ((if ok = true then lp - lq else lp - lq - 1) + 1) := by
    intro ok hok
    cases ok with
    | true => simp only [if_true]; exact ⟨hok.mp rfl, hup⟩
    | false =>
      simp only [Bool.false_eq_true, if_false]
      refine ⟨hlo.le, ?_⟩
      have : lp - lq - 1 + 1 = lp - lq := by ring
      rw [this]
      exact lt_of_not_ge fun hge => Bool.false_ne_true (hok.mpr hge)
  apply key
  split
  · rename_i ha
    obtain ⟨k, hk⟩ := Int.eq_ofNat_of_zero_le ha
    rw [hk, Int.toNat_natCast, pow2_eq, decide_eq_true_iff, zpow_natCast, le_div_iff₀ hqq]
    constructor
    · intro h; have : ((q * 2 ^ k : ℕ) : ℚ) ≤ p := by exact_mod_cast h
      push_cast at this; linarith
    · intro h; have : ((q * 2 ^ k : ℕ) : ℚ) ≤ p := by push_cast; linarith
      exact_mod_cast this
  · rename_i ha
    have ha' : 0 ≤ -(lp - lq) := by omega
    obtain ⟨k, hk⟩ := Int.eq_ofNat_of_zero_le ha'
    have hk' : lp - lq = -(k : ℤ) := by omega
    rw [hk, Int.toNat_natCast, pow2_eq, decide_eq_true_iff, hk', zpow_neg, zpow_natCast, le_div_iff₀ hqq]
    have h2k : (0 : ℚ) < 2 ^ k := by positivity
    constructor
    · intro h; have : (q : ℚ) ≤ ((p * 2 ^ k : ℕ) : ℚ) := by exact_mod_cast h
      push_cast at this
      rw [inv_mul_le_iff₀ h2k]; linarith
    · intro h
      rw [inv_mul_le_iff₀ h2k] at h
      have : (q : ℚ) ≤ ((p * 2 ^ k : ℕ) : ℚ) := by push_cast; linarith
      exact_mod_cast this


/-- what `rnePos` computes: exponent, mantissa nearest to the scaled value, overflow test -/
theorem rnePos_spec (p q : ℕ) (hp : 0 < p) (hq : 0 < q) :
    ∃ m : ℕ, |(p : ℚ) / q / (2 : ℚ) ^ (max (ilog2 p q - 52) (-1074)) - m| ≤ 1 / 2 ∧
      rnePos p q = if max (ilog2 p q - 52) (-1074) + 53 > 1024 ∨
          (max (ilog2 p q - 52) (-1074) + 53 = 1024 ∧ m ≥ 2 ^ 53) then none
        else some ((m : ℚ) * (2 : ℚ) ^ (max (ilog2 p q - 52) (-1074))) := by
  have hpq : (0 : ℚ) < p := by exact_mod_cast hp
  have hqq : (0 : ℚ) < q := by exact_mod_cast hq
  unfold rnePos
  simp only [Nat.pos_iff_ne_zero.mp hp, if_false]
  generalize max (ilog2 p q - 52) (-1074) = e
  by_cases he : e ≥ 0
  · obtain ⟨k, rfl⟩ := Int.eq_ofNat_of_zero_le he
    simp only [he, if_true, Int.toNat_natCast, pow2_eq]
    refine ⟨rhe p (q * 2 ^ k), ?_, ?_⟩
    · have := rhe_near p (q * 2 ^ k) (by positivity)
      have e1 : (p : ℚ) / q / (2 : ℚ) ^ ((k : ℕ) : ℤ) = (p : ℚ) / ((q * 2 ^ k : ℕ) : ℚ) := by
        rw [zpow_natCast]; push_cast; rw [div_div]
      rw [e1]; exact this
    · have e2 : ((rhe p (q * 2 ^ k) * 2 ^ k : ℕ) : ℚ) = (rhe p (q * 2 ^ k) : ℚ) * (2 : ℚ) ^ ((k : ℕ) : ℤ) := by
        rw [zpow_natCast]; push_cast; ring
      rw [e2]
  · have he' : 0 ≤ -e := by omega
    obtain ⟨k, hk⟩ := Int.eq_ofNat_of_zero_le he'
    have hek : e = -(k : ℤ) := by omega
    subst hek
    simp only [he, if_false, neg_neg, Int.toNat_natCast, pow2_eq]
    refine ⟨rhe (p * 2 ^ k) q, ?_, ?_⟩
    · have := rhe_near (p * 2 ^ k) q hq
      have e1 : (p : ℚ) / q / (2 : ℚ) ^ (-(k : ℤ)) = ((p * 2 ^ k : ℕ) : ℚ) / (q : ℚ) := by
        rw [zpow_neg, zpow_natCast]; push_cast; field_simp
      rw [e1]; exact this
    · have e2 : (rhe (p * 2 ^ k) q : ℚ) / ((2 ^ k : ℕ) : ℚ) = (rhe (p * 2 ^ k) q : ℚ) * (2 : ℚ) ^ (-(k : ℤ)) := by
        rw [zpow_neg, zpow_natCast]; push_cast; rw [div_eq_mul_inv]
      rw [e2]

/-- the point `m·2^e` with `m` nearest to `y/2^e` is nearest to `y` on the grid `2^e·ℤ` -/
theorem grid_nearest (y : ℚ) (e : ℤ) (m : ℕ) (h : |y / (2 : ℚ) ^ e - m| ≤ 1 / 2) (k : ℤ) :
    |y - (m : ℚ) * (2 : ℚ) ^ e| ≤ |y - (k : ℚ) * (2 : ℚ) ^ e| := by
  have hp := two_zpow_pos e
  have e1 : ∀ c : ℚ, y - c * (2 : ℚ) ^ e = (y / (2 : ℚ) ^ e - c) * (2 : ℚ) ^ e := by
    intro c; field_simp
  rw [e1, e1, abs_mul, abs_mul, abs_of_pos hp]
  apply mul_le_mul_of_nonneg_right _ hp.le
  by_cases hk : k = (m : ℤ)
  · subst hk; simp
  · have h1 : (1 : ℚ) ≤ |((m : ℤ) : ℚ) - (k : ℚ)| := by
      have : (1 : ℤ) ≤ |(m : ℤ) - k| := Int.one_le_abs (sub_ne_zero.mpr (Ne.symm hk))
      exact_mod_cast this
    have h2 : |((m : ℤ) : ℚ) - (k : ℚ)| ≤ |y / (2 : ℚ) ^ e - m| + |y / (2 : ℚ) ^ e - k| := by
      have : ((m : ℤ) : ℚ) - (k : ℚ) = -(y / (2 : ℚ) ^ e - m) + (y / (2 : ℚ) ^ e - k) := by
        push_cast; ring
      rw [this]
      calc _ ≤ |-(y / (2 : ℚ) ^ e - m)| + |y / (2 : ℚ) ^ e - k| := abs_add_le _ _
        _ = _ := by rw [abs_neg]
    linarith

theorem rnePos_nearest (p q : ℕ) (hp : 0 < p) (hq : 0 < q) (r : ℚ) (h : rnePos p q = some r) :
    IsNearestF64 ((p : ℚ) / q) r := by
  obtain ⟨m, hm, hspec⟩ := rnePos_spec p q hp hq
  obtain ⟨hlo, hhi⟩ := ilog2_spec p q hp hq
  set y : ℚ := (p : ℚ) / q with hy
  set lg := ilog2 p q with hlg
  set e : ℤ := max (lg - 52) (-1074) with he
  rw [hspec] at h
  split at h
  · cases h
  rename_i hov
  push Not at hov
  obtain ⟨hov1, hov2⟩ := hov
  have hr : r = (m : ℚ) * (2 : ℚ) ^ e := by simpa using h.symm
  have hpe := two_zpow_pos e
  have he1 : lg - 52 ≤ e := le_max_left _ _
  have he2 : -1074 ≤ e := le_max_right _ _
  -- mantissa bound
  have ht : y / (2 : ℚ) ^ e < 2 ^ 53 := by
    rw [div_lt_iff₀ hpe]
    calc y < (2 : ℚ) ^ (lg + 1) := hhi
      _ ≤ (2 : ℚ) ^ (53 + e) := zpow_le_zpow_right₀ (by norm_num) (by omega)
      _ = 2 ^ 53 * (2 : ℚ) ^ e := by rw [zpow_add₀ two_ne]; norm_num
  have hmle : m ≤ 2 ^ 53 := by
    have h1 := (abs_le.mp hm).1
    have : (m : ℚ) < ((2 ^ 53 + 1 : ℕ) : ℚ) := by push_cast; linarith
    have : m < 2 ^ 53 + 1 := by exact_mod_cast this
    omega
  refine ⟨?_, ?_⟩
  · -- IsF64
    rw [hr]
    rcases Nat.lt_or_ge m (2 ^ 53) with hlt | hge
    · refine ⟨(m : ℤ), e, ?_, he2, by omega, by push_cast; ring⟩
      rw [abs_of_nonneg (by positivity)]; exact_mod_cast hlt
    · have hm53 : m = 2 ^ 53 := le_antisymm hmle hge
      have he971 : e + 1 ≤ 971 := by
        have := hov2
        by_contra hcon
        have : e + 53 = 1024 := by omega
        exact absurd (hov2 this) (by omega)
      refine ⟨2 ^ 52, e + 1, by norm_num, by omega, he971, ?_⟩
      rw [hm53, zpow_add₀ two_ne]; push_cast; ring
  · intro z hz
    rw [hr]
    obtain ⟨m', e', hm', he'1, he'2, rfl⟩ := hz
    rcases le_or_gt e e' with hle | hlt
    · obtain ⟨a, ha⟩ := rescale m' e' e hle
      rw [ha]; exact grid_nearest y e m hm a
    · -- z is below 2^lg ≤ y, and 2^lg is on the grid
      have helg : e = lg - 52 := by
        rcases max_cases (lg - 52) (-1074) with ⟨h1, _⟩ | ⟨h1, _⟩
        · exact h1
        · omega
      have hg := grid_nearest y e m hm (2 ^ 52)
      have hglg : ((2 ^ 52 : ℤ) : ℚ) * (2 : ℚ) ^ e = (2 : ℚ) ^ lg := by
        have : lg = 52 + e := by omega
        rw [this, zpow_add₀ two_ne]; norm_num
      rw [hglg] at hg
      have hzlt : (m' : ℚ) * (2 : ℚ) ^ e' < (2 : ℚ) ^ lg := by
        have hm'q : |(m' : ℚ)| < 2 ^ 53 := by exact_mod_cast hm'
        have h1 : (m' : ℚ) ≤ |(m' : ℚ)| := le_abs_self _
        have hpe' := two_zpow_pos e'
        calc (m' : ℚ) * (2 : ℚ) ^ e' < 2 ^ 53 * (2 : ℚ) ^ e' := by
              apply mul_lt_mul_of_pos_right (lt_of_le_of_lt h1 hm'q) hpe'
          _ = (2 : ℚ) ^ (53 + e') := by rw [zpow_add₀ two_ne]; norm_num
          _ ≤ (2 : ℚ) ^ lg := zpow_le_zpow_right₀ (by norm_num) (by omega)
      have h3 : |y - (2 : ℚ) ^ lg| = y - (2 : ℚ) ^ lg := abs_of_nonneg (by linarith)
      have h4 : |y - (m' : ℚ) * (2 : ℚ) ^ e'| = y - (m' : ℚ) * (2 : ℚ) ^ e' := abs_of_nonneg (by linarith)
      rw [h4]; rw [h3] at hg; linarith


theorem isNearest_neg {y r : ℚ} (h : IsNearestF64 y r) : IsNearestF64 (-y) (-r) := by
  refine ⟨isF64_neg h.1, fun z hz => ?_⟩
  have := h.2 (-z) (isF64_neg hz)
  have e1 : -y - -r = -(y - r) := by ring
  have e2 : -y - z = -(y - -z) := by ring
  rw [e1, e2, abs_neg, abs_neg]; exact this

theorem abs_eq_natAbs_div (y : ℚ) : |y| = (y.num.natAbs : ℚ) / (y.den : ℚ) := by
  have hd : (0 : ℚ) < y.den := by exact_mod_cast y.den_pos
  conv_lhs => rw [← Rat.num_div_den y]
  rw [abs_div, abs_of_pos hd]
  congr 1
  rw [← Int.cast_abs, Int.abs_eq_natAbs]; simp

theorem rnePos_zero (q : ℕ) : rnePos 0 q = some 0 := by unfold rnePos; simp

/-- the executable rounding returns a nearest binary64 value -/
theorem rne_nearest (y r : ℚ) (h : rne y = some r) : IsNearestF64 y r := by
  unfold rne at h
  have habs := abs_eq_natAbs_div y
  have hq : 0 < y.den := y.den_pos
  by_cases hy : y < 0
  · simp only [hy, if_true, Option.map_eq_some_iff] at h
    obtain ⟨r', hr', rfl⟩ := h
    have hp : 0 < y.num.natAbs := by
      have : y.num ≠ 0 := by
        intro h0; rw [Rat.num_eq_zero] at h0; rw [h0] at hy; exact lt_irrefl _ hy
      exact Int.natAbs_pos.mpr this
    have := rnePos_nearest _ _ hp hq r' hr'
    rw [← habs, abs_of_neg hy] at this
    have := isNearest_neg this
    rwa [neg_neg] at this
  · simp only [hy, if_false] at h
    have hy' : 0 ≤ y := not_lt.mp hy
    rcases Nat.eq_zero_or_pos y.num.natAbs with h0 | hp
    · rw [h0, rnePos_zero] at h
      have hy0 : y = 0 := by
        rw [← Rat.num_eq_zero]; exact Int.natAbs_eq_zero.mp h0
      cases h
      subst hy0
      exact ⟨isF64_zero, fun z _ => by simp⟩
    · have := rnePos_nearest _ _ hp hq r h
      rwa [← habs, abs_of_nonneg hy'] at this


/-- largest magnitude a rational close to a binary64 value can have -/
def closeBound : ℚ := (2 ^ 53 - 1) * (2 : ℚ) ^ (971 : ℤ) * (1 + 1 / 2 ^ 55)

theorem abs_le_closeBound {x y : ℚ} (hx : IsF64 x) (hc : Close x y) : |y| ≤ closeBound := by
  obtain ⟨m, e, hm, -, he, rfl⟩ := hx
  unfold Close at hc
  have hpe := two_zpow_pos e
  have hmq : |(m : ℚ)| ≤ 2 ^ 53 - 1 := by
    have : |m| ≤ 2 ^ 53 - 1 := by omega
    exact_mod_cast this
  have hxabs : |(m : ℚ) * (2 : ℚ) ^ e| ≤ (2 ^ 53 - 1) * (2 : ℚ) ^ (971 : ℤ) := by
    rw [abs_mul, abs_of_pos hpe]
    apply mul_le_mul hmq (zpow_le_zpow_right₀ (by norm_num) he) hpe.le (by norm_num)
  have htri : |y| ≤ |(m : ℚ) * (2 : ℚ) ^ e| + |y - (m : ℚ) * (2 : ℚ) ^ e| := by
    have : y = (m : ℚ) * (2 : ℚ) ^ e + (y - (m : ℚ) * (2 : ℚ) ^ e) := by ring
    calc |y| = |(m : ℚ) * (2 : ℚ) ^ e + (y - (m : ℚ) * (2 : ℚ) ^ e)| := by rw [← this]
      _ ≤ _ := abs_add_le _ _
  unfold closeBound
  have h0 : 0 ≤ |(m : ℚ) * (2 : ℚ) ^ e| := abs_nonneg _
  calc |y| ≤ |(m : ℚ) * (2 : ℚ) ^ e| * (1 + 1 / 2 ^ 55) := by
        have : |(m : ℚ) * (2 : ℚ) ^ e| / 2 ^ 55 = |(m : ℚ) * (2 : ℚ) ^ e| * (1 / 2 ^ 55) := by ring
        nlinarith
    _ ≤ _ := by apply mul_le_mul_of_nonneg_right hxabs (by norm_num)

theorem rnePos_isSome (p q : ℕ) (hp : 0 < p) (hq : 0 < q) (hb : (p : ℚ) / q ≤ closeBound) :
    (rnePos p q).isSome = true := by
  obtain ⟨m, hm, hspec⟩ := rnePos_spec p q hp hq
  obtain ⟨hlo, -⟩ := ilog2_spec p q hp hq
  set lg := ilog2 p q
  have h1024 : closeBound < (2 : ℚ) ^ (1024 : ℤ) := by
    unfold closeBound
    have : (2 : ℚ) ^ (1024 : ℤ) = 2 ^ 53 * (2 : ℚ) ^ (971 : ℤ) := by
      rw [show (1024 : ℤ) = 53 + 971 by norm_num, zpow_add₀ two_ne]; norm_num
    rw [this]
    have hp971 := two_zpow_pos 971
    have c : ((2 : ℚ) ^ 53 - 1) * (1 + 1 / 2 ^ 55) < 2 ^ 53 := by norm_num
    calc ((2 : ℚ) ^ 53 - 1) * (2 : ℚ) ^ (971 : ℤ) * (1 + 1 / 2 ^ 55)
        = (((2 : ℚ) ^ 53 - 1) * (1 + 1 / 2 ^ 55)) * (2 : ℚ) ^ (971 : ℤ) := by ring
      _ < 2 ^ 53 * (2 : ℚ) ^ (971 : ℤ) := mul_lt_mul_of_pos_right c hp971
  have hlg : lg < 1024 := by
    have : (2 : ℚ) ^ lg < (2 : ℚ) ^ (1024 : ℤ) := lt_of_le_of_lt hlo (lt_of_le_of_lt hb h1024)
    exact (zpow_lt_zpow_iff_right₀ (by norm_num : (1 : ℚ) < 2)).mp this
  have he971 : max (lg - 52) (-1074) ≤ 971 := max_le (by omega) (by norm_num)
  rw [hspec]
  split
  · rename_i hov
    exfalso
    rcases hov with hov | ⟨hov, hm53⟩
    · omega
    · have he : max (lg - 52) (-1074) = 971 := by omega
      rw [he] at hm
      have hp971 := two_zpow_pos 971
      have ht : (p : ℚ) / q / (2 : ℚ) ^ (971 : ℤ) ≤ (2 ^ 53 - 1) * (1 + 1 / 2 ^ 55) := by
        rw [div_le_iff₀ hp971]
        calc (p : ℚ) / q ≤ closeBound := hb
          _ = _ := by unfold closeBound; ring
      have hmq : (9007199254740992 : ℚ) ≤ (m : ℚ) := by
        have h' : 9007199254740992 ≤ m := by norm_num at hm53; exact hm53
        exact_mod_cast h'
      have := (abs_le.mp hm).1
      have c2 : ((2 : ℚ) ^ 53 - 1) * (1 + 1 / 2 ^ 55) < 9007199254740992 - 1 / 2 := by norm_num
      linarith
  · rfl

/-- no overflow near binary64 values -/
theorem rne_isSome_of_close (x y : ℚ) (hx : IsF64 x) (hc : Close x y) : (rne y).isSome = true := by
  have hb := abs_le_closeBound hx hc
  rw [abs_eq_natAbs_div] at hb
  have hq : 0 < y.den := y.den_pos
  have key : (rnePos y.num.natAbs y.den).isSome = true := by
    rcases Nat.eq_zero_or_pos y.num.natAbs with h0 | hp
    · rw [h0, rnePos_zero]; rfl
    · exact rnePos_isSome _ _ hp hq hb
  unfold rne
  split
  · rw [Option.isSome_map]; exact key
  · exact key


/-! ### error bounds of the executable rounding -/


/-- absolute error of `rnePos`: half a unit in the last place, or half the subnormal spacing -/
theorem rnePos_err (p q : ℕ) (hp : 0 < p) (hq : 0 < q) (r : ℚ) (h : rnePos p q = some r) :
    |r - (p : ℚ) / q| ≤ (p : ℚ) / q / 2 ^ 53 + (2 : ℚ) ^ (-1075 : ℤ) := by
  obtain ⟨m, hm, hspec⟩ := rnePos_spec p q hp hq
  obtain ⟨hlo, -⟩ := ilog2_spec p q hp hq
  set y : ℚ := (p : ℚ) / q with hy
  set lg := ilog2 p q with hlg
  rw [hspec] at h
  split at h
  · cases h
  have hr : r = (m : ℚ) * (2 : ℚ) ^ (max (lg - 52) (-1074)) := by simpa using h.symm
  have hy0 : 0 ≤ y := by positivity
  have key : ∀ e : ℤ, (e = lg - 52 ∨ e = -1074) → |y / (2 : ℚ) ^ e - m| ≤ 1 / 2 →
      |(m : ℚ) * (2 : ℚ) ^ e - y| ≤ y / 2 ^ 53 + (2 : ℚ) ^ (-1075 : ℤ) := by
    intro e he hme
    have hpe := two_zpow_pos e
    have e1 : (m : ℚ) * (2 : ℚ) ^ e - y = -((y / (2 : ℚ) ^ e - m) * (2 : ℚ) ^ e) := by field_simp; ring
    rw [e1, abs_neg, abs_mul, abs_of_pos hpe]
    have h1 : |y / (2 : ℚ) ^ e - m| * (2 : ℚ) ^ e ≤ 1 / 2 * (2 : ℚ) ^ e :=
      mul_le_mul_of_nonneg_right hme hpe.le
    have h1075 := two_zpow_pos (-1075)
    rcases he with he | he
    · have : 1 / 2 * (2 : ℚ) ^ e = (2 : ℚ) ^ lg / 2 ^ 53 := by
        rw [he, show lg - 52 = lg + (-52) by ring, zpow_add₀ two_ne]; norm_num; ring
      have h2 : (2 : ℚ) ^ lg / 2 ^ 53 ≤ y / 2 ^ 53 := div_le_div_of_nonneg_right hlo (by positivity)
      linarith
    · have : 1 / 2 * (2 : ℚ) ^ e = (2 : ℚ) ^ (-1075 : ℤ) := by
        rw [he, show (-1075 : ℤ) = -1 + -1074 by norm_num, zpow_add₀ two_ne]; norm_num
      have : 0 ≤ y / 2 ^ 53 := by positivity
      linarith
  rw [hr]
  apply key _ _ hm
  rcases max_cases (lg - 52) (-1074) with ⟨h1, _⟩ | ⟨h1, _⟩
  · exact Or.inl h1
  · exact Or.inr h1

theorem rne_err (y r : ℚ) (h : rne y = some r) : |r - y| ≤ |y| / 2 ^ 53 + (2 : ℚ) ^ (-1075 : ℤ) := by
  unfold rne at h
  have habs := abs_eq_natAbs_div y
  have hq : 0 < y.den := y.den_pos
  by_cases hy : y < 0
  · simp only [hy, if_true, Option.map_eq_some_iff] at h
    obtain ⟨r', hr', rfl⟩ := h
    have hp : 0 < y.num.natAbs := by
      have : y.num ≠ 0 := by
        intro h0; rw [Rat.num_eq_zero] at h0; rw [h0] at hy; exact lt_irrefl _ hy
      exact Int.natAbs_pos.mpr this
    have := rnePos_err _ _ hp hq r' hr'
    rw [← habs] at this
    have e : -r' - y = -(r' - |y|) := by rw [abs_of_neg hy]; ring
    rw [e, abs_neg]; exact this
  · simp only [hy, if_false] at h
    have hy' : 0 ≤ y := not_lt.mp hy
    rcases Nat.eq_zero_or_pos y.num.natAbs with h0 | hp
    · rw [h0, rnePos_zero] at h
      have hy0 : y = 0 := by
        rw [← Rat.num_eq_zero]; exact Int.natAbs_eq_zero.mp h0
      cases h; subst hy0
      have := two_zpow_pos (-1075)
      simp; try linarith
    · have := rnePos_err _ _ hp hq r h
      rw [← habs, abs_of_nonneg hy'] at this
      rwa [abs_of_nonneg hy']

theorem rne_nonneg (y r : ℚ) (hy : 0 ≤ y) (h : rne y = some r) : 0 ≤ r := by
  by_contra hr
  push Not at hr
  have := (rne_nearest y r h).2 0 isF64_zero
  rw [sub_zero, abs_of_nonneg hy, abs_of_pos (by linarith)] at this
  linarith

theorem rne_isSome_of_abs_le (y : ℚ) (hb : |y| ≤ closeBound) : (rne y).isSome = true := by
  rw [abs_eq_natAbs_div] at hb
  have hq : 0 < y.den := y.den_pos
  have key : (rnePos y.num.natAbs y.den).isSome = true := by
    rcases Nat.eq_zero_or_pos y.num.natAbs with h0 | hp
    · rw [h0, rnePos_zero]; rfl
    · exact rnePos_isSome _ _ hp hq hb
  unfold rne
  split
  · rw [Option.isSome_map]; exact key
  · exact key

theorem closeBound_ge : (2 : ℚ) ^ 40 ≤ closeBound := by
  unfold closeBound
  have h1 : (1 : ℚ) ≤ (2 : ℚ) ^ (971 : ℤ) := one_le_zpow₀ (by norm_num) (by norm_num)
  have h2 : (2 : ℚ) ^ 40 ≤ (2 ^ 53 - 1) * 1 * (1 + 1 / 2 ^ 55) := by norm_num
  have h3 : ((2 : ℚ) ^ 53 - 1) * 1 * (1 + 1 / 2 ^ 55) ≤ (2 ^ 53 - 1) * (2 : ℚ) ^ (971 : ℤ) * (1 + 1 / 2 ^ 55) := by
    apply mul_le_mul_of_nonneg_right _ (by norm_num)
    apply mul_le_mul_of_nonneg_left h1 (by norm_num)
  exact le_trans h2 h3


/-- text → double: every rational within 2⁻⁵⁵ (relative) of a binary64 value `x` is rounded to `x` -/
theorem rne_eq_of_close (x y : ℚ) (hx : IsF64 x) (hc : Close x y) : rne y = some x := by
  obtain ⟨r, hr⟩ := Option.isSome_iff_exists.mp (rne_isSome_of_close x y hx hc)
  rw [hr, nearest_of_close hx hc (rne_nearest y r hr)]

theorem rne_id (x : ℚ) (hx : IsF64 x) : rne x = some x :=
  rne_eq_of_close x x hx (by unfold Close; simp; positivity)

theorem rne_zero : rne 0 = some 0 := by decide +kernel

end Evo.F64
