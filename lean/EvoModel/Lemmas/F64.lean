/-
binary64 as a set of rationals, and the decimal round-trip core of C06/C07:
a rational within relative distance 2⁻⁵⁵ of a binary64 value `x` has `x` as its *only* nearest
binary64 value (`f64_unique_near`), and a decimal correctly rounded to ≥ 18 significant digits is
that close (`digits_suffice`).
-/
import EvoModel.Model.F64
import EvoModel.Model.Basic
import Mathlib.Algebra.Order.Field.Rat
import Mathlib.Algebra.Order.Field.Power
import Mathlib.Algebra.Order.Ring.Rat
import Mathlib.Tactic.Linarith
import Mathlib.Tactic.Positivity
import Mathlib.Tactic.Ring
import Mathlib.Tactic.NormNum
namespace Evo.F64

/-- binary64 values (finite) as rationals `m · 2^e`, `|m| < 2⁵³`, `−1074 ≤ e ≤ 971` -/
def IsF64 (x : ℚ) : Prop :=
  ∃ m e : ℤ, |m| < 2 ^ 53 ∧ -1074 ≤ e ∧ e ≤ 971 ∧ x = m * (2 : ℚ) ^ e

/-- `r` is a binary64 value nearest to `y` (what any IEEE round-to-nearest conversion returns) -/
def IsNearestF64 (y r : ℚ) : Prop := IsF64 r ∧ ∀ z, IsF64 z → |y - r| ≤ |y - z|

/-- `y` is within relative distance 2⁻⁵⁵ of `x` -/
def Close (x y : ℚ) : Prop := |y - x| ≤ |x| / 2 ^ 55

theorem isF64_zero : IsF64 0 := ⟨0, 0, by norm_num, by norm_num, by norm_num, by norm_num⟩

theorem isF64_neg {x : ℚ} (h : IsF64 x) : IsF64 (-x) := by
  obtain ⟨m, e, hm, h1, h2, rfl⟩ := h
  exact ⟨-m, e, by rwa [abs_neg], h1, h2, by push_cast; ring⟩

theorem isF64_one : IsF64 1 := ⟨1, 0, by norm_num, by norm_num, by norm_num, by norm_num⟩

theorem two_zpow_pos (e : ℤ) : (0 : ℚ) < (2 : ℚ) ^ e := by positivity

/-- a value `m * 2^e` rewritten with a smaller exponent `E` has an integer mantissa -/
theorem rescale (m e E : ℤ) (h : E ≤ e) :
    ∃ a : ℤ, (m : ℚ) * (2 : ℚ) ^ e = a * (2 : ℚ) ^ E := by
  obtain ⟨d, hd⟩ := Int.eq_ofNat_of_zero_le (sub_nonneg.mpr h)
  refine ⟨m * 2 ^ d, ?_⟩
  have he : e = E + d := by omega
  rw [he, zpow_add₀ (by norm_num : (2 : ℚ) ≠ 0)]
  push_cast
  rw [zpow_natCast]
  ring

/-- two different points of the grid `2^E · ℤ` are at least `2^E` apart -/
theorem int_gap (a b E : ℤ) (h : (a : ℚ) * (2 : ℚ) ^ E ≠ b * (2 : ℚ) ^ E) :
    (2 : ℚ) ^ E ≤ |(a : ℚ) * (2 : ℚ) ^ E - b * (2 : ℚ) ^ E| := by
  have hab : a ≠ b := by rintro rfl; exact h rfl
  have h1 : (1 : ℚ) ≤ |((a - b : ℤ) : ℚ)| := by
    have : (1 : ℤ) ≤ |a - b| := Int.one_le_abs (sub_ne_zero.mpr hab)
    exact_mod_cast this
  have hp := two_zpow_pos E
  have : (a : ℚ) * (2 : ℚ) ^ E - b * (2 : ℚ) ^ E = ((a - b : ℤ) : ℚ) * (2 : ℚ) ^ E := by
    push_cast; ring
  rw [this, abs_mul, abs_of_pos hp]
  nlinarith

/-- The only binary64 value at least as near to `y` as `x` is `x` itself, whenever
`y` is within relative distance `2^-55` of the binary64 value `x`. -/
theorem f64_unique_near (x x' y : ℚ) (hx : IsF64 x) (hx' : IsF64 x')
    (hclose : |y - x| ≤ |x| / 2 ^ 55) (hnear : |y - x'| ≤ |y - x|) : x' = x := by
  by_contra hne
  obtain ⟨m, e, hm, -, -, rfl⟩ := hx
  obtain ⟨m', e', hm', -, -, rfl⟩ := hx'
  set x := (m : ℚ) * (2 : ℚ) ^ e with hxdef
  set x' := (m' : ℚ) * (2 : ℚ) ^ e' with hx'def
  have hd : |x - x'| ≤ |x| / 2 ^ 54 := by
    have h1 : |x - x'| ≤ |y - x| + |y - x'| := by
      have : x - x' = -(y - x) + (y - x') := by ring
      rw [this]
      calc |-(y - x) + (y - x')| ≤ |-(y - x)| + |y - x'| := abs_add_le _ _
        _ = |y - x| + |y - x'| := by rw [abs_neg]
    have h2 : |y - x| + |y - x'| ≤ 2 * (|x| / 2 ^ 55) := by linarith
    have h3 : 2 * (|x| / 2 ^ 55) = |x| / 2 ^ 54 := by ring
    linarith
  have hmq : |(m : ℚ)| < 2 ^ 53 := by exact_mod_cast hm
  have hmq' : |(m' : ℚ)| < 2 ^ 53 := by exact_mod_cast hm'
  have hxabs : |x| = |(m : ℚ)| * (2 : ℚ) ^ e := by
    rw [hxdef, abs_mul, abs_of_pos (two_zpow_pos e)]
  have hx'abs : |x'| = |(m' : ℚ)| * (2 : ℚ) ^ e' := by
    rw [hx'def, abs_mul, abs_of_pos (two_zpow_pos e')]
  rcases le_total e e' with hle | hle
  · obtain ⟨a', ha'⟩ := rescale m' e' e hle
    have hgap : (2 : ℚ) ^ e ≤ |x - x'| := by
      rw [hxdef, hx'def, ha']
      apply int_gap
      intro h; apply hne; rw [hx'def, hxdef, ha']; exact h.symm
    have hp := two_zpow_pos e
    have : |x| / 2 ^ 54 < (2 : ℚ) ^ e := by
      rw [hxabs, div_lt_iff₀ (by positivity)]
      nlinarith
    linarith
  · obtain ⟨a, ha⟩ := rescale m e e' hle
    have hgap : (2 : ℚ) ^ e' ≤ |x - x'| := by
      rw [hxdef, hx'def, ha]
      apply int_gap
      intro h; apply hne; rw [hx'def, hxdef, ha]; exact h.symm
    have hp := two_zpow_pos e'
    have htri : |x| ≤ |x'| + |x - x'| := by
      have : x = x' + (x - x') := by ring
      calc |x| = |x' + (x - x')| := by rw [← this]
        _ ≤ |x'| + |x - x'| := abs_add_le _ _
    have hx'lt : |x'| < 2 ^ 53 * (2 : ℚ) ^ e' := by
      rw [hx'abs]; exact mul_lt_mul_of_pos_right hmq' hp
    have hxnn : 0 ≤ |x| := abs_nonneg x
    have h54 : (0 : ℚ) < 2 ^ 54 := by positivity
    have hd' : |x - x'| * 2 ^ 54 ≤ |x| := by
      rwa [le_div_iff₀ h54] at hd
    nlinarith

/-- Any round-to-nearest conversion returns `x` for every rational `y` close to the binary64
value `x`: the text → double direction of the round trip. -/
theorem nearest_of_close {x y r : ℚ} (hx : IsF64 x) (hc : Close x y) (hr : IsNearestF64 y r) :
    r = x :=
  f64_unique_near x r y hx hr.1 hc (hr.2 x hx)

/-- A decimal `y` correctly rounded to `d ≥ 18` significant digits (`|y − x| ≤ ½·10^(k+1−d)` where
`10^k ≤ |x|`) is within relative distance 2⁻⁵⁵ of `x`.  (`%.18e` prints `d = 19` digits.) -/
theorem digits_suffice (x y : ℚ) (k : ℤ) (d : ℕ) (hd : 18 ≤ d) (hk : (10 : ℚ) ^ k ≤ |x|)
    (hy : |y - x| ≤ (10 : ℚ) ^ (k + 1 - d) / 2) : Close x y := by
  unfold Close
  have h10 : (10 : ℚ) ≠ 0 := by norm_num
  have hsplit : (10 : ℚ) ^ (k + 1 - d) = (10 : ℚ) ^ k * (10 : ℚ) ^ (1 - (d : ℤ)) := by
    rw [← zpow_add₀ h10]; congr 1; ring
  have hsmall : (10 : ℚ) ^ (1 - (d : ℤ)) ≤ (10 : ℚ) ^ (-17 : ℤ) := by
    apply zpow_le_zpow_right₀ (by norm_num)
    have : (18 : ℤ) ≤ d := by exact_mod_cast hd
    omega
  have hpk : (0 : ℚ) < (10 : ℚ) ^ k := by positivity
  have hp1 : (0 : ℚ) ≤ (10 : ℚ) ^ (1 - (d : ℤ)) := by positivity
  have hnum : (10 : ℚ) ^ (-17 : ℤ) / 2 ≤ 1 / 2 ^ 55 := by norm_num
  have hxn : 0 ≤ |x| := abs_nonneg x
  calc |y - x| ≤ (10 : ℚ) ^ (k + 1 - d) / 2 := hy
    _ = (10 : ℚ) ^ k * ((10 : ℚ) ^ (1 - (d : ℤ)) / 2) := by rw [hsplit]; ring
    _ ≤ |x| * ((10 : ℚ) ^ (-17 : ℤ) / 2) := by
        apply mul_le_mul hk _ (by positivity) hxn
        exact div_le_div_of_nonneg_right hsmall (by norm_num)
    _ ≤ |x| * (1 / 2 ^ 55) := by
        apply mul_le_mul_of_nonneg_left hnum hxn
    _ = |x| / 2 ^ 55 := by ring

theorem absR_eq_abs (x : ℚ) : Evo.absR x = |x| := by
  unfold Evo.absR
  split
  · rename_i h; rw [abs_of_neg h]
  · rename_i h; rw [abs_of_nonneg (not_lt.mp h)]

end Evo.F64
