/-
C19 — soundness of a static discipline ("type system") for programs of file-system steps:
every program accepted by `Ok` (writes only to its own temp files, renames only complete
well-formed temp files, creates the directory with exist_ok, reads only what it knows to exist)
keeps `Consistent` (hence `Safe`) in every interleaving with any number of other accepted
programs, whatever their crash points, and never fails.  No Mathlib needed.
-/
import EvoModel.Model.SettingsProc
namespace Evo.FS

/-- what a process knows about one of its own temp files -/
inductive TmpSt | unknown | opened | torn | good
  deriving DecidableEq

/-- per-process knowledge that no other (accepted) process can invalidate -/
structure Facts where
  dir : Bool := false              -- `~/.evo` exists
  ex : Tgt → Bool := fun _ => false   -- the target exists (files are never removed)
  tmp : Tgt → TmpSt := fun _ => .unknown
  rdAny : Bool := false            -- register `rd` holds a document
  rdGood : Bool := false           -- … with every default key
  loaded : Bool := false           -- register `loaded` holds a document with every default key
  sGood : Bool := false            -- settings absent or complete with every default key, from now on

def Facts.setEx (F : Facts) (t : Tgt) : Facts := { F with ex := fun u => if u = t then true else F.ex u }
def Facts.setTmp (F : Facts) (t : Tgt) (s : TmpSt) : Facts :=
  { F with tmp := fun u => if u = t then s else F.tmp u }
def Facts.afterRead (F : Facts) : Reg → Facts
  | .rd => { F with rdAny := true, rdGood := F.sGood }
  | .loaded => { F with loaded := F.sGood }
  | .scratch => F
def Facts.afterReplace (F : Facts) : Tgt → Facts
  | .S => { (F.setTmp .S .unknown).setEx .S with sGood := true }
  | .V => (F.setTmp .V .unknown).setEx .V

/-- an edit never loses a default key -/
def KeyMono (f : Doc → Doc) : Prop := ∀ d, hasDefaults d = true → hasDefaults (f d) = true

def SrcOk (F : Facts) : Tgt → Src → Prop
  | .V, .version => True
  | .S, .defaults => True
  | .S, .upgraded => F.rdAny = true
  | .S, .edit _ f => F.rdGood = true ∧ KeyMono f
  | _, _ => False

/-- the static discipline; `post` is what must be known when the program ends -/
def Ok (post : Facts → Prop) : Facts → Prog → Prop
  | F, .done => post F
  | F, .mkdirOk k => Ok post { F with dir := true } k
  | _, .mkdirStrict _ => False
  | F, .ifDir y n => Ok post { F with dir := true } y ∧ Ok post F n
  | F, .ifExists .S y n => Ok post (F.setEx .S) y ∧ Ok post { F with sGood := true } n
  | F, .ifExists .V y n => Ok post (F.setEx .V) y ∧ Ok post { F with sGood := true } n
  | F, .openW (.myTmp t) k => F.dir = true ∧ Ok post (F.setTmp t .opened) k
  | _, .openW (.target _) _ => False
  | F, .write (.myTmp t) s k => F.tmp t = .opened ∧ SrcOk F t s ∧ Ok post (F.setTmp t .good) k
  | _, .write (.target _) _ _ => False
  | F, .writeRest (.myTmp t) s k => F.tmp t = .torn ∧ SrcOk F t s ∧ Ok post (F.setTmp t .good) k
  | _, .writeRest (.target _) _ _ => False
  | F, .close _ k => Ok post F k
  | F, .replace t k => F.tmp t = .good ∧ (t = .V → F.sGood = true) ∧ Ok post (F.afterReplace t) k
  | F, .readVer c o => F.ex .V = true ∧ Ok post { F with sGood := true } c ∧ Ok post F o
  | F, .readDoc r k => F.ex .S = true ∧ Ok post (F.afterRead r) k

/-- the facts of process `pid` hold in the current state -/
structure Holds (pid : Nat) (F : Facts) (r : Regs) (fs : FS) : Prop where
  dir : F.dir = true → fs.dir = true
  ex : ∀ t, F.ex t = true → fs.file (.file t) ≠ .absent
  opened : ∀ t, F.tmp t = .opened → fs.file (.tmp t pid) = .empty
  torn : ∀ t, F.tmp t = .torn → fs.file (.tmp t pid) = .torn
  goodS : F.tmp .S = .good → (fs.file (.tmp .S pid)).wf = true
  goodV : F.tmp .V = .good → fs.file (.tmp .V pid) = .full (.ver current)
  rdAny : F.rdAny = true → ∃ d, r.rd = some d
  rdGood : F.rdGood = true → ∃ d, r.rd = some d ∧ hasDefaults d = true
  loaded : F.loaded = true → ∃ d, r.loaded = some d ∧ hasDefaults d = true
  sGood : F.sGood = true → Good fs

/-- what a step of process `i` can do to the others' view, whatever its program -/
structure Interf (i : Nat) (fs fs' : FS) : Prop where
  dir : fs.dir = true → fs'.dir = true
  ex : ∀ t, fs.file (.file t) ≠ .absent → fs'.file (.file t) ≠ .absent
  tmp : ∀ t j, j ≠ i → fs'.file (.tmp t j) = fs.file (.tmp t j)

theorem Interf.refl (i : Nat) (fs : FS) : Interf i fs fs := ⟨id, fun _ h => h, fun _ _ _ => rfl⟩

@[simp] theorem FS.set_dir (fs : FS) (p : Path) (f : File) : (fs.set p f).dir = fs.dir := rfl
@[simp] theorem FS.set_file (fs : FS) (p q : Path) (f : File) :
    (fs.set p f).file q = if q = p then f else fs.file q := rfl

theorem wf_isDoc {f : File} (h : f.wf = true) : f.isDoc = true := by
  cases f with
  | full t => cases t <;> simp_all [File.wf, File.isDoc]
  | _ => simp [File.wf] at h

theorem wf_ne_absent {f : File} (h : f.wf = true) : f ≠ .absent := by
  intro h'; subst h'; simp [File.wf] at h

theorem Good.safe {fs : FS} (h : Good fs) : Safe fs := h.imp id wf_isDoc

/-- facts survive a step of another process that respects `Good` -/
theorem Holds.stable {pid i : Nat} {F : Facts} {r : Regs} {fs fs' : FS}
    (h : Holds pid F r fs) (hi : Interf i fs fs') (hg : Good fs → Good fs') (hne : pid ≠ i) :
    Holds pid F r fs' where
  dir := fun hF => hi.dir (h.dir hF)
  ex := fun t hF => hi.ex t (h.ex t hF)
  opened := fun t hF => by rw [hi.tmp t pid hne]; exact h.opened t hF
  torn := fun t hF => by rw [hi.tmp t pid hne]; exact h.torn t hF
  goodS := fun hF => by rw [hi.tmp .S pid hne]; exact h.goodS hF
  goodV := fun hF => by rw [hi.tmp .V pid hne]; exact h.goodV hF
  rdAny := h.rdAny
  rdGood := h.rdGood
  loaded := h.loaded
  sGood := fun hF => hg (h.sGood hF)

theorem hasDefaults_upgrade (d : Doc) : hasDefaults (upgrade d) = true := by
  unfold hasDefaults upgrade
  rw [List.all_eq_true]
  intro k hk
  by_cases h : d.contains k = true
  · simp only [List.contains_eq_mem, List.mem_append, decide_eq_true_eq] at h ⊢
    exact Or.inl h
  · simp only [List.contains_eq_mem, List.mem_append, decide_eq_true_eq, List.mem_filter] at h ⊢
    exact Or.inr ⟨hk, by simpa using h⟩

theorem hasDefaults_defaults : hasDefaults Evo.Gen.defaultKeys = true := by
  unfold hasDefaults
  rw [List.all_eq_true]
  intro k hk
  simpa using hk

/-! ### effect of writing to one's own temp file -/

theorem setTmp_cons {fs : FS} (t : Tgt) (pid : Nat) (f : File) (h : Consistent fs) :
    Consistent (fs.set (.tmp t pid) f) := by
  simpa [Consistent, Safe, Good] using h

theorem setTmp_good {fs : FS} (t : Tgt) (pid : Nat) (f : File) (h : Good fs) :
    Good (fs.set (.tmp t pid) f) := by
  simpa [Good] using h

theorem setTmp_interf (fs : FS) (t : Tgt) (pid : Nat) (f : File) :
    Interf pid fs (fs.set (.tmp t pid) f) where
  dir := id
  ex := fun u h => by simpa using h
  tmp := fun u j hj => by
    have : (Path.tmp u j = Path.tmp t pid) = False := by simp [hj]
    simp [this]

theorem Holds.setTmp {pid : Nat} {F : Facts} {r : Regs} {fs : FS} (h : Holds pid F r fs)
    (t : Tgt) (st : TmpSt) (f : File)
    (ho : st = .opened → f = .empty) (ht : st = .torn → f = .torn)
    (hs : st = .good → t = .S → f.wf = true) (hv : st = .good → t = .V → f = .full (.ver current)) :
    Holds pid (F.setTmp t st) r (fs.set (.tmp t pid) f) where
  dir := h.dir
  ex := fun u hF => by simpa using h.ex u hF
  opened := fun u hF => by
    by_cases hu : u = t
    · subst hu; simp [Facts.setTmp] at hF; simp [ho hF]
    · simp [Facts.setTmp, hu] at hF; simp [hu, h.opened u hF]
  torn := fun u hF => by
    by_cases hu : u = t
    · subst hu; simp [Facts.setTmp] at hF; simp [ht hF]
    · simp [Facts.setTmp, hu] at hF; simp [hu, h.torn u hF]
  goodS := fun hF => by
    by_cases hu : Tgt.S = t
    · subst hu; simp [Facts.setTmp] at hF; simp [hs hF rfl]
    · simp [Facts.setTmp, hu] at hF; simp [hu, h.goodS hF]
  goodV := fun hF => by
    by_cases hu : Tgt.V = t
    · subst hu; simp [Facts.setTmp] at hF; simp [hv hF rfl]
    · simp [Facts.setTmp, hu] at hF; simp [hu, h.goodV hF]
  rdAny := h.rdAny
  rdGood := h.rdGood
  loaded := h.loaded
  sGood := fun hF => setTmp_good t pid f (h.sGood hF)

theorem SrcOk.text {F : Facts} {pid : Nat} {r : Regs} {fs : FS} {t : Tgt} {s : Src}
    (h : SrcOk F t s) (hh : Holds pid F r fs) :
    ∃ tx, s.text r = some tx ∧ (t = .S → (File.full tx).wf = true) ∧ (t = .V → tx = .ver current) := by
  cases t <;> cases s <;> simp only [SrcOk] at h
  · exact ⟨_, rfl, fun _ => by simp [File.wf, hasDefaults_defaults], fun h => by cases h⟩
  · obtain ⟨d, hd⟩ := hh.rdAny h
    exact ⟨.doc (upgrade d), by simp [Src.text, hd], fun _ => by simp [File.wf, hasDefaults_upgrade],
      fun h => by cases h⟩
  · obtain ⟨d, hd, hk⟩ := hh.rdGood h.1
    exact ⟨.doc (_), by simp [Src.text, hd]; rfl, fun _ => by simp [File.wf, h.2 d hk], fun h => by cases h⟩
  · exact ⟨_, rfl, fun h => (by cases h), fun _ => rfl⟩

/-- result of one step of an accepted process -/
structure StepOut (post : Facts → Prop) (pid : Nat) (p' : Proc) (fs fs' : FS) : Prop where
  nofail : p'.failed = false
  facts : ∃ F', Ok post F' p'.prog ∧ Holds pid F' p'.regs fs'
  cons : Consistent fs'
  good : Good fs → Good fs'
  interf : Interf pid fs fs'

theorem StepOut.same {post : Facts → Prop} {pid : Nat} {p' : Proc} {fs : FS}
    (hnf : p'.failed = false) (hf : ∃ F', Ok post F' p'.prog ∧ Holds pid F' p'.regs fs)
    (hc : Consistent fs) : StepOut post pid p' fs fs :=
  ⟨hnf, hf, hc, id, Interf.refl _ _⟩

theorem Facts.setTmp_setTmp (F : Facts) (t : Tgt) (a b : TmpSt) : (F.setTmp t a).setTmp t b = F.setTmp t b := by
  unfold Facts.setTmp
  congr 1
  funext u
  by_cases h : u = t <;> simp [h]

theorem SrcOk.mono {F G : Facts} {t : Tgt} {s : Src} (h : SrcOk F t s)
    (h1 : G.rdAny = F.rdAny) (h2 : G.rdGood = F.rdGood) : SrcOk G t s := by
  cases t <;> cases s <;> simp_all [SrcOk]

/-- **soundness of the discipline**: a step of an accepted, not failed process whose facts hold,
in a consistent state, does not fail, leaves an accepted program whose facts hold, keeps the state
consistent, never destroys `Good`, and interferes with nobody. -/
theorem step_sound {post : Facts → Prop} (pid : Nat) (tear : Bool) (p : Proc) (fs : FS) (F : Facts)
    (hok : Ok post F p.prog) (hh : Holds pid F p.regs fs) (hc : Consistent fs) (hnf : p.failed = false) :
    StepOut post pid (step pid tear p fs).1 fs (step pid tear p fs).2 := by
  obtain ⟨prog, regs, failed⟩ := p
  simp only at hnf hok hh
  subst hnf
  cases prog with
  | done => simpa [step] using StepOut.same rfl ⟨F, hok, hh⟩ hc
  | mkdirOk k =>
    simp only [step, Bool.false_eq_true, if_false]
    refine ⟨rfl, ⟨_, hok, ⟨fun _ => rfl, hh.ex, hh.opened, hh.torn, hh.goodS, hh.goodV, hh.rdAny, hh.rdGood,
      hh.loaded, fun h => hh.sGood h⟩⟩, hc, id, ⟨fun _ => rfl, fun _ h => h, fun _ _ _ => rfl⟩⟩
  | mkdirStrict k => exact absurd hok (by simp [Ok])
  | ifDir y n =>
    simp only [step, Bool.false_eq_true, if_false]
    refine StepOut.same rfl ?_ hc
    by_cases hd : fs.dir = true
    · simp only [hd, if_true]
      exact ⟨_, hok.1, ⟨fun _ => hd, hh.ex, hh.opened, hh.torn, hh.goodS, hh.goodV, hh.rdAny, hh.rdGood,
        hh.loaded, hh.sGood⟩⟩
    · simp only [hd, if_false]
      exact ⟨_, hok.2, hh⟩
  | ifExists t y n =>
    simp only [step, Bool.false_eq_true, if_false]
    refine StepOut.same rfl ?_ hc
    by_cases ha : fs.file (.file t) = .absent
    · simp only [ha, if_true]
      have hg : Good fs := by
        cases t with
        | S => exact Or.inl ha
        | V => exact hc.2 (Or.inl ha)
      refine ⟨{ F with sGood := true }, by cases t <;> exact hok.2, ?_⟩
      exact ⟨hh.dir, hh.ex, hh.opened, hh.torn, hh.goodS, hh.goodV, hh.rdAny, hh.rdGood, hh.loaded, fun _ => hg⟩
    · simp only [ha, if_false]
      refine ⟨F.setEx t, by cases t <;> exact hok.1, ?_⟩
      refine ⟨hh.dir, fun u hu => ?_, hh.opened, hh.torn, hh.goodS, hh.goodV, hh.rdAny, hh.rdGood, hh.loaded, hh.sGood⟩
      by_cases hut : u = t
      · subst hut; exact ha
      · simp [Facts.setEx, hut] at hu; exact hh.ex u hu
  | openW r k =>
    cases r with
    | target t => exact absurd hok (by simp [Ok])
    | myTmp t =>
      simp only [Ok] at hok
      have hd := hh.dir hok.1
      simp only [step, Bool.false_eq_true, if_false, hd, if_true, PRef.path]
      exact ⟨rfl, ⟨_, hok.2, hh.setTmp t .opened .empty (fun _ => rfl) (by simp) (by simp) (by simp)⟩,
        setTmp_cons _ _ _ hc, setTmp_good _ _ _, setTmp_interf _ _ _ _⟩
  | write r s k =>
    cases r with
    | target t => exact absurd hok (by simp [Ok])
    | myTmp t =>
      simp only [Ok] at hok
      obtain ⟨tx, htx, hS, hV⟩ := hok.2.1.text hh
      have he := hh.opened t hok.1
      simp only [step, Bool.false_eq_true, if_false, htx, PRef.path, he]
      cases tear with
      | true =>
        simp only [if_true]
        refine ⟨rfl, ⟨F.setTmp t .torn, ?_, hh.setTmp t .torn .torn (by simp) (fun _ => rfl) (by simp) (by simp)⟩,
          setTmp_cons _ _ _ hc, setTmp_good _ _ _, setTmp_interf _ _ _ _⟩
        simp only [Ok]
        refine ⟨by simp [Facts.setTmp], hok.2.1.mono rfl rfl, ?_⟩
        rw [Facts.setTmp_setTmp]; exact hok.2.2
      | false =>
        simp only [Bool.false_eq_true, if_false]
        exact ⟨rfl, ⟨_, hok.2.2, hh.setTmp t .good (.full tx) (by simp) (by simp) (fun _ h => hS h)
          (fun _ h => by rw [hV h])⟩, setTmp_cons _ _ _ hc, setTmp_good _ _ _, setTmp_interf _ _ _ _⟩
  | writeRest r s k =>
    cases r with
    | target t => exact absurd hok (by simp [Ok])
    | myTmp t =>
      simp only [Ok] at hok
      obtain ⟨tx, htx, hS, hV⟩ := hok.2.1.text hh
      have he := hh.torn t hok.1
      simp only [step, Bool.false_eq_true, if_false, htx, PRef.path, he]
      exact ⟨rfl, ⟨_, hok.2.2, hh.setTmp t .good (.full tx) (by simp) (by simp) (fun _ h => hS h)
        (fun _ h => by rw [hV h])⟩, setTmp_cons _ _ _ hc, setTmp_good _ _ _, setTmp_interf _ _ _ _⟩
  | close r k =>
    simp only [step, Bool.false_eq_true, if_false]
    exact StepOut.same rfl ⟨F, hok, hh⟩ hc
  | replace t k =>
    simp only [Ok] at hok
    obtain ⟨hgood, hVg, hk⟩ := hok
    cases t with
    | S =>
      have hw := hh.goodS hgood
      have hna := wf_ne_absent hw
      have hstep : step pid tear ⟨.replace .S k, regs, false⟩ fs =
          (⟨k, regs, false⟩, (fs.set (.file .S) (fs.file (.tmp .S pid))).set (.tmp .S pid) .absent) := by
        simp only [step, Bool.false_eq_true, if_false]
      rw [hstep]
      have hG : Good ((fs.set (.file .S) (fs.file (.tmp .S pid))).set (.tmp .S pid) .absent) := by
        right; simpa using hw
      refine ⟨rfl, ⟨_, hk, ?_⟩, ⟨hG.safe, fun _ => hG⟩, fun _ => hG, ?_⟩
      · refine ⟨hh.dir, fun u hu => ?_, fun u hu => ?_, fun u hu => ?_, fun hu => ?_, fun hu => ?_,
          hh.rdAny, hh.rdGood, hh.loaded, fun _ => hG⟩
        · cases u with
          | S => simpa using hna
          | V => simp [Facts.afterReplace, Facts.setEx, Facts.setTmp] at hu; simpa using hh.ex .V hu
        · cases u with
          | S => simp [Facts.afterReplace, Facts.setEx, Facts.setTmp] at hu
          | V => simp [Facts.afterReplace, Facts.setEx, Facts.setTmp] at hu; simpa using hh.opened .V hu
        · cases u with
          | S => simp [Facts.afterReplace, Facts.setEx, Facts.setTmp] at hu
          | V => simp [Facts.afterReplace, Facts.setEx, Facts.setTmp] at hu; simpa using hh.torn .V hu
        · simp [Facts.afterReplace, Facts.setEx, Facts.setTmp] at hu
        · simp [Facts.afterReplace, Facts.setEx, Facts.setTmp] at hu; simpa using hh.goodV hu
      · refine ⟨id, fun u hu => ?_, fun u j hj => ?_⟩
        · cases u with
          | S => simpa using hna
          | V => simpa using hu
        · have : (Path.tmp u j = Path.tmp .S pid) = False := by simp [hj]
          simp [this]
    | V =>
      have hw := hh.goodV hgood
      have hsg := hh.sGood (hVg rfl)
      have hstep : step pid tear ⟨.replace .V k, regs, false⟩ fs =
          (⟨k, regs, false⟩, (fs.set (.file .V) (.full (.ver current))).set (.tmp .V pid) .absent) := by
        simp only [step, Bool.false_eq_true, if_false, hw]
      rw [hstep]
      have hG : Good ((fs.set (.file .V) (.full (.ver current))).set (.tmp .V pid) .absent) := by
        simpa [Good] using hsg
      refine ⟨rfl, ⟨_, hk, ?_⟩, ⟨hG.safe, fun _ => hG⟩, fun _ => hG, ?_⟩
      · refine ⟨hh.dir, fun u hu => ?_, fun u hu => ?_, fun u hu => ?_, fun hu => ?_, fun hu => ?_,
          hh.rdAny, hh.rdGood, hh.loaded, fun _ => hG⟩
        · cases u with
          | V => simp
          | S => simp [Facts.afterReplace, Facts.setEx, Facts.setTmp] at hu; simpa using hh.ex .S hu
        · cases u with
          | V => simp [Facts.afterReplace, Facts.setEx, Facts.setTmp] at hu
          | S => simp [Facts.afterReplace, Facts.setEx, Facts.setTmp] at hu; simpa using hh.opened .S hu
        · cases u with
          | V => simp [Facts.afterReplace, Facts.setEx, Facts.setTmp] at hu
          | S => simp [Facts.afterReplace, Facts.setEx, Facts.setTmp] at hu; simpa using hh.torn .S hu
        · simp [Facts.afterReplace, Facts.setEx, Facts.setTmp] at hu; simpa using hh.goodS hu
        · simp [Facts.afterReplace, Facts.setEx, Facts.setTmp] at hu
      · refine ⟨id, fun u hu => ?_, fun u j hj => ?_⟩
        · cases u with
          | V => simp
          | S => simpa using hu
        · have : (Path.tmp u j = Path.tmp .V pid) = False := by simp [hj]
          simp [this]
  | readVer c o =>
    simp only [Ok] at hok
    obtain ⟨hex, hc', ho⟩ := hok
    have hna := hh.ex .V hex
    have key : ∃ q, (step pid tear ⟨.readVer c o, regs, false⟩ fs = (⟨q, regs, false⟩, fs)) ∧
        ((q = c ∧ fs.file (.file .V) = .full (.ver current)) ∨ q = o) := by
      simp only [step, Bool.false_eq_true, if_false]
      split
      · next h => exact absurd h hna
      · next v h =>
        by_cases hv : v = current
        · exact ⟨c, by simp [hv], Or.inl ⟨rfl, by rw [h, hv]⟩⟩
        · exact ⟨o, by simp [hv], Or.inr rfl⟩
      · exact ⟨o, rfl, Or.inr rfl⟩
    obtain ⟨q, hq, hcase⟩ := key
    rw [hq]
    refine StepOut.same rfl ?_ hc
    rcases hcase with ⟨rfl, hv⟩ | rfl
    · exact ⟨_, hc', ⟨hh.dir, hh.ex, hh.opened, hh.torn, hh.goodS, hh.goodV, hh.rdAny, hh.rdGood, hh.loaded,
        fun _ => hc.2 (Or.inr hv)⟩⟩
    · exact ⟨_, ho, hh⟩
  | readDoc r k =>
    simp only [Ok] at hok
    obtain ⟨hex, hk⟩ := hok
    have hna := hh.ex .S hex
    have hdoc : ∃ d, fs.file (.file .S) = .full (.doc d) := by
      rcases hc.1 with h | h
      · exact absurd h hna
      · cases hf : fs.file (.file .S) with
        | full t => cases t with
          | doc d => exact ⟨d, rfl⟩
          | ver v => simp [hf, File.isDoc] at h
        | _ => simp [hf, File.isDoc] at h
    obtain ⟨d, hd⟩ := hdoc
    have hstep : step pid tear ⟨.readDoc r k, regs, false⟩ fs = (⟨k, regs.put r d, false⟩, fs) := by
      simp only [step, Bool.false_eq_true, if_false, hd]
    rw [hstep]
    refine StepOut.same rfl ⟨_, hk, ?_⟩ hc
    have hgd : F.sGood = true → hasDefaults d = true := fun hs => by
      rcases hh.sGood hs with h | h
      · exact absurd h hna
      · simpa [hd, File.wf] using h
    cases r with
    | rd =>
      exact ⟨hh.dir, hh.ex, hh.opened, hh.torn, hh.goodS, hh.goodV, fun _ => ⟨d, rfl⟩,
        fun hs => ⟨d, rfl, hgd hs⟩, hh.loaded, hh.sGood⟩
    | loaded =>
      exact ⟨hh.dir, hh.ex, hh.opened, hh.torn, hh.goodS, hh.goodV, hh.rdAny, hh.rdGood,
        fun hs => ⟨d, rfl, hgd hs⟩, hh.sGood⟩
    | scratch => exact hh

/-! ### the system: any number of processes, any schedule -/

/-- the inductive invariant of a run -/
def PInv (post : Facts → Prop) (s : State) : Prop :=
  Consistent s.fs ∧ ∀ j p, s.procs[j]? = some p →
    p.failed = false ∧ ∃ F, Ok post F p.prog ∧ Holds j F p.regs s.fs

/-- initial states: a consistent home, every process at the start of an accepted program -/
def Init (post : Facts → Prop) (s : State) : Prop :=
  Consistent s.fs ∧ ∀ p ∈ s.procs, p.failed = false ∧ Ok post {} p.prog

theorem Holds.empty (pid : Nat) (r : Regs) (fs : FS) : Holds pid {} r fs := by
  constructor <;> intros <;> simp_all

theorem init_pinv {post : Facts → Prop} {s : State} (h : Init post s) : PInv post s := by
  refine ⟨h.1, fun j p hp => ?_⟩
  obtain ⟨hnf, hok⟩ := h.2 p (List.mem_of_getElem? hp)
  exact ⟨hnf, {}, hok, Holds.empty _ _ _⟩

theorem sched_pinv {post : Facts → Prop} {s : State} (h : PInv post s) (i : Nat) (tear : Bool) :
    PInv post (s.sched i tear) ∧ (Good s.fs → Good (s.sched i tear).fs) := by
  unfold State.sched
  cases hi : s.procs[i]? with
  | none => exact ⟨h, id⟩
  | some p =>
    obtain ⟨hnf, F, hok, hh⟩ := h.2 i p hi
    have so := step_sound i tear p s.fs F hok hh h.1 hnf
    refine ⟨⟨so.cons, fun j q hq => ?_⟩, so.good⟩
    simp only [List.getElem?_set] at hq
    by_cases hij : i = j
    · subst hij
      have hlt : i < s.procs.length := by
        rcases Nat.lt_or_ge i s.procs.length with h' | h'
        · exact h'
        · rw [List.getElem?_eq_none h'] at hi; cases hi
      simp only [hlt, if_true] at hq
      cases hq
      exact ⟨so.nofail, so.facts⟩
    · simp only [hij, if_false] at hq
      obtain ⟨hnf', F', hok', hh'⟩ := h.2 j q hq
      exact ⟨hnf', F', hok', hh'.stable so.interf so.good (fun h => hij h.symm)⟩

theorem run_pinv {post : Facts → Prop} (sched : List (Nat × Bool)) {s : State} (h : PInv post s) :
    PInv post (run s sched) := by
  induction sched generalizing s with
  | nil => exact h
  | cons e rest ih => exact ih (sched_pinv h e.1 e.2).1

/-! ### progress -/

theorem step_size (pid : Nat) (tear : Bool) (p : Proc) (fs : FS)
    (hnf : (step pid tear p fs).1.failed = false) (hnd : p.prog.isDone = false) :
    (step pid tear p fs).1.prog.size < p.prog.size := by
  obtain ⟨prog, regs, failed⟩ := p
  cases failed with
  | true => simp [step] at hnf
  | false =>
    cases prog with
    | done => simp [Prog.isDone] at hnd
    | mkdirOk k => simp [step, Prog.size]
    | mkdirStrict k =>
      by_cases hd : fs.dir = true
      · simp [step, hd, Proc.fail] at hnf
      · simp [step, hd, Prog.size]
    | ifDir y n =>
      by_cases hd : fs.dir = true <;> simp [step, hd, Prog.size] <;> omega
    | ifExists t y n =>
      by_cases hd : fs.file (.file t) = .absent <;> simp [step, hd, Prog.size] <;> omega
    | openW r k =>
      by_cases hd : fs.dir = true
      · simp [step, hd, Prog.size]
      · simp [step, hd, Proc.fail] at hnf
    | write r s k =>
      simp only [step, Bool.false_eq_true, if_false] at hnf ⊢
      cases ht : s.text regs with
      | none => simp [ht, Proc.fail] at hnf
      | some t =>
        simp only []
        split
        · cases tear <;> simp [Prog.size]
        · simp [Prog.size]
    | writeRest r s k =>
      simp only [step, Bool.false_eq_true, if_false] at hnf ⊢
      cases ht : s.text regs with
      | none => simp [ht, Proc.fail] at hnf
      | some t =>
        simp only []
        split <;> simp [Prog.size]
    | close r k => simp [step, Prog.size]
    | replace t k =>
      simp only [step, Bool.false_eq_true, if_false] at hnf ⊢
      split at hnf
      · simp [Proc.fail] at hnf
      · simp [Prog.size]
    | readVer c o =>
      simp only [step, Bool.false_eq_true, if_false] at hnf ⊢
      split at hnf
      · simp [Proc.fail] at hnf
      · next v hv =>
        by_cases hc : v = current <;> simp [hc, Prog.size] <;> omega
      · simp [Prog.size]; omega
    | readDoc r k =>
      simp only [step, Bool.false_eq_true, if_false] at hnf ⊢
      split at hnf
      · simp [Prog.size]
      · simp [Proc.fail] at hnf

end Evo.FS
