/-
Frame reasoning for `Model/Heap.lean`: every method of an object is *local* — it only writes
arrays the object reaches or freshly allocated ones, and afterwards reaches only such arrays.
Separation is preserved by local steps and implies non-interference.
-/
import EvoModel.Model.Heap
import Mathlib.Tactic.Ring
namespace Evo.Heap
open Evo Evo.Traj

/-! ### primitives -/

@[simp] theorem alloc_next (h : Heap) (v : Val) : (h.alloc v).1.next = h.next + 1 := rfl
@[simp] theorem alloc_addr (h : Heap) (v : Val) : (h.alloc v).2 = h.next := rfl
theorem alloc_get (h : Heap) (v : Val) (a : Nat) (ha : a < h.next) : (h.alloc v).1.get a = h.get a := by
  simp only [Heap.alloc]; rw [if_neg (by omega)]
@[simp] theorem write_next (h : Heap) (a : Nat) (v : Val) : (h.write a v).next = h.next := rfl
theorem write_get (h : Heap) (a x : Nat) (v : Val) (hx : x ≠ a) : (h.write a v).get x = h.get x := by
  simp only [Heap.write]; rw [if_neg hx]

/-- the heap only grew: nothing that existed was written -/
structure Ext (h h' : Heap) : Prop where
  mono : h.next ≤ h'.next
  same : ∀ a, a < h.next → h'.get a = h.get a

theorem Ext.refl (h : Heap) : Ext h h := ⟨Nat.le_refl _, fun _ _ => rfl⟩
theorem Ext.trans {h1 h2 h3 : Heap} (a : Ext h1 h2) (b : Ext h2 h3) : Ext h1 h3 :=
  ⟨Nat.le_trans a.mono b.mono, fun x hx => by rw [b.same x (Nat.lt_of_lt_of_le hx a.mono), a.same x hx]⟩
theorem alloc_ext (h : Heap) (v : Val) : Ext h (h.alloc v).1 := ⟨by simp, fun a ha => alloc_get h v a ha⟩

theorem allocList_spec (h : Heap) (vs : List Val) :
    Ext h (h.allocList vs).1 ∧ (h.allocList vs).1.next = h.next + vs.length ∧
    (h.allocList vs).2.length = vs.length ∧
    ∀ b ∈ (h.allocList vs).2, h.next ≤ b ∧ b < (h.allocList vs).1.next := by
  induction vs generalizing h with
  | nil => exact ⟨Ext.refl h, rfl, rfl, fun b hb => by simp [Heap.allocList] at hb⟩
  | cons v r ih =>
      obtain ⟨e, n, l, m⟩ := ih (h.alloc v).1
      simp only [Heap.allocList]
      refine ⟨(alloc_ext h v).trans e, by rw [n]; simp; omega, by simp [l], ?_⟩
      intro b hb
      simp only [List.mem_cons] at hb
      rcases hb with rfl | hb
      · rw [n]; simp; omega
      · have := m b hb; simp at this; omega

/-! ### reachability -/

theorem mem_reach {o : Obj} {a : Nat} :
    a ∈ o.reach ↔ o.pos? = some a ∨ o.quat? = some a ∨ o.stamps? = some a ∨ ∃ l, o.se3? = some l ∧ a ∈ l := by
  unfold Obj.reach
  cases o.pos? <;> cases o.quat? <;> cases o.stamps? <;> cases o.se3? <;> simp [eq_comm]

/-- every array the object reaches exists -/
def Wf (h : Heap) (o : Obj) : Prop := ∀ a ∈ o.reach, a < h.next

/-- all arrays of the object were allocated after `h` -/
def FreshSince (h : Heap) (o : Obj) : Prop := ∀ a ∈ o.reach, h.next ≤ a

/-- a *local* step of object `o`: arrays outside its reach are not written; afterwards it reaches
only arrays it reached before or fresh ones -/
structure Local (h : Heap) (o : Obj) (h' : Heap) (o' : Obj) : Prop where
  mono : h.next ≤ h'.next
  frame : ∀ a, a < h.next → a ∉ o.reach → h'.get a = h.get a
  reach : ∀ a ∈ o'.reach, a ∈ o.reach ∨ (h.next ≤ a ∧ a < h'.next)

theorem Local.refl (h : Heap) (o : Obj) : Local h o h o := ⟨Nat.le_refl _, fun _ _ _ => rfl, fun _ ha => Or.inl ha⟩

theorem Local.trans {h h1 h2 : Heap} {o o1 o2 : Obj} (a : Local h o h1 o1) (b : Local h1 o1 h2 o2) :
    Local h o h2 o2 := by
  refine ⟨Nat.le_trans a.mono b.mono, ?_, ?_⟩
  · intro x hx hn
    have h1x : x ∉ o1.reach := by
      intro hm
      rcases a.reach x hm with h' | h'
      · exact hn h'
      · omega
    rw [b.frame x (Nat.lt_of_lt_of_le hx a.mono) h1x, a.frame x hx hn]
  · intro x hx
    rcases b.reach x hx with h' | h'
    · rcases a.reach x h' with h'' | h''
      · exact Or.inl h''
      · exact Or.inr ⟨h''.1, Nat.lt_of_lt_of_le h''.2 b.mono⟩
    · exact Or.inr ⟨Nat.le_trans a.mono h'.1, h'.2⟩

theorem Local.ofExt {h h' : Heap} {o o' : Obj} (e : Ext h h')
    (r : ∀ a ∈ o'.reach, a ∈ o.reach ∨ (h.next ≤ a ∧ a < h'.next)) : Local h o h' o' :=
  ⟨e.mono, fun a ha _ => e.same a ha, r⟩

theorem Local.wf {h h' : Heap} {o o' : Obj} (l : Local h o h' o') (w : Wf h o) : Wf h' o' := by
  intro a ha
  rcases l.reach a ha with h1 | h1
  · exact Nat.lt_of_lt_of_le (w a h1) l.mono
  · exact h1.2

/-- **frame rule**: a local step of `o` leaves every separated object as it was -/
theorem Local.noninterference {h h' : Heap} {o o' b : Obj} (l : Local h o h' o') (wb : Wf h b) (s : Sep o b) :
    view h' b = view h b ∧ Sep o' b ∧ Wf h' b := by
  refine ⟨?_, ?_, fun a ha => Nat.lt_of_lt_of_le (wb a ha) l.mono⟩
  · unfold view
    congr 1
    apply List.map_congr_left
    intro a ha
    exact l.frame a (wb a ha) (fun hm => s a hm ha)
  · intro x hx hb
    rcases l.reach x hx with h1 | h1
    · exact s x h1 hb
    · have := wb x hb; omega

/-! ### each method is local -/

theorem forceSe3_local (h : Heap) (o : Obj) : Local h o (forceSe3 h o).1 (forceSe3 h o).2 := by
  unfold forceSe3
  cases hs : o.se3? with
  | some l => exact Local.refl h o
  | none =>
      obtain ⟨e, _, _, m⟩ := allocList_spec h ((se3Vals h o).map Val.mat)
      apply Local.ofExt e
      intro a ha
      simp only [mem_reach] at ha ⊢
      rcases ha with ha | ha | ha | ⟨l, hl, hal⟩
      · exact Or.inl (Or.inl ha)
      · exact Or.inl (Or.inr (Or.inl ha))
      · exact Or.inl (Or.inr (Or.inr (Or.inl ha)))
      · simp only [Option.some.injEq] at hl
        subst hl
        exact Or.inr (m a hal)

theorem forceSe3_se3 (h : Heap) (o : Obj) : ∃ l, (forceSe3 h o).2.se3? = some l := by
  unfold forceSe3
  cases hs : o.se3? with
  | some l => exact ⟨l, hs⟩
  | none => exact ⟨_, rfl⟩

theorem forcePos_local (h : Heap) (o : Obj) : Local h o (forcePos h o).1 (forcePos h o).2 := by
  unfold forcePos
  cases hs : o.pos? with
  | some l => exact Local.refl h o
  | none =>
      apply Local.ofExt (alloc_ext h _)
      intro a ha
      simp only [mem_reach] at ha ⊢
      rcases ha with ha | ha | ha | ha
      · simp only [alloc_addr, Option.some.injEq] at ha; subst ha; exact Or.inr ⟨Nat.le_refl _, by simp⟩
      · exact Or.inl (Or.inr (Or.inl ha))
      · exact Or.inl (Or.inr (Or.inr (Or.inl ha)))
      · exact Or.inl (Or.inr (Or.inr (Or.inr ha)))

theorem forceQuat_local (h : Heap) (o : Obj) : Local h o (forceQuat h o).1 (forceQuat h o).2 := by
  unfold forceQuat
  cases hs : o.quat? with
  | some l => exact Local.refl h o
  | none =>
      apply Local.ofExt (alloc_ext h _)
      intro a ha
      simp only [mem_reach] at ha ⊢
      rcases ha with ha | ha | ha | ha
      · exact Or.inl (Or.inl ha)
      · simp only [alloc_addr, Option.some.injEq] at ha; subst ha; exact Or.inr ⟨Nat.le_refl _, by simp⟩
      · exact Or.inl (Or.inr (Or.inr (Or.inl ha)))
      · exact Or.inl (Or.inr (Or.inr (Or.inr ha)))

/-- second half of `transform()`, after the matrices have been forced -/
theorem transform_core_local (h1 : Heap) (o1 : Obj) (ps : List P) (keepFirst : Bool) :
    let old := o1.se3?.getD []
    let r :=
      (if keepFirst then
        let (h2, as) := h1.allocList ((ps.drop 1).map Val.mat)
        (h2, old.take 1 ++ as)
      else h1.allocList (ps.map Val.mat) : Heap × List Nat)
    let r3 := r.1.alloc (.vecs (ps.map (·.t)))
    let r4 := r3.1.alloc (.rots (ps.map (·.rot)))
    Local h1 o1 r4.1 { o1 with se3? := some r.2, pos? := some r3.2, quat? := some r4.2 } := by
  intro old r r3 r4
  have hr : Ext h1 r.1 ∧ ∀ b ∈ r.2, b ∈ o1.reach ∨ (h1.next ≤ b ∧ b < r.1.next) := by
    cases keepFirst with
    | true =>
        obtain ⟨e, _, _, m⟩ := allocList_spec h1 ((ps.drop 1).map Val.mat)
        refine ⟨e, ?_⟩
        intro b hb
        simp only [r, if_true, List.mem_append] at hb
        rcases hb with hb | hb
        · left
          have : b ∈ old := List.mem_of_mem_take hb
          simp only [old] at this
          cases hs : o1.se3? with
          | none => simp [hs] at this
          | some l => rw [hs] at this; exact mem_reach.mpr (Or.inr (Or.inr (Or.inr ⟨l, hs, this⟩)))
        · exact Or.inr (m b hb)
    | false =>
        obtain ⟨e, _, _, m⟩ := allocList_spec h1 (ps.map Val.mat)
        exact ⟨e, fun b hb => Or.inr (m b hb)⟩
  obtain ⟨e, m⟩ := hr
  have e3 : Ext r.1 r3.1 := alloc_ext _ _
  have e4 : Ext r3.1 r4.1 := alloc_ext _ _
  have n3 : r3.1.next = r.1.next + 1 := rfl
  have n4 : r4.1.next = r.1.next + 2 := rfl
  have a3 : r3.2 = r.1.next := rfl
  have a4 : r4.2 = r.1.next + 1 := rfl
  apply Local.ofExt (e.trans (e3.trans e4))
  intro a ha
  simp only [mem_reach] at ha
  have hm := e.mono
  rcases ha with ha | ha | ha | ⟨l, hl, hal⟩
  · simp only [Option.some.injEq] at ha; right; omega
  · simp only [Option.some.injEq] at ha; right; omega
  · exact Or.inl (mem_reach.mpr (Or.inr (Or.inr (Or.inl ha))))
  · simp only [Option.some.injEq] at hl
    subst hl
    rcases m a hal with h' | h'
    · exact Or.inl h'
    · right; omega

theorem transform_local (h : Heap) (o : Obj) (m : Mode) (T : P) (norm : Option Rat) :
    Local h o (transform h o m T norm).1 (transform h o m T norm).2 :=
  (forceSe3_local h o).trans (transform_core_local _ _ _ _)

theorem scale_local (h : Heap) (o : Obj) (c : Rat) : Local h o (scale h o c).1 (scale h o c).2 := by
  unfold scale
  cases hs : o.se3? with
  | none =>
      cases hp : o.pos? with
      | none =>
          apply Local.ofExt (Ext.refl h)
          intro a ha
          simp only [mem_reach] at ha ⊢
          rcases ha with ha | ha | ha | ⟨l, hl, _⟩
          · simp at ha
          · exact Or.inl (Or.inr (Or.inl ha))
          · exact Or.inl (Or.inr (Or.inr (Or.inl ha)))
          · simp at hl
      | some p =>
          apply Local.ofExt (alloc_ext h _)
          intro a ha
          simp only [mem_reach] at ha ⊢
          rcases ha with ha | ha | ha | ⟨l, hl, _⟩
          · simp only [alloc_addr, Option.some.injEq] at ha; subst ha; exact Or.inr ⟨Nat.le_refl _, by simp⟩
          · exact Or.inl (Or.inr (Or.inl ha))
          · exact Or.inl (Or.inr (Or.inr (Or.inl ha)))
          · simp at hl
  | some as =>
      obtain ⟨e, _, _, m⟩ := allocList_spec h (as.map (fun a => Val.mat (scalePose c (h.mat a))))
      cases hp : o.pos? with
      | none =>
          apply Local.ofExt e
          intro a ha
          simp only [mem_reach] at ha ⊢
          rcases ha with ha | ha | ha | ⟨l, hl, hal⟩
          · simp at ha
          · exact Or.inl (Or.inr (Or.inl ha))
          · exact Or.inl (Or.inr (Or.inr (Or.inl ha)))
          · simp only [Option.some.injEq] at hl; subst hl; exact Or.inr (m a hal)
      | some p =>
          apply Local.ofExt (e.trans (alloc_ext _ _))
          intro a ha
          simp only [mem_reach] at ha ⊢
          have hm := e.mono
          rcases ha with ha | ha | ha | ⟨l, hl, hal⟩
          · simp only [alloc_addr, Option.some.injEq] at ha; subst ha
            exact Or.inr ⟨hm, by simp⟩
          · exact Or.inl (Or.inr (Or.inl ha))
          · exact Or.inl (Or.inr (Or.inr (Or.inl ha)))
          · simp only [Option.some.injEq] at hl; subst hl
            have := m a hal
            exact Or.inr ⟨this.1, by simp; omega⟩

/-- allocate a copy/derivative of an optional array -/
theorem optAlloc_spec (h : Heap) (x : Option Nat) (f : Nat → Val) :
    Ext h (optAlloc h x f).1 ∧ ∀ b, (optAlloc h x f).2 = some b → (h.next ≤ b ∧ b < (optAlloc h x f).1.next) := by
  cases x with
  | none => exact ⟨Ext.refl h, fun b hb => by simp [optAlloc] at hb⟩
  | some a =>
      refine ⟨alloc_ext h _, fun b hb => ?_⟩
      simp only [optAlloc, alloc_addr, Option.some.injEq] at hb
      subst hb
      simp [optAlloc]

theorem reduce_local (h : Heap) (o : Obj) (ids : List Nat) : Local h o (reduce h o ids).1 (reduce h o ids).2 := by
  simp only [reduce]
  obtain ⟨e1, m1⟩ := optAlloc_spec h o.pos? (fun a => .vecs (reduceIds (h.vecs a) ids))
  generalize optAlloc h o.pos? (fun a => .vecs (reduceIds (h.vecs a) ids)) = r1 at e1 m1
  obtain ⟨e2, m2⟩ := optAlloc_spec r1.1 o.quat? (fun a => .rots (reduceIds (h.rots a) ids))
  generalize optAlloc r1.1 o.quat? (fun a => .rots (reduceIds (h.rots a) ids)) = r2 at e2 m2
  obtain ⟨e3, m3⟩ := optAlloc_spec r2.1 o.stamps? (fun a => .rats (reduceIds (h.rats a) ids))
  generalize optAlloc r2.1 o.stamps? (fun a => .rats (reduceIds (h.rats a) ids)) = r3 at e3 m3
  apply Local.ofExt (e1.trans (e2.trans e3))
  intro a ha
  simp only [mem_reach] at ha
  have := e1.mono; have := e2.mono; have := e3.mono
  rcases ha with ha | ha | ha | ⟨l, hl, hal⟩
  · have := m1 a ha; right; omega
  · have := m2 a ha; right; omega
  · have := m3 a ha; right; omega
  · left
    simp only [Option.map_eq_some_iff] at hl
    obtain ⟨l0, hl0, rfl⟩ := hl
    exact mem_reach.mpr (Or.inr (Or.inr (Or.inr ⟨l0, hl0, mem_reduceIds' hal⟩)))
where
  mem_reduceIds' {l : List Nat} {ids : List Nat} {x : Nat} (hx : x ∈ reduceIds l ids) : x ∈ l := by
    unfold reduceIds at hx
    obtain ⟨i, _, hi⟩ := List.mem_filterMap.mp hx
    exact List.mem_of_getElem? hi

theorem projWrite_spec (nd : Nat) (h : Heap) (as : List Nat) (qs : List (M3 Rat)) :
    (projWrite nd h as qs).next = h.next ∧ ∀ x, x ∉ as → (projWrite nd h as qs).get x = h.get x := by
  induction as generalizing h qs with
  | nil => exact ⟨rfl, fun _ _ => rfl⟩
  | cons a r ih =>
      cases qs with
      | nil =>
          obtain ⟨n, g⟩ := ih (h.write a (.mat ⟨(h.mat a).rot, zeroDim nd (h.mat a).t⟩)) []
          simp only [projWrite]
          refine ⟨by rw [n]; rfl, fun x hx => ?_⟩
          simp only [List.mem_cons, not_or] at hx
          rw [g x hx.2, write_get _ _ _ _ hx.1]
      | cons q qs' =>
          obtain ⟨n, g⟩ := ih (h.write a (.mat ⟨q, zeroDim nd (h.mat a).t⟩)) qs'
          simp only [projWrite]
          refine ⟨by rw [n]; rfl, fun x hx => ?_⟩
          simp only [List.mem_cons, not_or] at hx
          rw [g x hx.2, write_get _ _ _ _ hx.1]

theorem project_local (h : Heap) (o : Obj) (nd : Nat) (rots : List (M3 Rat)) :
    Local h o (project h o nd rots).1 (project h o nd rots).2 := by
  unfold project
  split
  · exact Local.refl h o
  · apply (forceSe3_local h o).trans
    obtain ⟨n, g⟩ := projWrite_spec nd (forceSe3 h o).1 ((forceSe3 h o).2.se3?.getD []) rots
    obtain ⟨l, hl⟩ := forceSe3_se3 h o
    refine ⟨by rw [n], ?_, ?_⟩
    · intro a _ hn
      apply g
      intro hm
      rw [hl] at hm
      exact hn (mem_reach.mpr (Or.inr (Or.inr (Or.inr ⟨l, hl, hm⟩))))
    · intro a ha
      left
      simp only [mem_reach] at ha ⊢
      rcases ha with ha | ha | ha | ha
      · simp at ha
      · simp at ha
      · exact Or.inr (Or.inr (Or.inl ha))
      · exact Or.inr (Or.inr (Or.inr ha))

theorem hstep_local (h : Heap) (o : Obj) (op : HOp) : Local h o (hstep h o op).1 (hstep h o op).2 := by
  cases op with
  | transform m T norm => exact transform_local h o m T norm
  | scale c => exact scale_local h o c
  | reduce ids => exact reduce_local h o ids
  | project nd rots => exact project_local h o nd rots
  | readPos => exact forcePos_local h o
  | readQuat => exact forceQuat_local h o
  | readSe3 => exact forceSe3_local h o

theorem hrun_local (h : Heap) (o : Obj) (ops : List HOp) : Local h o (hrun h o ops).1 (hrun h o ops).2 := by
  induction ops generalizing h o with
  | nil => exact Local.refl h o
  | cons op r ih => exact (hstep_local h o op).trans (ih _ _)

/-! ### derivations produce fresh objects -/

theorem copyCell_spec (h : Heap) (x : Option Nat) :
    Ext h (copyCell h x).1 ∧ ∀ b, (copyCell h x).2 = some b → (h.next ≤ b ∧ b < (copyCell h x).1.next) := by
  cases x with
  | none => exact ⟨Ext.refl h, fun b hb => by simp [copyCell] at hb⟩
  | some a =>
      refine ⟨alloc_ext h _, fun b hb => ?_⟩
      simp only [copyCell, alloc_addr, Option.some.injEq] at hb
      subst hb
      simp [copyCell]

/-- `copy.deepcopy`: the heap only grows and every array of the copy is new -/
theorem deepcopy_spec (h : Heap) (o : Obj) :
    Ext h (deepcopy h o).1 ∧ ∀ a ∈ (deepcopy h o).2.reach, h.next ≤ a ∧ a < (deepcopy h o).1.next := by
  simp only [deepcopy]
  obtain ⟨e1, m1⟩ := copyCell_spec h o.pos?
  generalize copyCell h o.pos? = r1 at e1 m1
  obtain ⟨e2, m2⟩ := copyCell_spec r1.1 o.quat?
  generalize copyCell r1.1 o.quat? = r2 at e2 m2
  obtain ⟨e3, m3⟩ := copyCell_spec r2.1 o.stamps?
  generalize copyCell r2.1 o.stamps? = r3 at e3 m3
  have := e1.mono; have := e2.mono; have := e3.mono
  cases hs : o.se3? with
  | none =>
      dsimp only
      refine ⟨e1.trans (e2.trans e3), ?_⟩
      intro a ha
      simp only [mem_reach] at ha
      rcases ha with ha | ha | ha | ⟨l, hl, _⟩
      · have := m1 a ha; omega
      · have := m2 a ha; omega
      · have := m3 a ha; omega
      · simp at hl
  | some as =>
      obtain ⟨e4, _, _, m4⟩ := allocList_spec r3.1 (as.map h.get)
      have := e4.mono
      dsimp only
      refine ⟨e1.trans (e2.trans (e3.trans e4)), ?_⟩
      intro a ha
      simp only [mem_reach] at ha
      rcases ha with ha | ha | ha | ⟨l, hl, hal⟩
      · have := m1 a ha; omega
      · have := m2 a ha; omega
      · have := m3 a ha; omega
      · simp only [Option.some.injEq] at hl; subst hl
        have := m4 a hal; omega

/-- an object all of whose arrays are newer than `h` is separated from everything that lived in `h` -/
theorem FreshSince.sep {h : Heap} {o b : Obj} (f : FreshSince h o) (wb : Wf h b) : Sep o b ∧ Sep b o := by
  constructor
  · intro x hx hb; have := f x hx; have := wb x hb; omega
  · intro x hb hx; have := f x hx; have := wb x hb; omega

theorem Ext.wf {h h' : Heap} (e : Ext h h') {b : Obj} (wb : Wf h b) : Wf h' b :=
  fun a ha => Nat.lt_of_lt_of_le (wb a ha) e.mono

/-- a step that only allocates leaves the view of every existing object unchanged -/
theorem Ext.view {h h' : Heap} (e : Ext h h') {b : Obj} (wb : Wf h b) : view h' b = view h b := by
  unfold Heap.view
  congr 1
  exact List.map_congr_left (fun a ha => e.same a (wb a ha))

theorem forceSe3_ext (h : Heap) (o : Obj) : Ext h (forceSe3 h o).1 := by
  unfold forceSe3
  cases o.se3? with
  | some l => exact Ext.refl h
  | none => exact (allocList_spec h _).1

theorem forcePos_ext (h : Heap) (o : Obj) : Ext h (forcePos h o).1 := by
  unfold forcePos
  cases o.pos? with
  | some l => exact Ext.refl h
  | none => exact alloc_ext h _

theorem forceQuat_ext (h : Heap) (o : Obj) : Ext h (forceQuat h o).1 := by
  unfold forceQuat
  cases o.quat? with
  | some l => exact Ext.refl h
  | none => exact alloc_ext h _

theorem reduce_ext (h : Heap) (o : Obj) (ids : List Nat) : Ext h (reduce h o ids).1 := by
  simp only [reduce]
  exact (optAlloc_spec h _ _).1.trans ((optAlloc_spec _ _ _).1.trans (optAlloc_spec _ _ _).1)

theorem FreshSince.mono {h h1 : Heap} {o : Obj} (f : FreshSince h1 o) (e : h.next ≤ h1.next) : FreshSince h o :=
  fun a ha => Nat.le_trans e (f a ha)

/-- an output of `associate_trajectories` consists of new arrays only -/
theorem associateOne_spec (h : Heap) (o : Obj) (ids : List Nat) :
    Ext h (associateOne h o ids).1 ∧ FreshSince h (associateOne h o ids).2 := by
  unfold associateOne
  obtain ⟨e, m⟩ := deepcopy_spec h o
  refine ⟨e.trans (reduce_ext _ _ _), ?_⟩
  intro a ha
  rcases (reduce_local _ _ ids).reach a ha with h1 | h1
  · exact (m a h1).1
  · exact Nat.le_trans e.mono h1.1

theorem forceAll_ext (h : Heap) (os : List Obj) : Ext h (forceAll h os).1 := by
  induction os generalizing h with
  | nil => exact Ext.refl h
  | cons o r ih =>
      simp only [forceAll]
      exact (forcePos_ext h o).trans ((forceQuat_ext _ _).trans (ih _))

/-- `trajectory.merge` only allocates; the merged trajectory consists of new arrays only -/
theorem merge_spec (h : Heap) (os : List Obj) :
    Ext h (merge h os).1 ∧ FreshSince h (merge h os).2.2 := by
  simp only [merge]
  have e1 := forceAll_ext h os
  generalize forceAll h os = r1 at e1
  have e2 : Ext r1.1 (r1.1.alloc (.vecs (r1.2.flatMap (posVals r1.1)))).1 := alloc_ext _ _
  generalize hr2 : r1.1.alloc (.vecs (r1.2.flatMap (posVals r1.1))) = r2 at e2
  have a2 : r2.2 = r1.1.next := by rw [← hr2]; rfl
  have e3 : Ext r2.1 (r2.1.alloc (.rots (r1.2.flatMap (quatVals r1.1)))).1 := alloc_ext _ _
  generalize hr3 : r2.1.alloc (.rots (r1.2.flatMap (quatVals r1.1))) = r3 at e3
  have a3 : r3.2 = r2.1.next := by rw [← hr3]; rfl
  have e4 : Ext r3.1 (r3.1.alloc (.rats (r1.2.flatMap (fun o => (o.stamps?.map r1.1.rats).getD [])))).1 := alloc_ext _ _
  generalize hr4 : r3.1.alloc (.rats (r1.2.flatMap (fun o => (o.stamps?.map r1.1.rats).getD []))) = r4 at e4
  have a4 : r4.2 = r3.1.next := by rw [← hr4]; rfl
  refine ⟨e1.trans (e2.trans (e3.trans e4)), ?_⟩
  intro a ha
  simp only [mem_reach] at ha
  have := e1.mono; have := e2.mono; have := e3.mono
  rcases ha with ha | ha | ha | ⟨l, hl, _⟩
  · simp only [Option.some.injEq] at ha; omega
  · simp only [Option.some.injEq] at ha; omega
  · simp only [Option.some.injEq] at ha; omega
  · simp at hl

theorem partsNew_spec (h : Heap) (timed : Bool) (ms : List (List Nat)) (ss : List (List Rat)) :
    Ext h (partsNew h timed ms ss).1 ∧ ∀ p ∈ (partsNew h timed ms ss).2, FreshSince h p := by
  induction ms generalizing h ss with
  | nil => exact ⟨by simp [partsNew]; exact Ext.refl h, fun p hp => by simp [partsNew] at hp⟩
  | cons m mr ih =>
      cases ss with
      | nil => exact ⟨by simp [partsNew]; exact Ext.refl h, fun p hp => by simp [partsNew] at hp⟩
      | cons s sr =>
          simp only [partsNew]
          obtain ⟨e1, _, _, m1⟩ := allocList_spec h (m.map h.get)
          obtain ⟨e2, m2⟩ := optAlloc_spec (h.allocList (m.map h.get)).1 (if timed then some 0 else none) (fun _ => Val.rats s)
          obtain ⟨e3, f3⟩ := ih (optAlloc (h.allocList (m.map h.get)).1 (if timed then some 0 else none) (fun _ => Val.rats s)).1 sr
          refine ⟨e1.trans (e2.trans e3), ?_⟩
          intro p hp
          simp only [List.mem_cons] at hp
          rcases hp with rfl | hp
          · intro a ha
            simp only [mem_reach] at ha
            rcases ha with ha | ha | ha | ⟨l, hl, hal⟩
            · simp at ha
            · simp at ha
            · exact Nat.le_trans e1.mono (m2 a ha).1
            · simp only [Option.some.injEq] at hl; subst hl; exact (m1 a hal).1
          · exact (f3 p hp).mono (e1.trans e2).mono

/-- the repaired splitters: only allocation; every part consists of new arrays only; the parent
may at most have its matrix cache filled -/
theorem splitNew_spec (h : Heap) (o : Obj) (cut : Bool) (bounds : List Nat) :
    Ext h (splitNew h o cut bounds).1 ∧
    (∀ p ∈ (splitNew h o cut bounds).2.2, FreshSince h p) ∧
    Local h o (splitNew h o cut bounds).1 (splitNew h o cut bounds).2.1 := by
  unfold splitNew
  cases cut with
  | true =>
      simp only [if_true]
      have e1 := forceSe3_ext h o
      have l1 := forceSe3_local h o
      generalize forceSe3 h o = r1 at e1 l1
      obtain ⟨e2, f2⟩ := partsNew_spec r1.1 r1.2.stamps?.isSome (segments (r1.2.se3?.getD []) bounds)
        (segments ((r1.2.stamps?.map r1.1.rats).getD []) bounds)
      refine ⟨e1.trans e2, fun p hp => (f2 p hp).mono e1.mono, ?_⟩
      exact l1.trans (Local.ofExt e2 (fun a ha => Or.inl ha))
  | false =>
      simp only [Bool.false_eq_true, if_false]
      obtain ⟨e, m⟩ := deepcopy_spec h o
      refine ⟨e, ?_, Local.ofExt e (fun a ha => Or.inl ha)⟩
      intro p hp
      simp only [List.mem_singleton] at hp
      subst hp
      exact fun a ha => (m a ha).1

theorem Sep.symm {a b : Obj} (s : Sep a b) : Sep b a := fun x hb ha => s x ha hb

theorem deepcopyList_spec (h : Heap) (os : List Obj) :
    Ext h (deepcopyList h os).1 ∧ ∀ c ∈ (deepcopyList h os).2, FreshSince h c := by
  induction os generalizing h with
  | nil => exact ⟨Ext.refl h, fun c hc => by simp [deepcopyList] at hc⟩
  | cons o r ih =>
      obtain ⟨e, m⟩ := deepcopy_spec h o
      obtain ⟨e2, f2⟩ := ih (deepcopy h o).1
      simp only [deepcopyList]
      refine ⟨e.trans e2, ?_⟩
      intro c hc
      simp only [List.mem_cons] at hc
      rcases hc with rfl | hc
      · exact fun a ha => (m a ha).1
      · exact (f2 c hc).mono e.mono

/-- aligning `est` to `ref`: the two stay separated, and what `est` does leaves `ref` (with its caches as filled by the
reads) exactly as it was -/
theorem alignWith_spec (h : Heap) (est ref : Obj) (rd ops : List HOp) (we : Wf h est) (wr : Wf h ref) (s : Sep est ref) :
    Sep (alignWith h est ref rd ops).2.1 (alignWith h est ref rd ops).2.2 ∧
    Wf (alignWith h est ref rd ops).1 (alignWith h est ref rd ops).2.2 ∧
    view (alignWith h est ref rd ops).1 (alignWith h est ref rd ops).2.2
      = view (hrun h ref rd).1 (hrun h ref rd).2 := by
  have l1 := hrun_local h ref rd
  obtain ⟨_, s1, w1⟩ := l1.noninterference we s.symm
  have l2 := hrun_local (hrun h ref rd).1 est ops
  obtain ⟨v2, s2, w2⟩ := l2.noninterference (l1.wf wr) s1.symm
  exact ⟨s2, w2, v2⟩

end Evo.Heap
