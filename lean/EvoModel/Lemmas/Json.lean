/-
`unescape (escape s) = some s` for every string of Unicode scalar values.
-/
import EvoModel.Model.Json
import Mathlib.Tactic.IntervalCases
import Mathlib.Data.Char
namespace Evo.Json

theorem hexVal_hexDigit : ∀ k, k < 16 → hexVal (hexDigit k) = some k := by decide

theorem unhex4_hex4 (n : Nat) (h : n < 65536) :
    unhex4 (hexDigit (n / 4096 % 16)) (hexDigit (n / 256 % 16)) (hexDigit (n / 16 % 16)) (hexDigit (n % 16))
      = some n := by
  unfold unhex4
  rw [hexVal_hexDigit _ (Nat.mod_lt _ (by norm_num)), hexVal_hexDigit _ (Nat.mod_lt _ (by norm_num)),
    hexVal_hexDigit _ (Nat.mod_lt _ (by norm_num)), hexVal_hexDigit _ (Nat.mod_lt _ (by norm_num))]
  simp only [Option.some.injEq]
  omega

theorem unescape_simple (e ch : Char) (rest : Str) (he : e ≠ 'u') (hs : simpleEsc e = some ch) :
    unescape ('\\' :: e :: rest) = consOpt ch (unescape rest) := by
  rw [unescape.eq_def]; simp [he, hs]

theorem unescape_plain (c : Char) (rest : Str) (h1 : c ≠ '\\') (h2 : c ≠ '"') (h3 : ¬ c.toNat < 32) :
    unescape (c :: rest) = consOpt c (unescape rest) := by
  rw [unescape.eq_def]; simp [h1, h2, h3]

theorem unescape_u_bmp (a b c d : Char) (rest : Str) (u : Nat) (hu : unhex4 a b c d = some u)
    (h1 : ¬ (55296 ≤ u ∧ u ≤ 56319)) (h2 : ¬ (56320 ≤ u ∧ u ≤ 57343)) :
    unescape ('\\' :: 'u' :: a :: b :: c :: d :: rest) = consOpt (Char.ofNat u) (unescape rest) := by
  rw [unescape.eq_def]; simp [hu, h1, h2]

theorem unescape_u_pair (a b c d e f g h : Char) (rest : Str) (u u2 : Nat)
    (hu : unhex4 a b c d = some u) (hu2 : unhex4 e f g h = some u2)
    (h1 : 55296 ≤ u ∧ u ≤ 56319) (h2 : 56320 ≤ u2 ∧ u2 ≤ 57343) :
    unescape ('\\' :: 'u' :: a :: b :: c :: d :: '\\' :: 'u' :: e :: f :: g :: h :: rest)
      = consOpt (Char.ofNat (65536 + ((u - 55296) * 1024 + (u2 - 56320)))) (unescape rest) := by
  rw [unescape.eq_def]; simp [hu, hu2, h1, h2]

theorem char_range (c : Char) : c.toNat < 55296 ∨ (57343 < c.toNat ∧ c.toNat < 1114112) := by
  exact c.valid

/-- decoding undoes the encoding of one character, whatever follows -/
theorem unescape_escChar (c : Char) (rest : Str) :
    unescape (escChar c ++ rest) = consOpt c (unescape rest) := by
  unfold escChar
  split
  · rename_i h; subst h; exact unescape_simple _ _ _ (by decide) (by decide)
  split
  · rename_i h; subst h; exact unescape_simple _ _ _ (by decide) (by decide)
  split
  · rename_i h; subst h; exact unescape_simple 'n' _ _ (by decide) (by decide)
  split
  · rename_i h; subst h; exact unescape_simple 'r' _ _ (by decide) (by decide)
  split
  · rename_i h; subst h; exact unescape_simple 't' _ _ (by decide) (by decide)
  split
  · rename_i h; subst h; exact unescape_simple 'b' _ _ (by decide) (by decide)
  split
  · rename_i h; subst h; exact unescape_simple 'f' _ _ (by decide) (by decide)
  rename_i n1 n2 n3 n4 n5 n6 n7
  split
  · rename_i hp
    exact unescape_plain c rest n2 n1 (by omega)
  split
  · rename_i hp hb
    have hr := char_range c
    have := unescape_u_bmp _ _ _ _ rest c.toNat (unhex4_hex4 c.toNat hb) (by omega) (by omega)
    simpa [hex4, Char.ofNat_toNat] using this
  · rename_i hp hb
    have hr := char_range c
    have hlt : c.toNat < 1114112 := by omega
    have hge : 65536 ≤ c.toNat := by omega
    have hA : 55296 + (c.toNat - 65536) / 1024 < 65536 := by omega
    have hB : 56320 + (c.toNat - 65536) % 1024 < 65536 := by omega
    have := unescape_u_pair _ _ _ _ _ _ _ _ rest _ _ (unhex4_hex4 _ hA) (unhex4_hex4 _ hB) (by omega) (by omega)
    have hval : 65536 + ((55296 + (c.toNat - 65536) / 1024 - 55296) * 1024
        + (56320 + (c.toNat - 65536) % 1024 - 56320)) = c.toNat := by omega
    rw [hval, Char.ofNat_toNat] at this
    simpa [hex4] using this

theorem unescape_escape : ∀ s : Str, unescape (escape s) = some s
  | [] => rfl
  | c :: r => by
      rw [escape, unescape_escChar, unescape_escape r]; rfl

end Evo.Json
