/-
Helper lemmas for C09 (and C14): conjugation invariance of the angle core, Rodrigues matrices,
Sim(3) inverse, facts about the tolerance tests of `Model/Lie.lean`.
-/
import EvoModel.Lemmas.SO3
import EvoModel.Model.Lie
import Mathlib.Algebra.Order.Ring.Rat
import Mathlib.Tactic.NormNum
import Mathlib.Analysis.SpecialFunctions.Complex.Arg
import Mathlib.Analysis.SpecialFunctions.Trigonometric.Inverse
import Mathlib.Analysis.SpecialFunctions.Pow.Real
namespace Evo

set_option linter.unusedSectionVars false

section field
variable {K : Type} [Field K]

theorem M3.frobSq_eq_cols (n : M3 K) : n.frobSq = n.col0.normSq + n.col1.normSq + n.col2.normSq := by
  simp only [M3.frobSq, M3.col0, M3.col1, M3.col2, V3.normSq, V3.dot]; ring

theorem M3.col0_mul (a n : M3 K) : (a.mul n).col0 = a.mulVec n.col0 := by
  ext <;> simp only [M3.mul, M3.col0, M3.mulVec]
theorem M3.col1_mul (a n : M3 K) : (a.mul n).col1 = a.mulVec n.col1 := by
  ext <;> simp only [M3.mul, M3.col1, M3.mulVec]
theorem M3.col2_mul (a n : M3 K) : (a.mul n).col2 = a.mulVec n.col2 := by
  ext <;> simp only [M3.mul, M3.col2, M3.mulVec]

/-- left multiplication by an orthonormal matrix preserves the Frobenius norm -/
theorem frobSq_mul_left_of_ortho {t : M3 K} (h : IsOrtho t) (n : M3 K) : (t.mul n).frobSq = n.frobSq := by
  rw [M3.frobSq_eq_cols, M3.frobSq_eq_cols n, M3.col0_mul, M3.col1_mul, M3.col2_mul,
    normSq_mulVec_of_ortho h, normSq_mulVec_of_ortho h, normSq_mulVec_of_ortho h]

/-- right multiplication by an orthonormal matrix preserves the Frobenius norm -/
theorem frobSq_mul_right_of_ortho {t : M3 K} (h : IsOrtho t) (n : M3 K) : (n.mul t).frobSq = n.frobSq := by
  rw [← M3.frobSq_transpose, M3.transpose_mul, frobSq_mul_left_of_ortho h.transpose, M3.frobSq_transpose]

/-- `8·‖vee((M − Mᵀ)/2)‖² = ‖M − Mᵀ‖_F²` (stated without division) -/
theorem M3.axis2_normSq_eq_frob (m : M3 K) : (1 + 1) * m.axis2.normSq = (m.sub m.transpose).frobSq := by
  simp only [M3.axis2, V3.normSq, V3.dot, M3.frobSq, M3.sub, M3.transpose]; ring

theorem M3.sub_transpose_conj (t m : M3 K) :
    ((t.transpose.mul m).mul t).sub ((t.transpose.mul m).mul t).transpose
      = (t.transpose.mul (m.sub m.transpose)).mul t := by
  ext <;> simp only [M3.mul, M3.sub, M3.transpose] <;> ring

theorem relSo3_mul_left {t : M3 K} (h : IsOrtho t) (a b : M3 K) :
    relSo3 (t.mul a) (t.mul b) = relSo3 a b := by
  unfold relSo3
  rw [M3.transpose_mul, M3.mul_assoc', ← M3.mul_assoc' t.transpose, h, M3.one_mul']

theorem relSo3_mul_right (t a b : M3 K) :
    relSo3 (a.mul t) (b.mul t) = (t.transpose.mul (relSo3 a b)).mul t := by
  unfold relSo3
  rw [M3.transpose_mul, M3.mul_assoc', M3.mul_assoc', M3.mul_assoc']

theorem relSo3_swap (a b : M3 K) : relSo3 b a = (relSo3 a b).transpose := by
  unfold relSo3; rw [M3.transpose_mul, M3.transpose_transpose]

theorem relSo3_isRot {a b : M3 K} (ha : IsRot a) (hb : IsRot b) : IsRot (relSo3 a b) :=
  ha.transpose.mul hb

theorem M3.trace_conj {t : M3 K} (h : IsOrtho t) (m : M3 K) :
    ((t.transpose.mul m).mul t).trace = m.trace := by
  rw [M3.trace_mul_comm, ← M3.mul_assoc', h.mul_transpose, M3.one_mul']

/-! ### Rodrigues matrices -/

theorem rodrigues_zero (a b : K) : rodrigues (V3.zero : V3 K) a b = M3.one := by
  ext <;> simp only [rodrigues, M3.add, M3.smul, M3.mul, M3.hat, M3.one, V3.zero] <;> ring

/-- `I + a·hat v + b·(hat v)²` is a proper rotation as soon as `a² + b²‖v‖² = 2b`
(for `a = sin θ/θ`, `b = (1 − cos θ)/θ²`, `θ = ‖v‖` this is `sin² + cos² = 1`) -/
theorem rodrigues_isRot (v : V3 K) (a b : K) (h : a * a + b * b * v.normSq = (1 + 1) * b) :
    IsRot (rodrigues v a b) := by
  simp only [V3.normSq, V3.dot] at h
  constructor
  · unfold IsOrtho
    ext <;> simp only [rodrigues, M3.add, M3.smul, M3.mul, M3.hat, M3.one, M3.transpose]
    · linear_combination (v.y * v.y + v.z * v.z) * h
    · linear_combination (-(v.x * v.y)) * h
    · linear_combination (-(v.x * v.z)) * h
    · linear_combination (-(v.x * v.y)) * h
    · linear_combination (v.x * v.x + v.z * v.z) * h
    · linear_combination (-(v.y * v.z)) * h
    · linear_combination (-(v.x * v.z)) * h
    · linear_combination (-(v.y * v.z)) * h
    · linear_combination (v.x * v.x + v.y * v.y) * h
  · simp only [rodrigues, M3.add, M3.smul, M3.mul, M3.hat, M3.one, M3.det]
    linear_combination (v.x * v.x + v.y * v.y + v.z * v.z) * h

/-- the skew part of a Rodrigues matrix is `a·hat v`: `2·vee((R − Rᵀ)/2) = 2a·v` -/
theorem rodrigues_axis2 (v : V3 K) (a b : K) : (rodrigues v a b).axis2 = V3.smul ((1 + 1) * a) v := by
  ext <;> simp only [rodrigues, M3.add, M3.smul, M3.mul, M3.hat, M3.one, M3.axis2, V3.smul] <;> ring

theorem rodrigues_trace (v : V3 K) (a b : K) :
    (rodrigues v a b).trace = 3 - (1 + 1) * b * v.normSq := by
  simp only [rodrigues, M3.add, M3.smul, M3.mul, M3.hat, M3.one, M3.trace, V3.normSq, V3.dot]; ring

/-! ### Sim(3) -/

theorem sim3Inv_mul_gen (r : M3 K) (t : V3 K) (s : K) (hs : s ≠ 0) :
    ((Pose.sim3 r t s).sim3Inv s).mul (Pose.sim3 r t s) = ⟨r.transpose.mul r, V3.zero⟩ := by
  ext <;> simp only [Pose.sim3Inv, Pose.sim3, Pose.mul, M3.smul, M3.transpose, M3.mul, M3.mulVec, V3.add,
    V3.neg, V3.smul, V3.zero] <;> field_simp <;> ring

theorem mul_sim3Inv_gen (r : M3 K) (t : V3 K) (s : K) (hs : s ≠ 0) :
    (Pose.sim3 r t s).mul ((Pose.sim3 r t s).sim3Inv s)
      = ⟨r.mul r.transpose, V3.sub t ((r.mul r.transpose).mulVec t)⟩ := by
  ext <;> simp only [Pose.sim3Inv, Pose.sim3, Pose.mul, M3.smul, M3.transpose, M3.mul, M3.mulVec, V3.add,
    V3.neg, V3.smul, V3.sub] <;> field_simp <;> ring

theorem M3.det_smul (s : K) (r : M3 K) : (M3.smul s r).det = s ^ 3 * r.det := by
  simp only [M3.smul, M3.det]; ring

theorem M3.smul_smul (a b : K) (r : M3 K) : M3.smul a (M3.smul b r) = M3.smul (a * b) r := by
  ext <;> simp only [M3.smul] <;> ring

theorem M3.one_smul' (r : M3 K) : M3.smul 1 r = r := by
  ext <;> simp only [M3.smul] <;> ring

end field

/-! ### the tolerance tests on exact group elements -/
namespace Lie

theorem absR_eq_abs (x : ℚ) : absR x = |x| := by
  unfold absR; split_ifs with h
  · exact (abs_of_neg h).symm
  · exact (abs_of_nonneg (not_lt.mp h)).symm

theorem isClose_self_one : isClose 1 1 = true := by decide +kernel
theorem isClose_self_zero : isClose 0 0 = true := by decide +kernel
theorem allClose_one : allClose M3.one M3.one = true := by decide +kernel

/-- `isClose a 1` is exactly `|a − 1| ≤ 1.1e-5` -/
theorem isClose_one_iff (a : ℚ) : isClose a 1 = true ↔ |a - 1| ≤ 11 / 1000000 := by
  unfold isClose
  rw [decide_eq_true_iff, absR_eq_abs, absR_eq_abs]
  have : atol + rtol * |(1 : ℚ)| = 11 / 1000000 := by
    rw [abs_one]; unfold atol rtol; norm_num
  rw [this]

/-- `isClose a 0` is exactly `|a| ≤ 1e-6` -/
theorem isClose_zero_iff (a : ℚ) : isClose a 0 = true ↔ |a| ≤ 1 / 1000000 := by
  unfold isClose
  rw [decide_eq_true_iff, absR_eq_abs, absR_eq_abs]
  have : atol + rtol * |(0 : ℚ)| = 1 / 1000000 := by
    rw [abs_zero]; unfold atol rtol; norm_num
  rw [this, sub_zero]

end Lie

/-! ### the real-valued layer: `atan2`, the rotation angle -/
section real
open Real

/-- `math.atan2(y, x)`: the argument of `x + y·i`, in `(−π, π]`, `atan2(0, 0) = 0` -/
noncomputable def atan2 (y x : ℝ) : ℝ := Complex.arg (⟨x, y⟩ : ℂ)

theorem atan2_cos_sin (θ : ℝ) (h : θ ∈ Set.Ioc (-π) π) : atan2 (sin θ) (cos θ) = θ := by
  unfold atan2
  have : (⟨cos θ, sin θ⟩ : ℂ) = Complex.cos θ + Complex.sin θ * Complex.I := by
    apply Complex.ext <;> simp [← Complex.ofReal_cos, ← Complex.ofReal_sin]
  rw [this]; exact Complex.arg_cos_add_sin_mul_I h

theorem atan2_range (y x : ℝ) (hy : 0 ≤ y) : 0 ≤ atan2 y x ∧ atan2 y x ≤ π := by
  unfold atan2
  exact ⟨Complex.arg_nonneg_iff.mpr hy, Complex.arg_le_pi _⟩

theorem atan2_eq_zero_iff (y x : ℝ) : atan2 y x = 0 ↔ 0 ≤ x ∧ y = 0 := by
  unfold atan2; rw [Complex.arg_eq_zero_iff]

/-- evo's rotation angle between `a` and `b` (`so3_log_angle(relative_so3(a, b))` in exact
arithmetic): `atan2(√s², c)` of the angle core -/
noncomputable def angleR (a b : M3 ℝ) : ℝ :=
  atan2 (√((relSo3 a b).angleCore.2)) (relSo3 a b).angleCore.1

/-- `sin θ/θ` (1 at 0) and `(1 − cos θ)/θ²` (1/2 at 0): the Rodrigues coefficients -/
noncomputable def sincR (θ : ℝ) : ℝ := if θ = 0 then 1 else sin θ / θ
noncomputable def coscR (θ : ℝ) : ℝ := if θ = 0 then 1 / 2 else (1 - cos θ) / θ ^ 2

/-- `so3_exp` over ℝ: Rodrigues' formula with `θ = ‖v‖` -/
noncomputable def expR (v : V3 ℝ) : M3 ℝ := rodrigues v (sincR (√v.normSq)) (coscR (√v.normSq))

/-- `so3_log` over ℝ for rotation angles `< π`: `θ/sin θ · vee((R − Rᵀ)/2)` with
`θ = atan2(√s², c)`; `0` when `sin θ = 0` (correct for angle 0; angle π is outside the domain) -/
noncomputable def logR (r : M3 ℝ) : V3 ℝ :=
  if sin (atan2 (√r.angleCore.2) r.angleCore.1) = 0 then V3.zero
  else V3.smul (atan2 (√r.angleCore.2) r.angleCore.1 / sin (atan2 (√r.angleCore.2) r.angleCore.1)) r.axisVec

theorem rodrigues_smul (k a b : ℝ) (w : V3 ℝ) :
    rodrigues (V3.smul k w) a b = rodrigues w (a * k) (b * k ^ 2) := by
  ext <;> simp only [rodrigues, M3.add, M3.smul, M3.mul, M3.hat, M3.one, V3.smul] <;> ring

theorem sinc_cosc_rel (θ : ℝ) :
    sincR θ * sincR θ + coscR θ * coscR θ * (θ * θ) = (1 + 1) * coscR θ := by
  unfold sincR coscR
  split_ifs with h
  · subst h; norm_num
  · field_simp
    nlinarith [Real.sin_sq_add_cos_sq θ]

end real
end Evo
