/-
The SO(3) logarithm at rotation angle exactly π (the gap left by `logR` of `Lemmas/Lie.lean`,
which returns `0` whenever `sin θ = 0`).

For a proper rotation `R` with `c = (tr R − 1)/2 = −1`:
* `vee((R − Rᵀ)/2) = 0`, i.e. `R` is symmetric                       (`IsRot.axisVec_of_pi`)
* `adj(R + I) = (1 + tr R)·I = 0`: all 2×2 minors of `R + I` vanish   (`IsRot.minors_of_pi`)
* `P = (R + I)/2` is a symmetric rank-one projector of trace 1        (`IsRot.piP_rank1`),
  `P·P = P`                                                           (`IsRank1Proj.mul_self`)
* the largest diagonal entry of `P` is `≥ 1/3`                        (`IsRank1Proj.third_le_pickDiag`)
* `n = P e_j/√P_jj` (`piAxis`) is a unit vector with `n nᵀ = P`        (`piAxis_normSq`, `piAxis_outer`)
* `exp(π n) = 2 n nᵀ − I` for every unit `n`                          (`expR_pi_axis`)
so `exp(π·piAxis R) = 2P − I = R`.  `logRFull` is `logR` completed by `π·piAxis R` at angle π.
The main theorems (`exp_log_real`, `log_exp_real`, `log_exp_real_at_pi`) are in `Props/C09.lean`.
-/
import EvoModel.Lemmas.Lie
namespace Evo

set_option linter.unusedSectionVars false

section real
open Real

/-! ### the projector `P = (R + I)/2` -/

/-- `P = (R + I)/2`; for a rotation by π about the unit axis `n` this is `n nᵀ` -/
noncomputable def M3.piP (r : M3 ℝ) : M3 ℝ := M3.smul (1 / 2) (r.add M3.one)

/-- `2P − I = R` (for every matrix) -/
theorem M3.two_piP_sub_one (r : M3 ℝ) : (M3.smul 2 r.piP).add (M3.smul (-1) M3.one) = r := by
  ext <;> simp only [M3.piP, M3.smul, M3.add, M3.one] <;> ring

/-- `P(2 n nᵀ − I) = n nᵀ` -/
theorem M3.piP_two_outer_sub_one (n : V3 ℝ) :
    ((M3.smul 2 (M3.outer n n)).add (M3.smul (-1) M3.one)).piP = M3.outer n n := by
  ext <;> simp only [M3.piP, M3.smul, M3.add, M3.one, M3.outer] <;> ring

/-- a symmetric matrix of trace 1 all of whose 2×2 minors vanish: a rank-one orthogonal projector
`n nᵀ`, `‖n‖ = 1` (what `(R + I)/2` is for a rotation by π) -/
structure IsRank1Proj (p : M3 ℝ) : Prop where
  s01 : p.a10 = p.a01
  s02 : p.a20 = p.a02
  s12 : p.a21 = p.a12
  tr : p.a00 + p.a11 + p.a22 = 1
  m00 : p.a11 * p.a22 = p.a12 * p.a12
  m11 : p.a00 * p.a22 = p.a02 * p.a02
  m22 : p.a00 * p.a11 = p.a01 * p.a01
  m01 : p.a01 * p.a22 = p.a02 * p.a12
  m02 : p.a01 * p.a12 = p.a02 * p.a11
  m12 : p.a00 * p.a12 = p.a01 * p.a02

/-! ### a rotation with `c = −1` -/

/-- `c = −1` is `tr R = −1` -/
theorem M3.trace_of_pi {r : M3 ℝ} (hc : r.angleCore.1 = -1) : r.trace = -1 := by
  rw [M3.angleCore_fst] at hc
  have : r.trace - 1 = -1 * (1 + 1) := (div_eq_iff (two_ne_zero' (K := ℝ))).mp hc
  linarith

/-- a real vector of norm zero is zero -/
theorem V3.eq_zero_of_normSq {v : V3 ℝ} (h0 : v.normSq = 0) : v = V3.zero := by
  simp only [V3.normSq, V3.dot] at h0
  have nx := mul_self_nonneg v.x
  have ny := mul_self_nonneg v.y
  have nz := mul_self_nonneg v.z
  ext <;> simp only [V3.zero] <;> apply mul_self_eq_zero.mp <;> linarith

/-- at angle π the skew part vanishes: `vee((R − Rᵀ)/2) = 0` (`‖w‖² = 1 − c² = 0`) -/
theorem IsRot.axisVec_of_pi {r : M3 ℝ} (h : IsRot r) (hc : r.angleCore.1 = -1) :
    r.axisVec = V3.zero := by
  have hn := h.axis_normSq
  rw [← M3.angleCore_fst, hc] at hn
  exact V3.eq_zero_of_normSq (by rw [hn]; ring)

/-- … so `R` is symmetric -/
theorem IsRot.symm_of_pi {r : M3 ℝ} (h : IsRot r) (hc : r.angleCore.1 = -1) :
    r.a10 = r.a01 ∧ r.a20 = r.a02 ∧ r.a21 = r.a12 := by
  have e := h.axisVec_of_pi hc
  have ex := congrArg V3.x e
  have ey := congrArg V3.y e
  have ez := congrArg V3.z e
  simp only [M3.axisVec, V3.zero] at ex ey ez
  have h2 : (1 + 1 : ℝ) ≠ 0 := two_ne_zero'
  rw [div_eq_zero_iff] at ex ey ez
  refine ⟨?_, ?_, ?_⟩
  · rcases ez with ez | ez
    · linarith
    · exact absurd ez h2
  · rcases ey with ey | ey
    · linarith
    · exact absurd ey h2
  · rcases ex with ex | ex
    · linarith
    · exact absurd ex h2

theorem IsRot.transpose_of_pi {r : M3 ℝ} (h : IsRot r) (hc : r.angleCore.1 = -1) :
    r.transpose = r := by
  obtain ⟨s01, s02, s12⟩ := h.symm_of_pi hc
  ext <;> simp only [M3.transpose, s01, s02, s12]

/-- `adj(R + I) = (1 + tr R)·I = 0` at angle π: the nine 2×2 minors of `R + I` vanish
(`cof R = R`, symmetry and `tr R = −1`) -/
theorem IsRot.minors_of_pi {r : M3 ℝ} (h : IsRot r) (hc : r.angleCore.1 = -1) :
    ((r.a11 + 1) * (r.a22 + 1) - r.a12 * r.a21 = 0 ∧ r.a10 * (r.a22 + 1) - r.a12 * r.a20 = 0 ∧
      r.a10 * r.a21 - (r.a11 + 1) * r.a20 = 0) ∧
    (r.a01 * (r.a22 + 1) - r.a02 * r.a21 = 0 ∧ (r.a00 + 1) * (r.a22 + 1) - r.a02 * r.a20 = 0 ∧
      (r.a00 + 1) * r.a21 - r.a01 * r.a20 = 0) ∧
    (r.a01 * r.a12 - r.a02 * (r.a11 + 1) = 0 ∧ (r.a00 + 1) * r.a12 - r.a02 * r.a10 = 0 ∧
      (r.a00 + 1) * (r.a11 + 1) - r.a01 * r.a10 = 0) := by
  obtain ⟨⟨hk00, hk01, hk02⟩, ⟨hk10, hk11, hk12⟩, ⟨hk20, hk21, hk22⟩⟩ := h.cof
  obtain ⟨s01, s02, s12⟩ := h.symm_of_pi hc
  have ht := M3.trace_of_pi hc
  simp only [M3.trace] at ht
  refine ⟨⟨?_, ?_, ?_⟩, ⟨?_, ?_, ?_⟩, ⟨?_, ?_, ?_⟩⟩
  · linear_combination hk00 + ht
  · linear_combination (-1) * hk01 + s01
  · linear_combination hk02 - s02
  · linear_combination (-1) * hk10 - s01
  · linear_combination hk11 + ht
  · linear_combination (-1) * hk12 + s12
  · linear_combination hk20 + s02
  · linear_combination (-1) * hk21 - s12
  · linear_combination hk22 + ht

/-- `P = (R + I)/2` of a rotation by π is a symmetric rank-one projector of trace 1 -/
theorem IsRot.piP_rank1 {r : M3 ℝ} (h : IsRot r) (hc : r.angleCore.1 = -1) : IsRank1Proj r.piP := by
  obtain ⟨⟨n00, n01, n02⟩, ⟨n10, n11, n12⟩, ⟨n20, n21, n22⟩⟩ := h.minors_of_pi hc
  obtain ⟨s01, s02, s12⟩ := h.symm_of_pi hc
  have ht := M3.trace_of_pi hc
  simp only [M3.trace] at ht
  constructor <;> simp only [M3.piP, M3.smul, M3.add, M3.one]
  · linear_combination (1 / 2) * s01
  · linear_combination (1 / 2) * s02
  · linear_combination (1 / 2) * s12
  · linear_combination (1 / 2) * ht
  · linear_combination (1 / 4) * n00 + (1 / 4) * r.a12 * s12
  · linear_combination (1 / 4) * n11 + (1 / 4) * r.a02 * s02
  · linear_combination (1 / 4) * n22 + (1 / 4) * r.a01 * s01
  · linear_combination (1 / 4) * n10 + (1 / 4) * r.a02 * s12
  · linear_combination (1 / 4) * n20
  · linear_combination (1 / 4) * n21 + (1 / 4) * r.a02 * s01

/-! ### rank-one projectors: idempotent, non-negative diagonal, unit axis -/

namespace IsRank1Proj
variable {p : M3 ℝ}

/-- `P·P = P` -/
theorem mul_self (hp : IsRank1Proj p) : p.mul p = p := by
  obtain ⟨s01, s02, s12, tr, m00, m11, m22, m01, m02, m12⟩ := hp
  ext <;> simp only [M3.mul]
  · linear_combination p.a00 * tr - m11 - m22 + p.a01 * s01 + p.a02 * s02
  · linear_combination p.a01 * tr + p.a02 * s12 - m01
  · linear_combination p.a02 * tr + m02
  · linear_combination p.a10 * tr + p.a12 * s02 - m01 - p.a22 * s01
  · linear_combination p.a11 * tr - m00 - m22 + p.a01 * s01 + p.a12 * s12
  · linear_combination p.a12 * tr + p.a02 * s01 - m12
  · linear_combination p.a20 * tr + p.a10 * s12 + p.a12 * s01 + m02 - p.a11 * s02
  · linear_combination p.a21 * tr + p.a01 * s02 - p.a00 * s12 - m12
  · linear_combination p.a22 * tr - m00 - m11 + p.a02 * s02 + p.a12 * s12

/-- the diagonal of a rank-one projector is non-negative: `P_jj = Σₖ P_jk²` -/
theorem diag_nonneg (hp : IsRank1Proj p) : 0 ≤ p.a00 ∧ 0 ≤ p.a11 ∧ 0 ≤ p.a22 := by
  obtain ⟨s01, s02, s12, tr, m00, m11, m22, m01, m02, m12⟩ := hp
  have e0 : p.a00 = p.a00 * p.a00 + p.a01 * p.a01 + p.a02 * p.a02 := by
    linear_combination (-p.a00) * tr + m11 + m22
  have e1 : p.a11 = p.a01 * p.a01 + p.a11 * p.a11 + p.a12 * p.a12 := by
    linear_combination (-p.a11) * tr + m00 + m22
  have e2 : p.a22 = p.a02 * p.a02 + p.a12 * p.a12 + p.a22 * p.a22 := by
    linear_combination (-p.a22) * tr + m00 + m11
  refine ⟨?_, ?_, ?_⟩
  · rw [e0]; nlinarith [mul_self_nonneg p.a00, mul_self_nonneg p.a01, mul_self_nonneg p.a02]
  · rw [e1]; nlinarith [mul_self_nonneg p.a01, mul_self_nonneg p.a11, mul_self_nonneg p.a12]
  · rw [e2]; nlinarith [mul_self_nonneg p.a02, mul_self_nonneg p.a12, mul_self_nonneg p.a22]

end IsRank1Proj

/-! ### the axis: the column of `P` with the largest diagonal entry, normalised -/

/-- the largest diagonal entry (the one the axis is read from; ties: smallest index) -/
noncomputable def M3.pickDiag (p : M3 ℝ) : ℝ :=
  if p.a11 ≤ p.a00 ∧ p.a22 ≤ p.a00 then p.a00 else if p.a22 ≤ p.a11 then p.a11 else p.a22

/-- column `j` of `p` divided by `√p_jj`, `j` the index of the largest diagonal entry
(ties: smallest `j`) -/
noncomputable def piAxisOf (p : M3 ℝ) : V3 ℝ :=
  if p.a11 ≤ p.a00 ∧ p.a22 ≤ p.a00 then V3.smul (1 / √p.a00) p.col0
  else if p.a22 ≤ p.a11 then V3.smul (1 / √p.a11) p.col1
  else V3.smul (1 / √p.a22) p.col2

/-- a unit axis of a rotation by π: from `P = (R + I)/2 = n nᵀ` take the column `j` with the
largest diagonal entry `P_jj = n_j²` (ties: smallest `j`) and divide it by `√P_jj = |n_j|` -/
noncomputable def piAxis (r : M3 ℝ) : V3 ℝ := piAxisOf r.piP

/-- the SO(3) logarithm on the whole group: `logR` for angles `< π`, `π·piAxis R` at angle π -/
noncomputable def logRFull (r : M3 ℝ) : V3 ℝ :=
  if r.angleCore.1 = -1 then V3.smul π (piAxis r) else logR r

/-- `pickDiag` is the maximum of the diagonal -/
theorem M3.pickDiag_max (p : M3 ℝ) : p.a00 ≤ p.pickDiag ∧ p.a11 ≤ p.pickDiag ∧ p.a22 ≤ p.pickDiag := by
  unfold M3.pickDiag
  split_ifs with h0 h1
  · exact ⟨le_refl _, h0.1, h0.2⟩
  · refine ⟨?_, le_refl _, h1⟩
    by_contra hlt
    exact h0 ⟨(not_le.mp hlt).le, h1.trans (not_le.mp hlt).le⟩
  · have h21 : p.a11 < p.a22 := not_le.mp h1
    refine ⟨?_, h21.le, le_refl _⟩
    by_contra hlt
    exact h0 ⟨h21.le.trans (not_le.mp hlt).le, (not_le.mp hlt).le⟩

namespace IsRank1Proj
variable {p : M3 ℝ}

/-- the chosen diagonal entry is `≥ 1/3` (the three entries sum to 1), in particular positive -/
theorem third_le_pickDiag (hp : IsRank1Proj p) : 1 / 3 ≤ p.pickDiag := by
  obtain ⟨h0, h1, h2⟩ := p.pickDiag_max
  have := hp.tr
  linarith

theorem pickDiag_pos (hp : IsRank1Proj p) : 0 < p.pickDiag := by
  have := hp.third_le_pickDiag
  linarith

end IsRank1Proj

/-- `(x/√s)(y/√s) = z` as soon as `x y = z s`, `s > 0` -/
theorem div_sqrt_mul_div_sqrt {s x y z : ℝ} (hs : 0 < s) (h : x * y = z * s) :
    1 / √s * x * (1 / √s * y) = z := by
  have hq : √s * √s = s := Real.mul_self_sqrt hs.le
  have hne : √s ≠ 0 := (Real.sqrt_pos.mpr hs).ne'
  have e : 1 / √s * x * (1 / √s * y) = x * y / (√s * √s) := by field_simp
  rw [e, hq, h]; field_simp

namespace IsRank1Proj
variable {p : M3 ℝ}

/-- `n nᵀ = P` for the axis read from the largest column -/
theorem piAxisOf_outer (hp : IsRank1Proj p) : M3.outer (piAxisOf p) (piAxisOf p) = p := by
  have hpos := hp.pickDiag_pos
  obtain ⟨s01, s02, s12, tr, m00, m11, m22, m01, m02, m12⟩ := hp
  unfold M3.pickDiag at hpos
  unfold piAxisOf
  split_ifs with h0 h1
  · rw [if_pos h0] at hpos
    ext <;> simp only [M3.outer, V3.smul, M3.col0] <;> apply div_sqrt_mul_div_sqrt hpos
    · ring
    · linear_combination p.a00 * s01
    · linear_combination p.a00 * s02
    · ring
    · linear_combination p.a10 * s01 + p.a01 * s01 - m22
    · linear_combination p.a20 * s01 + p.a01 * s02 - m12
    · ring
    · linear_combination p.a20 * s01 + p.a01 * s02 - m12 - p.a00 * s12
    · linear_combination p.a20 * s02 + p.a02 * s02 - m11
  · rw [if_neg h0, if_pos h1] at hpos
    ext <;> simp only [M3.outer, V3.smul, M3.col1] <;> apply div_sqrt_mul_div_sqrt hpos
    · linear_combination (-1) * m22
    · ring
    · linear_combination p.a01 * s12 + m02
    · linear_combination (-p.a11) * s01
    · ring
    · linear_combination p.a11 * s12
    · linear_combination p.a01 * s12 + m02 - p.a11 * s02
    · ring
    · linear_combination p.a21 * s12 + p.a12 * s12 - m00
  · rw [if_neg h0, if_neg h1] at hpos
    ext <;> simp only [M3.outer, V3.smul, M3.col2] <;> apply div_sqrt_mul_div_sqrt hpos
    · linear_combination (-1) * m11
    · linear_combination (-1) * m01
    · ring
    · linear_combination (-1) * m01 - p.a22 * s01
    · linear_combination (-1) * m00
    · ring
    · linear_combination (-p.a22) * s02
    · linear_combination (-p.a22) * s12
    · ring

/-- the axis is a unit vector: `‖n‖² = tr(n nᵀ) = tr P = 1` -/
theorem piAxisOf_normSq (hp : IsRank1Proj p) : (piAxisOf p).normSq = 1 := by
  have e := hp.piAxisOf_outer
  have e0 := congrArg M3.a00 e
  have e1 := congrArg M3.a11 e
  have e2 := congrArg M3.a22 e
  simp only [M3.outer] at e0 e1 e2
  simp only [V3.normSq, V3.dot]
  rw [e0, e1, e2]; exact hp.tr

end IsRank1Proj

/-- `(piAxis R)(piAxis R)ᵀ = (R + I)/2` for a rotation by π -/
theorem piAxis_outer {r : M3 ℝ} (h : IsRot r) (hc : r.angleCore.1 = -1) :
    M3.outer (piAxis r) (piAxis r) = r.piP := (h.piP_rank1 hc).piAxisOf_outer

/-- `‖piAxis R‖ = 1` for a rotation by π -/
theorem piAxis_normSq {r : M3 ℝ} (h : IsRot r) (hc : r.angleCore.1 = -1) :
    (piAxis r).normSq = 1 := (h.piP_rank1 hc).piAxisOf_normSq

/-- `P·P = P`, `P = (R + I)/2`, for a rotation by π -/
theorem IsRot.piP_mul_self {r : M3 ℝ} (h : IsRot r) (hc : r.angleCore.1 = -1) :
    r.piP.mul r.piP = r.piP := (h.piP_rank1 hc).mul_self

/-- the diagonal entry the axis is read from is `≥ 1/3` -/
theorem IsRot.third_le_pickDiag {r : M3 ℝ} (h : IsRot r) (hc : r.angleCore.1 = -1) :
    1 / 3 ≤ r.piP.pickDiag := (h.piP_rank1 hc).third_le_pickDiag

/-! ### `exp` of a rotation vector of length π -/

theorem V3.normSq_smul (k : ℝ) (n : V3 ℝ) : (V3.smul k n).normSq = k ^ 2 * n.normSq := by
  simp only [V3.normSq, V3.dot, V3.smul]; ring

/-- `exp(π n) = 2 n nᵀ − I` for a unit vector `n` (`sin π = 0`, `cos π = −1`) -/
theorem expR_pi_axis (n : V3 ℝ) (hn : n.normSq = 1) :
    expR (V3.smul π n) = (M3.smul 2 (M3.outer n n)).add (M3.smul (-1) M3.one) := by
  have hθ : √(V3.smul π n).normSq = π := by
    rw [V3.normSq_smul, hn, mul_one, Real.sqrt_sq Real.pi_pos.le]
  have hπ : π ≠ 0 := Real.pi_pos.ne'
  have ha : sincR π = 0 := by unfold sincR; rw [if_neg hπ, Real.sin_pi, zero_div]
  have hb : coscR π = 2 / π ^ 2 := by unfold coscR; rw [if_neg hπ, Real.cos_pi]; norm_num
  unfold expR
  rw [hθ, ha, hb, rodrigues_smul]
  have hb' : 2 / π ^ 2 * π ^ 2 = 2 := by field_simp
  rw [hb', zero_mul]
  simp only [V3.normSq, V3.dot] at hn
  ext <;> simp only [rodrigues, M3.add, M3.smul, M3.mul, M3.hat, M3.one, M3.outer]
  · linear_combination (-2) * hn
  · ring
  · ring
  · ring
  · linear_combination (-2) * hn
  · ring
  · ring
  · ring
  · linear_combination (-2) * hn

/-- every unit `n` with `n nᵀ = (R + I)/2` is a logarithm direction: `exp(π n) = 2P − I = R`
(an algebraic identity: no hypothesis on `R` is needed beyond `n nᵀ = P`) -/
theorem expR_of_outer_eq_piP (r : M3 ℝ) (n : V3 ℝ) (hn : n.normSq = 1) (hP : M3.outer n n = r.piP) :
    expR (V3.smul π n) = r := by
  rw [expR_pi_axis n hn, hP, M3.two_piP_sub_one]

/-- two unit vectors with the same outer square differ by a sign -/
theorem eq_or_neg_of_outer_eq {n u : V3 ℝ} (hu : u.normSq = 1) (h : M3.outer n n = M3.outer u u) :
    n = u ∨ n = V3.smul (-1) u := by
  have e := fun (f : M3 ℝ → ℝ) => congrArg f h
  have e00 := e M3.a00; have e01 := e M3.a01; have e02 := e M3.a02
  have e11 := e M3.a11; have e12 := e M3.a12; have e22 := e M3.a22
  simp only [M3.outer] at e00 e01 e02 e11 e12 e22
  simp only [V3.normSq, V3.dot] at hu
  -- d = ⟨n, u⟩ has d² = 1 and d·n = u
  have hd : (n.dot u) ^ 2 = 1 := by
    simp only [V3.dot]
    linear_combination (u.x * u.x) * e00 + (2 * u.x * u.y) * e01 + (2 * u.x * u.z) * e02
      + (u.y * u.y) * e11 + (2 * u.y * u.z) * e12 + (u.z * u.z) * e22
      + (u.x * u.x + u.y * u.y + u.z * u.z + 1) * hu
  have hx : n.x * n.dot u = u.x := by
    simp only [V3.dot]; linear_combination u.x * e00 + u.y * e01 + u.z * e02 + u.x * hu
  have hy : n.y * n.dot u = u.y := by
    simp only [V3.dot]; linear_combination u.x * e01 + u.y * e11 + u.z * e12 + u.y * hu
  have hz : n.z * n.dot u = u.z := by
    simp only [V3.dot]; linear_combination u.x * e02 + u.y * e12 + u.z * e22 + u.z * hu
  have : (n.dot u - 1) * (n.dot u + 1) = 0 := by linear_combination hd
  rcases mul_eq_zero.mp this with h1 | h1
  · have hd1 : n.dot u = 1 := by linarith
    rw [hd1, mul_one] at hx hy hz
    left; ext <;> assumption
  · have hd1 : n.dot u = -1 := by linarith
    rw [hd1] at hx hy hz
    right; ext <;> simp only [V3.smul] <;> linarith

/-- the cosine of the rotation angle of `exp v` is `cos ‖v‖`, for every `v` -/
theorem expR_angleCore_fst (v : V3 ℝ) : (expR v).angleCore.1 = cos (√v.normSq) := by
  have hn : v.normSq = √v.normSq * √v.normSq := (Real.mul_self_sqrt (V3.normSq_nonneg v)).symm
  unfold expR
  rw [M3.angleCore_fst, rodrigues_trace]
  generalize √v.normSq = θ at hn ⊢
  rw [hn]
  unfold coscR
  split_ifs with h0
  · rw [h0, Real.cos_zero]; norm_num
  · field_simp; ring


end real
end Evo
