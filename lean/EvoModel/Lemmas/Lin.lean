/-
Algebra of `Model/Lin.lean` over an arbitrary field: group laws of rigid poses,
invariance lemmas used by the metric properties (C01, C02, C04, C08, C09, C14).
-/
import EvoModel.Model.Lin
import Mathlib.Tactic.Ring
import Mathlib.Tactic.LinearCombination
import Mathlib.Tactic.FieldSimp
import Mathlib.Algebra.Field.Basic
import Mathlib.LinearAlgebra.Matrix.NonsingularInverse
import Mathlib.LinearAlgebra.Matrix.Notation
namespace Evo

set_option linter.unusedSectionVars false
variable {K : Type} [Field K]

@[ext] theorem V3.ext' {a b : V3 K} (hx : a.x = b.x) (hy : a.y = b.y) (hz : a.z = b.z) : a = b := by
  cases a; cases b; simp_all

@[ext] theorem M3.ext' {a b : M3 K} (h00 : a.a00 = b.a00) (h01 : a.a01 = b.a01) (h02 : a.a02 = b.a02)
    (h10 : a.a10 = b.a10) (h11 : a.a11 = b.a11) (h12 : a.a12 = b.a12)
    (h20 : a.a20 = b.a20) (h21 : a.a21 = b.a21) (h22 : a.a22 = b.a22) : a = b := by
  cases a; cases b; simp_all

@[ext] theorem Pose.ext' {a b : Pose K} (hr : a.rot = b.rot) (ht : a.t = b.t) : a = b := by
  cases a; cases b; simp_all

/-- all component-level definitions, for `simp only [lin]` -/
macro "lin_unfold" : tactic =>
  `(tactic| simp only [M3.mul, M3.transpose, M3.one, M3.zero, M3.mulVec, M3.add, M3.sub, M3.smul, M3.trace,
      M3.det, M3.frobSq, M3.hat, M3.vee, M3.col0, M3.col1, M3.col2, V3.zero, V3.add, V3.sub, V3.neg, V3.smul,
      V3.dot, V3.normSq, V3.cross, Pose.one, Pose.mul, Pose.inv, Pose.rel, Pose.sim3, Pose.pos, Pose.sim3Inv,
      M3.angleCore] at *)

/-! ### group structure of matrices and poses -/

theorem M3.mul_assoc' (a b c : M3 K) : (a.mul b).mul c = a.mul (b.mul c) := by
  ext <;> lin_unfold <;> ring

theorem M3.one_mul' (a : M3 K) : M3.one.mul a = a := by ext <;> lin_unfold <;> ring
theorem M3.mul_one' (a : M3 K) : a.mul M3.one = a := by ext <;> lin_unfold <;> ring
theorem M3.transpose_transpose (a : M3 K) : a.transpose.transpose = a := by ext <;> rfl
theorem M3.transpose_mul (a b : M3 K) : (a.mul b).transpose = b.transpose.mul a.transpose := by
  ext <;> lin_unfold <;> ring
theorem M3.transpose_one : (M3.one : M3 K).transpose = M3.one := by ext <;> rfl
theorem M3.mulVec_mulVec (a b : M3 K) (v : V3 K) : a.mulVec (b.mulVec v) = (a.mul b).mulVec v := by
  ext <;> lin_unfold <;> ring
theorem M3.one_mulVec (v : V3 K) : (M3.one : M3 K).mulVec v = v := by ext <;> lin_unfold <;> ring
theorem M3.trace_transpose (a : M3 K) : a.transpose.trace = a.trace := rfl
theorem M3.trace_mul_comm (a b : M3 K) : (a.mul b).trace = (b.mul a).trace := by lin_unfold; ring
theorem M3.frobSq_transpose (a : M3 K) : a.transpose.frobSq = a.frobSq := by lin_unfold; ring
theorem M3.det_transpose (a : M3 K) : a.transpose.det = a.det := by lin_unfold; ring
theorem M3.det_mul (a b : M3 K) : (a.mul b).det = a.det * b.det := by lin_unfold; ring
theorem M3.det_one : (M3.one : M3 K).det = 1 := by lin_unfold; ring

theorem Pose.mul_assoc' (a b c : Pose K) : (a.mul b).mul c = a.mul (b.mul c) := by
  ext <;> lin_unfold <;> ring
theorem Pose.one_mul' (a : Pose K) : Pose.one.mul a = a := by ext <;> lin_unfold <;> ring
theorem Pose.mul_one' (a : Pose K) : a.mul Pose.one = a := by ext <;> lin_unfold <;> ring

/-! ### bridge to Mathlib matrices (only to obtain `R Rᵀ = 1` from `Rᵀ R = 1`) -/

def M3.toMatrix (a : M3 K) : Matrix (Fin 3) (Fin 3) K :=
  !![a.a00, a.a01, a.a02; a.a10, a.a11, a.a12; a.a20, a.a21, a.a22]

theorem M3.toMatrix_mul (a b : M3 K) : (a.mul b).toMatrix = a.toMatrix * b.toMatrix := by
  ext i j; fin_cases i <;> fin_cases j <;> simp [M3.toMatrix, M3.mul, Matrix.mul_apply, Fin.sum_univ_three]

theorem M3.toMatrix_one : (M3.one : M3 K).toMatrix = 1 := by
  ext i j; fin_cases i <;> fin_cases j <;> simp [M3.toMatrix, M3.one]

theorem M3.toMatrix_inj {a b : M3 K} (h : a.toMatrix = b.toMatrix) : a = b := by
  have e := fun i j => congrFun (congrFun h i) j
  ext
  · simpa [M3.toMatrix] using e 0 0
  · simpa [M3.toMatrix] using e 0 1
  · simpa [M3.toMatrix] using e 0 2
  · simpa [M3.toMatrix] using e 1 0
  · simpa [M3.toMatrix] using e 1 1
  · simpa [M3.toMatrix] using e 1 2
  · simpa [M3.toMatrix] using e 2 0
  · simpa [M3.toMatrix] using e 2 1
  · simpa [M3.toMatrix] using e 2 2

/-- orthonormal 3×3 matrix: `Rᵀ R = I` (what `is_so3` checks besides the determinant) -/
def IsOrtho (r : M3 K) : Prop := r.transpose.mul r = M3.one
/-- proper rotation -/
def IsRot (r : M3 K) : Prop := IsOrtho r ∧ r.det = 1
/-- rigid pose: orthonormal rotation block (`is_se3` also fixes the bottom row, which is structural here) -/
def IsRigid (p : Pose K) : Prop := IsOrtho p.rot

theorem IsOrtho.mul_transpose {r : M3 K} (h : IsOrtho r) : r.mul r.transpose = M3.one := by
  apply M3.toMatrix_inj
  rw [M3.toMatrix_mul, M3.toMatrix_one]
  have : r.transpose.toMatrix * r.toMatrix = 1 := by rw [← M3.toMatrix_mul, h, M3.toMatrix_one]
  exact mul_eq_one_comm.mp this

theorem IsOrtho.transpose {r : M3 K} (h : IsOrtho r) : IsOrtho r.transpose := by
  unfold IsOrtho; rw [M3.transpose_transpose]; exact h.mul_transpose

theorem IsOrtho.mul {a b : M3 K} (ha : IsOrtho a) (hb : IsOrtho b) : IsOrtho (a.mul b) := by
  unfold IsOrtho at *
  rw [M3.transpose_mul, M3.mul_assoc', ← M3.mul_assoc' a.transpose, ha, M3.one_mul', hb]

theorem IsOrtho.one : IsOrtho (M3.one : M3 K) := by unfold IsOrtho; rw [M3.transpose_one, M3.one_mul']

/-- the six scalar column-orthonormality equations -/
theorem IsOrtho.eqs {r : M3 K} (h : IsOrtho r) :
    r.a00 * r.a00 + r.a10 * r.a10 + r.a20 * r.a20 = 1 ∧
    r.a00 * r.a01 + r.a10 * r.a11 + r.a20 * r.a21 = 0 ∧
    r.a00 * r.a02 + r.a10 * r.a12 + r.a20 * r.a22 = 0 ∧
    r.a01 * r.a01 + r.a11 * r.a11 + r.a21 * r.a21 = 1 ∧
    r.a01 * r.a02 + r.a11 * r.a12 + r.a21 * r.a22 = 0 ∧
    r.a02 * r.a02 + r.a12 * r.a12 + r.a22 * r.a22 = 1 := by
  unfold IsOrtho at h
  refine ⟨?_, ?_, ?_, ?_, ?_, ?_⟩
  · simpa [M3.mul, M3.transpose, M3.one] using congrArg M3.a00 h
  · simpa [M3.mul, M3.transpose, M3.one] using congrArg M3.a01 h
  · simpa [M3.mul, M3.transpose, M3.one] using congrArg M3.a02 h
  · simpa [M3.mul, M3.transpose, M3.one] using congrArg M3.a11 h
  · simpa [M3.mul, M3.transpose, M3.one] using congrArg M3.a12 h
  · simpa [M3.mul, M3.transpose, M3.one] using congrArg M3.a22 h

/-- the six scalar row-orthonormality equations -/
theorem IsOrtho.row_eqs {r : M3 K} (h : IsOrtho r) :
    r.a00 * r.a00 + r.a01 * r.a01 + r.a02 * r.a02 = 1 ∧
    r.a00 * r.a10 + r.a01 * r.a11 + r.a02 * r.a12 = 0 ∧
    r.a00 * r.a20 + r.a01 * r.a21 + r.a02 * r.a22 = 0 ∧
    r.a10 * r.a10 + r.a11 * r.a11 + r.a12 * r.a12 = 1 ∧
    r.a10 * r.a20 + r.a11 * r.a21 + r.a12 * r.a22 = 0 ∧
    r.a20 * r.a20 + r.a21 * r.a21 + r.a22 * r.a22 = 1 := by
  have := h.transpose.eqs
  simpa [M3.transpose] using this

/-! ### rigid poses form a group; `se3_inverse` is the inverse -/

theorem Pose.inv_mul_self {p : Pose K} (h : IsRigid p) : p.inv.mul p = Pose.one := by
  have e := h
  unfold IsRigid IsOrtho at e
  ext1
  · simp only [Pose.mul, Pose.inv, Pose.one]; exact e
  · simp only [Pose.mul, Pose.inv, Pose.one]
    ext <;> lin_unfold <;> ring

theorem Pose.mul_inv_self {p : Pose K} (h : IsRigid p) : p.mul p.inv = Pose.one := by
  have e := h.mul_transpose
  ext1
  · simp only [Pose.mul, Pose.inv, Pose.one]; exact e
  · simp only [Pose.mul, Pose.inv, Pose.one]
    rw [show p.rot.mulVec (V3.neg (p.rot.transpose.mulVec p.t)) = V3.neg ((p.rot.mul p.rot.transpose).mulVec p.t) by
      ext <;> lin_unfold <;> ring]
    rw [e]
    ext <;> lin_unfold <;> ring

theorem IsRigid.mul {a b : Pose K} (ha : IsRigid a) (hb : IsRigid b) : IsRigid (a.mul b) := by
  unfold IsRigid at *; simp only [Pose.mul]; exact IsOrtho.mul ha hb

theorem IsRigid.inv {a : Pose K} (ha : IsRigid a) : IsRigid a.inv := by
  unfold IsRigid at *; simp only [Pose.inv]; exact ha.transpose

theorem IsRigid.one : IsRigid (Pose.one : Pose K) := IsOrtho.one

theorem IsRigid.rel {a b : Pose K} (ha : IsRigid a) (hb : IsRigid b) : IsRigid (a.rel b) :=
  IsRigid.mul ha.inv hb

/-- `se3_inverse` is an anti-homomorphism when the left factor is rigid -/
theorem Pose.inv_mul_rev (a b : Pose K) (ha : IsRigid a) : (a.mul b).inv = b.inv.mul a.inv := by
  have gen : (a.mul b).inv = ⟨b.rot.transpose.mul a.rot.transpose,
      V3.sub (V3.neg (b.rot.transpose.mulVec ((a.rot.transpose.mul a.rot).mulVec b.t)))
        ((b.rot.transpose.mul a.rot.transpose).mulVec a.t)⟩ := by
    ext <;> lin_unfold <;> ring
  rw [gen]
  unfold IsRigid IsOrtho at ha
  rw [ha, M3.one_mulVec]
  ext <;> lin_unfold <;> ring

theorem Pose.inv_inv (a : Pose K) (h : IsRigid a) : a.inv.inv = a := by
  have e := h.mul_transpose
  ext1
  · simp only [Pose.inv]; exact M3.transpose_transpose _
  · simp only [Pose.inv, M3.transpose_transpose]
    rw [show V3.neg (a.rot.mulVec (V3.neg (a.rot.transpose.mulVec a.t))) = (a.rot.mul a.rot.transpose).mulVec a.t by
      ext <;> lin_unfold <;> ring]
    rw [e, M3.one_mulVec]

/-- `rel (T·a) (T·b) = rel a b` for rigid `T`: errors are invariant under a common motion -/
theorem Pose.rel_left_invariant (T a b : Pose K) (hT : IsRigid T) :
    (T.mul a).rel (T.mul b) = a.rel b := by
  unfold Pose.rel
  rw [Pose.inv_mul_rev T a hT, Pose.mul_assoc', ← Pose.mul_assoc' T.inv, Pose.inv_mul_self hT, Pose.one_mul']

theorem Pose.rel_self {a : Pose K} (h : IsRigid a) : a.rel a = Pose.one := Pose.inv_mul_self h

/-- swapping the arguments inverts the relative pose -/
theorem Pose.rel_swap (a b : Pose K) (ha : IsRigid a) : (a.rel b).inv = b.rel a := by
  unfold Pose.rel
  rw [Pose.inv_mul_rev _ _ ha.inv, Pose.inv_inv a ha]

/-! ### norms under rotations -/

theorem normSq_mulVec_of_ortho {r : M3 K} (h : IsOrtho r) (v : V3 K) :
    (r.mulVec v).normSq = v.normSq := by
  obtain ⟨h00, h01, h02, h11, h12, h22⟩ := h.eqs
  lin_unfold
  linear_combination (v.x * v.x) * h00 + (2 * v.x * v.y) * h01 + (2 * v.x * v.z) * h02
    + (v.y * v.y) * h11 + (2 * v.y * v.z) * h12 + (v.z * v.z) * h22

theorem dot_mulVec_of_ortho {r : M3 K} (h : IsOrtho r) (v w : V3 K) :
    (r.mulVec v).dot (r.mulVec w) = v.dot w := by
  obtain ⟨h00, h01, h02, h11, h12, h22⟩ := h.eqs
  lin_unfold
  linear_combination (v.x * w.x) * h00 + (v.x * w.y + v.y * w.x) * h01 + (v.x * w.z + v.z * w.x) * h02
    + (v.y * w.y) * h11 + (v.y * w.z + v.z * w.y) * h12 + (v.z * w.z) * h22

/-- `‖R − I‖_F² = 6 − 2·tr R` for orthonormal `R` -/
theorem frobSq_sub_one_of_ortho {r : M3 K} (h : IsOrtho r) :
    (r.sub M3.one).frobSq = 6 - 2 * r.trace := by
  obtain ⟨h00, _, _, h11, _, h22⟩ := h.eqs
  lin_unfold
  linear_combination h00 + h11 + h22

end Evo
