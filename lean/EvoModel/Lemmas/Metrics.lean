/-
Algebra of the error cores of `Model/Ape.lean` / `Model/Rpe.lean` over an arbitrary field:
reduction of an inverted / identity error pose, invariance under rigid motions, and the list
bookkeeping of `ape` / `rpe` (C01, C02).
-/
import EvoModel.Model.Rpe
import EvoModel.Lemmas.Lin
import EvoModel.Lemmas.SO3
import Mathlib.Algebra.Order.Ring.Rat
namespace Evo

set_option linter.unusedSectionVars false

section field
variable {K : Type} [Field K]

/-- a core whose reported value is zero: `√0`, `atan2(√0, 1)`, `|√a − √a|`, `|√a − √a|/√a·100` -/
def Core.IsZero : Core K → Prop
  | .sqrt r => r = 0
  | .angle c s2 _ => c = 1 ∧ s2 = 0
  | .sqrtDiff a b => a = b
  | .sqrtRatio a b => a = b

theorem V3.normSq_neg (v : V3 K) : (V3.neg v).normSq = v.normSq := by
  simp only [V3.normSq, V3.dot, V3.neg]; ring

theorem V3.normSq_sub_comm (a b : V3 K) : (V3.sub a b).normSq = (V3.sub b a).normSq := by
  simp only [V3.normSq, V3.dot, V3.sub]; ring

theorem M3.frobSq_sub_one_transpose (r : M3 K) :
    (M3.sub r.transpose M3.one).frobSq = (M3.sub r M3.one).frobSq := by
  simp only [M3.frobSq, M3.sub, M3.transpose, M3.one]; ring

theorem M3.angleCore_transpose (r : M3 K) : r.transpose.angleCore = r.angleCore := by
  simp only [M3.angleCore, M3.transpose, M3.trace, V3.normSq, V3.dot]
  refine Prod.ext rfl ?_
  simp only
  ring

/-- the translation of an inverted rigid pose has the same length -/
theorem Pose.inv_t_normSq {E : Pose K} (h : IsRigid E) : E.inv.t.normSq = E.t.normSq := by
  simp only [Pose.inv]
  rw [V3.normSq_neg, normSq_mulVec_of_ortho h.transpose]

/-- every reduction of the error pose gives the same number for `E` and `E⁻¹` -/
theorem reduceE_inv (rel : PoseRelation) {E : Pose K} (h : IsRigid E) :
    reduceE rel E.inv = reduceE rel E := by
  have ht := Pose.inv_t_normSq h
  have hr : E.inv.rot = E.rot.transpose := rfl
  cases rel <;> simp only [reduceE, hr, M3.frobSq_sub_one_transpose, M3.angleCore_transpose, ht]

theorem M3.angleCore_one [CharZero K] : (M3.one : M3 K).angleCore = (1, 0) := by
  have h2 : (1 + 1 : K) ≠ 0 := by norm_num
  simp only [M3.angleCore, M3.one, M3.trace, V3.normSq, V3.dot]
  refine Prod.ext ?_ ?_
  · simp only; field_simp; ring
  · simp only; ring

/-- the identity error pose reduces to a zero core, for every relation -/
theorem reduceE_one [CharZero K] (rel : PoseRelation) : (reduceE rel (Pose.one : Pose K)).IsZero := by
  have hr : (Pose.one : Pose K).rot = M3.one := rfl
  have ht : (Pose.one : Pose K).t = V3.zero := rfl
  have h0 : (M3.sub (M3.one : M3 K) M3.one).frobSq = 0 := by
    simp only [M3.frobSq, M3.sub, M3.one]; ring
  have hz : (V3.zero : V3 K).normSq = 0 := by simp only [V3.normSq, V3.dot, V3.zero]; ring
  cases rel <;> simp only [reduceE, hr, ht, h0, hz, M3.angleCore_one, Core.IsZero, add_zero, and_self]

/-- `(T·a).t − (T·b).t = R_T (a.t − b.t)` -/
theorem Pose.mul_t_sub (T a b : Pose K) :
    V3.sub (T.mul a).t (T.mul b).t = T.rot.mulVec (V3.sub a.t b.t) := by
  ext <;> simp only [Pose.mul, V3.sub, V3.add, M3.mulVec] <;> ring

/-- distances between positions are preserved by a common rigid motion -/
theorem Pose.dist_mul_left {T : Pose K} (hT : IsRigid T) (a b : Pose K) :
    (V3.sub (T.mul a).t (T.mul b).t).normSq = (V3.sub a.t b.t).normSq := by
  rw [Pose.mul_t_sub, normSq_mulVec_of_ortho hT]

theorem refDistSq_mul_left {T : Pose K} (hT : IsRigid T) (a b : Pose K) :
    refDistSq (T.mul a) (T.mul b) = refDistSq a b := Pose.dist_mul_left hT a b

/-- the length of the relative translation is the distance of the positions (rigid first pose) -/
theorem Pose.rel_t_normSq {a : Pose K} (ha : IsRigid a) (b : Pose K) :
    (a.rel b).t.normSq = (V3.sub a.t b.t).normSq := by
  have e : (a.rel b).t = a.rot.transpose.mulVec (V3.sub b.t a.t) := by
    ext <;> simp only [Pose.rel, Pose.mul, Pose.inv, V3.sub, V3.add, V3.neg, M3.mulVec, M3.transpose] <;> ring
  rw [e, normSq_mulVec_of_ortho ha.transpose, V3.normSq_sub_comm]

/-! ### APE -/

theorem apeCore_common_motion (rel : PoseRelation) {T : Pose K} (hT : IsRigid T) (ref est : Pose K) :
    apeCore rel (T.mul ref) (T.mul est) = apeCore rel ref est := by
  cases rel <;>
    simp only [apeCore, apeBase, Pose.rel_left_invariant T est ref hT, Pose.dist_mul_left hT]

theorem apeCore_swap (rel : PoseRelation) {ref est : Pose K} (hr : IsRigid ref) (he : IsRigid est) :
    apeCore rel est ref = apeCore rel ref est := by
  have hE : IsRigid (est.rel ref) := IsRigid.rel he hr
  have e : ref.rel est = (est.rel ref).inv := (Pose.rel_swap est ref he).symm
  cases rel <;>
    simp only [apeCore, apeBase, e, reduceE_inv _ hE, V3.normSq_sub_comm ref.t est.t]

theorem apeCore_self [CharZero K] (rel : PoseRelation) {p : Pose K} (hp : IsRigid p) :
    (apeCore rel p p).IsZero := by
  have h0 : (V3.sub p.t p.t).normSq = 0 := by simp only [V3.normSq, V3.dot, V3.sub]; ring
  have h1 := reduceE_one (K := K)
  cases rel
  case trans => simp only [apeCore, h0, Core.IsZero]
  case pointDist => simp only [apeCore, h0, Core.IsZero]
  case ratio => simp only [apeCore, Core.IsZero]
  all_goals (simp only [apeCore, apeBase, Pose.rel_self hp]; exact h1 _)

/-! ### RPE -/

theorem rpeCore_separate_motions (rel : PoseRelation) {Tq Tp : Pose K} (hq : IsRigid Tq) (hp : IsRigid Tp)
    (Qi Qj Pi Pj : Pose K) :
    rpeCore rel (Tq.mul Qi) (Tq.mul Qj) (Tp.mul Pi) (Tp.mul Pj) = rpeCore rel Qi Qj Pi Pj := by
  cases rel <;>
    simp only [rpeCore, rpeBase, Pose.rel_left_invariant Tq Qi Qj hq, Pose.rel_left_invariant Tp Pi Pj hp,
      refDistSq_mul_left hq, refDistSq_mul_left hp]

theorem rpeCore_same_relative_motion [CharZero K] (rel : PoseRelation) {Qi Qj Pi Pj : Pose K}
    (hQi : IsRigid Qi) (hQj : IsRigid Qj) (hPi : IsRigid Pi) (h : Qi.rel Qj = Pi.rel Pj) :
    (rpeCore rel Qi Qj Pi Pj).IsZero := by
  have hd : refDistSq Qi Qj = refDistSq Pi Pj := by
    unfold refDistSq
    rw [← Pose.rel_t_normSq hQi, ← Pose.rel_t_normSq hPi, h]
  have hrig : IsRigid (Qi.rel Qj) := IsRigid.rel hQi hQj
  have h1 := reduceE_one (K := K)
  cases rel
  case pointDist => simp only [rpeCore, Core.IsZero, hd]
  case ratio => simp only [rpeCore, Core.IsZero, hd]
  all_goals (simp only [rpeCore, rpeBase, ← h, Pose.rel_self hrig]; exact h1 _)

end field

/-! ### the `is_so3` guard accepts exact rotations -/

theorem absR_zero : absR 0 = 0 := by decide +kernel

theorem isSo3Approx_of_isRot {r : M3 Rat} (h : IsRot r) : isSo3Approx r = true := by
  obtain ⟨ho, hd⟩ := h
  have hg : M3.mul (M3.transpose r) r = M3.one := ho
  have t1 : absR (0 : Rat) ≤ tolOne := by decide +kernel
  have t0 : absR (0 : Rat) ≤ tolZero := by decide +kernel
  simp only [isSo3Approx, hg, hd, M3.one, sub_self, t1, t0, decide_true, Bool.and_self]

theorem IsRot.rel_rot {a b : Pose Rat} (ha : IsRot a.rot) (hb : IsRot b.rot) : IsRot (a.rel b).rot := by
  have : (a.rel b).rot = a.rot.transpose.mul b.rot := rfl
  rw [this]
  exact IsRot.mul ha.transpose hb

/-! ### list bookkeeping of `ape` -/

theorem ape_ok_iff {rel : PoseRelation} {ref est : List (Pose Rat)} {vs : List (Core Rat)} :
    ape rel ref est = .ok vs ↔
      ref.length = est.length ∧ rel ≠ .ratio ∧
      ¬ (rel.isAngle = true ∧ (apeRots ref est).all isSo3Approx = false) ∧
      vs = List.zipWith (apeCore rel) ref est := by
  unfold ape
  by_cases h1 : ref.length = est.length
  · rw [if_neg (not_not.mpr h1)]
    by_cases h2 : rel = .ratio
    · rw [if_pos h2]
      constructor
      · intro h; cases h
      · rintro ⟨_, h, _⟩; exact absurd h2 h
    · rw [if_neg h2]
      by_cases h3 : rel.isAngle = true ∧ (apeRots ref est).all isSo3Approx = false
      · rw [if_pos h3]
        constructor
        · intro h; cases h
        · rintro ⟨_, _, h, _⟩; exact absurd h3 h
      · rw [if_neg h3]
        constructor
        · intro h; injection h with h; exact ⟨h1, h2, h3, h.symm⟩
        · rintro ⟨_, _, _, h⟩; rw [h]
  · rw [if_pos h1]
    constructor
    · intro h; cases h
    · rintro ⟨h, _⟩; exact absurd h h1

theorem apeRots_all_of_isRot {ref est : List (Pose Rat)}
    (hr : ∀ p ∈ ref, IsRot p.rot) (he : ∀ p ∈ est, IsRot p.rot) :
    (apeRots ref est).all isSo3Approx = true := by
  rw [List.all_eq_true]
  intro m hm
  unfold apeRots at hm
  rw [List.mem_iff_getElem] at hm
  obtain ⟨k, hk, rfl⟩ := hm
  rw [List.length_zipWith] at hk
  rw [List.getElem_zipWith]
  apply isSo3Approx_of_isRot
  exact IsRot.rel_rot (he _ (List.getElem_mem _)) (hr _ (List.getElem_mem _))

/-! ### list bookkeeping of `rpe` -/

theorem pairCore_of_lt (rel : PoseRelation) (ref est : List (Pose Rat)) (p : Nat × Nat)
    (h1 : p.1 < ref.length) (h2 : p.2 < ref.length) (h3 : p.1 < est.length) (h4 : p.2 < est.length) :
    pairCore rel ref est p = some (rpeCore rel ref[p.1] ref[p.2] est[p.1] est[p.2]) := by
  simp only [pairCore, pairPoses, List.getElem?_eq_getElem h1, List.getElem?_eq_getElem h2,
    List.getElem?_eq_getElem h3, List.getElem?_eq_getElem h4, Option.map_some]

instance : Inhabited (Pose Rat) := ⟨Pose.one⟩

/-- with valid indices every kept pair yields its value: the values are a `map` over the kept pairs -/
theorem rpe_values_eq_map (rel : PoseRelation) {pairs : List (Nat × Nat)} {ref est : List (Pose Rat)}
    (hl : ref.length = est.length) (hidx : ∀ p ∈ pairs, p.1 < ref.length ∧ p.2 < ref.length)
    (kept : List (Nat × Nat)) (hk : ∀ p ∈ kept, p ∈ pairs) :
    kept.filterMap (pairCore rel ref est)
      = kept.map (fun p => rpeCore rel ref[p.1]! ref[p.2]! est[p.1]! est[p.2]!) := by
  rw [← List.filterMap_eq_map]
  apply List.filterMap_congr
  intro p hp
  have hp' := hidx p (hk p hp)
  have h3 : p.1 < est.length := hl ▸ hp'.1
  have h4 : p.2 < est.length := hl ▸ hp'.2
  rw [pairCore_of_lt rel ref est p hp'.1 hp'.2 h3 h4]
  simp only [Function.comp, getElem!_pos ref p.1 hp'.1, getElem!_pos ref p.2 hp'.2,
    getElem!_pos est p.1 h3, getElem!_pos est p.2 h4]

theorem keptPairs_sublist (rel : PoseRelation) (ref : List (Pose Rat)) (pairs : List (Nat × Nat)) :
    (keptPairs rel ref pairs).Sublist pairs := by
  unfold keptPairs
  split
  · exact List.filter_sublist
  · exact List.Sublist.refl _

/-- what `rpe` returns when it returns: all indices valid, the kept pairs in order -/
theorem rpe_ok_iff {rel : PoseRelation} {pairs : List (Nat × Nat)} {ref est : List (Pose Rat)} {r : RpeResult} :
    rpe rel pairs ref est = .ok r ↔
      ref.length = est.length ∧ (∀ p ∈ pairs, p.1 < ref.length ∧ p.2 < ref.length) ∧
      ¬ (rel.isAngle = true ∧ (rpeRots ref est pairs).all isSo3Approx = false) ∧
      r = ⟨(keptPairs rel ref pairs).filterMap (pairCore rel ref est), (keptPairs rel ref pairs).map Prod.snd⟩ := by
  unfold rpe
  by_cases h1 : ref.length = est.length
  · rw [if_neg (not_not.mpr h1)]
    have hb : (pairs.any fun p => decide (ref.length ≤ p.1) || decide (ref.length ≤ p.2)) = true ↔
        ¬ ∀ p ∈ pairs, p.1 < ref.length ∧ p.2 < ref.length := by
      rw [List.any_eq_true]
      constructor
      · rintro ⟨p, hp, hq⟩ hall
        have := hall p hp
        simp only [Bool.or_eq_true, decide_eq_true_eq] at hq
        omega
      · intro h
        push Not at h
        obtain ⟨p, hp, hq⟩ := h
        refine ⟨p, hp, ?_⟩
        simp only [Bool.or_eq_true, decide_eq_true_eq]
        by_cases h' : p.1 < ref.length
        · right; have := hq h'; omega
        · left; omega
    by_cases h2 : ∀ p ∈ pairs, p.1 < ref.length ∧ p.2 < ref.length
    · rw [if_neg (fun hh => (hb.mp hh) h2)]
      by_cases h3 : rel.isAngle = true ∧ (rpeRots ref est pairs).all isSo3Approx = false
      · rw [if_pos h3]
        constructor
        · intro h; cases h
        · rintro ⟨_, _, h, _⟩; exact absurd h3 h
      · rw [if_neg h3]
        constructor
        · intro h; injection h with h; exact ⟨h1, h2, h3, h.symm⟩
        · rintro ⟨_, _, _, h⟩; rw [h]
    · rw [if_pos (hb.mpr h2)]
      constructor
      · intro h; cases h
      · rintro ⟨_, h, _⟩; exact absurd h h2
  · rw [if_pos h1]
    constructor
    · intro h; cases h
    · rintro ⟨h, _⟩; exact absurd h h1

/-! ### plans: ranks of the parts -/

theorem rank_downsamplePart {o : CommonOpts} {s : Step} (h : s ∈ downsamplePart o) : s.rank = 0 := by
  unfold downsamplePart at h
  split at h
  · unfold optStep at h; split at h
    · simp only [List.mem_singleton] at h; subst h; rfl
    · simp at h
  · simp at h

theorem rank_motionPart {o : CommonOpts} {s : Step} (h : s ∈ motionPart o) : s.rank = 1 := by
  unfold motionPart at h
  split at h
  · simp only [List.mem_singleton] at h; subst h; rfl
  · simp at h

theorem rank_syncPart {o : CommonOpts} {s : Step} (h : s ∈ syncPart o) : s.rank = 2 ∨ s.rank = 3 := by
  unfold syncPart at h
  split at h
  · rw [List.mem_append] at h
    rcases h with h | h
    · unfold optStep at h; split at h
      · simp only [List.mem_singleton] at h; subst h; left; rfl
      · simp at h
    · simp only [List.mem_singleton] at h; subst h; right; rfl
  · simp at h

theorem rank_alignPart {o : CommonOpts} {s : Step} (h : s ∈ alignPart o) : s.rank = 4 := by
  unfold alignPart at h
  split at h
  · simp only [List.mem_singleton] at h; subst h; rfl
  · simp at h

theorem rank_originPart {o : CommonOpts} {s : Step} (h : s ∈ optStep o.alignOrigin .alignOrigin) : s.rank = 5 := by
  unfold optStep at h; split at h
  · simp only [List.mem_singleton] at h; subst h; rfl
  · simp at h

theorem rank_projectPart {o : CommonOpts} {s : Step} (h : s ∈ projectPart o) : s.rank = 6 := by
  unfold projectPart at h
  split at h
  · simp only [List.mem_singleton] at h; subst h; rfl
  · simp at h

theorem rank_unitPart {o : CommonOpts} {s : Step} (h : s ∈ unitPart o) : s.rank = 8 := by
  unfold unitPart at h
  split at h
  · simp only [List.mem_singleton] at h; subst h; rfl
  · simp at h

theorem prePlan_ok_iff {o : CommonOpts} {pre : List Step} :
    prePlan o = .ok pre ↔ ¬ (o.motionFilter.isSome = true ∧ o.hasStamps = false) ∧
      pre = downsamplePart o ++ motionPart o ++ syncPart o ++ alignPart o
            ++ optStep o.alignOrigin .alignOrigin ++ projectPart o := by
  unfold prePlan
  have hc : (o.motionFilter.isSome && !o.hasStamps) = true ↔ (o.motionFilter.isSome = true ∧ o.hasStamps = false) := by
    cases o.motionFilter.isSome <;> cases o.hasStamps <;> decide
  by_cases h : (o.motionFilter.isSome && !o.hasStamps) = true
  · rw [if_pos h]
    constructor
    · intro e; cases e
    · rintro ⟨e, _⟩; exact absurd (hc.mp h) e
  · rw [if_neg h]
    constructor
    · intro e; injection e with e; exact ⟨fun x => h (hc.mpr x), e.symm⟩
    · rintro ⟨_, e⟩; rw [e]

/-- each part contributes at most one step per rank: the part lists are strictly rank-sorted -/
theorem pairwise_rank_single (l : List Step) (h : l.length ≤ 1) : (l.map Step.rank).Pairwise (· < ·) := by
  match l, h with
  | [], _ => simp
  | [a], _ => simp

theorem length_downsamplePart (o : CommonOpts) : (downsamplePart o).length ≤ 1 := by
  unfold downsamplePart optStep; split <;> [split; skip] <;> simp
theorem length_motionPart (o : CommonOpts) : (motionPart o).length ≤ 1 := by
  unfold motionPart; split <;> simp
theorem length_alignPart (o : CommonOpts) : (alignPart o).length ≤ 1 := by
  unfold alignPart; split <;> simp
theorem length_optStep (c : Bool) (s : Step) : (optStep c s).length ≤ 1 := by
  unfold optStep; split <;> simp
theorem length_projectPart (o : CommonOpts) : (projectPart o).length ≤ 1 := by
  unfold projectPart; split <;> simp
theorem length_unitPart (o : CommonOpts) : (unitPart o).length ≤ 1 := by
  unfold unitPart; split <;> simp

theorem pairwise_syncPart (o : CommonOpts) : ((syncPart o).map Step.rank).Pairwise (· < ·) := by
  unfold syncPart optStep
  split
  · split <;> simp [Step.rank]
  · simp

/-- the pre-metric steps are strictly sorted by rank, all ranks below 7 -/
theorem prePlan_sorted {o : CommonOpts} {pre : List Step} (h : prePlan o = .ok pre) :
    (pre.map Step.rank).Pairwise (· < ·) ∧ ∀ s ∈ pre, s.rank < 7 := by
  obtain ⟨_, rfl⟩ := prePlan_ok_iff.mp h
  constructor
  · simp only [List.map_append, List.pairwise_append, List.mem_append, List.mem_map]
    refine ⟨⟨⟨⟨⟨pairwise_rank_single _ (length_downsamplePart o), pairwise_rank_single _ (length_motionPart o), ?_⟩,
      pairwise_syncPart o, ?_⟩, pairwise_rank_single _ (length_alignPart o), ?_⟩,
      pairwise_rank_single _ (length_optStep _ _), ?_⟩, pairwise_rank_single _ (length_projectPart o), ?_⟩
    · rintro a ⟨s, hs, rfl⟩ b ⟨t, ht, rfl⟩
      rw [rank_downsamplePart hs, rank_motionPart ht]; decide
    · rintro a (⟨s, hs, rfl⟩ | ⟨s, hs, rfl⟩) b ⟨t, ht, rfl⟩ <;>
        rcases rank_syncPart ht with e | e <;> rw [e] <;>
        first | (rw [rank_downsamplePart hs]; decide) | (rw [rank_motionPart hs]; decide)
    · rintro a ((⟨s, hs, rfl⟩ | ⟨s, hs, rfl⟩) | ⟨s, hs, rfl⟩) b ⟨t, ht, rfl⟩ <;> rw [rank_alignPart ht]
      · rw [rank_downsamplePart hs]; decide
      · rw [rank_motionPart hs]; decide
      · rcases rank_syncPart hs with e | e <;> rw [e] <;> decide
    · rintro a (((⟨s, hs, rfl⟩ | ⟨s, hs, rfl⟩) | ⟨s, hs, rfl⟩) | ⟨s, hs, rfl⟩) b ⟨t, ht, rfl⟩ <;> rw [rank_originPart ht]
      · rw [rank_downsamplePart hs]; decide
      · rw [rank_motionPart hs]; decide
      · rcases rank_syncPart hs with e | e <;> rw [e] <;> decide
      · rw [rank_alignPart hs]; decide
    · rintro a ((((⟨s, hs, rfl⟩ | ⟨s, hs, rfl⟩) | ⟨s, hs, rfl⟩) | ⟨s, hs, rfl⟩) | ⟨s, hs, rfl⟩) b ⟨t, ht, rfl⟩ <;>
        rw [rank_projectPart ht]
      · rw [rank_downsamplePart hs]; decide
      · rw [rank_motionPart hs]; decide
      · rcases rank_syncPart hs with e | e <;> rw [e] <;> decide
      · rw [rank_alignPart hs]; decide
      · rw [rank_originPart hs]; decide
  · intro s hs
    simp only [List.mem_append] at hs
    rcases hs with ((((hs | hs) | hs) | hs) | hs) | hs
    · rw [rank_downsamplePart hs]; decide
    · rw [rank_motionPart hs]; decide
    · rcases rank_syncPart hs with e | e <;> rw [e] <;> decide
    · rw [rank_alignPart hs]; decide
    · rw [rank_originPart hs]; decide
    · rw [rank_projectPart hs]; decide

theorem apePlan_ok_iff {o : CommonOpts} {steps : List Step} :
    apePlan o = .ok steps ↔ ∃ pre, prePlan o = .ok pre ∧ steps = pre ++ [.metricApe o.rel] ++ unitPart o := by
  unfold apePlan
  cases h : prePlan o with
  | error e => simp
  | ok pre => simp [eq_comm]

theorem rpePlan_ok_iff {o : RpeOpts} {steps : List Step} :
    rpePlan o = .ok steps ↔ ∃ pre, prePlan o.common = .ok pre ∧
      steps = pre ++ [.metricRpe o.common.rel o.delta o.deltaUnit o.deltaTol o.allPairs o.pairsFromReference]
              ++ unitPart o.common ++ [.reduceToFirstAndPairEnds] := by
  unfold rpePlan
  cases h : prePlan o.common with
  | error e => simp
  | ok pre => simp [eq_comm]

/-- in a rank-sorted list a later element has the larger rank -/
theorem rank_lt_of_split {steps l₁ l₂ : List Step} {a b : Step}
    (hs : (steps.map Step.rank).Pairwise (· < ·)) (e : steps = l₁ ++ a :: l₂) (hb : b ∈ l₂) : a.rank < b.rank := by
  subst e
  rw [List.map_append, List.map_cons, List.pairwise_append] at hs
  have := (List.pairwise_cons.mp hs.2.1).1
  exact this _ (List.mem_map_of_mem hb)

/-! ### plans: membership of the parameterised steps -/

/-- steps after the pre-metric part (metric, unit change, reduction) have rank ≥ 7 -/
theorem mem_of_rank_lt {pre rest : List Step} {s : Step} (hrest : ∀ t ∈ rest, 7 ≤ t.rank) (hs : s.rank < 7) :
    s ∈ pre ++ rest ↔ s ∈ pre := by
  rw [List.mem_append]
  constructor
  · rintro (h | h)
    · exact h
    · have := hrest s h; omega
  · exact Or.inl

theorem apeTail_rank (o : CommonOpts) : ∀ t ∈ [Step.metricApe o.rel] ++ unitPart o, 7 ≤ t.rank := by
  intro t ht
  rw [List.mem_append, List.mem_singleton] at ht
  rcases ht with rfl | ht
  · exact Nat.le_refl 7
  · rw [rank_unitPart ht]; decide

theorem rpeTail_rank (o : RpeOpts) : ∀ t ∈ [Step.metricRpe o.common.rel o.delta o.deltaUnit o.deltaTol o.allPairs
    o.pairsFromReference] ++ (unitPart o.common ++ [Step.reduceToFirstAndPairEnds]), 7 ≤ t.rank := by
  intro t ht
  simp only [List.mem_append, List.mem_singleton] at ht
  rcases ht with rfl | ht | rfl
  · exact Nat.le_refl 7
  · rw [rank_unitPart ht]; decide
  · decide

theorem mem_pre_align_iff {o : CommonOpts} {pre : List Step} (hp : prePlan o = .ok pre) {k : AlignKind} {n : Int} :
    Step.align k n ∈ pre ↔ alignKind o.align o.correctScale = some k ∧ n = o.nToAlign := by
  obtain ⟨_, rfl⟩ := prePlan_ok_iff.mp hp
  simp only [List.mem_append]
  constructor
  · rintro (((((h | h) | h) | h) | h) | h)
    · have := rank_downsamplePart h; simp [Step.rank] at this
    · have := rank_motionPart h; simp [Step.rank] at this
    · have := rank_syncPart h; simp [Step.rank] at this
    · unfold alignPart at h
      split at h
      next k' hk =>
        simp only [List.mem_singleton, Step.align.injEq] at h
        obtain ⟨rfl, rfl⟩ := h
        exact ⟨hk, rfl⟩
      next => simp at h
    · have := rank_originPart h; simp [Step.rank] at this
    · have := rank_projectPart h; simp [Step.rank] at this
  · rintro ⟨hk, rfl⟩
    left; left; right
    unfold alignPart
    rw [hk]
    simp

theorem mem_syncPart_crop {o : CommonOpts} {s e : Option Rat} :
    Step.cropRef s e ∈ syncPart o ↔
      o.hasStamps = true ∧ (o.tStart.isSome = true ∨ o.tEnd.isSome = true) ∧ s = o.tStart ∧ e = o.tEnd := by
  unfold syncPart optStep
  by_cases hs : o.hasStamps = true
  · rw [if_pos hs]
    by_cases hc : (o.tStart.isSome || o.tEnd.isSome) = true
    · rw [if_pos hc]
      simp only [Bool.or_eq_true] at hc
      simp [hs, hc]
    · rw [if_neg hc]
      simp only [Bool.or_eq_true] at hc
      simp [hc]
  · rw [if_neg hs]
    simp [hs]

theorem mem_syncPart_associate {o : CommonOpts} {m f : Rat} :
    Step.associate m f ∈ syncPart o ↔ o.hasStamps = true ∧ m = o.tMaxDiff ∧ f = o.tOffset := by
  unfold syncPart optStep
  by_cases hs : o.hasStamps = true
  · rw [if_pos hs]
    by_cases hc : (o.tStart.isSome || o.tEnd.isSome) = true
    · rw [if_pos hc]; simp [hs]
    · rw [if_neg hc]; simp [hs]
  · rw [if_neg hs]
    simp [hs]

theorem mem_pre_sync_iff {o : CommonOpts} {pre : List Step} (hp : prePlan o = .ok pre) {s : Step}
    (h2 : s.rank = 2 ∨ s.rank = 3) : s ∈ pre ↔ s ∈ syncPart o := by
  obtain ⟨_, rfl⟩ := prePlan_ok_iff.mp hp
  simp only [List.mem_append]
  constructor
  · rintro (((((h | h) | h) | h) | h) | h)
    · have := rank_downsamplePart h; omega
    · have := rank_motionPart h; omega
    · exact h
    · have := rank_alignPart h; omega
    · have := rank_originPart h; omega
    · have := rank_projectPart h; omega
  · intro h; left; left; left; right; exact h

theorem mem_pre_crop_iff {o : CommonOpts} {pre : List Step} (hp : prePlan o = .ok pre) {s e : Option Rat} :
    Step.cropRef s e ∈ pre ↔
      o.hasStamps = true ∧ (o.tStart.isSome = true ∨ o.tEnd.isSome = true) ∧ s = o.tStart ∧ e = o.tEnd := by
  rw [mem_pre_sync_iff hp (Or.inl rfl), mem_syncPart_crop]

theorem mem_pre_associate_iff {o : CommonOpts} {pre : List Step} (hp : prePlan o = .ok pre) {m f : Rat} :
    Step.associate m f ∈ pre ↔ o.hasStamps = true ∧ m = o.tMaxDiff ∧ f = o.tOffset := by
  rw [mem_pre_sync_iff hp (Or.inr rfl), mem_syncPart_associate]

end Evo
