/-
The real number reported for an error core (`Core.value`): the single final `sqrt` / `atan2`
that the executable model leaves to its reader, with range facts, and the cast lemma
ℚ-core ↦ ℝ-core.  `atan2(y, x)` is `Complex.arg (x + i y)`.
-/
import EvoModel.Lemmas.Metrics
import Mathlib.Analysis.SpecialFunctions.Complex.Arg
import Mathlib.Analysis.Real.Sqrt
import Mathlib.Data.Rat.Cast.CharZero
namespace Evo

/-- the reported value of a core over ℝ -/
noncomputable def Core.value : Core ℝ → ℝ
  | .sqrt r => Real.sqrt r
  | .angle c s2 deg =>
      if deg then Complex.arg ⟨c, Real.sqrt s2⟩ * (180 / Real.pi) else Complex.arg ⟨c, Real.sqrt s2⟩
  | .sqrtDiff a b => |Real.sqrt a - Real.sqrt b|
  | .sqrtRatio a b => |Real.sqrt a - Real.sqrt b| / Real.sqrt a * 100

theorem arg_core_nonneg (c s2 : ℝ) : 0 ≤ Complex.arg ⟨c, Real.sqrt s2⟩ := by
  rw [Complex.arg_nonneg_iff]; exact Real.sqrt_nonneg _

theorem Core.value_nonneg (c : Core ℝ) : 0 ≤ c.value := by
  cases c with
  | sqrt r => exact Real.sqrt_nonneg _
  | angle c s2 deg =>
    cases deg
    · simp only [Core.value, Bool.false_eq_true, if_false]; exact arg_core_nonneg c s2
    · simp only [Core.value, if_true]
      exact mul_nonneg (arg_core_nonneg c s2) (div_nonneg (by norm_num) Real.pi_pos.le)
  | sqrtDiff a b => exact abs_nonneg _
  | sqrtRatio a b =>
    exact mul_nonneg (div_nonneg (abs_nonneg _) (Real.sqrt_nonneg _)) (by norm_num)

theorem Core.value_angle_rad_le (c s2 : ℝ) : (Core.angle c s2 false).value ≤ Real.pi := by
  simp only [Core.value, Bool.false_eq_true, if_false]
  exact Complex.arg_le_pi _

theorem Core.value_angle_deg_le (c s2 : ℝ) : (Core.angle c s2 true).value ≤ 180 := by
  simp only [Core.value, if_true]
  have h := Complex.arg_le_pi (⟨c, Real.sqrt s2⟩ : ℂ)
  have hp := Real.pi_pos
  calc Complex.arg ⟨c, Real.sqrt s2⟩ * (180 / Real.pi) ≤ Real.pi * (180 / Real.pi) :=
        mul_le_mul_of_nonneg_right h (div_nonneg (by norm_num) hp.le)
    _ = 180 := by field_simp

theorem Core.value_of_isZero {c : Core ℝ} (h : c.IsZero) : c.value = 0 := by
  cases c with
  | sqrt r => simp only [Core.IsZero] at h; simp [Core.value, h]
  | angle c s2 deg =>
    obtain ⟨rfl, rfl⟩ := h
    have : (⟨1, 0⟩ : ℂ) = 1 := by
      apply Complex.ext <;> simp
    cases deg <;> simp [Core.value, this]
  | sqrtDiff a b => simp only [Core.IsZero] at h; simp [Core.value, h]
  | sqrtRatio a b => simp only [Core.IsZero] at h; simp [Core.value, h]

/-- for a proper rotation the reported angle `θ = atan2(√s², c)` lies in `[0, π]` and satisfies
`cos θ = (tr R − 1)/2`, `sin θ = ‖vee((R − Rᵀ)/2)‖`: it is the geodesic rotation angle -/
theorem angle_geodesic (R : M3 ℝ) (h : IsRot R) :
    let θ := (Core.angle R.angleCore.1 R.angleCore.2 false).value
    0 ≤ θ ∧ θ ≤ Real.pi ∧ Real.cos θ = (R.trace - 1) / 2 ∧ Real.sin θ = Real.sqrt (R.axisVec.normSq) := by
  intro θ
  have hθ : θ = Complex.arg ⟨R.angleCore.1, Real.sqrt R.angleCore.2⟩ := by
    simp only [θ, Core.value, Bool.false_eq_true, if_false]
  have hc := h.angleCore_eq
  have hs2 : 0 ≤ R.angleCore.2 := by rw [M3.angleCore_snd]; exact V3.normSq_nonneg _
  set z : ℂ := ⟨R.angleCore.1, Real.sqrt R.angleCore.2⟩ with hz
  have hn : ‖z‖ = 1 := by
    rw [Complex.norm_def, Complex.normSq_apply]
    simp only [hz]
    rw [Real.mul_self_sqrt hs2, ← pow_two, hc, Real.sqrt_one]
  have hz0 : z ≠ 0 := by
    intro e; rw [e, norm_zero] at hn; exact zero_ne_one hn
  refine ⟨hθ ▸ arg_core_nonneg _ _, hθ ▸ Complex.arg_le_pi _, ?_, ?_⟩
  · rw [hθ, Complex.cos_arg hz0, hn, div_one]
    simp only [hz, M3.angleCore_fst]
    norm_num
  · rw [hθ, Complex.sin_arg, hn, div_one]
    simp only [hz, M3.angleCore_snd]

/-! ### casting ℚ → ℝ -/

def Core.map {K L : Type} (f : K → L) : Core K → Core L
  | .sqrt r => .sqrt (f r)
  | .angle c s d => .angle (f c) (f s) d
  | .sqrtDiff a b => .sqrtDiff (f a) (f b)
  | .sqrtRatio a b => .sqrtRatio (f a) (f b)

def V3.map {K L : Type} (f : K → L) (v : V3 K) : V3 L := ⟨f v.x, f v.y, f v.z⟩
def M3.map {K L : Type} (f : K → L) (m : M3 K) : M3 L :=
  ⟨f m.a00, f m.a01, f m.a02, f m.a10, f m.a11, f m.a12, f m.a20, f m.a21, f m.a22⟩
def Pose.map {K L : Type} (f : K → L) (p : Pose K) : Pose L := ⟨M3.map f p.rot, V3.map f p.t⟩

theorem apeCore_map_cast (rel : PoseRelation) (ref est : Pose Rat) :
    (apeCore rel ref est).map (fun q : Rat => (q : ℝ))
      = apeCore rel (ref.map (fun q : Rat => (q : ℝ))) (est.map (fun q : Rat => (q : ℝ))) := by
  cases rel <;>
    simp only [apeCore, apeBase, reduceE, Core.map, Pose.map, M3.map, V3.map, Pose.rel, Pose.mul, Pose.inv,
      M3.mul, M3.transpose, M3.mulVec, M3.sub, M3.one, M3.frobSq, M3.trace, M3.angleCore, V3.add, V3.sub, V3.neg,
      V3.normSq, V3.dot] <;>
    push_cast <;> rfl

theorem rpeCore_map_cast (rel : PoseRelation) (Qi Qj Pi Pj : Pose Rat) :
    (rpeCore rel Qi Qj Pi Pj).map (fun q : Rat => (q : ℝ))
      = rpeCore rel (Qi.map (fun q : Rat => (q : ℝ))) (Qj.map (fun q : Rat => (q : ℝ)))
          (Pi.map (fun q : Rat => (q : ℝ))) (Pj.map (fun q : Rat => (q : ℝ))) := by
  cases rel <;>
    simp only [rpeCore, rpeBase, refDistSq, reduceE, Core.map, Pose.map, M3.map, V3.map, Pose.rel, Pose.mul, Pose.inv,
      M3.mul, M3.transpose, M3.mulVec, M3.sub, M3.one, M3.frobSq, M3.trace, M3.angleCore, V3.add, V3.sub, V3.neg,
      V3.normSq, V3.dot] <;>
    push_cast <;> rfl

end Evo
