import EvoModel.Model.Pairs
import EvoModel.Lemmas.Argmin
namespace Evo.Pairs

end Evo.Pairs
