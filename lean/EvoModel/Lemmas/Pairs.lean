import EvoModel.Model.Pairs
import EvoModel.Lemmas.Argmin
namespace Evo.Pairs

/-! ### `zip ids ids.tail` -/

theorem chainPairs_length (ids : List Nat) : (chainPairs ids).length = ids.length - 1 := by
  simp [chainPairs, List.length_zip]

theorem chainPairs_getElem (ids : List Nat) (k : Nat) (h : k < (chainPairs ids).length) :
    (chainPairs ids)[k] = (ids[k]'(by rw [chainPairs_length] at h; omega),
                           ids[k+1]'(by rw [chainPairs_length] at h; omega)) := by
  simp [chainPairs, List.getElem_zip]

theorem mem_chainPairs {ids : List Nat} {p : Nat × Nat} :
    p ∈ chainPairs ids ↔ ∃ k, ∃ h : k + 1 < ids.length, p = (ids[k], ids[k+1]) := by
  constructor
  · intro hp
    obtain ⟨k, hk, rfl⟩ := List.getElem_of_mem hp
    have hk' := hk; rw [chainPairs_length] at hk'
    exact ⟨k, by omega, chainPairs_getElem ids k hk⟩
  · rintro ⟨k, hk, rfl⟩
    have hk' : k < (chainPairs ids).length := by rw [chainPairs_length]; omega
    rw [← chainPairs_getElem ids k hk']
    exact List.getElem_mem hk'

theorem chainPairs_cons_cons (a b : Nat) (l : List Nat) :
    chainPairs (a :: b :: l) = (a, b) :: chainPairs (b :: l) := by
  simp [chainPairs]

theorem isChain_getElem {α} {R : α → α → Prop} {l : List α} (h : l.IsChain R)
    (k : Nat) (hk : k + 1 < l.length) : R l[k] l[k+1] := by
  induction l generalizing k with
  | nil => simp at hk
  | cons a r ih =>
    cases r with
    | nil => simp at hk
    | cons b r' =>
      rw [List.isChain_cons_cons] at h
      cases k with
      | zero => simpa using h.1
      | succ k =>
        have := ih h.2 k (by simp at hk ⊢; omega)
        simpa using this

/-! ### prefix sums, `accumulated_distances` -/

@[simp] theorem psum_zero (l : List Rat) : psum l 0 = 0 := by simp [psum]

theorem psum_cons_succ (x : Rat) (r : List Rat) (k : Nat) : psum (x :: r) (k + 1) = x + psum r k := by
  simp [psum]

theorem psum_succ (l : List Rat) (k : Nat) (h : k < l.length) : psum l (k + 1) = psum l k + l[k] := by
  induction l generalizing k with
  | nil => simp at h
  | cons x r ih =>
    cases k with
    | zero => simp [psum]
    | succ k =>
      have := ih k (by simpa using h)
      rw [psum_cons_succ, psum_cons_succ, this]
      simp only [List.getElem_cons_succ]; ring

theorem span_self (l : List Rat) (i : Nat) : span l i i = 0 := by simp [span]

theorem span_add (l : List Rat) (i j k : Nat) : span l i j + span l j k = span l i k := by
  simp only [span]; ring

theorem span_succ (l : List Rat) (i j : Nat) (h : j < l.length) :
    span l i (j + 1) = span l i j + l[j] := by
  simp only [span, psum_succ l j h]; ring

theorem accGo_length (r : List Rat) (c : Rat) : (accGo r c).length = r.length := by
  induction r generalizing c with
  | nil => rfl
  | cons s r ih => simp [accGo, ih]

theorem accGo_getElem (r : List Rat) (c : Rat) (k : Nat) (h : k < (accGo r c).length) :
    (accGo r c)[k] = c + psum r (k + 1) := by
  induction r generalizing c k with
  | nil => simp [accGo] at h
  | cons s r ih =>
    cases k with
    | zero => simp [accGo, psum]
    | succ k =>
      simp only [accGo, List.getElem_cons_succ]
      rw [ih (c + s) k (by simpa [accGo] using h), psum_cons_succ s r (k + 1)]; ring

theorem accDist_length (steps : List Rat) : (accDist steps).length = steps.length + 1 := by
  simp [accDist, accGo_length]

theorem accDist_getElem (steps : List Rat) (k : Nat) (h : k < (accDist steps).length) :
    (accDist steps)[k] = psum steps k := by
  cases k with
  | zero => simp [accDist]
  | succ k =>
    simp only [accDist, List.getElem_cons_succ]
    rw [accGo_getElem]; ring

/-! ### the greedy loop -/

/-- `b` is the first pose after `a` at which the amount accumulated since `a` reaches `δ` -/
def Reach (S : Nat → Rat) (δ : Rat) (a b : Nat) : Prop :=
  a < b ∧ δ ≤ S b - S a ∧ ∀ m, a < m → m < b → S m - S a < δ

theorem reachGo_spec (l : List Rat) (δ : Rat) (r : List Rat) (p s : Nat) (c : Rat)
    (hr : l.drop p = r) (hsp : s ≤ p) (hc : c = psum l p - psum l s)
    (hlt : ∀ m, s < m → m ≤ p → psum l m - psum l s < δ) :
    (s :: reachGo δ r (p + 1) c).IsChain (Reach (psum l) δ) ∧
    (∀ e ∈ reachGo δ r (p + 1) c, e ≤ l.length) ∧
    (∀ m, (s :: reachGo δ r (p + 1) c).getLast (by simp) < m → m ≤ l.length →
        psum l m - psum l ((s :: reachGo δ r (p + 1) c).getLast (by simp)) < δ) := by
  induction r generalizing p s c with
  | nil =>
    have hp : l.length ≤ p := by simpa using hr
    refine ⟨by simp [reachGo], by simp [reachGo], ?_⟩
    intro m hm hml
    simp only [reachGo, List.getLast_singleton] at hm ⊢
    exact hlt m hm (by omega)
  | cons x r ih =>
    have hp : p < l.length := by
      by_contra hcon
      have : l.drop p = [] := List.drop_eq_nil_of_le (by omega)
      rw [this] at hr; cases hr
    have hx : l[p] = x := by
      have := List.getElem_drop (xs := l) (i := p) (j := 0) (h := by simpa using hp)
      simp only [hr, List.getElem_cons_zero, Nat.add_zero] at this
      exact this.symm
    have hr' : l.drop (p + 1) = r := by
      have : l.drop (p + 1) = (l.drop p).tail := by simp [List.tail_drop]
      rw [this, hr]; rfl
    have hS : psum l (p + 1) = psum l p + x := by rw [psum_succ l p hp, hx]
    simp only [reachGo]
    split
    · next hge =>
      obtain ⟨h1, h2, h3⟩ := ih (p + 1) (p + 1) 0 hr' (le_refl _) (by ring)
        (by intro m h1 h2; omega)
      refine ⟨?_, ?_, ?_⟩
      · rw [List.isChain_cons_cons]
        refine ⟨⟨by omega, ?_, ?_⟩, h1⟩
        · rw [hS]; rw [hc] at hge; linarith
        · intro m hm1 hm2; exact hlt m hm1 (by omega)
      · intro e he
        rcases List.mem_cons.mp he with rfl | he
        · omega
        · exact h2 e he
      · simpa [List.getLast_cons] using h3
    · next hlt' =>
      have hlt'' : c + x < δ := not_le.mp hlt'
      obtain ⟨h1, h2, h3⟩ := ih (p + 1) s (c + x) hr' (by omega) (by rw [hS, hc]; ring)
        (by
          intro m hm1 hm2
          by_cases hmp : m ≤ p
          · exact hlt m hm1 hmp
          · have : m = p + 1 := by omega
            subst this; rw [hS]; rw [hc] at hlt''; linarith)
      exact ⟨h1, h2, h3⟩

theorem isChain_of_cons {α} {R : α → α → Prop} {a : α} {l : List α} (h : (a :: l).IsChain R) :
    l.IsChain R := by
  cases l with
  | nil => exact List.IsChain.nil
  | cons b r => exact (List.isChain_cons_cons.mp h).2

theorem head_reach {S : Nat → Rat} {δ : Rat} {ends : List Nat}
    (hch : (0 :: ends).IsChain (Reach S δ)) (hne : ends ≠ []) : Reach S δ 0 (ends.head hne) := by
  cases ends with
  | nil => exact absurd rfl hne
  | cons e r => exact (List.isChain_cons_cons.mp hch).1

/-- everything about the emitted end poses of the greedy loop started at pose 0 -/
theorem ends_spec (l : List Rat) (δ : Rat) :
    (0 :: reachGo δ l 1 0).IsChain (Reach (psum l) δ) ∧
    (∀ e ∈ reachGo δ l 1 0, e ≤ l.length) ∧
    (∀ m, (0 :: reachGo δ l 1 0).getLast (by simp) < m → m ≤ l.length →
        span l ((0 :: reachGo δ l 1 0).getLast (by simp)) m < δ) := by
  have := reachGo_spec l δ l 0 0 0 (by simp) (le_refl _) (by simp) (by intro m h1 h2; omega)
  simpa [span] using this

theorem pathIds_eq (steps : List Rat) (δ : Rat) :
    pathIds steps δ = if δ ≤ 0 then 0 :: reachGo δ steps 1 0 else reachGo δ steps 1 0 := by
  simp [pathIds, reachGo]

/-- the list of chain poses of either consecutive selector: the emitted end poses, possibly
preceded by pose 0 -/
theorem ids_spec (l : List Rat) (δ : Rat) (ids : List Nat)
    (hids : ids = 0 :: reachGo δ l 1 0 ∨ ids = reachGo δ l 1 0) :
    ids.IsChain (Reach (psum l) δ) ∧ (∀ e ∈ ids, e ≤ l.length) ∧
    (∀ h : ids ≠ [], ∀ m, ids.getLast h < m → m ≤ l.length → span l (ids.getLast h) m < δ) := by
  obtain ⟨h1, h2, h3⟩ := ends_spec l δ
  rcases hids with rfl | rfl
  · refine ⟨h1, ?_, fun _ => h3⟩
    intro e he
    rcases List.mem_cons.mp he with rfl | he
    · omega
    · exact h2 e he
  · refine ⟨isChain_of_cons h1, h2, ?_⟩
    intro h m hm hml
    have : (0 :: reachGo δ l 1 0).getLast (by simp) = (reachGo δ l 1 0).getLast h :=
      List.getLast_cons h
    rw [this] at h3
    exact h3 m hm hml

theorem chainPairs_getLast_snd (ids : List Nat) (h : chainPairs ids ≠ []) :
    ((chainPairs ids).getLast h).2 = ids.getLast (by intro hn; simp [hn, chainPairs] at h) := by
  have hl : 0 < (chainPairs ids).length := List.length_pos_iff.mpr h
  have hl' := hl; rw [chainPairs_length] at hl'
  rw [List.getLast_eq_getElem, chainPairs_getElem, List.getLast_eq_getElem]
  simp only [chainPairs_length]
  congr 1; omega

theorem chainPairs_head_fst (ids : List Nat) (h : chainPairs ids ≠ []) :
    ((chainPairs ids).head h).1 = ids.head (by intro hn; simp [hn, chainPairs] at h) := by
  cases ids with
  | nil => simp [chainPairs] at h
  | cons a r =>
    cases r with
    | nil => simp [chainPairs] at h
    | cons b r' => simp [chainPairs]

theorem consec_reach (l : List Rat) (δ : Rat) (ids : List Nat)
    (hids : ids = 0 :: reachGo δ l 1 0 ∨ ids = reachGo δ l 1 0) (i j : Nat)
    (h : (i, j) ∈ chainPairs ids) :
    i < j ∧ j ≤ l.length ∧ δ ≤ span l i j ∧ ∀ m, i < m → m < j → span l i m < δ := by
  obtain ⟨hch, hb, _⟩ := ids_spec l δ ids hids
  obtain ⟨k, hk, hp⟩ := mem_chainPairs.mp h
  simp only [Prod.mk.injEq] at hp
  obtain ⟨rfl, rfl⟩ := hp
  obtain ⟨h1, h2, h3⟩ := isChain_getElem hch k hk
  exact ⟨h1, hb _ (List.getElem_mem _), h2, h3⟩

/-! ### all-pairs path selector -/

theorem mem_pathAll {acc : List Rat} {δ tol : Rat} {i j : Nat} :
    (i, j) ∈ pairsByPathAll acc δ tol ↔
      i + 1 < acc.length ∧ ∃ d, (acc.drop (i + 1))[pathCand acc δ i]? = some d ∧
        ¬ tol < absR (d - acc[i]?.getD 0 - δ) ∧ j = pathCand acc δ i + (i + 1) := by
  simp only [pairsByPathAll, List.mem_filterMap, List.mem_range]
  constructor
  · rintro ⟨a, ha, h⟩
    split at h
    · next d hd =>
      split at h
      · exact absurd h (by simp)
      · next hnt =>
        simp only [Option.some.injEq, Prod.mk.injEq] at h
        obtain ⟨rfl, rfl⟩ := h
        exact ⟨by omega, d, hd, hnt, rfl⟩
    · exact absurd h (by simp)
  · rintro ⟨hi, d, hd, hnt, rfl⟩
    refine ⟨i, by omega, ?_⟩
    simp only [hd]
    rw [if_neg hnt]

theorem pathCand_spec (acc : List Rat) (δ : Rat) (i : Nat) (hi : i + 1 < acc.length) :
    ∃ hc : pathCand acc δ i + (i + 1) < acc.length,
      (∀ k (hk : k < acc.length), i < k →
        absR (acc[pathCand acc δ i + (i + 1)] - acc[i] - δ) ≤ absR (acc[k] - acc[i] - δ)) ∧
      (∀ k (hk : k < acc.length), i < k → k < pathCand acc δ i + (i + 1) →
        absR (acc[pathCand acc δ i + (i + 1)] - acc[i] - δ) < absR (acc[k] - acc[i] - δ)) := by
  have hne : acc.drop (i + 1) ≠ [] := by
    intro h; have := List.drop_eq_nil_iff.mp h; omega
  have hai : acc[i]?.getD 0 = acc[i] := by simp [List.getElem?_eq_getElem (show i < acc.length by omega)]
  have hpc : pathCand acc δ i = argminFirst (fun d => absR (d - acc[i] - δ)) (acc.drop (i + 1)) := by
    simp only [pathCand, hai]
  obtain ⟨hc, hmin, hfirst⟩ :=
    argminFirst_spec (fun d => absR (d - acc[i] - δ)) (acc.drop (i + 1)) hne
  simp only [← hpc] at hc hmin hfirst
  have hlen : (acc.drop (i + 1)).length = acc.length - (i + 1) := List.length_drop
  have hc' : pathCand acc δ i + (i + 1) < acc.length := by rw [hlen] at hc; omega
  have hget : ∀ c (h : c < (acc.drop (i + 1)).length),
      (acc.drop (i + 1))[c] = acc[c + (i + 1)]'(by rw [hlen] at h; omega) := by
    intro c h; rw [List.getElem_drop]; congr 1; omega
  refine ⟨hc', ?_, ?_⟩
  · intro k hk hik
    have hk' : k - (i + 1) < (acc.drop (i + 1)).length := by rw [hlen]; omega
    have := hmin (k - (i + 1)) hk'
    simp only [hget] at this
    have e : k - (i + 1) + (i + 1) = k := by omega
    simp only [e] at this
    exact this
  · intro k hk hik hkc
    have hk' : k - (i + 1) < pathCand acc δ i := by omega
    have := hfirst (k - (i + 1)) hk'
    simp only [hget] at this
    have e : k - (i + 1) + (i + 1) = k := by omega
    simp only [e] at this
    exact this

theorem pathAll_spec {acc : List Rat} {δ tol : Rat} {i j : Nat}
    (h : (i, j) ∈ pairsByPathAll acc δ tol) :
    ∃ (hi : i < acc.length) (hj : j < acc.length), i < j ∧ j = pathCand acc δ i + (i + 1) ∧
      absR (acc[j] - acc[i] - δ) ≤ tol := by
  obtain ⟨hi, d, hd, hnt, rfl⟩ := mem_pathAll.mp h
  obtain ⟨hc, _, _⟩ := pathCand_spec acc δ i hi
  refine ⟨by omega, hc, by omega, rfl, ?_⟩
  have hai : acc[i]?.getD 0 = acc[i] := by simp [List.getElem?_eq_getElem (show i < acc.length by omega)]
  have hlen : (acc.drop (i + 1)).length = acc.length - (i + 1) := List.length_drop
  have hcl : pathCand acc δ i < (acc.drop (i + 1)).length := by rw [hlen]; omega
  rw [List.getElem?_eq_getElem hcl] at hd
  have hd' : d = acc[pathCand acc δ i + (i + 1)] := by
    have := Option.some.inj hd
    rw [← this, List.getElem_drop]; congr 1; omega
  rw [hai, hd'] at hnt
  exact not_lt.mp hnt

theorem pathAll_complete {acc : List Rat} {δ tol : Rat} {i k : Nat} (hk : k < acc.length)
    (hik : i < k) (hle : absR (acc[k] - acc[i] - δ) ≤ tol) :
    (i, pathCand acc δ i + (i + 1)) ∈ pairsByPathAll acc δ tol := by
  have hi : i + 1 < acc.length := by omega
  obtain ⟨hc, hmin, _⟩ := pathCand_spec acc δ i hi
  have hai : acc[i]?.getD 0 = acc[i] := by simp [List.getElem?_eq_getElem (show i < acc.length by omega)]
  have hlen : (acc.drop (i + 1)).length = acc.length - (i + 1) := List.length_drop
  have hcl : pathCand acc δ i < (acc.drop (i + 1)).length := by rw [hlen]; omega
  refine mem_pathAll.mpr ⟨hi, (acc.drop (i + 1))[pathCand acc δ i], List.getElem?_eq_getElem hcl, ?_, rfl⟩
  have hd' : (acc.drop (i + 1))[pathCand acc δ i] = acc[pathCand acc δ i + (i + 1)] := by
    rw [List.getElem_drop]; congr 1; omega
  rw [hai, hd']
  exact not_lt.mpr (le_trans (hmin k hk hik) hle)

theorem filterMap_range_fst_lt (n : Nat) (f : Nat → Option (Nat × Nat))
    (hf : ∀ a p, f a = some p → p.1 = a) :
    (((List.range n).filterMap f).map Prod.fst).Pairwise (· < ·) := by
  rw [List.pairwise_map, List.pairwise_filterMap]
  refine List.Pairwise.imp ?_ (List.pairwise_lt_range)
  intro a b hab p hp q hq
  rw [hf a p hp, hf b q hq]; exact hab

theorem pathAll_fst_lt (acc : List Rat) (δ tol : Rat) :
    ((pairsByPathAll acc δ tol).map Prod.fst).Pairwise (· < ·) := by
  unfold pairsByPathAll
  apply filterMap_range_fst_lt
  intro a p hp
  dsimp only at hp
  split at hp
  · split at hp
    · exact absurd hp (by simp)
    · simp only [Option.some.injEq] at hp
      subst hp; rfl
  · exact absurd hp (by simp)

/-! ### all-pairs angle selector -/

theorem mem_angleAll {ang : Nat → Nat → Rat} {n : Nat} {δ tol : Rat} {i j : Nat} :
    (i, j) ∈ pairsByAngleAll ang n δ tol ↔
      i < j ∧ j < n ∧ δ - tol ≤ ang i j ∧ ang i j ≤ δ + tol := by
  simp only [pairsByAngleAll, List.mem_flatMap, List.mem_range, List.mem_map, List.mem_filter,
    Bool.and_eq_true, decide_eq_true_eq, Prod.mk.injEq]
  constructor
  · rintro ⟨a, ha, k, ⟨hk, h1, h2⟩, rfl, rfl⟩
    exact ⟨by omega, by omega, h1, h2⟩
  · rintro ⟨hij, hjn, h1, h2⟩
    refine ⟨i, by omega, j - (i + 1), ⟨by omega, ?_, ?_⟩, rfl, by omega⟩
    · have e : j - (i + 1) + (i + 1) = j := by omega
      rw [e]; exact h1
    · have e : j - (i + 1) + (i + 1) = j := by omega
      rw [e]; exact h2

end Evo.Pairs
