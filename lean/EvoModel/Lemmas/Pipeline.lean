/-
Lemmas about `Model/Pipeline.lean`: error propagation through the `Except` chain, the selection
steps only pick input poses (composition of C11 / C05 facts), the geometry steps act pose by pose.
-/
import EvoModel.Model.Pipeline
import EvoModel.Lemmas.Metrics
import EvoModel.Props.C05
namespace Evo.Pipeline
open Evo

/-! ### `Except.bind` -/

theorem bind_ok_iff {ε α β : Type} (x : Except ε α) (f : α → Except ε β) (b : β) :
    x.bind f = .ok b ↔ ∃ a, x = .ok a ∧ f a = .ok b := by
  cases x <;> simp [Except.bind]

theorem bind_error_iff {ε α β : Type} (x : Except ε α) (f : α → Except ε β) (e : ε) :
    x.bind f = .error e ↔ x = .error e ∨ ∃ a, x = .ok a ∧ f a = .error e := by
  cases x <;> simp [Except.bind]

theorem liftSel_ok {α : Type} {x : Except Select.Err α} {a : α} : liftSel x = .ok a ↔ x = .ok a := by
  cases x with
  | ok b => simp [liftSel]
  | error e => cases e <;> simp [liftSel]

theorem liftMetric_ok {α : Type} {x : Except MetricErr α} {a : α} : liftMetric x = .ok a ↔ x = .ok a := by
  cases x with
  | ok b => simp [liftMetric]
  | error e => cases e <;> simp [liftMetric]

/-! ### the tagged input -/

/-- a member of the tagged trajectory is an input pose with its stamp and its index -/
theorem mem_tagTraj {t : Traj} {x : TPose} (h : x ∈ tagTraj t) :
    t.stamps[x.2.2]? = some x.1 ∧ t.poses[x.2.2]? = some x.2.1 := by
  unfold tagTraj at h
  obtain ⟨i, hi, hx⟩ := List.mem_iff_getElem.mp h
  rw [List.getElem_zip] at hx
  rw [List.length_zip, List.length_zipIdx] at hi
  have h1 : i < t.stamps.length := by omega
  have h2 : i < t.poses.length := by omega
  rw [List.getElem_zipIdx] at hx
  subst hx
  simp only [Nat.zero_add]
  exact ⟨List.getElem?_eq_getElem h1, List.getElem?_eq_getElem h2⟩

/-! ### every selection step picks members of its input -/

theorem downsampleStep_mem {n : Int} {l l' : List TPose} (h : downsampleStep n l = .ok l') :
    ∀ x ∈ l', x ∈ l := by
  unfold downsampleStep at h
  split at h
  · split at h
    · injection h with h; subst h; exact fun x hx => hx
    · cases h
  · have h' := liftSel_ok.mp h
    unfold Select.downsample Select.downsampleWith at h'
    split at h'
    · cases h'
    · injection h' with h'; subst h'; exact fun x hx => hx
    · injection h' with h'; subst h'; exact fun x hx => C05.mem_reduceIds _ _ x hx

theorem motionStep_mem {pi d a : Rat} {mp : MotionPar} {l l' : List TPose}
    (h : motionStep pi d a mp l = .ok l') : ∀ x ∈ l', x ∈ l := by
  unfold motionStep at h
  split at h
  · cases h
  · split at h
    · cases h
    · injection h with h; subst h; exact fun x hx => C05.mem_reduceIds _ _ x hx

theorem stageCrop_mem {o : CommonOpts} {l l' : List TPose} (h : stageCrop o l = .ok l') :
    ∀ x ∈ l', x ∈ l := by
  unfold stageCrop at h
  split at h
  · have h' := liftSel_ok.mp h
    unfold Select.crop at h'
    split at h'
    · cases h'
    · injection h' with h'; subst h'; exact fun x hx => C05.mem_reduceIds _ _ x hx
  · injection h with h; subst h; exact fun x hx => hx

theorem stageDown_mem {o : CommonOpts} {r e : List TPose} {p : List TPose × List TPose}
    (h : stageDown o r e = .ok p) : (∀ x ∈ p.1, x ∈ r) ∧ (∀ x ∈ p.2, x ∈ e) := by
  unfold stageDown at h
  split at h
  · split at h
    · injection h with h; subst h; exact ⟨fun x hx => hx, fun x hx => hx⟩
    · obtain ⟨r', hr, h⟩ := (bind_ok_iff _ _ _).mp h
      obtain ⟨e', he, h⟩ := (bind_ok_iff _ _ _).mp h
      injection h with h; subst h
      exact ⟨downsampleStep_mem hr, downsampleStep_mem he⟩
  · injection h with h; subst h; exact ⟨fun x hx => hx, fun x hx => hx⟩

theorem stageMotion_mem {o : CommonOpts} {P : Params} {r e : List TPose} {p : List TPose × List TPose}
    (h : stageMotion o P r e = .ok p) : (∀ x ∈ p.1, x ∈ r) ∧ (∀ x ∈ p.2, x ∈ e) := by
  unfold stageMotion at h
  split at h
  · split at h
    · cases h
    · obtain ⟨r', hr, h⟩ := (bind_ok_iff _ _ _).mp h
      obtain ⟨e', he, h⟩ := (bind_ok_iff _ _ _).mp h
      injection h with h; subst h
      exact ⟨motionStep_mem hr, motionStep_mem he⟩
  · injection h with h; subst h; exact ⟨fun x hx => hx, fun x hx => hx⟩

theorem stageSync_mem {o : CommonOpts} {r e : List TPose} {p : List TPose × List TPose}
    (h : stageSync o r e = .ok p) : (∀ x ∈ p.1, x ∈ r) ∧ (∀ x ∈ p.2, x ∈ e) := by
  unfold stageSync at h
  split at h
  · obtain ⟨r', hr, h⟩ := (bind_ok_iff _ _ _).mp h
    split at h
    · cases h
    · next q hq =>
      injection h with h; subst h
      obtain ⟨_, h1, h2⟩ := C05.associate_poses_are_input_poses r' e o.tMaxDiff o.tOffset q.1 q.2 hq
      exact ⟨fun x hx => stageCrop_mem hr x (h1 x hx), h2⟩
  · injection h with h; subst h; exact ⟨fun x hx => hx, fun x hx => hx⟩

/-- **the selection phase returns input poses only**, each with its stamp and input index -/
theorem selectPairs_mem {o : CommonOpts} {P : Params} {ref est : Traj} {p : List TPose × List TPose}
    (h : selectPairs o P ref est = .ok p) :
    (∀ x ∈ p.1, x ∈ tagTraj ref) ∧ (∀ x ∈ p.2, x ∈ tagTraj est) := by
  unfold selectPairs at h
  obtain ⟨p1, h1, h⟩ := (bind_ok_iff _ _ _).mp h
  obtain ⟨p2, h2, h3⟩ := (bind_ok_iff _ _ _).mp h
  have m1 := stageDown_mem h1
  have m2 := stageMotion_mem h2
  have m3 := stageSync_mem h3
  exact ⟨fun x hx => m1.1 x (m2.1 x (m3.1 x hx)), fun x hx => m1.2 x (m2.2 x (m3.2 x hx))⟩

/-! ### the time range touches the reference only; the association pairs within `max_diff` -/

/-- with timestamps, the result of the selection is an association (C05) of the cropped reference
with the untouched (filtered) estimate -/
theorem selectPairs_sync {o : CommonOpts} {P : Params} {ref est : Traj} {p : List TPose × List TPose}
    (h : selectPairs o P ref est = .ok p) (hs : o.hasStamps = true) :
    ∃ r2 e2 r3, (∀ x ∈ r2, x ∈ tagTraj ref) ∧ (∀ x ∈ e2, x ∈ tagTraj est) ∧ stageCrop o r2 = .ok r3 ∧
      Sync.associate r3 e2 o.tMaxDiff o.tOffset = .ok p := by
  unfold selectPairs at h
  obtain ⟨p1, h1, h⟩ := (bind_ok_iff _ _ _).mp h
  obtain ⟨p2, h2, h3⟩ := (bind_ok_iff _ _ _).mp h
  have m1 := stageDown_mem h1
  have m2 := stageMotion_mem h2
  unfold stageSync at h3
  rw [if_pos hs] at h3
  obtain ⟨r3, hr, h3⟩ := (bind_ok_iff _ _ _).mp h3
  refine ⟨p2.1, p2.2, r3, fun x hx => m1.1 x (m2.1 x hx), fun x hx => m1.2 x (m2.2 x hx), hr, ?_⟩
  split at h3
  · cases h3
  · next q hq => injection h3 with h3; subst h3; exact hq

/-! ### geometry, pose by pose -/

/-- what `align()` does to one pose of the estimate for the returned `(R, t, s)` -/
def alignPose (o : CommonOpts) (P : Params) (p : Pose Rat) : Pose Rat :=
  match alignKind o.align o.correctScale with
  | none => p
  | some .se3 => Pose.mul (Align.se3 P.umeR P.umeT) p
  | some .sim3 => Pose.mul (Align.se3 P.umeR P.umeT) ⟨p.rot, V3.smul P.umeS p.t⟩
  | some .scaleOnly => ⟨p.rot, V3.smul P.umeS p.t⟩

/-- the origin transformation `ref₀ · se3_inverse(est₀)` (identity without `--align_origin`) -/
def originT (o : CommonOpts) (ref est1 : List (Pose Rat)) : Pose Rat :=
  if o.alignOrigin then
    match ref, est1 with
    | r0 :: _, e0 :: _ => Pose.mul r0 (Pose.inv e0)
    | _, _ => Pose.one
  else Pose.one

/-- projection of a pose list with the given directions (nothing without `--project_to_plane`) -/
def projAll (pl : Option Evo.Plane) (dirs : List (Rat × Rat)) (ps : List (Pose Rat)) : List (Pose Rat) :=
  match pl with
  | none => ps
  | some p => Project.projectPoses (planeOf p) ps dirs

theorem alignStep_ok {o : CommonOpts} {P : Params} {ref est e1 : List (Pose Rat)}
    (h : alignStep o P ref est = .ok e1) : e1 = est.map (alignPose o P) := by
  unfold alignStep at h
  have hfun : ∀ k, alignKind o.align o.correctScale = k → alignPose o P = fun p =>
      match k with
      | none => p
      | some .se3 => Pose.mul (Align.se3 P.umeR P.umeT) p
      | some .sim3 => Pose.mul (Align.se3 P.umeR P.umeT) ⟨p.rot, V3.smul P.umeS p.t⟩
      | some .scaleOnly => ⟨p.rot, V3.smul P.umeS p.t⟩ := by
    intro k hk; funext p; unfold alignPose; rw [hk]
  split at h
  · next hk =>
    injection h with h; subst h
    rw [hfun none hk]; simp
  · next k hk =>
    split at h
    · cases h
    · split at h
      · cases h
      · split at h
        · cases h
        · injection h with h; subst h
          rw [hfun (some k) hk]
          cases k <;> simp [alignMode, Align.alignApply, Align.transformLeft, Align.scalePath, List.map_map, Function.comp_def]

theorem originStep_ok {o : CommonOpts} {ref e1 e2 : List (Pose Rat)}
    (h : originStep o ref e1 = .ok e2) : e2 = e1.map (Pose.mul (originT o ref e1)) := by
  unfold originStep at h
  unfold originT
  split at h
  · next ho =>
    rw [if_pos ho]
    unfold Align.alignOrigin at h
    split at h
    · cases h
    · next T est' hT =>
      injection h with h; subst h
      split at hT
      · injection hT with hT
        injection hT with h1 h2
        subst h1; subst h2
        rfl
      · cases hT
  · next ho =>
    rw [if_neg ho]
    injection h with h; subst h
    have : (Pose.mul (Pose.one : Pose Rat)) = id := by
      funext p; exact Pose.one_mul' p
    rw [this, List.map_id]

theorem projectPoses_length (pl : Project.Plane) :
    ∀ (ps : List (Pose Rat)) (dirs : List (Rat × Rat)), dirs.length = ps.length →
      (Project.projectPoses pl ps dirs).length = ps.length
  | [], [], _ => rfl
  | p :: ps, d :: ds, h => by
      simp only [Project.projectPoses, List.length_cons]
      rw [projectPoses_length pl ps ds (by simpa using h)]
  | [], _ :: _, h => by simp at h
  | _ :: _, [], h => by simp at h

theorem projectStep_ok {pl : Option Evo.Plane} {dirs : List (Rat × Rat)} {ps ps' : List (Pose Rat)}
    (h : projectStep pl dirs ps = .ok ps') : ps' = projAll pl dirs ps ∧ ps'.length = ps.length := by
  unfold projectStep at h
  unfold projAll
  split at h
  · injection h with h; subst h; exact ⟨rfl, rfl⟩
  · split at h
    · cases h
    · next hl =>
      injection h with h; subst h
      exact ⟨rfl, projectPoses_length _ _ _ (not_not.mp hl)⟩

/-- **the processed trajectories**: the reference is only projected; estimate pose `k` is the
projection of `T · alignPose(est_k)` — every step acts pose by pose, lengths are preserved -/
theorem geometry_ok {o : CommonOpts} {P : Params} {ref est : List (Pose Rat)} {g : List (Pose Rat) × List (Pose Rat)}
    (h : geometry o P ref est = .ok g) :
    g.1 = projAll o.plane P.dirsRef ref ∧
    g.2 = projAll o.plane P.dirsEst
            ((est.map (alignPose o P)).map (Pose.mul (originT o ref (est.map (alignPose o P))))) ∧
    g.1.length = ref.length ∧ g.2.length = est.length := by
  unfold geometry at h
  obtain ⟨e1, h1, h⟩ := (bind_ok_iff _ _ _).mp h
  obtain ⟨e2, h2, h⟩ := (bind_ok_iff _ _ _).mp h
  obtain ⟨r3, h3, h⟩ := (bind_ok_iff _ _ _).mp h
  obtain ⟨e3, h4, h⟩ := (bind_ok_iff _ _ _).mp h
  injection h with h; subst h
  have a1 := alignStep_ok h1
  have a2 := originStep_ok h2
  obtain ⟨a3, l3⟩ := projectStep_ok h3
  obtain ⟨a4, l4⟩ := projectStep_ok h4
  subst a1; subst a2
  refine ⟨a3, a4, l3, ?_⟩
  rw [l4, List.length_map, List.length_map]

/-- the pair selection that `rpeRun` uses is C10's `idPairsFromDelta` on the processed driving
trajectory (reference or estimate according to `pairs_from_reference`) -/
theorem selectIdPairs_ok {o : RpeOpts} {P : Params} {gr ge : List (Pose Rat)} {pairs : List (Nat × Nat)}
    (h : selectIdPairs o P gr ge = .ok pairs) :
    rpeCtorOk o.delta o.deltaUnit = true ∧ gr.length = ge.length ∧
    Pairs.idPairsFromDelta
      ⟨(if o.pairsFromReference then gr.length else ge.length), P.pairs.steps, P.pairs.cang,
       triAng (if o.pairsFromReference then gr.length else ge.length) P.pairs.tri, P.pi⟩
      o.delta (dunitOf o.deltaUnit) o.deltaTol o.allPairs = .ok pairs := by
  unfold selectIdPairs at h
  by_cases hc : (!rpeCtorOk o.delta o.deltaUnit) = true
  · rw [if_pos hc] at h; cases h
  · rw [if_neg hc] at h
    by_cases hl : gr.length ≠ ge.length
    · rw [if_pos hl] at h; cases h
    · rw [if_neg hl] at h
      simp only at h
      generalize (if o.pairsFromReference = true then gr.length else ge.length) = n at h ⊢
      by_cases hb : P.pairs.steps.length + 1 ≠ n ∨ P.pairs.cang.length + 1 ≠ n
      · rw [if_pos hb] at h; cases h
      · rw [if_neg hb] at h
        split at h
        · cases h
        · next ps hp =>
          injection h with h; subst h
          exact ⟨by simpa using hc, not_not.mp hl, hp⟩

end Evo.Pipeline
