/-
Index lemmas for the slicing functions of `Model/Plot.lean`: `l[c::s]`, the segment list
`zip(l[:-1:s], l[1::s])`, interleaving, and the vertex list of the coordinate-frame markers.
-/
import EvoModel.Model.Plot
import EvoModel.Lemmas.Lin
import Mathlib.Tactic.Ring
namespace Evo.Plot

variable {α : Type}

/-- element `k` of `l[c::s]` is `l[c + s·k]` -/
theorem strideGo_getElem? (s : Nat) (hs : 0 < s) (l : List α) (c k : Nat) :
    (strideGo s c l)[k]? = l[c + s * k]? := by
  induction l generalizing c k with
  | nil => simp [strideGo]
  | cons x r ih =>
    cases c with
    | zero =>
      cases k with
      | zero => simp [strideGo]
      | succ k =>
        have e : 0 + s * (k + 1) = (s - 1 + s * k) + 1 := by
          rw [Nat.mul_succ]; omega
        simp only [strideGo, List.getElem?_cons_succ, ih, e]
    | succ c =>
      have e : c + 1 + s * k = (c + s * k) + 1 := by omega
      simp only [strideGo, ih, e, List.getElem?_cons_succ]

theorem stride_getElem? (s : Nat) (hs : 0 < s) (l : List α) (k : Nat) :
    (stride s l)[k]? = l[s * k]? := by
  unfold stride; rw [strideGo_getElem? s hs]; simp

/-- segment `k` of `zip(l[:-1:s], l[1::s])` joins `l[s·k]` and `l[s·k + 1]`; there is one segment for
every `k` with `s·k + 1 < len l` and no other -/
theorem lineSegs_getElem? (s : Nat) (hs : 0 < s) (l : List α) (k : Nat) :
    (lineSegs s l)[k]? =
      if h : s * k + 1 < l.length then some (l[s * k]'(by omega), l[s * k + 1]) else none := by
  unfold lineSegs
  split
  · next h =>
    rw [List.getElem?_zip_eq_some, stride_getElem? s hs, stride_getElem? s hs, List.getElem?_dropLast,
      List.getElem?_drop]
    refine ⟨?_, ?_⟩
    · rw [if_pos (by omega)]; exact List.getElem?_eq_getElem (by omega)
    · rw [Nat.add_comm 1]; exact List.getElem?_eq_getElem h
  · next h =>
    rw [List.zip, List.getElem?_zipWith, stride_getElem? s hs, stride_getElem? s hs, List.getElem?_drop]
    have : l[1 + s * k]? = none := by
      rw [List.getElem?_eq_none_iff]; omega
    rw [this]
    cases (l.dropLast)[s * k]? <;> rfl

theorem lineSegs_lt_length_iff (s : Nat) (hs : 0 < s) (l : List α) (k : Nat) :
    k < (lineSegs s l).length ↔ s * k + 1 < l.length := by
  constructor
  · intro h
    have := List.getElem?_eq_getElem h
    rw [lineSegs_getElem? s hs] at this
    by_contra hc
    rw [dif_neg hc] at this
    cases this
  · intro h
    by_contra hc
    have : (lineSegs s l)[k]? = none := List.getElem?_eq_none_iff.mpr (by omega)
    rw [lineSegs_getElem? s hs, dif_pos h] at this
    cases this

theorem lineSegs_one_length (l : List α) : (lineSegs 1 l).length = l.length - 1 := by
  have h := fun k => lineSegs_lt_length_iff 1 (by omega) l k
  by_contra hc
  rcases Nat.lt_or_gt_of_ne hc with hlt | hgt
  · have := (h (lineSegs 1 l).length).mpr (by omega)
    omega
  · have := (h (l.length - 1)).mp hgt
    omega

theorem lineSegs_two_length (l : List α) : (lineSegs 2 l).length = l.length / 2 := by
  have h := fun k => lineSegs_lt_length_iff 2 (by omega) l k
  by_contra hc
  rcases Nat.lt_or_gt_of_ne hc with hlt | hgt
  · have := (h (lineSegs 2 l).length).mpr (by omega)
    omega
  · have := (h (l.length / 2)).mp hgt
    omega

/-! ### interleaving -/

theorem interleave_length (a b : List α) (h : a.length = b.length) :
    (interleave a b).length = 2 * a.length := by
  induction a generalizing b with
  | nil => cases b <;> simp [interleave]
  | cons x r ih =>
    cases b with
    | nil => simp at h
    | cons y q =>
      simp only [interleave, List.length_cons] at h ⊢
      rw [ih q (by omega)]; omega

theorem interleave_even (a b : List α) (h : a.length = b.length) (k : Nat) :
    (interleave a b)[2 * k]? = a[k]? := by
  induction a generalizing b k with
  | nil => cases b <;> simp [interleave]
  | cons x r ih =>
    cases b with
    | nil => simp at h
    | cons y q =>
      cases k with
      | zero => simp [interleave]
      | succ k =>
        have e : 2 * (k + 1) = 2 * k + 1 + 1 := by omega
        simp only [interleave, e, List.getElem?_cons_succ]
        exact ih q (by simpa using h) k

theorem interleave_odd (a b : List α) (h : a.length = b.length) (k : Nat) :
    (interleave a b)[2 * k + 1]? = b[k]? := by
  induction a generalizing b k with
  | nil => cases b <;> simp [interleave] at h ⊢
  | cons x r ih =>
    cases b with
    | nil => simp at h
    | cons y q =>
      cases k with
      | zero => simp [interleave]
      | succ k =>
        have e : 2 * (k + 1) + 1 = (2 * k + 1) + 1 + 1 := by omega
        simp only [interleave, e, List.getElem?_cons_succ]
        exact ih q (by simpa using h) k

/-! ### vertex pairs `[f p, g p] for p in l`, flattened -/

variable {β : Type}

theorem flatMap_pair_length (f g : α → β) (l : List α) :
    (l.flatMap (fun p => [f p, g p])).length = 2 * l.length := by
  induction l with
  | nil => rfl
  | cons x r ih => simp only [List.flatMap_cons, List.length_append, List.length_cons, ih]; simp; omega

theorem flatMap_pair_even (f g : α → β) (l : List α) (k : Nat) :
    (l.flatMap (fun p => [f p, g p]))[2 * k]? = l[k]?.map f := by
  induction l generalizing k with
  | nil => simp
  | cons x r ih =>
    cases k with
    | zero => simp
    | succ k =>
      have e : 2 * (k + 1) = 2 * k + 1 + 1 := by omega
      simp only [List.flatMap_cons, List.cons_append, List.nil_append, e, List.getElem?_cons_succ]
      exact ih k

theorem flatMap_pair_odd (f g : α → β) (l : List α) (k : Nat) :
    (l.flatMap (fun p => [f p, g p]))[2 * k + 1]? = l[k]?.map g := by
  induction l generalizing k with
  | nil => simp
  | cons x r ih =>
    cases k with
    | zero => simp
    | succ k =>
      have e : 2 * (k + 1) + 1 = (2 * k + 1) + 1 + 1 := by omega
      simp only [List.flatMap_cons, List.cons_append, List.nil_append, e, List.getElem?_cons_succ]
      exact ih k

/-! ### coordinate-frame markers -/

theorem axisVertices_length (scale : Rat) (a : Nat) (poses : List (Pose Rat)) :
    (axisVertices scale a poses).length = 2 * poses.length :=
  flatMap_pair_length _ _ _

theorem coordAxesVertices_length (scale : Rat) (poses : List (Pose Rat)) :
    (coordAxesVertices scale poses).length = 2 * (3 * poses.length) := by
  simp only [coordAxesVertices, List.length_append, axisVertices_length]; omega

/-- vertex `2(a·n + i)` is the position of pose `i`, vertex `2(a·n + i) + 1` the tip of its axis `a` -/
theorem coordAxesVertices_get (scale : Rat) (poses : List (Pose Rat)) (a i : Nat) (ha : a < 3)
    (hi : i < poses.length) :
    (coordAxesVertices scale poses)[2 * (a * poses.length + i)]? = some (poses[i].t) ∧
    (coordAxesVertices scale poses)[2 * (a * poses.length + i) + 1]? = some (axisTip scale a poses[i]) := by
  have L := fun b => axisVertices_length scale b poses
  have ev := fun b => flatMap_pair_even (fun p : Pose Rat => p.t) (fun p => axisTip scale b p) poses i
  have od := fun b => flatMap_pair_odd (fun p : Pose Rat => p.t) (fun p => axisTip scale b p) poses i
  simp only [List.getElem?_eq_getElem hi, Option.map_some] at ev od
  have key : ∀ j, j < 2 * poses.length →
      (coordAxesVertices scale poses)[2 * (a * poses.length) + j]? = (axisVertices scale a poses)[j]? := by
    intro j hj
    unfold coordAxesVertices
    simp only [List.getElem?_append, List.length_append, L]
    rcases (by omega : a = 0 ∨ a = 1 ∨ a = 2) with rfl | rfl | rfl
    · rw [if_pos (by omega), if_pos (by omega)]; simp
    · rw [if_pos (by omega), if_neg (by omega)]; congr 1; omega
    · rw [if_neg (by omega)]; congr 1; omega
  constructor
  · rw [show 2 * (a * poses.length + i) = 2 * (a * poses.length) + 2 * i by omega, key _ (by omega)]
    exact ev a
  · rw [show 2 * (a * poses.length + i) + 1 = 2 * (a * poses.length) + (2 * i + 1) by omega, key _ (by omega)]
    exact od a

/-- the tip of marker axis `a` is the position plus `scale` times column `a` of the pose's rotation -/
theorem axisTip_eq (scale : Rat) (a : Nat) (p : Pose Rat) :
    axisTip scale a p = V3.add p.t (V3.smul scale (colOf p.rot a)) := by
  unfold axisTip unitVec colOf
  rcases a with _ | _ | a <;> (ext <;> lin_unfold <;> ring)

end Evo.Plot
