/-
The triangle inequality of the rotation angle, through unit quaternions (C09).

* `arccos_abs_inner_triangle`: on the unit sphere of a real inner product space
  `δ(p, q) = arccos |⟪p, q⟫|` (the metric of projective space) satisfies the triangle inequality —
  from Mathlib's `InnerProductGeometry.angle_le_angle_add_angle` applied to `p, ±q, ±r`.
* `quatRot w x y z`: the standard unit quaternion → rotation map (`transformations.quaternion_matrix`)
  over ℝ; it is a proper rotation, `quatRot (conj q) = (quatRot q)ᵀ`,
  `tr(quatRot(p)ᵀ quatRot(q)) = 4⟨p, q⟩² − 1`.
* `exists_quat_of_trace_ne`: every proper rotation with `tr R ≠ −1` (angle ≠ π) is `quatRot` of a
  unit quaternion (Shepperd's first case, from the polynomial Rodrigues identity of `Lemmas/SO3`).
* `arccos_cos_core_triangle`: for proper rotations `X, Y`:
  `arccos c(X·Y) ≤ arccos c(X) + arccos c(Y)`, `c(R) = (tr R − 1)/2`.  Rotations by exactly π need no
  quaternion: their angle is already π, the largest possible value.
-/
import EvoModel.Lemmas.Lie
import Mathlib.Geometry.Euclidean.Angle.Unoriented.TriangleInequality
import Mathlib.Analysis.InnerProductSpace.PiL2
namespace Evo
open Real InnerProductGeometry
open scoped RealInnerProductSpace

set_option linter.unusedSectionVars false

/-! ### the projective metric on a unit sphere -/

theorem exists_sign (a : ℝ) : ∃ ε : ℝ, (ε = 1 ∨ ε = -1) ∧ ε * a = |a| := by
  rcases le_or_gt 0 a with h | h
  · exact ⟨1, Or.inl rfl, by rw [abs_of_nonneg h, one_mul]⟩
  · exact ⟨-1, Or.inr rfl, by rw [abs_of_neg h]; ring⟩

section
variable {V : Type*} [NormedAddCommGroup V] [InnerProductSpace ℝ V]

theorem angle_unit (x y : V) (hx : ‖x‖ = 1) (hy : ‖y‖ = 1) : angle x y = arccos ⟪x, y⟫ := by
  unfold angle; rw [hx, hy]; simp

theorem norm_sign_smul (ε : ℝ) (h : ε = 1 ∨ ε = -1) (x : V) (hx : ‖x‖ = 1) : ‖ε • x‖ = 1 := by
  rcases h with rfl | rfl <;> simp [hx]

/-- triangle inequality of `arccos |⟪·,·⟫|` on the unit sphere -/
theorem arccos_abs_inner_triangle (p q r : V) (hp : ‖p‖ = 1) (hq : ‖q‖ = 1) (hr : ‖r‖ = 1) :
    arccos |⟪p, r⟫| ≤ arccos |⟪p, q⟫| + arccos |⟪q, r⟫| := by
  obtain ⟨e1, he1, h1⟩ := exists_sign ⟪p, q⟫
  obtain ⟨e2, he2, h2⟩ := exists_sign ⟪e1 • q, r⟫
  have hq' := norm_sign_smul e1 he1 q hq
  have hr' := norm_sign_smul e2 he2 r hr
  have t := angle_le_angle_add_angle p (e1 • q) (e2 • r)
  rw [angle_unit _ _ hp hr', angle_unit _ _ hp hq', angle_unit _ _ hq' hr'] at t
  have i1 : ⟪p, e1 • q⟫ = |⟪p, q⟫| := by rw [inner_smul_right]; exact h1
  have i2 : ⟪e1 • q, e2 • r⟫ = |⟪q, r⟫| := by
    rw [inner_smul_right, h2, inner_smul_left]
    simp only [RCLike.conj_to_real]
    rw [abs_mul]; rcases he1 with rfl | rfl <;> simp
  have i3 : ⟪p, e2 • r⟫ ≤ |⟪p, r⟫| := by
    rw [inner_smul_right]
    rcases he2 with rfl | rfl
    · rw [one_mul]; exact le_abs_self _
    · rw [neg_one_mul]; exact neg_le_abs _
  rw [i1, i2] at t
  exact (arccos_le_arccos i3).trans t
end

/-! ### quaternions as vectors of Euclidean 4-space -/

/-- the quaternion `(w, x, y, z)` as a vector -/
noncomputable def qvec (w x y z : ℝ) : EuclideanSpace ℝ (Fin 4) := !₂[w, x, y, z]

theorem qvec_inner (w x y z a b c d : ℝ) :
    ⟪qvec w x y z, qvec a b c d⟫ = w * a + x * b + y * c + z * d := by
  simp [qvec, PiLp.inner_apply, Fin.sum_univ_four]
  ring

theorem qvec_norm (w x y z : ℝ) (h : w * w + x * x + y * y + z * z = 1) : ‖qvec w x y z‖ = 1 := by
  have : ‖qvec w x y z‖ ^ 2 = 1 := by
    rw [← real_inner_self_eq_norm_sq, qvec_inner]; exact h
  have hn := norm_nonneg (qvec w x y z)
  nlinarith

/-- Cauchy–Schwarz for unit quaternions -/
theorem abs_qdot_le_one (w x y z a b c d : ℝ) (hq : w * w + x * x + y * y + z * z = 1)
    (hp : a * a + b * b + c * c + d * d = 1) : |w * a + x * b + y * c + z * d| ≤ 1 := by
  have := abs_real_inner_le_norm (qvec w x y z) (qvec a b c d)
  rw [qvec_inner, qvec_norm _ _ _ _ hq, qvec_norm _ _ _ _ hp] at this
  linarith

/-! ### the quaternion → rotation map -/

/-- `transformations.quaternion_matrix` for a unit quaternion `(w, x, y, z)` -/
def quatRot (w x y z : ℝ) : M3 ℝ :=
  ⟨1 - 2 * (y * y + z * z), 2 * (x * y - z * w), 2 * (x * z + y * w),
   2 * (x * y + z * w), 1 - 2 * (x * x + z * z), 2 * (y * z - x * w),
   2 * (x * z - y * w), 2 * (y * z + x * w), 1 - 2 * (x * x + y * y)⟩

theorem quatRot_isRot (w x y z : ℝ) (h : w * w + x * x + y * y + z * z = 1) : IsRot (quatRot w x y z) := by
  constructor
  · unfold IsOrtho
    ext <;> simp only [quatRot, M3.mul, M3.transpose, M3.one]
    · linear_combination (4*y^2 + 4*z^2) * h
    · linear_combination (-4*x*y) * h
    · linear_combination (-4*x*z) * h
    · linear_combination (-4*x*y) * h
    · linear_combination (4*x^2 + 4*z^2) * h
    · linear_combination (-4*y*z) * h
    · linear_combination (-4*x*z) * h
    · linear_combination (-4*y*z) * h
    · linear_combination (4*x^2 + 4*y^2) * h
  · simp only [quatRot, M3.det]
    linear_combination (4*x^2 + 4*y^2 + 4*z^2) * h

/-- conjugation of the quaternion transposes the rotation -/
theorem quatRot_conj (w x y z : ℝ) : quatRot w (-x) (-y) (-z) = (quatRot w x y z).transpose := by
  ext <;> simp only [quatRot, M3.transpose] <;> ring

theorem quatRot_trace (w x y z : ℝ) (h : w * w + x * x + y * y + z * z = 1) :
    (quatRot w x y z).trace = 4 * (w * w) - 1 := by
  simp only [quatRot, M3.trace]; linear_combination (-4) * h

/-- `tr(R(p)ᵀ R(q)) = 4⟨p, q⟩² − 1` -/
theorem quatRot_rel_trace (a b c d w x y z : ℝ) (hp : a * a + b * b + c * c + d * d = 1)
    (hq : w * w + x * x + y * y + z * z = 1) :
    (relSo3 (quatRot a b c d) (quatRot w x y z)).trace = 4 * (a * w + b * x + c * y + d * z) ^ 2 - 1 := by
  simp only [relSo3, quatRot, M3.mul, M3.transpose, M3.trace]
  linear_combination (-4*a^2) * hq + (4*x^2 + 4*y^2 + 4*z^2 - 4) * hp

/-- Shepperd's first case: a proper rotation with `tr R ≠ −1` is the image of a unit quaternion -/
theorem exists_quat_of_trace_ne (r : M3 ℝ) (h : IsRot r) (ht : r.trace ≠ -1) :
    ∃ w x y z : ℝ, w * w + x * x + y * y + z * z = 1 ∧ quatRot w x y z = r := by
  have hs : 0 < 1 + (r.a00 + r.a11 + r.a22) := by
    have := h.neg_one_le_trace
    simp only [M3.trace] at this ht
    rcases eq_or_lt_of_le this with e | e
    · exact absurd e.symm ht
    · linarith
  have hσ : √(1 + (r.a00 + r.a11 + r.a22)) * √(1 + (r.a00 + r.a11 + r.a22)) = 1 + (r.a00 + r.a11 + r.a22) :=
    Real.mul_self_sqrt hs.le
  have hσpos : 0 < √(1 + (r.a00 + r.a11 + r.a22)) := Real.sqrt_pos.mpr hs
  set σ := √(1 + (r.a00 + r.a11 + r.a22)) with hσdef
  set k := 1 / (2 * σ) with hkdef
  have hk1 : k * σ = 1 / 2 := by rw [hkdef]; field_simp
  have hk2 : k * k * (1 + (r.a00 + r.a11 + r.a22)) = 1 / 4 := by rw [hkdef, ← hσ]; field_simp; ring
  have hn := h.axis2_normSq
  have e := fun (f : M3 ℝ → ℝ) => congrArg f h.rodrigues2
  have e00 := e M3.a00; have e01 := e M3.a01; have e02 := e M3.a02
  have e11 := e M3.a11; have e12 := e M3.a12; have e22 := e M3.a22
  simp only [M3.smul, M3.add, M3.transpose, M3.one, M3.outer, M3.axis2, M3.trace] at e00 e01 e02 e11 e12 e22
  simp only [M3.axis2, V3.normSq, V3.dot, M3.trace] at hn
  have hsne : (1 + (r.a00 + r.a11 + r.a22)) ≠ 0 := hs.ne'
  refine ⟨σ / 2, k * (r.a21 - r.a12), k * (r.a02 - r.a20), k * (r.a10 - r.a01), ?_, ?_⟩
  · linear_combination (1 / 4) * hσ + (3 - (r.a00 + r.a11 + r.a22)) * hk2 + (k * k) * hn
  · ext <;> simp only [quatRot] <;> apply mul_left_cancel₀ hsne
    · linear_combination (-2 * ((r.a02 - r.a20) * (r.a02 - r.a20) + (r.a10 - r.a01) * (r.a10 - r.a01))) * hk2
        - (1 / 2) * hn - (1 / 2) * e00
    · linear_combination (2 * (r.a21 - r.a12) * (r.a02 - r.a20)) * hk2
        - ((1 + (r.a00 + r.a11 + r.a22)) * (r.a10 - r.a01)) * hk1 - (1 / 2) * e01
    · linear_combination (2 * (r.a21 - r.a12) * (r.a10 - r.a01)) * hk2
        + ((1 + (r.a00 + r.a11 + r.a22)) * (r.a02 - r.a20)) * hk1 - (1 / 2) * e02
    · linear_combination (2 * (r.a21 - r.a12) * (r.a02 - r.a20)) * hk2
        + ((1 + (r.a00 + r.a11 + r.a22)) * (r.a10 - r.a01)) * hk1 - (1 / 2) * e01
    · linear_combination (-2 * ((r.a21 - r.a12) * (r.a21 - r.a12) + (r.a10 - r.a01) * (r.a10 - r.a01))) * hk2
        - (1 / 2) * hn - (1 / 2) * e11
    · linear_combination (2 * (r.a02 - r.a20) * (r.a10 - r.a01)) * hk2
        - ((1 + (r.a00 + r.a11 + r.a22)) * (r.a21 - r.a12)) * hk1 - (1 / 2) * e12
    · linear_combination (2 * (r.a21 - r.a12) * (r.a10 - r.a01)) * hk2
        - ((1 + (r.a00 + r.a11 + r.a22)) * (r.a02 - r.a20)) * hk1 - (1 / 2) * e02
    · linear_combination (2 * (r.a02 - r.a20) * (r.a10 - r.a01)) * hk2
        + ((1 + (r.a00 + r.a11 + r.a22)) * (r.a21 - r.a12)) * hk1 - (1 / 2) * e12
    · linear_combination (-2 * ((r.a21 - r.a12) * (r.a21 - r.a12) + (r.a02 - r.a20) * (r.a02 - r.a20))) * hk2
        - (1 / 2) * hn - (1 / 2) * e22

/-! ### the triangle inequality on the cosine cores -/

/-- `arccos(2a² − 1) = 2·arccos|a|` for `|a| ≤ 1` (half-angle) -/
theorem arccos_double (a : ℝ) (h : |a| ≤ 1) : arccos (2 * a ^ 2 - 1) = 2 * arccos |a| := by
  have h0 : 0 ≤ |a| := abs_nonneg a
  have hcos : cos (arccos |a|) = |a| := Real.cos_arccos (by linarith) h
  have hle : arccos |a| ≤ π / 2 := Real.arccos_le_pi_div_two.mpr h0
  have h2 : cos (2 * arccos |a|) = 2 * a ^ 2 - 1 := by
    rw [Real.cos_two_mul, hcos, sq_abs]
  rw [← h2, Real.arccos_cos (by linarith [Real.arccos_nonneg |a|]) (by linarith)]

theorem angleCore_fst_of_trace (m : M3 ℝ) (t : ℝ) (h : m.trace = 4 * t ^ 2 - 1) :
    m.angleCore.1 = 2 * t ^ 2 - 1 := by
  rw [M3.angleCore_fst, h]; ring

/-- for proper rotations `X`, `Y`: `arccos c(X·Y) ≤ arccos c(X) + arccos c(Y)`, `c(R) = (tr R − 1)/2` -/
theorem arccos_core_mul_le (x y : M3 ℝ) (hx : IsRot x) (hy : IsRot y) :
    arccos (x.mul y).angleCore.1 ≤ arccos x.angleCore.1 + arccos y.angleCore.1 := by
  have hpi : ∀ m : M3 ℝ, m.trace = -1 → arccos m.angleCore.1 = π := by
    intro m hm
    rw [M3.angleCore_fst, hm]
    have : ((-1 : ℝ) - 1) / (1 + 1) = -1 := by norm_num
    rw [this, Real.arccos_neg_one]
  by_cases hxt : x.trace = -1
  · rw [hpi x hxt]
    linarith [Real.arccos_le_pi (x.mul y).angleCore.1, Real.arccos_nonneg y.angleCore.1]
  by_cases hyt : y.trace = -1
  · rw [hpi y hyt]
    linarith [Real.arccos_le_pi (x.mul y).angleCore.1, Real.arccos_nonneg x.angleCore.1]
  obtain ⟨a, b, c, d, hp, rfl⟩ := exists_quat_of_trace_ne x hx hxt
  obtain ⟨w, u, v, z, hq, rfl⟩ := exists_quat_of_trace_ne y hy hyt
  have hpc : a * a + -b * -b + -c * -c + -d * -d = 1 := by linear_combination hp
  have he : (1 : ℝ) * 1 + 0 * 0 + 0 * 0 + 0 * 0 = 1 := by norm_num
  -- X·Y = R(p̄)ᵀ·R(q)
  have hmul : (quatRot a b c d).mul (quatRot w u v z)
      = relSo3 (quatRot a (-b) (-c) (-d)) (quatRot w u v z) := by
    unfold relSo3; rw [quatRot_conj, M3.transpose_transpose]
  have c1 := angleCore_fst_of_trace _ _ (quatRot_rel_trace a (-b) (-c) (-d) w u v z hpc hq)
  have c2 := angleCore_fst_of_trace (quatRot a b c d) a (by rw [quatRot_trace _ _ _ _ hp]; ring)
  have c3 := angleCore_fst_of_trace (quatRot w u v z) w (by rw [quatRot_trace _ _ _ _ hq]; ring)
  rw [hmul, c1, c2, c3]
  have b1 := abs_qdot_le_one a (-b) (-c) (-d) w u v z hpc hq
  have b2 := abs_qdot_le_one a (-b) (-c) (-d) 1 0 0 0 hpc he
  have b3 := abs_qdot_le_one 1 0 0 0 w u v z he hq
  have t := arccos_abs_inner_triangle (qvec a (-b) (-c) (-d)) (qvec 1 0 0 0) (qvec w u v z)
    (qvec_norm _ _ _ _ hpc) (qvec_norm _ _ _ _ he) (qvec_norm _ _ _ _ hq)
  rw [qvec_inner, qvec_inner, qvec_inner] at t
  have s2 : a * 1 + -b * 0 + -c * 0 + -d * 0 = a := by ring
  have s3 : 1 * w + 0 * u + 0 * v + 0 * z = w := by ring
  rw [s2] at b2 t
  rw [s3] at b3 t
  rw [arccos_double _ b1, arccos_double _ b2, arccos_double _ b3]
  linarith

end Evo
