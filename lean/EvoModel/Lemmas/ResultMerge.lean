/-
Helper lemmas about `Model/ResultMerge.lean`: association lists, the adjacent-pairs test,
the left-to-right accumulation of `merge_results`.
-/
import EvoModel.Model.ResultMerge
import Mathlib.Algebra.Order.Ring.Rat
import Mathlib.Algebra.BigOperators.Group.List.Basic
import Mathlib.Tactic.Ring
import Mathlib.Tactic.Linarith
namespace Evo.ResultMerge
open Evo

/-! ### dicts -/

theorem lookup_isSome_iff {α} (d : Dict α) (k : String) : (lookup d k).isSome ↔ k ∈ keys d := by
  induction d with
  | nil => simp [lookup, keys]
  | cons p r ih =>
    obtain ⟨k', v⟩ := p
    unfold lookup
    by_cases h : k' = k
    · simp [h, keys]
    · simp only [h, if_false, ih, keys, List.map_cons, List.mem_cons]
      constructor
      · intro hm; exact Or.inr hm
      · rintro (e | hm)
        · exact absurd e.symm h
        · exact hm

/-- mapping the values (the new value may depend on the key) commutes with lookup -/
theorem lookup_map_val {α β} (d : Dict α) (g : String → α → β) (k : String) :
    lookup (d.map fun p => (p.1, g p.1 p.2)) k = (lookup d k).map (g k) := by
  induction d with
  | nil => rfl
  | cons p r ih =>
    obtain ⟨k', v⟩ := p
    simp only [List.map_cons, lookup]
    by_cases h : k' = k
    · simp [h]
    · simp [h, ih]

theorem keys_map_val {α β} (d : Dict α) (g : String → α → β) :
    keys (d.map fun p => (p.1, g p.1 p.2)) = keys d := by
  simp [keys, List.map_map, Function.comp_def]

theorem keysEq_iff (a b : List String) : keysEq a b = true ↔ ∀ k, k ∈ a ↔ k ∈ b := by
  simp only [keysEq, Bool.and_eq_true, List.all_eq_true, List.contains_iff_mem]
  constructor
  · rintro ⟨h1, h2⟩ k; exact ⟨h1 k, h2 k⟩
  · intro h; exact ⟨fun k hk => (h k).mp hk, fun k hk => (h k).mpr hk⟩

/-! ### `all(p(a, b) for a, b in zip(l, l[1:]))` for an equivalence relation -/

theorem adjAll_of_forall {α} (p : α → α → Bool) (l : List α) (h : ∀ x ∈ l, ∀ y ∈ l, p x y = true) :
    adjAll p l = true := by
  induction l with
  | nil => rfl
  | cons a r ih =>
    cases r with
    | nil => rfl
    | cons b r' =>
      simp only [adjAll, Bool.and_eq_true]
      exact ⟨h a (by simp) b (by simp), ih (fun x hx y hy => h x (by simp [hx]) y (by simp [hy]))⟩

theorem forall_of_adjAll {α} (p : α → α → Bool) (hrefl : ∀ a, p a a = true)
    (hsymm : ∀ a b, p a b = true → p b a = true)
    (htrans : ∀ a b c, p a b = true → p b c = true → p a c = true) (l : List α)
    (h : adjAll p l = true) : ∀ x ∈ l, ∀ y ∈ l, p x y = true := by
  induction l with
  | nil => intro x hx; simp at hx
  | cons a r ih =>
    cases r with
    | nil =>
      intro x hx y hy
      simp only [List.mem_singleton] at hx hy
      subst hx; subst hy; exact hrefl _
    | cons b r' =>
      simp only [adjAll, Bool.and_eq_true] at h
      have ih' := ih h.2
      have hab := h.1
      have ha : ∀ y ∈ b :: r', p a y = true := fun y hy => htrans a b y hab (ih' b (by simp) y hy)
      intro x hx y hy
      rcases List.mem_cons.mp hx with hxa | hx' <;> rcases List.mem_cons.mp hy with hya | hy'
      · rw [hxa, hya]; exact hrefl _
      · rw [hxa]; exact ha y hy'
      · rw [hya]; exact hsymm _ _ (ha x hx')
      · exact ih' x hx' y hy'

/-- two results have the same statistic keys and the same array keys -/
def SameKeys (a b : Res) : Prop :=
  (∀ k, k ∈ keys a.stats ↔ k ∈ keys b.stats) ∧ (∀ k, k ∈ keys a.arrays ↔ k ∈ keys b.arrays)

theorem keysOk_iff (rs : List Res) : keysOk rs = true ↔ ∀ x ∈ rs, ∀ y ∈ rs, SameKeys x y := by
  have E : ∀ (f : Res → List String),
      adjAll (fun a b => keysEq (f a) (f b)) rs = true ↔ ∀ x ∈ rs, ∀ y ∈ rs, ∀ k, k ∈ f x ↔ k ∈ f y := by
    intro f
    constructor
    · intro h x hx y hy
      exact (keysEq_iff _ _).mp (forall_of_adjAll (fun a b => keysEq (f a) (f b))
        (fun a => (keysEq_iff _ _).mpr (fun _ => Iff.rfl))
        (fun a b hab => (keysEq_iff _ _).mpr (fun k => ((keysEq_iff _ _).mp hab k).symm))
        (fun a b c hab hbc => (keysEq_iff _ _).mpr (fun k => ((keysEq_iff _ _).mp hab k).trans ((keysEq_iff _ _).mp hbc k)))
        rs h x hx y hy)
    · intro h
      exact adjAll_of_forall _ _ (fun x hx y hy => (keysEq_iff _ _).mpr (h x hx y hy))
  unfold keysOk SameKeys
  rw [Bool.and_eq_true, E (fun r => keys r.arrays), E (fun r => keys r.stats)]
  constructor
  · rintro ⟨h1, h2⟩ x hx y hy; exact ⟨h2 x hx y hy, h1 x hx y hy⟩
  · intro h; exact ⟨fun x hx y hy => (h x hx y hy).2, fun x hx y hy => (h x hx y hy).1⟩

/-- the strategy test: all results have, for every array key of the first result, arrays of
the same length as the first result -/
theorem average_iff (first : Res) (rest : List Res) :
    average (first :: rest) = true ↔
      ∀ r ∈ rest, ∀ k ∈ keys first.arrays, (arr r k).length = (arr first k).length := by
  unfold average
  constructor
  · intro h r hr k hk
    have := forall_of_adjAll (fun a b : Res => sizes (keys first.arrays) a == sizes (keys first.arrays) b)
      (fun a => by simp) (fun a b hab => by simp only [beq_iff_eq] at hab ⊢; exact hab.symm)
      (fun a b c hab hbc => by simp only [beq_iff_eq] at hab hbc ⊢; exact hab.trans hbc)
      (first :: rest) h r (by simp [hr]) first (by simp)
    simp only [beq_iff_eq, sizes] at this
    exact (List.map_inj_left.mp this) k hk
  · intro h
    apply adjAll_of_forall
    have hs : ∀ x ∈ first :: rest, sizes (keys first.arrays) x = sizes (keys first.arrays) first := by
      intro x hx
      rcases List.mem_cons.mp hx with rfl | hx
      · rfl
      · simp only [sizes]
        exact List.map_inj_left.mpr (fun k hk => h x hx k hk)
    intro x hx y hy
    simp only [beq_iff_eq]
    rw [hs x hx, hs y hy]

/-! ### accumulation -/

theorem foldl_addStats (rest : List Res) (d : Dict Rat) :
    rest.foldl addStats d = d.map fun p => (p.1, p.2 + (rest.map fun r => stat r p.1).sum) := by
  induction rest generalizing d with
  | nil => simp
  | cons r rest ih =>
    rw [List.foldl_cons, ih]
    simp only [addStats, List.map_map, List.map_cons, List.sum_cons]
    apply List.map_congr_left
    intro p _
    simp only [Function.comp]
    congr 1
    ring

theorem foldl_addArrays_append (rest : List Res) (d : Dict (List Rat)) :
    rest.foldl (addArrays false) d = d.map fun p => (p.1, p.2 ++ (rest.map fun r => arr r p.1).flatten) := by
  induction rest generalizing d with
  | nil => simp
  | cons r rest ih =>
    rw [List.foldl_cons, ih]
    simp only [addArrays, List.map_map, List.map_cons, List.flatten_cons]
    apply List.map_congr_left
    intro p _
    simp [Function.comp]

/-- iterated element-wise addition -/
def addAll (a : List Rat) (bs : List (List Rat)) : List Rat := bs.foldl addL a

theorem foldl_addArrays_avg (rest : List Res) (d : Dict (List Rat)) :
    rest.foldl (addArrays true) d = d.map fun p => (p.1, addAll p.2 (rest.map fun r => arr r p.1)) := by
  induction rest generalizing d with
  | nil => simp [addAll]
  | cons r rest ih =>
    rw [List.foldl_cons, ih]
    simp only [addArrays, List.map_map, List.map_cons, addAll, List.foldl_cons]
    apply List.map_congr_left
    intro p _
    simp [Function.comp]

theorem addL_length (a b : List Rat) (h : b.length = a.length) : (addL a b).length = a.length := by
  induction a generalizing b with
  | nil => cases b <;> simp [addL]
  | cons x a ih =>
    cases b with
    | nil => simp at h
    | cons y b => simp [addL, ih b (by simpa using h)]

theorem addL_getD (a b : List Rat) (h : b.length = a.length) (i : Nat) :
    (addL a b).getD i 0 = a.getD i 0 + b.getD i 0 := by
  induction a generalizing b i with
  | nil =>
    cases b with
    | nil => simp [addL]
    | cons _ _ => simp at h
  | cons x a ih =>
    cases b with
    | nil => simp at h
    | cons y b =>
      cases i with
      | zero => simp [addL]
      | succ i => simpa [addL] using ih b (by simpa using h) i

theorem addAll_length (a : List Rat) (bs : List (List Rat)) (h : ∀ b ∈ bs, b.length = a.length) :
    (addAll a bs).length = a.length := by
  induction bs generalizing a with
  | nil => rfl
  | cons b bs ih =>
    have hb := h b (by simp)
    have hl := addL_length a b hb
    simp only [addAll, List.foldl_cons] at ih ⊢
    rw [ih (addL a b) (fun c hc => by rw [hl]; exact h c (by simp [hc])), hl]

theorem addAll_getD (a : List Rat) (bs : List (List Rat)) (h : ∀ b ∈ bs, b.length = a.length) (i : Nat) :
    (addAll a bs).getD i 0 = a.getD i 0 + (bs.map fun b => b.getD i 0).sum := by
  induction bs generalizing a with
  | nil => simp [addAll]
  | cons b bs ih =>
    have hb := h b (by simp)
    have hl := addL_length a b hb
    simp only [addAll, List.foldl_cons, List.map_cons, List.sum_cons] at ih ⊢
    rw [ih (addL a b) (fun c hc => by rw [hl]; exact h c (by simp [hc])), addL_getD a b hb]
    ring

theorem getD_map_div (a : List Rat) (n : Rat) (i : Nat) : (a.map fun x => x / n).getD i 0 = a.getD i 0 / n := by
  simp only [List.getD_eq_getElem?_getD, List.getElem?_map]
  cases a[i]? <;> simp

/-! ### the shape of `combine` -/

def meanStat (rest : List Res) (key : String) (v : Rat) : Rat :=
  (v + (rest.map fun r => stat r key).sum) / ((rest.length + 1 : Nat) : Rat)

def avgArr (rest : List Res) (key : String) (a : List Rat) : List Rat :=
  (addAll a (rest.map fun r => arr r key)).map fun x => x / ((rest.length + 1 : Nat) : Rat)

def catArr (rest : List Res) (key : String) (a : List Rat) : List Rat :=
  a ++ (rest.map fun r => arr r key).flatten

theorem combine_stats (avg : Bool) (first : Res) (rest : List Res) :
    (combine avg first rest).stats = first.stats.map fun p => (p.1, meanStat rest p.1 p.2) := by
  simp only [combine, foldl_addStats, List.map_map, Function.comp_def, meanStat]

theorem combine_arrays_avg (first : Res) (rest : List Res) :
    (combine true first rest).arrays = first.arrays.map fun p => (p.1, avgArr rest p.1 p.2) := by
  simp only [combine, foldl_addArrays_avg, List.map_map, Function.comp_def, if_true, avgArr]

theorem combine_arrays_append (first : Res) (rest : List Res) :
    (combine false first rest).arrays = first.arrays.map fun p => (p.1, catArr rest p.1 p.2) := by
  simp only [combine, foldl_addArrays_append, Bool.false_eq_true, if_false, catArr]

/-! ### inversion of `mergeResults` -/

/-- what `mergeResults` does on two or more results -/
theorem merge_eq (first second : Res) (rest : List Res) :
    mergeResults (first :: second :: rest) =
      if keysOk (first :: second :: rest) then
        .ok (combine (average (first :: second :: rest)) first (second :: rest))
      else .error .keyMismatch := by
  simp only [mergeResults]
  cases keysOk (first :: second :: rest) <;> simp

/-- a merge of two or more results that succeeds: keys agree, the result is `combine` -/
theorem merge_ok_inv (first second : Res) (rest : List Res) (m : Res)
    (h : mergeResults (first :: second :: rest) = .ok m) :
    (∀ x ∈ first :: second :: rest, ∀ y ∈ first :: second :: rest, SameKeys x y) ∧
    m = combine (average (first :: second :: rest)) first (second :: rest) := by
  rw [merge_eq] at h
  cases hk : keysOk (first :: second :: rest) with
  | false => simp [hk] at h
  | true =>
    simp only [hk, if_true, Except.ok.injEq] at h
    exact ⟨(keysOk_iff _).mp hk, h.symm⟩

/-! ### labels -/

/-- `lastSeg` is `os.path.basename`: no `/` in it, and the path is `prefix ++ lastSeg` where the
prefix is empty or ends with `/` -/
theorem lastSeg_spec (l : List Char) :
    '/' ∉ lastSeg l ∧ ∃ pre, l = pre ++ lastSeg l ∧ (pre = [] ∨ ∃ p, pre = p ++ ['/']) := by
  induction l with
  | nil => exact ⟨by simp [lastSeg], [], rfl, Or.inl rfl⟩
  | cons c r ih =>
    obtain ⟨hno, pre, hpre, hp⟩ := ih
    unfold lastSeg
    by_cases hs : '/' ∈ r
    · rw [if_pos hs]
      refine ⟨hno, c :: pre, by rw [List.cons_append, ← hpre], Or.inr ?_⟩
      rcases hp with rfl | ⟨p, rfl⟩
      · exfalso; rw [List.nil_append] at hpre; rw [hpre] at hs; exact hno hs
      · exact ⟨c :: p, rfl⟩
    · rw [if_neg hs]
      by_cases hc : c = '/'
      · rw [if_pos hc]
        exact ⟨hs, ['/'], by rw [hc]; rfl, Or.inr ⟨[], rfl⟩⟩
      · rw [if_neg hc]
        refine ⟨?_, [], rfl, Or.inl rfl⟩
        intro hm
        rcases List.mem_cons.mp hm with e | e
        · exact hc e.symm
        · exact hs e

theorem hasDup_iff (l : List String) : hasDup l = false ↔ l.Nodup := by
  induction l with
  | nil => simp [hasDup]
  | cons x r ih =>
    simp only [hasDup, Bool.or_eq_false_iff, ih, List.nodup_cons]
    constructor
    · rintro ⟨h1, h2⟩
      refine ⟨?_, h2⟩
      intro hm
      have : r.contains x = true := List.contains_iff_mem.mpr hm
      rw [h1] at this; cases this
    · rintro ⟨h1, h2⟩
      refine ⟨?_, h2⟩
      cases hc : r.contains x with
      | false => rfl
      | true => exact absurd (List.contains_iff_mem.mp hc) h1

end Evo.ResultMerge
