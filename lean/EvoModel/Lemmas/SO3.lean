/-
Polynomial identities of SO(3) in the explicit components of `Model/Lin.lean`
(used by C01, C03, C09, C14).  For `R` with `RᵀR = 1`, `det R = 1`:

* `IsRot.cof`            the nine cofactor equations `cof R = R`
* with `t = tr R`, `u = 2·vee((R − Rᵀ)/2) = (R₂₁−R₁₂, R₀₂−R₂₀, R₁₀−R₀₁)` (division free):
  `IsRot.mulVec_axis2`   `R u = u`
  `IsRot.axis2_normSq`   `‖u‖² = (1 + t)(3 − t)`
  `IsRot.rodrigues2`     `(1 + t)(R + Rᵀ) = (t − 1)(t + 1)·I + u uᵀ`   (Rodrigues, polynomial form)
  `IsRot.trace_sq`       `(1 + t)² + ‖u‖² = 4(1 + t)`
* over an ordered field: `IsOrtho.trace_le_three`, `IsRot.neg_one_le_trace`,
  `IsOrtho.eq_one_of_trace` (`tr R = 3 → R = 1`)
* the same facts for `c = (t − 1)/2`, `w = u/2` (`M3.angleCore`, `M3.axisVec`):
  `IsRot.mulVec_axis`, `IsRot.axis_normSq`, `IsRot.angleCore_eq`, `IsRot.cos_range`,
  `IsRot.rodrigues`.

All identities are closed by `linear_combination`; the (constant) coefficients were found offline
with sympy by solving a linear system over the monomials (generators: the 6 + 6 orthonormality
equations and the 9 cofactor equations).  Only Lean's check is trusted.
-/
import EvoModel.Lemmas.Lin
import Mathlib.Algebra.Order.Field.Basic
import Mathlib.Tactic.Linarith
import Mathlib.Tactic.Positivity
namespace Evo

set_option linter.unusedSectionVars false

section field
variable {K : Type} [Field K]

/-- `2·vee((R − Rᵀ)/2)`: the (unnormalised, `2 sin θ`-scaled) rotation axis -/
def M3.axis2 (r : M3 K) : V3 K := ⟨r.a21 - r.a12, r.a02 - r.a20, r.a10 - r.a01⟩

/-- `vee((R − Rᵀ)/2)`: rotation axis scaled by `sin θ` (the vector whose squared norm is the
second component of `M3.angleCore`) -/
def M3.axisVec (r : M3 K) : V3 K :=
  ⟨(r.a21 - r.a12) / (1 + 1), (r.a02 - r.a20) / (1 + 1), (r.a10 - r.a01) / (1 + 1)⟩

/-- outer product `v wᵀ` -/
def M3.outer (v w : V3 K) : M3 K :=
  ⟨v.x * w.x, v.x * w.y, v.x * w.z, v.y * w.x, v.y * w.y, v.y * w.z, v.z * w.x, v.z * w.y, v.z * w.z⟩

theorem M3.axisVec_eq_vee (r : M3 K) :
    r.axisVec = M3.vee (M3.smul (1 / (1 + 1)) (r.sub r.transpose)) := by
  ext <;> simp only [M3.axisVec, M3.vee, M3.smul, M3.sub, M3.transpose] <;> ring

theorem M3.angleCore_fst (r : M3 K) : r.angleCore.1 = (r.trace - 1) / (1 + 1) := rfl
theorem M3.angleCore_snd (r : M3 K) : r.angleCore.2 = r.axisVec.normSq := rfl

/-- the nine cofactor equations `cof R = R` of a proper rotation -/
theorem IsRot.cof {r : M3 K} (h : IsRot r) :
    (r.a11 * r.a22 - r.a12 * r.a21 = r.a00 ∧ -(r.a10 * r.a22) + r.a12 * r.a20 = r.a01 ∧
      r.a10 * r.a21 - r.a11 * r.a20 = r.a02) ∧
    (-(r.a01 * r.a22) + r.a02 * r.a21 = r.a10 ∧ r.a00 * r.a22 - r.a02 * r.a20 = r.a11 ∧
      -(r.a00 * r.a21) + r.a01 * r.a20 = r.a12) ∧
    (r.a01 * r.a12 - r.a02 * r.a11 = r.a20 ∧ -(r.a00 * r.a12) + r.a02 * r.a10 = r.a21 ∧
      r.a00 * r.a11 - r.a01 * r.a10 = r.a22) := by
  obtain ⟨ho, hd⟩ := h
  obtain ⟨hc00, hc01, hc02, hc11, hc12, hc22⟩ := ho.eqs
  simp only [M3.det] at hd
  -- (cof − R)ᵢⱼ = Rᵢⱼ (det − 1) − Σₖ cofᵢₖ (RᵀR − I)ₖⱼ
  refine ⟨⟨?_, ?_, ?_⟩, ⟨?_, ?_, ?_⟩, ⟨?_, ?_, ?_⟩⟩
  · linear_combination r.a00 * hd - (r.a11 * r.a22 - r.a12 * r.a21) * hc00
      - (-(r.a10 * r.a22) + r.a12 * r.a20) * hc01 - (r.a10 * r.a21 - r.a11 * r.a20) * hc02
  · linear_combination r.a01 * hd - (r.a11 * r.a22 - r.a12 * r.a21) * hc01
      - (-(r.a10 * r.a22) + r.a12 * r.a20) * hc11 - (r.a10 * r.a21 - r.a11 * r.a20) * hc12
  · linear_combination r.a02 * hd - (r.a11 * r.a22 - r.a12 * r.a21) * hc02
      - (-(r.a10 * r.a22) + r.a12 * r.a20) * hc12 - (r.a10 * r.a21 - r.a11 * r.a20) * hc22
  · linear_combination r.a10 * hd - (-(r.a01 * r.a22) + r.a02 * r.a21) * hc00
      - (r.a00 * r.a22 - r.a02 * r.a20) * hc01 - (-(r.a00 * r.a21) + r.a01 * r.a20) * hc02
  · linear_combination r.a11 * hd - (-(r.a01 * r.a22) + r.a02 * r.a21) * hc01
      - (r.a00 * r.a22 - r.a02 * r.a20) * hc11 - (-(r.a00 * r.a21) + r.a01 * r.a20) * hc12
  · linear_combination r.a12 * hd - (-(r.a01 * r.a22) + r.a02 * r.a21) * hc02
      - (r.a00 * r.a22 - r.a02 * r.a20) * hc12 - (-(r.a00 * r.a21) + r.a01 * r.a20) * hc22
  · linear_combination r.a20 * hd - (r.a01 * r.a12 - r.a02 * r.a11) * hc00
      - (-(r.a00 * r.a12) + r.a02 * r.a10) * hc01 - (r.a00 * r.a11 - r.a01 * r.a10) * hc02
  · linear_combination r.a21 * hd - (r.a01 * r.a12 - r.a02 * r.a11) * hc01
      - (-(r.a00 * r.a12) + r.a02 * r.a10) * hc11 - (r.a00 * r.a11 - r.a01 * r.a10) * hc12
  · linear_combination r.a22 * hd - (r.a01 * r.a12 - r.a02 * r.a11) * hc02
      - (-(r.a00 * r.a12) + r.a02 * r.a10) * hc12 - (r.a00 * r.a11 - r.a01 * r.a10) * hc22

theorem IsRot.transpose {r : M3 K} (h : IsRot r) : IsRot r.transpose :=
  ⟨h.1.transpose, by rw [M3.det_transpose]; exact h.2⟩

theorem IsRot.mul {a b : M3 K} (ha : IsRot a) (hb : IsRot b) : IsRot (a.mul b) :=
  ⟨ha.1.mul hb.1, by rw [M3.det_mul, ha.2, hb.2, mul_one]⟩

theorem IsRot.one : IsRot (M3.one : M3 K) := ⟨IsOrtho.one, M3.det_one⟩

/-- the axis is fixed: `R u = u` -/
theorem IsRot.mulVec_axis2 {r : M3 K} (h : IsRot r) : r.mulVec r.axis2 = r.axis2 := by
  obtain ⟨⟨_, hk01, hk02⟩, ⟨hk10, _, hk12⟩, ⟨hk20, hk21, _⟩⟩ := h.cof
  ext <;> simp only [M3.mulVec, M3.axis2]
  · linear_combination (-1) * hk12 + hk21
  · linear_combination hk02 - hk20
  · linear_combination (-1) * hk01 + hk10

/-- `‖u‖² = (1 + t)(3 − t)`, i.e. `4 sin²θ = 4(1 − cos²θ)` -/
theorem IsRot.axis2_normSq {r : M3 K} (h : IsRot r) :
    r.axis2.normSq = (1 + r.trace) * (3 - r.trace) := by
  obtain ⟨⟨hk00, _, _⟩, ⟨_, hk11, _⟩, ⟨_, _, hk22⟩⟩ := h.cof
  obtain ⟨hc00, _, _, hc11, _, hc22⟩ := h.1.eqs
  simp only [M3.axis2, V3.normSq, V3.dot, M3.trace]
  linear_combination hc00 + hc11 + hc22 + 2 * hk00 + 2 * hk11 + 2 * hk22

/-- `(1 + t)² + ‖u‖² = 4(1 + t)` (gives `−1 ≤ t` over an ordered field) -/
theorem IsRot.trace_sq {r : M3 K} (h : IsRot r) :
    (1 + r.trace) ^ 2 + r.axis2.normSq = 4 * (1 + r.trace) := by
  rw [h.axis2_normSq]; ring

/-- Rodrigues' formula in polynomial form: `(1 + t)(R + Rᵀ) = (t − 1)(t + 1)·I + u uᵀ` -/
theorem IsRot.rodrigues2 {r : M3 K} (h : IsRot r) :
    M3.smul (1 + r.trace) (r.add r.transpose)
      = (M3.smul ((r.trace - 1) * (r.trace + 1)) M3.one).add (M3.outer r.axis2 r.axis2) := by
  obtain ⟨⟨hk00, hk01, hk02⟩, ⟨hk10, hk11, hk12⟩, ⟨hk20, hk21, hk22⟩⟩ := h.cof
  obtain ⟨hc00, hc01, hc02, hc11, hc12, hc22⟩ := h.1.eqs
  obtain ⟨hr00, hr01, hr02, hr11, hr12, hr22⟩ := h.1.row_eqs
  ext <;> simp only [M3.smul, M3.add, M3.transpose, M3.one, M3.outer, M3.axis2, M3.trace]
  · linear_combination (-1) * hc11 + (-1) * hc22 + hr00 + (-2) * hk00
  · linear_combination hc01 + hr01 + (-1) * hk01 + (-1) * hk10
  · linear_combination hc02 + hr02 + (-1) * hk02 + (-1) * hk20
  · linear_combination hc01 + hr01 + (-1) * hk01 + (-1) * hk10
  · linear_combination (-1) * hc00 + (-1) * hc22 + hr11 + (-2) * hk11
  · linear_combination hc12 + hr12 + (-1) * hk12 + (-1) * hk21
  · linear_combination hc02 + hr02 + (-1) * hk02 + (-1) * hk20
  · linear_combination hc12 + hr12 + (-1) * hk12 + (-1) * hk21
  · linear_combination hc22 + (-1) * hr00 + (-1) * hr11 + (-2) * hk22

end field

section ordered
variable {K : Type} [Field K] [LinearOrder K] [IsStrictOrderedRing K]

theorem two_ne_zero' : (1 + 1 : K) ≠ 0 := by
  have : (0 : K) < 1 + 1 := by positivity
  exact ne_of_gt this

theorem V3.normSq_nonneg (v : V3 K) : 0 ≤ v.normSq := by
  simp only [V3.normSq, V3.dot]; nlinarith [mul_self_nonneg v.x, mul_self_nonneg v.y, mul_self_nonneg v.z]

theorem M3.frobSq_nonneg (a : M3 K) : 0 ≤ a.frobSq := by
  simp only [M3.frobSq]
  nlinarith [mul_self_nonneg a.a00, mul_self_nonneg a.a01, mul_self_nonneg a.a02, mul_self_nonneg a.a10,
    mul_self_nonneg a.a11, mul_self_nonneg a.a12, mul_self_nonneg a.a20, mul_self_nonneg a.a21,
    mul_self_nonneg a.a22]

theorem M3.eq_zero_of_frobSq {a : M3 K} (h : a.frobSq = 0) : a = M3.zero := by
  simp only [M3.frobSq] at h
  have n00 := mul_self_nonneg a.a00; have n01 := mul_self_nonneg a.a01; have n02 := mul_self_nonneg a.a02
  have n10 := mul_self_nonneg a.a10; have n11 := mul_self_nonneg a.a11; have n12 := mul_self_nonneg a.a12
  have n20 := mul_self_nonneg a.a20; have n21 := mul_self_nonneg a.a21; have n22 := mul_self_nonneg a.a22
  ext <;> simp only [M3.zero] <;> apply mul_self_eq_zero.mp <;> linarith

/-- `tr R ≤ 3` for an orthonormal matrix -/
theorem IsOrtho.trace_le_three {r : M3 K} (h : IsOrtho r) : r.trace ≤ 3 := by
  have := frobSq_sub_one_of_ortho h
  have := M3.frobSq_nonneg (r.sub M3.one)
  linarith

/-- `tr R = 3 → R = 1`: a rotation with angle zero is the identity -/
theorem IsOrtho.eq_one_of_trace {r : M3 K} (h : IsOrtho r) (ht : r.trace = 3) : r = M3.one := by
  have h0 : (r.sub M3.one).frobSq = 0 := by rw [frobSq_sub_one_of_ortho h, ht]; ring
  have hz := M3.eq_zero_of_frobSq h0
  have e := fun (f : M3 K → K) => congrArg f hz
  ext <;> simp only [M3.one]
  · have := e M3.a00; simp only [M3.sub, M3.one, M3.zero] at this; linarith
  · have := e M3.a01; simp only [M3.sub, M3.one, M3.zero] at this; linarith
  · have := e M3.a02; simp only [M3.sub, M3.one, M3.zero] at this; linarith
  · have := e M3.a10; simp only [M3.sub, M3.one, M3.zero] at this; linarith
  · have := e M3.a11; simp only [M3.sub, M3.one, M3.zero] at this; linarith
  · have := e M3.a12; simp only [M3.sub, M3.one, M3.zero] at this; linarith
  · have := e M3.a20; simp only [M3.sub, M3.one, M3.zero] at this; linarith
  · have := e M3.a21; simp only [M3.sub, M3.one, M3.zero] at this; linarith
  · have := e M3.a22; simp only [M3.sub, M3.one, M3.zero] at this; linarith

theorem M3.trace_one : (M3.one : M3 K).trace = 3 := by simp only [M3.trace, M3.one]; norm_num

/-- `−1 ≤ tr R` for a proper rotation -/
theorem IsRot.neg_one_le_trace {r : M3 K} (h : IsRot r) : -1 ≤ r.trace := by
  have h1 := h.trace_sq
  have h2 := V3.normSq_nonneg r.axis2
  nlinarith [sq_nonneg (1 + r.trace)]

/-! ### the same facts for `c = (tr R − 1)/2`, `w = vee((R − Rᵀ)/2)` (`M3.angleCore`) -/

theorem M3.axisVec_eq (r : M3 K) : r.axisVec = V3.smul (1 / (1 + 1)) r.axis2 := by
  ext <;> simp only [M3.axisVec, M3.axis2, V3.smul] <;> ring

/-- `R w = w` -/
theorem IsRot.mulVec_axis {r : M3 K} (h : IsRot r) : r.mulVec r.axisVec = r.axisVec := by
  have e := h.mulVec_axis2
  rw [M3.axisVec_eq]
  have : r.mulVec (V3.smul (1 / (1 + 1)) r.axis2) = V3.smul (1 / (1 + 1)) (r.mulVec r.axis2) := by
    ext <;> simp only [M3.mulVec, V3.smul] <;> ring
  rw [this, e]

/-- `‖w‖² = 1 − c²` -/
theorem IsRot.axis_normSq {r : M3 K} (h : IsRot r) :
    r.axisVec.normSq = 1 - ((r.trace - 1) / (1 + 1)) ^ 2 := by
  have e := h.axis2_normSq
  have h2 : (1 + 1 : K) ≠ 0 := two_ne_zero'
  rw [M3.axisVec_eq]
  have : (V3.smul (1 / (1 + 1)) r.axis2).normSq = r.axis2.normSq / ((1 + 1) * (1 + 1)) := by
    simp only [V3.normSq, V3.dot, V3.smul]; field_simp
  rw [this, e]; field_simp; ring

/-- the angle core of a rotation is a point of the unit circle: `c² + s² = 1` -/
theorem IsRot.angleCore_eq {r : M3 K} (h : IsRot r) :
    r.angleCore.1 ^ 2 + r.angleCore.2 = 1 := by
  rw [M3.angleCore_fst, M3.angleCore_snd, h.axis_normSq]; ring

/-- `−1 ≤ c ≤ 1` -/
theorem IsRot.cos_range {r : M3 K} (h : IsRot r) : -1 ≤ r.angleCore.1 ∧ r.angleCore.1 ≤ 1 := by
  have h1 := h.neg_one_le_trace
  have h2 := h.1.trace_le_three
  have hp : (0 : K) < 1 + 1 := by positivity
  rw [M3.angleCore_fst]
  constructor
  · rw [le_div_iff₀ hp]; linarith
  · rw [div_le_iff₀ hp]; linarith

/-- Rodrigues' formula, polynomial form: `(1 + c)·(R + Rᵀ)/2 = c(1 + c)·I + w wᵀ` -/
theorem IsRot.rodrigues {r : M3 K} (h : IsRot r) :
    M3.smul ((1 + r.angleCore.1) / (1 + 1)) (r.add r.transpose)
      = (M3.smul (r.angleCore.1 * (1 + r.angleCore.1)) M3.one).add (M3.outer r.axisVec r.axisVec) := by
  have e := h.rodrigues2
  have h2 : (1 + 1 : K) ≠ 0 := two_ne_zero'
  have e' := fun (f : M3 K → K) => congrArg f e
  rw [M3.angleCore_fst]
  ext <;> simp only [M3.smul, M3.add, M3.transpose, M3.one, M3.outer, M3.axisVec]
  · have := e' M3.a00; simp only [M3.smul, M3.add, M3.transpose, M3.one, M3.outer, M3.axis2] at this
    field_simp; linear_combination this
  · have := e' M3.a01; simp only [M3.smul, M3.add, M3.transpose, M3.one, M3.outer, M3.axis2] at this
    field_simp; linear_combination this
  · have := e' M3.a02; simp only [M3.smul, M3.add, M3.transpose, M3.one, M3.outer, M3.axis2] at this
    field_simp; linear_combination this
  · have := e' M3.a10; simp only [M3.smul, M3.add, M3.transpose, M3.one, M3.outer, M3.axis2] at this
    field_simp; linear_combination this
  · have := e' M3.a11; simp only [M3.smul, M3.add, M3.transpose, M3.one, M3.outer, M3.axis2] at this
    field_simp; linear_combination this
  · have := e' M3.a12; simp only [M3.smul, M3.add, M3.transpose, M3.one, M3.outer, M3.axis2] at this
    field_simp; linear_combination this
  · have := e' M3.a20; simp only [M3.smul, M3.add, M3.transpose, M3.one, M3.outer, M3.axis2] at this
    field_simp; linear_combination this
  · have := e' M3.a21; simp only [M3.smul, M3.add, M3.transpose, M3.one, M3.outer, M3.axis2] at this
    field_simp; linear_combination this
  · have := e' M3.a22; simp only [M3.smul, M3.add, M3.transpose, M3.one, M3.outer, M3.axis2] at this
    field_simp; linear_combination this

end ordered
end Evo
