/-
Helper lemmas for C11 (`Model/Select.lean`): index selections, `numpy.where`, cuts and slices,
the motion-filter loop, stable argsort, and the integer arithmetic of `numpy.linspace` ids.

Rounding facts about `Evo.F64.rne` are NOT proved here (`Lemmas/F64.lean` belongs to C06/C07):
the down-sampling lemmas are stated for an arbitrary rounding function `r` satisfying
`Evo.Select.F64Rounding r` (relative error `2⁻⁵³` on `[1/2, 2⁵³]`, exact on naturals `< 2⁵³`).
-/
import Mathlib.Algebra.Order.Ring.Rat
import Mathlib.Data.Rat.Floor
import Mathlib.Data.List.Sort
import Mathlib.Tactic.Linarith
import Mathlib.Tactic.Ring
import Mathlib.Tactic.FieldSimp
import EvoModel.Model.Select
namespace Evo.Select
open Evo

/-! ### `reduceIds` -/

theorem reduceIds_nil_ids {α} (l : List α) : reduceIds l [] = [] := rfl

theorem reduceIds_cons {α} (l : List α) (i : Nat) (ids : List Nat) :
    reduceIds l (i :: ids) = (match l[i]? with | some x => [x] | none => []) ++ reduceIds l ids := by
  unfold reduceIds
  rw [List.filterMap_cons]
  cases l[i]? <;> simp

theorem filterMap_range_getElem? {α} (l : List α) :
    (List.range l.length).filterMap (fun i => l[i]?) = l := by
  induction l with
  | nil => rfl
  | cons x r ih =>
    simp only [List.length_cons, List.range_succ_eq_map, List.filterMap_cons, List.filterMap_map]
    simpa [Function.comp_def] using ih

/-- an index selection with strictly increasing indices is a sublist: relative order is kept,
nothing is duplicated -/
theorem reduceIds_sublist {α} (l : List α) (ids : List Nat) (h : ids.Pairwise (· < ·)) :
    (reduceIds l ids).Sublist l := by
  have h1 : reduceIds l ids = reduceIds l (ids.filter (· < l.length)) := by
    unfold reduceIds
    induction ids with
    | nil => rfl
    | cons i r ih =>
      have ih' := ih (List.Pairwise.of_cons h)
      by_cases hi : i < l.length
      · simp [List.filter_cons, hi, List.filterMap_cons] at ih' ⊢
        exact ih'
      · have : l[i]? = none := List.getElem?_eq_none_iff.mpr (Nat.le_of_not_lt hi)
        simp [List.filter_cons, hi, List.filterMap_cons, this] at ih' ⊢
        exact ih'
  have h2 : (ids.filter (· < l.length)).Sublist (List.range l.length) := by
    apply List.sublist_of_subperm_of_pairwise (r := (· < ·))
    · apply List.subperm_of_subset
      · exact (h.sublist List.filter_sublist).imp (fun h => Nat.ne_of_lt h)
      · intro x hx
        have := (List.mem_filter.mp hx).2
        exact List.mem_range.mpr (by simpa using this)
    · exact h.sublist List.filter_sublist
    · exact List.pairwise_lt_range
  rw [h1]
  have := List.Sublist.filterMap (fun i => l[i]?) h2
  rw [filterMap_range_getElem?] at this
  exact this

theorem reduceIds_length {α} (l : List α) (ids : List Nat) (h : ∀ i ∈ ids, i < l.length) :
    (reduceIds l ids).length = ids.length := by
  induction ids with
  | nil => rfl
  | cons i r ih =>
    rw [reduceIds_cons]
    have hi := h i (List.mem_cons_self)
    have : l[i]? = some l[i] := List.getElem?_eq_getElem hi
    rw [this]
    simp [ih (fun j hj => h j (List.mem_cons_of_mem _ hj))]

theorem reduceIds_getElem? {α} (l : List α) (ids : List Nat) (h : ∀ i ∈ ids, i < l.length)
    (k : Nat) : (reduceIds l ids)[k]? = (ids[k]?).bind (fun i => l[i]?) := by
  induction ids generalizing k with
  | nil => simp [reduceIds_nil_ids]
  | cons i r ih =>
    rw [reduceIds_cons]
    have hi := h i (List.mem_cons_self)
    have e : l[i]? = some l[i] := List.getElem?_eq_getElem hi
    rw [e]
    cases k with
    | zero => simp [e]
    | succ k =>
      simp only [List.singleton_append, List.getElem?_cons_succ]
      exact ih (fun j hj => h j (List.mem_cons_of_mem _ hj)) k

/-- selecting from three parallel arrays = selecting triples: position, orientation and timestamp
of a kept pose stay together -/
theorem reduceIds_zip3 {α β γ} (a : List α) (b : List β) (c : List γ) (ids : List Nat)
    (hab : a.length = b.length) (hbc : b.length = c.length) :
    reduceIds (List.zip a (List.zip b c)) ids
      = List.zip (reduceIds a ids) (List.zip (reduceIds b ids) (reduceIds c ids)) := by
  induction ids with
  | nil => rfl
  | cons i r ih =>
    rw [reduceIds_cons, reduceIds_cons, reduceIds_cons, reduceIds_cons, ih]
    by_cases hi : i < a.length
    · have h2 : i < b.length := by omega
      have h3 : i < c.length := by omega
      have e1 : a[i]? = some a[i] := List.getElem?_eq_getElem hi
      have e2 : b[i]? = some b[i] := List.getElem?_eq_getElem h2
      have e3 : c[i]? = some c[i] := List.getElem?_eq_getElem h3
      have e4 : (List.zip a (List.zip b c))[i]? = some (a[i], b[i], c[i]) := by
        rw [List.getElem?_eq_getElem (by simp; omega)]
        simp
      rw [e1, e2, e3, e4]
      simp
    · have h1 : a.length ≤ i := Nat.le_of_not_lt hi
      have e1 : a[i]? = none := List.getElem?_eq_none_iff.mpr h1
      have e2 : b[i]? = none := List.getElem?_eq_none_iff.mpr (by omega)
      have e3 : c[i]? = none := List.getElem?_eq_none_iff.mpr (by omega)
      have e4 : (List.zip a (List.zip b c))[i]? = none :=
        List.getElem?_eq_none_iff.mpr (by simp; omega)
      rw [e1, e2, e3, e4]
      simp

/-! ### `idsWhere` (numpy.where) -/

theorem mem_idsWhere (p : Rat → Bool) (l : List Rat) (k c : Nat) :
    c ∈ idsWhere p l k ↔ ∃ j, ∃ (h : j < l.length), c = k + j ∧ p l[j] = true := by
  induction l generalizing k with
  | nil => simp [idsWhere]
  | cons x r ih =>
    unfold idsWhere
    constructor
    · intro hc
      by_cases hp : p x = true
      · simp only [hp, if_true, List.mem_cons] at hc
        rcases hc with rfl | hc
        · exact ⟨0, by simp, rfl, by simpa using hp⟩
        · obtain ⟨j, hj, rfl, hpj⟩ := (ih (k + 1)).mp hc
          exact ⟨j + 1, by simpa using hj, by omega, by simpa using hpj⟩
      · simp only [hp] at hc
        obtain ⟨j, hj, rfl, hpj⟩ := (ih (k + 1)).mp hc
        exact ⟨j + 1, by simpa using hj, by omega, by simpa using hpj⟩
    · rintro ⟨j, hj, rfl, hpj⟩
      cases j with
      | zero =>
        have hp : p x = true := by simpa using hpj
        simp [hp]
      | succ j =>
        have hj' : j < r.length := by simpa using hj
        have : k + (j + 1) ∈ idsWhere p r (k + 1) :=
          (ih (k + 1)).mpr ⟨j, hj', by omega, by simpa using hpj⟩
        by_cases hp : p x = true
        · simp [hp, this]
        · simp [hp, this]

theorem idsWhere_ge (p : Rat → Bool) (l : List Rat) (k : Nat) : ∀ c ∈ idsWhere p l k, k ≤ c := by
  intro c hc
  obtain ⟨j, _, rfl, _⟩ := (mem_idsWhere p l k c).mp hc
  omega

theorem idsWhere_pairwise (p : Rat → Bool) (l : List Rat) (k : Nat) :
    (idsWhere p l k).Pairwise (· < ·) := by
  induction l generalizing k with
  | nil => simp [idsWhere]
  | cons x r ih =>
    unfold idsWhere
    by_cases hp : p x = true
    · simp only [hp, if_true]
      refine List.pairwise_cons.mpr ⟨?_, ih (k + 1)⟩
      intro c hc
      have := idsWhere_ge p r (k + 1) c hc
      omega
    · simp only [hp]
      exact ih (k + 1)

/-! ### cropping -/

theorem cropIds_spec (ts : List Rat) (s e : Option Rat) (ids : List Nat)
    (h : cropIds ts s e = .ok ids) :
    ∃ t0, ts.head? = some t0 ∧
      ids = idsWhere (fun t => decide (s.getD t0 ≤ t) && decide (t ≤ e.getD (ts.getLastD t0))) ts 0 ∧
      s.getD t0 ≤ e.getD (ts.getLastD t0) := by
  unfold cropIds at h
  cases ts with
  | nil => cases h
  | cons t0 r =>
    simp only at h
    split at h
    · cases h
    · rename_i hlt
      injection h with h
      exact ⟨t0, rfl, h.symm, not_lt.mp hlt⟩

/-! ### adjacent differences of accumulated distances -/

theorem adjDiffs_accFrom (a : Rat) (lens : List Rat) : adjDiffs (accFrom a lens) = lens := by
  induction lens generalizing a with
  | nil => simp [accFrom, adjDiffs]
  | cons s r ih =>
    cases r with
    | nil => simp [accFrom, adjDiffs]
    | cons s2 r2 =>
      have := ih (a + s)
      simp only [accFrom, adjDiffs] at this ⊢
      rw [this]
      congr 1
      ring

theorem accFrom_length (a : Rat) (lens : List Rat) : (accFrom a lens).length = lens.length + 1 := by
  induction lens generalizing a with
  | nil => simp [accFrom]
  | cons s r ih => simp [accFrom, ih]

theorem adjDiffs_length (l : List Rat) : (adjDiffs l).length = l.length - 1 := by
  induction l with
  | nil => simp [adjDiffs]
  | cons a r ih =>
    cases r with
    | nil => simp [adjDiffs]
    | cons b r2 =>
      simp only [adjDiffs, List.length_cons] at ih ⊢
      omega

theorem adjDiffs_getElem (l : List Rat) (k : Nat) (h : k + 1 < l.length) :
    (adjDiffs l)[k]'(by rw [adjDiffs_length]; omega) = l[k + 1] - l[k] := by
  induction l generalizing k with
  | nil => simp at h
  | cons a r ih =>
    cases r with
    | nil => simp at h
    | cons b r2 =>
      cases k with
      | zero => simp [adjDiffs]
      | succ k =>
        simp only [adjDiffs, List.getElem_cons_succ]
        exact ih k (by simpa using h)

/-! ### cuts and slices -/

theorem slice_append {α} (l : List α) (a b c : Nat) (hab : a ≤ b) (hbc : b ≤ c) :
    slice l a b ++ slice l b c = slice l a c := by
  unfold slice
  have e : l.take c = l.take b ++ (l.take c).drop b := by
    conv_lhs => rw [← List.take_append_drop b (l.take c)]
    rw [List.take_take, Nat.min_eq_left hbc]
  conv_rhs => rw [e]
  rw [List.drop_append]
  congr 1
  by_cases h : a ≤ (l.take b).length
  · rw [Nat.sub_eq_zero_of_le h, List.drop_zero]
  · have : (l.take c).drop b = [] := by
      apply List.drop_eq_nil_of_le
      simp only [List.length_take] at h ⊢
      omega
    rw [this]; simp

/-- concatenating the slices between consecutive cuts of a non-decreasing cut list gives the
slice between the first and the last cut -/
theorem slices_flatten {α} (l : List α) (a : Nat) (cuts : List Nat)
    (h : (a :: cuts).Pairwise (· ≤ ·)) :
    (slices l (a :: cuts)).flatten = slice l a ((a :: cuts).getLast (by simp)) := by
  induction cuts generalizing a with
  | nil => simp [slices, slice]
  | cons b r ih =>
    have hb : (b :: r).Pairwise (· ≤ ·) := List.Pairwise.of_cons h
    have hab : a ≤ b := (List.pairwise_cons.mp h).1 b (List.mem_cons_self)
    have hlast : b ≤ (b :: r).getLast (by simp) := by
      rcases List.mem_cons.mp (List.getLast_mem (l := b :: r) (by simp)) with e | e
      · rw [e]
      · exact (List.pairwise_cons.mp hb).1 _ e
    simp only [slices, List.flatten_cons]
    have e : (a :: b :: r).getLast (by simp) = (b :: r).getLast (by simp) := List.getLast_cons (by simp)
    rw [ih b hb, e]
    exact slice_append l a b _ hab hlast

theorem slice_zero_length {α} (l : List α) : slice l 0 l.length = l := by
  simp [slice]

theorem mem_cutsOf_interior (thr : Rat) (steps : List Rat) (c : Nat) :
    c ∈ (idsWhere (fun s => decide (thr < s)) steps 0).map (· + 1) ↔
      ∃ k, ∃ (h : k < steps.length), c = k + 1 ∧ thr < steps[k] := by
  constructor
  · intro hc
    obtain ⟨i, hi, rfl⟩ := List.mem_map.mp hc
    obtain ⟨j, hj, rfl, hp⟩ := (mem_idsWhere _ steps 0 i).mp hi
    exact ⟨j, hj, by omega, by simpa using hp⟩
  · rintro ⟨k, hk, rfl, hp⟩
    exact List.mem_map.mpr ⟨k, (mem_idsWhere _ steps 0 k).mpr ⟨k, hk, by omega, by simpa using hp⟩, rfl⟩

/-- the cut list is strictly increasing when `steps` has `n − 1` entries (`n ≥ 1`) -/
theorem cutsOf_pairwise (thr : Rat) (steps : List Rat) (n : Nat) (hn : steps.length < n) :
    (cutsOf thr steps n).Pairwise (· < ·) := by
  unfold cutsOf
  have hi := idsWhere_pairwise (fun s => decide (thr < s)) steps 0
  have hm : ((idsWhere (fun s => decide (thr < s)) steps 0).map (· + 1)).Pairwise (· < ·) :=
    List.pairwise_map.mpr (hi.imp (fun h => by omega))
  refine List.pairwise_cons.mpr ⟨?_, ?_⟩
  · intro c hc
    rcases List.mem_append.mp hc with hc | hc
    · obtain ⟨k, _, rfl, _⟩ := (mem_cutsOf_interior thr steps c).mp hc
      omega
    · simp only [List.mem_singleton] at hc
      omega
  · refine List.pairwise_append.mpr ⟨hm, by simp, ?_⟩
    intro c hc d hd
    obtain ⟨k, hk, rfl, _⟩ := (mem_cutsOf_interior thr steps c).mp hc
    simp only [List.mem_singleton] at hd
    omega

theorem cutsOf_getLast (thr : Rat) (steps : List Rat) (n : Nat) :
    (cutsOf thr steps n).getLast (by simp [cutsOf]) = n := by
  unfold cutsOf
  rw [List.getLast_cons (by simp)]
  simp

/-- consecutive elements of a strictly increasing list have nothing of the list strictly between -/
theorem no_mem_between_consecutive (l : List Nat) (h : l.Pairwise (· < ·)) (a b : Nat)
    (hab : (a, b) ∈ List.zip l l.tail) (c : Nat) (hc : c ∈ l) : ¬ (a < c ∧ c < b) := by
  induction l with
  | nil => simp at hab
  | cons x r ih =>
    cases r with
    | nil => simp at hab
    | cons y r2 =>
      simp only [List.tail_cons, List.zip_cons_cons, List.mem_cons] at hab
      have hx := List.pairwise_cons.mp h
      rcases hab with hab | hab
      · injection hab with e1 e2
        subst e1 e2
        have hy := List.pairwise_cons.mp hx.2
        rcases List.mem_cons.mp hc with rfl | hc
        · omega
        · rcases List.mem_cons.mp hc with rfl | hc
          · omega
          · have := hy.1 c hc
            omega
      · have hab' : (a, b) ∈ List.zip (y :: r2) (y :: r2).tail := by simpa using hab
        rcases List.mem_cons.mp hc with rfl | hc
        · have ha : a ∈ y :: r2 := (List.of_mem_zip hab').1
          have := hx.1 a ha
          omega
        · exact ih hx.2 hab' hc

/-! ### motion filter -/

/-- `p` is the last kept index before `i` -/
def IsLastKeptBefore (ids : List Nat) (p i : Nat) : Prop :=
  p ∈ ids ∧ p < i ∧ ∀ q ∈ ids, q < i → q ≤ p

theorem motionGo_ge (ang : Nat → Nat → Rat) (d a : Rat) (rest : List Rat) (i pid : Nat) (pd : Rat) :
    ∀ c ∈ motionGo ang d a rest i pid pd, i ≤ c ∧ c < i + rest.length := by
  induction rest generalizing i pid pd with
  | nil => simp [motionGo]
  | cons di r ih =>
    intro c hc
    unfold motionGo at hc
    simp only [List.length_cons]
    split_ifs at hc
    · rcases List.mem_cons.mp hc with rfl | hc
      · omega
      · have := ih (i + 1) i di c hc; omega
    · rcases List.mem_cons.mp hc with rfl | hc
      · omega
      · have := ih (i + 1) i di c hc; omega
    · have := ih (i + 1) pid pd c hc; omega

theorem motionGo_pairwise (ang : Nat → Nat → Rat) (d a : Rat) (rest : List Rat) (i pid : Nat) (pd : Rat) :
    (motionGo ang d a rest i pid pd).Pairwise (· < ·) := by
  induction rest generalizing i pid pd with
  | nil => simp [motionGo]
  | cons di r ih =>
    unfold motionGo
    split_ifs
    · refine List.pairwise_cons.mpr ⟨fun c hc => ?_, ih _ _ _⟩
      have := motionGo_ge ang d a r (i + 1) i di c hc; omega
    · refine List.pairwise_cons.mpr ⟨fun c hc => ?_, ih _ _ _⟩
      have := motionGo_ge ang d a r (i + 1) i di c hc; omega
    · exact ih _ _ _

/-- the loop invariant: with `val j` the accumulated distance of pose `j`, `rest` the values from
`i` on and `pd = val pid`, every index `j` in range is kept iff the test against the last index
kept before it succeeds -/
theorem motionGo_spec (ang : Nat → Nat → Rat) (d a : Rat) (val : Nat → Rat)
    (rest : List Rat) (i pid : Nat) (pd : Rat)
    (hval : ∀ k, ∀ (h : k < rest.length), rest[k] = val (i + k)) (hpd : pd = val pid) (hpid : pid < i)
    (j p : Nat) (hj : i ≤ j) (hj2 : j < i + rest.length)
    (hp : IsLastKeptBefore (pid :: motionGo ang d a rest i pid pd) p j) :
    j ∈ motionGo ang d a rest i pid pd ↔ (d ≤ val j - val p ∨ a ≤ ang p j) := by
  induction rest generalizing i pid pd with
  | nil => simp at hj2; omega
  | cons di r ih =>
    have hdi : di = val i := by
      have := hval 0 (Nat.zero_lt_succ _)
      simp only [List.getElem_cons_zero, Nat.add_zero] at this
      exact this
    have hval' : ∀ k, ∀ (h : k < r.length), r[k] = val (i + 1 + k) := by
      intro k hk
      have := hval (k + 1) (by simpa using hk)
      simp only [List.getElem_cons_succ] at this
      rw [this]; congr 1; omega
    obtain ⟨hpm, hplt, hpmax⟩ := hp
    by_cases hji : j = i
    · -- the current index: the last kept before it is `pid`
      subst hji
      have hpp : p = pid := by
        rcases List.mem_cons.mp hpm with h | h
        · exact h
        · have := (motionGo_ge ang d a (di :: r) j pid pd p h).1; omega
      subst hpp
      unfold motionGo
      rw [hdi, hpd]
      split_ifs with h1 h2
      · simp [h1]
      · simp [h2]
      · have hnot : j ∉ motionGo ang d a r (j + 1) p (val p) := by
          intro hm
          have := (motionGo_ge ang d a r (j + 1) p (val p) j hm).1; omega
        simp [h1, h2, hnot]
    · have hj' : i + 1 ≤ j := by omega
      have hj2' : j < i + 1 + r.length := by simp only [List.length_cons] at hj2; omega
      unfold motionGo at hpm hpmax ⊢
      rw [hdi, hpd] at hpm hpmax ⊢
      split_ifs at hpm hpmax ⊢ with h1 h2
      · have hlast : IsLastKeptBefore (i :: motionGo ang d a r (i + 1) i (val i)) p j := by
          refine ⟨?_, hplt, ?_⟩
          · rcases List.mem_cons.mp hpm with h | h
            · have := hpmax i (by simp) (by omega); omega
            · exact h
          · intro q hq hqj
            exact hpmax q (List.mem_cons_of_mem _ hq) hqj
        have := ih (i + 1) i (val i) hval' rfl (by omega) hj' hj2' hlast
        rw [List.mem_cons]
        constructor
        · rintro (h | h)
          · omega
          · exact this.mp h
        · intro h; exact Or.inr (this.mpr h)
      · have hlast : IsLastKeptBefore (i :: motionGo ang d a r (i + 1) i (val i)) p j := by
          refine ⟨?_, hplt, ?_⟩
          · rcases List.mem_cons.mp hpm with h | h
            · have := hpmax i (by simp) (by omega); omega
            · exact h
          · intro q hq hqj
            exact hpmax q (List.mem_cons_of_mem _ hq) hqj
        have := ih (i + 1) i (val i) hval' rfl (by omega) hj' hj2' hlast
        rw [List.mem_cons]
        constructor
        · rintro (h | h)
          · omega
          · exact this.mp h
        · intro h; exact Or.inr (this.mpr h)
      · exact ih (i + 1) pid (val pid) hval' rfl (by omega) hj' hj2' ⟨hpm, hplt, hpmax⟩

/-! ### stable argsort -/

theorem le_trans_dec (a b c : Rat × Nat) :
    decide (a.1 ≤ b.1) = true → decide (b.1 ≤ c.1) = true → decide (a.1 ≤ c.1) = true := by
  simp only [decide_eq_true_eq]
  exact le_trans

theorem le_total_dec (a b : Rat × Nat) : (decide (a.1 ≤ b.1) || decide (b.1 ≤ a.1)) = true := by
  simp only [Bool.or_eq_true, decide_eq_true_eq]
  exact le_total _ _

theorem zipIdx_map_snd {α} (l : List α) (k : Nat) : (l.zipIdx k).map (·.2) = List.range' k l.length := by
  induction l generalizing k with
  | nil => rfl
  | cons x r ih => simp [List.zipIdx_cons, ih, List.range'_succ]

theorem argsortStable_perm (s : List Rat) : (argsortStable s).Perm (List.range s.length) := by
  unfold argsortStable
  have h := (List.mergeSort_perm (s.zipIdx) (fun a b => decide (a.1 ≤ b.1))).map (·.2)
  rw [zipIdx_map_snd, ← List.range_eq_range'] at h
  exact h

theorem argsortStable_lt (s : List Rat) : ∀ i ∈ argsortStable s, i < s.length := by
  intro i hi
  exact List.mem_range.mp ((argsortStable_perm s).mem_iff.mp hi)

theorem mem_zipIdx_getElem? {α} (l : List α) (x : α) (i : Nat) (h : (x, i) ∈ l.zipIdx) : l[i]? = some x := by
  have := List.mem_zipIdx_iff_getElem?.mp h
  simpa using this

/-- applying the order to the stamps gives the stamps of the sorted (stamp, index) pairs -/
theorem reduceIds_argsort (s : List Rat) :
    reduceIds s (argsortStable s)
      = (s.zipIdx.mergeSort (fun a b => decide (a.1 ≤ b.1))).map (·.1) := by
  unfold argsortStable reduceIds
  rw [List.filterMap_map]
  rw [← List.filterMap_eq_map]
  apply List.filterMap_congr
  intro p hp
  have hp' : p ∈ s.zipIdx := List.mem_mergeSort.mp hp
  have := mem_zipIdx_getElem? s p.1 p.2 hp'
  simpa using this

theorem argsort_sorted (s : List Rat) : (reduceIds s (argsortStable s)).Pairwise (· ≤ ·) := by
  rw [reduceIds_argsort]
  have h := List.pairwise_mergeSort (le := fun (a b : Rat × Nat) => decide (a.1 ≤ b.1))
    le_trans_dec le_total_dec s.zipIdx
  exact List.pairwise_map.mpr (h.imp (fun h => by simpa using h))


/-! ### `numpy.linspace` ids: integer envelope -/

/-- the envelope of ids that any correctly rounded evaluation of `⌊k·(a/b)⌋` can produce
(`a = n − 1`, `b = N − 1`): the exact floor, or one below it where `k·a/b` is an integer although
`a/b` is not -/
def InEnvelope (a b k i : Nat) : Prop :=
  i = k * a / b ∨ (b ∣ k * a ∧ ¬ b ∣ a ∧ i + 1 = k * a / b)

theorem envelope_zero (a b i : Nat) (h : InEnvelope a b 0 i) : i = 0 := by
  rcases h with h | ⟨_, _, h⟩
  · simpa using h
  · simp at h

/-- `|id_k − k·a/b| ≤ 1`, in integers: `id·b ≤ k·a ≤ (id+1)·b` -/
theorem envelope_dev (a b k i : Nat) (hb : 0 < b) (h : InEnvelope a b k i) :
    i * b ≤ k * a ∧ k * a ≤ (i + 1) * b := by
  have h1 := Nat.div_mul_le_self (k * a) b
  have h2 := Nat.lt_div_mul_add (a := k * a) hb
  rcases h with h | ⟨hd, _, h⟩
  · subst h
    refine ⟨h1, ?_⟩
    rw [Nat.add_mul, Nat.one_mul]; exact Nat.le_of_lt h2
  · have hqb : k * a / b * b = k * a := Nat.div_mul_cancel hd
    have hle : i * b ≤ (i + 1) * b := Nat.mul_le_mul_right b (Nat.le_succ i)
    rw [h, hqb] at hle
    refine ⟨hle, ?_⟩
    rw [h, hqb]

/-- consecutive members of the envelope differ by `⌊a/b⌋` or `⌈a/b⌉` -/
theorem envelope_gap (a b k i j : Nat) (hb : 0 < b)
    (hi : InEnvelope a b k i) (hj : InEnvelope a b (k + 1) j) :
    i + a / b ≤ j ∧ j ≤ i + a / b + (if b ∣ a then 0 else 1) := by
  have hx : (k + 1) * a = k * a + a := by rw [Nat.add_mul, Nat.one_mul]
  have hdiv := Nat.add_div (a := k * a) (b := a) hb
  have hmod := Nat.add_mod (k * a) a b
  have hrx := Nat.mod_lt (k * a) hb
  have hra := Nat.mod_lt a hb
  unfold InEnvelope at hi hj
  rw [hx] at hj
  simp only [Nat.dvd_iff_mod_eq_zero] at hi hj ⊢
  generalize k * a / b = qx at *
  generalize (k * a + a) / b = qs at *
  generalize k * a % b = rx at *
  generalize (k * a + a) % b = rs at *
  generalize a / b = qa at *
  generalize a % b = ra at *
  by_cases hc : b ≤ rx + ra
  · rw [if_pos hc] at hdiv
    have hrs : rs = rx + ra - b := by
      rw [hmod, Nat.mod_eq_sub_mod hc, Nat.mod_eq_of_lt (by omega)]
    split_ifs <;> omega
  · rw [if_neg hc] at hdiv
    have hrs : rs = rx + ra := by
      rw [hmod, Nat.mod_eq_of_lt (by omega)]
    split_ifs <;> omega

/-! ### `numpy.linspace` ids: from the rounding error bound to the envelope -/

/-- what the down-sampling theorems need to know about the binary64 rounding function
(both are standard facts about round-to-nearest; they are *hypotheses* here, see the header) -/
structure F64Rounding (r : Rat → Rat) : Prop where
  rel_err : ∀ x : Rat, 1 / 2 ≤ x → x ≤ 2 ^ 53 → |r x - x| ≤ x / 2 ^ 53
  exact_nat : ∀ m : Nat, m < 2 ^ 53 → r (m : Rat) = (m : Rat)

theorem floorNat_natCast (m : Nat) : floorNat (m : Rat) = m := by
  unfold floorNat
  have : Rat.floor (m : Rat) = (m : Int) := by
    have : (⌊(m : ℚ)⌋ : ℤ) = m := Int.floor_natCast m
    exact this
  rw [this]; rfl

theorem floorNat_eq (z : Rat) (q : Nat) (h1 : (q : Rat) ≤ z) (h2 : z < q + 1) : floorNat z = q := by
  unfold floorNat
  have : Rat.floor z = (q : Int) := by
    have : (⌊z⌋ : ℤ) = (q : ℤ) := Int.floor_eq_iff.mpr ⟨by exact_mod_cast h1, by exact_mod_cast h2⟩
    exact this
  rw [this]; rfl

/-- the error analysis in plain field arithmetic: `st ≈ s`, `y = k·st`, `z ≈ y` -/
theorem close_core (s st y z X u k a b : ℚ) (hu : u = 1 / 2 ^ 53) (hk1 : 1 ≤ k) (hs1 : 1 ≤ s)
    (hX : X = k * s) (hXa : X ≤ a) (ha : 3 * a * b < 2 ^ 53) (hb : 1 ≤ b)
    (e1 : |st - s| ≤ s * u) (hy : y = k * st)
    (e2 : 1 / 2 ≤ y → y ≤ 2 ^ 53 → |z - y| ≤ y * u) : |z - X| < 1 / b := by
  have hbpos : (0 : ℚ) < b := by linarith
  have hupos : 0 < u := by rw [hu]; positivity
  have hu1 : u ≤ 1 / 2 := by rw [hu]; norm_num
  have hX1 : 1 ≤ X := by
    rw [hX]
    calc (1 : ℚ) = 1 * 1 := by ring
      _ ≤ k * s := mul_le_mul hk1 hs1 (by norm_num) (by linarith)
  have hXpos : 0 < X := by linarith
  have hapos : 0 < a := by linarith
  have ha3 : 3 * a < 2 ^ 53 := by nlinarith
  have hyX : |y - X| ≤ X * u := by
    have : y - X = k * (st - s) := by rw [hX, hy]; ring
    rw [this, abs_mul, abs_of_nonneg (by linarith : (0 : ℚ) ≤ k)]
    calc k * |st - s| ≤ k * (s * u) := mul_le_mul_of_nonneg_left e1 (by linarith)
      _ = X * u := by rw [hX]; ring
  obtain ⟨hyl, hyu⟩ := abs_le.mp hyX
  have hXu : X * u ≤ X * (1 / 2) := mul_le_mul_of_nonneg_left hu1 hXpos.le
  have hy_lo : 1 / 2 ≤ y := by linarith
  have hy_hi : y ≤ 2 ^ 53 := by linarith
  have e2' := e2 hy_lo hy_hi
  have hyle : y ≤ X * (1 + u) := by linarith
  have e2'' : |z - y| ≤ X * (1 + u) * u := e2'.trans (mul_le_mul_of_nonneg_right hyle hupos.le)
  have tri : |z - X| ≤ |z - y| + |y - X| := by
    have := abs_add_le (z - y) (y - X)
    simpa using this
  have hXu0 : 0 ≤ X * u := by positivity
  have hXuu : X * u * u ≤ X * u * (1 / 2) := mul_le_mul_of_nonneg_left hu1 hXu0
  have hsum : |z - X| ≤ 3 * X * u := by nlinarith
  have hfin : 3 * X * u < 1 / b := by
    rw [lt_div_iff₀ hbpos, hu]
    have hp : (0 : ℚ) ≤ (1 / 2 ^ 53) * b := by positivity
    have h1 : 3 * X * (1 / 2 ^ 53) * b ≤ 3 * a * (1 / 2 ^ 53) * b := by nlinarith
    have h2 : 3 * a * (1 / 2 ^ 53) * b = (3 * a * b) / 2 ^ 53 := by ring
    have h3 : (3 * a * b) / 2 ^ 53 < 1 := by
      rw [div_lt_one (by positivity)]; exact ha
    linarith
  exact lt_of_le_of_lt hsum hfin

/-- the two rounded operations of `linspace` stay within `1/b` of the exact value `k·a/b` -/
theorem linspace_round_close (r : Rat → Rat) (hr : F64Rounding r) (a b k : Nat)
    (hb : 1 ≤ b) (hba : b < a) (hk : 1 ≤ k) (hkb : k < b) (hsz : 3 * a * b < 2 ^ 53) :
    |r ((k : Rat) * r ((a : Rat) / (b : Rat))) - (k : Rat) * ((a : Rat) / (b : Rat))| < 1 / (b : Rat) := by
  have hbQ : (1 : ℚ) ≤ (b : ℚ) := by exact_mod_cast hb
  have hbpos : (0 : ℚ) < (b : ℚ) := by linarith
  have hbaQ : (b : ℚ) < (a : ℚ) := by exact_mod_cast hba
  have hkQ : (1 : ℚ) ≤ (k : ℚ) := by exact_mod_cast hk
  have hkbQ : (k : ℚ) < (b : ℚ) := by exact_mod_cast hkb
  have hszQ : (3 : ℚ) * a * b < 2 ^ 53 := by exact_mod_cast hsz
  have hapos : (0 : ℚ) ≤ a := by linarith
  have hs1 : (1 : ℚ) ≤ (a : ℚ) / (b : ℚ) := by rw [le_div_iff₀ hbpos]; linarith
  have hsa : (a : ℚ) / (b : ℚ) ≤ a := by rw [div_le_iff₀ hbpos]; nlinarith
  have ha3 : (3 : ℚ) * a < 2 ^ 53 := by nlinarith
  have e1 := hr.rel_err ((a : ℚ) / (b : ℚ)) (by linarith) (by linarith)
  have hXa : (k : ℚ) * ((a : ℚ) / (b : ℚ)) ≤ a := by
    rw [← mul_div_assoc, div_le_iff₀ hbpos]; nlinarith
  refine close_core ((a : ℚ) / (b : ℚ)) (r ((a : ℚ) / (b : ℚ))) _ _ _ (1 / 2 ^ 53) k a b rfl hkQ hs1 rfl hXa
    hszQ hbQ ?_ rfl ?_
  · rw [mul_one_div]; exact e1
  · intro h1 h2
    rw [mul_one_div]; exact hr.rel_err _ h1 h2

/-- every id that `linspace` computes with a correctly rounding `r` lies in the envelope -/
theorem linspace_id_in_envelope (r : Rat → Rat) (hr : F64Rounding r) (a b k : Nat)
    (hb : 1 ≤ b) (hba : b < a) (hkb : k < b) (hsz : 3 * a * b < 2 ^ 53) :
    InEnvelope a b k (floorNat (r ((k : Rat) * r ((a : Rat) / (b : Rat))))) := by
  have hbQ : (1 : ℚ) ≤ (b : ℚ) := by exact_mod_cast hb
  have hbpos : (0 : ℚ) < (b : ℚ) := by linarith
  have ha53 : a < 2 ^ 53 := by nlinarith
  by_cases hdvd : b ∣ a
  · -- integer step: everything is exact
    obtain ⟨m, rfl⟩ := hdvd
    have e1 : ((b * m : Nat) : ℚ) / (b : ℚ) = (m : ℚ) := by
      push_cast; field_simp
    have hm53 : m < 2 ^ 53 := by nlinarith
    have hkm : k * m < 2 ^ 53 := by nlinarith
    rw [e1, hr.exact_nat m hm53]
    have e2 : (k : ℚ) * (m : ℚ) = ((k * m : Nat) : ℚ) := by push_cast; ring
    rw [e2, hr.exact_nat _ hkm, floorNat_natCast]
    left
    have : k * (b * m) = b * (k * m) := by ring
    rw [this, Nat.mul_div_cancel_left _ (by omega)]
  · rcases Nat.eq_zero_or_pos k with rfl | hk
    · left
      have : ((0 : Nat) : ℚ) * r ((a : ℚ) / (b : ℚ)) = ((0 : Nat) : ℚ) := by simp
      rw [this, hr.exact_nat 0 (by norm_num), floorNat_natCast]
      simp
    · have hclose := linspace_round_close r hr a b k hb hba hk hkb hsz
      obtain ⟨hl, hu⟩ := abs_lt.mp hclose
      set z : ℚ := r ((k : ℚ) * r ((a : ℚ) / (b : ℚ))) with hz
      -- k*a = b*q + ρ
      have hdm := Nat.div_add_mod (k * a) b
      set q := k * a / b with hq
      set ρ := k * a % b with hρ
      have hρlt : ρ < b := Nat.mod_lt _ (by omega)
      have hXeq : (k : ℚ) * ((a : ℚ) / (b : ℚ)) = (q : ℚ) + (ρ : ℚ) / (b : ℚ) := by
        have : ((k * a : Nat) : ℚ) = ((b * q + ρ : Nat) : ℚ) := by rw [hdm]
        push_cast at this
        field_simp
        linarith
      rw [hXeq] at hl hu
      have hinv : 1 / (b : ℚ) ≤ 1 := by rw [div_le_one hbpos]; exact hbQ
      by_cases hρ0 : ρ = 0
      · -- k*a/b is an integer
        have hdv : b ∣ k * a := Nat.dvd_of_mod_eq_zero hρ0
        rw [hρ0] at hl hu
        simp only [Nat.cast_zero, zero_div, add_zero] at hl hu
        have hqpos : 1 ≤ q := by
          rw [hq]
          apply (Nat.one_le_div_iff (by omega)).mpr
          nlinarith
        by_cases hzq : (q : ℚ) ≤ z
        · left
          exact floorNat_eq z q hzq (by linarith)
        · right
          refine ⟨hdv, hdvd, ?_⟩
          have hzq' : z < q := not_le.mp hzq
          have : floorNat z = q - 1 := by
            apply floorNat_eq
            · have : ((q - 1 : Nat) : ℚ) = (q : ℚ) - 1 := by
                rw [Nat.cast_sub hqpos]; simp
              rw [this]; linarith
            · have : ((q - 1 : Nat) : ℚ) = (q : ℚ) - 1 := by
                rw [Nat.cast_sub hqpos]; simp
              rw [this]; linarith
          rw [this]; omega
      · left
        have hρ1 : (1 : ℚ) ≤ (ρ : ℚ) := by exact_mod_cast Nat.one_le_iff_ne_zero.mpr hρ0
        have hρb : (ρ : ℚ) + 1 ≤ (b : ℚ) := by exact_mod_cast hρlt
        have hA : 1 / (b : ℚ) ≤ (ρ : ℚ) / (b : ℚ) := by
          rw [div_le_div_iff_of_pos_right hbpos]; exact hρ1
        have hB : (ρ : ℚ) / (b : ℚ) + 1 / (b : ℚ) ≤ 1 := by
          rw [← add_div, div_le_one hbpos]; exact hρb
        apply floorNat_eq z q
        · linarith
        · linarith

/-! ### the list `linspaceIdsWith` -/

theorem linspaceIdsWith_length (r : Rat → Rat) (n N : Nat) : (linspaceIdsWith r n N).length = N := by
  unfold linspaceIdsWith
  by_cases h0 : N = 0
  · simp [h0]
  · by_cases h1 : N = 1
    · simp [h1]
    · simp only [h0, h1, if_false, List.length_append, List.length_map, List.length_range,
        List.length_singleton]
      omega

theorem linspaceIdsWith_last (r : Rat → Rat) (n N : Nat) (hN : 2 ≤ N) :
    (linspaceIdsWith r n N)[N - 1]? = some (n - 1) := by
  unfold linspaceIdsWith
  have h0 : N ≠ 0 := by omega
  have h1 : N ≠ 1 := by omega
  simp only [h0, h1, if_false]
  rw [List.getElem?_append_right (by simp)]
  simp

theorem linspaceIdsWith_lt (r : Rat → Rat) (n N k : Nat) (hN : 2 ≤ N) (hk : k < N - 1) :
    (linspaceIdsWith r n N)[k]? =
      some (floorNat (r ((k : Rat) * r (((n - 1 : Nat) : Rat) / ((N - 1 : Nat) : Rat))))) := by
  unfold linspaceIdsWith
  have h0 : N ≠ 0 := by omega
  have h1 : N ≠ 1 := by omega
  simp only [h0, h1, if_false]
  rw [List.getElem?_append_left (by simpa using hk)]
  simp [hk]

/-- all ids lie in the envelope; the last one is exact -/
theorem linspaceIdsWith_envelope (r : Rat → Rat) (hr : F64Rounding r) (n N : Nat)
    (hN : 2 ≤ N) (hNn : N < n) (hsz : 3 * (n - 1) * (N - 1) < 2 ^ 53) (k i : Nat)
    (hk : (linspaceIdsWith r n N)[k]? = some i) : InEnvelope (n - 1) (N - 1) k i := by
  have hlen := linspaceIdsWith_length r n N
  have hkN : k < N := by
    have := (List.getElem?_eq_some_iff.mp hk).1
    omega
  by_cases hk1 : k < N - 1
  · rw [linspaceIdsWith_lt r n N k hN hk1] at hk
    injection hk with hk
    rw [← hk]
    exact linspace_id_in_envelope r hr (n - 1) (N - 1) k (by omega) (by omega) hk1 hsz
  · have : k = N - 1 := by omega
    subst this
    rw [linspaceIdsWith_last r n N hN] at hk
    injection hk with hk
    left
    rw [← hk, Nat.mul_div_cancel_left _ (by omega)]

end Evo.Select
