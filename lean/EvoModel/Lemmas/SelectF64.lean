/-
Discharges the rounding hypothesis of the C11 down-sampling theorems for evo's actual rounding:
`F64Rounding Evo.F64.rne!`, from the specification lemmas of `Lemmas/F64.lean` (C06/C07:
`ilog2_spec`, `rnePos_spec`, `rne_nearest`). Nothing about `rne` is assumed here.
-/
import EvoModel.Lemmas.Select
import EvoModel.Lemmas.F64
namespace Evo.Select
open Evo.F64

theorem rne_of_nonneg (x : ℚ) (hx : 0 ≤ x) : rne x = rnePos x.num.natAbs x.den := by
  unfold rne
  simp [not_lt.mpr hx]

theorem zpow_two_lt_imp {a b : ℤ} (h : (2 : ℚ) ^ a < (2 : ℚ) ^ b) : a < b :=
  (zpow_lt_zpow_iff_right₀ (by norm_num : (1 : ℚ) < 2)).mp h

/-- for `1/2 ≤ x ≤ 2⁵³` the executable rounding returns `m·2^(lg−52)` with `2^lg ≤ x` and
`|x/2^(lg−52) − m| ≤ 1/2` -/
theorem rne_spec_range (x : ℚ) (h1 : 1 / 2 ≤ x) (h2 : x ≤ 2 ^ 53) :
    ∃ (lg : ℤ) (m : ℕ), (2 : ℚ) ^ lg ≤ x ∧ x < (2 : ℚ) ^ (lg + 1) ∧ -1 ≤ lg ∧ lg ≤ 53 ∧
      |x / (2 : ℚ) ^ (lg - 52) - m| ≤ 1 / 2 ∧ rne x = some ((m : ℚ) * (2 : ℚ) ^ (lg - 52)) := by
  have hx0 : 0 < x := by linarith
  have hq : 0 < x.den := x.den_pos
  have hp : 0 < x.num.natAbs := by
    have : x.num ≠ 0 := by
      intro h0; rw [Rat.num_eq_zero] at h0; rw [h0] at hx0; exact lt_irrefl _ hx0
    exact Int.natAbs_pos.mpr this
  have habs := abs_eq_natAbs_div x
  rw [abs_of_pos hx0] at habs
  obtain ⟨hl, hu⟩ := ilog2_spec _ _ hp hq
  obtain ⟨m, hm, hspec⟩ := rnePos_spec _ _ hp hq
  rw [← habs] at hl hu hm
  set lg := ilog2 x.num.natAbs x.den with hlg
  have hlo : -1 ≤ lg := by
    have : (2 : ℚ) ^ (-1 : ℤ) < (2 : ℚ) ^ (lg + 1) := by
      have : (2 : ℚ) ^ (-1 : ℤ) = 1 / 2 := by norm_num
      rw [this]; linarith
    have := zpow_two_lt_imp this
    omega
  have hhi : lg ≤ 53 := by
    have : (2 : ℚ) ^ lg < (2 : ℚ) ^ (54 : ℤ) := by
      have : (2 : ℚ) ^ (54 : ℤ) = 2 ^ 54 := by norm_cast
      rw [this]
      have : (2 : ℚ) ^ 53 < 2 ^ 54 := by norm_num
      linarith
    have := zpow_two_lt_imp this
    omega
  have he : max (lg - 52) (-1074) = lg - 52 := by omega
  rw [he] at hm hspec
  have hno : ¬ (lg - 52 + 53 > 1024 ∨ (lg - 52 + 53 = 1024 ∧ m ≥ 2 ^ 53)) := by omega
  rw [if_neg hno] at hspec
  exact ⟨lg, m, hl, hu, hlo, hhi, hm, by rw [rne_of_nonneg x hx0.le]; exact hspec⟩

theorem rne_rel_err (x : ℚ) (h1 : 1 / 2 ≤ x) (h2 : x ≤ 2 ^ 53) : |rne! x - x| ≤ x / 2 ^ 53 := by
  obtain ⟨lg, m, hl, _, _, _, hm, hr⟩ := rne_spec_range x h1 h2
  unfold rne!
  rw [hr]
  simp only [Option.getD_some]
  have hpos : (0 : ℚ) < (2 : ℚ) ^ (lg - 52) := two_zpow_pos _
  have e1 : (m : ℚ) * (2 : ℚ) ^ (lg - 52) - x = -((x / (2 : ℚ) ^ (lg - 52) - m) * (2 : ℚ) ^ (lg - 52)) := by
    field_simp; ring
  rw [e1, abs_neg, abs_mul, abs_of_pos hpos]
  have e2 : (2 : ℚ) ^ (lg - 52) = (2 : ℚ) ^ lg / 2 ^ 52 := by
    rw [zpow_sub₀ two_ne]; norm_cast
  calc |x / (2 : ℚ) ^ (lg - 52) - m| * (2 : ℚ) ^ (lg - 52)
      ≤ 1 / 2 * (2 : ℚ) ^ (lg - 52) := mul_le_mul_of_nonneg_right hm hpos.le
    _ = (2 : ℚ) ^ lg / 2 ^ 53 := by rw [e2]; ring
    _ ≤ x / 2 ^ 53 := by
        apply div_le_div_of_nonneg_right hl; positivity

theorem isF64_nat (m : ℕ) (h : m < 2 ^ 53) : IsF64 (m : ℚ) := by
  refine ⟨(m : ℤ), 0, ?_, by norm_num, by norm_num, by simp⟩
  rw [abs_of_nonneg (by positivity)]
  exact_mod_cast h

theorem rne_exact_nat (m : ℕ) (h : m < 2 ^ 53) : rne! (m : ℚ) = (m : ℚ) := by
  rcases Nat.eq_zero_or_pos m with rfl | hpos
  · unfold rne!
    rw [rne_of_nonneg _ (by simp)]
    simp [rnePos_zero]
  · have h1 : (1 : ℚ) / 2 ≤ (m : ℚ) := by
      have : (1 : ℚ) ≤ (m : ℚ) := by exact_mod_cast hpos
      linarith
    have h2 : (m : ℚ) ≤ 2 ^ 53 := by exact_mod_cast h.le
    obtain ⟨lg, k, _, _, _, _, _, hr⟩ := rne_spec_range (m : ℚ) h1 h2
    have hn := rne_nearest _ _ hr
    have := hn.2 (m : ℚ) (isF64_nat m h)
    simp only [sub_self, abs_zero] at this
    have heq : (m : ℚ) - (k : ℚ) * (2 : ℚ) ^ (lg - 52) = 0 := abs_nonpos_iff.mp this
    unfold rne!
    rw [hr]
    simp only [Option.getD_some]
    linarith

/-- evo's binary64 rounding has the two properties the down-sampling theorems use -/
theorem f64Rounding_rne : F64Rounding F64.rne! := ⟨rne_rel_err, rne_exact_nat⟩

end Evo.Select
