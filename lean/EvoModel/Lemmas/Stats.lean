/-
Helper lemmas about `Model/Stats.lean` over ℚ (an ordered field): sums, extremal values,
the sorted list behind the median, the variance decomposition.
-/
import EvoModel.Model.Stats
import Mathlib.Algebra.Order.Ring.Rat
import Mathlib.Algebra.Order.Field.Basic
import Mathlib.Tactic.Linarith
import Mathlib.Tactic.Ring
import Mathlib.Tactic.FieldSimp
import Mathlib.Tactic.Positivity
namespace Evo.Stats
open Evo

/-! ### sums -/

@[simp] theorem sum_nil : sum [] = 0 := rfl
@[simp] theorem sum_cons (x : Rat) (l : List Rat) : sum (x :: l) = x + sum l := rfl

theorem sum_ge_of_forall_ge (a : Rat) (l : List Rat) (h : ∀ x ∈ l, a ≤ x) :
    a * (l.length : Rat) ≤ sum l := by
  induction l with
  | nil => simp
  | cons x r ih =>
    have hx := h x (by simp)
    have hr := ih (fun y hy => h y (by simp [hy]))
    simp only [List.length_cons, sum_cons, Nat.cast_add, Nat.cast_one]
    linarith

theorem sum_le_of_forall_le (a : Rat) (l : List Rat) (h : ∀ x ∈ l, x ≤ a) :
    sum l ≤ a * (l.length : Rat) := by
  induction l with
  | nil => simp
  | cons x r ih =>
    have hx := h x (by simp)
    have hr := ih (fun y hy => h y (by simp [hy]))
    simp only [List.length_cons, sum_cons, Nat.cast_add, Nat.cast_one]
    linarith

theorem sum_nonneg (l : List Rat) (h : ∀ x ∈ l, 0 ≤ x) : 0 ≤ sum l := by
  have := sum_ge_of_forall_ge 0 l h
  simpa using this

theorem length_pos_cast {l : List Rat} (h : l ≠ []) : (0 : Rat) < (l.length : Rat) := by
  have : 0 < l.length := List.length_pos_of_ne_nil h
  exact_mod_cast this

/-- `Σ (x − m)² = Σ x² − 2 m Σ x + n m²` -/
theorem sum_sq_dev (m : Rat) (l : List Rat) :
    sum ((l.map fun x => x - m).map fun x => x * x) = sse l - 2 * m * sum l + (l.length : Rat) * (m * m) := by
  induction l with
  | nil => simp [sse]
  | cons x r ih =>
    simp only [List.map_cons, sum_cons, List.length_cons, Nat.cast_add, Nat.cast_one, sse] at ih ⊢
    rw [ih]; ring

theorem sse_nonneg (l : List Rat) : 0 ≤ sse l := by
  unfold sse
  apply sum_nonneg
  intro y hy
  obtain ⟨x, _, rfl⟩ := List.mem_map.mp hy
  exact mul_self_nonneg x

theorem meanSq_nonneg (l : List Rat) : 0 ≤ meanSq l := by
  unfold meanSq
  exact div_nonneg (sse_nonneg l) (Nat.cast_nonneg _)

theorem var_nonneg (l : List Rat) : 0 ≤ var l := by
  unfold var
  exact meanSq_nonneg _

/-! ### extremal values -/

theorem minFrom_le_init (m : Rat) (l : List Rat) : minFrom m l ≤ m := by
  induction l generalizing m with
  | nil => exact le_refl _
  | cons y r ih =>
    unfold minFrom
    split
    · next h => exact le_trans (ih y) (le_of_lt h)
    · exact ih m

theorem minFrom_le_mem (m : Rat) (l : List Rat) : ∀ y ∈ l, minFrom m l ≤ y := by
  induction l generalizing m with
  | nil => intro y hy; simp at hy
  | cons z r ih =>
    intro y hy
    unfold minFrom
    rcases List.mem_cons.mp hy with rfl | hy
    · split
      · exact minFrom_le_init _ _
      · next h => exact le_trans (minFrom_le_init _ _) (not_lt.mp h)
    · exact ih _ y hy

theorem minFrom_mem (m : Rat) (l : List Rat) : minFrom m l = m ∨ minFrom m l ∈ l := by
  induction l generalizing m with
  | nil => left; rfl
  | cons z r ih =>
    unfold minFrom
    split
    · rcases ih z with h | h
      · right; rw [h]; simp
      · right; simp [h]
    · rcases ih m with h | h
      · left; exact h
      · right; simp [h]

theorem maxFrom_ge_init (m : Rat) (l : List Rat) : m ≤ maxFrom m l := by
  induction l generalizing m with
  | nil => exact le_refl _
  | cons y r ih =>
    unfold maxFrom
    split
    · next h => exact le_trans (le_of_lt h) (ih y)
    · exact ih m

theorem maxFrom_ge_mem (m : Rat) (l : List Rat) : ∀ y ∈ l, y ≤ maxFrom m l := by
  induction l generalizing m with
  | nil => intro y hy; simp at hy
  | cons z r ih =>
    intro y hy
    unfold maxFrom
    rcases List.mem_cons.mp hy with rfl | hy
    · split
      · exact maxFrom_ge_init _ _
      · next h => exact le_trans (not_lt.mp h) (maxFrom_ge_init _ _)
    · exact ih _ y hy

theorem maxFrom_mem (m : Rat) (l : List Rat) : maxFrom m l = m ∨ maxFrom m l ∈ l := by
  induction l generalizing m with
  | nil => left; rfl
  | cons z r ih =>
    unfold maxFrom
    split
    · rcases ih z with h | h
      · right; rw [h]; simp
      · right; simp [h]
    · rcases ih m with h | h
      · left; exact h
      · right; simp [h]

theorem minL_le {l : List Rat} {x : Rat} (hx : x ∈ l) : minL l ≤ x := by
  cases l with
  | nil => simp at hx
  | cons a r =>
    rcases List.mem_cons.mp hx with rfl | h
    · exact minFrom_le_init _ _
    · exact minFrom_le_mem _ _ _ h

theorem le_maxL {l : List Rat} {x : Rat} (hx : x ∈ l) : x ≤ maxL l := by
  cases l with
  | nil => simp at hx
  | cons a r =>
    rcases List.mem_cons.mp hx with rfl | h
    · exact maxFrom_ge_init _ _
    · exact maxFrom_ge_mem _ _ _ h

theorem minL_mem {l : List Rat} (h : l ≠ []) : minL l ∈ l := by
  cases l with
  | nil => exact absurd rfl h
  | cons a r =>
    rcases minFrom_mem a r with e | e
    · show minFrom a r ∈ a :: r
      rw [e]; simp
    · exact List.mem_cons_of_mem _ e

theorem maxL_mem {l : List Rat} (h : l ≠ []) : maxL l ∈ l := by
  cases l with
  | nil => exact absurd rfl h
  | cons a r =>
    rcases maxFrom_mem a r with e | e
    · show maxFrom a r ∈ a :: r
      rw [e]; simp
    · exact List.mem_cons_of_mem _ e

/-! ### the sorted list -/

theorem sort_perm (l : List Rat) : (sort l).Perm l := List.mergeSort_perm l _

theorem sort_length (l : List Rat) : (sort l).length = l.length := (sort_perm l).length_eq

theorem mem_sort {l : List Rat} {x : Rat} : x ∈ sort l ↔ x ∈ l := (sort_perm l).mem_iff

theorem sort_sorted (l : List Rat) : (sort l).Pairwise (· ≤ ·) := by
  have h := List.pairwise_mergeSort (le := fun a b : Rat => decide (a ≤ b))
    (fun a b c hab hbc => by
      simp only [decide_eq_true_eq] at hab hbc ⊢
      exact le_trans hab hbc)
    (fun a b => by
      simp only [Bool.or_eq_true, decide_eq_true_eq]
      exact le_total a b) l
  exact h.imp (fun hab => by simpa using hab)

/-- `sort l` is *the* sorted permutation of `l` (whatever algorithm numpy uses) -/
theorem sort_eq_of_sorted_perm {l s : List Rat} (hs : s.Pairwise (· ≤ ·)) (hp : s.Perm l) : sort l = s :=
  List.Perm.eq_of_pairwise (le := (· ≤ ·)) (fun _ _ _ _ h1 h2 => le_antisymm h1 h2) (sort_sorted l) hs
    ((sort_perm l).trans hp.symm)

theorem secondsFromStart_getElem? (l : List Rat) (k : Nat) (t0 t : Rat) (h0 : l[0]? = some t0)
    (hk : l[k]? = some t) : (secondsFromStart l)[k]? = some (t - t0) := by
  cases l with
  | nil => simp at h0
  | cons a r =>
    have ha : a = t0 := by simpa using h0
    show ((a :: r).map (fun t => t - a))[k]? = some (t - t0)
    rw [List.getElem?_map, hk, ha]
    rfl

theorem getD_mem_of_lt {s : List Rat} {i : Nat} (h : i < s.length) : s.getD i 0 ∈ s := by
  have : s.getD i 0 = s[i] := by simp [List.getD_eq_getElem?_getD, List.getElem?_eq_getElem h]
  rw [this]
  exact List.getElem_mem h

theorem sort_getD_bounds {l : List Rat} {i : Nat} (h : i < l.length) :
    minL l ≤ (sort l).getD i 0 ∧ (sort l).getD i 0 ≤ maxL l := by
  have hm : (sort l).getD i 0 ∈ l := mem_sort.mp (getD_mem_of_lt (by rw [sort_length]; exact h))
  exact ⟨minL_le hm, le_maxL hm⟩

/-! ### tables, index bookkeeping -/

open Evo.Gen.Units in
theorem _root_.Evo.Gen.Units.U.mem_all (u : U) : u ∈ U.all := by cases u <;> decide
open Evo.Gen.Units in
theorem _root_.Evo.Gen.Units.Rel.mem_all (r : Rel) : r ∈ Rel.all := by cases r <;> decide


theorem secondsFromStart_length (ts : List Rat) : (secondsFromStart ts).length = ts.length := by
  cases ts <;> simp [secondsFromStart]

theorem reduceIds_length_of_valid {α} (l : List α) (ids : List Nat) (h : ∀ i ∈ ids, i < l.length) :
    (reduceIds l ids).length = ids.length := by
  induction ids with
  | nil => simp [reduceIds]
  | cons i r ih =>
    have hi := h i (by simp)
    have hr := ih (fun j hj => h j (by simp [hj]))
    simp only [reduceIds] at hr ⊢
    rw [List.filterMap_cons, List.getElem?_eq_getElem hi]
    simp [hr]

theorem reduceIds_getElem {α} (l : List α) (ids : List Nat) (h : ∀ i ∈ ids, i < l.length) (k : Nat)
    (hk : k < ids.length) : (reduceIds l ids)[k]? = l[ids[k]]? := by
  induction ids generalizing k with
  | nil => simp at hk
  | cons i r ih =>
    have hi := h i (by simp)
    simp only [reduceIds] at ih ⊢
    rw [List.filterMap_cons, List.getElem?_eq_getElem hi]
    cases k with
    | zero => simp [List.getElem?_eq_getElem hi]
    | succ k =>
      simp only [List.getElem?_cons_succ, List.getElem_cons_succ]
      exact ih (fun j hj => h j (by simp [hj])) k (by simpa using hk)

theorem stepSq_length (ps : List (V3 Rat)) : (stepSq ps).length = ps.length - 1 := by
  induction ps with
  | nil => rfl
  | cons a r ih =>
    cases r with
    | nil => rfl
    | cons b r' =>
      simp only [stepSq, List.length_cons] at ih ⊢
      omega


theorem sort_example : sort [3, 1, 2, 6] = [1, 2, 3, 6] := sort_eq_of_sorted_perm (by decide) (by decide)

end Evo.Stats
