/-
The real numbers evo reports for the irrational statistics of `Model/Stats.lean`:
`rmse = np.sqrt(np.mean(e**2))` and `std = np.std(e)`, for exact rational data — the single
final `Real.sqrt` over the rational cores `meanSq = rmse²`, `var = std²` — together with the
ℚ lemmas on scaling every value by a conversion factor (`change_unit`) and on `std² = 0`.
-/
import EvoModel.Lemmas.Stats
import Mathlib.Analysis.Real.Sqrt
import Mathlib.Data.Rat.Cast.CharZero
import Mathlib.Data.Rat.Cast.Order
namespace Evo.Stats
open Evo

/-! ### scaling every value by `k` (ℚ) -/

theorem sum_map_mul (k : Rat) (l : List Rat) : sum (l.map (k * ·)) = k * sum l := by
  induction l with
  | nil => simp
  | cons x r ih => simp only [List.map_cons, sum_cons, ih]; ring

theorem mean_map_mul (k : Rat) (l : List Rat) : mean (l.map (k * ·)) = k * mean l := by
  unfold mean
  rw [sum_map_mul, List.length_map, mul_div_assoc]

theorem sse_map_mul (k : Rat) (l : List Rat) : sse (l.map (k * ·)) = k * k * sse l := by
  unfold sse
  have : (l.map (k * ·)).map (fun x => x * x) = (l.map fun x => x * x).map (k * k * ·) := by
    simp only [List.map_map]
    apply List.map_congr_left
    intro x _
    simp only [Function.comp]
    ring
  rw [this, sum_map_mul]

theorem meanSq_map_mul (k : Rat) (l : List Rat) : meanSq (l.map (k * ·)) = k * k * meanSq l := by
  unfold meanSq
  rw [sse_map_mul, List.length_map, mul_div_assoc]

theorem var_map_mul (k : Rat) (l : List Rat) : var (l.map (k * ·)) = k * k * var l := by
  simp only [var, mean_map_mul]
  have : (l.map (k * ·)).map (fun x => x - k * mean l) = (l.map fun x => x - mean l).map (k * ·) := by
    simp only [List.map_map]
    apply List.map_congr_left
    intro x _
    simp only [Function.comp]
    ring
  rw [this, meanSq_map_mul]

/-- the minimum is the member below all members -/
theorem minL_eq_of {l : List Rat} {m : Rat} (hm : m ∈ l) (hle : ∀ x ∈ l, m ≤ x) : minL l = m :=
  le_antisymm (minL_le hm) (hle _ (minL_mem (List.ne_nil_of_mem hm)))

theorem maxL_eq_of {l : List Rat} {m : Rat} (hm : m ∈ l) (hle : ∀ x ∈ l, x ≤ m) : maxL l = m :=
  le_antisymm (hle _ (maxL_mem (List.ne_nil_of_mem hm))) (le_maxL hm)

theorem minL_map_mul (k : Rat) (hk : 0 ≤ k) (l : List Rat) : minL (l.map (k * ·)) = k * minL l := by
  by_cases h : l = []
  · subst h; simp [minL]
  · apply minL_eq_of
    · exact List.mem_map.mpr ⟨_, minL_mem h, rfl⟩
    · intro y hy
      obtain ⟨x, hx, rfl⟩ := List.mem_map.mp hy
      exact mul_le_mul_of_nonneg_left (minL_le hx) hk

theorem maxL_map_mul (k : Rat) (hk : 0 ≤ k) (l : List Rat) : maxL (l.map (k * ·)) = k * maxL l := by
  by_cases h : l = []
  · subst h; simp [maxL]
  · apply maxL_eq_of
    · exact List.mem_map.mpr ⟨_, maxL_mem h, rfl⟩
    · intro y hy
      obtain ⟨x, hx, rfl⟩ := List.mem_map.mp hy
      exact mul_le_mul_of_nonneg_left (le_maxL hx) hk

theorem sort_map_mul (k : Rat) (hk : 0 ≤ k) (l : List Rat) :
    sort (l.map (k * ·)) = (sort l).map (k * ·) := by
  apply sort_eq_of_sorted_perm
  · exact List.pairwise_map.mpr ((sort_sorted l).imp (fun h => mul_le_mul_of_nonneg_left h hk))
  · exact (sort_perm l).map _

theorem getD_map_mul (k : Rat) (s : List Rat) (i : Nat) :
    (s.map (k * ·)).getD i 0 = k * s.getD i 0 := by
  simp only [List.getD_eq_getElem?_getD, List.getElem?_map]
  cases s[i]? <;> simp

theorem median_map_mul (k : Rat) (hk : 0 ≤ k) (l : List Rat) :
    median (l.map (k * ·)) = k * median l := by
  simp only [median, sort_map_mul k hk, List.length_map, getD_map_mul]
  split <;> ring

/-! ### `std² = 0` exactly for constant arrays (ℚ) -/

theorem sse_eq_zero_iff (l : List Rat) : sse l = 0 ↔ ∀ x ∈ l, x = 0 := by
  induction l with
  | nil => simp [sse]
  | cons a r ih =>
    have hr : 0 ≤ sse r := sse_nonneg r
    have ha : 0 ≤ a * a := mul_self_nonneg a
    have hc : sse (a :: r) = a * a + sse r := rfl
    rw [hc]
    constructor
    · intro h x hx
      have h1 : a * a = 0 := by linarith
      have h2 : sse r = 0 := by linarith
      rcases List.mem_cons.mp hx with rfl | hx
      · exact mul_self_eq_zero.mp h1
      · exact ih.mp h2 x hx
    · intro h
      have h1 : a = 0 := h a (by simp)
      have h2 : sse r = 0 := ih.mpr (fun x hx => h x (by simp [hx]))
      rw [h1, h2]; ring

theorem meanSq_eq_zero_iff (l : List Rat) (h : l ≠ []) : meanSq l = 0 ↔ ∀ x ∈ l, x = 0 := by
  have hn : (l.length : Rat) ≠ 0 := ne_of_gt (length_pos_cast h)
  unfold meanSq
  rw [div_eq_zero_iff, sse_eq_zero_iff]
  simp [hn]

theorem var_eq_zero_iff (l : List Rat) (h : l ≠ []) : var l = 0 ↔ ∀ x ∈ l, x = mean l := by
  unfold var
  rw [meanSq_eq_zero_iff _ (by simpa using h)]
  constructor
  · intro hz x hx
    have := hz (x - mean l) (List.mem_map.mpr ⟨x, hx, rfl⟩)
    linarith
  · intro hz y hy
    obtain ⟨x, hx, rfl⟩ := List.mem_map.mp hy
    rw [hz x hx]; ring

/-! ### the reported real numbers -/

/-- `rmse = np.sqrt(np.mean(np.power(e, 2)))` for the exact rational values `e` -/
noncomputable def rmseR (l : List Rat) : ℝ := Real.sqrt ((meanSq l : ℚ) : ℝ)

/-- `std = np.std(e)` (population standard deviation) for the exact rational values `e` -/
noncomputable def stdR (l : List Rat) : ℝ := Real.sqrt ((var l : ℚ) : ℝ)

theorem meanSq_cast_nonneg (l : List Rat) : (0 : ℝ) ≤ ((meanSq l : ℚ) : ℝ) :=
  Rat.cast_nonneg.mpr (meanSq_nonneg l)

theorem var_cast_nonneg (l : List Rat) : (0 : ℝ) ≤ ((var l : ℚ) : ℝ) :=
  Rat.cast_nonneg.mpr (var_nonneg l)

theorem rmseR_nonneg (l : List Rat) : 0 ≤ rmseR l := Real.sqrt_nonneg _
theorem stdR_nonneg (l : List Rat) : 0 ≤ stdR l := Real.sqrt_nonneg _

theorem rmseR_sq (l : List Rat) : rmseR l ^ 2 = ((meanSq l : ℚ) : ℝ) :=
  Real.sq_sqrt (meanSq_cast_nonneg l)

theorem stdR_sq (l : List Rat) : stdR l ^ 2 = ((var l : ℚ) : ℝ) :=
  Real.sq_sqrt (var_cast_nonneg l)

theorem sqrt_cast_mul_self_mul (k q : Rat) (hk : 0 ≤ k) :
    Real.sqrt (((k * k * q : ℚ)) : ℝ) = (k : ℝ) * Real.sqrt (q : ℝ) := by
  have hk' : (0 : ℝ) ≤ (k : ℝ) := Rat.cast_nonneg.mpr hk
  push_cast
  rw [Real.sqrt_mul (mul_self_nonneg _), Real.sqrt_mul_self hk']

theorem rmseR_map_mul (k : Rat) (hk : 0 ≤ k) (l : List Rat) :
    rmseR (l.map (k * ·)) = (k : ℝ) * rmseR l := by
  unfold rmseR
  rw [meanSq_map_mul, sqrt_cast_mul_self_mul k _ hk]

theorem stdR_map_mul (k : Rat) (hk : 0 ≤ k) (l : List Rat) :
    stdR (l.map (k * ·)) = (k : ℝ) * stdR l := by
  unfold stdR
  rw [var_map_mul, sqrt_cast_mul_self_mul k _ hk]

theorem stdR_eq_zero_iff (l : List Rat) : stdR l = 0 ↔ var l = 0 := by
  unfold stdR
  rw [Real.sqrt_eq_zero (var_cast_nonneg l)]
  exact Rat.cast_eq_zero

end Evo.Stats
