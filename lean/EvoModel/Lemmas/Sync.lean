import EvoModel.Model.Sync
import EvoModel.Lemmas.Argmin
import Mathlib.Data.List.Nodup
namespace Evo.Sync
open Evo

/-- Everything known about a raw match `m` produced while scanning `s1` from offset `i0`. -/
structure RawOK (s2 : List Rat) (maxDiff off : Rat) (ts : List Rat) (i0 : Nat) (m : Match) : Prop where
  lo : i0 ≤ m.i
  hi : m.i - i0 < ts.length
  jlt : m.j < s2.length
  jarg : ∃ t, ts[m.i - i0]? = some t ∧ m.j = argminFirst (dist off t) s2 ∧
          (∃ u, s2[m.j]? = some u ∧ m.d = dist off t u) ∧ m.d ≤ maxDiff

theorem rawGo_ok (s2 : List Rat) (maxDiff off : Rat) (ts : List Rat) (i0 : Nat) :
    ∀ m ∈ rawGo s2 maxDiff off ts i0, RawOK s2 maxDiff off ts i0 m := by
  induction ts generalizing i0 with
  | nil => intro m hm; simp [rawGo] at hm
  | cons t r ih =>
    intro m hm
    have lift : ∀ m, RawOK s2 maxDiff off r (i0+1) m → RawOK s2 maxDiff off (t :: r) i0 m := by
      intro m h
      obtain ⟨lo, hi, jlt, t', ht', rest⟩ := h
      refine ⟨by omega, by simp; omega, jlt, t', ?_, rest⟩
      have : m.i - i0 = (m.i - (i0+1)) + 1 := by omega
      rw [this]; simpa using ht'
    unfold rawGo at hm
    simp only at hm
    split at hm
    · next u hu =>
      split at hm
      · next hle =>
        rcases List.mem_cons.mp hm with h | h
        · subst h
          have hj : argminFirst (dist off t) s2 < s2.length := by
            rcases List.getElem?_eq_some_iff.mp hu with ⟨h, _⟩; exact h
          exact ⟨le_refl _, by simp, hj, t, by simp, rfl, ⟨u, hu, rfl⟩, hle⟩
        · exact lift m (ih (i0+1) m h)
      · exact lift m (ih (i0+1) m hm)
    · exact lift m (ih (i0+1) m hm)

theorem rawGo_fst_lt (s2 : List Rat) (maxDiff off : Rat) (ts : List Rat) (i0 : Nat) :
    (rawGo s2 maxDiff off ts i0).Pairwise (fun a b => a.i < b.i) := by
  induction ts generalizing i0 with
  | nil => simp [rawGo]
  | cons t r ih =>
    unfold rawGo
    simp only
    split
    · split
      · refine List.pairwise_cons.mpr ⟨?_, ih (i0+1)⟩
        intro m hm
        have := (rawGo_ok s2 maxDiff off r (i0+1) m hm).lo
        simp; omega
      · exact ih (i0+1)
    · exact ih (i0+1)

/-- completeness of the raw scan: a driving stamp whose nearest counterpart is within
`maxDiff` produces a raw match -/
theorem rawGo_complete (s2 : List Rat) (maxDiff off : Rat) (ts : List Rat) (i0 : Nat)
    (k : Nat) (t : Rat) (hk : ts[k]? = some t) (u : Rat)
    (hu : s2[argminFirst (dist off t) s2]? = some u) (hle : dist off t u ≤ maxDiff) :
    ⟨i0 + k, argminFirst (dist off t) s2, dist off t u⟩ ∈ rawGo s2 maxDiff off ts i0 := by
  induction ts generalizing i0 k with
  | nil => simp at hk
  | cons t' r ih =>
    cases k with
    | zero =>
      simp at hk; subst hk
      unfold rawGo
      simp only [hu, hle, if_true]
      simp
    | succ k =>
      have hk' : r[k]? = some t := by simpa using hk
      have := ih (i0+1) k hk'
      have e : i0 + 1 + k = i0 + (k+1) := by omega
      rw [e] at this
      unfold rawGo
      simp only
      split
      · split
        · exact List.mem_cons_of_mem _ this
        · exact this
      · exact this

theorem pairwise_lt_inj {α} (f : α → Nat) (l : List α) (h : l.Pairwise (fun a b => f a < f b)) :
    ∀ a ∈ l, ∀ b ∈ l, f a = f b → a = b := by
  induction l with
  | nil => intro a ha; simp at ha
  | cons x xs ih =>
    obtain ⟨hx, hxs⟩ := List.pairwise_cons.mp h
    intro a ha b hb hab
    rcases List.mem_cons.mp ha with rfl | ha' <;> rcases List.mem_cons.mp hb with rfl | hb'
    · rfl
    · have := hx b hb'; omega
    · have := hx a ha'; omega
    · exact ih hxs a ha' b hb' hab

theorem keepBest_sublist (raw : List Match) : (keepBest raw).Sublist raw := List.filter_sublist

theorem mem_keepBest {raw : List Match} {m : Match} :
    m ∈ keepBest raw ↔ m ∈ raw ∧ ∀ m' ∈ raw, beats m' m = false := by
  unfold keepBest
  simp [List.mem_filter]

theorem beats_iff (m' m : Match) :
    beats m' m = true ↔ m'.j = m.j ∧ (m'.d < m.d ∨ (m'.d = m.d ∧ m'.i < m.i)) := by
  unfold beats; simp

/-- no counterpart index is used twice after `keepBest`, provided driving indices are distinct -/
theorem keepBest_snd_inj (raw : List Match) (hi : ∀ a ∈ raw, ∀ b ∈ raw, a.i = b.i → a = b)
    (a b : Match) (ha : a ∈ keepBest raw) (hb : b ∈ keepBest raw) (hj : a.j = b.j) : a = b := by
  obtain ⟨har, hab⟩ := mem_keepBest.mp ha
  obtain ⟨hbr, hba⟩ := mem_keepBest.mp hb
  have h1 := hab b hbr
  have h2 := hba a har
  have n1 : ¬ (b.j = a.j ∧ (b.d < a.d ∨ (b.d = a.d ∧ b.i < a.i))) := by
    rw [← beats_iff]; simp [h1]
  have n2 : ¬ (a.j = b.j ∧ (a.d < b.d ∨ (a.d = b.d ∧ a.i < b.i))) := by
    rw [← beats_iff]; simp [h2]
  have n1' : ¬ (b.d < a.d ∨ (b.d = a.d ∧ b.i < a.i)) := fun h => n1 ⟨hj.symm, h⟩
  have n2' : ¬ (a.d < b.d ∨ (a.d = b.d ∧ a.i < b.i)) := fun h => n2 ⟨hj, h⟩
  push Not at n1' n2'
  have hd : a.d = b.d := le_antisymm n1'.1 n2'.1
  have hii : a.i = b.i := by
    have := n1'.2 hd.symm
    have := n2'.2 hd
    omega
  exact hi a har b hbr hii

end Evo.Sync
