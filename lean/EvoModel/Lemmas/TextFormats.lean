/-
Lemmas about the text-format model: all-or-nothing maps, splitting/joining, the table reader.
-/
import EvoModel.Model.TextFormats
import Mathlib.Data.List.Forall2
import Mathlib.Data.List.Basic
namespace Evo.Text

/-! ### mapOpt -/

section mapOpt
variable {α β : Type} {f : α → Option β}

theorem mapOpt_nil : mapOpt f [] = some [] := rfl

theorem mapOpt_cons_some {a : α} {l : List α} {b : β} {bs : List β}
    (h1 : f a = some b) (h2 : mapOpt f l = some bs) : mapOpt f (a :: l) = some (b :: bs) := by
  simp [mapOpt, h1, h2]

theorem mapOpt_cons_inv {a : α} {l : List α} {r : List β} (h : mapOpt f (a :: l) = some r) :
    ∃ b bs, f a = some b ∧ mapOpt f l = some bs ∧ r = b :: bs := by
  unfold mapOpt at h
  split at h
  · rename_i b bs h1 h2
    exact ⟨b, bs, h1, h2, by simpa using h.symm⟩
  · simp at h

theorem mapOpt_some : ∀ {l : List α} {l' : List β}, mapOpt f l = some l' →
    List.Forall₂ (fun a b => f a = some b) l l'
  | [], l', h => by
      have : l' = [] := by simpa [mapOpt] using h.symm
      subst this; exact List.Forall₂.nil
  | a :: l, l', h => by
      obtain ⟨b, bs, h1, h2, rfl⟩ := mapOpt_cons_inv h
      exact List.Forall₂.cons h1 (mapOpt_some h2)

theorem mapOpt_of_forall₂ : ∀ {l : List α} {l' : List β},
    List.Forall₂ (fun a b => f a = some b) l l' → mapOpt f l = some l'
  | _, _, List.Forall₂.nil => rfl
  | _, _, List.Forall₂.cons h1 h2 => mapOpt_cons_some h1 (mapOpt_of_forall₂ h2)

theorem mapOpt_none_of_mem : ∀ {l : List α} {a : α}, a ∈ l → f a = none → mapOpt f l = none
  | b :: _l, a, ha, hf => by
      rcases List.mem_cons.mp ha with rfl | ha
      · simp [mapOpt, hf]
      · have := mapOpt_none_of_mem ha hf
        unfold mapOpt
        split
        · rename_i h2; rw [this] at h2; cases h2
        · rfl

theorem mapOpt_length {l : List α} {l' : List β} (h : mapOpt f l = some l') :
    l'.length = l.length := (mapOpt_some h).length_eq.symm

theorem mapOpt_map_of_forall {g : α → β} : ∀ {l : List α}, (∀ a ∈ l, f a = some (g a)) →
    mapOpt f l = some (l.map g)
  | [], _ => rfl
  | a :: l, h => mapOpt_cons_some (h a (List.mem_cons_self ..))
      (mapOpt_map_of_forall fun b hb => h b (List.mem_cons_of_mem _ hb))

end mapOpt

/-! ### splitOn / joinWith -/

theorem splitOn_ne_nil (d : Char) : ∀ s : Str, splitOn d s ≠ []
  | [] => by simp [splitOn]
  | c :: r => by
      unfold splitOn
      split
      · simp
      · split <;> simp

/-- a piece without the delimiter, followed by the delimiter, is split off -/
theorem splitOn_append_cons (d : Char) : ∀ (a : Str) (r : Str), d ∉ a →
    splitOn d (a ++ d :: r) = a :: splitOn d r
  | [], r, _ => by simp [splitOn]
  | c :: a, r, h => by
      have hc : c ≠ d := fun e => h (by simp [e])
      have ha : d ∉ a := fun e => h (List.mem_cons_of_mem _ e)
      have ih := splitOn_append_cons d a r ha
      simp only [List.cons_append, splitOn, hc, if_false, ih]

theorem splitOn_no_delim (d : Char) : ∀ (a : Str), d ∉ a → splitOn d a = [a]
  | [], _ => rfl
  | c :: a, h => by
      have hc : c ≠ d := fun e => h (by simp [e])
      have ha : d ∉ a := fun e => h (List.mem_cons_of_mem _ e)
      simp only [splitOn, hc, if_false, splitOn_no_delim d a ha]

/-- splitting what `joinWith` produced returns the pieces -/
theorem splitOn_joinWith (d : Char) : ∀ (toks : List Str), toks ≠ [] → (∀ t ∈ toks, d ∉ t) →
    splitOn d (joinWith d toks) = toks
  | [a], _, h => by
      simpa [joinWith] using splitOn_no_delim d a (h a (by simp))
  | a :: b :: r, _, h => by
      have ha : d ∉ a := h a (by simp)
      have ih := splitOn_joinWith d (b :: r) (by simp) (fun t ht => h t (List.mem_cons_of_mem _ ht))
      simp only [joinWith]
      rw [splitOn_append_cons d a _ ha, ih]

/-- a line ending with the delimiter has an additional, empty last field -/
theorem splitOn_trailing (d : Char) : ∀ l : Str, splitOn d (l ++ [d]) = splitOn d l ++ [[]]
  | [] => by simp [splitOn]
  | c :: l => by
      have ih := splitOn_trailing d l
      by_cases hc : c = d
      · simp only [List.cons_append, splitOn, hc, if_true, ih]
      · obtain ⟨h, t, heq⟩ : ∃ h t, splitOn d l = h :: t := by
          cases hs : splitOn d l with
          | nil => exact absurd hs (splitOn_ne_nil d l)
          | cons h t => exact ⟨h, t, rfl⟩
        simp only [List.cons_append, splitOn, hc, if_false, ih, heq]

/-! ### lines -/

theorem lines_nil : lines [] = [] := by decide

theorem getLast?_cons_of_ne_nil {α} (a : α) : ∀ {l : List α}, l ≠ [] → (a :: l).getLast? = l.getLast?
  | b :: l, _ => by simp [List.getLast?_cons_cons]

theorem dropLast_cons_of_ne_nil' {α} (a : α) : ∀ {l : List α}, l ≠ [] → (a :: l).dropLast = a :: l.dropLast
  | b :: l, _ => by simp [List.dropLast]

/-- the first line of a text is split off at the first newline -/
theorem lines_cons_line (l t : Str) (h : '\n' ∉ l) :
    lines (l ++ '\n' :: t) = stripCR l :: lines t := by
  unfold lines
  have hne := splitOn_ne_nil '\n' t
  simp only [splitOn_append_cons '\n' l t h, getLast?_cons_of_ne_nil l hne]
  split
  · rw [dropLast_cons_of_ne_nil' l hne]; rfl
  · rfl

/-! ### lines of a text that continues after a complete line -/

theorem split_first (c : Char) : ∀ l : Str, c ∈ l → ∃ p s, l = p ++ c :: s ∧ c ∉ p
  | x :: l, h => by
      by_cases hx : x = c
      · exact ⟨[], l, by simp [hx], by simp⟩
      · have hl : c ∈ l := by
          rcases List.mem_cons.mp h with e | e
          · exact absurd e.symm hx
          · exact e
        obtain ⟨p, s, rfl, hp⟩ := split_first c l hl
        refine ⟨x :: p, s, by simp, ?_⟩
        intro hm
        rcases List.mem_cons.mp hm with e | e
        · exact hx e.symm
        · exact hp e

theorem lines_append_complete : ∀ (n : Nat) (a X : Str), a.length ≤ n →
    lines (a ++ '\n' :: X) = lines (a ++ ['\n']) ++ lines X
  | n, a, X, hn => by
      by_cases h : '\n' ∈ a
      · obtain ⟨p, s, rfl, hp⟩ := split_first '\n' a h
        have hs : s.length ≤ n - 1 := by
          simp only [List.length_append, List.length_cons] at hn; omega
        have ih := lines_append_complete (n - 1) s X hs
        have e1 : (p ++ '\n' :: s) ++ '\n' :: X = p ++ '\n' :: (s ++ '\n' :: X) := by simp
        have e2 : (p ++ '\n' :: s) ++ ['\n'] = p ++ '\n' :: (s ++ ['\n']) := by simp
        rw [e1, e2, lines_cons_line p _ hp, lines_cons_line p _ hp, ih]
        simp
      · rw [lines_cons_line a X h, lines_cons_line a [] h, lines_nil]
        simp
  termination_by n => n
  decreasing_by
    simp only [List.length_append, List.length_cons] at hn
    omega

/-! ### readTable -/

theorem readTable_ok {d : Char} {w : Nat → Bool} {t : Str} {m : List (List Rat)}
    (h : readTable d w t = .ok m) :
    ∃ r0 rest q, csvRows d t = r0 :: rest ∧ w r0.length = true ∧
      (∀ r ∈ rest, r.length = r0.length) ∧
      mapOpt (mapOpt parseDec) (r0 :: rest) = some q ∧ mapOpt (mapOpt F64.rne) q = some m := by
  unfold readTable at h
  split at h
  · cases h
  · rename_i r0 rest heq
    split at h
    · cases h
    · rename_i hw
      split at h
      · cases h
      · rename_i hall
        split at h
        · cases h
        · rename_i q hq
          split at h
          · cases h
          · rename_i m' hm
            refine ⟨r0, rest, q, heq, by simpa using hw, ?_, hq, ?_⟩
            · intro r hr
              have := hall
              simp only [Bool.not_eq_true, Bool.not_eq_false', List.all_eq_true] at this
              simpa using this r hr
            · cases h; exact hm

theorem readTable_no_rows {d : Char} {w : Nat → Bool} {t : Str} (h : csvRows d t = []) :
    readTable d w t = .error .format := by
  unfold readTable; rw [h]

theorem readTable_bad_width {d : Char} {w : Nat → Bool} {t : Str} {r0 : List Str} {rest : List (List Str)}
    (h : csvRows d t = r0 :: rest) (hw : w r0.length = false) :
    readTable d w t = .error .format := by
  unfold readTable; rw [h]; simp [hw]

theorem readTable_ragged {d : Char} {w : Nat → Bool} {t : Str} {r0 r : List Str} {rest : List (List Str)}
    (h : csvRows d t = r0 :: rest) (hr : r ∈ rest) (hlen : r.length ≠ r0.length) :
    readTable d w t = .error .format := by
  unfold readTable; rw [h]
  simp only
  split
  · rfl
  · split
    · rfl
    · rename_i hall
      exfalso
      simp only [Bool.not_eq_true, Bool.not_eq_false', List.all_eq_true] at hall
      exact hlen (by simpa using hall r hr)

theorem readTable_non_numeric {d : Char} {w : Nat → Bool} {t : Str} {r : List Str} {f : Str}
    (hr : r ∈ csvRows d t) (hf : f ∈ r) (hbad : parseDec f = none) :
    readTable d w t = .error .format := by
  unfold readTable
  split
  · rfl
  · rename_i r0 rest heq
    split
    · rfl
    · split
      · rfl
      · split
        · rfl
        · rename_i q hq
          exfalso
          rw [heq] at hr
          have h1 : mapOpt parseDec r = none := mapOpt_none_of_mem hf hbad
          have h2 := mapOpt_none_of_mem (f := mapOpt parseDec) hr h1
          rw [h2] at hq; cases hq

/-- a row whose length differs from `n` is fatal when the first-row check demands exactly `n` -/
theorem readTable_exact_width {d : Char} {n : Nat} {t : Str} {r : List Str}
    (hr : r ∈ csvRows d t) (hlen : r.length ≠ n) :
    readTable d (· == n) t = .error .format := by
  cases hc : csvRows d t with
  | nil => exact readTable_no_rows hc
  | cons r0 rest =>
    by_cases h0 : r0.length = n
    · rw [hc] at hr
      rcases List.mem_cons.mp hr with rfl | hr
      · exact absurd h0 hlen
      · exact readTable_ragged hc hr (by rw [h0]; exact hlen)
    · exact readTable_bad_width hc (by simpa using h0)

/-! ### reading back what the writers lay out -/

/-- what the harness checks for every token evo writes for the double `x`: it is a literal of the
grammar and it converts back to `x` -/
def GoodTok (tok : Rat → Str) (x : Rat) : Prop :=
  inGrammar (tok x) = true ∧ ∃ q, parseDec (tok x) = some q ∧ F64.rne q = some x

theorem mem_joinWith (d : Char) : ∀ (toks : List Str) (c : Char), c ∈ joinWith d toks →
    c = d ∨ ∃ t ∈ toks, c ∈ t
  | [], c, h => by simp [joinWith] at h
  | [a], c, h => Or.inr ⟨a, by simp, by simpa [joinWith] using h⟩
  | a :: b :: r, c, h => by
      simp only [joinWith, List.mem_append, List.mem_cons] at h
      rcases h with h | h | h
      · exact Or.inr ⟨a, by simp, h⟩
      · exact Or.inl h
      · rcases mem_joinWith d (b :: r) c h with h | ⟨t, ht, hc⟩
        · exact Or.inl h
        · exact Or.inr ⟨t, List.mem_cons_of_mem _ ht, hc⟩

theorem tokChar_of_inGrammar {s : Str} (h : inGrammar s = true) : ∀ c ∈ s, isTokChar c = true := by
  unfold inGrammar at h
  simp only [Bool.and_eq_true, List.all_eq_true] at h
  exact h.1

theorem ne_nil_of_inGrammar {s : Str} (h : inGrammar s = true) : s ≠ [] := by
  rintro rfl
  revert h; decide

theorem getLast?_mem {α} : ∀ {l : List α} {a : α}, l.getLast? = some a → a ∈ l := by
  intro l a h
  exact List.mem_of_getLast? h

theorem head?_mem' {α} : ∀ {l : List α} {a : α}, l.head? = some a → a ∈ l
  | b :: l, a, h => by simp at h; simp [h]

/-- one laid-out line is read back as its tokens -/
theorem line_facts (tok : Rat → Str) (r : List Rat) (hne : r ≠ [])
    (hg : ∀ x ∈ r, inGrammar (tok x) = true) :
    let L := joinWith ' ' (r.map tok)
    '\n' ∉ L ∧ stripCR L = L ∧ isComment L = false ∧ fields ' ' L = r.map tok := by
  intro L
  have hchars : ∀ c ∈ L, c = ' ' ∨ isTokChar c = true := by
    intro c hc
    rcases mem_joinWith ' ' _ c hc with h | ⟨t, ht, hct⟩
    · exact Or.inl h
    · obtain ⟨x, hx, rfl⟩ := List.mem_map.mp ht
      exact Or.inr (tokChar_of_inGrammar (hg x hx) c hct)
  have hnot : ∀ c : Char, (c = '\n' ∨ c = '\r' ∨ c = '#') → c ∉ L := by
    intro c hc hmem
    rcases hchars c hmem with h | h
    · rcases hc with rfl | rfl | rfl <;> revert h <;> decide
    · rcases hc with rfl | rfl | rfl <;> revert h <;> decide
  have hsplit : splitOn ' ' L = r.map tok := by
    apply splitOn_joinWith
    · simpa using hne
    · intro t ht hsp
      obtain ⟨x, hx, rfl⟩ := List.mem_map.mp ht
      have := tokChar_of_inGrammar (hg x hx) ' ' hsp
      revert this; decide
  have hLne : L ≠ [] := by
    intro hL
    rw [hL] at hsplit
    cases r with
    | nil => exact hne rfl
    | cons x r' =>
      have : tok x = [] := by
        simp only [splitOn, List.map_cons] at hsplit
        exact (List.cons.inj hsplit.symm).1
      exact ne_nil_of_inGrammar (hg x (by simp)) this
  refine ⟨hnot '\n' (Or.inl rfl), ?_, ?_, ?_⟩
  · unfold stripCR
    split
    · rename_i h
      exact absurd (getLast?_mem h) (hnot '\r' (Or.inr (Or.inl rfl)))
    · rfl
  · unfold isComment
    by_contra h
    have h' : L.head? = some '#' := by simpa using h
    exact hnot '#' (Or.inr (Or.inr rfl)) (head?_mem' h')
  · unfold fields
    have : L.isEmpty = false := by
      cases hL : L with
      | nil => exact absurd hL hLne
      | cons _ _ => rfl
    rw [this]; exact hsplit

theorem csvRows_cons_line (L T : Str) (h1 : '\n' ∉ L) (h2 : stripCR L = L) (h3 : isComment L = false) :
    csvRows ' ' (L ++ '\n' :: T) = fields ' ' L :: csvRows ' ' T := by
  unfold csvRows
  rw [lines_cons_line L T h1, h2]
  simp [List.filter_cons, h3]

theorem csvRows_nil : csvRows ' ' [] = [] := by decide

/-- the csv layer reads the laid-out text back as the table of tokens -/
theorem csvRows_layoutRows (tok : Rat → Str) : ∀ (rows : List (List Rat)),
    (∀ r ∈ rows, r ≠ [] ∧ ∀ x ∈ r, inGrammar (tok x) = true) →
    csvRows ' ' (layoutRows tok rows) = rows.map (fun r => r.map tok)
  | [], _ => by simp [layoutRows, csvRows_nil]
  | r :: rows, h => by
      obtain ⟨hne, hg⟩ := h r (by simp)
      obtain ⟨h1, h2, h3, h4⟩ := line_facts tok r hne hg
      have ih := csvRows_layoutRows tok rows (fun r' hr' => h r' (List.mem_cons_of_mem _ hr'))
      have hl : layoutRows tok (r :: rows)
          = joinWith ' ' (r.map tok) ++ '\n' :: layoutRows tok rows := by
        simp [layoutRows]
      rw [hl, csvRows_cons_line _ _ h1 h2 h3, h4]
      simp only [List.map_cons]
      rw [ih]

theorem mapOpt_map_map {α β γ : Type} {f : γ → Option β} {h : α → γ} {k : α → β} : ∀ {l : List α},
    (∀ a ∈ l, f (h a) = some (k a)) → mapOpt f (l.map h) = some (l.map k)
  | [], _ => rfl
  | a :: l, hh => mapOpt_cons_some (hh a (List.mem_cons_self ..))
      (mapOpt_map_map fun b hb => hh b (List.mem_cons_of_mem _ hb))

theorem mapOpt_map_inv {α β : Type} {f : β → Option α} {g : α → β} : ∀ {l : List α},
    (∀ a ∈ l, f (g a) = some a) → mapOpt f (l.map g) = some l
  | [], _ => rfl
  | a :: l, h => mapOpt_cons_some (h a (List.mem_cons_self ..))
      (mapOpt_map_inv fun b hb => h b (List.mem_cons_of_mem _ hb))

/-- the table reader returns exactly the numbers that were laid out -/
theorem readTable_layoutRows (tok : Rat → Str) (w : Nat → Bool) (r0 : List Rat) (rows : List (List Rat))
    (hw : w r0.length = true) (hlen : ∀ r ∈ rows, r.length = r0.length) (hne : r0 ≠ [])
    (hg : ∀ r ∈ r0 :: rows, ∀ x ∈ r, GoodTok tok x) :
    readTable ' ' w (layoutRows tok (r0 :: rows)) = .ok (r0 :: rows) := by
  have hrows : ∀ r ∈ r0 :: rows, r ≠ [] ∧ ∀ x ∈ r, inGrammar (tok x) = true := by
    intro r hr
    refine ⟨?_, fun x hx => (hg r hr x hx).1⟩
    rcases List.mem_cons.mp hr with rfl | hr'
    · exact hne
    · intro e
      have := hlen r hr'
      rw [e] at this
      exact hne (List.length_eq_zero_iff.mp this.symm)
  have hcsv := csvRows_layoutRows tok (r0 :: rows) hrows
  let g : Rat → Rat := fun x => (parseDec (tok x)).getD 0
  have hgx : ∀ r ∈ r0 :: rows, ∀ x ∈ r, parseDec (tok x) = some (g x) ∧ F64.rne (g x) = some x := by
    intro r hr x hx
    obtain ⟨-, q, hq, hr'⟩ := hg r hr x hx
    have : g x = q := by simp [g, hq]
    rw [this]; exact ⟨hq, hr'⟩
  have hp : mapOpt (mapOpt parseDec) ((r0 :: rows).map (fun r => r.map tok))
      = some ((r0 :: rows).map (fun r => r.map g)) :=
    mapOpt_map_map fun r hr => mapOpt_map_map fun x hx => (hgx r hr x hx).1
  have hr : mapOpt (mapOpt F64.rne) ((r0 :: rows).map (fun r => r.map g)) = some (r0 :: rows) :=
    mapOpt_map_inv fun r hr => mapOpt_map_inv fun x hx => (hgx r hr x hx).2
  have hall : (rows.map (fun r => r.map tok)).all (fun r => r.length == (r0.map tok).length) = true := by
    simp only [List.all_eq_true, List.mem_map]
    rintro _ ⟨r, hr, rfl⟩
    simpa using hlen r hr
  unfold readTable
  rw [hcsv]
  simp only [List.map_cons] at hp hr ⊢
  simp only [List.length_map, hw] at hall ⊢
  simp only [hall, hp, hr, Bool.not_true, Bool.false_eq_true, if_false]

/-! ### helpers of the property theorems -/

/-- the data lines of a text: lines that are not `#` comments, in file order -/
def dataLines (t : Str) : List Str := (lines t).filter (fun l => !isComment l)

theorem csvRows_eq (d : Char) (t : Str) : csvRows d t = (dataLines t).map (fields d) := rfl

/-- a field evo stores as the double `v`: it is a literal of the grammar and `v` is its rounding -/
def FieldIs (f : Str) (v : Rat) : Prop := ∃ q, parseDec f = some q ∧ F64.rne q = some v

theorem forall₂_comp {α β γ : Type} {R : α → β → Prop} {S : β → γ → Prop} :
    ∀ {a : List α} {b : List β} {c : List γ}, List.Forall₂ R a b → List.Forall₂ S b c →
      List.Forall₂ (fun x z => ∃ y, R x y ∧ S y z) a c
  | _, _, _, List.Forall₂.nil, List.Forall₂.nil => List.Forall₂.nil
  | _, _, _, List.Forall₂.cons h1 t1, List.Forall₂.cons h2 t2 =>
      List.Forall₂.cons ⟨_, h1, h2⟩ (forall₂_comp t1 t2)

theorem readTum_err {t : Str} (h : readTable ' ' (· == 8) t = .error .format) :
    readTum t = .error .format := by unfold readTum; rw [h]
theorem readKitti_err {t : Str} (h : readTable ' ' (· == 12) t = .error .format) :
    readKitti t = .error .format := by unfold readKitti; rw [h]
theorem readEuroc_err {t : Str} (h : readTable ',' (· ≥ 8) t = .error .format) :
    readEuroc t = .error .format := by unfold readEuroc; rw [h]

theorem parseDec_nil : parseDec [] = none := by decide

theorem isComment_stripCR (c : Str) (h : isComment c = true) : isComment (stripCR c) = true := by
  unfold stripCR
  split
  · rename_i hl
    cases c with
    | nil => simp [isComment] at h
    | cons a r =>
      cases r with
      | nil =>
        simp only [isComment, List.head?_cons, Option.some.injEq, decide_eq_true_eq] at h
        subst h
        revert hl; decide
      | cons b r' => simpa [isComment, List.dropLast] using h
  · exact h

theorem tumOfRow_tumRow (p : StampedPose) : tumOfRow (tumRow p) = some p := by cases p; rfl
theorem kittiOfRow_kittiRow (m : Mat34) : kittiOfRow (kittiRow m) = some m := by cases m; rfl

end Evo.Text
