/-
Trace maximality — the core of Umeyama optimality (C03), over any ordered field:

  `A` symmetric, `tr(A)·I − A` positive semidefinite, `Q ∈ SO(3)`  ⇒  `tr(Q·A) ≤ tr A`.

Proof: polynomial Rodrigues form. With `cos θ = (tr Q − 1)/2` and `w = vee((Q − Qᵀ)/2)`,
`(1 + cos θ)·(tr A − tr(QA)) = wᵀ(tr(A)I − A)w`; for `cos θ = −1` (rotation by π),
`tr A − tr(QA) = 2·Σ_k colₖ(P)ᵀ (tr(A)I − A) colₖ(P)` with `P = (Q + I)/2`. Both identities
are consequences of `QᵀQ = I`, `QQᵀ = I`, `cof Q = Q` and are checked by `linear_combination`
(coefficients computed offline by sympy: notes/feasibility/certificates_tracemax.py).
Also: the cofactor equations of SO(3), and "all principal minors ≥ 0 ⇒ positive semidefinite"
for symmetric 3×3 matrices (what the executable certificate tests).
-/
import EvoModel.Lemmas.Lin
import EvoModel.Model.Umeyama
import Mathlib.Algebra.Order.Field.Basic
import Mathlib.Tactic.Linarith
import Mathlib.Tactic.Positivity
namespace Evo

set_option linter.unusedSectionVars false
set_option linter.unusedVariables false

section cof
variable {K : Type} [Field K]

/-- cofactor equations of a proper rotation: `adj Q = Qᵀ` (scalar form) -/
theorem cof_scalar (a b c d e f g h i : K)
    (h00 : a * a + d * d + g * g = 1) (h01 : a * b + d * e + g * h = 0) (h02 : a * c + d * f + g * i = 0)
    (h11 : b * b + e * e + h * h = 1) (h12 : b * c + e * f + h * i = 0) (h22 : c * c + f * f + i * i = 1)
    (hdet : a * (e * i - f * h) - b * (d * i - f * g) + c * (d * h - e * g) = 1) :
    e*i - f*h = a ∧ c*h - b*i = d ∧ b*f - c*e = g ∧ f*g - d*i = b ∧ a*i - c*g = e ∧ c*d - a*f = h ∧
    d*h - e*g = c ∧ b*g - a*h = f ∧ a*e - b*d = i := by
  refine ⟨?_, ?_, ?_, ?_, ?_, ?_, ?_, ?_, ?_⟩
  · linear_combination a * hdet - (e*i-f*h) * h00 - (f*g-d*i) * h01 - (d*h-e*g) * h02
  · linear_combination d * hdet - (c*h-b*i) * h00 - (a*i-c*g) * h01 - (b*g-a*h) * h02
  · linear_combination g * hdet - (b*f-c*e) * h00 - (c*d-a*f) * h01 - (a*e-b*d) * h02
  · linear_combination b * hdet - (e*i-f*h) * h01 - (f*g-d*i) * h11 - (d*h-e*g) * h12
  · linear_combination e * hdet - (c*h-b*i) * h01 - (a*i-c*g) * h11 - (b*g-a*h) * h12
  · linear_combination h * hdet - (b*f-c*e) * h01 - (c*d-a*f) * h11 - (a*e-b*d) * h12
  · linear_combination c * hdet - (e*i-f*h) * h02 - (f*g-d*i) * h12 - (d*h-e*g) * h22
  · linear_combination f * hdet - (c*h-b*i) * h02 - (a*i-c*g) * h12 - (b*g-a*h) * h22
  · linear_combination i * hdet - (b*f-c*e) * h02 - (c*d-a*f) * h12 - (a*e-b*d) * h22

/-- the nine cofactor equations of `Q ∈ SO(3)` -/
theorem IsRot.cof_eqs {r : M3 K} (h : IsRot r) :
    r.a11 * r.a22 - r.a12 * r.a21 = r.a00 ∧ r.a02 * r.a21 - r.a01 * r.a22 = r.a10 ∧
    r.a01 * r.a12 - r.a02 * r.a11 = r.a20 ∧ r.a12 * r.a20 - r.a10 * r.a22 = r.a01 ∧
    r.a00 * r.a22 - r.a02 * r.a20 = r.a11 ∧ r.a02 * r.a10 - r.a00 * r.a12 = r.a21 ∧
    r.a10 * r.a21 - r.a11 * r.a20 = r.a02 ∧ r.a01 * r.a20 - r.a00 * r.a21 = r.a12 ∧
    r.a00 * r.a11 - r.a01 * r.a10 = r.a22 := by
  obtain ⟨h00, h01, h02, h11, h12, h22⟩ := h.1.eqs
  have hd : r.a00 * (r.a11 * r.a22 - r.a12 * r.a21) - r.a01 * (r.a10 * r.a22 - r.a12 * r.a20)
      + r.a02 * (r.a10 * r.a21 - r.a11 * r.a20) = 1 := h.2
  exact cof_scalar _ _ _ _ _ _ _ _ _ h00 h01 h02 h11 h12 h22 hd

theorem IsRot.transpose {r : M3 K} (h : IsRot r) : IsRot r.transpose :=
  ⟨h.1.transpose, by rw [M3.det_transpose]; exact h.2⟩

theorem IsRot.mul {a b : M3 K} (ha : IsRot a) (hb : IsRot b) : IsRot (a.mul b) :=
  ⟨ha.1.mul hb.1, by rw [M3.det_mul, ha.2, hb.2, mul_one]⟩

theorem IsRot.one : IsRot (M3.one : M3 K) := ⟨IsOrtho.one, M3.det_one⟩

end cof

section order
variable {K : Type} [Field K] [LinearOrder K] [IsStrictOrderedRing K]

/-- quadratic form of `B = tr(A)·I − A` for symmetric `A` given by its 6 entries -/
def QB (A11 A12 A13 A22 A23 A33 x y z : K) : K :=
  (A11 + A22 + A33) * (x^2 + y^2 + z^2)
    - (A11*x^2 + A22*y^2 + A33*z^2 + 2*A12*x*y + 2*A13*x*z + 2*A23*y*z)

/-- Trace maximality, scalar form: `R = [[a,b,c],[d,e,f],[g,h,i]]` a proper rotation,
`tr(A)·I − A ⪰ 0` for the symmetric `A` ⇒ `tr(R·A) ≤ tr A`. -/
theorem traceMax_scalar (a b c d e f g h i A11 A12 A13 A22 A23 A33 : K)
    (hc00 : a^2 + d^2 + g^2 - 1 = 0) (hc01 : a*b + d*e + g*h = 0) (hc02 : a*c + d*f + g*i = 0)
    (hc11 : b^2 + e^2 + h^2 - 1 = 0) (hc12 : b*c + e*f + h*i = 0) (hc22 : c^2 + f^2 + i^2 - 1 = 0)
    (hr00 : a^2 + b^2 + c^2 - 1 = 0) (hr01 : a*d + b*e + c*f = 0) (hr02 : a*g + b*h + c*i = 0)
    (hr11 : d^2 + e^2 + f^2 - 1 = 0) (hr12 : d*g + e*h + f*i = 0)
    (hk00 : -a + e*i - f*h = 0) (hk01 : -b - d*i + f*g = 0) (hk02 : -c + d*h - e*g = 0)
    (hk10 : -b*i + c*h - d = 0) (hk11 : a*i - c*g - e = 0) (hk12 : -a*h + b*g - f = 0)
    (hk20 : b*f - c*e - g = 0) (hk21 : -a*f + c*d - h = 0) (hk22 : a*e - b*d - i = 0)
    (hB : ∀ x y z : K, 0 ≤ QB A11 A12 A13 A22 A23 A33 x y z) :
    a*A11 + b*A12 + c*A13 + d*A12 + e*A22 + f*A23 + g*A13 + h*A23 + i*A33
      ≤ A11 + A22 + A33 := by
  set Δ := (A11 + A22 + A33)
      - (a*A11 + b*A12 + c*A13 + d*A12 + e*A22 + f*A23 + g*A13 + h*A23 + i*A33) with hΔ
  suffices h0 : 0 ≤ Δ by linarith
  -- 1 + tr R ≥ 0
  have hI2 : (1 + (a+e+i))^2 + (h-f)^2 + (c-g)^2 + (d-b)^2 = 4 * (1 + (a+e+i)) := by
    linear_combination hc00 + hc11 + hc22 + 2*hk00 + 2*hk11 + 2*hk22
  have htr : 0 ≤ 1 + (a+e+i) := by
    nlinarith [sq_nonneg (1 + (a+e+i)), sq_nonneg (h-f), sq_nonneg (c-g), sq_nonneg (d-b)]
  -- main identity: (1+cos θ)·Δ = QB(w)
  have hI1 : (1 + (a+e+i-1)/2) * Δ
      = QB A11 A12 A13 A22 A23 A33 ((h-f)/2) ((c-g)/2) ((d-b)/2) := by
    simp only [hΔ, QB]
    linear_combination (-A11/4 - A33/4)*hc00 + (-A12/2)*hc01 + (-A13/2)*hc02
      + (-A22/4 - A33/4)*hc11 + (-A23/2)*hc12 + (-A33/2)*hc22
      + (-A11/4 + A33/4)*hr00 + (-A12/2)*hr01 + (-A13/2)*hr02 + (-A22/4 + A33/4)*hr11
      + (-A23/2)*hr12 + (-A22/2 - A33/2)*hk00 + (A12/2)*hk01 + (A13/2)*hk02 + (A12/2)*hk10
      + (-A11/2 - A33/2)*hk11 + (A23/2)*hk12 + (A13/2)*hk20 + (A23/2)*hk21
      + (-A11/2 - A22/2)*hk22
  rcases htr.lt_or_eq with hpos | hzero
  · -- 1 + cos θ > 0
    have hq := hB ((h-f)/2) ((c-g)/2) ((d-b)/2)
    have hcpos : 0 < 1 + (a+e+i-1)/2 := by linarith
    by_contra hneg
    rw [not_le] at hneg
    have : (1 + (a+e+i-1)/2) * Δ < 0 := mul_neg_of_pos_of_neg hcpos hneg
    linarith
  · -- tr R = -1 (rotation by π)
    have htr1 : a + e + i + 1 = 0 := by linarith
    have hsum : Δ = 2 * (QB A11 A12 A13 A22 A23 A33 ((a+1)/2) (d/2) (g/2)
        + QB A11 A12 A13 A22 A23 A33 (b/2) ((e+1)/2) (h/2)
        + QB A11 A12 A13 A22 A23 A33 (c/2) (f/2) ((i+1)/2)) := by
      simp only [hΔ, QB]
      linear_combination (-A11/2 - A22/2)*hc00 + (-A11/2 - A22/2)*hc11 + (-A11/2 - A22/2)*hc22
        + (A11/2 - A33/2)*hr00 + A12*hr01 + A13*hr02 + (A22/2 - A33/2)*hr11 + A23*hr12
        + (-A11 - A22 - A33)*htr1
    rw [hsum]
    have h1 := hB ((a+1)/2) (d/2) (g/2)
    have h2 := hB (b/2) ((e+1)/2) (h/2)
    have h3 := hB (c/2) (f/2) ((i+1)/2)
    linarith

/-- quadratic form `vᵀ B v` -/
def qform (B : M3 K) (v : V3 K) : K := V3.dot v (M3.mulVec B v)

/-- positive semidefinite (as a quadratic form) -/
def IsPSD (B : M3 K) : Prop := ∀ v : V3 K, 0 ≤ qform B v

/-- **Trace maximality.** `A` symmetric, `tr(A)·I − A ⪰ 0`, `Q ∈ SO(3)` ⇒ `tr(Q·A) ≤ tr A`. -/
theorem traceMax (Q A : M3 K) (hQ : IsRot Q) (hA : A.transpose = A) (hB : IsPSD (Ume.bmat A)) :
    (Q.mul A).trace ≤ A.trace := by
  obtain ⟨c00, c01, c02, c11, c12, c22⟩ := hQ.1.eqs
  obtain ⟨r00, r01, r02, r11, r12, r22⟩ := hQ.1.row_eqs
  obtain ⟨k00, k01, k02, k10, k11, k12, k20, k21, k22⟩ := hQ.cof_eqs
  have s01 : A.a10 = A.a01 := by have := congrArg M3.a01 hA; simpa [M3.transpose] using this
  have s02 : A.a20 = A.a02 := by have := congrArg M3.a02 hA; simpa [M3.transpose] using this
  have s12 : A.a21 = A.a12 := by have := congrArg M3.a12 hA; simpa [M3.transpose] using this
  have key := traceMax_scalar Q.a00 Q.a01 Q.a02 Q.a10 Q.a11 Q.a12 Q.a20 Q.a21 Q.a22
    A.a00 A.a01 A.a02 A.a11 A.a12 A.a22
    (by linear_combination c00) (by linear_combination c01) (by linear_combination c02)
    (by linear_combination c11) (by linear_combination c12) (by linear_combination c22)
    (by linear_combination r00) (by linear_combination r01) (by linear_combination r02)
    (by linear_combination r11) (by linear_combination r12)
    (by linear_combination k00) (by linear_combination k10) (by linear_combination k20)
    (by linear_combination k01) (by linear_combination k11) (by linear_combination k21)
    (by linear_combination k02) (by linear_combination k12) (by linear_combination k22)
    (by
      intro x y z
      have := hB ⟨x, y, z⟩
      simp only [qform, Ume.bmat, QB, M3.sub, M3.smul, M3.one, M3.trace, M3.mulVec, V3.dot] at this ⊢
      rw [s01, s02, s12] at this
      linarith [this])
  simp only [M3.mul, M3.trace]
  rw [s01, s02, s12]
  linarith [key]

/-! ### principal minors ⇒ positive semidefinite -/

/-- a binary form with non-negative diagonal and non-negative determinant is non-negative -/
theorem binary_psd (P m R y z : K) (hP : 0 ≤ P) (hR : 0 ≤ R) (hD : 0 ≤ P * R - m * m) :
    0 ≤ P * y^2 + 2 * m * y * z + R * z^2 := by
  rcases hP.lt_or_eq with hpos | hzero
  · have h1 : P * (P * y^2 + 2 * m * y * z + R * z^2) = (P * y + m * z)^2 + (P * R - m * m) * z^2 := by ring
    have h2 : 0 ≤ P * (P * y^2 + 2 * m * y * z + R * z^2) := by
      rw [h1]; positivity
    by_contra hneg
    rw [not_le] at hneg
    have := mul_neg_of_pos_of_neg hpos hneg
    linarith
  · have hm : m = 0 := by
      have : m * m ≤ 0 := by rw [← hzero] at hD; linarith
      have h2 : 0 ≤ m * m := mul_self_nonneg m
      exact mul_self_eq_zero.mp (le_antisymm this h2)
    rw [← hzero, hm]
    have : 0 ≤ R * z^2 := by positivity
    linarith

/-- symmetric 3×3 matrix with all principal minors (the three diagonal entries, the three
principal 2×2 minors, the determinant) non-negative is positive semidefinite -/
theorem psd_of_minors (B : M3 K) (hs : B.transpose = B)
    (d0 : 0 ≤ B.a00) (d1 : 0 ≤ B.a11) (d2 : 0 ≤ B.a22)
    (m01 : 0 ≤ Ume.pm01 B) (m02 : 0 ≤ Ume.pm02 B) (m12 : 0 ≤ Ume.pm12 B) (hdet : 0 ≤ B.det) :
    IsPSD B := by
  have s01 : B.a10 = B.a01 := by have := congrArg M3.a01 hs; simpa [M3.transpose] using this
  have s02 : B.a20 = B.a02 := by have := congrArg M3.a02 hs; simpa [M3.transpose] using this
  have s12 : B.a21 = B.a12 := by have := congrArg M3.a12 hs; simpa [M3.transpose] using this
  simp only [Ume.pm01, Ume.pm02, Ume.pm12, M3.det] at m01 m02 m12 hdet
  rw [s01] at m01; rw [s02] at m02; rw [s12] at m12
  rw [s01, s02, s12] at hdet
  intro v
  obtain ⟨x, y, z⟩ := v
  simp only [qform, V3.dot, M3.mulVec]
  rw [s01, s02, s12]
  set p := B.a00 with hp
  set q := B.a11
  set r := B.a22
  set u := B.a01
  set w := B.a02
  set t := B.a12
  rcases d0.lt_or_eq with hpos | hzero
  · -- p > 0: p·q(v) = (p x + u y + w z)² + binary form
    have hbin := binary_psd (p * q - u * u) (p * t - u * w) (p * r - w * w) y z m01 m02
      (by
        have : (p * q - u * u) * (p * r - w * w) - (p * t - u * w) * (p * t - u * w)
            = p * (p * (q * r - t * t) - u * (u * r - t * w) + w * (u * t - q * w)) := by ring
        rw [this]
        exact mul_nonneg d0 hdet)
    have hid : p * (x * (p * x + u * y + w * z) + y * (u * x + q * y + t * z) + z * (w * x + t * y + r * z))
        = (p * x + u * y + w * z)^2
          + ((p * q - u * u) * y^2 + 2 * (p * t - u * w) * y * z + (p * r - w * w) * z^2) := by ring
    by_contra hneg
    rw [not_le] at hneg
    have h1 := mul_neg_of_pos_of_neg hpos hneg
    rw [hid] at h1
    have : 0 ≤ (p * x + u * y + w * z)^2 := by positivity
    linarith
  · -- p = 0: u = w = 0 and the form is binary in (y, z)
    have hu : u = 0 := by
      have h1 : u * u ≤ 0 := by rw [← hzero] at m01; linarith
      exact mul_self_eq_zero.mp (le_antisymm h1 (mul_self_nonneg u))
    have hw : w = 0 := by
      have h1 : w * w ≤ 0 := by rw [← hzero] at m02; linarith
      exact mul_self_eq_zero.mp (le_antisymm h1 (mul_self_nonneg w))
    have hbin := binary_psd q t r y z d1 d2 m12
    rw [← hzero, hu, hw]
    linarith [hbin]

end order
end Evo
