/-
Refinement lemmas for `Model/Traj.lean`: the invariant `Inv` tying the cache machine to the
abstract trajectory, and the list lemmas behind it.
-/
import EvoModel.Model.Traj
import EvoModel.Lemmas.Lin
import Mathlib.Algebra.Order.Ring.Rat
import Mathlib.Tactic.Ring
import Mathlib.Tactic.FieldSimp
namespace Evo.Traj
open Evo

/-! ### list lemmas -/

theorem zipWith_rot_t (ps : List P) :
    List.zipWith se3Of (ps.map (·.rot)) (ps.map (·.t)) = ps := by
  induction ps with
  | nil => rfl
  | cons p r ih => simp [se3Of, ih]

theorem reduceIds_map {α β} (f : α → β) (l : List α) (ids : List Nat) :
    reduceIds (l.map f) ids = (reduceIds l ids).map f := by
  unfold reduceIds
  induction ids with
  | nil => rfl
  | cons i r ih =>
      simp only [List.filterMap_cons]
      rw [List.getElem?_map, ih]
      cases h : l[i]? <;> simp

theorem zipKeep (qs : List P) (l : List Item) (h : qs.length = l.length) :
    (List.zipWith (fun p (it : Item) => (p, it.2)) qs l).map (·.1) = qs ∧
    (List.zipWith (fun p (it : Item) => (p, it.2)) qs l).map (·.2) = l.map (·.2) := by
  induction qs generalizing l with
  | nil => cases l <;> simp_all
  | cons q r ih =>
      cases l with
      | nil => simp at h
      | cons it l' =>
          have := ih l' (by simpa using h)
          simp [this.1, this.2]

theorem poses_onPoses (f : List P → List P) (l : List Item) (h : (f (poses l)).length = l.length) :
    poses (onPoses f l) = f (poses l) := (zipKeep _ _ h).1

theorem stampsOf_onPoses (f : List P → List P) (l : List Item) (h : (f (poses l)).length = l.length) :
    stampsOf (onPoses f l) = stampsOf l := (zipKeep _ _ h).2

theorem length_onPoses (f : List P → List P) (l : List Item) (h : (f (poses l)).length = l.length) :
    (onPoses f l).length = l.length := by
  unfold onPoses; simp [List.length_zipWith, h]

@[simp] theorem poses_length (l : List Item) : (poses l).length = l.length := by simp [poses]

/-! ### every pose-list function of the model preserves the length -/

theorem propagate_length (p0 : P) (ds : List P) : (propagate p0 ds).length = ds.length + 1 := by
  induction ds generalizing p0 with
  | nil => rfl
  | cons d r ih => simp [propagate, ih]

theorem relsOf_length (ps : List P) : (relsOf ps).length = ps.length - 1 := by
  induction ps with
  | nil => rfl
  | cons a r ih =>
      cases r with
      | nil => rfl
      | cons b r' => simp only [relsOf, List.length_cons, ih]; omega

theorem transformPoses_length (m : Mode) (T : P) (ps : List P) : (transformPoses m T ps).length = ps.length := by
  cases m with
  | left => simp [transformPoses]
  | right => simp [transformPoses]
  | prop =>
      cases ps with
      | nil => rfl
      | cons p0 r => simp [transformPoses, propagate_length, relsOf_length]

theorem unscalePow_length (s : Rat) (e : Nat) (ps : List P) : (unscalePow s e ps).length = ps.length := by
  induction ps generalizing e with
  | nil => rfl
  | cons p r ih => simp [unscalePow, ih]

theorem normalise_length (m : Mode) (s : Rat) (ps : List P) : (normalise m s ps).length = ps.length := by
  cases m <;> simp [normalise, unscalePow_length]

theorem transformFull_length (m : Mode) (T : P) (norm : Option Rat) (ps : List P) :
    (transformFull m T norm ps).length = ps.length := by
  cases norm <;> simp [transformFull, normalise_length, transformPoses_length]

theorem projPoses_length (nd : Nat) (qs : List (M3 Rat)) (ps : List P) : (projPoses nd qs ps).length = ps.length := by
  induction ps generalizing qs with
  | nil => cases qs <;> rfl
  | cons p r ih => cases qs <;> simp [projPoses, ih]

/-! ### the invariant -/

/-- every present cache equals the corresponding view of the abstract trajectory (hence all
present caches and the stamps have the same length); at least one complete representation is
present; the flags agree -/
structure Inv (s : St) (a : ATraj) : Prop where
  pos : ∀ l, s.pos? = some l → l = (poses a.items).map (·.t)
  quat : ∀ l, s.quat? = some l → l = (poses a.items).map (·.rot)
  se3 : ∀ l, s.se3? = some l → l = poses a.items
  wf : s.se3?.isSome = true ∨ (s.pos?.isSome = true ∧ s.quat?.isSome = true)
  timed : a.timed = s.stamps.isSome
  stamps : ∀ l, s.stamps = some l → stampsOf a.items = l.map some
  proj : a.projected = s.projected

theorem Inv.getSe3 {s : St} {a : ATraj} (h : Inv s a) : s.getSe3 = poses a.items := by
  unfold St.getSe3
  cases hs : s.se3? with
  | some l => exact h.se3 l hs
  | none =>
      have hw := h.wf
      rw [hs] at hw
      simp only [Option.isSome_none, Bool.false_eq_true, false_or] at hw
      obtain ⟨l1, h1⟩ := Option.isSome_iff_exists.mp hw.1
      obtain ⟨l2, h2⟩ := Option.isSome_iff_exists.mp hw.2
      simp only [h1, h2, Option.getD_some]
      rw [h.pos l1 h1, h.quat l2 h2]
      exact zipWith_rot_t _

theorem Inv.se3_of_no_pos {s : St} {a : ATraj} (h : Inv s a) (hp : s.pos? = none ∨ s.quat? = none) :
    s.se3? = some (poses a.items) := by
  have hw := h.wf
  rcases hw with hw | hw
  · obtain ⟨l, hl⟩ := Option.isSome_iff_exists.mp hw
    rw [hl, h.se3 l hl]
  · rcases hp with hp | hp
    · rw [hp] at hw; simp at hw
    · rw [hp] at hw; simp at hw

theorem Inv.getPos {s : St} {a : ATraj} (h : Inv s a) : s.getPos = (poses a.items).map (·.t) := by
  unfold St.getPos
  cases hs : s.pos? with
  | some l => exact h.pos l hs
  | none => simp [h.se3_of_no_pos (Or.inl hs)]

theorem Inv.getQuat {s : St} {a : ATraj} (h : Inv s a) : s.getQuat = (poses a.items).map (·.rot) := by
  unfold St.getQuat
  cases hs : s.quat? with
  | some l => exact h.quat l hs
  | none => simp [h.se3_of_no_pos (Or.inr hs)]

theorem Inv.numPoses {s : St} {a : ATraj} (h : Inv s a) : s.numPoses = a.items.length := by
  unfold St.numPoses
  cases hs : s.se3? with
  | some l => simp [h.se3 l hs]
  | none => simp [h.getPos]

theorem Inv.stampsView {s : St} {a : ATraj} (h : Inv s a) : a.stampsView = s.stamps := by
  unfold ATraj.stampsView
  cases hs : s.stamps with
  | none => simp [h.timed, hs]
  | some l =>
      have e := h.stamps l hs
      simp only [h.timed, hs, Option.isSome_some, if_true]
      congr 1
      have : a.items.filterMap (·.2) = (stampsOf a.items).filterMap id := by
        unfold stampsOf; rw [List.filterMap_map]; rfl
      rw [this, e, List.filterMap_map]
      simp

theorem Inv.forceSe3 {s : St} {a : ATraj} (h : Inv s a) : Inv s.forceSe3 a where
  pos := h.pos
  quat := h.quat
  se3 := by intro l hl; simp only [St.forceSe3] at hl; rw [← Option.some.inj hl, h.getSe3]
  wf := by simp [St.forceSe3]
  timed := h.timed
  stamps := h.stamps
  proj := h.proj

theorem Inv.forcePos {s : St} {a : ATraj} (h : Inv s a) : Inv s.forcePos a where
  pos := by intro l hl; simp only [St.forcePos] at hl; rw [← Option.some.inj hl, h.getPos]
  quat := h.quat
  se3 := h.se3
  wf := by
    rcases h.wf with hw | hw
    · exact Or.inl hw
    · exact Or.inr ⟨by simp [St.forcePos], hw.2⟩
  timed := h.timed
  stamps := h.stamps
  proj := h.proj

theorem Inv.forceQuat {s : St} {a : ATraj} (h : Inv s a) : Inv s.forceQuat a where
  pos := h.pos
  quat := by intro l hl; simp only [St.forceQuat] at hl; rw [← Option.some.inj hl, h.getQuat]
  se3 := h.se3
  wf := by
    rcases h.wf with hw | hw
    · exact Or.inl hw
    · exact Or.inr ⟨hw.1, by simp [St.forceQuat]⟩
  timed := h.timed
  stamps := h.stamps
  proj := h.proj

/-- generic step: the matrices are forced and rewritten by a length-preserving `f`; the two other
caches are either recomputed from the new matrices (`refresh`) or deleted -/
theorem Inv.rewrite {s : St} {a : ATraj} (h : Inv s a) (f : List P → List P)
    (hf : ∀ ps, (f ps).length = ps.length) (refresh : Bool) (pr : Bool) :
    Inv { s with se3? := some (f s.getSe3),
                 pos? := if refresh then some ((f s.getSe3).map (·.t)) else none,
                 quat? := if refresh then some ((f s.getSe3).map (·.rot)) else none,
                 projected := pr }
        { a with items := onPoses f a.items, projected := pr } := by
  have hl : (f (poses a.items)).length = a.items.length := by rw [hf]; simp
  have hp := poses_onPoses f a.items hl
  refine ⟨?_, ?_, ?_, Or.inl rfl, h.timed, ?_, rfl⟩
  · intro l hl'
    cases refresh
    · simp at hl'
    · simp only [if_true] at hl'; rw [← Option.some.inj hl', hp, h.getSe3]
  · intro l hl'
    cases refresh
    · simp at hl'
    · simp only [if_true] at hl'; rw [← Option.some.inj hl', hp, h.getSe3]
  · intro l hl'; rw [← Option.some.inj hl', hp, h.getSe3]
  · intro l hl'; simp only [stampsOf_onPoses f a.items hl]; exact h.stamps l hl'

theorem Inv.transform {s : St} {a : ATraj} (h : Inv s a) (m : Mode) (T : P) (norm : Option Rat) :
    Inv (s.transform m T norm) { a with items := onPoses (transformFull m T norm) a.items } := by
  have := h.rewrite (transformFull m T norm) (transformFull_length m T norm) true s.projected
  simp only [if_true] at this
  have e : ({ a with items := onPoses (transformFull m T norm) a.items, projected := s.projected } : ATraj)
      = { a with items := onPoses (transformFull m T norm) a.items } := by rw [← h.proj]
  rw [e] at this
  exact this

theorem Inv.project {s : St} {a : ATraj} (h : Inv s a) (nd : Nat) (rots : List (M3 Rat)) :
    Inv (s.project nd rots) { a with items := onPoses (projPoses nd rots) a.items, projected := true } := by
  have := h.rewrite (projPoses nd rots) (projPoses_length nd rots) false true
  simpa [St.project] using this

theorem scale_views (c : Rat) (ps : List P) :
    (ps.map (scalePose c)).map (·.t) = (ps.map (·.t)).map (V3.smul c) ∧
    (ps.map (scalePose c)).map (·.rot) = ps.map (·.rot) := by
  constructor <;> simp [List.map_map, Function.comp_def, scalePose]

theorem Inv.scale {s : St} {a : ATraj} (h : Inv s a) (c : Rat) :
    Inv (s.scale c) { a with items := onPoses (List.map (scalePose c)) a.items } := by
  have hl : ((List.map (scalePose c)) (poses a.items)).length = a.items.length := by simp
  have hp := poses_onPoses (List.map (scalePose c)) a.items hl
  have hv := scale_views c (poses a.items)
  refine ⟨?_, ?_, ?_, ?_, h.timed, ?_, h.proj⟩
  · intro l hl'
    simp only [St.scale, Option.map_eq_some_iff] at hl'
    obtain ⟨l0, h0, rfl⟩ := hl'
    rw [hp, hv.1, h.pos l0 h0]
  · intro l hl'
    simp only [St.scale] at hl'
    rw [hp, hv.2]; exact h.quat l hl'
  · intro l hl'
    simp only [St.scale, Option.map_eq_some_iff] at hl'
    obtain ⟨l0, h0, rfl⟩ := hl'
    rw [hp, h.se3 l0 h0]
  · simpa [St.scale] using h.wf
  · intro l hl'; simp only [stampsOf_onPoses _ a.items hl]; exact h.stamps l hl'

theorem Inv.reduce {s : St} {a : ATraj} (h : Inv s a) (ids : List Nat) :
    Inv (s.reduce ids) { a with items := reduceIds a.items ids } := by
  refine ⟨?_, ?_, ?_, ?_, ?_, ?_, h.proj⟩
  · intro l hl'
    simp only [St.reduce, Option.map_eq_some_iff] at hl'
    obtain ⟨l0, h0, rfl⟩ := hl'
    rw [h.pos l0 h0]; simp only [poses, reduceIds_map]
  · intro l hl'
    simp only [St.reduce, Option.map_eq_some_iff] at hl'
    obtain ⟨l0, h0, rfl⟩ := hl'
    rw [h.quat l0 h0]; simp only [poses, reduceIds_map]
  · intro l hl'
    simp only [St.reduce, Option.map_eq_some_iff] at hl'
    obtain ⟨l0, h0, rfl⟩ := hl'
    rw [h.se3 l0 h0]; simp only [poses, reduceIds_map]
  · simpa [St.reduce] using h.wf
  · simpa [St.reduce] using h.timed
  · intro l hl'
    simp only [St.reduce, Option.map_eq_some_iff] at hl'
    obtain ⟨l0, h0, rfl⟩ := hl'
    have := h.stamps l0 h0
    simp only [stampsOf] at this ⊢
    rw [← reduceIds_map, this, reduceIds_map]

theorem Inv.align {s : St} {a : ATraj} (h : Inv s a) (am : AlignMode) (r : M3 Rat) (t : V3 Rat) (c : Rat)
    (norm : Option Rat) :
    Inv (s.align am r t c norm) { a with items := alignItems am r t c norm a.items } := by
  cases am with
  | rigid => exact h.forcePos.transform .left (se3Of r t) norm
  | withScale => exact (h.forcePos.scale c).transform .left (se3Of r t) norm
  | onlyScale => exact h.forcePos.scale c

/-! ### constructors -/

theorem mkItems_views (ps : List P) (st : Option (List Rat)) (hl : ∀ l, st = some l → l.length = ps.length) :
    poses (mkItems ps st) = ps ∧ ∀ l, st = some l → stampsOf (mkItems ps st) = l.map some := by
  cases st with
  | none => simp [mkItems, poses, List.map_map, Function.comp_def]
  | some l =>
      have hlen := hl l rfl
      constructor
      · simp only [mkItems, poses]
        clear hl
        induction ps generalizing l with
        | nil => simp
        | cons p r ih =>
            cases l with
            | nil => simp at hlen
            | cons t l' => simp [ih l' (by simpa using hlen)]
      · intro l' hl'
        cases hl'
        simp only [mkItems, stampsOf]
        clear hl
        induction ps generalizing l with
        | nil => cases l <;> simp_all
        | cons p r ih =>
            cases l with
            | nil => simp at hlen
            | cons t l' => simp [ih l' (by simpa using hlen)]

/-! ### proper rigid poses (what `lie.is_se3` accepts: `RᵀR = I`, `det R = 1`) -/

def Proper (p : P) : Prop := IsRot p.rot

theorem IsRot.mul {a b : M3 Rat} (ha : IsRot a) (hb : IsRot b) : IsRot (a.mul b) :=
  ⟨IsOrtho.mul ha.1 hb.1, by rw [M3.det_mul, ha.2, hb.2]; norm_num⟩

theorem IsRot.transpose {a : M3 Rat} (ha : IsRot a) : IsRot a.transpose :=
  ⟨ha.1.transpose, by rw [M3.det_transpose, ha.2]⟩

theorem Proper.mul {a b : P} (ha : Proper a) (hb : Proper b) : Proper (a.mul b) := IsRot.mul ha hb
theorem Proper.inv {a : P} (ha : Proper a) : Proper a.inv := IsRot.transpose ha
theorem Proper.rel {a b : P} (ha : Proper a) (hb : Proper b) : Proper (a.rel b) := Proper.mul ha.inv hb
theorem Proper.rigid {a : P} (ha : Proper a) : IsRigid a := ha.1

theorem smul_mul_left (k : Rat) (a b : M3 Rat) : (M3.smul k a).mul b = M3.smul k (a.mul b) := by
  ext <;> lin_unfold <;> ring
theorem smul_mul_right (k : Rat) (a b : M3 Rat) : a.mul (M3.smul k b) = M3.smul k (a.mul b) := by
  ext <;> lin_unfold <;> ring
theorem smul_smul' (k l : Rat) (a : M3 Rat) : M3.smul k (M3.smul l a) = M3.smul (k * l) a := by
  ext <;> lin_unfold <;> ring
theorem one_smul' (a : M3 Rat) : M3.smul 1 a = a := by ext <;> lin_unfold <;> ring

theorem unscale_smul (k : Rat) (hk : k ≠ 0) (a : M3 Rat) : M3.smul (1 / k) (M3.smul k a) = a := by
  rw [smul_smul', one_div_mul_cancel hk, one_smul']

theorem mem_reduceIds {α} {l : List α} {ids : List Nat} {x : α} (h : x ∈ reduceIds l ids) : x ∈ l := by
  unfold reduceIds at h
  obtain ⟨i, _, hi⟩ := List.mem_filterMap.mp h
  exact List.mem_of_getElem? hi

theorem propagate_head (p0 : P) (ds : List P) : ∃ tl, propagate p0 ds = p0 :: tl := by
  cases ds <;> exact ⟨_, rfl⟩

theorem relsOf_mem_proper {ps : List P} (h : ∀ p ∈ ps, Proper p) : ∀ d ∈ relsOf ps, Proper d := by
  induction ps with
  | nil => intro d hd; simp [relsOf] at hd
  | cons a r ih =>
      cases r with
      | nil => intro d hd; simp [relsOf] at hd
      | cons b r' =>
          intro d hd
          simp only [relsOf, List.mem_cons] at hd
          rcases hd with rfl | hd
          · exact Proper.rel (h a (by simp)) (h b (by simp))
          · exact ih (fun p hp => h p (List.mem_cons_of_mem _ hp)) d hd

theorem propagate_proper {p0 : P} {ds : List P} (h0 : Proper p0) (hd : ∀ d ∈ ds, Proper d) :
    ∀ p ∈ propagate p0 ds, Proper p := by
  induction ds generalizing p0 with
  | nil => intro p hp; simp only [propagate, List.mem_singleton] at hp; exact hp ▸ h0
  | cons d r ih =>
      intro p hp
      simp only [propagate, List.mem_cons] at hp
      rcases hp with rfl | hp
      · exact h0
      · exact ih (Proper.mul h0 (hd d (by simp))) (fun x hx => hd x (List.mem_cons_of_mem _ hx)) p hp

/-- the relative motions of a propagated chain are the ones that were put in -/
theorem relsOf_propagate {p0 : P} {ds : List P} (h0 : Proper p0) (hd : ∀ d ∈ ds, Proper d) :
    relsOf (propagate p0 ds) = ds := by
  induction ds generalizing p0 with
  | nil => rfl
  | cons d r ih =>
      have hq : Proper (p0.mul d) := Proper.mul h0 (hd d (by simp))
      obtain ⟨tl, htl⟩ := propagate_head (p0.mul d) r
      have := ih hq (fun x hx => hd x (List.mem_cons_of_mem _ hx))
      simp only [propagate, htl, relsOf] at this ⊢
      rw [this]
      congr 1
      unfold Pose.rel
      rw [← Pose.mul_assoc', Pose.inv_mul_self h0.rigid, Pose.one_mul']

/-- Sim(3) propagation: a chain whose steps have rotation blocks `s·(rotation)` stays proper after
dividing the `i`-th block by `s^(e+i)` -/
theorem unscalePow_propagate_proper (s : Rat) (hs : s ≠ 0) {ds : List P} (e : Nat) (p0 : P) (q0 : M3 Rat)
    (h0 : IsRot q0) (hp0 : p0.rot = M3.smul (s ^ e) q0)
    (hd : ∀ d ∈ ds, ∃ q, IsRot q ∧ d.rot = M3.smul s q) :
    ∀ p ∈ unscalePow s e (propagate p0 ds), Proper p := by
  induction ds generalizing e p0 q0 with
  | nil =>
      intro p hp
      simp only [propagate, unscalePow, List.mem_singleton] at hp
      subst hp
      simp only [Proper, unscale, hp0]
      rw [unscale_smul _ (pow_ne_zero _ hs)]; exact h0
  | cons d r ih =>
      intro p hp
      simp only [propagate, unscalePow, List.mem_cons] at hp
      rcases hp with rfl | hp
      · simp only [Proper, unscale, hp0]
        rw [unscale_smul _ (pow_ne_zero _ hs)]; exact h0
      · obtain ⟨q, hq, hdq⟩ := hd d (by simp)
        refine ih (e + 1) (p0.mul d) (q0.mul q) (IsRot.mul h0 hq) ?_
          (fun x hx => hd x (List.mem_cons_of_mem _ hx)) p hp
        simp only [Pose.mul, hp0, hdq]
        rw [smul_mul_left, smul_mul_right, smul_smul', pow_succ]

theorem projPoses_proper {nd : Nat} {qs : List (M3 Rat)} {ps : List P} (hq : ∀ q ∈ qs, IsRot q)
    (hp : ∀ p ∈ ps, Proper p) : ∀ p ∈ projPoses nd qs ps, Proper p := by
  induction ps generalizing qs with
  | nil => intro p h; cases qs <;> simp [projPoses] at h
  | cons a r ih =>
      cases qs with
      | nil =>
          intro p h
          simp only [projPoses, List.mem_cons] at h
          rcases h with rfl | h
          · exact hp a (by simp)
          · exact ih (qs := []) (by simp) (fun x hx => hp x (List.mem_cons_of_mem _ hx)) p h
      | cons q qs' =>
          intro p h
          simp only [projPoses, List.mem_cons] at h
          rcases h with rfl | h
          · exact hq q (by simp)
          · exact ih (fun x hx => hq x (List.mem_cons_of_mem _ hx)) (fun x hx => hp x (List.mem_cons_of_mem _ hx)) p h

/-! ### `check()` on proper poses -/

theorem orthoResid_zero {r : M3 Rat} (h : IsRot r) : orthoResid r = 0 := by
  have h1 : r.transpose.mul r = M3.one := h.1
  have h2 : r.det = 1 := h.2
  unfold orthoResid
  rw [h1, h2]
  decide +kernel

theorem properRot_true {r : M3 Rat} (h : IsRot r) : properRot r = true := by
  have h1 : r.transpose.mul r = M3.one := h.1
  simp [properRot, h1, h.2]

theorem maxResid_zero {ps : List P} (h : ∀ p ∈ ps, Proper p) : maxResid ps = 0 := by
  unfold maxResid
  induction ps with
  | nil => rfl
  | cons a r ih =>
      have ha : orthoResid a.rot = 0 := orthoResid_zero (h a (by simp))
      simp only [List.foldl_cons, ha, lt_irrefl, if_false]
      exact ih (fun x hx => h x (List.mem_cons_of_mem _ hx))

/-! ### ascending time stamps -/

theorem strictAsc_iff (l : List Rat) : strictAsc l = true ↔ l.Pairwise (· < ·) := by
  induction l with
  | nil => simp [strictAsc]
  | cons a r ih =>
      cases r with
      | nil => simp [strictAsc]
      | cons b r' =>
          simp only [strictAsc, Bool.and_eq_true, decide_eq_true_eq, ih]
          constructor
          · rintro ⟨hab, hp⟩
            refine List.pairwise_cons.mpr ⟨?_, hp⟩
            intro x hx
            rcases List.mem_cons.mp hx with rfl | hx
            · exact hab
            · exact lt_trans hab ((List.pairwise_cons.mp hp).1 x hx)
          · intro hp
            have := List.pairwise_cons.mp hp
            exact ⟨this.1 b (by simp), this.2⟩

/-- selecting strictly increasing indices from a strictly increasing list keeps it strictly increasing -/
theorem reduce_pairwise (l : List Rat) (ids : List Nat) (hl : l.Pairwise (· < ·)) (hi : ids.Pairwise (· < ·)) :
    (reduceIds l ids).Pairwise (· < ·) := by
  unfold reduceIds
  refine List.Pairwise.filterMap (fun i => l[i]?) ?_ hi
  intro i j hij b hb b' hb'
  obtain ⟨hi', rfl⟩ := List.getElem?_eq_some_iff.mp hb
  obtain ⟨hj', rfl⟩ := List.getElem?_eq_some_iff.mp hb'
  exact List.pairwise_iff_getElem.mp hl i j hi' hj' hij

end Evo.Traj
