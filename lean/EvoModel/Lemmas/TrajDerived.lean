/-
How the derived quantities of a trajectory (`path_length`, `distances`, `speeds`: functions of the
squared step lengths `segSq`; `duration`: a function of the stamps) change under the operations of
`Model/Traj.lean`: helper lemmas for the last section of `Props/C08.lean`.
-/
import EvoModel.Model.Traj
import EvoModel.Lemmas.Lin
import EvoModel.Lemmas.Traj
import Mathlib.Algebra.Order.Ring.Rat
import Mathlib.Tactic.Ring
import Mathlib.Tactic.FieldSimp
namespace Evo.Traj
open Evo

/-! ### `segSq` under a map of the positions -/

/-- a map of the positions that multiplies every squared distance by `k` multiplies every squared
step length by `k` -/
theorem segSq_map_of_dist (f : V3 Rat → V3 Rat) (k : Rat)
    (hf : ∀ a b, V3.normSq (V3.sub (f a) (f b)) = k * V3.normSq (V3.sub a b)) (l : List (V3 Rat)) :
    segSq (l.map f) = (segSq l).map (k * ·) := by
  induction l with
  | nil => rfl
  | cons a r ih =>
      cases r with
      | nil => rfl
      | cons b r' =>
          simp only [List.map_cons, segSq] at ih ⊢
          rw [hf a b, ih]

/-- an isometry of the positions changes no step length -/
theorem segSq_map_of_isometry (f : V3 Rat → V3 Rat)
    (hf : ∀ a b, V3.normSq (V3.sub (f a) (f b)) = V3.normSq (V3.sub a b)) (l : List (V3 Rat)) :
    segSq (l.map f) = segSq l := by
  have := segSq_map_of_dist f 1 (fun a b => by rw [hf, one_mul]) l
  rw [this]
  simp

/-- `x ↦ s·R·x + t` with orthonormal `R` multiplies squared distances by `s²` -/
theorem similarity_dist {R : M3 Rat} (hR : IsOrtho R) (s : Rat) (t a b : V3 Rat) :
    V3.normSq (V3.sub (V3.add ((M3.smul s R).mulVec a) t) (V3.add ((M3.smul s R).mulVec b) t))
      = s * s * V3.normSq (V3.sub a b) := by
  have e : V3.sub (V3.add ((M3.smul s R).mulVec a) t) (V3.add ((M3.smul s R).mulVec b) t)
      = V3.smul s (R.mulVec (V3.sub a b)) := by
    ext <;> lin_unfold <;> ring
  have n : ∀ v : V3 Rat, V3.normSq (V3.smul s v) = s * s * V3.normSq v := by
    intro v; lin_unfold; ring
  rw [e, n, normSq_mulVec_of_ortho hR]

/-- `x ↦ R·x + t` with orthonormal `R` is an isometry -/
theorem rigid_dist {R : M3 Rat} (hR : IsOrtho R) (t a b : V3 Rat) :
    V3.normSq (V3.sub (V3.add (R.mulVec a) t) (V3.add (R.mulVec b) t)) = V3.normSq (V3.sub a b) := by
  have e : V3.sub (V3.add (R.mulVec a) t) (V3.add (R.mulVec b) t) = R.mulVec (V3.sub a b) := by
    ext <;> lin_unfold <;> ring
  rw [e, normSq_mulVec_of_ortho hR]

theorem scale_dist (c : Rat) (a b : V3 Rat) :
    V3.normSq (V3.sub (V3.smul c a) (V3.smul c b)) = c * c * V3.normSq (V3.sub a b) := by
  lin_unfold; ring

/-- positions after a left multiplication: `T.rot·x + T.t` -/
theorem positions_mul_left (T : P) (ps : List P) :
    (ps.map (fun p => T.mul p)).map (·.t) = (ps.map (·.t)).map (fun x => V3.add (T.rot.mulVec x) T.t) := by
  simp [List.map_map, Function.comp_def, Pose.mul]

/-- positions after the normalised Sim(3) left multiplication: the normalisation divides the
rotation block only -/
theorem positions_sim3_left (R : M3 Rat) (t : V3 Rat) (s : Rat) (ps : List P) :
    (transformFull .left (Pose.sim3 R t s) (some s) ps).map (·.t)
      = (ps.map (·.t)).map (fun x => V3.add ((M3.smul s R).mulVec x) t) := by
  simp [transformFull, normalise, transformPoses, List.map_map, Function.comp_def, unscale, Pose.mul, Pose.sim3]

/-! ### `segSq` of a contiguous sub-list -/

theorem segSq_length (l : List (V3 Rat)) : (segSq l).length = l.length - 1 := by
  induction l with
  | nil => rfl
  | cons a r ih =>
      cases r with
      | nil => rfl
      | cons b r' => simp only [segSq, List.length_cons, ih]; omega

theorem segSq_drop (l : List (V3 Rat)) (i : Nat) : segSq (l.drop i) = (segSq l).drop i := by
  induction i generalizing l with
  | zero => rfl
  | succ i ih =>
      cases l with
      | nil => simp [segSq]
      | cons a r =>
          cases r with
          | nil => simp [segSq]
          | cons b r' =>
              simp only [List.drop_succ_cons, segSq]
              exact ih (b :: r')

/-- the first `k` positions have the first `k − 1` steps -/
theorem segSq_take (l : List (V3 Rat)) (k : Nat) : segSq (l.take k) = (segSq l).take (k - 1) := by
  induction k generalizing l with
  | zero => simp [segSq]
  | succ k ih =>
      cases l with
      | nil => simp [segSq]
      | cons a r =>
          cases r with
          | nil => simp [segSq]
          | cons b r' =>
              cases k with
              | zero => simp [segSq]
              | succ k' =>
                  have := ih (b :: r')
                  simp only [List.take_succ_cons, segSq, Nat.add_sub_cancel] at this ⊢
                  rw [this]

/-- selecting the contiguous index range `i, i+1, …, i+k−1` is `drop i` then `take k` (indices past
the end select nothing, like `take`) -/
theorem reduceIds_range' {α} (l : List α) (i k : Nat) :
    reduceIds l (List.range' i k) = (l.drop i).take k := by
  unfold reduceIds
  induction k generalizing i with
  | zero => simp
  | succ k ih =>
      rw [List.range'_succ, List.filterMap_cons, ih (i + 1)]
      cases h : l[i]? with
      | none =>
          have hl : l.length ≤ i := by simpa using h
          simp [List.drop_eq_nil_of_le hl, List.drop_eq_nil_of_le (Nat.le_succ_of_le hl)]
      | some x =>
          obtain ⟨hi, rfl⟩ := List.getElem?_eq_some_iff.mp h
          rw [List.drop_eq_getElem_cons hi, List.take_succ_cons]

/-! ### operations that leave the item list's stamps alone -/

/-- the operations that rewrite the poses in place (`specStep` is an `onPoses …`) -/
def Op.isGeometric : Op → Bool
  | .transform .. => true
  | .scale _ => true
  | .align .. => true
  | .alignOrigin .. => true
  | .project .. => true
  | _ => false

/-- the operations that select items (`specStep` is a `reduceIds …`) -/
def Op.isSelection : Op → Bool
  | .reduce _ => true
  | .reduceInt _ => true
  | .downsample .. => true
  | .motionFilter _ => true
  | .crop _ => true
  | _ => false

theorem stampsOf_onPoses_transformFull (m : Mode) (T : P) (norm : Option Rat) (l : List Item) :
    stampsOf (onPoses (transformFull m T norm) l) = stampsOf l :=
  stampsOf_onPoses _ _ (by rw [transformFull_length]; simp)

theorem stampsOf_onPoses_scale (c : Rat) (l : List Item) :
    stampsOf (onPoses (List.map (scalePose c)) l) = stampsOf l :=
  stampsOf_onPoses _ _ (by simp)

theorem stampsOf_onPoses_proj (nd : Nat) (rots : List (M3 Rat)) (l : List Item) :
    stampsOf (onPoses (projPoses nd rots) l) = stampsOf l :=
  stampsOf_onPoses _ _ (by rw [projPoses_length]; simp)

theorem stampsOf_alignItems (am : AlignMode) (r : M3 Rat) (t : V3 Rat) (c : Rat) (norm : Option Rat)
    (l : List Item) : stampsOf (alignItems am r t c norm l) = stampsOf l := by
  cases am with
  | rigid => exact stampsOf_onPoses_transformFull _ _ _ _
  | withScale =>
      simp only [alignItems]
      rw [stampsOf_onPoses_transformFull, stampsOf_onPoses_scale]
  | onlyScale => exact stampsOf_onPoses_scale _ _

/-- every operation that is not a selection leaves the stamps as they are -/
theorem stampsOf_specStep_of_not_selection (a : ATraj) (op : Op) (h : op.isSelection = false) :
    stampsOf (specStep a op).1.items = stampsOf a.items := by
  cases op with
  | transform m T norm => exact stampsOf_onPoses_transformFull _ _ _ _
  | scale c => exact stampsOf_onPoses_scale _ _
  | reduce ids => simp [Op.isSelection] at h
  | reduceInt ids => simp [Op.isSelection] at h
  | downsample n ids => simp [Op.isSelection] at h
  | motionFilter ids => simp [Op.isSelection] at h
  | crop ids => simp [Op.isSelection] at h
  | align am r t c norm => exact stampsOf_alignItems _ _ _ _ _ _
  | alignOrigin ref norm =>
      simp only [specStep]
      cases poses a.items with
      | nil => rfl
      | cons p0 r => exact stampsOf_onPoses_transformFull _ _ _ _
  | project nd rots =>
      simp only [specStep]
      split
      · rfl
      · exact stampsOf_onPoses_proj _ _ _
  | copy => rfl
  | read v => rfl
  | check => rfl

theorem Op.not_selection_of_geometric {op : Op} (h : op.isGeometric = true) : op.isSelection = false := by
  cases op <;> simp_all [Op.isGeometric, Op.isSelection]

end Evo.Traj
