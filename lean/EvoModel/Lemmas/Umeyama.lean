/-
Lemmas for C03 (Umeyama alignment): finite sums over point lists, completion of the square
(`resid_decomp`), optimality of every output passing the exact certificate (`Cert`), reading
`umeCert 0 = true` as `Cert`, refusal of the degenerate classes, noise-free recovery,
equivariance of the residual.
-/
import EvoModel.Lemmas.TraceMax
import Mathlib.Algebra.Order.Ring.Rat
namespace Evo.Ume
open Evo

set_option linter.unusedSectionVars false
set_option linter.unusedVariables false

section field
variable {K : Type} [Field K]

/-! ### finite sums over lists -/

theorem sumMap_nil {α : Type} (f : α → K) : sumMap f [] = 0 := rfl
theorem sumMap_cons {α : Type} (f : α → K) (a : α) (l : List α) : sumMap f (a :: l) = f a + sumMap f l := rfl

theorem sumMap_congr {α : Type} {f g : α → K} (l : List α) (h : ∀ a, f a = g a) : sumMap f l = sumMap g l := by
  induction l with
  | nil => rfl
  | cons a l ih => simp only [sumMap_cons, ih, h]

theorem sumMap_add {α : Type} (f g : α → K) (l : List α) :
    sumMap (fun a => f a + g a) l = sumMap f l + sumMap g l := by
  induction l with
  | nil => simp [sumMap_nil]
  | cons a l ih => simp only [sumMap_cons, ih]; ring

theorem sumMap_sub {α : Type} (f g : α → K) (l : List α) :
    sumMap (fun a => f a - g a) l = sumMap f l - sumMap g l := by
  induction l with
  | nil => simp [sumMap_nil]
  | cons a l ih => simp only [sumMap_cons, ih]; ring

theorem sumMap_mul_left {α : Type} (c : K) (f : α → K) (l : List α) :
    sumMap (fun a => c * f a) l = c * sumMap f l := by
  induction l with
  | nil => simp [sumMap_nil]
  | cons a l ih => simp only [sumMap_cons, ih]; ring

theorem sumMap_const {α : Type} (c : K) (l : List α) : sumMap (fun _ => c) l = cnt l * c := by
  induction l with
  | nil => simp [sumMap_nil, cnt]
  | cons a l ih => simp only [sumMap_cons, ih, cnt, List.length_cons, Nat.cast_succ]; ring

theorem sumMap_zip_fst {α β : Type} (f : α → K) (x : List α) (y : List β) (h : x.length = y.length) :
    sumMap (fun p : α × β => f p.1) (x.zip y) = sumMap f x := by
  induction x generalizing y with
  | nil => rfl
  | cons a x ih =>
    cases y with
    | nil => simp at h
    | cons b y =>
      simp only [List.zip_cons_cons, sumMap_cons]
      rw [ih y (by simpa using h)]

theorem sumMap_zip_snd {α β : Type} (f : β → K) (x : List α) (y : List β) (h : x.length = y.length) :
    sumMap (fun p : α × β => f p.2) (x.zip y) = sumMap f y := by
  induction x generalizing y with
  | nil => cases y with
    | nil => rfl
    | cons b y => simp at h
  | cons a x ih =>
    cases y with
    | nil => simp at h
    | cons b y =>
      simp only [List.zip_cons_cons, sumMap_cons]
      rw [ih y (by simpa using h)]

theorem cnt_zip {α β : Type} (x : List α) (y : List β) (h : x.length = y.length) :
    (cnt (x.zip y) : K) = cnt x := by
  simp [cnt, List.length_zip, h]

/-- centred first components sum to zero -/
theorem sumMap_center_fst {α β : Type} (f : α → K) (x : List α) (y : List β) (h : x.length = y.length)
    (hn : (cnt x : K) ≠ 0) :
    sumMap (fun p : α × β => f p.1 - sumMap f x / cnt x) (x.zip y) = 0 := by
  rw [sumMap_sub, sumMap_zip_fst f x y h, sumMap_const, cnt_zip x y h]
  field_simp
  ring

theorem sumMap_center_snd {α β : Type} (f : β → K) (x : List α) (y : List β) (h : x.length = y.length)
    (hn : (cnt x : K) ≠ 0) :
    sumMap (fun p : α × β => f p.2 - sumMap f y / cnt y) (x.zip y) = 0 := by
  have hc : (cnt y : K) = cnt x := by simp [cnt, h]
  rw [sumMap_sub, sumMap_zip_snd f x y h, sumMap_const, cnt_zip x y h, hc]
  field_simp
  ring

end field

section field2
variable {K : Type} [Field K]

/-- pointwise completion of the square, every term a constant times a monomial in the centred coordinates -/
theorem resid_pointwise (R : M3 K) (hR : IsOrtho R) (t mx my : V3 K) (c : K) (px py : V3 K) :
    V3.normSq (V3.sub py (simApply R t c px)) =
      V3.normSq (V3.sub py my) + c^2 * V3.normSq (V3.sub px mx)
      + V3.normSq (V3.sub t (V3.sub my (V3.smul c (M3.mulVec R mx))))
      - 2 * c * (R.a00 * ((py.x - my.x) * (px.x - mx.x)) + R.a01 * ((py.x - my.x) * (px.y - mx.y))
          + R.a02 * ((py.x - my.x) * (px.z - mx.z)) + R.a10 * ((py.y - my.y) * (px.x - mx.x))
          + R.a11 * ((py.y - my.y) * (px.y - mx.y)) + R.a12 * ((py.y - my.y) * (px.z - mx.z))
          + R.a20 * ((py.z - my.z) * (px.x - mx.x)) + R.a21 * ((py.z - my.z) * (px.y - mx.y))
          + R.a22 * ((py.z - my.z) * (px.z - mx.z)))
      + 2 * ((my.x - c * (R.a00 * mx.x + R.a01 * mx.y + R.a02 * mx.z) - t.x) * (py.x - my.x)
          + (my.y - c * (R.a10 * mx.x + R.a11 * mx.y + R.a12 * mx.z) - t.y) * (py.y - my.y)
          + (my.z - c * (R.a20 * mx.x + R.a21 * mx.y + R.a22 * mx.z) - t.z) * (py.z - my.z))
      - 2 * c * (((my.x - c * (R.a00 * mx.x + R.a01 * mx.y + R.a02 * mx.z) - t.x) * R.a00
            + (my.y - c * (R.a10 * mx.x + R.a11 * mx.y + R.a12 * mx.z) - t.y) * R.a10
            + (my.z - c * (R.a20 * mx.x + R.a21 * mx.y + R.a22 * mx.z) - t.z) * R.a20) * (px.x - mx.x)
          + ((my.x - c * (R.a00 * mx.x + R.a01 * mx.y + R.a02 * mx.z) - t.x) * R.a01
            + (my.y - c * (R.a10 * mx.x + R.a11 * mx.y + R.a12 * mx.z) - t.y) * R.a11
            + (my.z - c * (R.a20 * mx.x + R.a21 * mx.y + R.a22 * mx.z) - t.z) * R.a21) * (px.y - mx.y)
          + ((my.x - c * (R.a00 * mx.x + R.a01 * mx.y + R.a02 * mx.z) - t.x) * R.a02
            + (my.y - c * (R.a10 * mx.x + R.a11 * mx.y + R.a12 * mx.z) - t.y) * R.a12
            + (my.z - c * (R.a20 * mx.x + R.a21 * mx.y + R.a22 * mx.z) - t.z) * R.a22) * (px.z - mx.z)) := by
  obtain ⟨h00, h01, h02, h11, h12, h22⟩ := hR.eqs
  simp only [simApply, V3.normSq, V3.dot, V3.sub, V3.add, V3.smul, M3.mulVec]
  linear_combination (c^2 * ((px.x - mx.x) * (px.x - mx.x))) * h00
    + (c^2 * (2 * (px.x - mx.x) * (px.y - mx.y))) * h01
    + (c^2 * (2 * (px.x - mx.x) * (px.z - mx.z))) * h02
    + (c^2 * ((px.y - mx.y) * (px.y - mx.y))) * h11
    + (c^2 * (2 * (px.y - mx.y) * (px.z - mx.z))) * h12
    + (c^2 * ((px.z - mx.z) * (px.z - mx.z))) * h22

end field2

section field3
variable {K : Type} [Field K]

/-- **completing the square**: for orthonormal `R`,
`resid = n·(σ_y² + c²σ_x² − 2c·tr(Rᵀ·cov)) + n·‖t − (μ_y − c·R·μ_x)‖²` -/
theorem resid_decomp (x y : List (V3 K)) (R : M3 K) (t : V3 K) (c : K)
    (hlen : x.length = y.length) (hn : (cnt x : K) ≠ 0) (hR : IsOrtho R) :
    resid x y R t c = cnt x * (var y + c^2 * var x - 2 * c * (amat x y R).trace)
      + cnt x * V3.normSq (V3.sub t (tFormula x y R c)) := by
  have hcy : (cnt y : K) = cnt x := by simp [cnt, hlen]
  unfold resid
  refine (sumMap_congr (x.zip y) (fun p : V3 K × V3 K => resid_pointwise R hR t (mean x) (mean y) c p.1 p.2)).trans ?_
  simp only [sumMap_add, sumMap_sub, sumMap_mul_left, sumMap_const]
  have ux : sumMap (fun p : V3 K × V3 K => p.2.x) (x.zip y) - cnt (x.zip y) * (mean y).x = 0 := by
    rw [sumMap_zip_snd V3.x x y hlen, cnt_zip x y hlen]
    show _ - cnt x * (sumMap V3.x y / cnt y) = 0
    rw [hcy]; field_simp
    ring
  have uy : sumMap (fun p : V3 K × V3 K => p.2.y) (x.zip y) - cnt (x.zip y) * (mean y).y = 0 := by
    rw [sumMap_zip_snd V3.y x y hlen, cnt_zip x y hlen]
    show _ - cnt x * (sumMap V3.y y / cnt y) = 0
    rw [hcy]; field_simp
    ring
  have uz : sumMap (fun p : V3 K × V3 K => p.2.z) (x.zip y) - cnt (x.zip y) * (mean y).z = 0 := by
    rw [sumMap_zip_snd V3.z x y hlen, cnt_zip x y hlen]
    show _ - cnt x * (sumMap V3.z y / cnt y) = 0
    rw [hcy]; field_simp
    ring
  have vx : sumMap (fun p : V3 K × V3 K => p.1.x) (x.zip y) - cnt (x.zip y) * (mean x).x = 0 := by
    rw [sumMap_zip_fst V3.x x y hlen, cnt_zip x y hlen]
    show _ - cnt x * (sumMap V3.x x / cnt x) = 0
    field_simp
    ring
  have vy : sumMap (fun p : V3 K × V3 K => p.1.y) (x.zip y) - cnt (x.zip y) * (mean x).y = 0 := by
    rw [sumMap_zip_fst V3.y x y hlen, cnt_zip x y hlen]
    show _ - cnt x * (sumMap V3.y x / cnt x) = 0
    field_simp
    ring
  have vz : sumMap (fun p : V3 K × V3 K => p.1.z) (x.zip y) - cnt (x.zip y) * (mean x).z = 0 := by
    rw [sumMap_zip_fst V3.z x y hlen, cnt_zip x y hlen]
    show _ - cnt x * (sumMap V3.z x / cnt x) = 0
    field_simp
    ring
  have g1 : sumMap (fun p : V3 K × V3 K => V3.normSq (V3.sub p.2 (mean y))) (x.zip y) = cnt x * var y := by
    have := sumMap_zip_snd (fun q => V3.normSq (V3.sub q (mean y))) x y hlen
    rw [this, var, hcy]
    field_simp
  have g2 : sumMap (fun p : V3 K × V3 K => V3.normSq (V3.sub p.1 (mean x))) (x.zip y) = cnt x * var x := by
    have := sumMap_zip_fst (fun q => V3.normSq (V3.sub q (mean x))) x y hlen
    rw [this, var]
    field_simp
  rw [ux, uy, uz, vx, vy, vz, g1, g2, cnt_zip x y hlen]
  have e00 : sumMap (fun p : V3 K × V3 K => (p.2.x - (mean y).x) * (p.1.x - (mean x).x)) (x.zip y) = cnt x * (cov x y).a00 := by
    show _ = cnt x * (1 / cnt x * _); field_simp; rfl
  have e01 : sumMap (fun p : V3 K × V3 K => (p.2.x - (mean y).x) * (p.1.y - (mean x).y)) (x.zip y) = cnt x * (cov x y).a01 := by
    show _ = cnt x * (1 / cnt x * _); field_simp; rfl
  have e02 : sumMap (fun p : V3 K × V3 K => (p.2.x - (mean y).x) * (p.1.z - (mean x).z)) (x.zip y) = cnt x * (cov x y).a02 := by
    show _ = cnt x * (1 / cnt x * _); field_simp; rfl
  have e10 : sumMap (fun p : V3 K × V3 K => (p.2.y - (mean y).y) * (p.1.x - (mean x).x)) (x.zip y) = cnt x * (cov x y).a10 := by
    show _ = cnt x * (1 / cnt x * _); field_simp; rfl
  have e11 : sumMap (fun p : V3 K × V3 K => (p.2.y - (mean y).y) * (p.1.y - (mean x).y)) (x.zip y) = cnt x * (cov x y).a11 := by
    show _ = cnt x * (1 / cnt x * _); field_simp; rfl
  have e12 : sumMap (fun p : V3 K × V3 K => (p.2.y - (mean y).y) * (p.1.z - (mean x).z)) (x.zip y) = cnt x * (cov x y).a12 := by
    show _ = cnt x * (1 / cnt x * _); field_simp; rfl
  have e20 : sumMap (fun p : V3 K × V3 K => (p.2.z - (mean y).z) * (p.1.x - (mean x).x)) (x.zip y) = cnt x * (cov x y).a20 := by
    show _ = cnt x * (1 / cnt x * _); field_simp; rfl
  have e21 : sumMap (fun p : V3 K × V3 K => (p.2.z - (mean y).z) * (p.1.y - (mean x).y)) (x.zip y) = cnt x * (cov x y).a21 := by
    show _ = cnt x * (1 / cnt x * _); field_simp; rfl
  have e22 : sumMap (fun p : V3 K × V3 K => (p.2.z - (mean y).z) * (p.1.z - (mean x).z)) (x.zip y) = cnt x * (cov x y).a22 := by
    show _ = cnt x * (1 / cnt x * _); field_simp; rfl
  rw [e00, e01, e02, e10, e11, e12, e20, e21, e22]
  simp only [amat, tFormula, M3.trace, M3.mul, M3.transpose]
  ring

end field3

section order
variable {K : Type} [Field K] [LinearOrder K] [IsStrictOrderedRing K]

theorem sumMap_nonneg {α : Type} (f : α → K) (l : List α) (h : ∀ a, 0 ≤ f a) : 0 ≤ sumMap f l := by
  induction l with
  | nil => simp [sumMap_nil]
  | cons a l ih => rw [sumMap_cons]; exact add_nonneg (h a) ih

theorem normSq_nonneg (v : V3 K) : 0 ≤ V3.normSq v := by
  simp only [V3.normSq, V3.dot]
  nlinarith [mul_self_nonneg v.x, mul_self_nonneg v.y, mul_self_nonneg v.z]

theorem normSq_eq_zero {v : V3 K} (h : V3.normSq v = 0) : v = V3.zero := by
  simp only [V3.normSq, V3.dot] at h
  have hx : v.x * v.x = 0 := by nlinarith [mul_self_nonneg v.x, mul_self_nonneg v.y, mul_self_nonneg v.z]
  have hy : v.y * v.y = 0 := by nlinarith [mul_self_nonneg v.x, mul_self_nonneg v.y, mul_self_nonneg v.z]
  have hz : v.z * v.z = 0 := by nlinarith [mul_self_nonneg v.x, mul_self_nonneg v.y, mul_self_nonneg v.z]
  ext
  · exact mul_self_eq_zero.mp hx
  · exact mul_self_eq_zero.mp hy
  · exact mul_self_eq_zero.mp hz

theorem cnt_pos {α : Type} (x : List α) (h : x ≠ []) : 0 < (cnt x : K) := by
  have : 0 < x.length := List.length_pos_iff.mpr h
  simpa [cnt] using this

theorem var_nonneg (x : List (V3 K)) : 0 ≤ var x := by
  unfold var
  rcases Nat.eq_zero_or_pos x.length with h0 | hpos
  · have : x = [] := List.length_eq_zero_iff.mp h0
    subst this; simp [sumMap_nil]
  · have hc : 0 < (cnt x : K) := by simpa [cnt] using hpos
    exact mul_nonneg (by positivity) (sumMap_nonneg _ _ (fun a => normSq_nonneg _))

theorem resid_nonneg (x y : List (V3 K)) (R : M3 K) (t : V3 K) (c : K) : 0 ≤ resid x y R t c :=
  sumMap_nonneg _ _ (fun a => normSq_nonneg _)

/-- the exact certificate as a proposition (what `umeCert 0 = true` means) -/
structure Cert (withScale : Bool) (x y : List (V3 K)) (R : M3 K) (t : V3 K) (c : K) : Prop where
  rot : IsRot R
  trans : t = tFormula x y R c
  sym : (amat x y R).transpose = amat x y R
  psd : IsPSD (bmat (amat x y R))
  scale : if withScale = true then (c * var x = (amat x y R).trace ∧ 0 < c) else c = 1

/-- **`traceMax_of_cert`**: under the certificate no proper rotation has a larger `tr(R'ᵀ·cov)` -/
theorem traceMax_of_cert {ws : Bool} {x y : List (V3 K)} {R : M3 K} {t : V3 K} {c : K}
    (h : Cert ws x y R t c) (R' : M3 K) (hR' : IsRot R') :
    (amat x y R').trace ≤ (amat x y R).trace := by
  have hRRt := h.rot.1.mul_transpose
  have e : amat x y R' = (R'.transpose.mul R).mul (amat x y R) := by
    unfold amat
    rw [M3.mul_assoc', ← M3.mul_assoc' R, hRRt, M3.one_mul']
  rw [e]
  exact traceMax _ _ (hR'.transpose.mul h.rot) h.sym h.psd

theorem normSq_sub_self (t : V3 K) : V3.normSq (V3.sub t t) = 0 := by
  simp only [V3.normSq, V3.dot, V3.sub]; ring

/-- optimality among all similarity transformations with proper rotation and scale `c' ≥ 0` -/
theorem optimal_sim {x y : List (V3 K)} {R : M3 K} {t : V3 K} {c : K}
    (h : Cert true x y R t c) (hlen : x.length = y.length) (hne : x ≠ [])
    (R' : M3 K) (t' : V3 K) (c' : K) (hR' : IsRot R') (hc' : 0 ≤ c') :
    resid x y R t c ≤ resid x y R' t' c' := by
  have hn := cnt_pos (K := K) x hne
  rw [resid_decomp x y R t c hlen hn.ne' h.rot.1, resid_decomp x y R' t' c' hlen hn.ne' hR'.1]
  have hT := traceMax_of_cert h R' hR'
  have hs := h.scale
  simp only [if_true] at hs
  obtain ⟨hcv, _⟩ := hs
  have hv := var_nonneg x
  rw [← h.trans, normSq_sub_self]
  have hN := normSq_nonneg (V3.sub t' (tFormula x y R' c'))
  have key : var y + c ^ 2 * var x - 2 * c * (amat x y R).trace
      ≤ var y + c' ^ 2 * var x - 2 * c' * (amat x y R').trace := by
    rw [← hcv] at hT ⊢
    nlinarith [mul_nonneg hv (sq_nonneg (c' - c)), mul_nonneg hc' (sub_nonneg.mpr hT)]
  nlinarith [mul_le_mul_of_nonneg_left key hn.le, mul_nonneg hn.le hN]

/-- optimality among all rigid transformations with proper rotation -/
theorem optimal_rigid {x y : List (V3 K)} {R : M3 K} {t : V3 K} {c : K}
    (h : Cert false x y R t c) (hlen : x.length = y.length) (hne : x ≠ [])
    (R' : M3 K) (t' : V3 K) (hR' : IsRot R') :
    resid x y R t c ≤ resid x y R' t' 1 := by
  have hn := cnt_pos (K := K) x hne
  rw [resid_decomp x y R t c hlen hn.ne' h.rot.1, resid_decomp x y R' t' 1 hlen hn.ne' hR'.1]
  have hT := traceMax_of_cert h R' hR'
  have hs := h.scale
  simp only [Bool.false_eq_true, if_false] at hs
  rw [← h.trans, normSq_sub_self, hs]
  have hN := normSq_nonneg (V3.sub t' (tFormula x y R' 1))
  have key : var y + 1 ^ 2 * var x - 2 * 1 * (amat x y R).trace
      ≤ var y + 1 ^ 2 * var x - 2 * 1 * (amat x y R').trace := by linarith
  nlinarith [mul_le_mul_of_nonneg_left key hn.le, mul_nonneg hn.le hN]

end order

section rat

theorem absR_nonneg (a : Rat) : 0 ≤ absR a := by unfold absR; split_ifs <;> linarith

theorem absR_le_zero {a : Rat} (h : absR a ≤ 0) : a = 0 := by
  unfold absR at h; split_ifs at h <;> linarith

theorem linfV_le_zero {v : V3 Rat} (h : linfV v ≤ 0) : v = V3.zero := by
  unfold linfV at h
  simp only [max_le_iff] at h
  obtain ⟨h1, h2, h3⟩ := h
  ext
  · exact absR_le_zero h1
  · exact absR_le_zero h2
  · exact absR_le_zero h3

theorem linfM_le_zero {m : M3 Rat} (h : linfM m ≤ 0) : m = M3.zero := by
  unfold linfM at h
  simp only [max_le_iff] at h
  obtain ⟨⟨⟨h1, h2⟩, h3, h4⟩, ⟨h5, h6⟩, ⟨h7, h8⟩, h9⟩ := h
  ext
  · exact absR_le_zero h1
  · exact absR_le_zero h2
  · exact absR_le_zero h3
  · exact absR_le_zero h4
  · exact absR_le_zero h5
  · exact absR_le_zero h6
  · exact absR_le_zero h7
  · exact absR_le_zero h8
  · exact absR_le_zero h9

theorem M3.sub_eq_zero {a b : M3 Rat} (h : M3.sub a b = M3.zero) : a = b := by
  have e := fun (f : M3 Rat → Rat) => congrArg f h
  ext
  · have := e M3.a00; simp only [M3.sub, M3.zero] at this; linarith
  · have := e M3.a01; simp only [M3.sub, M3.zero] at this; linarith
  · have := e M3.a02; simp only [M3.sub, M3.zero] at this; linarith
  · have := e M3.a10; simp only [M3.sub, M3.zero] at this; linarith
  · have := e M3.a11; simp only [M3.sub, M3.zero] at this; linarith
  · have := e M3.a12; simp only [M3.sub, M3.zero] at this; linarith
  · have := e M3.a20; simp only [M3.sub, M3.zero] at this; linarith
  · have := e M3.a21; simp only [M3.sub, M3.zero] at this; linarith
  · have := e M3.a22; simp only [M3.sub, M3.zero] at this; linarith

theorem V3.sub_eq_zero {a b : V3 Rat} (h : V3.sub a b = V3.zero) : a = b := by
  have e := fun (f : V3 Rat → Rat) => congrArg f h
  ext
  · have := e V3.x; simp only [V3.sub, V3.zero] at this; linarith
  · have := e V3.y; simp only [V3.sub, V3.zero] at this; linarith
  · have := e V3.z; simp only [V3.sub, V3.zero] at this; linarith

/-- orthonormal with `det ≥ 1` is a proper rotation -/
theorem isRot_of_ortho_det {R : M3 Rat} (h : IsOrtho R) (hd : 1 ≤ R.det) : IsRot R := by
  refine ⟨h, ?_⟩
  have h2 : R.det * R.det = 1 := by
    have := congrArg M3.det h
    rw [M3.det_mul, M3.det_transpose, M3.det_one] at this
    exact this
  nlinarith

theorem bmat_symm {A : M3 Rat} (h : A.transpose = A) : (bmat A).transpose = bmat A := by
  have s01 : A.a10 = A.a01 := by have := congrArg M3.a01 h; simpa [M3.transpose] using this
  have s02 : A.a20 = A.a02 := by have := congrArg M3.a02 h; simpa [M3.transpose] using this
  have s12 : A.a21 = A.a12 := by have := congrArg M3.a12 h; simpa [M3.transpose] using this
  ext <;> simp only [bmat, M3.transpose, M3.sub, M3.smul, M3.one, M3.trace] <;> simp [s01, s02, s12]

/-- reading of the executable certificate at `ε = 0` -/
theorem cert_of_umeCert {ws : Bool} {x y : List (V3 Rat)} {R : M3 Rat} {t : V3 Rat} {c : Rat}
    (h : umeCert 0 ws x y R t c = true) : Cert ws x y R t c := by
  unfold umeCert at h
  simp only [Bool.and_eq_true] at h
  obtain ⟨⟨⟨⟨⟨ho, hd⟩, ht⟩, hs⟩, hp⟩, hc⟩ := h
  have hO : IsOrtho R := by
    unfold certOrtho at ho
    exact M3.sub_eq_zero (linfM_le_zero (of_decide_eq_true ho))
  have hD : 1 ≤ R.det := by
    unfold certDet at hd
    have := of_decide_eq_true hd
    linarith
  have hS : (amat x y R).transpose = amat x y R := by
    unfold certSym at hs
    have := of_decide_eq_true hs
    simp only [zero_mul] at this
    exact (M3.sub_eq_zero (linfM_le_zero this)).symm
  refine ⟨isRot_of_ortho_det hO hD, ?_, hS, ?_, ?_⟩
  · unfold certT at ht
    have := of_decide_eq_true ht
    simp only [zero_mul] at this
    exact V3.sub_eq_zero (linfV_le_zero this)
  · unfold certPsd at hp
    simp only [Bool.and_eq_true, decide_eq_true_eq, zero_mul, neg_zero] at hp
    obtain ⟨⟨⟨⟨⟨⟨p0, p1⟩, p2⟩, p3⟩, p4⟩, p5⟩, p6⟩ := hp
    exact psd_of_minors _ (bmat_symm hS) p0 p1 p2 p3 p4 p5 p6
  · unfold certScale at hc
    cases ws with
    | true =>
      simp only [if_true, Bool.and_eq_true, decide_eq_true_eq, zero_mul] at hc ⊢
      exact ⟨by have := absR_le_zero hc.1; linarith, hc.2⟩
    | false =>
      simp only [Bool.false_eq_true, if_false, decide_eq_true_eq] at hc ⊢
      exact hc

end rat

section refuse

theorem sumMap_zero_of_mem {α : Type} {f : α → Rat} {l : List α} (h : ∀ a ∈ l, f a = 0) : sumMap f l = 0 := by
  induction l with
  | nil => rfl
  | cons a l ih =>
    rw [sumMap_cons, h a (by simp), ih (fun b hb => h b (by simp [hb]))]; simp

theorem sumMap_const_of_mem {α : Type} {f : α → Rat} {l : List α} (c : Rat) (h : ∀ a ∈ l, f a = c) :
    sumMap f l = cnt l * c := by
  induction l with
  | nil => simp [sumMap_nil, cnt]
  | cons a l ih =>
    rw [sumMap_cons, h a (by simp), ih (fun b hb => h b (by simp [hb]))]
    simp only [cnt, List.length_cons, Nat.cast_succ]; ring

/-- entry of the covariance: zero as soon as every summand is -/
theorem cov_entry_zero (n : Rat) {l : List (V3 Rat × V3 Rat)} {g : V3 Rat × V3 Rat → Rat}
    (h : ∀ p ∈ l, g p = 0) : 1 / n * sumMap g l = 0 := by
  rw [sumMap_zero_of_mem h]; simp

theorem mean_of_const {x : List (V3 Rat)} {a : V3 Rat} (hne : x ≠ []) (h : ∀ p ∈ x, p = a) : mean x = a := by
  have hn : (cnt x : Rat) ≠ 0 := (cnt_pos x hne).ne'
  have hx := sumMap_const_of_mem (f := V3.x) a.x (fun p hp => by rw [h p hp])
  have hy := sumMap_const_of_mem (f := V3.y) a.y (fun p hp => by rw [h p hp])
  have hz := sumMap_const_of_mem (f := V3.z) a.z (fun p hp => by rw [h p hp])
  unfold mean
  rw [hx, hy, hz]
  ext <;> simp only [] <;> field_simp

theorem allCoincident_spec {x : List (V3 Rat)} (h : allCoincident x = true) (hne : x ≠ []) :
    ∃ a, ∀ p ∈ x, p = a := by
  cases x with
  | nil => exact absurd rfl hne
  | cons a l =>
    refine ⟨a, ?_⟩
    simp only [allCoincident, List.all_eq_true, beq_iff_eq] at h
    intro p hp
    rcases List.mem_cons.mp hp with rfl | hp
    · rfl
    · exact h p hp

theorem rankLt2_zero : rankLt2 (M3.zero : M3 Rat) = true := by
  simp [rankLt2, minors2, M3.zero]

theorem cov_zero_of_fst {x y : List (V3 Rat)} (h : ∀ p ∈ x, V3.sub p (mean x) = V3.zero) :
    cov x y = M3.zero := by
  have hz : ∀ p ∈ x.zip y, V3.sub p.1 (mean x) = V3.zero := fun p hp => h p.1 (List.of_mem_zip hp).1
  unfold cov
  ext <;> (simp only [M3.zero]; apply cov_entry_zero; intro p hp; rw [hz p hp]; simp [V3.zero])

theorem cov_zero_of_snd {x y : List (V3 Rat)} (h : ∀ p ∈ y, V3.sub p (mean y) = V3.zero) :
    cov x y = M3.zero := by
  have hz : ∀ p ∈ x.zip y, V3.sub p.2 (mean y) = V3.zero := fun p hp => h p.2 (List.of_mem_zip hp).2
  unfold cov
  ext <;> (simp only [M3.zero]; apply cov_entry_zero; intro p hp; rw [hz p hp]; simp [V3.zero])

theorem sub_self_zero (a : V3 Rat) : V3.sub a a = V3.zero := by
  ext <;> simp [V3.sub, V3.zero]

theorem refuses_of_coincident_fst {x y : List (V3 Rat)} (h : allCoincident x = true) : rankLt2 (cov x y) = true := by
  by_cases hne : x = []
  · subst hne
    have : cov ([] : List (V3 Rat)) y = M3.zero := by
      unfold cov; ext <;> simp [M3.zero, sumMap_nil]
    rw [this]; exact rankLt2_zero
  · obtain ⟨a, ha⟩ := allCoincident_spec h hne
    rw [cov_zero_of_fst (fun p hp => by rw [mean_of_const hne ha, ha p hp]; exact sub_self_zero a)]
    exact rankLt2_zero

theorem refuses_of_coincident_snd {x y : List (V3 Rat)} (h : allCoincident y = true) : rankLt2 (cov x y) = true := by
  by_cases hne : y = []
  · subst hne
    have : cov x ([] : List (V3 Rat)) = M3.zero := by
      unfold cov; ext <;> simp [M3.zero, sumMap_nil]
    rw [this]; exact rankLt2_zero
  · obtain ⟨a, ha⟩ := allCoincident_spec h hne
    rw [cov_zero_of_snd (fun p hp => by rw [mean_of_const hne ha, ha p hp]; exact sub_self_zero a)]
    exact rankLt2_zero


theorem cov_zero_fst_x {x y : List (V3 Rat)} (h : ∀ p ∈ x, p.y = 0 ∧ p.z = 0) :
    (cov x y).a01 = 0 ∧ (cov x y).a02 = 0 ∧ (cov x y).a11 = 0 ∧ (cov x y).a12 = 0 ∧ (cov x y).a21 = 0 ∧ (cov x y).a22 = 0 := by
  have m0 : (mean x).y = 0 := by
    show sumMap V3.y x / cnt x = 0
    rw [sumMap_zero_of_mem (fun p hp => (h p hp).1)]; simp
  have m1 : (mean x).z = 0 := by
    show sumMap V3.z x / cnt x = 0
    rw [sumMap_zero_of_mem (fun p hp => (h p hp).2)]; simp
  refine ⟨?_, ?_, ?_, ?_, ?_, ?_⟩ <;>
  · show 1 / cnt x * sumMap _ _ = 0
    apply cov_entry_zero
    intro p hp
    have := h p.1 (List.of_mem_zip hp).1
    simp [V3.sub, this.1, this.2, m0, m1]

theorem rank_fst_x {x y : List (V3 Rat)} (h : ∀ p ∈ x, p.y = 0 ∧ p.z = 0) :
    rankLt2 (cov x y) = true := by
  obtain ⟨h1, h2, h3, h4, h5, h6⟩ := cov_zero_fst_x (x := x) (y := y) h
  simp [rankLt2, minors2, h1, h2, h3, h4, h5, h6]

theorem cov_zero_fst_y {x y : List (V3 Rat)} (h : ∀ p ∈ x, p.x = 0 ∧ p.z = 0) :
    (cov x y).a00 = 0 ∧ (cov x y).a02 = 0 ∧ (cov x y).a10 = 0 ∧ (cov x y).a12 = 0 ∧ (cov x y).a20 = 0 ∧ (cov x y).a22 = 0 := by
  have m0 : (mean x).x = 0 := by
    show sumMap V3.x x / cnt x = 0
    rw [sumMap_zero_of_mem (fun p hp => (h p hp).1)]; simp
  have m1 : (mean x).z = 0 := by
    show sumMap V3.z x / cnt x = 0
    rw [sumMap_zero_of_mem (fun p hp => (h p hp).2)]; simp
  refine ⟨?_, ?_, ?_, ?_, ?_, ?_⟩ <;>
  · show 1 / cnt x * sumMap _ _ = 0
    apply cov_entry_zero
    intro p hp
    have := h p.1 (List.of_mem_zip hp).1
    simp [V3.sub, this.1, this.2, m0, m1]

theorem rank_fst_y {x y : List (V3 Rat)} (h : ∀ p ∈ x, p.x = 0 ∧ p.z = 0) :
    rankLt2 (cov x y) = true := by
  obtain ⟨h1, h2, h3, h4, h5, h6⟩ := cov_zero_fst_y (x := x) (y := y) h
  simp [rankLt2, minors2, h1, h2, h3, h4, h5, h6]

theorem cov_zero_fst_z {x y : List (V3 Rat)} (h : ∀ p ∈ x, p.x = 0 ∧ p.y = 0) :
    (cov x y).a00 = 0 ∧ (cov x y).a01 = 0 ∧ (cov x y).a10 = 0 ∧ (cov x y).a11 = 0 ∧ (cov x y).a20 = 0 ∧ (cov x y).a21 = 0 := by
  have m0 : (mean x).x = 0 := by
    show sumMap V3.x x / cnt x = 0
    rw [sumMap_zero_of_mem (fun p hp => (h p hp).1)]; simp
  have m1 : (mean x).y = 0 := by
    show sumMap V3.y x / cnt x = 0
    rw [sumMap_zero_of_mem (fun p hp => (h p hp).2)]; simp
  refine ⟨?_, ?_, ?_, ?_, ?_, ?_⟩ <;>
  · show 1 / cnt x * sumMap _ _ = 0
    apply cov_entry_zero
    intro p hp
    have := h p.1 (List.of_mem_zip hp).1
    simp [V3.sub, this.1, this.2, m0, m1]

theorem rank_fst_z {x y : List (V3 Rat)} (h : ∀ p ∈ x, p.x = 0 ∧ p.y = 0) :
    rankLt2 (cov x y) = true := by
  obtain ⟨h1, h2, h3, h4, h5, h6⟩ := cov_zero_fst_z (x := x) (y := y) h
  simp [rankLt2, minors2, h1, h2, h3, h4, h5, h6]

theorem cov_zero_snd_x {x y : List (V3 Rat)} (h : ∀ p ∈ y, p.y = 0 ∧ p.z = 0) :
    (cov x y).a10 = 0 ∧ (cov x y).a11 = 0 ∧ (cov x y).a12 = 0 ∧ (cov x y).a20 = 0 ∧ (cov x y).a21 = 0 ∧ (cov x y).a22 = 0 := by
  have m0 : (mean y).y = 0 := by
    show sumMap V3.y y / cnt y = 0
    rw [sumMap_zero_of_mem (fun p hp => (h p hp).1)]; simp
  have m1 : (mean y).z = 0 := by
    show sumMap V3.z y / cnt y = 0
    rw [sumMap_zero_of_mem (fun p hp => (h p hp).2)]; simp
  refine ⟨?_, ?_, ?_, ?_, ?_, ?_⟩ <;>
  · show 1 / cnt x * sumMap _ _ = 0
    apply cov_entry_zero
    intro p hp
    have := h p.2 (List.of_mem_zip hp).2
    simp [V3.sub, this.1, this.2, m0, m1]

theorem rank_snd_x {x y : List (V3 Rat)} (h : ∀ p ∈ y, p.y = 0 ∧ p.z = 0) :
    rankLt2 (cov x y) = true := by
  obtain ⟨h1, h2, h3, h4, h5, h6⟩ := cov_zero_snd_x (x := x) (y := y) h
  simp [rankLt2, minors2, h1, h2, h3, h4, h5, h6]

theorem cov_zero_snd_y {x y : List (V3 Rat)} (h : ∀ p ∈ y, p.x = 0 ∧ p.z = 0) :
    (cov x y).a00 = 0 ∧ (cov x y).a01 = 0 ∧ (cov x y).a02 = 0 ∧ (cov x y).a20 = 0 ∧ (cov x y).a21 = 0 ∧ (cov x y).a22 = 0 := by
  have m0 : (mean y).x = 0 := by
    show sumMap V3.x y / cnt y = 0
    rw [sumMap_zero_of_mem (fun p hp => (h p hp).1)]; simp
  have m1 : (mean y).z = 0 := by
    show sumMap V3.z y / cnt y = 0
    rw [sumMap_zero_of_mem (fun p hp => (h p hp).2)]; simp
  refine ⟨?_, ?_, ?_, ?_, ?_, ?_⟩ <;>
  · show 1 / cnt x * sumMap _ _ = 0
    apply cov_entry_zero
    intro p hp
    have := h p.2 (List.of_mem_zip hp).2
    simp [V3.sub, this.1, this.2, m0, m1]

theorem rank_snd_y {x y : List (V3 Rat)} (h : ∀ p ∈ y, p.x = 0 ∧ p.z = 0) :
    rankLt2 (cov x y) = true := by
  obtain ⟨h1, h2, h3, h4, h5, h6⟩ := cov_zero_snd_y (x := x) (y := y) h
  simp [rankLt2, minors2, h1, h2, h3, h4, h5, h6]

theorem cov_zero_snd_z {x y : List (V3 Rat)} (h : ∀ p ∈ y, p.x = 0 ∧ p.y = 0) :
    (cov x y).a00 = 0 ∧ (cov x y).a01 = 0 ∧ (cov x y).a02 = 0 ∧ (cov x y).a10 = 0 ∧ (cov x y).a11 = 0 ∧ (cov x y).a12 = 0 := by
  have m0 : (mean y).x = 0 := by
    show sumMap V3.x y / cnt y = 0
    rw [sumMap_zero_of_mem (fun p hp => (h p hp).1)]; simp
  have m1 : (mean y).y = 0 := by
    show sumMap V3.y y / cnt y = 0
    rw [sumMap_zero_of_mem (fun p hp => (h p hp).2)]; simp
  refine ⟨?_, ?_, ?_, ?_, ?_, ?_⟩ <;>
  · show 1 / cnt x * sumMap _ _ = 0
    apply cov_entry_zero
    intro p hp
    have := h p.2 (List.of_mem_zip hp).2
    simp [V3.sub, this.1, this.2, m0, m1]

theorem rank_snd_z {x y : List (V3 Rat)} (h : ∀ p ∈ y, p.x = 0 ∧ p.y = 0) :
    rankLt2 (cov x y) = true := by
  obtain ⟨h1, h2, h3, h4, h5, h6⟩ := cov_zero_snd_z (x := x) (y := y) h
  simp [rankLt2, minors2, h1, h2, h3, h4, h5, h6]

theorem onAxis_spec {x : List (V3 Rat)} (h : onOneCoordinateAxis x = true) :
    (∀ p ∈ x, p.y = 0 ∧ p.z = 0) ∨ (∀ p ∈ x, p.x = 0 ∧ p.z = 0) ∨ (∀ p ∈ x, p.x = 0 ∧ p.y = 0) := by
  simp only [onOneCoordinateAxis, Bool.or_eq_true, List.all_eq_true, Bool.and_eq_true, beq_iff_eq] at h
  rcases h with (h | h) | h
  · exact Or.inl h
  · exact Or.inr (Or.inl h)
  · exact Or.inr (Or.inr h)

theorem refuses_of_axis_fst {x y : List (V3 Rat)} (h : onOneCoordinateAxis x = true) : rankLt2 (cov x y) = true := by
  rcases onAxis_spec h with h | h | h
  · exact rank_fst_x h
  · exact rank_fst_y h
  · exact rank_fst_z h

theorem refuses_of_axis_snd {x y : List (V3 Rat)} (h : onOneCoordinateAxis y = true) : rankLt2 (cov x y) = true := by
  rcases onAxis_spec h with h | h | h
  · exact rank_snd_x h
  · exact rank_snd_y h
  · exact rank_snd_z h

end refuse

section nf
variable {K : Type} [Field K] [LinearOrder K] [IsStrictOrderedRing K]

theorem sumMap_eq_zero_of_nonneg {α : Type} {f : α → K} {l : List α} (hf : ∀ a, 0 ≤ f a)
    (h : sumMap f l = 0) : ∀ a ∈ l, f a = 0 := by
  induction l with
  | nil => intro a ha; simp at ha
  | cons b l ih =>
    rw [sumMap_cons] at h
    have h1 := hf b
    have h2 := sumMap_nonneg f l hf
    have hb : f b = 0 := by linarith
    have hl : sumMap f l = 0 := by linarith
    intro a ha
    rcases List.mem_cons.mp ha with rfl | ha
    · exact hb
    · exact ih hl a ha

theorem mem_zip_map_self {α β : Type} (g : α → β) (x : List α) (a : α) (ha : a ∈ x) : (a, g a) ∈ x.zip (x.map g) := by
  induction x with
  | nil => simp at ha
  | cons b x ih =>
    simp only [List.map_cons, List.zip_cons_cons, List.mem_cons]
    rcases List.mem_cons.mp ha with rfl | ha
    · exact Or.inl rfl
    · exact Or.inr (ih ha)

theorem resid_map_self (x : List (V3 K)) (R : M3 K) (t : V3 K) (c : K) :
    resid x (x.map (simApply R t c)) R t c = 0 := by
  unfold resid
  induction x with
  | nil => rfl
  | cons a x ih =>
    simp only [List.map_cons, List.zip_cons_cons, sumMap_cons, ih, normSq_sub_self, add_zero]

theorem V3.eq_of_sub_zero {a b : V3 K} (h : V3.sub a b = V3.zero) : a = b := by
  have e := fun (f : V3 K → K) => congrArg f h
  ext
  · have := e V3.x; simp only [V3.sub, V3.zero] at this; linarith
  · have := e V3.y; simp only [V3.sub, V3.zero] at this; linarith
  · have := e V3.z; simp only [V3.sub, V3.zero] at this; linarith

/-- a transformation with zero residual maps every point exactly -/
theorem pointwise_of_resid_zero (x : List (V3 K)) (g : V3 K → V3 K) (R : M3 K) (t : V3 K) (c : K)
    (h : resid x (x.map g) R t c = 0) : ∀ a ∈ x, g a = simApply R t c a := by
  intro a ha
  have := sumMap_eq_zero_of_nonneg (fun p => normSq_nonneg _) h (a, g a) (mem_zip_map_self g x a ha)
  exact V3.eq_of_sub_zero (normSq_eq_zero this)

/-- proper rotations commute with the cross product -/
theorem rot_cross {R : M3 K} (hR : IsRot R) (u v : V3 K) :
    R.mulVec (V3.cross u v) = V3.cross (R.mulVec u) (R.mulVec v) := by
  obtain ⟨k00, k01, k02, k10, k11, k12, k20, k21, k22⟩ := hR.cof_eqs
  ext <;> simp only [M3.mulVec, V3.cross]
  · linear_combination (-(u.y * v.z - u.z * v.y)) * k00 - (u.z * v.x - u.x * v.z) * k10 - (u.x * v.y - u.y * v.x) * k20
  · linear_combination (-(u.y * v.z - u.z * v.y)) * k01 - (u.z * v.x - u.x * v.z) * k11 - (u.x * v.y - u.y * v.x) * k21
  · linear_combination (-(u.y * v.z - u.z * v.y)) * k02 - (u.z * v.x - u.x * v.z) * k12 - (u.x * v.y - u.y * v.x) * k22

/-- Cramer: a matrix annihilating three independent vectors is zero -/
theorem mat_zero_of_three (M : M3 K) (u v w : V3 K)
    (hu : M.mulVec u = V3.zero) (hv : M.mulVec v = V3.zero) (hw : M.mulVec w = V3.zero)
    (hdet : V3.dot (V3.cross u v) w ≠ 0) : M = M3.zero := by
  have eu := fun (f : V3 K → K) => congrArg f hu
  have ev := fun (f : V3 K → K) => congrArg f hv
  have ew := fun (f : V3 K → K) => congrArg f hw
  have ux := eu V3.x; have uy := eu V3.y; have uz := eu V3.z
  have vx := ev V3.x; have vy := ev V3.y; have vz := ev V3.z
  have wx := ew V3.x; have wy := ew V3.y; have wz := ew V3.z
  simp only [M3.mulVec, V3.zero] at ux uy uz vx vy vz wx wy wz
  simp only [V3.dot, V3.cross] at hdet
  have row : ∀ a b c : K, a * u.x + b * u.y + c * u.z = 0 → a * v.x + b * v.y + c * v.z = 0 →
      a * w.x + b * w.y + c * w.z = 0 → a = 0 ∧ b = 0 ∧ c = 0 := by
    intro a b c h1 h2 h3
    have ha : a * ((u.y * v.z - u.z * v.y) * w.x + (u.z * v.x - u.x * v.z) * w.y + (u.x * v.y - u.y * v.x) * w.z) = 0 := by
      linear_combination (v.y * w.z - v.z * w.y) * h1 + (w.y * u.z - w.z * u.y) * h2 + (u.y * v.z - u.z * v.y) * h3
    have hb : b * ((u.y * v.z - u.z * v.y) * w.x + (u.z * v.x - u.x * v.z) * w.y + (u.x * v.y - u.y * v.x) * w.z) = 0 := by
      linear_combination (v.z * w.x - v.x * w.z) * h1 + (w.z * u.x - w.x * u.z) * h2 + (u.z * v.x - u.x * v.z) * h3
    have hc : c * ((u.y * v.z - u.z * v.y) * w.x + (u.z * v.x - u.x * v.z) * w.y + (u.x * v.y - u.y * v.x) * w.z) = 0 := by
      linear_combination (v.x * w.y - v.y * w.x) * h1 + (w.x * u.y - w.y * u.x) * h2 + (u.x * v.y - u.y * v.x) * h3
    exact ⟨(mul_eq_zero.mp ha).resolve_right hdet, (mul_eq_zero.mp hb).resolve_right hdet,
      (mul_eq_zero.mp hc).resolve_right hdet⟩
  obtain ⟨a0, a1, a2⟩ := row _ _ _ ux vx wx
  obtain ⟨b0, b1, b2⟩ := row _ _ _ uy vy wy
  obtain ⟨c0, c1, c2⟩ := row _ _ _ uz vz wz
  ext <;> simp only [M3.zero] <;> assumption

/-- two similarity transformations with proper rotations and positive scales that agree on three
non-collinear points are equal -/
theorem sim_unique_of_three (R R0 : M3 K) (t t0 : V3 K) (c c0 : K) (hR : IsRot R) (hR0 : IsRot R0)
    (hc : 0 < c) (hc0 : 0 < c0) (p0 p1 p2 : V3 K)
    (h0 : simApply R0 t0 c0 p0 = simApply R t c p0) (h1 : simApply R0 t0 c0 p1 = simApply R t c p1)
    (h2 : simApply R0 t0 c0 p2 = simApply R t c p2)
    (hnc : V3.cross (V3.sub p1 p0) (V3.sub p2 p0) ≠ V3.zero) :
    R = R0 ∧ t = t0 ∧ c = c0 := by
  set u := V3.sub p1 p0 with hu
  set v := V3.sub p2 p0 with hv
  -- differences kill the translation
  have du : V3.smul c (R.mulVec u) = V3.smul c0 (R0.mulVec u) := by
    have e0 := fun (f : V3 K → K) => congrArg f h0
    have e1 := fun (f : V3 K → K) => congrArg f h1
    have a := e0 V3.x; have b := e0 V3.y; have d := e0 V3.z
    have a' := e1 V3.x; have b' := e1 V3.y; have d' := e1 V3.z
    simp only [simApply, V3.add, V3.smul, M3.mulVec] at a b d a' b' d'
    ext <;> simp only [hu, V3.smul, M3.mulVec, V3.sub]
    · linear_combination a - a'
    · linear_combination b - b'
    · linear_combination d - d'
  have dv : V3.smul c (R.mulVec v) = V3.smul c0 (R0.mulVec v) := by
    have e0 := fun (f : V3 K → K) => congrArg f h0
    have e1 := fun (f : V3 K → K) => congrArg f h2
    have a := e0 V3.x; have b := e0 V3.y; have d := e0 V3.z
    have a' := e1 V3.x; have b' := e1 V3.y; have d' := e1 V3.z
    simp only [simApply, V3.add, V3.smul, M3.mulVec] at a b d a' b' d'
    ext <;> simp only [hv, V3.smul, M3.mulVec, V3.sub]
    · linear_combination a - a'
    · linear_combination b - b'
    · linear_combination d - d'
  -- u ≠ 0
  have hupos : 0 < V3.normSq u := by
    rcases (normSq_nonneg u).lt_or_eq with h | h
    · exact h
    · exfalso; apply hnc
      have := normSq_eq_zero h.symm
      rw [this]; ext <;> simp [V3.cross, V3.zero]
  -- equal scales
  have hn : c ^ 2 * V3.normSq u = c0 ^ 2 * V3.normSq u := by
    have n1 : V3.normSq (V3.smul c (R.mulVec u)) = c ^ 2 * V3.normSq u := by
      rw [← normSq_mulVec_of_ortho hR.1 u]; simp only [V3.normSq, V3.dot, V3.smul]; ring
    have n2 : V3.normSq (V3.smul c0 (R0.mulVec u)) = c0 ^ 2 * V3.normSq u := by
      rw [← normSq_mulVec_of_ortho hR0.1 u]; simp only [V3.normSq, V3.dot, V3.smul]; ring
    rw [← n1, ← n2, du]
  have hcc : c = c0 := by
    have h2 : c ^ 2 = c0 ^ 2 := mul_right_cancel₀ hupos.ne' hn
    nlinarith [sq_nonneg (c - c0), sq_nonneg (c + c0)]
  subst hcc
  have cancel : ∀ a b : V3 K, V3.smul c a = V3.smul c b → a = b := by
    intro a b h
    have e := fun (f : V3 K → K) => congrArg f h
    have ex := e V3.x; have ey := e V3.y; have ez := e V3.z
    simp only [V3.smul] at ex ey ez
    ext
    · exact mul_left_cancel₀ hc.ne' ex
    · exact mul_left_cancel₀ hc.ne' ey
    · exact mul_left_cancel₀ hc.ne' ez
  have ru := cancel _ _ du
  have rv := cancel _ _ dv
  have rw' : R.mulVec (V3.cross u v) = R0.mulVec (V3.cross u v) := by
    rw [rot_cross hR, rot_cross hR0, ru, rv]
  have hdet : V3.dot (V3.cross u v) (V3.cross u v) ≠ 0 := by
    intro h
    exact hnc (normSq_eq_zero h)
  have hM : M3.sub R R0 = M3.zero := by
    apply mat_zero_of_three (M3.sub R R0) u v (V3.cross u v) _ _ _ hdet
    · have e := fun (f : V3 K → K) => congrArg f ru
      have ex := e V3.x; have ey := e V3.y; have ez := e V3.z
      simp only [M3.mulVec] at ex ey ez
      ext <;> simp only [M3.mulVec, M3.sub, V3.zero] <;> linarith
    · have e := fun (f : V3 K → K) => congrArg f rv
      have ex := e V3.x; have ey := e V3.y; have ez := e V3.z
      simp only [M3.mulVec] at ex ey ez
      ext <;> simp only [M3.mulVec, M3.sub, V3.zero] <;> linarith
    · have e := fun (f : V3 K → K) => congrArg f rw'
      have ex := e V3.x; have ey := e V3.y; have ez := e V3.z
      simp only [M3.mulVec] at ex ey ez
      ext <;> simp only [M3.mulVec, M3.sub, V3.zero] <;> linarith
  have hRR : R = R0 := by
    have e := fun (f : M3 K → K) => congrArg f hM
    ext
    · have := e M3.a00; simp only [M3.sub, M3.zero] at this; linarith
    · have := e M3.a01; simp only [M3.sub, M3.zero] at this; linarith
    · have := e M3.a02; simp only [M3.sub, M3.zero] at this; linarith
    · have := e M3.a10; simp only [M3.sub, M3.zero] at this; linarith
    · have := e M3.a11; simp only [M3.sub, M3.zero] at this; linarith
    · have := e M3.a12; simp only [M3.sub, M3.zero] at this; linarith
    · have := e M3.a20; simp only [M3.sub, M3.zero] at this; linarith
    · have := e M3.a21; simp only [M3.sub, M3.zero] at this; linarith
    · have := e M3.a22; simp only [M3.sub, M3.zero] at this; linarith
  subst hRR
  refine ⟨rfl, ?_, rfl⟩
  have e0 := fun (f : V3 K → K) => congrArg f h0
  have a := e0 V3.x; have b := e0 V3.y; have d := e0 V3.z
  simp only [simApply, V3.add, V3.smul, M3.mulVec] at a b d
  ext <;> linarith

end nf

section nfrat

/-- noise-free data: every certified output is the generating transformation (three
non-collinear points suffice: rank ≥ 2) -/
theorem noise_free (ws : Bool) (x : List (V3 Rat)) (R0 R : M3 Rat) (t0 t : V3 Rat) (c0 c : Rat)
    (hR0 : IsRot R0) (hc0 : 0 < c0) (hws : ws = false → c0 = 1)
    (h : umeCert 0 ws x (x.map (simApply R0 t0 c0)) R t c = true)
    (p0 p1 p2 : V3 Rat) (h0 : p0 ∈ x) (h1 : p1 ∈ x) (h2 : p2 ∈ x)
    (hnc : V3.cross (V3.sub p1 p0) (V3.sub p2 p0) ≠ V3.zero) :
    R = R0 ∧ t = t0 ∧ c = c0 := by
  have hc := cert_of_umeCert h
  have hlen : x.length = (x.map (simApply R0 t0 c0)).length := by simp
  have hne : x ≠ [] := List.ne_nil_of_mem h0
  have hle : resid x (x.map (simApply R0 t0 c0)) R t c ≤ 0 := by
    rw [← resid_map_self x R0 t0 c0]
    cases ws with
    | true => exact optimal_sim hc hlen hne R0 t0 c0 hR0 hc0.le
    | false =>
      have := optimal_rigid hc hlen hne R0 t0 hR0
      rwa [← hws rfl] at this
  have hz : resid x (x.map (simApply R0 t0 c0)) R t c = 0 := le_antisymm hle (resid_nonneg _ _ _ _ _)
  have hp := pointwise_of_resid_zero x _ R t c hz
  have hcpos : 0 < c := by
    have := hc.scale
    cases ws with
    | true => simp only [if_true] at this; exact this.2
    | false => simp only [Bool.false_eq_true, if_false] at this; rw [this]; exact one_pos
  exact sim_unique_of_three R R0 t t0 c c0 hc.rot hR0 hcpos hc0 p0 p1 p2 (hp p0 h0) (hp p1 h1) (hp p2 h2) hnc

end nfrat

section equiv
variable {K : Type} [Field K]

theorem sumMap_perm {α : Type} (f : α → K) {l l' : List α} (h : l.Perm l') : sumMap f l = sumMap f l' := by
  induction h with
  | nil => rfl
  | cons a _ ih => simp only [sumMap_cons, ih]
  | swap a b l => simp only [sumMap_cons]; ring
  | trans _ _ ih1 ih2 => exact ih1.trans ih2

/-- the residual does not depend on the order of the point pairs -/
theorem resid_perm (x y x' y' : List (V3 K)) (h : (x.zip y).Perm (x'.zip y')) (R : M3 K) (t : V3 K) (c : K) :
    resid x y R t c = resid x' y' R t c := sumMap_perm _ h

theorem sumMap_map' {α β : Type} (g : α → β) (f : β → K) (l : List α) : sumMap f (l.map g) = sumMap (fun a => f (g a)) l := by
  induction l with
  | nil => rfl
  | cons a l ih => simp only [List.map_cons, sumMap_cons, ih]

/-- the composed transformation `B ∘ g ∘ A⁻¹` of a similarity `g = (R, t, c)` -/
def conjRot (RA RB R : M3 K) : M3 K := RB.mul (R.mul RA.transpose)
def conjScale (sA sB c : K) : K := sB * c / sA
def conjTrans (RA RB R : M3 K) (tA tB t : V3 K) (sA sB c : K) : V3 K :=
  V3.sub (V3.add (V3.smul sB (RB.mulVec t)) tB)
    (V3.smul (conjScale sA sB c) ((conjRot RA RB R).mulVec tA))

theorem conj_apply (RA RB R : M3 K) (tA tB t : V3 K) (sA sB c : K) (hA : IsOrtho RA) (hsA : sA ≠ 0) (p : V3 K) :
    simApply (conjRot RA RB R) (conjTrans RA RB R tA tB t sA sB c) (conjScale sA sB c) (simApply RA tA sA p)
      = simApply RB tB sB (simApply R t c p) := by
  have e : ∀ v : V3 K, RA.transpose.mulVec (RA.mulVec v) = v := by
    intro v; rw [M3.mulVec_mulVec, hA, M3.one_mulVec]
  have key : (conjRot RA RB R).mulVec (simApply RA tA sA p)
      = V3.add (V3.smul sA (RB.mulVec (R.mulVec p))) ((conjRot RA RB R).mulVec tA) := by
    have h1 : (conjRot RA RB R).mulVec (RA.mulVec p) = RB.mulVec (R.mulVec p) := by
      unfold conjRot
      rw [← M3.mulVec_mulVec, ← M3.mulVec_mulVec, e]
    have h2 : (conjRot RA RB R).mulVec (simApply RA tA sA p)
        = V3.add (V3.smul sA ((conjRot RA RB R).mulVec (RA.mulVec p))) ((conjRot RA RB R).mulVec tA) := by
      ext <;> simp only [simApply, M3.mulVec, V3.add, V3.smul] <;> ring
    rw [h2, h1]
  have step : simApply (conjRot RA RB R) (conjTrans RA RB R tA tB t sA sB c) (conjScale sA sB c) (simApply RA tA sA p)
      = V3.add (V3.smul (conjScale sA sB c) (V3.add (V3.smul sA (RB.mulVec (R.mulVec p))) ((conjRot RA RB R).mulVec tA)))
          (conjTrans RA RB R tA tB t sA sB c) := by
    rw [← key]; rfl
  rw [step]
  ext <;> simp only [simApply, conjTrans, conjScale, V3.add, V3.sub, V3.smul, M3.mulVec] <;> field_simp <;> ring

theorem normSq_sim_sub (RB : M3 K) (tB : V3 K) (sB : K) (hB : IsOrtho RB) (a b : V3 K) :
    V3.normSq (V3.sub (simApply RB tB sB a) (simApply RB tB sB b)) = sB ^ 2 * V3.normSq (V3.sub a b) := by
  have h1 : V3.sub (simApply RB tB sB a) (simApply RB tB sB b) = V3.smul sB (RB.mulVec (V3.sub a b)) := by
    ext <;> simp only [simApply, M3.mulVec, V3.add, V3.sub, V3.smul] <;> ring
  rw [h1, ← normSq_mulVec_of_ortho hB (V3.sub a b)]
  simp only [V3.normSq, V3.dot, V3.smul]; ring

theorem zip_map_both {α β γ δ : Type} (f : α → γ) (g : β → δ) (a : List α) (b : List β) :
    (a.map f).zip (b.map g) = (a.zip b).map (fun p => (f p.1, g p.2)) := by
  induction a generalizing b with
  | nil => rfl
  | cons x a ih =>
    cases b with
    | nil => rfl
    | cons y b => simp only [List.map_cons, List.zip_cons_cons, ih]

/-- **equivariance of the residual**: moving / scaling the inputs by similarities `A` (on `x`) and
`B` (on `y`) and composing the transformation accordingly multiplies the residual by `s_B²` -/
theorem resid_equivariant (x y : List (V3 K)) (RA RB R : M3 K) (tA tB t : V3 K) (sA sB c : K)
    (hA : IsOrtho RA) (hB : IsOrtho RB) (hsA : sA ≠ 0) :
    resid (x.map (simApply RA tA sA)) (y.map (simApply RB tB sB))
        (conjRot RA RB R) (conjTrans RA RB R tA tB t sA sB c) (conjScale sA sB c)
      = sB ^ 2 * resid x y R t c := by
  unfold resid
  rw [zip_map_both, sumMap_map', ← sumMap_mul_left]
  apply sumMap_congr
  intro p
  simp only []
  rw [conj_apply RA RB R tA tB t sA sB c hA hsA, normSq_sim_sub RB tB sB hB]

end equiv
end Evo.Ume
