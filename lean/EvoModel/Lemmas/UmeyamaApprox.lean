/-
C03, quantified floating-point gap: an ε-relaxed certificate with explicit slacks implies
optimality up to an explicit bound (`optimal_approx_rigid`, `optimal_approx_sim`), over any
ordered field. `R` is an exact proper rotation here; evo's float `R₁` is tied to an exact rational
rotation (built from a quaternion hint, no square root) by the executable `Ume.approxReport`,
which adds the exactly computed residual gap `resid(R₁) − resid(R)` to the bound.
-/
import EvoModel.Lemmas.Umeyama
namespace Evo.Ume
open Evo

set_option linter.unusedSectionVars false
set_option linter.unusedVariables false

section approx
variable {K : Type} [Field K] [LinearOrder K] [IsStrictOrderedRing K]

theorem mul_le_of_bounds {u δ ε : K} (hu1 : -1 ≤ u) (hu2 : u ≤ 1) (hd1 : -ε ≤ δ) (hd2 : δ ≤ ε) : u * δ ≤ ε := by
  nlinarith [mul_nonneg (sub_nonneg.mpr hu2) (by linarith : (0:K) ≤ ε + δ),
    mul_nonneg (by linarith : (0:K) ≤ 1 + u) (by linarith : (0:K) ≤ ε - δ)]

theorem bounds_of_sq (a s : K) (hs : 0 ≤ s) (h : a * a + s = 1) : -1 ≤ a ∧ a ≤ 1 := by
  constructor
  · nlinarith [mul_self_nonneg (a + 1)]
  · nlinarith [mul_self_nonneg (a - 1)]

/-- entries of an orthonormal matrix lie in `[-1, 1]` -/
theorem ortho_entry_bounds {r : M3 K} (h : IsOrtho r) :
    (-1 ≤ r.a00 ∧ r.a00 ≤ 1) ∧ (-1 ≤ r.a01 ∧ r.a01 ≤ 1) ∧ (-1 ≤ r.a02 ∧ r.a02 ≤ 1) ∧
    (-1 ≤ r.a10 ∧ r.a10 ≤ 1) ∧ (-1 ≤ r.a11 ∧ r.a11 ≤ 1) ∧ (-1 ≤ r.a12 ∧ r.a12 ≤ 1) ∧
    (-1 ≤ r.a20 ∧ r.a20 ≤ 1) ∧ (-1 ≤ r.a21 ∧ r.a21 ≤ 1) ∧ (-1 ≤ r.a22 ∧ r.a22 ≤ 1) := by
  obtain ⟨r00, _, _, r11, _, r22⟩ := h.row_eqs
  have b : ∀ a b c : K, a * a + b * b + c * c = 1 → (-1 ≤ a ∧ a ≤ 1) ∧ (-1 ≤ b ∧ b ≤ 1) ∧ (-1 ≤ c ∧ c ≤ 1) := by
    intro a b c h
    exact ⟨bounds_of_sq a (b * b + c * c) (by nlinarith [mul_self_nonneg b, mul_self_nonneg c]) (by linarith),
      bounds_of_sq b (a * a + c * c) (by nlinarith [mul_self_nonneg a, mul_self_nonneg c]) (by linarith),
      bounds_of_sq c (a * a + b * b) (by nlinarith [mul_self_nonneg a, mul_self_nonneg b]) (by linarith)⟩
  obtain ⟨h0, h1, h2⟩ := b _ _ _ r00
  obtain ⟨h3, h4, h5⟩ := b _ _ _ r11
  obtain ⟨h6, h7, h8⟩ := b _ _ _ r22
  exact ⟨h0, h1, h2, h3, h4, h5, h6, h7, h8⟩

theorem qform_bmat_symShift (A : M3 K) (ε : K) (v : V3 K) :
    qform (bmat (symShift A ε)) v = qform (bmat A) v + ε * V3.normSq v := by
  simp only [qform, bmat, symShift, M3.sub, M3.smul, M3.one, M3.trace, M3.mulVec, V3.dot, V3.normSq]
  ring

/-- **approximate trace maximality**: `A` symmetric up to `ε₂`, `tr(A)I − A + ε₃I ⪰ 0`,
`Q ∈ SO(3)` ⇒ `tr(QA) ≤ tr A + 3ε₂ + 3ε₃` -/
theorem traceMax_approx (Q A : M3 K) (hQ : IsRot Q) (ε₂ ε₃ : K)
    (s01 : -ε₂ ≤ A.a01 - A.a10 ∧ A.a01 - A.a10 ≤ ε₂) (s02 : -ε₂ ≤ A.a02 - A.a20 ∧ A.a02 - A.a20 ≤ ε₂)
    (s12 : -ε₂ ≤ A.a12 - A.a21 ∧ A.a12 - A.a21 ≤ ε₂)
    (h3 : 0 ≤ ε₃) (hp : ∀ v : V3 K, 0 ≤ qform (bmat A) v + ε₃ * V3.normSq v) :
    (Q.mul A).trace ≤ A.trace + 3 * ε₂ + 3 * ε₃ := by
  have hsym : (symShift A ε₃).transpose = symShift A ε₃ := by ext <;> rfl
  have hpsd : IsPSD (bmat (symShift A ε₃)) := by
    intro v; rw [qform_bmat_symShift]; exact hp v
  have key := traceMax Q (symShift A ε₃) hQ hsym hpsd
  obtain ⟨b00, b01, b02, b10, b11, b12, b20, b21, b22⟩ := ortho_entry_bounds hQ.1
  simp only [M3.mul, M3.trace, symShift] at key ⊢
  -- antisymmetric part: Σ_{i<j} (Q_ij − Q_ji)/2 · (A_ji − A_ij)
  have p01 := mul_le_of_bounds (u := (Q.a10 - Q.a01) / 2) (δ := A.a01 - A.a10) (ε := ε₂)
    (by linarith [b10.1, b01.2]) (by linarith [b10.2, b01.1]) s01.1 s01.2
  have p02 := mul_le_of_bounds (u := (Q.a20 - Q.a02) / 2) (δ := A.a02 - A.a20) (ε := ε₂)
    (by linarith [b20.1, b02.2]) (by linarith [b20.2, b02.1]) s02.1 s02.2
  have p12 := mul_le_of_bounds (u := (Q.a21 - Q.a12) / 2) (δ := A.a12 - A.a21) (ε := ε₂)
    (by linarith [b21.1, b12.2]) (by linarith [b21.2, b12.1]) s12.1 s12.2
  have hd : ε₃ / 2 * (3 - (Q.a00 + Q.a11 + Q.a22)) ≤ 3 * ε₃ := by
    nlinarith [b00.1, b11.1, b22.1, b00.2, b11.2, b22.2]
  nlinarith [key, p01, p02, p12, hd]

/-- the ε-relaxed certificate with explicit slacks (`R` an exact proper rotation) -/
structure CertApprox (withScale : Bool) (x y : List (V3 K)) (R : M3 K) (t : V3 K) (c : K)
    (ε₂ ε₃ ε₄ ε₅ : K) : Prop where
  rot : IsRot R
  s01 : -ε₂ ≤ (amat x y R).a01 - (amat x y R).a10 ∧ (amat x y R).a01 - (amat x y R).a10 ≤ ε₂
  s02 : -ε₂ ≤ (amat x y R).a02 - (amat x y R).a20 ∧ (amat x y R).a02 - (amat x y R).a20 ≤ ε₂
  s12 : -ε₂ ≤ (amat x y R).a12 - (amat x y R).a21 ∧ (amat x y R).a12 - (amat x y R).a21 ≤ ε₂
  e3 : 0 ≤ ε₃
  psd : ∀ v : V3 K, 0 ≤ qform (bmat (amat x y R)) v + ε₃ * V3.normSq v
  trans : V3.normSq (V3.sub t (tFormula x y R c)) ≤ ε₄
  scale : if withScale = true then
      (-ε₅ ≤ c * var x - (amat x y R).trace ∧ c * var x - (amat x y R).trace ≤ ε₅ ∧ 0 ≤ c ∧ 0 < var x)
    else c = 1

theorem CertApprox.trace_le {ws : Bool} {x y : List (V3 K)} {R : M3 K} {t : V3 K} {c ε₂ ε₃ ε₄ ε₅ : K}
    (h : CertApprox ws x y R t c ε₂ ε₃ ε₄ ε₅) (R' : M3 K) (hR' : IsRot R') :
    (amat x y R').trace ≤ (amat x y R).trace + 3 * ε₂ + 3 * ε₃ := by
  have hRRt := h.rot.1.mul_transpose
  have e : amat x y R' = (R'.transpose.mul R).mul (amat x y R) := by
    unfold amat
    rw [M3.mul_assoc', ← M3.mul_assoc' R, hRRt, M3.one_mul']
  rw [e]
  exact traceMax_approx _ _ (hR'.transpose.mul h.rot) ε₂ ε₃ h.s01 h.s02 h.s12 h.e3 h.psd

/-- **optimal up to `n·(ε₄ + 6ε₂ + 6ε₃)` among rigid transformations** -/
theorem optimal_approx_rigid {x y : List (V3 K)} {R : M3 K} {t : V3 K} {c ε₂ ε₃ ε₄ ε₅ : K}
    (h : CertApprox false x y R t c ε₂ ε₃ ε₄ ε₅) (hlen : x.length = y.length) (hne : x ≠ [])
    (R' : M3 K) (t' : V3 K) (hR' : IsRot R') :
    resid x y R t c ≤ resid x y R' t' 1 + cnt x * (ε₄ + 2 * (3 * ε₂ + 3 * ε₃)) := by
  have hn := cnt_pos (K := K) x hne
  rw [resid_decomp x y R t c hlen hn.ne' h.rot.1, resid_decomp x y R' t' 1 hlen hn.ne' hR'.1]
  have hT := h.trace_le R' hR'
  have hs := h.scale
  simp only [Bool.false_eq_true, if_false] at hs
  subst hs
  have hN := normSq_nonneg (V3.sub t' (tFormula x y R' 1))
  have h4 := h.trans
  have key : (var y + 1 ^ 2 * var x - 2 * 1 * (amat x y R).trace) + V3.normSq (V3.sub t (tFormula x y R 1))
      ≤ (var y + 1 ^ 2 * var x - 2 * 1 * (amat x y R').trace) + V3.normSq (V3.sub t' (tFormula x y R' 1))
        + (ε₄ + 2 * (3 * ε₂ + 3 * ε₃)) := by linarith
  nlinarith [mul_le_mul_of_nonneg_left key hn.le]

/-- **optimal up to `n·(ε₄ + 2cτ + (ε₅+τ)²/σ_x²)`, `τ = 3ε₂ + 3ε₃`, among similarity transformations** -/
theorem optimal_approx_sim {x y : List (V3 K)} {R : M3 K} {t : V3 K} {c ε₂ ε₃ ε₄ ε₅ : K}
    (h : CertApprox true x y R t c ε₂ ε₃ ε₄ ε₅) (hlen : x.length = y.length) (hne : x ≠ [])
    (R' : M3 K) (t' : V3 K) (c' : K) (hR' : IsRot R') (hc' : 0 ≤ c') :
    resid x y R t c ≤ resid x y R' t' c'
      + cnt x * (ε₄ + 2 * c * (3 * ε₂ + 3 * ε₃) + (ε₅ + (3 * ε₂ + 3 * ε₃)) ^ 2 / var x) := by
  have hn := cnt_pos (K := K) x hne
  rw [resid_decomp x y R t c hlen hn.ne' h.rot.1, resid_decomp x y R' t' c' hlen hn.ne' hR'.1]
  have hT := h.trace_le R' hR'
  have hs := h.scale
  simp only [if_true] at hs
  obtain ⟨e1, e2, hc, hv⟩ := hs
  have hN := normSq_nonneg (V3.sub t' (tFormula x y R' c'))
  have h4 := h.trans
  set τ := 3 * ε₂ + 3 * ε₃ with hτ
  set T := (amat x y R).trace
  set T' := (amat x y R').trace
  set v := var x
  have hτ0 : 0 ≤ τ := by
    have : 0 ≤ ε₂ := by linarith [h.s01.1, h.s01.2]
    have := h.e3
    rw [hτ]; linarith
  -- the one-variable quadratic in u = c' − c
  have quad : -((ε₅ + τ) ^ 2 / v) ≤ v * (c' - c) ^ 2 + 2 * (c' - c) * ((c * v - T) - τ) := by
    have hsq : ((c * v - T) - τ) ^ 2 ≤ (ε₅ + τ) ^ 2 := by
      have h1 : -(ε₅ + τ) ≤ (c * v - T) - τ := by linarith
      have h2 : (c * v - T) - τ ≤ ε₅ + τ := by linarith
      nlinarith
    have hcomp : 0 ≤ v * (v * (c' - c) ^ 2 + 2 * (c' - c) * ((c * v - T) - τ)) + ((c * v - T) - τ) ^ 2 := by
      have : v * (v * (c' - c) ^ 2 + 2 * (c' - c) * ((c * v - T) - τ)) + ((c * v - T) - τ) ^ 2
          = (v * (c' - c) + ((c * v - T) - τ)) ^ 2 := by ring
      rw [this]; positivity
    rw [neg_le, le_div_iff₀ hv]
    nlinarith
  have key : (var y + c ^ 2 * v - 2 * c * T) + V3.normSq (V3.sub t (tFormula x y R c))
      ≤ (var y + c' ^ 2 * v - 2 * c' * T') + V3.normSq (V3.sub t' (tFormula x y R' c'))
        + (ε₄ + 2 * c * τ + (ε₅ + τ) ^ 2 / v) := by
    have hcT : c' * T' ≤ c' * (T + τ) := mul_le_mul_of_nonneg_left (by linarith) hc'
    have ident : (c' ^ 2 * v - 2 * c' * (T + τ)) - (c ^ 2 * v - 2 * c * T)
        = v * (c' - c) ^ 2 + 2 * (c' - c) * ((c * v - T) - τ) - 2 * c * τ := by ring
    nlinarith
  nlinarith [mul_le_mul_of_nonneg_left key hn.le]

end approx

section ratapprox

theorem isRot_quatRot (w x y z : Rat) (hn : w * w + x * x + y * y + z * z ≠ 0) : IsRot (quatRot w x y z) := by
  have hk : (w * w + x * x + y * y + z * z) * (w * w + x * x + y * y + z * z)⁻¹ = 1 := mul_inv_cancel₀ hn
  constructor
  · unfold IsOrtho
    ext <;> simp only [quatRot, M3.mul, M3.transpose, M3.one, div_eq_mul_inv] <;>
      generalize (w * w + x * x + y * y + z * z)⁻¹ = k at hk ⊢ <;>
      first
      | ring1
      | linear_combination ((w * w + x * x + y * y + z * z) * k + 1) * hk
  · simp only [quatRot, M3.det, div_eq_mul_inv]
    generalize (w * w + x * x + y * y + z * z)⁻¹ = k at hk ⊢
    linear_combination (((w * w + x * x + y * y + z * z) * k) ^ 2 + (w * w + x * x + y * y + z * z) * k + 1) * hk

theorem absR_le {a e : Rat} (h : absR a ≤ e) : -e ≤ a ∧ a ≤ e := by
  unfold absR at h; split_ifs at h <;> constructor <;> linarith

theorem asymMax_spec (A : M3 Rat) :
    (-(asymMax A) ≤ A.a01 - A.a10 ∧ A.a01 - A.a10 ≤ asymMax A) ∧
    (-(asymMax A) ≤ A.a02 - A.a20 ∧ A.a02 - A.a20 ≤ asymMax A) ∧
    (-(asymMax A) ≤ A.a12 - A.a21 ∧ A.a12 - A.a21 ≤ asymMax A) := by
  refine ⟨absR_le ?_, absR_le ?_, absR_le ?_⟩ <;> unfold asymMax
  · exact le_max_left _ _
  · exact le_trans (le_max_left _ _) (le_max_right _ _)
  · exact le_trans (le_max_right _ _) (le_max_right _ _)

theorem psdSlack_spec {A : M3 Rat} {m e : Rat} (h : psdSlack A m = some e) :
    0 ≤ e ∧ ∀ v : V3 Rat, 0 ≤ qform (bmat A) v + e * V3.normSq v := by
  unfold psdSlack at h
  have := List.find?_some h
  simp only [Bool.and_eq_true, decide_eq_true_eq, minorsNonneg] at this
  obtain ⟨he, ⟨⟨⟨⟨⟨⟨p0, p1⟩, p2⟩, p3⟩, p4⟩, p5⟩, p6⟩⟩ := this
  refine ⟨he, fun v => ?_⟩
  have hsym : (bmat (symShift A e)).transpose = bmat (symShift A e) :=
    bmat_symm (by ext <;> rfl)
  have := psd_of_minors _ hsym p0 p1 p2 p3 p4 p5 p6 v
  rwa [qform_bmat_symShift] at this

/-- **soundness of the executable bound**: whenever `approxReport` returns a report `r` for evo's
output `(R₁, t, c)` (with any quaternion hint), `(R₁, t, c)` is optimal up to `n·r.b`. -/
theorem approxReport_sound (ws : Bool) (x y : List (V3 Rat)) (R₁ : M3 Rat) (t : V3 Rat) (c qw qx qy qz : Rat)
    (r : ApproxReport) (h : approxReport ws x y R₁ t c qw qx qy qz = some r)
    (R' : M3 Rat) (t' : V3 Rat) (c' : Rat) (hR' : IsRot R') (hc' : if ws = true then 0 ≤ c' else c' = 1) :
    resid x y R₁ t c ≤ resid x y R' t' c' + cnt x * r.b := by
  unfold approxReport at h
  by_cases hbad : (qw * qw + qx * qx + qy * qy + qz * qz = 0 ∨ x.length ≠ y.length ∨ x = [])
  · rw [if_pos hbad] at h; cases h
  · rw [if_neg hbad] at h
    dsimp only at h
    push Not at hbad
    obtain ⟨hq, hlen, hne⟩ := hbad
    have hn := cnt_pos (K := Rat) x hne
    have hrot := isRot_quatRot qw qx qy qz hq
    obtain ⟨s01, s02, s12⟩ := asymMax_spec (amat x y (quatRot qw qx qy qz))
    have hgap : cnt x * ((resid x y R₁ t c - resid x y (quatRot qw qx qy qz) t c) / cnt x)
        = resid x y R₁ t c - resid x y (quatRot qw qx qy qz) t c := by
      field_simp
    cases hps : psdSlack (amat x y (quatRot qw qx qy qz)) (linfM (cov x y)) with
    | none => rw [hps] at h; cases h
    | some e3 =>
      rw [hps] at h
      dsimp only at h
      obtain ⟨he3, hpsd⟩ := psdSlack_spec hps
      cases ws with
      | true =>
        simp only [if_true] at h hc'
        by_cases hcv : 0 ≤ c ∧ 0 < var x
        · rw [if_pos hcv] at h
          simp only [Option.some.injEq] at h
          subst h
          have hcert : CertApprox true x y (quatRot qw qx qy qz) t c (asymMax (amat x y (quatRot qw qx qy qz))) e3
              (V3.normSq (V3.sub t (tFormula x y (quatRot qw qx qy qz) c)))
              (absR (c * var x - (amat x y (quatRot qw qx qy qz)).trace)) :=
            ⟨hrot, s01, s02, s12, he3, hpsd, le_refl _, by
              simp only [if_true]
              exact ⟨(absR_le (le_refl _)).1, (absR_le (le_refl _)).2, hcv.1, hcv.2⟩⟩
          have := optimal_approx_sim hcert hlen hne R' t' c' hR' hc'
          dsimp only
          rw [mul_add, hgap]
          rw [pow_two] at this
          linarith
        · rw [if_neg hcv] at h; cases h
      | false =>
        simp only [Bool.false_eq_true, if_false] at h hc'
        by_cases hc1 : c = 1
        · rw [if_pos hc1] at h
          simp only [Option.some.injEq] at h
          subst h
          have hcert : CertApprox false x y (quatRot qw qx qy qz) t c (asymMax (amat x y (quatRot qw qx qy qz))) e3
              (V3.normSq (V3.sub t (tFormula x y (quatRot qw qx qy qz) c))) 0 :=
            ⟨hrot, s01, s02, s12, he3, hpsd, le_refl _, by simp only [Bool.false_eq_true, if_false]; exact hc1⟩
          have := optimal_approx_rigid hcert hlen hne R' t' hR'
          dsimp only
          rw [mul_add, hgap, hc']
          linarith
        · rw [if_neg hc1] at h; cases h

end ratapprox
end Evo.Ume
