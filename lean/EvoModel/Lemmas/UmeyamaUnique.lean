/-
C03, uniqueness of the minimiser: when `B = tr(A)·I − A` is positive definite, equality in trace
maximality forces `Q = I`; hence a transformation of the class whose residual is not larger than
that of a certified output *is* the certified output.
-/
import EvoModel.Lemmas.Umeyama
namespace Evo.Ume
open Evo

set_option linter.unusedSectionVars false
set_option linter.unusedVariables false

section uniq
variable {K : Type} [Field K] [LinearOrder K] [IsStrictOrderedRing K]

theorem le_one_of_row (a b c : K) (h : a^2 + b^2 + c^2 - 1 = 0) : a ≤ 1 := by
  nlinarith [sq_nonneg (a - 1), sq_nonneg b, sq_nonneg c]

theorem zero_of_row (p q : K) (h : (1:K)^2 + p^2 + q^2 - 1 = 0) : p = 0 ∧ q = 0 := by
  have hp : p ^ 2 = 0 := by nlinarith [sq_nonneg p, sq_nonneg q]
  have hq : q ^ 2 = 0 := by nlinarith [sq_nonneg p, sq_nonneg q]
  exact ⟨pow_eq_zero_iff (two_ne_zero) |>.mp hp, pow_eq_zero_iff (two_ne_zero) |>.mp hq⟩

/-- strict form of trace maximality, scalar: definite `QB`, equality of traces ⇒ `Q = I` -/
theorem traceMax_strict_scalar (a b c d e f g h i A11 A12 A13 A22 A23 A33 : K)
    (hc00 : a^2 + d^2 + g^2 - 1 = 0) (hc01 : a*b + d*e + g*h = 0) (hc02 : a*c + d*f + g*i = 0)
    (hc11 : b^2 + e^2 + h^2 - 1 = 0) (hc12 : b*c + e*f + h*i = 0) (hc22 : c^2 + f^2 + i^2 - 1 = 0)
    (hr00 : a^2 + b^2 + c^2 - 1 = 0) (hr01 : a*d + b*e + c*f = 0) (hr02 : a*g + b*h + c*i = 0)
    (hr11 : d^2 + e^2 + f^2 - 1 = 0) (hr12 : d*g + e*h + f*i = 0) (hr22 : g^2 + h^2 + i^2 - 1 = 0)
    (hk00 : -a + e*i - f*h = 0) (hk01 : -b - d*i + f*g = 0) (hk02 : -c + d*h - e*g = 0)
    (hk10 : -b*i + c*h - d = 0) (hk11 : a*i - c*g - e = 0) (hk12 : -a*h + b*g - f = 0)
    (hk20 : b*f - c*e - g = 0) (hk21 : -a*f + c*d - h = 0) (hk22 : a*e - b*d - i = 0)
    (hPD : ∀ x y z : K, QB A11 A12 A13 A22 A23 A33 x y z ≤ 0 → x = 0 ∧ y = 0 ∧ z = 0)
    (heq : a*A11 + b*A12 + c*A13 + d*A12 + e*A22 + f*A23 + g*A13 + h*A23 + i*A33 = A11 + A22 + A33) :
    a = 1 ∧ e = 1 ∧ i = 1 ∧ b = 0 ∧ c = 0 ∧ d = 0 ∧ f = 0 ∧ g = 0 ∧ h = 0 := by
  have hI2 : (1 + (a+e+i))^2 + (h-f)^2 + (c-g)^2 + (d-b)^2 = 4 * (1 + (a+e+i)) := by
    linear_combination hc00 + hc11 + hc22 + 2*hk00 + 2*hk11 + 2*hk22
  have hI1 : (1 + (a+e+i-1)/2) * ((A11 + A22 + A33)
      - (a*A11 + b*A12 + c*A13 + d*A12 + e*A22 + f*A23 + g*A13 + h*A23 + i*A33))
      = QB A11 A12 A13 A22 A23 A33 ((h-f)/2) ((c-g)/2) ((d-b)/2) := by
    simp only [QB]
    linear_combination (-A11/4 - A33/4)*hc00 + (-A12/2)*hc01 + (-A13/2)*hc02
      + (-A22/4 - A33/4)*hc11 + (-A23/2)*hc12 + (-A33/2)*hc22
      + (-A11/4 + A33/4)*hr00 + (-A12/2)*hr01 + (-A13/2)*hr02 + (-A22/4 + A33/4)*hr11
      + (-A23/2)*hr12 + (-A22/2 - A33/2)*hk00 + (A12/2)*hk01 + (A13/2)*hk02 + (A12/2)*hk10
      + (-A11/2 - A33/2)*hk11 + (A23/2)*hk12 + (A13/2)*hk20 + (A23/2)*hk21
      + (-A11/2 - A22/2)*hk22
  have hΔ : (A11 + A22 + A33)
      - (a*A11 + b*A12 + c*A13 + d*A12 + e*A22 + f*A23 + g*A13 + h*A23 + i*A33) = 0 := by linarith
  have hq0 : QB A11 A12 A13 A22 A23 A33 ((h-f)/2) ((c-g)/2) ((d-b)/2) = 0 := by
    rw [← hI1, hΔ, mul_zero]
  obtain ⟨w1, w2, w3⟩ := hPD ((h-f)/2) ((c-g)/2) ((d-b)/2) hq0.le
  have hf : h = f := by linarith
  have hg : c = g := by linarith
  have hb : d = b := by linarith
  have hw : (h-f)^2 + (c-g)^2 + (d-b)^2 = 0 := by rw [hf, hg, hb]; ring
  have hsq : (1 + (a+e+i))^2 = 4 * (1 + (a+e+i)) := by linarith
  have hprod : (1 + (a+e+i)) * ((a+e+i) - 3) = 0 := by linear_combination hsq
  have hnn : ∀ x y z : K, 0 ≤ QB A11 A12 A13 A22 A23 A33 x y z := by
    intro x y z
    by_contra hneg
    rw [not_le] at hneg
    obtain ⟨rfl, rfl, rfl⟩ := hPD x y z hneg.le
    simp [QB] at hneg
  rcases mul_eq_zero.mp hprod with h1 | h3
  · -- rotation by π is impossible under definiteness
    exfalso
    have htr1 : a + e + i + 1 = 0 := by linarith
    have hsum : (A11 + A22 + A33)
        - (a*A11 + b*A12 + c*A13 + d*A12 + e*A22 + f*A23 + g*A13 + h*A23 + i*A33)
        = 2 * (QB A11 A12 A13 A22 A23 A33 ((a+1)/2) (d/2) (g/2)
        + QB A11 A12 A13 A22 A23 A33 (b/2) ((e+1)/2) (h/2)
        + QB A11 A12 A13 A22 A23 A33 (c/2) (f/2) ((i+1)/2)) := by
      simp only [QB]
      linear_combination (-A11/2 - A22/2)*hc00 + (-A11/2 - A22/2)*hc11 + (-A11/2 - A22/2)*hc22
        + (A11/2 - A33/2)*hr00 + A12*hr01 + A13*hr02 + (A22/2 - A33/2)*hr11 + A23*hr12
        + (-A11 - A22 - A33)*htr1
    rw [hΔ] at hsum
    have q1 := hnn ((a+1)/2) (d/2) (g/2)
    have q2 := hnn (b/2) ((e+1)/2) (h/2)
    have q3 := hnn (c/2) (f/2) ((i+1)/2)
    obtain ⟨z1, z2, z3⟩ := hPD ((a+1)/2) (d/2) (g/2) (by linarith)
    obtain ⟨y1, y2, y3⟩ := hPD (b/2) ((e+1)/2) (h/2) (by linarith)
    obtain ⟨x1, x2, x3⟩ := hPD (c/2) (f/2) ((i+1)/2) (by linarith)
    have ha : a = -1 := by linarith
    have he : e = -1 := by linarith
    have hi : i = -1 := by linarith
    have hf0 : f = 0 := by linarith
    rw [ha, he, hi, hf0] at hk00
    norm_num at hk00
  · have htr3 : a + e + i = 3 := by linarith
    have ha1 : a ≤ 1 := le_one_of_row a b c hr00
    have he1 : e ≤ 1 := le_one_of_row e d f (by linarith)
    have hi1 : i ≤ 1 := le_one_of_row i g h (by linarith)
    have ha : a = 1 := by linarith
    have he : e = 1 := by linarith
    have hi : i = 1 := by linarith
    have z := zero_of_row (K := K)
    rw [ha] at hr00
    obtain ⟨hb0, hc0⟩ := z b c hr00
    rw [he] at hr11
    obtain ⟨hd0, hf0⟩ := z d f (by linarith)
    rw [hi] at hr22
    obtain ⟨hg0, hh0⟩ := z g h (by linarith)
    exact ⟨ha, he, hi, hb0, hc0, hd0, hf0, hg0, hh0⟩

/-- positive definite (as a quadratic form): only the zero vector has `vᵀBv ≤ 0` -/
def IsPD (B : M3 K) : Prop := ∀ v : V3 K, qform B v ≤ 0 → v = V3.zero

theorem IsPD.psd {B : M3 K} (h : IsPD B) : IsPSD B := by
  intro v
  by_contra hneg
  rw [not_le] at hneg
  have := h v hneg.le
  rw [this] at hneg
  simp [qform, V3.dot, M3.mulVec, V3.zero] at hneg

/-- equality in trace maximality under definiteness forces the identity -/
theorem traceMax_eq_one (Q A : M3 K) (hQ : IsRot Q) (hA : A.transpose = A) (hB : IsPD (bmat A))
    (heq : (Q.mul A).trace = A.trace) : Q = M3.one := by
  obtain ⟨c00, c01, c02, c11, c12, c22⟩ := hQ.1.eqs
  obtain ⟨r00, r01, r02, r11, r12, r22⟩ := hQ.1.row_eqs
  obtain ⟨k00, k01, k02, k10, k11, k12, k20, k21, k22⟩ := hQ.cof_eqs
  have s01 : A.a10 = A.a01 := by have := congrArg M3.a01 hA; simpa [M3.transpose] using this
  have s02 : A.a20 = A.a02 := by have := congrArg M3.a02 hA; simpa [M3.transpose] using this
  have s12 : A.a21 = A.a12 := by have := congrArg M3.a12 hA; simpa [M3.transpose] using this
  simp only [M3.mul, M3.trace] at heq
  rw [s01, s02, s12] at heq
  have key := traceMax_strict_scalar Q.a00 Q.a01 Q.a02 Q.a10 Q.a11 Q.a12 Q.a20 Q.a21 Q.a22
    A.a00 A.a01 A.a02 A.a11 A.a12 A.a22
    (by linear_combination c00) (by linear_combination c01) (by linear_combination c02)
    (by linear_combination c11) (by linear_combination c12) (by linear_combination c22)
    (by linear_combination r00) (by linear_combination r01) (by linear_combination r02)
    (by linear_combination r11) (by linear_combination r12) (by linear_combination r22)
    (by linear_combination k00) (by linear_combination k10) (by linear_combination k20)
    (by linear_combination k01) (by linear_combination k11) (by linear_combination k21)
    (by linear_combination k02) (by linear_combination k12) (by linear_combination k22)
    (by
      intro x y z hq
      have := hB ⟨x, y, z⟩ (by
        simp only [qform, bmat, QB, M3.sub, M3.smul, M3.one, M3.trace, M3.mulVec, V3.dot] at hq ⊢
        rw [s01, s02, s12]
        linarith [hq])
      have e := fun (f : V3 K → K) => congrArg f this
      exact ⟨e V3.x, e V3.y, e V3.z⟩)
    (by linarith [heq])
  obtain ⟨h1, h2, h3, h4, h5, h6, h7, h8, h9⟩ := key
  ext <;> simp only [M3.one] <;> assumption

/-- Sylvester: symmetric with positive leading principal minors ⇒ positive definite -/
theorem pd_of_minors (B : M3 K) (hs : B.transpose = B)
    (d0 : 0 < B.a00) (m01 : 0 < pm01 B) (hdet : 0 < B.det) : IsPD B := by
  have s01 : B.a10 = B.a01 := by have := congrArg M3.a01 hs; simpa [M3.transpose] using this
  have s02 : B.a20 = B.a02 := by have := congrArg M3.a02 hs; simpa [M3.transpose] using this
  have s12 : B.a21 = B.a12 := by have := congrArg M3.a12 hs; simpa [M3.transpose] using this
  simp only [pm01, M3.det] at m01 hdet
  rw [s01] at m01
  rw [s01, s02, s12] at hdet
  intro v hv
  obtain ⟨x, y, z⟩ := v
  simp only [qform, V3.dot, M3.mulVec] at hv
  rw [s01, s02, s12] at hv
  set p := B.a00
  set q := B.a11
  set r := B.a22
  set u := B.a01
  set w := B.a02
  set t := B.a12
  -- p·P·q(v) = P·L² + (P y + m z)² + p·det·z²
  have hid : p * (p * q - u * u) * (x * (p * x + u * y + w * z) + y * (u * x + q * y + t * z) + z * (w * x + t * y + r * z))
      = (p * q - u * u) * (p * x + u * y + w * z)^2 + ((p * q - u * u) * y + (p * t - u * w) * z)^2
        + p * (p * (q * r - t * t) - u * (u * r - t * w) + w * (u * t - q * w)) * z^2 := by ring
  have hle : p * (p * q - u * u) * (x * (p * x + u * y + w * z) + y * (u * x + q * y + t * z) + z * (w * x + t * y + r * z)) ≤ 0 :=
    mul_nonpos_of_nonneg_of_nonpos (mul_pos d0 m01).le hv
  have t1 : 0 ≤ (p * q - u * u) * (p * x + u * y + w * z)^2 := mul_nonneg m01.le (sq_nonneg _)
  have t2 : 0 ≤ ((p * q - u * u) * y + (p * t - u * w) * z)^2 := sq_nonneg _
  have t3 : 0 ≤ p * (p * (q * r - t * t) - u * (u * r - t * w) + w * (u * t - q * w)) * z^2 :=
    mul_nonneg (mul_pos d0 hdet).le (sq_nonneg _)
  have z3 : p * (p * (q * r - t * t) - u * (u * r - t * w) + w * (u * t - q * w)) * z^2 = 0 := by linarith
  have z2 : ((p * q - u * u) * y + (p * t - u * w) * z)^2 = 0 := by linarith
  have z1 : (p * q - u * u) * (p * x + u * y + w * z)^2 = 0 := by linarith
  have hz : z = 0 := by
    rcases mul_eq_zero.mp z3 with h | h
    · exact absurd h (mul_pos d0 hdet).ne'
    · exact pow_eq_zero_iff (two_ne_zero) |>.mp h
  have hy : y = 0 := by
    have := pow_eq_zero_iff (two_ne_zero) |>.mp z2
    rw [hz, mul_zero, add_zero] at this
    exact (mul_eq_zero.mp this).resolve_left m01.ne'
  have hx : x = 0 := by
    rcases mul_eq_zero.mp z1 with h | h
    · exact absurd h m01.ne'
    · have := pow_eq_zero_iff (two_ne_zero) |>.mp h
      rw [hy, hz, mul_zero, mul_zero, add_zero, add_zero] at this
      exact (mul_eq_zero.mp this).resolve_left d0.ne'
  rw [hx, hy, hz]; rfl

/-- **uniqueness**: under the exact certificate with `tr(A)I − A` positive definite, a competitor
of the class whose residual is not larger is the certified output itself -/
theorem unique_of_cert {ws : Bool} {x y : List (V3 K)} {R : M3 K} {t : V3 K} {c : K}
    (h : Cert ws x y R t c) (hPD : IsPD (bmat (amat x y R))) (hlen : x.length = y.length) (hne : x ≠ [])
    (R' : M3 K) (t' : V3 K) (c' : K) (hR' : IsRot R') (hc' : if ws = true then 0 ≤ c' else c' = 1)
    (hle : resid x y R' t' c' ≤ resid x y R t c) : R' = R ∧ t' = t ∧ c' = c := by
  have hn := cnt_pos (K := K) x hne
  rw [resid_decomp x y R t c hlen hn.ne' h.rot.1, resid_decomp x y R' t' c' hlen hn.ne' hR'.1] at hle
  rw [← h.trans, normSq_sub_self] at hle
  have hT := traceMax_of_cert h R' hR'
  have hN := normSq_nonneg (V3.sub t' (tFormula x y R' c'))
  have hv := var_nonneg x
  -- tr B = 2·tr A > 0
  have hTpos : 0 < (amat x y R).trace := by
    have e1 : ¬ qform (bmat (amat x y R)) ⟨1, 0, 0⟩ ≤ 0 := fun hq => by
      have := congrArg V3.x (hPD _ hq); simp [V3.zero] at this
    have e2 : ¬ qform (bmat (amat x y R)) ⟨0, 1, 0⟩ ≤ 0 := fun hq => by
      have := congrArg V3.y (hPD _ hq); simp [V3.zero] at this
    have e3 : ¬ qform (bmat (amat x y R)) ⟨0, 0, 1⟩ ≤ 0 := fun hq => by
      have := congrArg V3.z (hPD _ hq); simp [V3.zero] at this
    rw [not_le] at e1 e2 e3
    simp only [qform, bmat, M3.sub, M3.smul, M3.one, M3.trace, M3.mulVec, V3.dot] at e1 e2 e3 ⊢
    linarith
  -- the three non-negative defects vanish
  have hsum : (var y + c' ^ 2 * var x - 2 * c' * (amat x y R').trace) + V3.normSq (V3.sub t' (tFormula x y R' c'))
      ≤ (var y + c ^ 2 * var x - 2 * c * (amat x y R).trace) := by
    have := hle
    rw [mul_zero, add_zero, ← mul_add] at this
    exact le_of_mul_le_mul_left this hn
  have hcc : c' = c ∧ (amat x y R').trace = (amat x y R).trace ∧ V3.normSq (V3.sub t' (tFormula x y R' c')) = 0 := by
    cases ws with
    | true =>
      have hs := h.scale
      simp only [if_true] at hs hc'
      obtain ⟨hcv, hcpos⟩ := hs
      have hvpos : 0 < var x := by
        rcases hv.lt_or_eq with h1 | h1
        · exact h1
        · rw [← h1, mul_zero] at hcv; linarith
      have ident : (c' ^ 2 * var x - 2 * c' * (amat x y R').trace) - (c ^ 2 * var x - 2 * c * (amat x y R).trace)
          = var x * (c' - c) ^ 2 + 2 * c' * ((amat x y R).trace - (amat x y R').trace) := by
        rw [← hcv]; ring
      have a1 : 0 ≤ var x * (c' - c) ^ 2 := mul_nonneg hv (sq_nonneg _)
      have a2 : 0 ≤ 2 * c' * ((amat x y R).trace - (amat x y R').trace) :=
        mul_nonneg (by linarith) (by linarith)
      have z1 : var x * (c' - c) ^ 2 = 0 := by linarith
      have z2 : 2 * c' * ((amat x y R).trace - (amat x y R').trace) = 0 := by linarith
      have z3 : V3.normSq (V3.sub t' (tFormula x y R' c')) = 0 := by linarith
      have hc : c' = c := by
        have := (mul_eq_zero.mp z1).resolve_left hvpos.ne'
        have := pow_eq_zero_iff (two_ne_zero) |>.mp this
        linarith
      refine ⟨hc, ?_, z3⟩
      rw [hc] at z2
      have := (mul_eq_zero.mp z2).resolve_left (by positivity)
      linarith
    | false =>
      have hs := h.scale
      simp only [Bool.false_eq_true, if_false] at hs hc'
      subst hc'
      subst hs
      refine ⟨rfl, by linarith, by linarith⟩
  obtain ⟨hc, htr, hd⟩ := hcc
  -- rotation
  have hRRt := h.rot.1.mul_transpose
  have e : amat x y R' = (R'.transpose.mul R).mul (amat x y R) := by
    unfold amat
    rw [M3.mul_assoc', ← M3.mul_assoc' R, hRRt, M3.one_mul']
  rw [e] at htr
  have hQ := traceMax_eq_one _ _ (hR'.transpose.mul h.rot) h.sym hPD htr
  have hR : R' = R := by
    have : R'.mul (R'.transpose.mul R) = R'.mul M3.one := by rw [hQ]
    rw [← M3.mul_assoc', hR'.1.mul_transpose, M3.one_mul', M3.mul_one'] at this
    exact this.symm
  refine ⟨hR, ?_, hc⟩
  have := V3.eq_of_sub_zero (normSq_eq_zero hd)
  rw [this, hR, hc, ← h.trans]

end uniq
end Evo.Ume

namespace Evo.Ume
open Evo

set_option linter.unusedSectionVars false
set_option linter.unusedVariables false

section uniqrat

/-- reading of the decidable uniqueness condition -/
theorem isPD_of_certPD {ws : Bool} {x y : List (V3 Rat)} {R : M3 Rat} {t : V3 Rat} {c : Rat}
    (h : Cert ws x y R t c) (hpd : certPD x y R = true) : IsPD (bmat (amat x y R)) := by
  unfold certPD at hpd
  simp only [Bool.and_eq_true, decide_eq_true_eq] at hpd
  obtain ⟨⟨p0, p1⟩, p2⟩ := hpd
  exact pd_of_minors _ (bmat_symm h.sym) p0 p1 p2

theorem mulVec_lin (M : M3 Rat) (a b : Rat) (u v : V3 Rat) :
    M.mulVec (V3.add (V3.smul a u) (V3.smul b v)) = V3.add (V3.smul a (M.mulVec u)) (V3.smul b (M.mulVec v)) := by
  ext <;> simp only [M3.mulVec, V3.add, V3.smul] <;> ring

/-- pull-back of a transformation of the moved data to the original data: `B⁻¹ ∘ g₂ ∘ A` -/
theorem pull_apply (RA RB R₂ : M3 Rat) (tA tB t₂ : V3 Rat) (sA sB c₂ : Rat) (hB : IsOrtho RB) (hsB : sB ≠ 0) (p : V3 Rat) :
    simApply R₂ t₂ c₂ (simApply RA tA sA p)
      = simApply RB tB sB (simApply (RB.transpose.mul (R₂.mul RA))
          (V3.smul (1 / sB) (RB.transpose.mulVec (V3.sub (V3.add (V3.smul c₂ (R₂.mulVec tA)) t₂) tB)))
          (c₂ * sA / sB) p) := by
  have e : ∀ v : V3 Rat, RB.mulVec (RB.transpose.mulVec v) = v := by
    intro v; rw [M3.mulVec_mulVec, hB.mul_transpose, M3.one_mulVec]
  have h1 : (RB.transpose.mul (R₂.mul RA)).mulVec p = RB.transpose.mulVec (R₂.mulVec (RA.mulVec p)) := by
    rw [← M3.mulVec_mulVec, ← M3.mulVec_mulVec]
  have h2 : RB.mulVec (simApply (RB.transpose.mul (R₂.mul RA))
      (V3.smul (1 / sB) (RB.transpose.mulVec (V3.sub (V3.add (V3.smul c₂ (R₂.mulVec tA)) t₂) tB))) (c₂ * sA / sB) p)
      = V3.add (V3.smul (c₂ * sA / sB) (R₂.mulVec (RA.mulVec p)))
          (V3.smul (1 / sB) (V3.sub (V3.add (V3.smul c₂ (R₂.mulVec tA)) t₂) tB)) := by
    unfold simApply
    rw [h1, mulVec_lin RB (c₂ * sA / sB) (1 / sB), e, e]
  have h3 : simApply RB tB sB (simApply (RB.transpose.mul (R₂.mul RA))
      (V3.smul (1 / sB) (RB.transpose.mulVec (V3.sub (V3.add (V3.smul c₂ (R₂.mulVec tA)) t₂) tB))) (c₂ * sA / sB) p)
      = V3.add (V3.smul sB (V3.add (V3.smul (c₂ * sA / sB) (R₂.mulVec (RA.mulVec p)))
          (V3.smul (1 / sB) (V3.sub (V3.add (V3.smul c₂ (R₂.mulVec tA)) t₂) tB)))) tB := by
    rw [← h2]; rfl
  rw [h3]
  ext <;> simp only [simApply, V3.add, V3.sub, V3.smul, M3.mulVec] <;> field_simp <;> ring

theorem resid_pull (x y : List (V3 Rat)) (RA RB R₂ : M3 Rat) (tA tB t₂ : V3 Rat) (sA sB c₂ : Rat)
    (hB : IsOrtho RB) (hsB : sB ≠ 0) :
    resid (x.map (simApply RA tA sA)) (y.map (simApply RB tB sB)) R₂ t₂ c₂
      = sB ^ 2 * resid x y (RB.transpose.mul (R₂.mul RA))
          (V3.smul (1 / sB) (RB.transpose.mulVec (V3.sub (V3.add (V3.smul c₂ (R₂.mulVec tA)) t₂) tB)))
          (c₂ * sA / sB) := by
  unfold resid
  rw [zip_map_both, sumMap_map', ← sumMap_mul_left]
  apply sumMap_congr
  intro p
  simp only []
  rw [pull_apply RA RB R₂ tA tB t₂ sA sB c₂ hB hsB, normSq_sim_sub RB tB sB hB]

/-- **equivariance of the result**: if `(R,t,c)` is certified for `(x, y)` and `(R₂,t₂,c₂)` is
certified for the moved / scaled / permuted data `(A·x, B·y)` with the uniqueness condition `certPD`,
then `(R₂,t₂,c₂) = B ∘ (R,t,c) ∘ A⁻¹` exactly -/
theorem equivariant_unique (ws : Bool) (x y x' y' : List (V3 Rat)) (R R₂ RA RB : M3 Rat) (t t₂ tA tB : V3 Rat)
    (c c₂ sA sB : Rat)
    (h1 : umeCert 0 ws x y R t c = true) (h2 : umeCert 0 ws x' y' R₂ t₂ c₂ = true) (hpd : certPD x' y' R₂ = true)
    (hperm : (x'.zip y').Perm ((x.map (simApply RA tA sA)).zip (y.map (simApply RB tB sB))))
    (hlen : x.length = y.length) (hne : x ≠ []) (hlen' : x'.length = y'.length) (hne' : x' ≠ [])
    (hA : IsRot RA) (hB : IsRot RB) (hsA : 0 < sA) (hsB : 0 < sB) (hws : ws = false → sA = sB) :
    R₂ = conjRot RA RB R ∧ t₂ = conjTrans RA RB R tA tB t sA sB c ∧ c₂ = conjScale sA sB c := by
  have c1 := cert_of_umeCert h1
  have c2 := cert_of_umeCert h2
  have pd2 := isPD_of_certPD c2 hpd
  have hcpos : 0 < c ∧ (ws = false → c = 1) := by
    have hs := c1.scale
    cases ws with
    | true => simp only [if_true] at hs; exact ⟨hs.2, by simp⟩
    | false => simp only [Bool.false_eq_true, if_false] at hs; exact ⟨by rw [hs]; exact one_pos, fun _ => hs⟩
  have hc2pos : 0 ≤ c₂ ∧ (ws = false → c₂ = 1) := by
    have hs := c2.scale
    cases ws with
    | true => simp only [if_true] at hs; exact ⟨hs.2.le, by simp⟩
    | false => simp only [Bool.false_eq_true, if_false] at hs; exact ⟨by rw [hs]; exact zero_le_one, fun _ => hs⟩
  -- the composed transformation is in the class
  have hGrot : IsRot (conjRot RA RB R) := hB.mul (c1.rot.mul hA.transpose)
  have hGc : if ws = true then 0 ≤ conjScale sA sB c else conjScale sA sB c = 1 := by
    cases ws with
    | true =>
      simp only [if_true]; unfold conjScale
      exact div_nonneg (mul_nonneg hsB.le hcpos.1.le) hsA.le
    | false =>
      simp only [Bool.false_eq_true, if_false]
      unfold conjScale
      rw [hcpos.2 rfl, hws rfl]; field_simp
  -- the pulled-back second result is in the class of the first problem
  have hHrot : IsRot (RB.transpose.mul (R₂.mul RA)) := hB.transpose.mul (c2.rot.mul hA)
  have hopt : resid x y R t c ≤ resid x y (RB.transpose.mul (R₂.mul RA))
      (V3.smul (1 / sB) (RB.transpose.mulVec (V3.sub (V3.add (V3.smul c₂ (R₂.mulVec tA)) t₂) tB))) (c₂ * sA / sB) := by
    cases ws with
    | true => exact optimal_sim c1 hlen hne _ _ _ hHrot (div_nonneg (mul_nonneg hc2pos.1 hsA.le) hsB.le)
    | false =>
      have e : c₂ * sA / sB = 1 := by rw [hc2pos.2 rfl, hws rfl]; field_simp
      rw [e]
      have := optimal_rigid c1 hlen hne _ (V3.smul (1 / sB) (RB.transpose.mulVec (V3.sub (V3.add (V3.smul c₂ (R₂.mulVec tA)) t₂) tB))) hHrot
      exact this
  have hle : resid x' y' (conjRot RA RB R) (conjTrans RA RB R tA tB t sA sB c) (conjScale sA sB c)
      ≤ resid x' y' R₂ t₂ c₂ := by
    rw [resid_perm x' y' _ _ hperm, resid_perm x' y' _ _ hperm,
      resid_equivariant x y RA RB R tA tB t sA sB c hA.1 hB.1 hsA.ne',
      resid_pull x y RA RB R₂ tA tB t₂ sA sB c₂ hB.1 hsB.ne']
    exact mul_le_mul_of_nonneg_left hopt (sq_nonneg sB)
  obtain ⟨e1, e2, e3⟩ := unique_of_cert c2 pd2 hlen' hne' _ _ _ hGrot hGc hle
  exact ⟨e1.symm, e2.symm, e3.symm⟩

end uniqrat
end Evo.Ume
