/-
Model of trajectory alignment: `PosePath3D.scale`, `.transform` (left multiplication by an
SE(3) matrix), `.align`, `.align_origin` (evo/core/trajectory.py:165-287) and of the matrix
`alignment_transformation_sim3` assembled by `ape()` / `rpe()` (evo/main_ape.py:50-68,
evo/main_rpe.py:52-72, after fix aaba970). A path is the list of its poses; the two storage
modes of a `PosePath3D` (pose matrices / positions + quaternions) denote the same list and are
distinguished only by the harness. The Umeyama parameters `(R, t, s)` are an input here: they
are evo's own result, certified by C03 (`Ume.umeCert`).
-/
import EvoModel.Model.Umeyama
namespace Evo.Align
open Evo

section
variable {K : Type} [Add K] [Mul K] [Sub K] [Neg K] [Zero K] [One K]

/-- `PosePath3D.scale(s)`: positions multiplied by `s`, rotation blocks untouched -/
def scalePath (s : K) (ps : List (Pose K)) : List (Pose K) :=
  ps.map (fun p => ⟨p.rot, V3.smul s p.t⟩)

/-- `PosePath3D.transform(T)` with `right_mul=False` for an SE(3) matrix `T`: `T·p` for every pose -/
def transformLeft (T : Pose K) (ps : List (Pose K)) : List (Pose K) := ps.map (fun p => Pose.mul T p)

/-- `transform(T, right_mul=True)` (not used by alignment; kept for the mutant theorem) -/
def transformRight (T : Pose K) (ps : List (Pose K)) : List (Pose K) := ps.map (fun p => Pose.mul p T)

/-- `lie.se3(r, t)` -/
def se3 (R : M3 K) (t : V3 K) : Pose K := ⟨R, t⟩

def positions (ps : List (Pose K)) : List (V3 K) := ps.map Pose.pos

/-- the three modes of `align`: `correct_only_scale` / `correct_scale` / neither -/
inductive Mode | se3 | sim3 | scaleOnly
deriving DecidableEq, Repr

/-- `mode` as `align()` derives it from its two flags (`correct_only_scale` wins) -/
def modeOf (correctScale correctOnlyScale : Bool) : Mode :=
  if correctOnlyScale then .scaleOnly else if correctScale then .sim3 else .se3

/-- `with_scale = correct_scale or correct_only_scale` passed to Umeyama -/
def withScaleOf (correctScale correctOnlyScale : Bool) : Bool := correctScale || correctOnlyScale

/-- the last block of `align()`: what is applied to the estimate for the returned `(R, t, s)` -/
def alignApply (m : Mode) (R : M3 K) (t : V3 K) (s : K) (ps : List (Pose K)) : List (Pose K) :=
  match m with
  | .scaleOnly => scalePath s ps
  | .sim3 => transformLeft (se3 R t) (scalePath s ps)
  | .se3 => transformLeft (se3 R t) ps

/-- `align_origin`: `T = ref₀ · se3_inverse(est₀)`; returns `T` and the transformed estimate.
Empty trajectories are refused (`TrajectoryException`). -/
def alignOrigin (ref est : List (Pose K)) : Option (Pose K × List (Pose K)) :=
  match ref, est with
  | r0 :: _, e0 :: _ =>
      let T := Pose.mul r0 (Pose.inv e0)
      some (T, transformLeft T est)
  | _, _ => none

end

/-- Python's `a[:n]` for the `n` of `align(..., n)`: `n == -1` means all poses (special-cased by
evo), `n ≥ 0` the first `n`, `n < -1` all but the last `|n|`. -/
def firstN {α : Type} (n : Int) (l : List α) : List α :=
  if n = -1 then l
  else if 0 ≤ n then l.take n.toNat
  else l.take (l.length - (-n).toNat)

section
variable {K : Type} [Add K] [Mul K] [Sub K] [Neg K] [Zero K] [One K]

/-- the two point sets `align()` hands to `umeyama_alignment` (as lists of columns) -/
def alignInputs (n : Int) (est ref : List (Pose K)) : List (V3 K) × List (V3 K) :=
  (firstN n (positions est), firstN n (positions ref))

/-- options of `ape()` / `rpe()` that concern alignment -/
structure Opts where
  align : Bool
  correctScale : Bool
  alignOrigin : Bool
deriving DecidableEq, Repr

/-- `only_scale = correct_scale and not align` -/
def Opts.onlyScale (o : Opts) : Bool := o.correctScale && !o.align

/-- mode in which `ape()`/`rpe()` call `traj_est.align(traj_ref, correct_scale, only_scale, n)` -/
def Opts.mode (o : Opts) : Mode := modeOf o.correctScale o.onlyScale

/-- the alignment block of `ape()` / `rpe()` (identical in both) for the Umeyama result
`(R, t, s)` that `align()` returns: the estimate stored in the result and the recorded
`alignment_transformation_sim3` (`none`: no array is added). A 4×4 matrix with bottom row
`0 0 0 1` is a `Pose` whose block may be a scaled rotation. -/
def apeAlign (o : Opts) (R : M3 K) (t : V3 K) (s : K) (ref est : List (Pose K)) :
    Option (List (Pose K) × Option (Pose K)) :=
  let est1 := if o.align || o.correctScale then alignApply o.mode R t s est else est
  let m1 : Option (Pose K) :=
    if o.align || o.correctScale then
      (if o.onlyScale then some (Pose.sim3 M3.one V3.zero s) else some (Pose.sim3 R t s))
    else none
  if o.alignOrigin then
    match alignOrigin ref est1 with
    | none => none
    | some (T, est2) =>
        some (est2, match m1 with
                    | none => some T
                    | some m => some (Pose.mul T m))
  else some (est1, m1)

/-- the same block before fix aaba970 (pinned snapshot): `sim3(R, t, s)` was recorded even in
scale-only mode and the origin transformation *replaced* the recorded matrix. -/
def apeAlignOld (o : Opts) (R : M3 K) (t : V3 K) (s : K) (ref est : List (Pose K)) :
    Option (List (Pose K) × Option (Pose K)) :=
  let est1 := if o.align || o.correctScale then alignApply o.mode R t s est else est
  let m1 : Option (Pose K) := if o.align || o.correctScale then some (Pose.sim3 R t s) else none
  if o.alignOrigin then
    match alignOrigin ref est1 with
    | none => none
    | some (T, est2) => some (est2, some T)
  else some (est1, m1)

end

section
variable {K : Type} [Add K] [Mul K] [Sub K] [Neg K] [Zero K] [One K] [Div K]

/-- image of the pose `p` under the 4×4 matrix `M` whose block is `σ·Q` (`σ` the scale, `Q` a
rotation): position `M.rot·p.t + M.t` (homogeneous action on the position), orientation
`(1/σ)·M.rot·p.rot` (the rotation part of `M` applied from the left). "`M` maps the unaligned
estimate onto the stored one" means `stored = unaligned.map (moveBy M σ)`. -/
def moveBy (M : Pose K) (σ : K) (p : Pose K) : Pose K :=
  ⟨M3.mul (M3.smul (1 / σ) M.rot) p.rot, V3.add (M3.mulVec M.rot p.t) M.t⟩

/-- sum of squared position differences `Σ‖b_i − a_i‖²` (n·RMSE² of the translation error) -/
def sse (a b : List (V3 K)) : K :=
  Ume.sumMap (fun p : V3 K × V3 K => V3.normSq (V3.sub p.2 p.1)) (a.zip b)

end

end Evo.Align
