/-
Absolute pose error (`evo/core/metrics.py`: `PoseRelation`, `APE.ape_base`, `APE.process_data`)
and the option → step decision logic of `evo_ape` (`evo/main_ape.py`: `ape()`, `run()`;
`evo/common_ape_rpe.py`: `downsample_or_filter`).

Numbers: the model returns the exact *rational core* of each error value (`Core`); the one
irrational function on top (`sqrt`, `atan2`) is named by the constructor and applied by the
reader of the value (harness: high precision; `Props/C01.lean`: over ℝ).
No Mathlib import; `apeCore`/`reduceE` are polymorphic so that the same definition is used
over `Rat` (driver) and over any field (proofs).
-/
import EvoModel.Model.Lin
namespace Evo

/-- `metrics.PoseRelation` -/
inductive PoseRelation where
  | full        -- full_transformation
  | trans       -- translation_part
  | rot         -- rotation_part
  | angleRad    -- rotation_angle_rad
  | angleDeg    -- rotation_angle_deg
  | pointDist   -- point_distance
  | ratio       -- point_distance_error_ratio
deriving DecidableEq, Repr

def PoseRelation.isAngle : PoseRelation → Bool
  | .angleRad | .angleDeg => true
  | _ => false

/-- `PoseRelation.<member>.value` -/
def PoseRelation.value : PoseRelation → String
  | .full => "full transformation" | .trans => "translation part" | .rot => "rotation part"
  | .angleRad => "rotation angle in radians" | .angleDeg => "rotation angle in degrees"
  | .pointDist => "point distance" | .ratio => "point distance error ratio"

/-- `APE(rel).unit.value` (set in `APE.__init__`) -/
def PoseRelation.apeUnit : PoseRelation → String
  | .trans | .pointDist => "m"
  | .angleDeg => "deg"
  | .angleRad => "rad"
  | _ => "unit-less"

/-- `RPE(rel).unit.value` (set in `RPE.__init__`) -/
def PoseRelation.rpeUnit : PoseRelation → String
  | .trans | .pointDist => "m"
  | .ratio => "%"
  | .angleDeg => "deg"
  | .angleRad => "rad"
  | _ => "unit-less"

/-- rational core of one error value; the reported number is
* `sqrt r`            ↦ `√r`
* `angle c s2 deg`    ↦ `θ = atan2(√s2, c) ∈ [0, π]` (`c = cos θ`, `s2 = sin² θ`), `·180/π` if `deg`
* `sqrtDiff a b`      ↦ `|√a − √b|`
* `sqrtRatio a b`     ↦ `|√a − √b| / √a · 100` -/
inductive Core (K : Type) where
  | sqrt (r : K)
  | angle (c s2 : K) (deg : Bool)
  | sqrtDiff (a b : K)
  | sqrtRatio (a b : K)
deriving DecidableEq, Repr

section
variable {K : Type} [Add K] [Mul K] [Sub K] [Neg K] [Zero K] [One K] [Div K]

/-- reduction of an error pose `E` to a number, the `elif` chain shared by `APE.process_data`
and `RPE.process_data`:
`norm(E − I₄)` / `norm(E[:3,3])` / `norm(E[:3,:3] − I₃)` / `|so3_log_angle(E[:3,:3])|`.
(`pointDist`, `ratio` never reach this function; they get the dummy `sqrt 0`.) -/
def reduceE (rel : PoseRelation) (E : Pose K) : Core K :=
  match rel with
  | .full => .sqrt (M3.frobSq (M3.sub E.rot M3.one) + V3.normSq E.t)
  | .trans => .sqrt (V3.normSq E.t)
  | .rot => .sqrt (M3.frobSq (M3.sub E.rot M3.one))
  | .angleRad => .angle (M3.angleCore E.rot).1 (M3.angleCore E.rot).2 false
  | .angleDeg => .angle (M3.angleCore E.rot).1 (M3.angleCore E.rot).2 true
  | .pointDist => .sqrt 0
  | .ratio => .sqrt 0

/-- `APE.ape_base(x_t = est, x_t_star = ref) = relative_se3(est, ref) = se3_inverse(est)·ref` -/
def apeBase (est ref : Pose K) : Pose K := Pose.rel est ref

/-- error core of one (reference, estimate) pair, as `APE.process_data` computes it:
translation part / point distance directly on the positions (`est − ref`), everything else
on `E = ape_base(est, ref)`. (`ratio` is refused by `ape`; dummy value.) -/
def apeCore (rel : PoseRelation) (ref est : Pose K) : Core K :=
  match rel with
  | .trans => .sqrt (V3.normSq (V3.sub est.t ref.t))
  | .pointDist => .sqrt (V3.normSq (V3.sub est.t ref.t))
  | .ratio => .sqrt 0
  | r => reduceE r (apeBase est ref)
end

/-! ### the `is_so3` guard of `so3_log` (angle relations only) -/

/-- `np.allclose(x, 1, atol=1e-6)` = `|x − 1| ≤ 1e-6 + 1e-5·1` -/
def tolOne : Rat := 11 / 1000000
/-- `np.allclose(x, 0, atol=1e-6)` = `|x| ≤ 1e-6` -/
def tolZero : Rat := 1 / 1000000

/-- `lie_algebra.is_so3`: determinant close to one and `rᵀ r` close to the identity -/
def isSo3Approx (r : M3 Rat) : Bool :=
  let g := M3.mul (M3.transpose r) r
  decide (absR (M3.det r - 1) ≤ tolOne)
    && decide (absR (g.a00 - 1) ≤ tolOne) && decide (absR (g.a11 - 1) ≤ tolOne)
    && decide (absR (g.a22 - 1) ≤ tolOne)
    && decide (absR g.a01 ≤ tolZero) && decide (absR g.a02 ≤ tolZero) && decide (absR g.a10 ≤ tolZero)
    && decide (absR g.a12 ≤ tolZero) && decide (absR g.a20 ≤ tolZero) && decide (absR g.a21 ≤ tolZero)

/-- smallest distance of a guard quantity from its threshold (for the harness: float rounding
may decide either way when this is tiny) -/
def so3Margin (r : M3 Rat) : Rat :=
  let g := M3.mul (M3.transpose r) r
  let ds := [absR (absR (M3.det r - 1) - tolOne), absR (absR (g.a00 - 1) - tolOne),
    absR (absR (g.a11 - 1) - tolOne), absR (absR (g.a22 - 1) - tolOne),
    absR (absR g.a01 - tolZero), absR (absR g.a02 - tolZero), absR (absR g.a10 - tolZero),
    absR (absR g.a12 - tolZero), absR (absR g.a20 - tolZero), absR (absR g.a21 - tolZero)]
  ds.foldl (fun a b => if b < a then b else a) 1

inductive MetricErr where
  | unequal       -- MetricsException "trajectories must have same number of poses"
  | unsupported   -- MetricsException "unsupported pose_relation"
  | notSO3        -- LieAlgebraException "matrix is not a valid SO(3) group element"
  | badIndex      -- IndexError: a pair index outside the trajectory (RPE only; never from evo's own pair selection)
deriving DecidableEq, Repr

/-- the rotation blocks the angle relations hand to `so3_log_angle` -/
def apeRots (ref est : List (Pose Rat)) : List (M3 Rat) :=
  List.zipWith (fun r e => (apeBase e r).rot) ref est

/-- `APE(rel).process_data((traj_ref, traj_est))` → `error`, on the pose lists of the two paths -/
def ape (rel : PoseRelation) (ref est : List (Pose Rat)) : Except MetricErr (List (Core Rat)) :=
  if ref.length ≠ est.length then .error .unequal
  else if rel = .ratio then .error .unsupported
  else if rel.isAngle = true ∧ (apeRots ref est).all isSo3Approx = false then .error .notSO3
  else .ok (List.zipWith (apeCore rel) ref est)

/-! ### option → step decision logic of `evo_ape` / `evo_rpe` (shared part)

`run()`: load → `downsample_or_filter` → (trajectories with timestamps only) crop the
*reference* to `[t_start, t_end]`, associate → `ape()`/`rpe()`: align (Umeyama) → origin
alignment → projection → metric → unit change. -/

inductive Plane where | xy | xz | yz
deriving DecidableEq, Repr

/-- the units `--change_unit` accepts (`ANGLE_UNITS + LENGTH_UNITS`) -/
inductive UnitName where | deg | rad | mm | cm | m | km
deriving DecidableEq, Repr

/-- `traj_est.align(traj_ref, correct_scale, correct_only_scale, n)` variants -/
inductive AlignKind where
  | se3        -- rotation + translation
  | sim3       -- scale, then rotation + translation
  | scaleOnly  -- scale alone
deriving DecidableEq, Repr

/-- delta unit of `evo_rpe` (`common.get_delta_unit`) -/
inductive DeltaUnit where | frames | meters | radians | degrees
deriving DecidableEq, Repr

inductive Step where
  /-- `traj_ref.downsample(n); traj_est.downsample(n)` -/
  | downsample (n : Int)
  /-- `traj_ref.motion_filter(d, a, True); traj_est.motion_filter(d, a, True)` -/
  | motionFilter (d a : Rat)
  /-- `traj_ref.reduce_to_time_range(s, e)` — the reference only -/
  | cropRef (s e : Option Rat)
  /-- `sync.associate_trajectories(traj_ref, traj_est, maxDiff, off)` -/
  | associate (maxDiff off : Rat)
  /-- `traj_est.align(traj_ref, …, n)` -/
  | align (kind : AlignKind) (n : Int)
  /-- `traj_est.align_origin(traj_ref)` -/
  | alignOrigin
  /-- `traj_ref.project(pl); traj_est.project(pl)` -/
  | project (pl : Plane)
  /-- `APE(rel).process_data((traj_ref, traj_est))` -/
  | metricApe (rel : PoseRelation)
  /-- `RPE(rel, delta, unit, tol, all_pairs, pairs_from_reference).process_data(…)` -/
  | metricRpe (rel : PoseRelation) (delta : Rat) (unit : DeltaUnit) (tol : Rat) (allPairs fromRef : Bool)
  /-- `metric.change_unit(u)` -/
  | changeUnit (u : UnitName)
  /-- `reduce_to_ids([0] + delta_ids)` on both trajectories (evo_rpe: stored trajectories, timestamps) -/
  | reduceToFirstAndPairEnds
deriving DecidableEq, Repr

/-- position of a step in the documented order -/
def Step.rank : Step → Nat
  | .downsample _ => 0
  | .motionFilter _ _ => 1
  | .cropRef _ _ => 2
  | .associate _ _ => 3
  | .align _ _ => 4
  | .alignOrigin => 5
  | .project _ => 6
  | .metricApe _ => 7
  | .metricRpe .. => 7
  | .changeUnit _ => 8
  | .reduceToFirstAndPairEnds => 9

/-- the algorithm options common to `evo_ape` and `evo_rpe` (argparse namespace after parsing) -/
structure CommonOpts where
  /-- tum / euroc / bag: `PoseTrajectory3D`; kitti: `PosePath3D` without timestamps -/
  hasStamps : Bool
  downsample : Option Int
  motionFilter : Option (Rat × Rat)
  tStart : Option Rat
  tEnd : Option Rat
  tMaxDiff : Rat
  tOffset : Rat
  align : Bool
  correctScale : Bool
  nToAlign : Int
  alignOrigin : Bool
  plane : Option Plane
  rel : PoseRelation
  changeUnit : Option UnitName
deriving Repr

inductive PlanErr where
  /-- `FilterException`: motion filter requested for trajectories without timestamps -/
  | filterNeedsStamps
deriving DecidableEq, Repr

/-- `if c then [s] else []` -/
def optStep (c : Bool) (s : Step) : List Step := if c then [s] else []

/-- `common.downsample_or_filter`: `if args.downsample:` (None and 0 are falsy) -/
def downsamplePart (o : CommonOpts) : List Step :=
  match o.downsample with
  | some n => optStep (n != 0) (.downsample n)
  | none => []

def motionPart (o : CommonOpts) : List Step :=
  match o.motionFilter with
  | some (d, a) => [.motionFilter d a]
  | none => []

/-- `if args.t_start is not None or args.t_end is not None: traj_ref.reduce_to_time_range(…)`,
inside `if isinstance(…, PoseTrajectory3D)`, followed by the association -/
def syncPart (o : CommonOpts) : List Step :=
  if o.hasStamps then
    optStep (o.tStart.isSome || o.tEnd.isSome) (.cropRef o.tStart o.tEnd) ++ [.associate o.tMaxDiff o.tOffset]
  else []

/-- `only_scale = correct_scale and not align`; `if align or correct_scale: traj_est.align(
traj_ref, correct_scale, only_scale, n=n_to_align)` -/
def alignKind (align correctScale : Bool) : Option AlignKind :=
  if align && correctScale then some .sim3
  else if align then some .se3
  else if correctScale then some .scaleOnly
  else none

def alignPart (o : CommonOpts) : List Step :=
  match alignKind o.align o.correctScale with
  | some k => [.align k o.nToAlign]
  | none => []

def projectPart (o : CommonOpts) : List Step :=
  match o.plane with
  | some p => [.project p]
  | none => []

def unitPart (o : CommonOpts) : List Step :=
  match o.changeUnit with
  | some u => [.changeUnit u]
  | none => []

/-- everything before the metric -/
def prePlan (o : CommonOpts) : Except PlanErr (List Step) :=
  if o.motionFilter.isSome && !o.hasStamps then .error .filterNeedsStamps
  else .ok (downsamplePart o ++ motionPart o ++ syncPart o ++ alignPart o
            ++ optStep o.alignOrigin .alignOrigin ++ projectPart o)

/-- the steps `evo_ape` performs between loading the two files and saving the result -/
def apePlan (o : CommonOpts) : Except PlanErr (List Step) :=
  match prePlan o with
  | .error e => .error e
  | .ok pre => .ok (pre ++ [.metricApe o.rel] ++ unitPart o)

/-! ### protocol -/

def PoseRelation.ofString? : String → Option PoseRelation
  | "full" => some .full | "trans_part" => some .trans | "rot_part" => some .rot
  | "angle_rad" => some .angleRad | "angle_deg" => some .angleDeg
  | "point_distance" => some .pointDist | "point_distance_error_ratio" => some .ratio
  | _ => none

def PoseRelation.toString : PoseRelation → String
  | .full => "full" | .trans => "trans_part" | .rot => "rot_part" | .angleRad => "angle_rad"
  | .angleDeg => "angle_deg" | .pointDist => "point_distance" | .ratio => "point_distance_error_ratio"

def showCore : Core Rat → String
  | .sqrt r => "S:" ++ showRat r
  | .angle c s d => "A:" ++ showRat c ++ ":" ++ showRat s ++ ":" ++ (if d then "deg" else "rad")
  | .sqrtDiff a b => "D:" ++ showRat a ++ ":" ++ showRat b
  | .sqrtRatio a b => "R:" ++ showRat a ++ ":" ++ showRat b

def showCores (l : List (Core Rat)) : String := " ".intercalate (l.map showCore)

def showMetricErr : MetricErr → String
  | .unequal => "E_METRICS:len" | .unsupported => "E_METRICS:rel" | .notSO3 => "E_GEOMETRY"
  | .badIndex => "E_INDEX"

def optRat? (s : String) : Option (Option Rat) :=
  if s = "-" then some none else (parseRat? s).map some

def showOptRat : Option Rat → String
  | none => "-" | some r => showRat r

def bool? : String → Option Bool
  | "1" => some true | "0" => some false | _ => none

def Plane.ofString? : String → Option (Option Plane)
  | "-" => some none | "xy" => some (some .xy) | "xz" => some (some .xz) | "yz" => some (some .yz)
  | _ => none
def Plane.toString : Plane → String | .xy => "xy" | .xz => "xz" | .yz => "yz"

def UnitName.ofString? : String → Option (Option UnitName)
  | "-" => some none | "deg" => some (some .deg) | "rad" => some (some .rad) | "mm" => some (some .mm)
  | "cm" => some (some .cm) | "m" => some (some .m) | "km" => some (some .km) | _ => none
def UnitName.toString : UnitName → String
  | .deg => "deg" | .rad => "rad" | .mm => "mm" | .cm => "cm" | .m => "m" | .km => "km"

def AlignKind.toString : AlignKind → String | .se3 => "se3" | .sim3 => "sim3" | .scaleOnly => "scale_only"
def DeltaUnit.toString : DeltaUnit → String
  | .frames => "f" | .meters => "m" | .radians => "r" | .degrees => "d"
def DeltaUnit.ofString? : String → Option DeltaUnit
  | "f" => some .frames | "m" => some .meters | "r" => some .radians | "d" => some .degrees | _ => none

def showB (b : Bool) : String := if b then "1" else "0"

def showStep : Step → String
  | .downsample n => s!"downsample {n}"
  | .motionFilter d a => s!"motion_filter {showRat d} {showRat a}"
  | .cropRef s e => s!"crop_ref {showOptRat s} {showOptRat e}"
  | .associate m o => s!"associate {showRat m} {showRat o}"
  | .align k n => s!"align {k.toString} {n}"
  | .alignOrigin => "align_origin"
  | .project p => s!"project {p.toString}"
  | .metricApe r => s!"ape {r.toString}"
  | .metricRpe r d u t a f => s!"rpe {r.toString} {showRat d} {u.toString} {showRat t} {showB a} {showB f}"
  | .changeUnit u => s!"change_unit {u.toString}"
  | .reduceToFirstAndPairEnds => "reduce_to_first_and_pair_ends"

/-- the steps carried out before a refused plan stops: `downsample_or_filter` down-samples both
trajectories before it meets the motion filter that needs timestamps -/
def refusalPrefix (o : CommonOpts) : List Step := downsamplePart o

def showPlan (o : CommonOpts) : Except PlanErr (List Step) → String
  | .error .filterNeedsStamps =>
      " | ".intercalate ((refusalPrefix o).map showStep ++ ["E_FILTER"])
  | .ok l => " | ".intercalate (l.map showStep)

/-- the 14 common option tokens:
`hasStamps downsample|- mfDist|- mfAngle|- tStart|- tEnd|- tMaxDiff tOffset align correctScale
 nToAlign alignOrigin plane|- rel changeUnit|-` (15 tokens, motion filter takes two) -/
def readCommonOpts (l : List String) : Option (CommonOpts × List String) :=
  match l with
  | hs :: ds :: mfd :: mfa :: ts :: te :: md :: off :: al :: cs :: n :: ao :: pl :: rel :: cu :: rest => do
      let hs ← bool? hs
      let ds ← if ds = "-" then some none else ds.toInt?.map some
      let mfd ← optRat? mfd
      let mfa ← optRat? mfa
      let mf := match mfd, mfa with
        | some d, some a => some (d, a)
        | _, _ => none
      let ts ← optRat? ts
      let te ← optRat? te
      let md ← parseRat? md
      let off ← parseRat? off
      let al ← bool? al
      let cs ← bool? cs
      let n ← n.toInt?
      let ao ← bool? ao
      let pl ← Plane.ofString? pl
      let rel ← PoseRelation.ofString? rel
      let cu ← UnitName.ofString? cu
      some (⟨hs, ds, mf, ts, te, md, off, al, cs, n, ao, pl, rel, cu⟩, rest)
  | _ => none

end Evo
