/-
Shared, Mathlib-free helpers for all executable models: absolute value on `Rat`,
first-minimiser search, index reduction, and the text protocol of the driver
(rationals are sent as `p/q` or `p`, produced by Python's `float.as_integer_ratio()`).
-/
namespace Evo

def absR (x : Rat) : Rat := if x < 0 then -x else x

/-- first index minimising `f` over `l` (indices offset by `i`); `best`/`bv` current candidate.
Strict `<` keeps the first minimiser, like `numpy.argmin`. -/
def argminGo (f : Rat → Rat) : List Rat → Nat → Nat → Rat → Nat
  | [], _, best, _ => best
  | x :: r, i, best, bv => if f x < bv then argminGo f r (i+1) i (f x) else argminGo f r (i+1) best bv

def argminFirst (f : Rat → Rat) : List Rat → Nat
  | [] => 0
  | x :: r => argminGo f r 1 0 (f x)

/-- `reduce_to_ids`: select the elements at the given indices, in the order of the index list. -/
def reduceIds {α} (l : List α) (ids : List Nat) : List α := ids.filterMap (fun i => l[i]?)

/-! ### protocol -/

def parseRat? (s : String) : Option Rat :=
  match s.splitOn "/" with
  | [a] => a.toInt?.map (fun (n : Int) => (n : Rat))
  | [a, b] => do
      let n ← a.toInt?
      let d ← b.toNat?
      if d = 0 then none else some (mkRat n d)
  | _ => none

def parseRats? (l : List String) : Option (List Rat) := l.mapM parseRat?

def showRat (r : Rat) : String :=
  if r.den = 1 then toString r.num else toString r.num ++ "/" ++ toString r.den

def showRats (l : List Rat) : String := " ".intercalate (l.map showRat)
def showNats (l : List Nat) : String := " ".intercalate (l.map toString)

/-- split `n` items off the front of an argument list -/
def takeN {α} (n : Nat) (l : List α) : Option (List α × List α) :=
  if n ≤ l.length then some (l.take n, l.drop n) else none

/-- read a length-prefixed list of rationals: `k r1 … rk rest…` -/
def readRatList (l : List String) : Option (List Rat × List String) :=
  match l with
  | [] => none
  | k :: rest => do
      let n ← k.toNat?
      let (a, b) ← takeN n rest
      let rs ← parseRats? a
      some (rs, b)

def readNatList (l : List String) : Option (List Nat × List String) :=
  match l with
  | [] => none
  | k :: rest => do
      let n ← k.toNat?
      let (a, b) ← takeN n rest
      let rs ← a.mapM (·.toNat?)
      some (rs, b)

end Evo
