/-
C18 — config edits keep keys, types, user values; generated configs equal their args.
Executable model of evo/main_config.py (`is_number`, `finalize_values`, `set_config`, `generate`
with `is_option` / `to_number` as repaired by fix 70efe12, and the pinned `generate` before it),
evo/tools/settings.py (`merge_dicts`, `reset`, `update_if_outdated`'s merge, the SettingsContainer
lock, `update_existing_keys`), evo/entry_points.py (`merge_config`) and of argparse for long
options over typed option tables.  Mathlib-free.

Outside the model (named in the `_partial` theorems and in the manifest): the float()-only token
spellings `nan`, `inf`, `infinity`, digits with `_`, surrounding white space, non-ASCII digits;
tokens whose value overflows binary64; the key `plot_seaborn_palette` (its value is decided by
seaborn's palette registry); non-ASCII letters in `str.lower()`.
-/
import EvoModel.Model.JVal
import EvoModel.Model.F64
namespace Evo.Config

/-! ### dictionaries (insertion ordered, like Python's) -/

def lookup : Dict → String → Option JVal
  | [], _ => none
  | (k', v) :: r, k => if k' = k then some v else lookup r k

def hasKey (d : Dict) (k : String) : Bool := (lookup d k).isSome

def keys (d : Dict) : List String := d.map (·.1)

/-- `d[k] = v`: replace in place, or append -/
def setKey : Dict → String → JVal → Dict
  | [], k, v => [(k, v)]
  | (k', v') :: r, k, v => if k' = k then (k', v) :: r else (k', v') :: setKey r k v

/-! ### numbers: the decimal grammar of `float()` (without nan/inf/_/white space) -/

def digitVal (c : Char) : Option Nat :=
  if '0' ≤ c ∧ c ≤ '9' then some (c.toNat - '0'.toNat) else none

def digitsVal : List Char → Option Nat
  | [] => none
  | cs => cs.foldlM (fun acc c => (digitVal c).map (fun d => 10 * acc + d)) 0

/-- optional sign: (negative?, rest) -/
def splitSign : List Char → Bool × List Char
  | '-' :: r => (true, r)
  | '+' :: r => (false, r)
  | r => (false, r)

def pow10 (e : Int) : Rat := if e ≥ 0 then ((10 ^ e.toNat : Nat) : Rat) else 1 / ((10 ^ (-e).toNat : Nat) : Rat)

/-- mantissa `d+`, `d+.`, `d+.d+`, `.d+` → (value, number of fraction digits); -/
def parseMantissa (cs : List Char) : Option Rat :=
  let ip := cs.takeWhile (· ≠ '.')
  let rest := cs.dropWhile (· ≠ '.')
  match rest with
  | [] => (digitsVal ip).map (fun n => (n : Rat))
  | _ :: fp =>
    if ip = [] ∧ fp = [] then none else
    match (if ip = [] then some 0 else digitsVal ip), (if fp = [] then some 0 else digitsVal fp) with
    | some a, some b => some ((a : Rat) + (b : Rat) * pow10 (-(fp.length : Int)))
    | _, _ => none

def isExpChar (c : Char) : Bool := c = 'e' || c = 'E'

/-- exact value of a decimal token, `none` if `float(token)` raises ValueError (within the modelled alphabet) -/
def parseDec (s : String) : Option Rat :=
  let (neg, cs) := splitSign s.toList
  let m := cs.takeWhile (fun c => !isExpChar c)
  let rest := cs.dropWhile (fun c => !isExpChar c)
  let mant := parseMantissa m
  let val : Option Rat :=
    match rest with
    | [] => mant
    | _ :: ecs =>
      let (eneg, ds) := splitSign ecs
      match mant, digitsVal ds with
      | some a, some e => some (a * pow10 (if eneg then -(e : Int) else (e : Int)))
      | _, _ => none
  val.map (fun v => if neg then -v else v)

/-- `is_number(token)` -/
def isNumber (s : String) : Bool := (parseDec s).isSome

/-- `int(token)` succeeds: `[+-]?digits` -/
def parseInt (s : String) : Option Int :=
  let (neg, cs) := splitSign s.toList
  (digitsVal cs).map (fun n => if neg then -(n : Int) else (n : Int))

inductive Err | overflow | unsupported | locked
  deriving DecidableEq, Repr

/-- `float(token)` as an exact rational (binary64 rounding) -/
def toFloat (s : String) : Except Err Rat :=
  match parseDec s with
  | none => .error .unsupported
  | some v => match F64.rne v with
    | none => .error .overflow
    | some x => .ok x

/-- set_config's conversion: `int(float(v)) if int(float(v)) - float(v) == 0 else float(v)`, else the string -/
def convSet (tok : String) : Except Err Atom :=
  if isNumber tok then do
    let x ← toFloat tok
    pure (if x.den = 1 then .int x.num else .flt x)
  else pure (.str tok)

/-- generate's conversion `to_number(v) if is_number(v) else v`: `int(token)` if that parses, else `float(token)` -/
def convGen (tok : String) : Except Err Atom :=
  if isNumber tok then
    match parseInt tok with
    | some i => pure (.int i)
    | none => do let x ← toFloat tok; pure (.flt x)
  else pure (.str tok)

/-- generate before fix 70efe12: `float(v) if is_number(v) else v` -/
def convGenOld (tok : String) : Except Err Atom :=
  if isNumber tok then do let x ← toFloat tok; pure (.flt x) else pure (.str tok)

/-! ### set_config -/

def lowerAscii (s : String) : String := String.ofList (s.toList.map Char.toLower)

/-- `finalize_values(config, key, values)` for a non-empty value list -/
def finalizeValues (cfg : Dict) (key : String) (values : List Atom) : Except Err JVal :=
  if key = "plot_seaborn_palette" then .error .unsupported else
  match values with
  | [] => pure (.atom .null)
  | v0 :: _ =>
    match lookup cfg key with
    | some (.atom (.bool b)) =>
      match values.getLast? with
      | some (.str s) =>
        if lowerAscii s = "false" then pure (.atom (.bool false))
        else if lowerAscii s = "true" then pure (.atom (.bool true))
        else pure (.atom (.bool !b))
      | _ => pure (.atom (.bool !b))
    | some (.list _) =>
      match v0 with
      | .str s => if lowerAscii s = "[]" ∨ lowerAscii s = "none" then pure (.list []) else pure (.list values)
      | _ => pure (.list values)
    | _ => pure (.atom v0)

/-- no value follows: toggle a boolean parameter, leave others -/
def toggle (cfg : Dict) (key : String) : Dict :=
  match lookup cfg key with
  | some (.atom (.bool b)) => setKey cfg key (.atom (.bool !b))
  | _ => cfg

/-- `set_config(path, arg_list)` on the loaded dict -/
def setConfig (cfg : Dict) : List String → Except Err Dict
  | [] => pure cfg
  | arg :: rest =>
    if !hasKey cfg arg then setConfig cfg rest else
    let toks := rest.takeWhile (fun t => !hasKey cfg t)
    if toks.isEmpty then setConfig (toggle cfg arg) rest
    else do
      let vals ← toks.mapM convSet
      let v ← finalizeValues cfg arg vals
      setConfig (setKey cfg arg v) rest

/-! ### reset / merge / upgrade / lock -/

/-- `reset(dest, parameter_subset)` with a non-empty subset on an existing file -/
def resetSubset (defaults cfg : Dict) : List String → Dict
  | [] => cfg
  | p :: ps =>
    match lookup defaults p with
    | none => resetSubset defaults cfg ps
    | some v => resetSubset defaults (setKey cfg p v) ps

/-- `merge_dicts(first, second, soft)` -/
def mergeDicts (first : Dict) (second : Dict) (soft : Bool) : Dict :=
  second.foldl (fun acc kv => if soft && hasKey first kv.1 then acc else setKey acc kv.1 kv.2) first

/-- `update_if_outdated`: `merge_dicts(old, DEFAULT, soft=True)` -/
def upgrade (defaults old : Dict) : Dict := mergeDicts old defaults true

/-- `SettingsContainer.__setattr__` on a locked container -/
def lockedSet (settings : Dict) (k : String) (v : JVal) : Except Err Dict :=
  if hasKey settings k then pure (setKey settings k v) else .error .locked

/-- `update_existing_keys(other)` -/
def updateExisting (settings other : Dict) : Dict :=
  settings.map (fun kv => match lookup other kv.1 with | some v => (kv.1, v) | none => kv)

/-- `merge_config(args)` with `-c file`: (namespace afterwards, SETTINGS of this run); nothing is written -/
def mergeConfig (args config settings : Dict) : Dict × Dict :=
  (mergeDicts args config false, updateExisting settings config)

/-! ### when a setting is read (finding F16)

`save_df_as_table(df, path, format_str=SETTINGS.table_export_format, …)` bound the setting as a *default argument*,
i.e. at the import of `pandas_bridge`; `evo_res` imports it before `merge_config` applies the `-c` file.  The repaired
code reads the setting when the function is called. -/

/-- the value a call without an explicit argument uses: pre-fix, the settings as they were at import -/
def settingBoundAtImport (key : String) (atImport _atCall : Dict) : Option JVal := lookup atImport key
/-- repaired: the settings of the run at the time of the call -/
def settingReadAtCall (key : String) (_atImport atCall : Dict) : Option JVal := lookup atCall key

/-! ### generate -/

def isOptionTok (tok : String) : Bool := tok.startsWith "-" && !isNumber tok
def isOptionOld (tok : String) : Bool := tok.startsWith "-"

def stripDashes (tok : String) : String :=
  if tok.startsWith "--" then (tok.drop 2).toString else (tok.drop 1).toString

def scalarOrList (vals : List Atom) : JVal :=
  match vals with
  | [v] => .atom v
  | vs => .list vs

def generateWith (isOpt : String → Bool) (conv : String → Except Err Atom) : List String → Dict → Except Err Dict
  | [], d => pure d
  | arg :: rest, d =>
    if isOpt arg then
      let toks := rest.takeWhile (fun t => !isOpt t)
      if toks.isEmpty then generateWith isOpt conv rest (setKey d (stripDashes arg) (.atom (.bool true)))
      else do
        let vals ← toks.mapM conv
        generateWith isOpt conv rest (setKey d (stripDashes arg) (scalarOrList vals))
    else generateWith isOpt conv rest d

/-- `generate(arg_list)` as it is now -/
def generate (toks : List String) : Except Err Dict := generateWith isOptionTok convGen toks []
/-- `generate(arg_list)` of the pinned code (finding F3) -/
def generateOld (toks : List String) : Except Err Dict := generateWith isOptionOld convGenOld toks []

/-! ### argparse, long options over a typed table -/

inductive OptKind | flag | int | float | str
  deriving DecidableEq, Repr

structure Opt where
  name : String              -- long option without the dashes (= dest)
  kind : OptKind
  nargs : Option Nat         -- none: one value (or none for flags)
  choices : List String
  dflt : JVal
  deriving DecidableEq, Repr

/-- argparse's `_negative_number_matcher`: `^-\d+$|^-\d*\.\d+$` -/
def negNumberLike (tok : String) : Bool :=
  match tok.toList with
  | '-' :: r =>
    let ip := r.takeWhile (· ≠ '.')
    let rest := r.dropWhile (· ≠ '.')
    match rest with
    | [] => !ip.isEmpty && ip.all Char.isDigit
    | _ :: fp => ip.all Char.isDigit && !fp.isEmpty && fp.all Char.isDigit
  | _ => false

/-- a token argparse treats as an option (pattern 'O') when no option looks like a negative number -/
def optionLike (tok : String) : Bool := tok.startsWith "-" && !negNumberLike tok && tok ≠ "-"

def convArg (k : OptKind) (tok : String) : Option Atom :=
  match k with
  | .flag => none
  | .int => (parseInt tok).map .int
  | .float => match toFloat tok with | .ok x => some (.flt x) | .error _ => none
  | .str => some (.str tok)

/-- parse a list of long options (fuel = number of tokens); `none` = argparse would exit with an error -/
def argparseGo (table : List Opt) : Nat → List String → Dict → Option Dict
  | _, [], d => some d
  | 0, _ :: _, _ => none
  | fuel + 1, arg :: rest, d =>
    if !arg.startsWith "--" then none else
    match table.find? (fun o => o.name = (arg.drop 2).toString) with
    | none => none
    | some o =>
      let vals := rest.takeWhile (fun t => !optionLike t)
      let after := rest.dropWhile (fun t => !optionLike t)
      match o.kind, o.nargs with
      | .flag, _ => if vals.isEmpty then argparseGo table fuel after (setKey d o.name (.atom (.bool true))) else none
      | k, none =>
        match vals with
        | [v] =>
          if o.choices.isEmpty || o.choices.contains v then
            (convArg k v).bind (fun a => argparseGo table fuel after (setKey d o.name (.atom a)))
          else none
        | _ => none
      | k, some n =>
        if vals.length = n then
          (vals.mapM (convArg k)).bind (fun as => argparseGo table fuel after (setKey d o.name (.list as)))
        else none

/-- `excl`: mutually exclusive groups (argparse exits if two members of a group are given) -/
def argparseLong (table : List Opt) (toks : List String) (d : Dict) (excl : List (List String) := []) : Option Dict :=
  let seen := (toks.filter (fun t => t.startsWith "--")).map (fun t => (t.drop 2).toString)
  if excl.any (fun g => decide ((g.filter (fun n => seen.contains n)).length ≥ 2)) then none
  else argparseGo table toks.length toks d

def defaultsOf (table : List Opt) : Dict := table.map (fun o => (o.name, o.dflt))

/-- numeric agreement used by `generate ≡ args`: equal, or an integer next to the same value as a float -/
def atomApprox : Atom → Atom → Bool
  | .int i, .flt r => r = (i : Rat)
  | .flt r, .int i => r = (i : Rat)
  | a, b => a = b

def valApprox : JVal → JVal → Bool
  | .atom a, .atom b => atomApprox a b
  | .list as, .list bs => as.length = bs.length && (as.zip bs).all (fun p => atomApprox p.1 p.2)
  | _, _ => false

end Evo.Config
