/-
Container layers of C06 that sit around the number ↔ text core:
* `pandas_bridge.trajectory_to_df` / `df_to_trajectory`: a DataFrame as named columns + index,
  written from a slot table and read back by column *name*;
* `file_interface.save_res_file` / `load_res_file`: the member layout of a result archive
  (names, order, which content comes back under which name), with `str.endswith`,
  `pathlib.Path(...).stem`, `ZipFile.read(name)` (last member of that name wins) and Python
  `dict` assignment modelled on character lists.
The serialisation of the members themselves (JSON, npy, TUM/KITTI text) is not part of this
layer: it is a parameter (`ser`/`de`), see Model/TextFormats.lean and Model/Json.lean.
-/
import EvoModel.Model.TextFormats
namespace Evo.Cont
open Evo.Text

/-! ### DataFrame conversion -/

structure Pose7 where
  x : Rat
  y : Rat
  z : Rat
  qw : Rat
  qx : Rat
  qy : Rat
  qz : Rat
deriving DecidableEq, Repr

/-- `PoseTrajectory3D` (with timestamps) or `PosePath3D` -/
inductive Traj where
  | timed (stamps : List Rat) (ps : List Pose7)
  | path (ps : List Pose7)
deriving DecidableEq, Repr

/-- index `some stamps` (float index) or `none` (the integer `arange` index of a path) -/
structure DF where
  index : Option (List Rat)
  cols : List (String × List Rat)
deriving DecidableEq, Repr

/-- `traj.<attr>[:, i]` for one pose -/
def slot (attr : String) (i : Nat) (p : Pose7) : Rat :=
  if attr = "positions_xyz" then (if i = 0 then p.x else if i = 1 then p.y else p.z)
  else (if i = 0 then p.qw else if i = 1 then p.qx else if i = 2 then p.qy else p.qz)

/-- `trajectory_to_df` for a table `column name ↦ (attribute, column index)` -/
def trajToDfWith (tbl : List (String × String × Nat)) (t : Traj) : DF :=
  match t with
  | .timed st ps => ⟨some st, tbl.map fun e => (e.1, ps.map (slot e.2.1 e.2.2))⟩
  | .path ps => ⟨none, tbl.map fun e => (e.1, ps.map (slot e.2.1 e.2.2))⟩

/-- `df[name]`: first column of that name -/
def col (df : DF) (name : String) : Option (List Rat) :=
  match df.cols.find? (fun c => c.1 == name) with
  | some c => some c.2
  | none => none

def zip7 : List Rat → List Rat → List Rat → List Rat → List Rat → List Rat → List Rat → List Pose7
  | x :: xs, y :: ys, z :: zs, qw :: qws, qx :: qxs, qy :: qys, qz :: qzs =>
    ⟨x, y, z, qw, qx, qy, qz⟩ :: zip7 xs ys zs qws qxs qys qzs
  | _, _, _, _, _, _, _ => []

/-- `df_to_trajectory`: `df[[quat names]]`, `df[[position names]]` by name, index → timestamps
unless it is the integer index -/
def dfToTrajWith (qcols pcols : List String) (df : DF) : Option Traj :=
  match mapOpt (col df) qcols, mapOpt (col df) pcols with
  | some [qw, qx, qy, qz], some [x, y, z] =>
    let ps := zip7 x y z qw qx qy qz
    some (match df.index with | some st => .timed st ps | none => .path ps)
  | _, _ => none

/-! ### result archive -/

inductive Kind where
  | tum
  | kitti
deriving DecidableEq, Repr

def suffNpy : Str := ['.', 'n', 'p', 'y']
def suffNpz : Str := ['.', 'n', 'p', 'z']
def suffTum : Str := ['.', 't', 'u', 'm']
def suffKitti : Str := ['.', 'k', 'i', 't', 't', 'i']
def nameInfo : Str := "info.json".toList
def nameStats : Str := "stats.json".toList

def suffixOf : Kind → Str
  | .tum => suffTum
  | .kitti => suffKitti

/-- `str.endswith` -/
def endsWith (s suf : Str) : Bool := suf.reverse.isPrefixOf s.reverse

/-- `pathlib.Path(fn).stem`: final path component without its last suffix (a leading dot or a
trailing dot is not a suffix separator) -/
def stem (fn : Str) : Str :=
  let rb := fn.reverse.takeWhile (fun c => c != '/')
  let ext := rb.takeWhile (fun c => c != '.')
  match rb.dropWhile (fun c => c != '.') with
  | _ :: pre => if !pre.isEmpty && !ext.isEmpty then pre.reverse else rb.reverse
  | [] => rb.reverse

/-- a `Result` as far as the archive layout is concerned: opaque info / stats / array / trajectory
payloads under their names (Python dicts: insertion-ordered, keys unique) -/
structure Res (I S A T : Type) where
  info : I
  stats : S
  arrays : List (Str × A)
  trajs : List (Str × Kind × T)

inductive Content (I S A : Type) where
  | info (i : I)
  | stats (s : S)
  | npy (a : A)
  | text (t : Str)

/-- `save_res_file`: member list in the order written -/
def saveRes {I S A T : Type} (ser : Kind → T → Str) (r : Res I S A T) : List (Str × Content I S A) :=
  (nameInfo, .info r.info) :: (nameStats, .stats r.stats) ::
    (r.arrays.map fun e => (e.1 ++ suffNpy, Content.npy e.2)) ++
    (r.trajs.map fun e => (e.1 ++ suffixOf e.2.1, Content.text (ser e.2.1 e.2.2)))

/-- `ZipFile.read(name)`: the last member of that name -/
def readMember {C : Type} : List (Str × C) → Str → Option C
  | [], _ => none
  | (k, v) :: r, n =>
    match readMember r n with
    | some c => some c
    | none => if k = n then some v else none

/-- Python `d[k] = v` on an insertion-ordered dict -/
def dictSet {V : Type} (d : List (Str × V)) (k : Str) (v : V) : List (Str × V) :=
  if d.any (fun e => e.1 == k) then d.map (fun e => if e.1 == k then (k, v) else e) else d ++ [(k, v)]

/-- members with one of the given suffixes, each read back by name and stored under its stem -/
def loadGroup {C V : Type} (z : List (Str × C)) (isMine : Str → Bool) (dec : Str → C → Option V) :
    List Str → List (Str × V) → Option (List (Str × V))
  | [], acc => some acc
  | fn :: rest, acc =>
    if isMine fn then
      match readMember z fn with
      | none => none
      | some c => match dec fn c with
        | none => none
        | some v => loadGroup z isMine dec rest (dictSet acc (stem fn) v)
    else loadGroup z isMine dec rest acc

/-- `np.load` of an array member -/
def decNpy {I S A : Type} (_fn : Str) (c : Content I S A) : Option A :=
  match c with
  | .npy a => some a
  | _ => none

/-- `read_tum_trajectory_file` / `read_kitti_poses_file` on a text member -/
def decText {I S A T : Type} (de : Kind → Str → Option T) (k : Kind) (_fn : Str) (c : Content I S A) :
    Option (Kind × T) :=
  match c with
  | .text t => (de k t).map fun v => (k, v)
  | _ => none

def isNpyName (fn : Str) : Bool := endsWith fn suffNpy || endsWith fn suffNpz
def isKindName (k : Kind) (fn : Str) : Bool := endsWith fn (suffixOf k)

/-- `load_res_file(zip, load_trajectories)` -/
def loadRes {I S A T : Type} (de : Kind → Str → Option T) (loadTraj : Bool)
    (z : List (Str × Content I S A)) : Option (Res I S A T) :=
  let names := z.map (·.1)
  if !(names.contains nameInfo && names.contains nameStats) then none else
  match readMember z nameInfo, readMember z nameStats with
  | some (.info i), some (.stats s) =>
    match loadGroup z isNpyName decNpy names [] with
    | none => none
    | some arrays =>
      if !loadTraj then some ⟨i, s, arrays, []⟩ else
      match loadGroup z (isKindName .tum) (decText de .tum) names [] with
      | none => none
      | some tums =>
        match loadGroup z (isKindName .kitti) (decText de .kitti) names tums with
        | none => none
        | some all => some ⟨i, s, arrays, all⟩
  | _, _ => none

end Evo.Cont
