/-
Executable binary64 rounding on exact rationals (round to nearest, ties to even), used where
evo's discrete behaviour depends on float rounding (numpy.linspace ids, decimal text -> double,
EuRoC ns -> s). Validated against CPython's correctly rounded float(Fraction) by the harness;
properties proved in Lemmas/F64.lean.
-/
namespace Evo.F64

def pow2 (k : Nat) : Nat := 1 <<< k

/-- floor(log2 (p/q)) for p,q > 0 -/
def ilog2 (p q : Nat) : Int :=
  let a : Int := (Nat.log2 p : Int) - (Nat.log2 q : Int)
  -- candidate a or a-1: check 2^a ≤ p/q
  let ok : Bool := if a ≥ 0 then decide (q * pow2 a.toNat ≤ p) else decide (q ≤ p * pow2 (-a).toNat)
  if ok then a else a - 1

/-- round-half-even of n/d (n ≥ 0, d > 0) to Nat -/
def rhe (n d : Nat) : Nat :=
  let fl := n / d
  let r := n % d
  if 2 * r < d then fl else if 2 * r > d then fl + 1 else if fl % 2 = 0 then fl else fl + 1

/-- binary64 round-to-nearest-even on nonneg rationals; `none` = overflow -/
def rnePos (p q : Nat) : Option Rat :=
  if p = 0 then some 0 else
  let lg := ilog2 p q
  let e : Int := max (lg - 52) (-1074)
  -- m = rhe (x / 2^e)
  let m : Nat := if e ≥ 0 then rhe p (q * pow2 e.toNat) else rhe (p * pow2 (-e).toNat) q
  let v : Rat := if e ≥ 0 then ((m * pow2 e.toNat : Nat) : Rat) else (m : Rat) / (pow2 (-e).toNat : Rat)
  if e + 53 > 1024 ∨ (e + 53 = 1024 ∧ m ≥ pow2 53) then none else some v

def rne (x : Rat) : Option Rat :=
  if x < 0 then (rnePos x.num.natAbs x.den).map (fun r => -r) else rnePos x.num.natAbs x.den

def rne! (x : Rat) : Rat := (rne x).getD 0

end Evo.F64

