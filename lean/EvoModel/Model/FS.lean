/-
C19 (also used by C17's description of "file = absent | bytes"): a small file-system state for
`~/.evo/`.  Mathlib-free, executable.

Files are `absent | empty | torn | full text | garbage`:
* `empty`   — created/truncated, nothing written yet (not a JSON document);
* `torn`    — a non-empty proper prefix of the text being written (a torn `write`; never a JSON
              document: checked on the real texts by the harness, every proper prefix of the
              settings text is rejected by `json.loads`);
* `full t`  — the complete text `t`;
* `garbage` — bytes of two writers mixed (only reachable by in-place writes to a shared file).
The texts are abstract: the version string (`ver v`) or the JSON dump of a settings dict, of which
only the key set matters here (`doc keys`; values are C18's subject).
-/
import EvoModel.Gen.Settings
namespace Evo.FS

/-- the two persistent files: `settings.json` (S) and `assets_version` (V) -/
inductive Tgt | S | V
  deriving DecidableEq, Repr

/-- paths below `~/.evo/`: the two targets and `<target>.<pid>.tmp` -/
inductive Path
  | file (t : Tgt)
  | tmp (t : Tgt) (pid : Nat)
  deriving DecidableEq, Repr

/-- a settings document, abstracted to its key set -/
abbrev Doc := List String

inductive Text
  | ver (v : String)
  | doc (d : Doc)
  deriving DecidableEq, Repr

inductive File
  | absent | empty | torn
  | full (t : Text)
  | garbage
  deriving DecidableEq, Repr

structure FS where
  dir : Bool
  file : Path → File

def FS.set (fs : FS) (p : Path) (f : File) : FS :=
  { fs with file := fun q => if q = p then f else fs.file q }

/-- an empty home directory: no `~/.evo` -/
def FS.fresh : FS := ⟨false, fun _ => .absent⟩

/-- `__version__` of the running evo (regenerated from evo/__init__.py).  `update_if_outdated` compares the
*string* stored in assets_version with it for equality: every other string — older, newer, lexicographically
larger ("v1.9.0"), with trailing white space, empty — counts as outdated. -/
def current : String := Evo.Gen.evoVersion

def hasDefaults (d : Doc) : Bool := Evo.Gen.defaultKeys.all (fun k => d.contains k)

/-- a complete JSON document (`json.load` succeeds) -/
def File.isDoc : File → Bool
  | .full (.doc _) => true
  | _ => false

/-- a complete JSON document in which every default key is present -/
def File.wf : File → Bool
  | .full (.doc d) => hasDefaults d
  | _ => false

/-- **Safe** (the property's state predicate): the settings file is absent or a complete JSON document -/
def Safe (fs : FS) : Prop := fs.file (.file .S) = .absent ∨ (fs.file (.file .S)).isDoc = true

/-- the settings file is absent or complete *with every default key* -/
def Good (fs : FS) : Prop := fs.file (.file .S) = .absent ∨ (fs.file (.file .S)).wf = true

/-- a home directory as evo leaves it (fresh, initialised, or outdated = older version file next to an
older complete settings file): `Safe`, and the settings may lack default keys only next to a version
file that does not name the current version. -/
def Consistent (fs : FS) : Prop :=
  Safe fs ∧ ((fs.file (.file .V) = .absent ∨ fs.file (.file .V) = .full (.ver current)) → Good fs)

instance (fs : FS) : Decidable (Safe fs) := by unfold Safe; infer_instance
instance (fs : FS) : Decidable (Good fs) := by unfold Good; infer_instance
instance (fs : FS) : Decidable (Consistent fs) := by unfold Consistent; infer_instance

end Evo.FS
