/-
C16 — ownership / aliasing model of trajectory objects.

A heap of *cells* (numpy arrays: the positions array, the quaternion array, the stamps array and
every single 4×4 pose matrix).  A trajectory object is a record of cell addresses (Python list
objects are not cells: no code path of `trajectory.py` mutates a pose list in place, new lists are
always built, so only the arrays in them can be shared).  Every method is written with the
allocation behaviour of the code as it is now:

* `transform`, `scale`, `reduce_to_ids`, the lazy properties: *rebind* — new arrays are allocated,
  old ones are left alone (`reduce_to_ids` builds a new list of the *same* matrix arrays;
  SE(3) propagation keeps the first matrix array);
* `project`: *writes in place* into the matrix arrays the object holds;
* derivations: `copy.deepcopy`, `sync.associate_trajectories` (deep copy, then reduce),
  `trajectory.merge` (concatenation = fresh arrays), the splitters after fix fa25a82 (deep-copied
  matrices, copied stamps; the whole object deep-copied when nothing is cut) — and the pre-fix
  splitters (`splitOld`: slices of the parent's matrix list, the parent itself when nothing is cut).
Mathlib-free, executable.
-/
import EvoModel.Model.Traj
namespace Evo.Heap
open Evo Evo.Traj

inductive Val
  | vecs (l : List (V3 Rat))
  | rots (l : List (M3 Rat))
  | mat (p : P)
  | rats (l : List Rat)
  | nil
deriving DecidableEq, Repr

structure Heap where
  next : Nat
  get : Nat → Val

def Heap.empty : Heap := ⟨0, fun _ => .nil⟩

/-- a new array: fresh address `h.next` -/
def Heap.alloc (h : Heap) (v : Val) : Heap × Nat :=
  (⟨h.next + 1, fun a => if a = h.next then v else h.get a⟩, h.next)

/-- in-place write into an existing array -/
def Heap.write (h : Heap) (a : Nat) (v : Val) : Heap :=
  ⟨h.next, fun x => if x = a then v else h.get x⟩

def Heap.allocList (h : Heap) : List Val → Heap × List Nat
  | [] => (h, [])
  | v :: r =>
      let (h1, a) := h.alloc v
      let (h2, as) := h1.allocList r
      (h2, a :: as)

def Heap.mat (h : Heap) (a : Nat) : P := match h.get a with | .mat p => p | _ => Pose.one
def Heap.vecs (h : Heap) (a : Nat) : List (V3 Rat) := match h.get a with | .vecs l => l | _ => []
def Heap.rots (h : Heap) (a : Nat) : List (M3 Rat) := match h.get a with | .rots l => l | _ => []
def Heap.rats (h : Heap) (a : Nat) : List Rat := match h.get a with | .rats l => l | _ => []

/-- a `PosePath3D` / `PoseTrajectory3D` object: which arrays it holds -/
structure Obj where
  pos? : Option Nat
  quat? : Option Nat
  se3? : Option (List Nat)
  stamps? : Option Nat
  projected : Bool
deriving DecidableEq, Repr

/-- every array reachable from the object -/
def Obj.reach (o : Obj) : List Nat :=
  o.pos?.toList ++ o.quat?.toList ++ o.stamps?.toList ++ o.se3?.getD []

/-- what the object shows: the contents of every array it reaches (and its flag) -/
def view (h : Heap) (o : Obj) : List Val × Bool := (o.reach.map h.get, o.projected)

/-- two objects reach disjoint sets of arrays -/
def Sep (a b : Obj) : Prop := ∀ x ∈ a.reach, x ∉ b.reach

def sharesB (a b : Obj) : Bool := a.reach.any (fun x => b.reach.contains x)

/-! ### values seen through the object (the lazy properties, without caching) -/

def se3Vals (h : Heap) (o : Obj) : List P :=
  match o.se3? with
  | some as => as.map h.mat
  | none => List.zipWith se3Of ((o.quat?.map h.rots).getD []) ((o.pos?.map h.vecs).getD [])

def posVals (h : Heap) (o : Obj) : List (V3 Rat) :=
  match o.pos? with
  | some a => h.vecs a
  | none => (se3Vals h o).map (·.t)

def quatVals (h : Heap) (o : Obj) : List (M3 Rat) :=
  match o.quat? with
  | some a => h.rots a
  | none => (se3Vals h o).map (·.rot)

/-! ### methods of one object -/

/-- the `poses_se3` property: builds and caches new matrices when the cache is empty -/
def forceSe3 (h : Heap) (o : Obj) : Heap × Obj :=
  match o.se3? with
  | some _ => (h, o)
  | none =>
      let (h', as) := h.allocList ((se3Vals h o).map Val.mat)
      (h', { o with se3? := some as })

def forcePos (h : Heap) (o : Obj) : Heap × Obj :=
  match o.pos? with
  | some _ => (h, o)
  | none =>
      let (h', a) := h.alloc (.vecs (posVals h o))
      (h', { o with pos? := some a })

def forceQuat (h : Heap) (o : Obj) : Heap × Obj :=
  match o.quat? with
  | some _ => (h, o)
  | none =>
      let (h', a) := h.alloc (.rots (quatVals h o))
      (h', { o with quat? := some a })

/-- `transform()`: every matrix is a new array (`np.dot`, `lie.se3`), except that the SE(3)
propagation starts its new list with the old first matrix; positions and quaternions are new arrays -/
def transform (h : Heap) (o : Obj) (m : Mode) (T : P) (norm : Option Rat) : Heap × Obj :=
  let (h1, o1) := forceSe3 h o
  let old := o1.se3?.getD []
  let ps := transformFull m T norm (se3Vals h1 o1)
  let keepFirst := (m == Mode.prop) && norm.isNone
  let (h2, as) :=
    if keepFirst then
      let (h2, as) := h1.allocList ((ps.drop 1).map Val.mat)
      (h2, old.take 1 ++ as)
    else h1.allocList (ps.map Val.mat)
  let (h3, ap) := h2.alloc (.vecs (ps.map (·.t)))
  let (h4, aq) := h3.alloc (.rots (ps.map (·.rot)))
  (h4, { o1 with se3? := some as, pos? := some ap, quat? := some aq })

/-- `scale()`: new matrices (`lie.se3`) and a new positions array (`s * array`), each if cached -/
def scale (h : Heap) (o : Obj) (c : Rat) : Heap × Obj :=
  let (h1, se3') :=
    match o.se3? with
    | some as =>
        let (h1, bs) := h.allocList (as.map (fun a => Val.mat (scalePose c (h.mat a))))
        (h1, some bs)
    | none => (h, none)
  let (h2, pos') :=
    match o.pos? with
    | some a =>
        let (h2, b) := h1.alloc (.vecs ((h.vecs a).map (V3.smul c)))
        (h2, some b)
    | none => (h1, none)
  (h2, { o with se3? := se3', pos? := pos' })

/-- an in-place variant of the matrix half of `scale()` — `for p in self._poses_se3: p[:3, 3] *= s` — which is *not* what the
code does; kept as a counterexample: it writes once per list slot, so an array that occurs in several slots is scaled
several times -/
def scaleWrite (c : Rat) : Heap → List Nat → Heap
  | h, [] => h
  | h, a :: as => scaleWrite c (h.write a (.mat (scalePose c (h.mat a)))) as

def scaleInplace (h : Heap) (o : Obj) (c : Rat) : Heap × Obj :=
  let h1 := scaleWrite c h (o.se3?.getD [])
  let r := optAllocPos h1 o c
  (r.1, { o with pos? := r.2 })
where
  optAllocPos (h1 : Heap) (o : Obj) (c : Rat) : Heap × Option Nat :=
    match o.pos? with
    | some a => ((h1.alloc (.vecs ((h1.vecs a).map (V3.smul c)))).1, some (h1.alloc (.vecs ((h1.vecs a).map (V3.smul c)))).2)
    | none => (h1, none)

/-- a new array derived from an optional existing one -/
def optAlloc (h : Heap) (x : Option Nat) (f : Nat → Val) : Heap × Option Nat :=
  match x with
  | some a => ((h.alloc (f a)).1, some (h.alloc (f a)).2)
  | none => (h, none)

/-- `reduce_to_ids()`: fancy indexing copies the arrays; the matrix list is rebuilt from the
*same* matrix arrays -/
def reduce (h : Heap) (o : Obj) (ids : List Nat) : Heap × Obj :=
  let r1 := optAlloc h o.pos? (fun a => .vecs (reduceIds (h.vecs a) ids))
  let r2 := optAlloc r1.1 o.quat? (fun a => .rots (reduceIds (h.rots a) ids))
  let r3 := optAlloc r2.1 o.stamps? (fun a => .rats (reduceIds (h.rats a) ids))
  (r3.1, { o with pos? := r1.2, quat? := r2.2, stamps? := r3.2, se3? := o.se3?.map (reduceIds · ids) })

/-- the in-place loop of `project()`: `pose[nd, 3] = 0; pose[:3, :3] = …` on each array in turn -/
def projWrite (nd : Nat) : Heap → List Nat → List (M3 Rat) → Heap
  | h, [], _ => h
  | h, a :: as, [] => projWrite nd (h.write a (.mat ⟨(h.mat a).rot, zeroDim nd (h.mat a).t⟩)) as []
  | h, a :: as, q :: qs => projWrite nd (h.write a (.mat ⟨q, zeroDim nd (h.mat a).t⟩)) as qs

/-- `project()`: writes into the matrix arrays the object holds; drops the two other caches -/
def project (h : Heap) (o : Obj) (nd : Nat) (rots : List (M3 Rat)) : Heap × Obj :=
  if o.projected then (h, o)
  else
    let (h1, o1) := forceSe3 h o
    (projWrite nd h1 (o1.se3?.getD []) rots, { o1 with pos? := none, quat? := none, projected := true })

inductive HOp
  | transform (m : Mode) (T : P) (norm : Option Rat)
  | scale (c : Rat)
  | reduce (ids : List Nat)
  | project (nd : Nat) (rots : List (M3 Rat))
  | readPos | readQuat | readSe3
deriving Repr

def hstep (h : Heap) (o : Obj) : HOp → Heap × Obj
  | .transform m T norm => transform h o m T norm
  | .scale c => scale h o c
  | .reduce ids => reduce h o ids
  | .project nd rots => project h o nd rots
  | .readPos => forcePos h o
  | .readQuat => forceQuat h o
  | .readSe3 => forceSe3 h o

def hrun (h : Heap) (o : Obj) : List HOp → Heap × Obj
  | [] => (h, o)
  | op :: r => let (h1, o1) := hstep h o op; hrun h1 o1 r

/-! ### constructors and derivations -/

/-- `PoseTrajectory3D(poses_se3=list of new matrices, timestamps=…)`; the stamps are copied (`np.array`) -/
def newSe3 (h : Heap) (ps : List P) (stamps : Option (List Rat)) : Heap × Obj :=
  let (h1, as) := h.allocList (ps.map Val.mat)
  match stamps with
  | none => (h1, ⟨none, none, some as, none, false⟩)
  | some l => let (h2, a) := h1.alloc (.rats l); (h2, ⟨none, none, some as, some a, false⟩)

/-- `PoseTrajectory3D(positions_xyz, orientations_quat_wxyz, timestamps)`: `np.array` copies each -/
def newPosQuat (h : Heap) (xyz : List (V3 Rat)) (rots : List (M3 Rat)) (stamps : Option (List Rat)) : Heap × Obj :=
  let (h1, ap) := h.alloc (.vecs xyz)
  let (h2, aq) := h1.alloc (.rots rots)
  match stamps with
  | none => (h2, ⟨some ap, some aq, none, none, false⟩)
  | some l => let (h3, a) := h2.alloc (.rats l); (h3, ⟨some ap, some aq, none, some a, false⟩)

def copyCell (h : Heap) : Option Nat → Heap × Option Nat
  | none => (h, none)
  | some a => let (h1, b) := h.alloc (h.get a); (h1, some b)

/-- `copy.deepcopy(obj)`: every array is duplicated -/
def deepcopy (h : Heap) (o : Obj) : Heap × Obj :=
  let r1 := copyCell h o.pos?
  let r2 := copyCell r1.1 o.quat?
  let r3 := copyCell r2.1 o.stamps?
  let r4 : Heap × Option (List Nat) :=
    match o.se3? with
    | none => (r3.1, none)
    | some as => ((r3.1.allocList (as.map h.get)).1, some (r3.1.allocList (as.map h.get)).2)
  (r4.1, ⟨r1.2, r2.2, r4.2, r3.2, o.projected⟩)

/-- `est.align_origin(ref)` / `est.align(ref)`: the reference is only read through its lazy properties (its matrix resp.
position cache may get filled), the aligned object then runs its own methods (`transform`, `scale`) -/
def alignWith (h : Heap) (est ref : Obj) (readsRef opsEst : List HOp) : Heap × Obj × Obj :=
  let r1 := hrun h ref readsRef
  let r2 := hrun r1.1 est opsEst
  (r2.1, r2.2, r1.2)

/-- `merge_results`: `copy.deepcopy(results[0])` duplicates every trajectory (and array) the first result carries -/
def deepcopyList (h : Heap) : List Obj → Heap × List Obj
  | [] => (h, [])
  | o :: r => ((deepcopyList (deepcopy h o).1 r).1, (deepcopy h o).2 :: (deepcopyList (deepcopy h o).1 r).2)

/-- one output of `associate_trajectories`: deep copy, then `reduce_to_ids(matching ids)` -/
def associateOne (h : Heap) (o : Obj) (ids : List Nat) : Heap × Obj :=
  let (h1, c) := deepcopy h o
  reduce h1 c ids

/-- `trajectory.merge`: reads (and caches) positions and quaternions of every input, concatenates
into new arrays.  Returns the inputs as they are afterwards and the merged object. -/
def forceAll (h : Heap) : List Obj → Heap × List Obj
  | [] => (h, [])
  | o :: r =>
      let (h1, o1) := forcePos h o
      let (h2, o2) := forceQuat h1 o1
      let (h3, r') := forceAll h2 r
      (h3, o2 :: r')

def merge (h : Heap) (os : List Obj) : Heap × List Obj × Obj :=
  let (h1, os') := forceAll h os
  let (h2, ap) := h1.alloc (.vecs (os'.flatMap (posVals h1)))
  let (h3, aq) := h2.alloc (.rots (os'.flatMap (quatVals h1)))
  let (h4, at') := h3.alloc (.rats (os'.flatMap (fun o => (o.stamps?.map h1.rats).getD [])))
  (h4, os', ⟨some ap, some aq, none, some at', false⟩)

/-- segments `[b₀,b₁), [b₁,b₂), …` of a list -/
def segments {α} (l : List α) : List Nat → List (List α)
  | a :: b :: r => ((l.drop a).take (b - a)) :: segments l (b :: r)
  | _ => []

/-- parts of the repaired splitters for cut points `bounds = [0, …, n]`:
`PoseTrajectory3D(timestamps=self.timestamps[a:b], poses_se3=copy.deepcopy(self.poses_se3[a:b]))`, resp.
`PosePath3D(poses_se3=copy.deepcopy(…))` for a path without stamps (`timed = false`) -/
def partsNew (h : Heap) (timed : Bool) (mats : List (List Nat)) (stamps : List (List Rat)) : Heap × List Obj :=
  match mats, stamps with
  | m :: ms, s :: ss =>
      let r1 := h.allocList (m.map h.get)
      let r2 := optAlloc r1.1 (if timed then some 0 else none) (fun _ => .rats s)
      let r3 := partsNew r2.1 timed ms ss
      (r3.1, ⟨none, none, some r1.2, r2.2, false⟩ :: r3.2)
  | _, _ => (h, [])

/-- the splitters after fix fa25a82.  `cut = false`: the early-outs — fewer than two poses (every splitter, both classes)
or nothing to cut (time gaps, speed outliers) — return `[copy.deepcopy(self)]`.  Otherwise the parent's matrix cache is
filled (`self.poses_se3`) and the parts are built from deep-copied slices. -/
def splitNew (h : Heap) (o : Obj) (cut : Bool) (bounds : List Nat) : Heap × Obj × List Obj :=
  if cut then
    let (h1, o1) := forceSe3 h o
    let (h2, parts) := partsNew h1 o1.stamps?.isSome (segments (o1.se3?.getD []) bounds)
      (segments ((o1.stamps?.map h1.rats).getD []) bounds)
    (h2, o1, parts)
  else
    let (h1, c) := deepcopy h o
    (h1, o, [c])

def partsOld (h : Heap) (mats : List (List Nat)) (stamps : List (List Rat)) : Heap × List Obj :=
  match mats, stamps with
  | m :: ms, s :: ss =>
      let (h1, a) := h.alloc (.rats s)
      let (h2, r) := partsOld h1 ms ss
      (h2, ⟨none, none, some m, some a, false⟩ :: r)
  | _, _ => (h, [])

/-- the splitters before the fix: parts hold slices of the parent's matrix list (the same arrays);
with nothing to cut the parent itself is returned -/
def splitOld (h : Heap) (o : Obj) (cut : Bool) (bounds : List Nat) : Heap × Obj × List Obj :=
  if cut then
    let (h1, o1) := forceSe3 h o
    let (h2, parts) := partsOld h1 (segments (o1.se3?.getD []) bounds)
      (segments ((o1.stamps?.map h1.rats).getD []) bounds)
    (h2, o1, parts)
  else (h, o, [o])

end Evo.Heap
