/-
Hex transport of strings in the driver protocol (`core.hexs`: UTF-8 bytes in hex, "-" = empty).
Own helper of C17/C18 (Mathlib-free).
-/
namespace Evo.Hex

def hexVal (c : Char) : Option Nat :=
  if '0' ≤ c ∧ c ≤ '9' then some (c.toNat - '0'.toNat)
  else if 'a' ≤ c ∧ c ≤ 'f' then some (c.toNat - 'a'.toNat + 10)
  else if 'A' ≤ c ∧ c ≤ 'F' then some (c.toNat - 'A'.toNat + 10)
  else none

def bytesOf : List Char → Option (List UInt8)
  | [] => some []
  | [_] => none
  | a :: b :: r => do
      let x ← hexVal a
      let y ← hexVal b
      let t ← bytesOf r
      some (UInt8.ofNat (16 * x + y) :: t)

/-- decode a hex token to a string (`none` if not hex / not UTF-8) -/
def unhex (s : String) : Option String :=
  if s = "-" then some "" else do
    let bs ← bytesOf s.toList
    String.fromUTF8? ⟨bs.toArray⟩

def hexDigit (k : Nat) : Char :=
  if k < 10 then Char.ofNat ('0'.toNat + k) else Char.ofNat ('a'.toNat + (k - 10))

def hex (s : String) : String :=
  if s.isEmpty then "-" else
  String.ofList (s.toUTF8.toList.flatMap fun b => [hexDigit (b.toNat / 16), hexDigit (b.toNat % 16)])

end Evo.Hex
