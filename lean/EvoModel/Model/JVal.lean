/-
JSON values as far as evo's settings / config files use them (C18, C19): atoms and flat lists
of atoms.  Floats are carried as the exact rational value of the binary64 (`nan`/`inf` are
outside the model).  Mathlib-free.
-/
namespace Evo

inductive Atom
  | null
  | bool (b : Bool)
  | int (i : Int)
  | flt (r : Rat)
  | str (s : String)
  deriving DecidableEq, Repr

inductive JVal
  | atom (a : Atom)
  | list (l : List Atom)
  deriving DecidableEq, Repr

/-- the JSON / Python type of a value, as far as `finalize_values` distinguishes them -/
inductive JType | null | bool | int | float | str | list
  deriving DecidableEq, Repr

def Atom.type : Atom → JType
  | .null => .null | .bool _ => .bool | .int _ => .int | .flt _ => .float | .str _ => .str

def JVal.type : JVal → JType
  | .atom a => a.type
  | .list _ => .list

abbrev Dict := List (String × JVal)

end Evo
