/-
Python's `json.dumps` string escaping (`ensure_ascii=True`, the default evo uses for `info.json` /
`stats.json` in result archives) and the decoder's inverse (`json.loads`, strict mode).
Strings are lists of `Char` = Unicode scalar values; lone surrogates (which Python strings can
hold) are outside the modelled domain.
-/
namespace Evo.Json

abbrev Str := List Char

def hexDigit (k : Nat) : Char :=
  if k < 10 then Char.ofNat (48 + k) else Char.ofNat (87 + k)

/-- four lower-case hex digits of `n < 65536` -/
def hex4 (n : Nat) : Str :=
  [hexDigit (n / 4096 % 16), hexDigit (n / 256 % 16), hexDigit (n / 16 % 16), hexDigit (n % 16)]

def hexVal (c : Char) : Option Nat :=
  let n := c.toNat
  if 48 ≤ n ∧ n ≤ 57 then some (n - 48)
  else if 97 ≤ n ∧ n ≤ 102 then some (n - 87)
  else if 65 ≤ n ∧ n ≤ 70 then some (n - 55)
  else none

def unhex4 (a b c d : Char) : Option Nat :=
  match hexVal a, hexVal b, hexVal c, hexVal d with
  | some x, some y, some z, some w => some (4096 * x + 256 * y + 16 * z + w)
  | _, _, _, _ => none

/-- `py_encode_basestring_ascii` for one character -/
def escChar (c : Char) : Str :=
  if c = '"' then ['\\', '"']
  else if c = '\\' then ['\\', '\\']
  else if c = '\n' then ['\\', 'n']
  else if c = '\r' then ['\\', 'r']
  else if c = '\t' then ['\\', 't']
  else if c = '\x08' then ['\\', 'b']
  else if c = '\x0c' then ['\\', 'f']
  else if 32 ≤ c.toNat ∧ c.toNat ≤ 126 then [c]
  else if c.toNat < 65536 then '\\' :: 'u' :: hex4 c.toNat
  else
    let n := c.toNat - 65536
    ('\\' :: 'u' :: hex4 (55296 + n / 1024)) ++ ('\\' :: 'u' :: hex4 (56320 + n % 1024))

/-- content of the JSON string literal `json.dumps(s)` (without the surrounding quotes) -/
def escape : Str → Str
  | [] => []
  | c :: r => escChar c ++ escape r

/-- the decoder's table for `\x` escapes other than `\u` -/
def simpleEsc (e : Char) : Option Char :=
  if e = '"' then some '"'
  else if e = '\\' then some '\\'
  else if e = '/' then some '/'
  else if e = 'b' then some '\x08'
  else if e = 'f' then some '\x0c'
  else if e = 'n' then some '\n'
  else if e = 'r' then some '\r'
  else if e = 't' then some '\t'
  else none

def consOpt (c : Char) (r : Option Str) : Option Str := r.map (c :: ·)

/-- `py_scanstring` on the content of a string literal (strict: raw control characters and raw
quotes are errors); `none` also for lone surrogates -/
def unescape : Str → Option Str
  | [] => some []
  | c :: rest =>
    if c = '\\' then
      match rest with
      | [] => none
      | e :: rest1 =>
        if e = 'u' then
          match rest1 with
          | a :: b :: c' :: d :: rest2 =>
            match unhex4 a b c' d with
            | none => none
            | some u =>
              if 55296 ≤ u ∧ u ≤ 56319 then
                match rest2 with
                | bs :: uu :: e' :: f :: g :: h :: rest3 =>
                  if bs = '\\' ∧ uu = 'u' then
                    match unhex4 e' f g h with
                    | none => none
                    | some u2 =>
                      if 56320 ≤ u2 ∧ u2 ≤ 57343 then
                        consOpt (Char.ofNat (65536 + ((u - 55296) * 1024 + (u2 - 56320)))) (unescape rest3)
                      else none
                  else none
                | _ => none
              else if 56320 ≤ u ∧ u ≤ 57343 then none
              else consOpt (Char.ofNat u) (unescape rest2)
          | _ => none
        else
          match simpleEsc e with
          | some ch => consOpt ch (unescape rest1)
          | none => none
    else if c = '"' ∨ c.toNat < 32 then none
    else consOpt c (unescape rest)

end Evo.Json
