/-
Model of `evo/core/lie_algebra.py` beyond the pose algebra of `Model/Lin.lean`
(`hat`, `vee`, `se3` = `Pose.mk`, `sim3`, `se3_inverse` = `Pose.inv`, `sim3_inverse` = `Pose.sim3Inv`,
`relative_se3` = `Pose.rel`, `M3.angleCore`):

* `Mat4`              a 4×4 matrix as evo stores it (3×4 top block + bottom row)
* `relSo3`            `relative_so3 r1 r2 = r1ᵀ r2`
* `isClose`/`isSo3Tol`/`isSe3Tol`/`isSim3Tol`
                      exact rational mirrors of the membership tests.  `np.allclose(a, b, atol=1e-6)`
                      is `|a − b| ≤ atol + rtol·|b|` with numpy's *default* `rtol = 1e-5`: the
                      effective tolerance is 1.1e-5 on the determinant and on the diagonal of
                      `RᵀR`, 1e-6 off the diagonal.
* `rodrigues v a b`   `I + a·hat v + b·(hat v)²`; `so3_exp v` (scipy) is
                      `rodrigues v (sin‖v‖/‖v‖) ((1 − cos‖v‖)/‖v‖²)` — the two coefficients are
                      supplied by the harness in high precision (certificate), the matrix is exact.
No Mathlib import.
-/
import EvoModel.Model.Lin
namespace Evo

/-- a 4×4 matrix: top 3×4 block as a `Pose` and the bottom row -/
structure Mat4 (K : Type) where
  top : Pose K
  b0 : K
  b1 : K
  b2 : K
  b3 : K
deriving DecidableEq, Repr

section
variable {K : Type} [Add K] [Mul K] [Sub K] [Neg K] [Zero K] [One K]

/-- `lie_algebra.se3(r, t)`: bottom row `0 0 0 1` -/
def Mat4.se3 (r : M3 K) (t : V3 K) : Mat4 K := ⟨⟨r, t⟩, 0, 0, 0, 1⟩
/-- `lie_algebra.sim3(r, t, s)` -/
def Mat4.sim3 (r : M3 K) (t : V3 K) (s : K) : Mat4 K := ⟨Pose.sim3 r t s, 0, 0, 0, 1⟩
/-- `lie_algebra.so3_from_se3` -/
def Mat4.so3 (m : Mat4 K) : M3 K := m.top.rot
/-- `lie_algebra.se3_inverse`: reads only the top block, writes a fresh bottom row -/
def Mat4.se3Inverse (m : Mat4 K) : Mat4 K := ⟨m.top.inv, 0, 0, 0, 1⟩

/-- `lie_algebra.relative_so3 r1 r2 = r1ᵀ · r2` -/
def relSo3 (r1 r2 : M3 K) : M3 K := M3.mul (M3.transpose r1) r2

/-- `I + a·hat v + b·(hat v)²` -/
def rodrigues (v : V3 K) (a b : K) : M3 K :=
  M3.add (M3.add M3.one (M3.smul a (M3.hat v))) (M3.smul b (M3.mul (M3.hat v) (M3.hat v)))
end

namespace Lie

/-- `atol=1e-6` passed by `is_so3` -/
def atol : Rat := 1 / 1000000
/-- numpy's default `rtol` of `allclose` (not overridden by evo) -/
def rtol : Rat := 1 / 100000

/-- `numpy.isclose(a, b)` for finite values: `|a − b| ≤ atol + rtol·|b|` -/
def isClose (a b : Rat) : Bool := decide (absR (a - b) ≤ atol + rtol * absR b)

/-- distance of the test `isClose a b` from flipping -/
def closeMargin (a b : Rat) : Rat := absR (atol + rtol * absR b - absR (a - b))

/-- `numpy.allclose` of two 3×3 matrices -/
def allClose (g h : M3 Rat) : Bool :=
  isClose g.a00 h.a00 && isClose g.a01 h.a01 && isClose g.a02 h.a02 &&
  isClose g.a10 h.a10 && isClose g.a11 h.a11 && isClose g.a12 h.a12 &&
  isClose g.a20 h.a20 && isClose g.a21 h.a21 && isClose g.a22 h.a22

/-- `lie_algebra.is_so3`: determinant close to 1 and `rᵀ r` close to the identity -/
def isSo3Tol (r : M3 Rat) : Bool :=
  isClose r.det 1 && allClose (M3.mul (M3.transpose r) r) M3.one

/-- bottom row equal to `0 0 0 1` (exact comparison, as `np.equal`) -/
def bottomOk (m : Mat4 Rat) : Bool :=
  decide (m.b0 = 0) && decide (m.b1 = 0) && decide (m.b2 = 0) && decide (m.b3 = 1)

/-- `lie_algebra.is_se3` -/
def isSe3Tol (m : Mat4 Rat) : Bool := isSo3Tol m.top.rot && bottomOk m

/-- `lie_algebra.is_sim3(p, s)` with the scale given (evo's default is `sim3_scale(p) = det^(1/3)`,
irrational: the harness passes the value evo computed) -/
def isSim3Tol (m : Mat4 Rat) (s : Rat) : Bool :=
  isSo3Tol (M3.smul (1 / s) m.top.rot) && bottomOk m

/-- smallest distance of any of the ten comparisons of `is_so3` from its threshold -/
def so3Margin (r : M3 Rat) : Rat :=
  let g := M3.mul (M3.transpose r) r
  let i : M3 Rat := M3.one
  [closeMargin g.a00 i.a00, closeMargin g.a01 i.a01, closeMargin g.a02 i.a02,
   closeMargin g.a10 i.a10, closeMargin g.a11 i.a11, closeMargin g.a12 i.a12,
   closeMargin g.a20 i.a20, closeMargin g.a21 i.a21, closeMargin g.a22 i.a22].foldl min
    (closeMargin r.det 1)

end Lie
end Evo
