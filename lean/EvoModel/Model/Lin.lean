/-
3-D linear algebra of evo's pose handling (`evo/core/lie_algebra.py`, the matrix part of
`trajectory.py`), written with explicit components so that the definitions are executable
over `Rat` (driver) and the same definitions can be reasoned about over any field (proofs).
No Mathlib import: only the operation classes of core Lean are used.
-/
import EvoModel.Model.Basic
namespace Evo

structure V3 (K : Type) where
  x : K
  y : K
  z : K
deriving DecidableEq, Repr

structure M3 (K : Type) where
  a00 : K
  a01 : K
  a02 : K
  a10 : K
  a11 : K
  a12 : K
  a20 : K
  a21 : K
  a22 : K
deriving DecidableEq, Repr

/-- a 4×4 matrix with bottom row `0 0 0 1`: upper-left 3×3 block and translation column.
The block is a rotation for SE(3), a scaled rotation for Sim(3); nothing is assumed here. -/
structure Pose (K : Type) where
  rot : M3 K
  t : V3 K
deriving DecidableEq, Repr

section
variable {K : Type} [Add K] [Mul K] [Sub K] [Neg K] [Zero K] [One K]

namespace V3
def zero : V3 K := ⟨0, 0, 0⟩
def add (a b : V3 K) : V3 K := ⟨a.x + b.x, a.y + b.y, a.z + b.z⟩
def sub (a b : V3 K) : V3 K := ⟨a.x - b.x, a.y - b.y, a.z - b.z⟩
def neg (a : V3 K) : V3 K := ⟨-a.x, -a.y, -a.z⟩
def smul (s : K) (a : V3 K) : V3 K := ⟨s * a.x, s * a.y, s * a.z⟩
def dot (a b : V3 K) : K := a.x * b.x + a.y * b.y + a.z * b.z
def normSq (a : V3 K) : K := dot a a
def cross (a b : V3 K) : V3 K :=
  ⟨a.y * b.z - a.z * b.y, a.z * b.x - a.x * b.z, a.x * b.y - a.y * b.x⟩
end V3

namespace M3
def one : M3 K := ⟨1, 0, 0, 0, 1, 0, 0, 0, 1⟩
def zero : M3 K := ⟨0, 0, 0, 0, 0, 0, 0, 0, 0⟩
def transpose (m : M3 K) : M3 K :=
  ⟨m.a00, m.a10, m.a20, m.a01, m.a11, m.a21, m.a02, m.a12, m.a22⟩
def mul (a b : M3 K) : M3 K :=
  ⟨a.a00 * b.a00 + a.a01 * b.a10 + a.a02 * b.a20,
   a.a00 * b.a01 + a.a01 * b.a11 + a.a02 * b.a21,
   a.a00 * b.a02 + a.a01 * b.a12 + a.a02 * b.a22,
   a.a10 * b.a00 + a.a11 * b.a10 + a.a12 * b.a20,
   a.a10 * b.a01 + a.a11 * b.a11 + a.a12 * b.a21,
   a.a10 * b.a02 + a.a11 * b.a12 + a.a12 * b.a22,
   a.a20 * b.a00 + a.a21 * b.a10 + a.a22 * b.a20,
   a.a20 * b.a01 + a.a21 * b.a11 + a.a22 * b.a21,
   a.a20 * b.a02 + a.a21 * b.a12 + a.a22 * b.a22⟩
def mulVec (a : M3 K) (v : V3 K) : V3 K :=
  ⟨a.a00 * v.x + a.a01 * v.y + a.a02 * v.z,
   a.a10 * v.x + a.a11 * v.y + a.a12 * v.z,
   a.a20 * v.x + a.a21 * v.y + a.a22 * v.z⟩
def add (a b : M3 K) : M3 K :=
  ⟨a.a00 + b.a00, a.a01 + b.a01, a.a02 + b.a02, a.a10 + b.a10, a.a11 + b.a11, a.a12 + b.a12,
   a.a20 + b.a20, a.a21 + b.a21, a.a22 + b.a22⟩
def sub (a b : M3 K) : M3 K :=
  ⟨a.a00 - b.a00, a.a01 - b.a01, a.a02 - b.a02, a.a10 - b.a10, a.a11 - b.a11, a.a12 - b.a12,
   a.a20 - b.a20, a.a21 - b.a21, a.a22 - b.a22⟩
def smul (s : K) (a : M3 K) : M3 K :=
  ⟨s * a.a00, s * a.a01, s * a.a02, s * a.a10, s * a.a11, s * a.a12, s * a.a20, s * a.a21, s * a.a22⟩
def trace (a : M3 K) : K := a.a00 + a.a11 + a.a22
def det (a : M3 K) : K :=
  a.a00 * (a.a11 * a.a22 - a.a12 * a.a21) - a.a01 * (a.a10 * a.a22 - a.a12 * a.a20)
    + a.a02 * (a.a10 * a.a21 - a.a11 * a.a20)
/-- squared Frobenius norm -/
def frobSq (a : M3 K) : K :=
  a.a00 * a.a00 + a.a01 * a.a01 + a.a02 * a.a02 + a.a10 * a.a10 + a.a11 * a.a11 + a.a12 * a.a12
    + a.a20 * a.a20 + a.a21 * a.a21 + a.a22 * a.a22
/-- `lie_algebra.hat`: skew-symmetric matrix of a vector -/
def hat (v : V3 K) : M3 K := ⟨0, -v.z, v.y, v.z, 0, -v.x, -v.y, v.x, 0⟩
/-- `lie_algebra.vee`: `[-m[1,2], m[0,2], -m[0,1]]` -/
def vee (m : M3 K) : V3 K := ⟨-m.a12, m.a02, -m.a01⟩
def col0 (m : M3 K) : V3 K := ⟨m.a00, m.a10, m.a20⟩
def col1 (m : M3 K) : V3 K := ⟨m.a01, m.a11, m.a21⟩
def col2 (m : M3 K) : V3 K := ⟨m.a02, m.a12, m.a22⟩
end M3

namespace Pose
def one : Pose K := ⟨M3.one, V3.zero⟩
/-- matrix product of two 4×4 matrices with bottom row `0 0 0 1` -/
def mul (a b : Pose K) : Pose K := ⟨M3.mul a.rot b.rot, V3.add (M3.mulVec a.rot b.t) a.t⟩
/-- `lie_algebra.se3_inverse`: `[Rᵀ, −Rᵀ t]` (the inverse only when `R` is orthonormal) -/
def inv (a : Pose K) : Pose K := ⟨M3.transpose a.rot, V3.neg (M3.mulVec (M3.transpose a.rot) a.t)⟩
/-- `lie_algebra.relative_se3 p1 p2 = se3_inverse(p1) · p2` -/
def rel (a b : Pose K) : Pose K := mul (inv a) b
/-- `lie_algebra.sim3 r t s` -/
def sim3 (r : M3 K) (t : V3 K) (s : K) : Pose K := ⟨M3.smul s r, t⟩
/-- position of the pose -/
def pos (a : Pose K) : V3 K := a.t
end Pose
end

section
variable {K : Type} [Add K] [Mul K] [Sub K] [Neg K] [Zero K] [One K] [Div K]
/-- `lie_algebra.sim3_inverse` with the scale given (the code recovers it as `det^(1/3)`):
`r = (a.rot / s)ᵀ`, `t = −r·(a.t / s)`, result `sim3 r t (1/s)` -/
def Pose.sim3Inv (a : Pose K) (s : K) : Pose K :=
  let r := M3.transpose (M3.smul (1 / s) a.rot)
  let t := V3.neg (M3.mulVec r (V3.smul (1 / s) a.t))
  Pose.sim3 r t (1 / s)
/-- rotation-angle core of a rotation matrix: `c = (tr R − 1)/2 = cos θ` and
`s² = ‖vee((R − Rᵀ)/2)‖² = sin² θ`; the angle itself is `atan2(√s², c) ∈ [0, π]`. -/
def M3.angleCore (r : M3 K) : K × K :=
  let two : K := 1 + 1
  let c := (M3.trace r - 1) / two
  let w : V3 K := ⟨(r.a21 - r.a12) / two, (r.a02 - r.a20) / two, (r.a10 - r.a01) / two⟩
  (c, V3.normSq w)
end

/-! ### protocol: a pose is sent as 12 rationals, row-major 3×4 (like a KITTI row) -/

def Pose.ofList : List Rat → Option (Pose Rat)
  | [a, b, c, tx, d, e, f, ty, g, h, i, tz] => some ⟨⟨a, b, c, d, e, f, g, h, i⟩, ⟨tx, ty, tz⟩⟩
  | _ => none

def Pose.toList (p : Pose Rat) : List Rat :=
  [p.rot.a00, p.rot.a01, p.rot.a02, p.t.x, p.rot.a10, p.rot.a11, p.rot.a12, p.t.y,
   p.rot.a20, p.rot.a21, p.rot.a22, p.t.z]

def M3.ofList : List Rat → Option (M3 Rat)
  | [a, b, c, d, e, f, g, h, i] => some ⟨a, b, c, d, e, f, g, h, i⟩
  | _ => none

def M3.toList (m : M3 Rat) : List Rat := [m.a00, m.a01, m.a02, m.a10, m.a11, m.a12, m.a20, m.a21, m.a22]

def V3.ofList : List Rat → Option (V3 Rat)
  | [a, b, c] => some ⟨a, b, c⟩
  | _ => none

def V3.toList (v : V3 Rat) : List Rat := [v.x, v.y, v.z]

/-- read `n` poses (12 rationals each) from an argument list -/
def readPoses : Nat → List String → Option (List (Pose Rat) × List String)
  | 0, rest => some ([], rest)
  | n+1, l => do
      let (a, rest) ← takeN 12 l
      let rs ← parseRats? a
      let p ← Pose.ofList rs
      let (ps, rest') ← readPoses n rest
      some (p :: ps, rest')

/-- length-prefixed list of poses -/
def readPoseList (l : List String) : Option (List (Pose Rat) × List String) :=
  match l with
  | [] => none
  | k :: rest => do
      let n ← k.toNat?
      readPoses n rest

def showPoses (ps : List (Pose Rat)) : String := " ".intercalate (ps.map (fun p => showRats p.toList))

end Evo
