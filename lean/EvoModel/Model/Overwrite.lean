/-
C17 — existing output files are never overwritten without confirmation.
Model of evo/tools/user.py (`confirm`, `check_and_confirm_overwrite`), of the guard every writer
puts in front of its write, and of the multi-figure plot export.  The shapes of the guards and the
expression every call site passes as `confirm_overwrite` are regenerated from the AST of /repo into
`Gen/Writers.lean`; the types of those tables live here.  Mathlib-free, executable.
-/
namespace Evo.Overwrite

abbrev Bytes := List Nat

/-- `user.confirm(msg, key='y')`: `if input(msg) != key: return False else: return True` -/
def confirm (answer : String) (key : String := "y") : Bool := !(answer != key)

structure Outcome where
  prompted : Bool
  wrote : Bool
  deriving DecidableEq, Repr

/-- `check_and_confirm_overwrite(path)`: asks iff the file exists; `wrote` = "go on and write" -/
def checkAndConfirm (fileExists : Bool) (answer : String) : Outcome :=
  if fileExists then ⟨true, confirm answer⟩ else ⟨false, true⟩

/-- the guard pattern of every writer: `if confirm_overwrite and not check_and_confirm_overwrite(p): return` -/
def writerStep (fileExists confirmFlag : Bool) (answer : String) : Outcome :=
  if confirmFlag then checkAndConfirm fileExists answer else ⟨false, true⟩

/-- a file: absent or its bytes -/
abbrev File := Option Bytes

/-- effect of a guarded writer on the target: (file afterwards, prompted) -/
def applyWriter (old : File) (new : Bytes) (confirmFlag : Bool) (answer : String) : File × Bool :=
  let o := writerStep old.isSome confirmFlag answer
  (if o.wrote then some new else old, o.prompted)

/-- `PlotCollection.export` for split figures: one file per figure, guard per file, the first
declined prompt ends the export (`return`).  Returns the files afterwards and the number of prompts. -/
def exportMulti (confirmFlag : Bool) : List File → List Bytes → List String → List File × Nat
  | [], _, _ => ([], 0)
  | fs, [], _ => (fs, 0)
  | f :: fs, n :: ns, answers =>
    let o := writerStep f.isSome confirmFlag (answers.headD "")
    let rest := if o.prompted then answers.tail else answers
    if o.wrote then
      let r := exportMulti confirmFlag fs ns rest
      (some n :: r.1, r.2 + (if o.prompted then 1 else 0))
    else (f :: fs, 1)

/-! ### shapes extracted from the source (types of `Gen/Writers.lean`) -/

/-- how the path is given to a writer -/
inductive PathKind | str | path | handle
  deriving DecidableEq, Repr

def PathKind.pyName : PathKind → String
  | .str => "str" | .path => "Path" | .handle => "handle"

inductive GuardKind
  | plain        -- `if confirm_overwrite and not check(p): return`
  | typedInner   -- `if confirm_overwrite and isinstance(p, T): if not check(p): return`
  | typedOuter   -- `if isinstance(p, T): … if confirm_overwrite and not check(p): return`
  | direct       -- `if … check(p): <write>` without a flag (always asks)
  deriving DecidableEq, Repr

structure Guard where
  kind : GuardKind
  types : List String        -- the isinstance types of a typed guard
  inLoop : Bool              -- guard sits in the per-figure loop
  returnsOnDecline : Bool    -- body of the declined branch is `return`
  deriving DecidableEq, Repr

structure Writer where
  name : String
  file : String
  dflt : Bool                -- default of the `confirm_overwrite` parameter
  guards : List Guard
  deriving DecidableEq, Repr

structure CallSite where
  file : String
  line : Nat
  writer : String
  confirm : String           -- source of the expression passed as confirm_overwrite ("<default>" if omitted)
  cli : Bool                 -- in one of the anchored command modules
  deriving DecidableEq, Repr

/-- a direct use of check_and_confirm_overwrite in a command module (evo_config generate) -/
structure DirectGuard where
  file : String
  line : Nat
  test : String
  guardsWrite : Bool         -- the guarded block contains the `open(…, 'w')`
  deriving DecidableEq, Repr

/-- an `open(…, 'w')` in a command module -/
structure RawWrite where
  file : String
  line : Nat
  guarded : Bool             -- inside an `if` whose test calls check_and_confirm_overwrite
  deriving DecidableEq, Repr

/-- outcome of a guard of the given shape (what the Python text of that shape computes) -/
def Guard.run (g : Guard) (pk : PathKind) (fileExists confirmFlag : Bool) (answer : String) : Outcome :=
  match g.kind with
  | .plain => if confirmFlag then checkAndConfirm fileExists answer else ⟨false, true⟩
  | .typedInner =>
      if confirmFlag && g.types.contains pk.pyName then checkAndConfirm fileExists answer else ⟨false, true⟩
  | .typedOuter =>
      if g.types.contains pk.pyName then
        (if confirmFlag then checkAndConfirm fileExists answer else ⟨false, true⟩)
      else ⟨false, true⟩
  | .direct => checkAndConfirm fileExists answer

/-- the guard in front of a single-file write: the first guard outside a loop -/
def Writer.mainGuard (w : Writer) : Option Guard := w.guards.find? (fun g => !g.inLoop)
def Writer.loopGuard (w : Writer) : Option Guard := w.guards.find? (fun g => g.inLoop)

/-- per-figure export through a guard of the given shape -/
def exportBy (g : Guard) (confirmFlag : Bool) : List Bool → List String → List Bool × Nat
  | [], _ => ([], 0)
  | e :: es, answers =>
    let o := g.run .str e confirmFlag (answers.headD "")
    let rest := if o.prompted then answers.tail else answers
    if o.wrote then
      let r := exportBy g confirmFlag es rest
      (true :: r.1, r.2 + (if o.prompted then 1 else 0))
    else if g.returnsOnDecline then (false :: es.map (fun _ => false), 1)
    else
      let r := exportBy g confirmFlag es rest
      (false :: r.1, r.2 + 1)

/-- value of the expression a call site passes as `confirm_overwrite`, given `--no_warnings` -/
def confirmExpr (src : String) (dflt : Bool) (noWarnings : Bool) : Option Bool :=
  match src with
  | "not args.no_warnings" => some (!noWarnings)
  | "args.no_warnings" => some noWarnings
  | "True" => some true
  | "False" => some false
  | "<default>" => some dflt
  | _ => none

/-- shape of `user.confirm`: comparison operator and the two returned constants -/
structure ConfirmShape where
  op : String
  thenRet : Bool
  elseRet : Bool
  deriving DecidableEq, Repr

def ConfirmShape.run (c : ConfirmShape) (answer key : String) : Option Bool :=
  match c.op with
  | "NotEq" => some (if answer != key then c.thenRet else c.elseRet)
  | "Eq" => some (if answer == key then c.thenRet else c.elseRet)
  | _ => none

end Evo.Overwrite
