/-
Model of the RPE pair selection of evo, over exact rationals:
  evo/core/filters.py   `filter_pairs_by_index`, `filter_pairs_by_path`, `filter_pairs_by_angle`
  evo/core/metrics.py   `id_pairs_from_delta`
  evo/core/geometry.py  `accumulated_distances`

What enters the model.  Step lengths `‖p_{k+1} − p_k‖` and relative rotation angles are irrational
in general; they are parameters of the model (lists / a function of rationals), exactly like the
float values are the only thing the selection code of evo looks at:
  * `steps`  : the `n−1` distances between consecutive positions,
  * `acc`    : `accumulated_distances` = `accDist steps` (running sums starting with 0),
  * `cang`   : the `n−1` relative rotation angles of consecutive poses,
  * `ang i j`: the relative rotation angle of poses `i`, `j`,
  * `pi`     : the value of π in the unit in which `cang`/`ang` are given (the exact-grid stream of
               the harness sends multiples of π/8 as integers, hence `pi = 8`; the random stream
               sends radians, `pi = ` the rational value of `numpy.pi`).
-/
import EvoModel.Model.Basic
namespace Evo.Pairs

abbrev IdPairs := List (Nat × Nat)

/-- `zip(ids, ids[1:])` -/
def chainPairs (ids : List Nat) : IdPairs := ids.zip ids.tail

/-! ### geometry.accumulated_distances -/

/-- `concatenate(([0], cumsum(steps)))` -/
def accGo : List Rat → Rat → List Rat
  | [], _ => []
  | s :: r, c => (c + s) :: accGo r (c + s)

def accDist (steps : List Rat) : List Rat := 0 :: accGo steps 0

/-! ### filter_pairs_by_index -/

/-- `np.arange(0, n, δ, dtype=int)` for `δ ≥ 1`: `0, δ, 2δ, … < n` (`⌈n/δ⌉` entries) -/
def arange (n δ : Nat) : List Nat := (List.range ((n + δ - 1) / δ)).map (· * δ)

def pairsByIndex (n δ : Nat) (allPairs : Bool) : IdPairs :=
  if allPairs then
    (List.range n).filterMap fun i => if i + δ < n then some (i, i + δ) else none
  else
    chainPairs (arange n δ)

/-! ### the greedy "accumulate, emit, reset" loop shared by the consecutive path / angle selectors -/

/-- walk over the increments `l`; the increment `l[k]` leads to pose index `i + k`; `cur` is the
amount accumulated since the last reset. Emits the pose indices at which `cur ≥ δ` (then resets). -/
def reachGo (δ : Rat) : List Rat → Nat → Rat → List Nat
  | [], _, _ => []
  | s :: r, i, cur =>
      if δ ≤ cur + s then i :: reachGo δ r (i + 1) 0 else reachGo δ r (i + 1) (cur + s)

/-! ### filter_pairs_by_path -/

/-- consecutive mode: the loop runs over all poses, the first one with increment
`‖p₀ − p₀‖ = 0`; `ids` are the poses where the path since the last emitted pose reaches `δ` -/
def pathIds (steps : List Rat) (δ : Rat) : List Nat := reachGo δ (0 :: steps) 0 0

def pairsByPathConsec (steps : List Rat) (δ : Rat) : IdPairs := chainPairs (pathIds steps δ)

/-- all-pairs mode on the accumulated distances `acc`: for every `i < n−1` the first `j > i`
minimising `|acc_j − acc_i − δ|`, kept unless that value exceeds `tol` -/
def pathCand (acc : List Rat) (δ : Rat) (i : Nat) : Nat :=
  argminFirst (fun d => absR (d - acc[i]?.getD 0 - δ)) (acc.drop (i + 1))

def pairsByPathAll (acc : List Rat) (δ tol : Rat) : IdPairs :=
  (List.range (acc.length - 1)).filterMap fun i =>
    let c := pathCand acc δ i
    match (acc.drop (i + 1))[c]? with
    | some d => if tol < absR (d - acc[i]?.getD 0 - δ) then none else some (i, c + (i + 1))
    | none => none

def pairsByPath (steps : List Rat) (δ tol : Rat) (allPairs : Bool) : IdPairs :=
  if allPairs then pairsByPathAll (accDist steps) δ tol else pairsByPathConsec steps δ

/-! ### filter_pairs_by_angle -/

/-- consecutive mode: end indices `k+1` at which the angle accumulated since the current start
reaches `δ`; pairs `(start, end)`, the first start is pose 0 -/
def angleEnds (cang : List Rat) (δ : Rat) : List Nat := reachGo δ cang 1 0

def pairsByAngleConsec (cang : List Rat) (δ : Rat) : IdPairs := chainPairs (0 :: angleEnds cang δ)

/-- all-pairs mode: band test `δ − tol ≤ ang i j ≤ δ + tol` on every pair `i < j < n` -/
def pairsByAngleAll (ang : Nat → Nat → Rat) (n : Nat) (δ tol : Rat) : IdPairs :=
  (List.range (n - 1)).flatMap fun i =>
    ((List.range (n - (i + 1))).filter
      (fun k => decide (δ - tol ≤ ang i (k + (i + 1))) && decide (ang i (k + (i + 1)) ≤ δ + tol))).map
      (fun k => (i, k + (i + 1)))

inductive Err | filter deriving Repr, DecidableEq

/-- `np.deg2rad` -/
def deg2rad (pi x : Rat) : Rat := x * (pi / 180)

/-- `filter_pairs_by_angle`: range check of `δ` against `[0, π]` / `[0, 180]`, degree conversion of
`δ` and `tol`, then one of the two selectors -/
def pairsByAngle (cang : List Rat) (ang : Nat → Nat → Rat) (n : Nat) (pi δ tol : Rat)
    (degrees allPairs : Bool) : Except Err IdPairs :=
  let bound : Rat := if degrees then 180 else pi
  if δ < 0 ∨ bound < δ then .error .filter else
  let δ' := if degrees then deg2rad pi δ else δ
  let tol' := if degrees then deg2rad pi tol else tol
  .ok (if allPairs then pairsByAngleAll ang n δ' tol' else pairsByAngleConsec cang δ')

/-! ### metrics.id_pairs_from_delta -/

inductive DUnit | frames | meters | radians | degrees | other deriving Repr, DecidableEq

/-- what the selectors look at in a pose list -/
structure Input where
  n : Nat                    -- number of poses
  steps : List Rat           -- n−1 step lengths
  cang : List Rat            -- n−1 consecutive relative angles
  ang : Nat → Nat → Rat      -- relative angle of any two poses
  pi : Rat                   -- π in the unit of `cang` / `ang`

/-- `int(delta)` for `delta ≥ 0` -/
def toFrames (δ : Rat) : Nat := δ.floor.toNat

/-- unit dispatch, `tol = δ·rel_tol`, an empty selection is evo's `FilterException` -/
def idPairsFromDelta (inp : Input) (δ : Rat) (u : DUnit) (relTol : Rat) (allPairs : Bool) :
    Except Err IdPairs :=
  let r : Except Err IdPairs :=
    match u with
    | .frames => .ok (pairsByIndex inp.n (toFrames δ) allPairs)
    | .meters => .ok (pairsByPath inp.steps δ (δ * relTol) allPairs)
    | .radians => pairsByAngle inp.cang inp.ang inp.n inp.pi δ (δ * relTol) false allPairs
    | .degrees => pairsByAngle inp.cang inp.ang inp.n inp.pi δ (δ * relTol) true allPairs
    | .other => .error .filter
  match r with
  | .error e => .error e
  | .ok ps => if ps.isEmpty then .error .filter else .ok ps

/-! ### metrics.RPE: constructor checks + pair selection of `process_data` -/

inductive RErr | metrics | filter deriving Repr, DecidableEq

/-- `RPE.__init__` refuses `delta < 0` and a non-integer `delta` in frames (`MetricsException`),
stores `int(delta)` for frames; `process_data` selects with `id_pairs_from_delta` and the stored
`rel_delta_tol` (its `FilterException` propagates) -/
def rpePairs (inp : Input) (δ : Rat) (u : DUnit) (relTol : Rat) (allPairs : Bool) : Except RErr IdPairs :=
  if δ < 0 then .error .metrics
  else if u = .frames ∧ (δ.floor : Rat) ≠ δ then .error .metrics
  else
    match idPairsFromDelta inp (if u = .frames then ((toFrames δ : Nat) : Rat) else δ) u relTol allPairs with
    | .error _ => .error .filter
    | .ok ps => .ok ps

/-! ### specification vocabulary (used by the theorems, not by the driver) -/

/-- sum of the first `k` increments -/
def psum (l : List Rat) (k : Nat) : Rat := (l.take k).sum

/-- amount accumulated between pose `i` and pose `j` (path length for `steps`, accumulated rotation
for `cang`): the sum of the increments `l[i] … l[j−1]` -/
def span (l : List Rat) (i j : Nat) : Rat := psum l j - psum l i

/-! ### decision margins (for the float-vs-exact borderline filter of the harness; not verified) -/

def big : Rat := 1000000000000

def minR (a b : Rat) : Rat := if b < a then b else a

/-- smallest `|cur − δ|` over all comparisons of the greedy loop -/
def reachMargin (δ : Rat) : List Rat → Rat → Rat → Rat
  | [], _, m => m
  | s :: r, cur, m =>
      let c := cur + s
      let m' := minR m (absR (c - δ))
      if δ ≤ c then reachMargin δ r 0 m' else reachMargin δ r c m'

/-- all-pairs path: per `i`, gap between the best and the second-best candidate value and the
distance of the best value from `tol` -/
def pathAllMargin (acc : List Rat) (δ tol : Rat) : Rat :=
  (List.range (acc.length - 1)).foldl (fun m i =>
    let ai := acc[i]?.getD 0
    let vs := (acc.drop (i + 1)).map (fun d => absR (d - ai - δ))
    let c := argminFirst (fun x => x) vs
    match vs[c]? with
    | none => m
    | some b =>
      let gap := (vs.zipIdx.foldl (fun g p => if p.2 = c then g else minR g (p.1 - b)) big)
      minR m (minR gap (absR (b - tol)))) big

def angleAllMargin (ang : Nat → Nat → Rat) (n : Nat) (δ tol : Rat) : Rat :=
  (List.range (n - 1)).foldl (fun m i =>
    (List.range (n - (i + 1))).foldl (fun m k =>
      let a := ang i (k + (i + 1))
      minR m (minR (absR (a - (δ - tol))) (absR (a - (δ + tol))))) m) big

end Evo.Pairs
