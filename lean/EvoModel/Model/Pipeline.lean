/-
`evo_ape` / `evo_rpe` end to end on rational trajectories: the steps of `apePlan` / `rpePlan`
(`Model/Ape.lean`, `Model/Rpe.lean`) *executed with the models of the other properties*
  C11 `Select.downsample`, `Select.motionFilterAcc`, `Select.crop`
  C05 `Sync.associate`
  C04 `Align.alignApply`, `Align.alignOrigin`, `Align.alignInputs`, C03 `Ume.umeRefuses`
  C14 `Project.projectPoses`
  C10 `Pairs.idPairsFromDelta`
  C01/C02 `ape`, `rpe`.

What is computed and what is a parameter.  Computed from the two input trajectories (stamps and
pose matrices as exact rationals) and the options: which poses survive down-sampling (with numpy's
float rounding, C11), the time range, the association (C05), the motion filter and the pair selection
*decisions*, the alignment / origin / projection maps applied to the poses, and every error core.
Parameters (`Params`), supplied by the harness from evo's own run and certified by the owning
property: the Umeyama triple `(R, t, s)` (C03: `Ume.umeCert`), the projected directions
`(cos φ, sin φ)` per pose (C14: `Dir.IsUnit`), and the irrational quantities the selectors compare —
accumulated distances, step lengths and relative rotation angles (C10/C11 conventions: rationals on
exact grids, evo's own float values otherwise, margin-filtered).

Every pose carries its index in the input file through the selection steps (`TPose`), so the
result names, for each error value, the input poses it refers to.
-/
import EvoModel.Model.Rpe
import EvoModel.Model.Sync
import EvoModel.Model.Select
import EvoModel.Model.Pairs
import EvoModel.Model.Align
import EvoModel.Model.Project
namespace Evo.Pipeline
open Evo

/-- the exception classes of evo a run can end with; `badParams`: ill-formed `Params`
(never produced from an evo run) -/
inductive RunErr where
  | filter | traj | sync | geometry | metrics | lie | badParams
  /-- numpy `ValueError` of `get_all_statistics` on an empty error array (evo_rpe, ratio relation with
  every reference distance zero): evo does not store a result -/
  | valueError
  /-- `ZeroDivisionError` of `umeyama_alignment` on zero points (`n_to_align` leaves no pose) -/
  | zeroDiv
deriving DecidableEq, Repr

/-- stamp, pose, index of the pose in the input file -/
abbrev TPose := Rat × (Pose Rat × Nat)

/-- input trajectory; a path without timestamps (KITTI) carries its indices as stamps (unused) -/
structure Traj where
  stamps : List Rat
  poses : List (Pose Rat)
deriving Repr

def tagTraj (t : Traj) : List TPose := t.stamps.zip t.poses.zipIdx
def posesOf (l : List TPose) : List (Pose Rat) := l.map (·.2.1)
def idsOf (l : List TPose) : List Nat := l.map (·.2.2)
def stampsOf (l : List TPose) : List Rat := l.map (·.1)

/-- entry `(i, j)`, `i < j < n`, of a flattened upper triangle `a₀₁ … a₀₍ₙ₋₁₎ a₁₂ …` -/
def triAng (n : Nat) (tri : Array Rat) (i j : Nat) : Rat :=
  tri.getD (i * n - i * (i + 1) / 2 + (j - i - 1)) 0

/-- what `filter_by_motion` looks at: `accumulated_distances` and the pairwise rotation angles
(radians) of the trajectory that enters the filter, and the value of π -/
structure MotionPar where
  acc : List Rat
  tri : Array Rat
deriving Repr

/-- what `id_pairs_from_delta` looks at in the driving trajectory (C10 `Pairs.Input` without `n`) -/
structure PairPar where
  steps : List Rat
  cang : List Rat
  tri : Array Rat
deriving Repr

structure Params where
  /-- π (in the unit of all angles below; `numpy.pi` as a rational for radians) -/
  pi : Rat
  mfRef : MotionPar
  mfEst : MotionPar
  /-- `(R, t, s)` returned by `umeyama_alignment` (unused without an alignment step) -/
  umeR : M3 Rat
  umeT : V3 Rat
  umeS : Rat
  /-- `(cos φ, sin φ)` per pose of reference / estimate entering `project` -/
  dirsRef : List (Rat × Rat)
  dirsEst : List (Rat × Rat)
  pairs : PairPar
deriving Repr

def liftSel {α} : Except Select.Err α → Except RunErr α
  | .ok a => .ok a
  | .error .traj => .error .traj
  | .error .filter => .error .filter

/-! ### selection: down-sampling, motion filter, time range, association -/

/-- `traj.downsample(n)` for the `int` of the command line -/
def downsampleStep (n : Int) (l : List TPose) : Except RunErr (List TPose) :=
  if n < 0 then (if l.isEmpty then .ok l else .error .traj) else liftSel (Select.downsample l n.toNat)

/-- `traj.motion_filter(d, a, degrees=True)`: threshold `np.deg2rad(a)`, indices from C11's loop -/
def motionStep (pi d a : Rat) (mp : MotionPar) (l : List TPose) : Except RunErr (List TPose) :=
  if mp.acc.length ≠ l.length then .error .badParams else
  match liftSel (Select.motionFilterAcc mp.acc (triAng l.length mp.tri) d (Pairs.deg2rad pi a)) with
  | .error e => .error e
  | .ok ids => .ok (reduceIds l ids)

/-- `if args.downsample: traj_ref.downsample(n); traj_est.downsample(n)` -/
def stageDown (o : CommonOpts) (r e : List TPose) : Except RunErr (List TPose × List TPose) :=
  match o.downsample with
  | some n =>
      if n = 0 then .ok (r, e)
      else (downsampleStep n r).bind fun r' => (downsampleStep n e).bind fun e' => .ok (r', e')
  | none => .ok (r, e)

/-- `if args.motion_filter:` refused without timestamps, else both trajectories are filtered -/
def stageMotion (o : CommonOpts) (P : Params) (r e : List TPose) : Except RunErr (List TPose × List TPose) :=
  match o.motionFilter with
  | some (d, a) =>
      if !o.hasStamps then .error .filter
      else (motionStep P.pi d a P.mfRef r).bind fun r' => (motionStep P.pi d a P.mfEst e).bind fun e' => .ok (r', e')
  | none => .ok (r, e)

/-- time range on the reference only -/
def stageCrop (o : CommonOpts) (r : List TPose) : Except RunErr (List TPose) :=
  if o.tStart.isSome || o.tEnd.isSome then liftSel (Select.crop r o.tStart o.tEnd) else .ok r

/-- trajectories with timestamps: crop the reference, associate -/
def stageSync (o : CommonOpts) (r e : List TPose) : Except RunErr (List TPose × List TPose) :=
  if o.hasStamps then
    (stageCrop o r).bind fun r' =>
      match Sync.associate r' e o.tMaxDiff o.tOffset with
      | .error _ => .error .sync
      | .ok p => .ok p
  else .ok (r, e)

/-- `downsample_or_filter`, the time range on the reference, the association: the surviving,
paired poses of reference and estimate (with their input indices) -/
def selectPairs (o : CommonOpts) (P : Params) (ref est : Traj) : Except RunErr (List TPose × List TPose) :=
  (stageDown o (tagTraj ref) (tagTraj est)).bind fun p1 =>
    (stageMotion o P p1.1 p1.2).bind fun p2 => stageSync o p2.1 p2.2

/-! ### geometry: Umeyama alignment, origin alignment, projection -/

def alignMode : AlignKind → Align.Mode
  | .se3 => .se3 | .sim3 => .sim3 | .scaleOnly => .scaleOnly

def planeOf : Evo.Plane → Project.Plane
  | .xy => .xy | .xz => .xz | .yz => .yz

/-- `traj_est.align(traj_ref, …, n)`: refused (`GeometryException`) on degenerate point sets,
else the returned `(R, t, s)` is applied in the mode of the options -/
def alignStep (o : CommonOpts) (P : Params) (ref est : List (Pose Rat)) : Except RunErr (List (Pose Rat)) :=
  match alignKind o.align o.correctScale with
  | none => .ok est
  | some k =>
      if Ume.shapeMismatch (Align.alignInputs o.nToAlign est ref).1 (Align.alignInputs o.nToAlign est ref).2
      then .error .geometry
      else if (Align.alignInputs o.nToAlign est ref).1.isEmpty then .error .zeroDiv
      else if Ume.umeRefuses (Align.alignInputs o.nToAlign est ref).1 (Align.alignInputs o.nToAlign est ref).2
      then .error .geometry
      else .ok (Align.alignApply (alignMode k) P.umeR P.umeT P.umeS est)

def originStep (o : CommonOpts) (ref est : List (Pose Rat)) : Except RunErr (List (Pose Rat)) :=
  if o.alignOrigin then
    match Align.alignOrigin ref est with
    | none => .error .traj
    | some (_, est') => .ok est'
  else .ok est

def projectStep (pl : Option Evo.Plane) (dirs : List (Rat × Rat)) (ps : List (Pose Rat)) :
    Except RunErr (List (Pose Rat)) :=
  match pl with
  | none => .ok ps
  | some p => if dirs.length ≠ ps.length then .error .badParams
              else .ok (Project.projectPoses (planeOf p) ps dirs)

/-- the processed pose lists handed to the metric -/
def geometry (o : CommonOpts) (P : Params) (ref est : List (Pose Rat)) :
    Except RunErr (List (Pose Rat) × List (Pose Rat)) :=
  (alignStep o P ref est).bind fun e1 =>
    (originStep o ref e1).bind fun e2 =>
      (projectStep o.plane P.dirsRef ref).bind fun r3 =>
        (projectStep o.plane P.dirsEst e2).bind fun e3 => .ok (r3, e3)

def liftMetric {α} : Except MetricErr α → Except RunErr α
  | .ok a => .ok a
  | .error .notSO3 => .error .lie
  | .error .badIndex => .error .badParams
  | .error _ => .error .metrics

/-- current unit of a relation as a `--change_unit` name (`none`: unit-less / percent) -/
def unitOfRel : PoseRelation → Option UnitName
  | .trans | .pointDist => some .m
  | .angleDeg => some .deg
  | .angleRad => some .rad
  | _ => none

def isLengthUnit : UnitName → Bool
  | .mm | .cm | .m | .km => true
  | _ => false

/-- `PE.change_unit(new)`: nothing when equal, refused for unit-less metrics and for
length ↔ angle, otherwise the conversion named by `new` (applied by the reader of the cores) -/
def unitStep (rel : PoseRelation) (new : Option UnitName) : Except RunErr (Option UnitName) :=
  match new with
  | none => .ok none
  | some u =>
    match unitOfRel rel with
    | none => .error .metrics
    | some cur => if cur = u then .ok none
                  else if isLengthUnit cur = isLengthUnit u then .ok (some u) else .error .metrics

structure ApeResult where
  /-- `error_array` (rational cores; multiply by the unit factor when `unit` is set) -/
  values : List (Core Rat)
  unit : Option UnitName
  /-- indices in the reference / estimate input of the pose pair behind each value -/
  refIds : List Nat
  estIds : List Nat
  /-- `timestamps` (of the estimate) -/
  stamps : List Rat
deriving DecidableEq, Repr

/-- `evo_ape`: the stored result for two input trajectories -/
def apeRun (o : CommonOpts) (P : Params) (ref est : Traj) : Except RunErr ApeResult :=
  (selectPairs o P ref est).bind fun sel =>
    (geometry o P (posesOf sel.1) (posesOf sel.2)).bind fun g =>
      (liftMetric (ape o.rel g.1 g.2)).bind fun vals =>
        (unitStep o.rel o.changeUnit).bind fun u =>
          .ok ⟨vals, u, idsOf sel.1, idsOf sel.2, stampsOf sel.2⟩

/-! ### evo_rpe -/

def dunitOf : DeltaUnit → Pairs.DUnit
  | .frames => .frames | .meters => .meters | .radians => .radians | .degrees => .degrees

/-- `RPE.__init__`: `delta ≥ 0`, integral for frames -/
def rpeCtorOk (δ : Rat) (u : DeltaUnit) : Bool :=
  decide (0 ≤ δ) && (u != .frames || δ.den == 1)

structure RpeRunResult where
  values : List (Core Rat)
  unit : Option UnitName
  /-- `delta_ids`: positions in the processed trajectories -/
  deltaIds : List Nat
  /-- per value: input indices of reference pose `i`, `j` and estimate pose `i`, `j` -/
  refPairIds : List (Nat × Nat)
  estPairIds : List (Nat × Nat)
  /-- `timestamps`: estimate stamps at the pair ends -/
  stamps : List Rat
deriving DecidableEq, Repr

def pickPair (ids : List Nat) (p : Nat × Nat) : Nat × Nat := (ids[p.1]?.getD 0, ids[p.2]?.getD 0)

/-- the pair selection on the processed trajectories: `RPE.__init__` checks, the length check of
`process_data`, `id_pairs_from_delta` on the reference or the estimate -/
def selectIdPairs (o : RpeOpts) (P : Params) (gr ge : List (Pose Rat)) : Except RunErr (List (Nat × Nat)) :=
  if !rpeCtorOk o.delta o.deltaUnit then .error .metrics
  else if gr.length ≠ ge.length then .error .metrics
  else
    let n := if o.pairsFromReference then gr.length else ge.length
    if P.pairs.steps.length + 1 ≠ n ∨ P.pairs.cang.length + 1 ≠ n then .error .badParams
    else
      match Pairs.idPairsFromDelta ⟨n, P.pairs.steps, P.pairs.cang, triAng n P.pairs.tri, P.pi⟩
              o.delta (dunitOf o.deltaUnit) o.deltaTol o.allPairs with
      | .error _ => .error .filter
      | .ok ps => .ok ps

/-- `evo_rpe`: the stored result for two input trajectories -/
def rpeRun (o : RpeOpts) (P : Params) (ref est : Traj) : Except RunErr RpeRunResult :=
  (selectPairs o.common P ref est).bind fun sel =>
    (geometry o.common P (posesOf sel.1) (posesOf sel.2)).bind fun g =>
      (selectIdPairs o P g.1 g.2).bind fun pairs =>
        (liftMetric (rpe o.common.rel pairs g.1 g.2)).bind fun res =>
          (unitStep o.common.rel o.common.changeUnit).bind fun u =>
            let kept := keptPairs o.common.rel g.1 pairs
            if res.values.isEmpty then .error .valueError else
            .ok ⟨res.values, u, res.deltaIds, kept.map (pickPair (idsOf sel.1)), kept.map (pickPair (idsOf sel.2)),
                 reduceIds (stampsOf sel.2) res.deltaIds⟩

/-! ### decision margins for the harness (float-vs-exact borderline filter; not verified) -/

def minR (a b : Rat) : Rat := if b < a then b else a

/-- motion filter: smallest non-zero distance of a compared quantity from its threshold -/
def motionMargin (pi d a : Rat) (mp : MotionPar) (n : Nat) : Rat :=
  let thr := Pairs.deg2rad pi a
  let accA := mp.acc.toArray
  let m1 := (List.range n).foldl (fun m i => (List.range i).foldl (fun m j =>
    let x := absR (accA.getD i 0 - accA.getD j 0 - d)
    let y := absR (triAng n mp.tri j i - thr)
    minR m (minR (if x = 0 then 1 else x) (if y = 0 then 1 else y))) m) 1
  m1

def pairMargin (o : RpeOpts) (P : Params) (n : Nat) : Rat :=
  let δ := o.delta
  match o.deltaUnit with
  | .frames => 1
  | .meters => if o.allPairs then Pairs.pathAllMargin (Pairs.accDist P.pairs.steps) δ (δ * o.deltaTol)
               else Pairs.reachMargin δ (0 :: P.pairs.steps) 0 Pairs.big
  | .radians => if o.allPairs then Pairs.angleAllMargin (triAng n P.pairs.tri) n δ (δ * o.deltaTol)
                else Pairs.reachMargin δ P.pairs.cang 0 Pairs.big
  | .degrees =>
      let δ' := Pairs.deg2rad P.pi δ
      if o.allPairs then Pairs.angleAllMargin (triAng n P.pairs.tri) n δ' (Pairs.deg2rad P.pi (δ * o.deltaTol))
      else Pairs.reachMargin δ' P.pairs.cang 0 Pairs.big

/-- smallest decision margin of the selection phase: motion-filter thresholds and the association
(nearest / second nearest, distance to `max_diff`) on the trajectories that reach those steps -/
def selectMargin (o : CommonOpts) (P : Params) (ref est : Traj) : Rat :=
  match stageDown o (tagTraj ref) (tagTraj est) with
  | .error _ => 1
  | .ok (r1, e1) =>
    let m1 := match o.motionFilter with
      | some (d, a) => minR (motionMargin P.pi d a P.mfRef r1.length) (motionMargin P.pi d a P.mfEst e1.length)
      | none => 1
    match stageMotion o P r1 e1 with
    | .error _ => m1
    | .ok (r2, e2) =>
      if o.hasStamps then
        match stageCrop o r2 with
        | .error _ => m1
        | .ok r3 =>
          let sr := stampsOf r3
          let se := stampsOf e2
          minR m1 (if se.length > sr.length then Sync.margin sr se o.tMaxDiff o.tOffset
                   else Sync.margin se sr o.tMaxDiff (-o.tOffset))
      else m1

/-! ### protocol -/

def readTraj (l : List String) : Option (Traj × List String) := do
  let (st, rest) ← readRatList l
  let (ps, rest) ← readPoseList rest
  some (⟨st, ps⟩, rest)

def pairUp : List Rat → List (Rat × Rat)
  | a :: b :: r => (a, b) :: pairUp r
  | _ => []

def readMotionPar (l : List String) : Option (MotionPar × List String) := do
  let (acc, rest) ← readRatList l
  let (tri, rest) ← readRatList rest
  some (⟨acc, tri.toArray⟩, rest)

/-- `pi  acc tri (ref)  acc tri (est)  R(9) t(3) s  dirsRef dirsEst  steps cang tri` -/
def readParams (l : List String) : Option (Params × List String) :=
  match l with
  | pi :: rest => do
      let pi ← parseRat? pi
      let (mr, rest) ← readMotionPar rest
      let (me, rest) ← readMotionPar rest
      let (u, rest) ← takeN 13 rest
      let u ← parseRats? u
      let R ← M3.ofList (u.take 9)
      let t ← V3.ofList ((u.drop 9).take 3)
      let sc ← (u.drop 12).head?
      let (dr, rest) ← readRatList rest
      let (de, rest) ← readRatList rest
      let (steps, rest) ← readRatList rest
      let (cang, rest) ← readRatList rest
      let (tri, rest) ← readRatList rest
      some (⟨pi, mr, me, R, t, sc, pairUp dr, pairUp de, ⟨steps, cang, tri.toArray⟩⟩, rest)
  | _ => none

def showErr : RunErr → String
  | .filter => "E:FilterException" | .traj => "E:TrajectoryException" | .sync => "E:SyncException"
  | .geometry => "E:GeometryException" | .metrics => "E:MetricsException" | .lie => "E:LieAlgebraException"
  | .badParams => "E:BAD-PARAMS" | .valueError => "E:ValueError" | .zeroDiv => "E:ZeroDivisionError"

def showUnit : Option UnitName → String
  | none => "-" | some u => u.toString

def showPairsN (l : List (Nat × Nat)) : String := " ".intercalate (l.map fun p => s!"{p.1}:{p.2}")

def showApeRun : Except RunErr ApeResult → String
  | .error e => showErr e
  | .ok r => "OK " ++ showUnit r.unit ++ " | " ++ showNats r.refIds ++ " | " ++ showNats r.estIds ++ " | "
      ++ showRats r.stamps ++ " | " ++ showCores r.values

def showRpeRun : Except RunErr RpeRunResult → String
  | .error e => showErr e
  | .ok r => "OK " ++ showUnit r.unit ++ " | " ++ showNats r.deltaIds ++ " | " ++ showPairsN r.refPairIds ++ " | "
      ++ showPairsN r.estPairIds ++ " | " ++ showRats r.stamps ++ " | " ++ showCores r.values

end Evo.Pipeline
