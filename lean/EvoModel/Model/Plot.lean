/-
Model of the data that `evo/tools/plot.py` hands to matplotlib: which coordinates of which
pose end up in which artist, in which order, and which strings label the axes.

Mirrors (code as it is now): `plot_mode_to_idx`, the label part of `prepare_axis`, `traj`,
`add_start_end_markers`, `colored_line_collection`, `traj_colormap` (segment ↔ colour value
pairing), `draw_coordinate_axes`, `draw_correspondence_edges`, `traj_xyz`, `traj_rpy`,
`speeds`, `error_array` (the plotted line).

List functions are polymorphic; where evo performs a float operation whose rounding is visible
in the artist data (`timestamps - start_timestamp`, `numpy.cumsum`) the model takes the rounding
function `rnd` as a parameter: the driver instantiates it with the verified binary64
round-to-nearest-even (`F64.rne!`), the theorems hold for every `rnd` (in particular `id`).
External numerics (Euler angles, speeds) enter as parameters.  No Mathlib.
-/
import EvoModel.Model.Lin
import EvoModel.Model.F64
namespace Evo.Plot

/-! ### plot modes, axis indices, labels -/

inductive PlotMode where
  | xy | xz | yx | yz | zx | zy | xyz
deriving DecidableEq, Repr

namespace PlotMode
def all : List PlotMode := [xy, xz, yx, yz, zx, zy, xyz]
def name : PlotMode → String
  | xy => "xy" | xz => "xz" | yx => "yx" | yz => "yz" | zx => "zx" | zy => "zy" | xyz => "xyz"
def ofName? (s : String) : Option PlotMode := all.find? (fun m => m.name == s)
/-- the six planar modes -/
def is2d (m : PlotMode) : Bool := m != xyz
end PlotMode
open PlotMode

/-- `plot_mode_to_idx`: the `if/elif` chain of the source, one arm per mode -/
def modeIdx : PlotMode → Nat × Nat × Option Nat
  | xy => (0, 1, none)
  | xyz => (0, 1, some 2)
  | xz => (0, 2, none)
  | yx => (1, 0, none)
  | yz => (1, 2, none)
  | zx => (2, 0, none)
  | zy => (2, 1, none)

/-- the letter naming coordinate `i` of a position -/
def axisLetter : Nat → String
  | 0 => "x"
  | 1 => "y"
  | _ => "z"

/-- `f"${letter}$ ({unit.value})"` -/
def lengthLabel (letter unit : String) : String := "$" ++ letter ++ "$ (" ++ unit ++ ")"

/-- `LENGTH_UNITS` as `Unit.value` strings -/
def lengthUnits : List String := ["mm", "cm", "m", "km"]

/-- x label of `prepare_axis`: the three-way `if` over sets of modes, as written in the source -/
def xLabel (m : PlotMode) (u : String) : String :=
  if m ∈ [xy, xz, xyz] then lengthLabel "x" u
  else if m ∈ [yz, yx] then lengthLabel "y" u
  else lengthLabel "z" u

def yLabel (m : PlotMode) (u : String) : String :=
  if m ∈ [xy, zy, xyz] then lengthLabel "y" u
  else if m ∈ [zx, yx] then lengthLabel "x" u
  else lengthLabel "z" u

def zLabel (m : PlotMode) (u : String) : Option String :=
  if m = xyz then some (lengthLabel "z" u) else none

/-- labels set by `prepare_axis`; `none` = `PlotException` (not a length unit) -/
def prepareAxisLabels (m : PlotMode) (u : String) : Option (String × String × Option String) :=
  if u ∈ lengthUnits then some (xLabel m u, yLabel m u, zLabel m u) else none

/-! ### coordinates of a position selected by a mode -/

section
variable {K : Type}

/-- `p[i]` for a position (rows of `positions_xyz`) -/
def coord (i : Nat) (p : V3 K) : K :=
  match i with
  | 0 => p.x
  | 1 => p.y
  | _ => p.z

/-- the 2 (or 3) plotted coordinates of a position -/
def point (m : PlotMode) (p : V3 K) : List K :=
  match modeIdx m with
  | (xi, yi, none) => [coord xi p, coord yi p]
  | (xi, yi, some zi) => [coord xi p, coord yi p, coord zi p]

/-- `traj()`: the line through all positions (`positions_xyz[:, idx]` column-wise = point-wise) -/
def trajLine (m : PlotMode) (pos : List (V3 K)) : List (List K) := pos.map (point m)

/-- `add_start_end_markers`: nothing for an empty trajectory, else first and last position -/
def startEnd (m : PlotMode) (pos : List (V3 K)) : Option (List K × List K) :=
  match pos.head?, pos.getLast? with
  | some s, some e => some (point m s, point m e)
  | _, _ => none

end

/-! ### slicing: `l[c::s]`, segments `zip(l[:-1:s], l[1::s])` -/

section
variable {α : Type}

/-- every `s`-th element, the first after skipping `c` elements (`l[c::s]`, `s ≥ 1`) -/
def strideGo (s : Nat) : Nat → List α → List α
  | _, [] => []
  | 0, x :: r => x :: strideGo s (s - 1) r
  | c + 1, _ :: r => strideGo s c r

/-- `l[::s]` -/
def stride (s : Nat) (l : List α) : List α := strideGo s 0 l

/-- `zip(l[:-1:step], l[1::step])`: the vertex pairs of `colored_line_collection` -/
def lineSegs (step : Nat) (l : List α) : List (α × α) :=
  List.zip (stride step l.dropLast) (stride step (l.drop 1))

/-- consecutive segments `k ↦ (l[k], l[k+1])` (`step = 1`) -/
def segments (l : List α) : List (α × α) := lineSegs 1 l

/-- disjoint pairs `k ↦ (l[2k], l[2k+1])` (`step = 2`) -/
def stridePairs (l : List α) : List (α × α) := lineSegs 2 l

/-- `a[0::2] = l1; a[1::2] = l2` -/
def interleave : List α → List α → List α
  | a :: as, b :: bs => a :: b :: interleave as bs
  | _, _ => []

end

section
variable {K : Type}

/-- `colored_line_collection(xyz, colors, plot_mode, step)`: `none` = `PlotException`
(`step > 1 and len(xyz) / step != len(colors)`, a true division); otherwise the segments, each as
its two plotted points. -/
def coloredLineCollection (m : PlotMode) (step ncolors : Nat) (xyz : List (V3 K)) :
    Option (List (List K × List K)) :=
  if step > 1 ∧ xyz.length ≠ step * ncolors then none
  else some ((lineSegs step xyz).map (fun s => (point m s.1, point m s.2)))

/-- `traj_colormap`: segment `k` (step 1) together with the value whose colour it gets;
`LineCollection(segs, colors=colors)` pairs them by index. -/
def colormapPairs (m : PlotMode) (pos : List (V3 K)) (array : List K) :
    List ((List K × List K) × K) :=
  List.zip ((segments pos).map (fun s => (point m s.1, point m s.2))) array

/-- the values whose colours the start / end marker get (`colors[0]`, `colors[-1]`) -/
def colormapMarkerValues (array : List K) : Option (K × K) :=
  match array.head?, array.getLast? with
  | some a, some b => some (a, b)
  | _, _ => none

/-- `draw_correspondence_edges`: `none` = `PlotException` (different numbers of poses) -/
def corrEdges (m : PlotMode) (pos1 pos2 : List (V3 K)) : Option (List (List K × List K)) :=
  if pos1.length ≠ pos2.length then none
  else coloredLineCollection m 2 pos1.length (interleave pos1 pos2)

end

/-! ### coordinate-frame markers -/

/-- `np.array([s,0,0,1])`, `[0,s,0,1]`, `[0,0,s,1]` without the homogeneous 1 -/
def unitVec (scale : Rat) : Nat → V3 Rat
  | 0 => ⟨scale, 0, 0⟩
  | 1 => ⟨0, scale, 0⟩
  | _ => ⟨0, 0, scale⟩

/-- `p.dot(unit_a)[:3]` -/
def axisTip (scale : Rat) (a : Nat) (p : Pose Rat) : V3 Rat :=
  V3.add (M3.mulVec p.rot (unitVec scale a)) p.t

/-- `[[p[:3,3], p.dot(unit_a)[:3]] for p in poses]`, flattened -/
def axisVertices (scale : Rat) (a : Nat) (poses : List (Pose Rat)) : List (V3 Rat) :=
  poses.flatMap (fun p => [p.t, axisTip scale a p])

/-- `np.concatenate((x_vertices, y_vertices, z_vertices)).reshape((n*2*3, 3))` -/
def coordAxesVertices (scale : Rat) (poses : List (Pose Rat)) : List (V3 Rat) :=
  axisVertices scale 0 poses ++ axisVertices scale 1 poses ++ axisVertices scale 2 poses

/-- index of the colour (0 = x_color, 1 = y_color, 2 = z_color) of segment `j`:
`n*[x_color] + n*[y_color] + n*[z_color]` -/
def axisColorIdx (n j : Nat) : Nat := j / n

/-- `draw_coordinate_axes`: outer `none` = nothing drawn (`marker_scale <= 0`), inner `none` =
`PlotException` of `colored_line_collection` -/
def coordAxes (m : PlotMode) (scale : Rat) (poses : List (Pose Rat)) :
    Option (Option (List (List Rat × List Rat))) :=
  if scale ≤ 0 then none
  else some (coloredLineCollection m 2 (3 * poses.length) (coordAxesVertices scale poses))

/-- column `a` of a rotation block -/
def colOf (r : M3 Rat) : Nat → V3 Rat
  | 0 => r.col0
  | 1 => r.col1
  | _ => r.col2

/-! ### time axis, per-axis series, speeds, error values -/

/-- `numpy.arange(0., n)` -/
def indexAxis (n : Nat) : List Rat := (List.range n).map (fun (i : Nat) => (i : Rat))

/-- x values of `traj_xyz` / `traj_rpy` / `speeds`: `timestamps - start` when a (truthy) start
time is given, the stamps themselves otherwise, `arange(0., n)` without timestamps -/
def timeAxis (rnd : Rat → Rat) (stamps : Option (List Rat)) (start : Option Rat) (n : Nat) : List Rat :=
  match stamps with
  | some ts =>
    match start with
    | some s => if s ≠ 0 then ts.map (fun t => rnd (t - s)) else ts
    | none => ts
  | none => indexAxis n

/-- x label of these plots -/
def timeLabel (stamps : Option (List Rat)) : String :=
  match stamps with
  | some _ => "$t$ (s)"
  | none => "index"

/-- `traj_xyz`: subplot `i` shows coordinate `i` against the time axis -/
def xyzSeries (rnd : Rat → Rat) (stamps : Option (List Rat)) (start : Option Rat)
    (pos : List (V3 Rat)) (i : Nat) : List Rat × List Rat :=
  (timeAxis rnd stamps start pos.length, pos.map (coord i))

/-- y labels of `traj_xyz`; `none` = `PlotException` -/
def xyzLabels (u : String) : Option (List String) :=
  if u ∈ lengthUnits then some [lengthLabel "x" u, lengthLabel "y" u, lengthLabel "z" u] else none

/-- `traj_rpy`: subplot `i` shows `conv(angles[:, i])` (`conv` = `numpy.rad2deg`, `angles` from
`get_orientations_euler`, one row per pose) against the time axis -/
def rpySeries (rnd : Rat → Rat) (conv : Rat → Rat) (stamps : Option (List Rat)) (start : Option Rat)
    (angles : List (V3 Rat)) (i : Nat) : List Rat × List Rat :=
  (timeAxis rnd stamps start angles.length, angles.map (fun a => conv (coord i a)))

def rpyLabels : List String := ["$roll$ (deg)", "$pitch$ (deg)", "$yaw$ (deg)"]

/-- `speeds`: `ax.plot(timestamps[1:], traj.speeds)`: value `i` at the stamp of the newer pose -/
def speedSeries (rnd : Rat → Rat) (stamps : List Rat) (start : Option Rat) (speeds : List Rat) :
    List Rat × List Rat :=
  ((timeAxis rnd (some stamps) start stamps.length).drop 1, speeds)

/-- rational core of `calc_speed` for consecutive poses: (‖p₂ − p₁‖², t₂ − t₁) -/
def speedCores : List (V3 Rat) → List Rat → List (Rat × Rat)
  | p1 :: p2 :: ps, t1 :: t2 :: ts => (V3.normSq (V3.sub p2 p1), t2 - t1) :: speedCores (p2 :: ps) (t2 :: ts)
  | _, _ => []

/-- `numpy.cumsum` (sequential, each partial sum rounded) -/
def cumsumGo (rnd : Rat → Rat) (acc : Rat) : List Rat → List Rat
  | [] => []
  | x :: r => let a := rnd (acc + x); a :: cumsumGo rnd a r

def cumsum (rnd : Rat → Rat) : List Rat → List Rat
  | [] => []
  | x :: r => x :: cumsumGo rnd x r

/-- the line of `error_array`: values (or their running sum) against `x_array`, or against the
index when no `x_array` is given (matplotlib's default x) -/
def errorSeries (rnd : Rat → Rat) (err : List Rat) (x : Option (List Rat)) (cumulative : Bool) :
    List Rat × List Rat :=
  let y := if cumulative then cumsum rnd err else err
  (x.getD (indexAxis y.length), y)

end Evo.Plot
