/-
Model of `PosePath3D.project(plane)` (evo/core/trajectory.py) and of the `sxyz` branch of
`transformations.euler_from_matrix` it uses.

    for pose in poses:  pose[null_dim, 3] = 0
                        φ = euler_from_matrix(pose[:3,:3], "sxyz")[null_dim]
                        pose[:3,:3] = so3_exp(axis(null_dim)·φ)

`euler_from_matrix(M, "sxyz")` with `cy = √(M₀₀² + M₁₀²)`:
    cy > _EPS :  ax = atan2(M₂₁, M₂₂)   ay = atan2(−M₂₀, cy)   az = atan2(M₁₀, M₀₀)
    otherwise :  ax = atan2(−M₁₂, M₁₁)  ay = atan2(−M₂₀, cy)   az = 0
and `so3_exp(e_k·φ)` is the rotation about `e_k` by `φ` (= `rodrigues e_k (sin φ) (1 − cos φ)`).

The angle itself is transcendental; only its *direction* matters: the new rotation block is
`rotAbout plane (cos φ) (sin φ)` where `(cos φ, sin φ)` is the unit vector in the direction
`(x, y)` handed to `atan2(y, x)`.  The model computes that direction exactly (`dirOf`; for the
XZ plane `x = cy` is a square root, so `x` is represented by its square and its sign) and takes
the normalised vector `(c, s)` as a *certified input*: `Dir.IsUnit d c s` is the exact statement
"`(c, s)` is the unit vector along `d`, and `(1, 0)` if `d = 0`" (`atan2(0, 0) = 0`).
`Dir.IsUnit` determines `(c, s)` uniquely (`Props/C14.lean: dir_unit_unique`).

Everything is generic in the field `K` (ℚ in the driver, ℝ in the theorems about headings);
`epsSq` is `_EPS²`, `_EPS = 4·2⁻⁵²`.  No Mathlib import.
-/
import EvoModel.Model.Lie
namespace Evo.Project

inductive Plane where
  | xy | xz | yz
deriving DecidableEq, Repr

/-- index of the coordinate normal to the plane (`null_dim`) -/
def Plane.nullDim : Plane → Nat
  | .xy => 2 | .xz => 1 | .yz => 0

/-- direction `(±√xsq, y)` handed to `atan2(y, x)`; `xneg`: the first component is negative -/
structure Dir (K : Type) where
  xsq : K
  xneg : Bool
  y : K
  /-- the gimbal branch `cy ≤ _EPS` of `euler_from_matrix` was taken -/
  gimbal : Bool
deriving DecidableEq, Repr

section
variable {K : Type} [Add K] [Mul K] [Sub K] [Neg K] [Zero K] [One K] [LT K] [LE K]
  [DecidableRel (fun a b : K => a < b)]

/-- unit normal of the plane (`rotation_axis`) -/
def Plane.axis (pl : Plane) : V3 K :=
  match pl with
  | .xy => ⟨0, 0, 1⟩ | .xz => ⟨0, 1, 0⟩ | .yz => ⟨1, 0, 0⟩

/-- `pose[null_dim, 3] = 0` -/
def zeroNormal (pl : Plane) (v : V3 K) : V3 K :=
  match pl with
  | .xy => ⟨v.x, v.y, 0⟩ | .xz => ⟨v.x, 0, v.z⟩ | .yz => ⟨0, v.y, v.z⟩

/-- the normal coordinate of a vector -/
def normalCoord (pl : Plane) (v : V3 K) : K :=
  match pl with
  | .xy => v.z | .xz => v.y | .yz => v.x

/-- the two in-plane coordinates of a vector -/
def inPlane (pl : Plane) (v : V3 K) : K × K :=
  match pl with
  | .xy => (v.x, v.y) | .xz => (v.x, v.z) | .yz => (v.y, v.z)

/-- `so3_exp(axis·φ)` for `(c, s) = (cos φ, sin φ)`: rotation about the plane normal -/
def rotAbout (pl : Plane) (c s : K) : M3 K :=
  match pl with
  | .xy => ⟨c, -s, 0, s, c, 0, 0, 0, 1⟩
  | .xz => ⟨c, 0, s, 0, 1, 0, -s, 0, c⟩
  | .yz => ⟨1, 0, 0, 0, c, -s, 0, s, c⟩

/-- the `atan2` arguments of the Euler angle about the plane normal (`sxyz` convention) -/
def dirOf (epsSq : K) (pl : Plane) (m : M3 K) : Dir K :=
  let cy2 := m.a00 * m.a00 + m.a10 * m.a10
  let regular : Bool := decide (epsSq < cy2)          -- `cy > _EPS`
  match pl with
  | .xy => if regular then ⟨m.a00 * m.a00, decide (m.a00 < 0), m.a10, false⟩ else ⟨1, false, 0, true⟩
  | .xz => ⟨cy2, false, -m.a20, !regular⟩
  | .yz => if regular then ⟨m.a22 * m.a22, decide (m.a22 < 0), m.a21, false⟩
           else ⟨m.a11 * m.a11, decide (m.a11 < 0), -m.a12, true⟩

/-- `(c, s) = (cos φ, sin φ)` for `φ = atan2(y, x)`, `x = ±√xsq`: the unit vector along `(x, y)`
(squares proportional, signs equal), and `(1, 0)` for the zero direction -/
def Dir.IsUnit (d : Dir K) (c s : K) : Prop :=
  c * c + s * s = 1 ∧
  c * c * (d.xsq + d.y * d.y) = d.xsq ∧
  (if d.xneg then c ≤ 0 else 0 ≤ c) ∧
  0 ≤ s * d.y ∧
  (d.xsq + d.y * d.y = 0 → c = 1 ∧ s = 0)

/-- the projected pose: normal coordinate zeroed, rotation replaced by the rotation about the normal -/
def projectPose (pl : Plane) (p : Pose K) (c s : K) : Pose K := ⟨rotAbout pl c s, zeroNormal pl p.t⟩

/-- a path/trajectory as far as `project` is concerned: stamps (empty for a `PosePath3D`), poses,
and the one-shot flag `_projected` -/
structure Traj (K : Type) where
  stamps : List K
  poses : List (Pose K)
  projected : Bool

/-- `(c, s)` certificates, one per pose, are the normalised Euler directions -/
def AnglesOk (epsSq : K) (pl : Plane) : List (Pose K) → List (K × K) → Prop
  | [], [] => True
  | p :: ps, cs :: css => (dirOf epsSq pl p.rot).IsUnit cs.1 cs.2 ∧ AnglesOk epsSq pl ps css
  | _, _ => False

def projectPoses (pl : Plane) : List (Pose K) → List (K × K) → List (Pose K)
  | p :: ps, cs :: css => projectPose pl p cs.1 cs.2 :: projectPoses pl ps css
  | _, _ => []

/-- `project(plane)`: refused (`none`, evo raises `TrajectoryException`) when the flag is set -/
def project (pl : Plane) (tr : Traj K) (ang : List (K × K)) : Option (Traj K) :=
  if tr.projected then none else some ⟨tr.stamps, projectPoses pl tr.poses ang, true⟩

end

/-- `_EPS²` for `_EPS = numpy.finfo(float).eps * 4 = 2⁻⁵⁰` -/
def epsSqRat : Rat := 1 / (2 ^ 100 : Nat)

/-- distance of the gimbal test from flipping, relative to `_EPS²` -/
def gimbalMargin (m : M3 Rat) : Rat := absR ((m.a00 * m.a00 + m.a10 * m.a10) / epsSqRat - 1)

instance (d : Dir Rat) (c s : Rat) : Decidable (d.IsUnit c s) := by
  unfold Dir.IsUnit; exact inferInstance

/-- a sequence of `project` calls on one object: which are carried out (`true`), which refused -/
def history (tr : Traj Rat) : List Plane → List Bool
  | [] => []
  | pl :: rest =>
      match project pl tr (tr.poses.map fun _ => ((1 : Rat), (0 : Rat))) with
      | none => false :: history tr rest
      | some tr' => true :: history tr' rest

end Evo.Project
