/-
C13 — model of `evo/core/result.py: merge_results` (as repaired by fix c19f14b: the merge
strategy compares the array sizes *per key*), of the pinned strategy (sizes in dict insertion
order, finding F10), and of the statistics table of `evo_res`
(`evo/tools/pandas_bridge.py: result_to_df / load_results_as_dataframe`, `evo/main_res.py: run`).

A Python dict is an association list in insertion order with distinct keys; arrays are the
flat value lists (`ndarray.size` = length, `np.append` flattens). No Mathlib import.
-/
import EvoModel.Model.Basic
namespace Evo.ResultMerge
open Evo

abbrev Dict (α : Type) := List (String × α)

def keys {α} (d : Dict α) : List String := d.map Prod.fst

def lookup {α} (d : Dict α) (k : String) : Option α :=
  match d with
  | [] => none
  | (k', v) :: r => if k' = k then some v else lookup r k

/-- `a.keys() == b.keys()`: dict key views compare as sets -/
def keysEq (a b : List String) : Bool := a.all (fun k => b.contains k) && b.all (fun k => a.contains k)

structure Res where
  info : Dict String
  stats : Dict Rat
  arrays : Dict (List Rat)
deriving DecidableEq, Repr

inductive Err where
  | noResults      -- ValueError("no results to merge")
  | keyMismatch    -- ResultException("can't merge results with non-matching keys")
  | broadcast      -- numpy ValueError: operands could not be broadcast together (pinned code only)
  | duplicateLabels -- evo_res: "Values of 'est_name' must be unique", exit 1
deriving DecidableEq, Repr

/-- `all(p(a, b) for a, b in zip(l, l[1:]))` -/
def adjAll {α} (p : α → α → Bool) : List α → Bool
  | a :: b :: r => p a b && adjAll p (b :: r)
  | _ => true

def arr (r : Res) (k : String) : List Rat := (lookup r.arrays k).getD []
def stat (r : Res) (k : String) : Rat := (lookup r.stats k).getD 0

/-- `[r.np_arrays[key].size for key in array_keys]` -/
def sizes (ks : List String) (r : Res) : List Nat := ks.map fun k => (arr r k).length

/-- `[a.size for a in r.np_arrays.values()]` (pinned code) -/
def sizesOld (r : Res) : List Nat := r.arrays.map fun p => p.2.length

def addL : List Rat → List Rat → List Rat
  | x :: a, y :: b => (x + y) :: addL a b
  | _, _ => []

def addStats (m : Dict Rat) (r : Res) : Dict Rat := m.map fun p => (p.1, p.2 + stat r p.1)

def addArrays (avg : Bool) (m : Dict (List Rat)) (r : Res) : Dict (List Rat) :=
  m.map fun p => (p.1, if avg then addL p.2 (arr r p.1) else p.2 ++ arr r p.1)

def keysOk (rs : List Res) : Bool :=
  adjAll (fun a b => keysEq (keys a.arrays) (keys b.arrays)) rs &&
  adjAll (fun a b => keysEq (keys a.stats) (keys b.stats)) rs

/-- the strategy of the repaired code: average iff all results have the same size list,
sizes listed in the order of the first result's array keys -/
def average (rs : List Res) : Bool :=
  match rs with
  | [] => true
  | first :: _ => adjAll (fun a b => sizes (keys first.arrays) a == sizes (keys first.arrays) b) rs

/-- sum (or append), then divide, starting from a copy of the first result -/
def combine (avg : Bool) (first : Res) (rest : List Res) : Res :=
  let n : Rat := ((rest.length + 1 : Nat) : Rat)
  let stats := rest.foldl addStats first.stats
  let arrays := rest.foldl (addArrays avg) first.arrays
  { info := first.info
    stats := stats.map fun p => (p.1, p.2 / n)
    arrays := if avg then arrays.map fun p => (p.1, p.2.map fun x => x / n) else arrays }

/-- `merge_results` -/
def mergeResults (rs : List Res) : Except Err Res :=
  match rs with
  | [] => .error .noResults
  | [r] => .ok r
  | first :: rest =>
    if !keysOk rs then .error .keyMismatch
    else .ok (combine (average rs) first rest)

/-! ### the pinned code (before fix c19f14b), for the F10 counterexample -/

def averageOld (rs : List Res) : Bool := adjAll (fun a b => sizesOld a == sizesOld b) rs

/-- `np.add` of two flat arrays: element-wise for equal sizes, broadcasting a single element,
otherwise a `ValueError` -/
def npAdd (a b : List Rat) : Option (List Rat) :=
  if a.length = b.length then some (addL a b)
  else match a, b with
    | [x], _ => some (b.map fun y => x + y)
    | _, [y] => some (a.map fun x => x + y)
    | _, _ => none

def addArraysOld : Dict (List Rat) → Res → Option (Dict (List Rat))
  | [], _ => some []
  | p :: m, r =>
    match npAdd p.2 (arr r p.1), addArraysOld m r with
    | some s, some t => some ((p.1, s) :: t)
    | _, _ => none

def foldArraysOld : List Res → Dict (List Rat) → Option (Dict (List Rat))
  | [], d => some d
  | r :: rest, d =>
    match addArraysOld d r with
    | some d' => foldArraysOld rest d'
    | none => none

def mergeResultsOld (rs : List Res) : Except Err Res :=
  match rs with
  | [] => .error .noResults
  | [r] => .ok r
  | first :: rest =>
    if !keysOk rs then .error .keyMismatch
    else if averageOld rs then
      let n : Rat := ((rest.length + 1 : Nat) : Rat)
      match foldArraysOld rest first.arrays with
      | none => .error .broadcast
      | some arrays =>
        .ok { info := first.info
              stats := (rest.foldl addStats first.stats).map fun p => (p.1, p.2 / n)
              arrays := arrays.map fun p => (p.1, p.2.map fun x => x / n) }
    else .ok (combine false first rest)

/-! ### the table of `evo_res` -/

/-- the part of a path after its last `/` (all of it when there is none) -/
def lastSeg : List Char → List Char
  | [] => []
  | c :: r => if '/' ∈ r then lastSeg r else (if c = '/' then r else c :: r)

/-- `os.path.basename` (POSIX): `p[p.rfind('/') + 1:]` -/
def basename (s : String) : String := String.ofList (lastSeg s.toList)

/-- the column label `result_to_df` uses -/
def labelOf (label : Option String) (r : Res) : String :=
  match label with
  | some l => l
  | none => match lookup r.info "est_name" with
    | some e => basename e
    | none => "unnamed_result"

/-- one row per result: label and the statistics listed under it -/
abbrev Table := List (String × Dict Rat)

def hasDup : List String → Bool
  | [] => false
  | x :: r => r.contains x || hasDup r

/-- one row per file, in command-line order -/
def rowsOf (files : List (String × Res)) (useFilenames : Bool) : Table :=
  files.map fun p => (labelOf (if useFilenames then some p.1 else none) p.2, p.2.stats)

/-- `load_results_as_dataframe` + the duplicate check of `run` + `df.loc["stats"]`;
`files` = (file name, loaded result) in command-line order -/
def resultTable (files : List (String × Res)) (useFilenames merge : Bool) : Except Err Table :=
  if merge then
    match mergeResults (files.map Prod.snd) with
    | .error e => .error e
    | .ok m => .ok [(labelOf none m, m.stats)]
  else if hasDup ((rowsOf files useFilenames).map Prod.fst) then .error .duplicateLabels
  else .ok (rowsOf files useFilenames)

end Evo.ResultMerge
