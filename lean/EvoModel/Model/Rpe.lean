/-
Relative pose error (`evo/core/metrics.py`: `RPE.rpe_base`, `RPE.process_data`) and the
option → step logic of `evo_rpe` (`evo/main_rpe.py`).

The pair selection (`id_pairs_from_delta`, `evo/core/filters.py`) is property C10 and not part of
this model: `rpe` takes the list of index pairs as an argument, the harness passes evo's own
`id_pairs_from_delta` output.
-/
import EvoModel.Model.Ape
namespace Evo

section
variable {K : Type} [Add K] [Mul K] [Sub K] [Neg K] [Zero K] [One K] [Div K]

/-- `RPE.rpe_base(Q_i, Q_j, P_i, P_j)`:
`relative_se3(relative_se3(Q_i, Q_j), relative_se3(P_i, P_j))` -/
def rpeBase (Qi Qj Pi Pj : Pose K) : Pose K := Pose.rel (Pose.rel Qi Qj) (Pose.rel Pi Pj)

/-- squared reference distance of a pair: `‖q_i − q_j‖²` -/
def refDistSq (Qi Qj : Pose K) : K := V3.normSq (V3.sub Qi.t Qj.t)

/-- error core of one pair `(i, j)`: the point-distance relations on the positions
(`norm(positions[i] − positions[j])` of reference and estimate), everything else on
`E = rpe_base(Q_i, Q_j, P_i, P_j)`. -/
def rpeCore (rel : PoseRelation) (Qi Qj Pi Pj : Pose K) : Core K :=
  match rel with
  | .pointDist => .sqrtDiff (refDistSq Qi Qj) (refDistSq Pi Pj)
  | .ratio => .sqrtRatio (refDistSq Qi Qj) (refDistSq Pi Pj)
  | r => reduceE r (rpeBase Qi Qj Pi Pj)
end

/-- the four poses of a pair, `none` when an index is out of range -/
def pairPoses (ref est : List (Pose Rat)) (p : Nat × Nat) :
    Option (Pose Rat × Pose Rat × Pose Rat × Pose Rat) :=
  match ref[p.1]?, ref[p.2]?, est[p.1]?, est[p.2]? with
  | some qi, some qj, some pi, some pj => some (qi, qj, pi, pj)
  | _, _, _, _ => none

def pairCore (rel : PoseRelation) (ref est : List (Pose Rat)) (p : Nat × Nat) : Option (Core Rat) :=
  (pairPoses ref est p).map fun (qi, qj, pi, pj) => rpeCore rel qi qj pi pj

/-- pairs that survive: all of them, except for the ratio relation where pairs with reference
distance zero are dropped (`ref_distances.nonzero()`) -/
def keptPairs (rel : PoseRelation) (ref : List (Pose Rat)) (pairs : List (Nat × Nat)) : List (Nat × Nat) :=
  if rel = .ratio then
    pairs.filter fun p => match ref[p.1]?, ref[p.2]? with
      | some qi, some qj => decide (refDistSq qi qj ≠ 0)
      | _, _ => true
  else pairs

def rpeRots (ref est : List (Pose Rat)) (pairs : List (Nat × Nat)) : List (M3 Rat) :=
  pairs.filterMap fun p => (pairPoses ref est p).map fun (qi, qj, pi, pj) => (rpeBase qi qj pi pj).rot

structure RpeResult where
  /-- `RPE.error` (rational cores) -/
  values : List (Core Rat)
  /-- `RPE.delta_ids` -/
  deltaIds : List Nat
deriving DecidableEq, Repr

/-- `RPE(rel, …).process_data((traj_ref, traj_est))` with `id_pairs` given → (`error`, `delta_ids`) -/
def rpe (rel : PoseRelation) (pairs : List (Nat × Nat)) (ref est : List (Pose Rat)) :
    Except MetricErr RpeResult :=
  if ref.length ≠ est.length then .error .unequal
  else if pairs.any (fun p => decide (ref.length ≤ p.1) || decide (ref.length ≤ p.2)) then .error .badIndex
  else if rel.isAngle = true ∧ (rpeRots ref est pairs).all isSo3Approx = false then .error .notSO3
  else
    let kept := keptPairs rel ref pairs
    .ok ⟨kept.filterMap (pairCore rel ref est), kept.map Prod.snd⟩

/-! ### evo_rpe -/

structure RpeOpts where
  common : CommonOpts
  delta : Rat
  deltaUnit : DeltaUnit
  deltaTol : Rat
  allPairs : Bool
  pairsFromReference : Bool
deriving Repr

/-- the steps `evo_rpe` performs between loading and saving: as `evo_ape`, with the RPE metric,
and the stored trajectories / timestamps reduced to pose 0 and the pair ends -/
def rpePlan (o : RpeOpts) : Except PlanErr (List Step) :=
  match prePlan o.common with
  | .error e => .error e
  | .ok pre => .ok (pre ++ [.metricRpe o.common.rel o.delta o.deltaUnit o.deltaTol o.allPairs o.pairsFromReference]
                    ++ unitPart o.common ++ [.reduceToFirstAndPairEnds])

/-- protocol: pairs as `k i1 j1 … ik jk` -/
def readPairs (l : List String) : Option (List (Nat × Nat) × List String) := do
  let (xs, rest) ← readNatList l
  let rec go : List Nat → Option (List (Nat × Nat))
    | [] => some []
    | i :: j :: r => (go r).map ((i, j) :: ·)
    | _ => none
  let ps ← go xs
  some (ps, rest)

def readRpeOpts' (c : CommonOpts) (rest : List String) : Option RpeOpts :=
  match rest with
  | [d, u, t, a, f] => do
      let d ← parseRat? d
      let u ← DeltaUnit.ofString? u
      let t ← parseRat? t
      let a ← bool? a
      let f ← bool? f
      some ⟨c, d, u, t, a, f⟩
  | _ => none

def readRpeOpts (l : List String) : Option RpeOpts := do
  let (c, rest) ← readCommonOpts l
  readRpeOpts' c rest

end Evo
