/-
Model of the pose-selection operations of `evo/core/trajectory.py` and `evo/core/filters.py`
(C11): `downsample` (numpy.linspace(0, n-1, N, dtype=int) *with its float rounding*),
`motion_filter` / `filter_by_motion`, `reduce_to_time_range`, `_jumps`, the three splitters and
`merge`.  Mathlib-free and executable: the driver `drv_C11` runs these definitions.

Numbers that are irrational in general (step lengths `‖p_{k+1} − p_k‖`, rotation angles) enter
as rationals: the harness computes them exactly on exact grids (3-4-5 steps, quarter turns) and in
high precision, with a margin filter, on random inputs.
-/
import EvoModel.Model.Basic
import EvoModel.Model.F64
namespace Evo.Select

inductive Err | traj | filter deriving Repr, DecidableEq

/-! ### down-sampling -/

/-- `floor` of a non-negative rational as a natural number (`y.astype(int)` after `floor`) -/
def floorNat (x : Rat) : Nat := x.floor.toNat

/-- `numpy.linspace(0, n-1, N, dtype=int)` for `n ≥ 1`, all float operations rounded by `r`:
`step = r((n-1)/(N-1))`, `y[k] = r(k·step)`, `y[N-1] = n-1`, then `floor`.
(`start = 0`: the subtraction `stop − start` and the addition `y += start` are exact.) -/
def linspaceIdsWith (r : Rat → Rat) (n N : Nat) : List Nat :=
  if N = 0 then [] else if N = 1 then [0] else
  let step := r (((n - 1 : Nat) : Rat) / ((N - 1 : Nat) : Rat))
  (List.range (N - 1)).map (fun (k : Nat) => floorNat (r ((k : Rat) * step))) ++ [n - 1]

/-- the ids evo computes: binary64 round-to-nearest-even -/
def linspaceIds (n N : Nat) : List Nat := linspaceIdsWith F64.rne! n N

/-- `PosePath3D.downsample` (ids only): `none` = returned without touching the trajectory -/
def downsampleIdsWith (r : Rat → Rat) (n N : Nat) : Except Err (Option (List Nat)) :=
  if n ≤ N then .ok none
  else if N < 1 then .error .traj
  else .ok (some (linspaceIdsWith r n N))

def downsampleWith {α} (r : Rat → Rat) (l : List α) (N : Nat) : Except Err (List α) :=
  match downsampleIdsWith r l.length N with
  | .error e => .error e
  | .ok none => .ok l
  | .ok (some ids) => .ok (reduceIds l ids)

/-- evo: float64 rounding -/
def downsampleIds (n N : Nat) : Except Err (Option (List Nat)) := downsampleIdsWith F64.rne! n N

def downsample {α} (l : List α) (N : Nat) : Except Err (List α) := downsampleWith F64.rne! l N

/-! ### accumulated distances, adjacent differences -/

def accFrom (a : Rat) : List Rat → List Rat
  | [] => [a]
  | s :: r => a :: accFrom (a + s) r

/-- `geometry.accumulated_distances` from the step lengths: `[0, l₀, l₀+l₁, …]` -/
def accDist (lens : List Rat) : List Rat := accFrom 0 lens

/-- `x[1:] - x[:-1]` -/
def adjDiffs : List Rat → List Rat
  | a :: b :: r => (b - a) :: adjDiffs (b :: r)
  | _ => []

/-! ### motion filter -/

/-- the loop of `filter_by_motion` from index `i` on; `pid`/`pd` = `previous_angle_id`,
`previous_distance`; the angle is only evaluated when the distance test fails -/
def motionGo (ang : Nat → Nat → Rat) (d a : Rat) : List Rat → Nat → Nat → Rat → List Nat
  | [], _, _, _ => []
  | di :: r, i, pid, pd =>
      if d ≤ di - pd then i :: motionGo ang d a r (i + 1) i di
      else if a ≤ ang pid i then i :: motionGo ang d a r (i + 1) i di
      else motionGo ang d a r (i + 1) pid pd

/-- `filter_by_motion` on the accumulated distances `acc` (one entry per pose) and the angle
`ang j i` between the rotations of poses `j` and `i` -/
def motionFilterAcc (acc : List Rat) (ang : Nat → Nat → Rat) (d a : Rat) : Except Err (List Nat) :=
  if acc.length < 2 then .error .filter
  else if d < 0 then .error .filter
  else if a < 0 then .error .filter
  else .ok (0 :: motionGo ang d a acc.tail 1 0 0)

/-- `filter_by_motion` from the step lengths (`lens.length + 1` poses) in the formulation the code had before F18:
the distance test takes differences of accumulated distances. Over the rationals it is the same function as
`motionFilterSteps` (`Props/C11.motionFilter_steps_formulation_agrees`). -/
def motionFilter (lens : List Rat) (ang : Nat → Nat → Rat) (d a : Rat) : Except Err (List Nat) :=
  motionFilterAcc (accDist lens) ang d a

/-- the loop of `filter_by_motion` since the repair of F18: `cur` = path length accumulated since the last kept pose
(reset to 0 whenever a pose is kept); the angle is only evaluated when the distance test fails -/
def motionGoSteps (ang : Nat → Nat → Rat) (d a : Rat) : List Rat → Nat → Nat → Rat → List Nat
  | [], _, _, _ => []
  | l :: r, i, pid, cur =>
      if d ≤ cur + l then i :: motionGoSteps ang d a r (i + 1) i 0
      else if a ≤ ang pid i then i :: motionGoSteps ang d a r (i + 1) i 0
      else motionGoSteps ang d a r (i + 1) pid (cur + l)

/-- `filter_by_motion` from the step lengths (`lens.length + 1` poses), as the code reads since F18 -/
def motionFilterSteps (lens : List Rat) (ang : Nat → Nat → Rat) (d a : Rat) : Except Err (List Nat) :=
  if lens.length + 1 < 2 then .error .filter
  else if d < 0 then .error .filter
  else if a < 0 then .error .filter
  else .ok (0 :: motionGoSteps ang d a lens 1 0 0)

/-! ### `numpy.where` on a list -/

/-- indices (offset by `k`) of the elements satisfying `p`, increasing -/
def idsWhere (p : Rat → Bool) : List Rat → Nat → List Nat
  | [], _ => []
  | x :: r, k => if p x then k :: idsWhere p r (k + 1) else idsWhere p r (k + 1)

/-! ### time cropping -/

/-- `reduce_to_time_range(start, end)` (`none` = argument `None`) -/
def cropIds (ts : List Rat) (s e : Option Rat) : Except Err (List Nat) :=
  match ts with
  | [] => .error .traj
  | t0 :: _ =>
    let s' := s.getD t0
    let e' := e.getD (ts.getLastD t0)
    if e' < s' then .error .traj
    else .ok (idsWhere (fun t => decide (s' ≤ t) && decide (t ≤ e')) ts 0)

def crop {α} (tr : List (Rat × α)) (s e : Option Rat) : Except Err (List (Rat × α)) :=
  match cropIds (tr.map Prod.fst) s e with
  | .error x => .error x
  | .ok ids => .ok (reduceIds tr ids)

/-! ### splitting -/

/-- `_jumps` / the `gaps` / `jumps` arrays of the splitters: `[0] ++ (where(steps > thr) + 1) ++ [n]`
(`[0, n]` when no step exceeds the threshold) -/
def cutsOf (thr : Rat) (steps : List Rat) (n : Nat) : List Nat :=
  0 :: ((idsWhere (fun s => decide (thr < s)) steps 0).map (· + 1) ++ [n])

/-- python slice `l[a:b]` -/
def slice {α} (l : List α) (a b : Nat) : List α := (l.take b).drop a

/-- `[l[c[i]:c[i+1]] for i in range(len(c) - 1)]` -/
def slices {α} (l : List α) : List Nat → List (List α)
  | a :: b :: r => slice l a b :: slices l (b :: r)
  | _ => []

/-- `split_time_gaps(dt)` on the stamps -/
def splitTimeCuts (ts : List Rat) (dt : Rat) : List Nat := cutsOf dt (adjDiffs ts) ts.length

/-- `split_distance_gaps(dist)`: `_jumps` thresholds the lengths of the steps between consecutive positions
(since the repair of F17; before it, the differences of the accumulated distances: `splitDistCutsAcc`) -/
def splitDistCuts (lens : List Rat) (thr : Rat) : List Nat :=
  cutsOf thr lens (lens.length + 1)

/-- the formulation `_jumps` had before F17: `where(distances[1:] - distances[:-1] > dist)`. Over the rationals it is
the same function (`Props/C11.splitDist_acc_formulation_agrees`); in float64 the accumulated length cannot resolve a
short step after a long leg, which is what F17 was. -/
def splitDistCutsAcc (lens : List Rat) (thr : Rat) : List Nat :=
  cutsOf thr (adjDiffs (accDist lens)) (lens.length + 1)

/-- `speeds`: `calc_speed` raises on a non-positive time step -/
def speedsGo : List Rat → List Rat → Except Err (List Rat)
  | l :: ls, dt :: dts =>
      if dt ≤ 0 then .error .traj
      else match speedsGo ls dts with
        | .error e => .error e
        | .ok r => .ok (l / dt :: r)
  | _, _ => .ok []

def speeds (lens ts : List Rat) : Except Err (List Rat) := speedsGo lens (adjDiffs ts)

/-- `split_speed_outliers(v_max)` -/
def splitSpeedCuts (lens ts : List Rat) (vmax : Rat) : Except Err (List Nat) :=
  if ts.length < 2 then .ok [0, ts.length] else
  match speeds lens ts with
  | .error e => .error e
  | .ok v => .ok (cutsOf vmax v ts.length)

/-! ### merging -/

/-- stable `argsort` -/
def argsortStable (s : List Rat) : List Nat :=
  (s.zipIdx.mergeSort (fun a b => decide (a.1 ≤ b.1))).map (·.2)

/-- a trajectory as the three parallel arrays evo keeps -/
structure Traj (P Q : Type) where
  stamps : List Rat
  xyz : List P
  quat : List Q

def concatTraj {P Q} (ts : List (Traj P Q)) : Traj P Q :=
  ⟨(ts.map (·.stamps)).flatten, (ts.map (·.xyz)).flatten, (ts.map (·.quat)).flatten⟩

/-- `trajectory.merge`: concatenate, `order = stamps.argsort()`, apply `order` to all three arrays -/
def mergeTraj {P Q} (ts : List (Traj P Q)) : Traj P Q :=
  let c := concatTraj ts
  let order := argsortStable c.stamps
  ⟨reduceIds c.stamps order, reduceIds c.xyz order, reduceIds c.quat order⟩

end Evo.Select
