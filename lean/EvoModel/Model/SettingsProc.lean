/-
C19 — the routines of evo/tools/settings.py and evo/main_config.py that touch `~/.evo/`, as
*programs of atomic file-system steps, exactly as the code issues them* (trace correspondence in
harness/props/C19.py), and the interleaving / crash semantics.

A program is a tree of steps (branches = the `exists()` tests and the version comparison).
A process = remaining program + registers; a *run* is a list of scheduling events `(pid, tear)`:
process `pid` performs its next step (`tear` = a `write` puts only a proper prefix on disk first).
A process that is never scheduled again has crashed (`kill -9`) at that point, so quantifying over
all finite runs covers every crash point and every interleaving of any number of processes.
Process ids are the positions in the process list: temp names `<target>.<pid>.tmp` are private.

`start`, `resetAll`, `resetSubset`, `setConfig`, `mergeUnion` mirror the code after fix 703b53e;
`Old.*` mirror the pinned code before it (truncate-then-write in place, `mkdir()` w/o exist_ok).
-/
import EvoModel.Model.FS
namespace Evo.FS

/-- how an instruction names a file: a shared target or the temp file of the executing process -/
inductive PRef | target (t : Tgt) | myTmp (t : Tgt)
  deriving DecidableEq, Repr

def PRef.path (pid : Nat) : PRef → Path
  | .target t => .file t
  | .myTmp t => .tmp t pid

/-- registers a settings document can be read into -/
inductive Reg | rd | loaded | scratch
  deriving DecidableEq, Repr

/-- what a `write` writes -/
inductive Src
  | version                                  -- `__version__`
  | defaults                                 -- `json.dumps(DEFAULT_SETTINGS_DICT)`
  | upgraded                                 -- `json.dumps(merge_dicts(old, DEFAULT, soft=True))`
  | edit (name : String) (f : Doc → Doc)     -- `json.dumps(f(document read before))`

inductive Prog
  | done
  | mkdirOk (k : Prog)                       -- `Path.mkdir(exist_ok=True)`
  | mkdirStrict (k : Prog)                   -- `Path.mkdir()`: FileExistsError if present
  | ifDir (yes no : Prog)                    -- `USER_ASSETS_PATH.exists()`
  | ifExists (t : Tgt) (yes no : Prog)       -- `path.exists()`
  | openW (p : PRef) (k : Prog)              -- `open(p, 'w')`: create or truncate
  | write (p : PRef) (s : Src) (k : Prog)    -- `f.write(text)` (may be torn)
  | writeRest (p : PRef) (s : Src) (k : Prog)  -- second half of a torn write
  | close (p : PRef) (k : Prog)
  | replace (t : Tgt) (k : Prog)             -- `os.replace(tmp(t, pid), t)`
  | readVer (cur other : Prog)               -- `open(V).read() == __version__`
  | readDoc (r : Reg) (k : Prog)             -- `json.load(open(S))`

structure Regs where
  rd : Option Doc := none
  loaded : Option Doc := none

structure Proc where
  prog : Prog
  regs : Regs := {}
  failed : Bool := false

def Regs.put (r : Regs) : Reg → Doc → Regs
  | .rd, d => { r with rd := some d }
  | .loaded, d => { r with loaded := some d }
  | .scratch, _ => r

/-- soft merge of the defaults into a document (`merge_dicts(old, DEFAULT, soft=True)`), on key sets -/
def upgrade (d : Doc) : Doc := d ++ Evo.Gen.defaultKeys.filter (fun k => !d.contains k)

def Src.text (r : Regs) : Src → Option Text
  | .version => some (.ver current)
  | .defaults => some (.doc Evo.Gen.defaultKeys)
  | .upgraded => r.rd.map (fun d => .doc (upgrade d))
  | .edit _ f => r.rd.map (fun d => .doc (f d))

def Proc.fail (p : Proc) : Proc := { p with failed := true }

/-- one step of process `pid` -/
def step (pid : Nat) (tear : Bool) (p : Proc) (fs : FS) : Proc × FS :=
  if p.failed then (p, fs) else
  match p.prog with
  | .done => (p, fs)
  | .mkdirOk k => ({ p with prog := k }, { fs with dir := true })
  | .mkdirStrict k => if fs.dir then (p.fail, fs) else ({ p with prog := k }, { fs with dir := true })
  | .ifDir y n => ({ p with prog := if fs.dir then y else n }, fs)
  | .ifExists t y n => ({ p with prog := if fs.file (.file t) = .absent then n else y }, fs)
  | .openW r k => if fs.dir then ({ p with prog := k }, fs.set (r.path pid) .empty) else (p.fail, fs)
  | .write r s k =>
      match s.text p.regs with
      | none => (p.fail, fs)
      | some t =>
        match fs.file (r.path pid) with
        | .empty => if tear then ({ p with prog := .writeRest r s k }, fs.set (r.path pid) .torn)
                    else ({ p with prog := k }, fs.set (r.path pid) (.full t))
        | _ => ({ p with prog := k }, fs.set (r.path pid) .garbage)
  | .writeRest r s k =>
      match s.text p.regs with
      | none => (p.fail, fs)
      | some t =>
        match fs.file (r.path pid) with
        | .torn => ({ p with prog := k }, fs.set (r.path pid) (.full t))
        | _ => ({ p with prog := k }, fs.set (r.path pid) .garbage)
  | .close _ k => ({ p with prog := k }, fs)
  | .replace t k =>
      match fs.file (.tmp t pid) with
      | .absent => (p.fail, fs)
      | f => ({ p with prog := k }, (fs.set (.file t) f).set (.tmp t pid) .absent)
  | .readVer c o =>
      match fs.file (.file .V) with
      | .absent => (p.fail, fs)
      | .full (.ver v) => ({ p with prog := if v = current then c else o }, fs)
      | _ => ({ p with prog := o }, fs)
  | .readDoc r k =>
      match fs.file (.file .S) with
      | .full (.doc d) => ({ p with prog := k, regs := p.regs.put r d }, fs)
      | _ => (p.fail, fs)

structure State where
  fs : FS
  procs : List Proc

/-- scheduling event: process `i` steps -/
def State.sched (s : State) (i : Nat) (tear : Bool) : State :=
  match s.procs[i]? with
  | none => s
  | some p =>
    let r := step i tear p s.fs
    { fs := r.2, procs := s.procs.set i r.1 }

def run (s : State) : List (Nat × Bool) → State
  | [] => s
  | (i, tear) :: rest => run (s.sched i tear) rest

/-! ### the routines after fix 703b53e -/

/-- `write_atomically(target, text)`: `open(tmp,'w'); write; close; os.replace(tmp, target)` -/
def writeAtomic (t : Tgt) (s : Src) (k : Prog) : Prog :=
  .openW (.myTmp t) (.write (.myTmp t) s (.close (.myTmp t) (.replace t k)))

/-- `reset(destination)` with `parameter_subset=None`:
`if not destination.exists() or parameter_subset is None: write_to_json_file(DEFAULT)` -/
def resetAll (k : Prog) : Prog :=
  .ifExists .S (writeAtomic .S .defaults k) (writeAtomic .S .defaults k)

/-- `reset(destination, subset)` with a non-empty subset; `f` = "restore the named keys" -/
def resetSubset (f : Doc → Doc) (k : Prog) : Prog :=
  .ifExists .S (.readDoc .rd (writeAtomic .S (.edit "reset_subset" f) k))
               (writeAtomic .S .defaults k)

def initProg (k : Prog) : Prog :=
  let initS := Prog.ifExists .S k (resetAll k)
  .mkdirOk (.ifExists .V initS (writeAtomic .V .version initS))

def update (k : Prog) : Prog :=
  .readVer k (.readDoc .rd (writeAtomic .S .upgraded (writeAtomic .V .version k)))

def load (k : Prog) : Prog := .readDoc .loaded k

/-- what `import evo` does: `initialize_if_needed(); update_if_outdated(); SETTINGS = load` -/
def start (k : Prog) : Prog := initProg (update (load k))

/-- `show(config)`: read and print -/
def showCfg (k : Prog) : Prog := .readDoc .scratch k

/-- `set_config(settings, args)`; `f` = the edit computed from the argument list -/
def setConfig (f : Doc → Doc) (k : Prog) : Prog :=
  .readDoc .rd (writeAtomic .S (.edit "set" f) k)

/-- `merge_json_union(settings, other, soft)`; `f` = merge with the (readable) other file -/
def mergeUnion (f : Doc → Doc) (k : Prog) : Prog :=
  .readDoc .rd (writeAtomic .S (.edit "merge" f) k)

/-! ### the routines of the pinned code before the fix (for the counterexamples) -/
namespace Old

/-- `with open(path,'w') as f: f.write(text)` in place -/
def writeInPlace (t : Tgt) (s : Src) (k : Prog) : Prog :=
  .openW (.target t) (.write (.target t) s (.close (.target t) k))

def initProg (k : Prog) : Prog :=
  let initS := Prog.ifExists .S k (.ifExists .S (writeInPlace .S .defaults k) (writeInPlace .S .defaults k))
  let initV := Prog.ifExists .V initS (writeInPlace .V .version initS)
  .ifDir initV (.mkdirStrict initV)

def update (k : Prog) : Prog :=
  .readVer k (.readDoc .rd (writeInPlace .S .upgraded (writeInPlace .V .version k)))

def start (k : Prog) : Prog := initProg (update (load k))

def setConfig (f : Doc → Doc) (k : Prog) : Prog :=
  .readDoc .rd (writeInPlace .S (.edit "set" f) k)

end Old

/-! ### executed-step labels (trace correspondence) -/

def Tgt.name : Tgt → String | .S => "S" | .V => "V"
def PRef.name : PRef → String | .target t => t.name | .myTmp t => "tmp" ++ t.name
def Src.name : Src → String | .version => "version" | .defaults => "defaults" | .upgraded => "upgraded" | .edit n _ => n

/-- label of the step the process would execute next, with the observed branch -/
def label (p : Proc) (fs : FS) : String :=
  match p.prog with
  | .done => "done"
  | .mkdirOk _ => "mkdir_ok"
  | .mkdirStrict _ => "mkdir_strict"
  | .ifDir _ _ => "exists dir " ++ (if fs.dir then "yes" else "no")
  | .ifExists t _ _ => "exists " ++ t.name ++ " " ++ (if fs.file (.file t) = .absent then "no" else "yes")
  | .openW r _ => "open_w " ++ r.name
  | .write r s _ => "write " ++ r.name ++ " " ++ s.name
  | .writeRest r s _ => "write_rest " ++ r.name ++ " " ++ s.name
  | .close r _ => "close " ++ r.name
  | .replace t _ => "replace " ++ t.name
  | .readVer _ _ => "read V"
  | .readDoc _ _ => "read S"

def Prog.isDone : Prog → Bool | .done => true | _ => false

/-- run one process alone to completion (untorn writes), collecting the labels -/
def soloTrace (pid : Nat) : Nat → Proc → FS → List String → List String × Proc × FS
  | 0, p, fs, acc => (acc.reverse, p, fs)
  | n + 1, p, fs, acc =>
    if p.failed || p.prog.isDone then (acc.reverse, p, fs)
    else
      let r := step pid false p fs
      soloTrace pid n r.1 r.2 (label p fs :: acc)

/-- number of steps a program can still take (a torn write counts twice) -/
def Prog.size : Prog → Nat
  | .done => 0
  | .mkdirOk k | .mkdirStrict k | .openW _ k | .close _ k | .replace _ k | .readDoc _ k => k.size + 1
  | .write _ _ k => k.size + 2
  | .writeRest _ _ k => k.size + 1
  | .ifDir y n | .ifExists _ y n | .readVer y n => max y.size n.size + 1

end Evo.FS
