/-
C12 — model of the statistics, unit conversion and result bookkeeping of a pose-error metric:
`evo/core/metrics.py` (`PE.get_statistic`, `get_all_statistics`, `change_unit`, `get_result`),
`evo/core/units.py` (through the regenerated `Gen/Units.lean`), and the companion-array
bookkeeping of `evo/main_ape.py: ape()` and `evo/main_rpe.py: rpe()`.

Exact rationals; irrational results are represented by their rational core:
`rmse² = meanSq`, `std² = var`, and a value converted between radians and degrees is
`q · π^k` with the rational `q` and the integer `k` kept separately (`piPow`).
No Mathlib import.
-/
import EvoModel.Model.Basic
import EvoModel.Model.Lin
import EvoModel.Gen.Units
namespace Evo.Stats
open Evo Evo.Gen.Units

/-! ### statistics (`get_statistic`) -/

def sum : List Rat → Rat
  | [] => 0
  | x :: r => x + sum r

/-- `np.mean(error)` -/
def mean (l : List Rat) : Rat := sum l / l.length

/-- `np.sum(np.power(error, 2))` -/
def sse (l : List Rat) : Rat := sum (l.map fun x => x * x)

/-- `np.mean(np.power(error, 2))` = rmse² -/
def meanSq (l : List Rat) : Rat := sse l / l.length

/-- `np.std(error)²`: population variance, `mean(|x − mean(x)|²)` -/
def var (l : List Rat) : Rat :=
  let m := mean l
  meanSq (l.map fun x => x - m)

def minFrom (m : Rat) : List Rat → Rat
  | [] => m
  | y :: r => minFrom (if y < m then y else m) r

def maxFrom (m : Rat) : List Rat → Rat
  | [] => m
  | y :: r => maxFrom (if m < y then y else m) r

/-- `np.min(error)` (0 on the empty list, where numpy raises) -/
def minL : List Rat → Rat
  | [] => 0
  | x :: r => minFrom x r

/-- `np.max(error)` -/
def maxL : List Rat → Rat
  | [] => 0
  | x :: r => maxFrom x r

def sort (l : List Rat) : List Rat := l.mergeSort (fun a b => decide (a ≤ b))

/-- `np.median(error)`: middle of the sorted values, or the mean of the two middles -/
def median (l : List Rat) : Rat :=
  let s := sort l
  let n := s.length
  if n % 2 = 1 then s.getD (n / 2) 0 else (s.getD (n / 2 - 1) 0 + s.getD (n / 2) 0) / 2

/-- the seven statistics in the order of `StatisticsType`, with `rmse` and `std` as squares -/
structure AllStats where
  rmseSq : Rat
  mean : Rat
  median : Rat
  stdSq : Rat
  min : Rat
  max : Rat
  sse : Rat
deriving DecidableEq, Repr

def allStats (l : List Rat) : AllStats :=
  ⟨meanSq l, mean l, median l, var l, minL l, maxL l, sse l⟩

/-! ### units (`change_unit`) -/

/-- a conversion factor `q · π^piPow` -/
structure Factor where
  q : Rat
  piPow : Int
deriving DecidableEq, Repr

def Factor.one : Factor := ⟨1, 0⟩
def Factor.mul (a b : Factor) : Factor := ⟨a.q * b.q, a.piPow + b.piPow⟩
def Factor.div (a b : Factor) : Factor := ⟨a.q / b.q, a.piPow - b.piPow⟩

/-- state of a `PE` object: unit and values; value `k` is `error[k] · π^piPow` -/
structure PE where
  unit : U
  error : List Rat
  piPow : Int := 0
deriving DecidableEq, Repr

/-- `(Unit.none, Unit.frames, Unit.percent, Unit.seconds)` of `change_unit` -/
def noConversion : List U := [.none, .frames, .percent, .seconds]

/-- `bad_combinations`: one unit an angle, the other a length (either order) -/
def badCombination (u v : U) : Bool :=
  (u ∈ angleUnits && v ∈ lengthUnits) || (v ∈ angleUnits && u ∈ lengthUnits)

/-- the factor `change_unit` multiplies with, in the order of its branches; `none` = the
`MetricsException` branches that do not depend on the array -/
def factor (u v : U) : Option Factor :=
  if u = v then some Factor.one
  else if u ∈ noConversion then none
  else if badCombination u v then none
  else if u ∈ lengthUnits ∧ v ∈ lengthUnits then
    match meterFactor u, meterFactor v with
    | some a, some b => some ⟨a / b, 0⟩
    | _, _ => none
  else if u = .radians ∧ v = .degrees then some ⟨180, -1⟩
  else if u = .degrees ∧ v = .radians then some ⟨(1 : Rat) / 180, 1⟩
  else none

/-- `PE.change_unit`: `none` = `MetricsException` (the object is left as it was) -/
def changeUnit (pe : PE) (v : U) : Option PE :=
  if pe.unit = v then some pe
  else match factor pe.unit v with
    | none => none
    | some f =>
      if pe.error.isEmpty then none
      else some { unit := v, error := pe.error.map (fun x => f.q * x), piPow := pe.piPow + f.piPow }

/-- `process_data` called (again) on a metric object (`APE` / `RPE`, after fix 46322c3): the fresh
values — which are in the relation's native unit — replace `error`, and `unit` is reset to that
native unit (`self.unit = self.native_unit`), whatever an earlier `change_unit` installed. -/
def processData (native : U) (_pe : PE) (vals : List Rat) : PE := { unit := native, error := vals, piPow := 0 }

/-- one `process_data` call on a metric object: `none` = the batch is refused (wrong tuple length,
different numbers of poses, no pose pairs found: an exception is raised before any value is
computed) and the object keeps unit and values as they were; `some vals` = the fresh native values -/
def processBatch (native : U) (pe : PE) (batch : Option (List Rat)) : PE :=
  match batch with
  | none => pe
  | some vals => processData native pe vals

/-- the pinned code (before fix 46322c3): `unit` was only set in `__init__`, so a unit installed
by an earlier `change_unit` persisted over the fresh native values -/
def processDataOld (pe : PE) (vals : List Rat) : PE := { unit := pe.unit, error := vals, piPow := 0 }

/-- classification of the model's behaviour on a probe array, comparable with `Gen.Units.observed` -/
def classify (u v : U) : Obs :=
  let pe : PE := { unit := u, error := [1, 2, (7 : Rat) / 2] }
  match changeUnit pe v with
  | none => .refusedUntouched
  | some pe' =>
    if u = v then (if pe' = pe then .noop else .other)
    else match factor u v with
      | some f => if pe'.unit = v ∧ pe'.error = pe.error.map (fun x => f.q * x) ∧ pe'.piPow = f.piPow
                  then .scaled f.q f.piPow else .other
      | none => .other

/-! ### `get_result` and the F11 history, with explicit array identity

`get_result` stores the array object `self.error` itself in the result. A heap of arrays
(address = index) makes the difference between the repaired `change_unit` (allocates) and the
pinned one (`*=` in place for length units) visible. -/

abbrev Heap := List (List Rat)

structure PEObj where
  unit : U
  addr : Nat
deriving DecidableEq, Repr

structure ResObj where
  label : String
  unitAtCreation : U
  addr : Nat
deriving DecidableEq, Repr

def metricLabel (metricName : String) (u : U) : String := metricName ++ " (" ++ u.value ++ ")"

def getResultH (name : String) (pe : PEObj) : ResObj := ⟨metricLabel name pe.unit, pe.unit, pe.addr⟩

/-- repaired code: a new array is allocated for the converted values (length units) -/
def changeUnitH (h : Heap) (pe : PEObj) (v : U) : Heap × PEObj :=
  match factor pe.unit v with
  | none => (h, pe)
  | some f =>
    if pe.unit = v then (h, pe)
    else if (h.getD pe.addr []).isEmpty then (h, pe)
    else (h ++ [(h.getD pe.addr []).map (fun x => f.q * x)], ⟨v, h.length⟩)

/-- pinned code (before fix 06bb385): length conversions rescale the array in place -/
def changeUnitHOld (h : Heap) (pe : PEObj) (v : U) : Heap × PEObj :=
  match factor pe.unit v with
  | none => (h, pe)
  | some f =>
    if pe.unit = v then (h, pe)
    else if (h.getD pe.addr []).isEmpty then (h, pe)
    else if pe.unit ∈ lengthUnits ∧ v ∈ lengthUnits then
      (h.set pe.addr ((h.getD pe.addr []).map (fun x => f.q * x)), ⟨v, pe.addr⟩)
    else (h ++ [(h.getD pe.addr []).map (fun x => f.q * x)], ⟨v, h.length⟩)

/-! ### labels and titles -/

/-- `APE.__str__` -/
def apeTitle (rel : Rel) (u : U) : String :=
  "APE w.r.t. " ++ rel.value ++ " " ++ "(" ++ u.value ++ ")"

/-- `RPE.__str__`; `delta` is the text Python prints for the delta -/
def rpeTitle (rel : Rel) (u : U) (delta : String) (deltaUnit : U) (allPairs : Bool) : String :=
  "RPE w.r.t. " ++ rel.value ++ " (" ++ u.value ++ ")\nfor delta = " ++ delta ++ " (" ++ deltaUnit.value ++ ")"
    ++ (if allPairs then " using all pairs" else " using consecutive pairs")

/-- the lines `ape()`/`rpe()` append to the title -/
def titleSuffix (align correctScale alignOrigin : Bool) (nToAlign : Int) (plane : Option String) : String :=
  let onlyScale := correctScale && !align
  let s1 := if align && !correctScale then "\n(with SE(3) Umeyama alignment)"
            else if align && correctScale then "\n(with Sim(3) Umeyama alignment)"
            else if onlyScale then "\n(scale corrected)"
            else if !alignOrigin then "\n(not aligned)" else ""
  let s2 := if (align || correctScale) && nToAlign ≠ -1 then " (aligned poses: " ++ toString nToAlign ++ ")" else ""
  let s3 := if alignOrigin then "\n(with origin alignment)" else ""
  let s4 := match plane with
            | some p => "\n(projected to " ++ p ++ " plane)"
            | none => ""
  s1 ++ s2 ++ s3 ++ s4

/-- what `ape()` / `rpe()` put into `info["label"]`, `info["title"]` and the unit the values
are in, given the relation and the requested unit change (`none` = no `--change_unit`);
result `none` = `MetricsException` from `change_unit` -/
structure Naming where
  unit : U
  label : String
  titleHead : String
deriving DecidableEq, Repr

def apeNaming (rel : Rel) (chg : Option U) (probe : List Rat) : Option Naming :=
  let pe0 : PE := { unit := apeUnit rel, error := probe }
  let pe := match chg with
    | none => some pe0
    | some v => changeUnit pe0 v
  pe.map fun p => ⟨p.unit, metricLabel "APE" p.unit, apeTitle rel p.unit⟩

def rpeNaming (rel : Rel) (chg : Option U) (probe : List Rat) (delta : String) (deltaUnit : U)
    (allPairs : Bool) : Option Naming :=
  let pe0 : PE := { unit := rpeUnit rel, error := probe }
  let pe := match chg with
    | none => some pe0
    | some v => changeUnit pe0 v
  pe.map fun p => ⟨p.unit, metricLabel "RPE" p.unit, rpeTitle rel p.unit delta deltaUnit allPairs⟩

/-! ### companion arrays of `ape()` / `rpe()`

`ts` are the timestamps of the processed estimate; `pr`, `pe` the positions of the processed
reference / estimate (for the arc lengths `traj.distances`, returned as squared step lengths:
`distances[k] = Σ_{m<k} sqrt(stepSq[m])`). -/

def secondsFromStart (ts : List Rat) : List Rat :=
  match ts with
  | [] => []
  | t0 :: _ => ts.map (fun t => t - t0)

/-- squared lengths of the steps between consecutive positions (`geometry.arc_len` terms) -/
def stepSq : List (V3 Rat) → List Rat
  | a :: b :: r => V3.normSq (V3.sub b a) :: stepSq (b :: r)
  | _ => []

structure Companions where
  /-- indices (into the processed trajectories) of the poses stored in the result -/
  stored : List Nat
  seconds : List Rat
  timestamps : List Rat
  /-- entry `k` of each companion array refers to the processed pose `poseOf[k]` -/
  poseOf : List Nat
  /-- squared step lengths of the stored reference / estimate path -/
  refStepSq : List Rat
  estStepSq : List Rat
  /-- number of leading stored poses that have no companion entry (0 for APE, 1 for RPE) -/
  skip : Nat
deriving DecidableEq, Repr

/-- `ape()`: arrays over all poses of the processed trajectories -/
def apeResultArrays (ts : List Rat) (pr pe : List (V3 Rat)) : Companions :=
  { stored := List.range ts.length
    seconds := secondsFromStart ts
    timestamps := ts
    poseOf := List.range ts.length
    refStepSq := stepSq pr
    estStepSq := stepSq pe
    skip := 0 }

/-- `rpe()`: both trajectories are reduced to `[0] + delta_ids`, the arrays are computed on
the reduced trajectories and their first entry is dropped (`[1:]`) -/
def rpeResultArrays (ts : List Rat) (pr pe : List (V3 Rat)) (deltaIds : List Nat) : Companions :=
  let keep := 0 :: deltaIds
  let rts := reduceIds ts keep
  { stored := keep
    seconds := (secondsFromStart rts).tail
    timestamps := rts.tail
    poseOf := keep.tail
    refStepSq := stepSq (reduceIds pr keep)
    estStepSq := stepSq (reduceIds pe keep)
    skip := 1 }

/-- zero-distance filter of `RPE.process_data` for `point_distance_error_ratio`:
`refD`, `estD` the distances of the pairs, `ids` the end indices of the pairs.
Returns the kept `delta_ids` and the percentages `|ref − est| / ref · 100`. -/
def ratioFilter : List Rat → List Rat → List Nat → List Nat × List Rat
  | r :: rs, e :: es, j :: js =>
    let (ids, vals) := ratioFilter rs es js
    if r = 0 then (ids, vals) else (j :: ids, absR (r - e) / r * 100 :: vals)
  | _, _, _ => ([], [])

end Evo.Stats
