/-
Hex transport of strings in the driver protocol of C12/C13 (UTF-8 bytes, `-` = empty string).
-/
namespace Evo.StrHex

def hexVal (c : Char) : Option Nat :=
  if '0' ≤ c ∧ c ≤ '9' then some (c.toNat - 48)
  else if 'a' ≤ c ∧ c ≤ 'f' then some (c.toNat - 87)
  else none

def unhexGo : List Char → ByteArray → Option ByteArray
  | [], acc => some acc
  | a :: b :: r, acc => do
      let x ← hexVal a
      let y ← hexVal b
      unhexGo r (acc.push (UInt8.ofNat (16 * x + y)))
  | _, _ => none

def unhex (s : String) : Option String :=
  if s = "-" then some "" else do
    let b ← unhexGo s.toList ByteArray.empty
    String.fromUTF8? b

def nib (n : Nat) : Char := if n < 10 then Char.ofNat (48 + n) else Char.ofNat (87 + n)

def hex (s : String) : String :=
  if s.isEmpty then "-" else
  String.ofList (s.toUTF8.toList.flatMap fun b => [nib (b.toNat / 16), nib (b.toNat % 16)])

end Evo.StrHex
