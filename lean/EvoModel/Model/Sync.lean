/-
Model of `evo/core/sync.py` (time association), over exact rationals.

`rawMatches` mirrors the loop of `matching_time_indices`: for every stamp of the first
(driving) list, the first index minimising `|s₂ + off − s₁|`, kept when `≤ maxDiff`.
`keepBest` mirrors the repaired code (finding F8): when several driving stamps share the
same nearest counterpart, only the closest one (the earliest on equal distance) is kept.
`matchOld` is the code before the repair, kept for the counterexample theorem.
-/
import EvoModel.Model.Basic
namespace Evo.Sync

structure Match where
  i : Nat       -- index in the driving (first) list
  j : Nat       -- index in the searched (second) list
  d : Rat       -- |s₂[j] + off − s₁[i]|
deriving Repr, DecidableEq

def dist (off t u : Rat) : Rat := absR (u + off - t)

def rawGo (s2 : List Rat) (maxDiff off : Rat) : List Rat → Nat → List Match
  | [], _ => []
  | t :: r, i =>
      let j := argminFirst (dist off t) s2
      match s2[j]? with
      | some u => if dist off t u ≤ maxDiff then ⟨i, j, dist off t u⟩ :: rawGo s2 maxDiff off r (i+1)
                  else rawGo s2 maxDiff off r (i+1)
      | none => rawGo s2 maxDiff off r (i+1)

def rawMatches (s1 s2 : List Rat) (maxDiff off : Rat) : List Match := rawGo s2 maxDiff off s1 0

/-- `m` is beaten by `m'`: same counterpart, strictly closer, or equally close and earlier. -/
def beats (m' m : Match) : Bool :=
  m'.j == m.j && (decide (m'.d < m.d) || (decide (m'.d = m.d) && decide (m'.i < m.i)))

def keepBest (raw : List Match) : List Match := raw.filter (fun m => !(raw.any (fun m' => beats m' m)))

/-- `matching_time_indices` after the F8 repair -/
def matchIdx (s1 s2 : List Rat) (maxDiff off : Rat) : List (Nat × Nat) :=
  (keepBest (rawMatches s1 s2 maxDiff off)).map (fun m => (m.i, m.j))

/-- `matching_time_indices` of the pinned commit (before the F8 repair) -/
def matchOld (s1 s2 : List Rat) (maxDiff off : Rat) : List (Nat × Nat) :=
  (rawMatches s1 s2 maxDiff off).map (fun m => (m.i, m.j))

inductive Err | sync deriving Repr, DecidableEq

/-- `associate_trajectories` on the level of indices into the two inputs: returns the index
lists selecting the synchronized poses from trajectory 1 and 2. The shorter trajectory drives
the search; the offset is always applied to the stamps of trajectory 2, hence enters with
opposite sign when trajectory 2 is the driving one. -/
def associateIds (t1 t2 : List Rat) (maxDiff off : Rat) : Except Err (List Nat × List Nat) :=
  if t2.length > t1.length then
    let m := matchIdx t1 t2 maxDiff off
    if m.isEmpty then .error .sync else .ok (m.map Prod.fst, m.map Prod.snd)
  else
    let m := matchIdx t2 t1 maxDiff (-off)
    if m.isEmpty then .error .sync else .ok (m.map Prod.snd, m.map Prod.fst)

/-- a trajectory as far as association is concerned: stamps with opaque payloads -/
def associate {α} (tr1 tr2 : List (Rat × α)) (maxDiff off : Rat) :
    Except Err (List (Rat × α) × List (Rat × α)) :=
  match associateIds (tr1.map Prod.fst) (tr2.map Prod.fst) maxDiff off with
  | .error e => .error e
  | .ok (i1, i2) => .ok (reduceIds tr1 i1, reduceIds tr2 i2)

/-- smallest decision margin of a case (for the float-vs-exact borderline filter):
min over driving stamps of (gap between best and second-best distance, |best − maxDiff|) -/
def margin (s1 s2 : List Rat) (maxDiff off : Rat) : Rat :=
  let ms := s1.map fun t =>
    let ds := s2.map (dist off t)
    let j := argminFirst (dist off t) s2
    match ds[j]? with
    | none => (1000000 : Rat)
    | some b =>
      let others := (ds.zipIdx.filter (fun p => p.2 != j)).map (·.1)
      let gap := others.foldl (fun acc d => if d - b < acc then d - b else acc) (1000000 : Rat)
      let thr := absR (b - maxDiff)
      if gap < thr then gap else thr
  ms.foldl (fun acc d => if d < acc then d else acc) (1000000 : Rat)

end Evo.Sync
