/-
Text formats of `evo/tools/file_interface.py` (TUM, KITTI, EuRoC, JSON transform) and `is_sim3`
of `evo/core/lie_algebra.py`, as an executable model over exact rationals.

Texts are `List Char` (Lean `Char` = Unicode scalar value), so that splitting and joining can be
reasoned about by structural induction.  Numbers: a field is a decimal literal of the grammar
`[+-]?(d+(.d*)?|.d+)([eE][+-]?d+)?`; its exact rational value is `parseDec`; the double evo
stores is `F64.rne (parseDec field)` (CPython's `float()` / numpy's string→double cast are
correctly rounded — that is *checked* by the harness on every value, not assumed).

Modelled alphabet: no `"` (csv quoting), no NUL, `\r` only directly before `\n` or at the end of
the text.  Spellings outside the grammar that `float()` happens to accept (`nan`, `inf`, `1_0`,
surrounding white space) and literals whose value overflows binary64 (`1e400`, read as `inf` by
evo) are outside the modelled domain: the model answers `Err.range` for the latter.
-/
import EvoModel.Model.Basic
import EvoModel.Model.F64
namespace Evo.Text

abbrev Str := List Char

/-! ### decimal literals -/

def isDig (c : Char) : Bool := decide ('0' ≤ c) && decide (c ≤ '9')
def digVal (c : Char) : Nat := c.toNat - 48

/-- value of a digit string, most significant digit first -/
def digitsVal (l : Str) : Nat := l.foldl (fun a c => 10 * a + digVal c) 0

/-- `(negative?, rest)` after an optional sign -/
def splitSign : Str → Bool × Str
  | '-' :: r => (true, r)
  | '+' :: r => (false, r)
  | r => (false, r)

/-- the exponent part: empty, or `[eE][+-]?d+` -/
def parseExp : Str → Option Int
  | [] => some 0
  | c :: t =>
    if c = 'e' ∨ c = 'E' then
      let (eneg, ds) := splitSign t
      if ds.isEmpty || !ds.all isDig then none
      else some (if eneg then -((digitsVal ds : Nat) : Int) else ((digitsVal ds : Nat) : Int))
    else none

/-- `m · 10^e` as an exact rational -/
def scale10 (m : Nat) (e : Int) : Rat :=
  if e ≥ 0 then ((m * 10 ^ e.toNat : Nat) : Rat) else mkRat (m : Int) (10 ^ (-e).toNat)

/-- exact value of a literal of the grammar `[+-]?(d+(.d*)?|.d+)([eE][+-]?d+)?`; `none` for every
other string -/
def parseDec (s : Str) : Option Rat :=
  let (neg, r) := splitSign s
  let ip := r.takeWhile isDig
  let r1 := r.dropWhile isDig
  let (fp, r2) : Str × Str := match r1 with
    | '.' :: t => (t.takeWhile isDig, t.dropWhile isDig)
    | _ => ([], r1)
  if ip.isEmpty && fp.isEmpty then none else
  match parseExp r2 with
  | none => none
  | some ex =>
    let v := scale10 (digitsVal (ip ++ fp)) (ex - (fp.length : Int))
    some (if neg then -v else v)

/-- characters a literal of the grammar can contain -/
def isTokChar (c : Char) : Bool :=
  isDig c || c = '+' || c = '-' || c = '.' || c = 'e' || c = 'E'

/-- the numeric literal grammar, as a decision procedure -/
def inGrammar (s : Str) : Bool := s.all isTokChar && (parseDec s).isSome

/-- `y` is within relative distance 2⁻⁵⁵ of `x` (for `x = 0`: `y = 0`) -/
def close (x y : Rat) : Bool := decide (absR (y - x) * 36028797018963968 ≤ absR x)

/-! ### csv_read_matrix -/

/-- split at every occurrence of `d` (always at least one piece) -/
def splitOn (d : Char) : Str → List Str
  | [] => [[]]
  | c :: r =>
    if c = d then [] :: splitOn d r
    else match splitOn d r with
      | [] => [[c]]
      | h :: t => (c :: h) :: t

def stripCR (l : Str) : Str := if l.getLast? = some '\r' then l.dropLast else l

/-- the lines Python's file iteration yields (terminator removed; a final empty piece after the
last `\n` is not a line) -/
def lines (t : Str) : List Str :=
  let ls := splitOn '\n' t
  (if ls.getLast? = some [] then ls.dropLast else ls).map stripCR

def isComment (l : Str) : Bool := l.head? = some '#'

/-- `csv.reader` on one line: a blank line is the empty row, otherwise split at the delimiter -/
def fields (d : Char) (l : Str) : List Str := if l.isEmpty then [] else splitOn d l

/-- `csv_read_matrix(handle, delim)`: comment lines dropped, nothing else is -/
def csvRows (d : Char) (t : Str) : List (List Str) :=
  ((lines t).filter (fun l => !isComment l)).map (fields d)

/-- the path variant skips a UTF-8 byte-order mark -/
def stripBom : Str → Str
  | '\uFEFF' :: r => r
  | r => r

/-- all-or-nothing map: `none` as soon as one element fails -/
def mapOpt {α β : Type} (f : α → Option β) : List α → Option (List β)
  | [] => some []
  | a :: l => match f a, mapOpt f l with
    | some b, some bs => some (b :: bs)
    | _, _ => none

inductive Err where
  | format   -- evo's FileInterfaceException
  | range    -- outside the modelled domain (a literal overflowing binary64)
deriving DecidableEq, Repr

/-- `np.array(raw_mat).astype(float)` after the explicit checks of the readers:
no rows → error; width of the *first* row checked by `okWidth`; rows of different lengths make
`np.array` raise (inhomogeneous shape); every field must be a number. -/
def readTable (d : Char) (okWidth : Nat → Bool) (t : Str) : Except Err (List (List Rat)) :=
  match csvRows d t with
  | [] => .error .format
  | r0 :: rest =>
    if !okWidth r0.length then .error .format
    else if !rest.all (fun r => r.length == r0.length) then .error .format
    else match mapOpt (mapOpt parseDec) (r0 :: rest) with
      | none => .error .format
      | some m => match mapOpt (mapOpt F64.rne) m with
        | none => .error .range
        | some m => .ok m

/-! ### the three trajectory formats -/

structure StampedPose where
  stamp : Rat
  x : Rat
  y : Rat
  z : Rat
  qw : Rat
  qx : Rat
  qy : Rat
  qz : Rat
deriving DecidableEq, Repr

/-- TUM: `timestamp tx ty tz qx qy qz qw` -/
def tumOfRow : List Rat → Option StampedPose
  | [t, x, y, z, qx, qy, qz, qw] => some ⟨t, x, y, z, qw, qx, qy, qz⟩
  | _ => none

def readTum (t : Str) : Except Err (List StampedPose) :=
  match readTable ' ' (· == 8) t with
  | .error e => .error e
  | .ok m => match mapOpt tumOfRow m with
    | none => .error .format
    | some l => .ok l

/-- a 3×4 pose matrix, row-major (the bottom row `0 0 0 1` is implicit) -/
structure Mat34 where
  r00 : Rat
  r01 : Rat
  r02 : Rat
  tx : Rat
  r10 : Rat
  r11 : Rat
  r12 : Rat
  ty : Rat
  r20 : Rat
  r21 : Rat
  r22 : Rat
  tz : Rat
deriving DecidableEq, Repr

def kittiOfRow : List Rat → Option Mat34
  | [a, b, c, d, e, f, g, h, i, j, k, l] => some ⟨a, b, c, d, e, f, g, h, i, j, k, l⟩
  | _ => none

def readKitti (t : Str) : Except Err (List Mat34) :=
  match readTable ' ' (· == 12) t with
  | .error e => .error e
  | .ok m => match mapOpt kittiOfRow m with
    | none => .error .format
    | some l => .ok l

/-- EuRoC: `timestamp[ns], p_x, p_y, p_z, q_w, q_x, q_y, q_z, …`; the stamp is
`np.divide(ns, 1e9)` on doubles: one more rounding -/
def eurocOfRow : List Rat → Option (Option StampedPose)
  | ns :: x :: y :: z :: qw :: qx :: qy :: qz :: _ =>
    some ((F64.rne (ns / 1000000000)).map fun s => ⟨s, x, y, z, qw, qx, qy, qz⟩)
  | _ => none

def readEuroc (t : Str) : Except Err (List StampedPose) :=
  match readTable ',' (· ≥ 8) t with
  | .error e => .error e
  | .ok m => match mapOpt eurocOfRow m with
    | none => .error .format
    | some l => match mapOpt id l with
      | none => .error .range
      | some l => .ok l

/-- path variants: byte-order mark skipped -/
def readTumPath (t : Str) := readTum (stripBom t)
def readKittiPath (t : Str) := readKitti (stripBom t)
def readEurocPath (t : Str) := readEuroc (stripBom t)

/-! ### writers: layout of `np.savetxt(file, mat, delimiter=" ")`, parametric in the
number → token function (`fmt % x`) -/

def joinWith (d : Char) : List Str → Str
  | [] => []
  | [a] => a
  | a :: b :: r => a ++ d :: joinWith d (b :: r)

def layoutRows (tok : Rat → Str) (rows : List (List Rat)) : Str :=
  (rows.map fun r => joinWith ' ' (r.map tok) ++ ['\n']).flatten

def tumRow (p : StampedPose) : List Rat := [p.stamp, p.x, p.y, p.z, p.qx, p.qy, p.qz, p.qw]
def kittiRow (m : Mat34) : List Rat :=
  [m.r00, m.r01, m.r02, m.tx, m.r10, m.r11, m.r12, m.ty, m.r20, m.r21, m.r22, m.tz]

def layoutTum (tok : Rat → Str) (l : List StampedPose) : Str := layoutRows tok (l.map tumRow)
def layoutKitti (tok : Rat → Str) (l : List Mat34) : Str := layoutRows tok (l.map kittiRow)

/-! ### quaternion → rotation (`transformations.quaternion_matrix`), exact -/

/-- 4·ε of binary64: below this squared norm `quaternion_matrix` returns the identity -/
def quatEps : Rat := 1 / 1125899906842624

/-- rows of the 3×3 rotation block for the quaternion `(w, x, y, z)`; the factor `2/n`
(`n = |q|²`) is what `q *= sqrt(2/n); outer(q, q)` produces, without the square root -/
def quatToRot (w x y z : Rat) : List (List Rat) :=
  let n := w * w + x * x + y * y + z * z
  if n < quatEps then [[1, 0, 0], [0, 1, 0], [0, 0, 1]] else
  let s := 2 / n
  [[1 - s * (y * y) - s * (z * z), s * (x * y) - s * (z * w), s * (x * z) + s * (y * w)],
   [s * (x * y) + s * (z * w), 1 - s * (x * x) - s * (z * z), s * (y * z) - s * (x * w)],
   [s * (x * z) - s * (y * w), s * (y * z) + s * (x * w), 1 - s * (x * x) - s * (y * y)]]

/-! ### `is_sim3` without the cube root -/

def det3 (m : List (List Rat)) : Rat :=
  match m with
  | [a, b, c, _] :: [d, e, f, _] :: [g, h, i, _] :: _ =>
    a * (e * i - f * h) - b * (d * i - f * g) + c * (d * h - e * g)
  | _ => 0

/-- Gram matrix `RᵀR` of the upper-left 3×3 block: `(g00, g11, g22, g01, g02, g12)` -/
def gram3 (m : List (List Rat)) : Option (List Rat × List Rat) :=
  match m with
  | [a, b, c, _] :: [d, e, f, _] :: [g, h, i, _] :: _ =>
    some ([a * a + d * d + g * g, b * b + e * e + h * h, c * c + f * f + i * i],
          [a * b + d * e + g * h, a * c + d * f + g * i, b * c + e * f + h * i])
  | _ => none

/-- tolerances of `np.allclose(·, ·, atol=1e-6)` (default `rtol=1e-5`): entries compared with 1
may deviate by `1e-6 + 1e-5`, entries compared with 0 by `1e-6` -/
def tolDiag : Rat := 11 / 1000000
def tolOff : Rat := 1 / 1000000

/-- `is_sim3(M)` in exact arithmetic.  With `s = det^(1/3)` evo tests `RᵀR / s² ≈ I`
(and `det(R/s) ≈ 1`, which holds identically); cubing both sides removes the root:
`(1−τ)³·det² ≤ gᵢᵢ³ ≤ (1+τ)³·det²` and `|gᵢⱼ|³ ≤ τ₀³·det²`.  `det ≤ 0` is rejected (evo's
`np.power(det, 1/3)` is `nan` or the scale is 0). -/
def isSim3Tol (m : List (List Rat)) : Bool :=
  match m, gram3 m with
  | [_, _, _, [b0, b1, b2, b3]], some (dg, off) =>
    let d := det3 m
    let d2 := d * d
    decide (b0 = 0 ∧ b1 = 0 ∧ b2 = 0 ∧ b3 = 1) && decide (0 < d) &&
    dg.all (fun g => decide ((1 - tolDiag) ^ 3 * d2 ≤ g ^ 3) && decide (g ^ 3 ≤ (1 + tolDiag) ^ 3 * d2)) &&
    off.all (fun g => decide ((absR g) ^ 3 ≤ tolOff ^ 3 * d2))
  | _, _ => false

/-- smallest relative distance of a tested quantity to its threshold (for the float-slack filter
of the harness); large when far from every threshold -/
def sim3Margin (m : List (List Rat)) : Rat :=
  match gram3 m with
  | some (dg, off) =>
    let d := det3 m
    let d2 := d * d
    if d2 = 0 then 0 else
    let rel (a b : Rat) : Rat := absR (a - b) / b
    let ms := (dg.map fun g => min (rel (g ^ 3) ((1 - tolDiag) ^ 3 * d2)) (rel (g ^ 3) ((1 + tolDiag) ^ 3 * d2)))
      ++ (off.map fun g => rel ((absR g) ^ 3) (tolOff ^ 3 * d2))
    ms.foldl min 1
  | none => 0

/-! ### JSON transform file: a flat object of numbers -/

def isWs (c : Char) : Bool := c = ' ' || c = '\n' || c = '\r' || c = '\t'
def skipWs (s : Str) : Str := s.dropWhile isWs

/-- JSON number grammar `-?(0|[1-9]d*)(.d+)?([eE][+-]?d+)?` (a subset of the literal grammar) -/
def isJsonNum (s : Str) : Bool :=
  let r := match s with | '-' :: r => r | r => r
  let ip := r.takeWhile isDig
  let r1 := r.dropWhile isDig
  let okInt := !ip.isEmpty && (ip.length == 1 || ip.head? != some '0')
  let okFrac := match r1 with
    | '.' :: t => !(t.takeWhile isDig).isEmpty
    | _ => true
  okInt && okFrac && s.head? != some '+' && (parseDec s).isSome

/-- key string without escapes: characters up to the closing quote -/
def takeKey (s : Str) : Option (Str × Str) :=
  let k := s.takeWhile (fun c => c != '"' && c != '\\')
  match s.dropWhile (fun c => c != '"' && c != '\\') with
  | '"' :: r => some (k, r)
  | _ => none

def isNumChar (c : Char) : Bool := isTokChar c

/-- members `"key" : number , …` up to `}`; fuel = length of the text -/
def parseMembers : Nat → Str → List (Str × Rat) → Option (List (Str × Rat))
  | 0, _, _ => none
  | fuel + 1, s, acc =>
    match skipWs s with
    | '"' :: r =>
      match takeKey r with
      | none => none
      | some (k, r) =>
        match skipWs r with
        | ':' :: r =>
          let r := skipWs r
          let tok := r.takeWhile isNumChar
          let r := skipWs (r.dropWhile isNumChar)
          if !isJsonNum tok then none else
          match parseDec tok with
          | none => none
          | some v =>
            match r with
            | ',' :: r => parseMembers fuel r (acc ++ [(k, v)])
            | '}' :: r => if (skipWs r).isEmpty then some (acc ++ [(k, v)]) else none
            | _ => none
        | _ => none
    | _ => none

/-- a flat JSON object whose values are numbers (exact values); `none` for anything else -/
def parseFlatJson (s : Str) : Option (List (Str × Rat)) :=
  match skipWs s with
  | '{' :: r =>
    match skipWs r with
    | '}' :: r' => if (skipWs r').isEmpty then some [] else none
    | _ => parseMembers (s.length + 1) r []
  | _ => none

/-- Python dict semantics: the last occurrence of a key wins -/
def lookupKey (k : Str) (m : List (Str × Rat)) : Option Rat :=
  (m.reverse.find? (fun p => p.1 == k)).map (·.2)

/-- the matrix `sim3(R(q), (x,y,z), scale)` from the key → value map (values = exact literals,
rounded to doubles here; the rotation is exact); `Err.format` when one of the seven keys is missing -/
def transformOfMap (m : List (Str × Rat)) : Except Err (List (List Rat)) :=
  let get (k : String) : Option Rat := lookupKey k.toList m
  match get "x", get "y", get "z", get "qx", get "qy", get "qz", get "qw" with
  | some x, some y, some z, some qx, some qy, some qz, some qw =>
    let sc := (get "scale").getD 1
    match mapOpt F64.rne [x, y, z, qx, qy, qz, qw, sc] with
    | some [x, y, z, qx, qy, qz, qw, sc] =>
      match quatToRot qw qx qy qz with
      | [[a, b, c], [d, e, f], [g, h, i]] =>
        .ok [[sc * a, sc * b, sc * c, x], [sc * d, sc * e, sc * f, y],
             [sc * g, sc * h, sc * i, z], [0, 0, 0, 1]]
      | _ => .error .range
    | _ => .error .range
  | _, _, _, _, _, _, _ => .error .format

/-- `load_transform_json`; `none`: the text is not a flat JSON object of numbers -/
def loadTransformJson (s : Str) : Option (Except Err (List (List Rat))) :=
  (parseFlatJson s).map transformOfMap

/-! ### printf formats of the writers -/

/-- `%.Ne` ↦ `(scientific = true, N + 1 significant digits)`; `%.Nf`, `%.Ng` ↦ `(false, N)`;
everything else (including the dynamic marker of the translator) `none` -/
def fmtSpec (s : Str) : Option (Bool × Nat) :=
  match s with
  | '%' :: '.' :: r =>
    let ds := r.takeWhile isDig
    match r.dropWhile isDig with
    | [c] =>
      if ds.isEmpty then none
      else if c = 'e' ∨ c = 'E' then some (true, digitsVal ds + 1)
      else if c = 'f' ∨ c = 'g' ∨ c = 'F' ∨ c = 'G' then some (false, digitsVal ds)
      else none
    | _ => none
  | _ => none

/-- every token of a written text is a literal of the grammar and `close` to the double it stands
for (`xs` in file order); `none` = all fine, `some i` = first offending token index
(`xs.length` when the number of tokens differs) -/
def checkTokens (t : Str) (xs : List Rat) : Option Nat :=
  let toks := (csvRows ' ' t).flatten
  if toks.length ≠ xs.length then some xs.length else
  let rec go : List Str → List Rat → Nat → Option Nat
    | tk :: ts, x :: xr, i =>
      match (if inGrammar tk then parseDec tk else none) with
      | some y => if close x y then go ts xr (i + 1) else some i
      | none => some i
    | _, _, _ => none
  go toks xs 0

/-! ### ROS bag stamps (`write_bag_trajectory` / `read_bag_trajectory`) -/

/-- Python `round(v)` of a float: nearest integer, ties to the even one -/
def roundHalfEven (g : Rat) : Int :=
  let f := g.floor
  let d := g - f
  if d < 1 / 2 then f else if 1 / 2 < d then f + 1 else if f % 2 = 0 then f else f + 1

/-- `write_bag_trajectory` (after the repair of F14): `sec = int(stamp // 1)`,
`nanosec = int(round((stamp - sec) * 1e9))` — both float operations rounded, `round` half-even —
and the carry `nanosec == 10**9 → (sec + 1, 0)` -/
def bagSplit (x : Rat) : Option (Int × Int) :=
  let sec := x.floor
  match F64.rne (x - sec) with
  | none => none
  | some fr => match F64.rne (fr * 1000000000) with
    | none => none
    | some g =>
      let ns := roundHalfEven g
      some (if ns = 1000000000 then (sec + 1, 0) else (sec, ns))

/-- the code before the repair: `nanosec = int((stamp - sec) * 1e9)` (truncation) -/
def bagSplitTrunc (x : Rat) : Option (Int × Int) :=
  let sec := x.floor
  match F64.rne (x - sec) with
  | none => none
  | some fr => match F64.rne (fr * 1000000000) with
    | none => none
    | some ns => some (sec, if ns < 0 then -((-ns).floor) else ns.floor)

/-- `t.sec + (t.nanosec * 1e-9)` on doubles; `1e-9` is the double nearest to 10⁻⁹ -/
def bagJoin (sec ns : Int) : Option Rat :=
  match F64.rne (mkRat 1 1000000000) with
  | none => none
  | some c => match F64.rne ((ns : Rat) * c) with
    | none => none
    | some p => F64.rne ((sec : Rat) + p)

end Evo.Text
