/-
C08 — `PosePath3D` / `PoseTrajectory3D` of `evo/core/trajectory.py`, two levels.

* **Abstract spec** (`Evo.Traj.ATraj`, `specStep`): a trajectory is a list of
  `(pose, optional stamp)` items; every operation is a list function with its documented effect.
* **Cache machine** (`Evo.Traj.St`, `step`): the object as it is implemented — three optional,
  individually cached representations (`_positions_xyz`, `_orientations_quat_wxyz`, `_poses_se3`),
  the time stamps and the `_projected` flag — each method written the way `trajectory.py` writes
  it: which caches it forces, rewrites, scales, slices, deletes.

The quaternion cache is represented by the rotation matrix it encodes (`quatToRot`, which is
`transformations.quaternion_matrix`, is rational in the quaternion); extracting a quaternion from
a matrix (`quaternion_from_matrix`, an eigen-decomposition) is external and tied by certificate.

Parameters that belong to other properties are *parameters of the operation*, obtained by the
harness from evo itself: selected ids (down-sampling, motion filter, time crop → C11), the
Umeyama triple `(R, t, s)` (→ C03), the projected rotations (→ C14), and the cube-root scale
`s` of a Sim(3) argument (`norm = some s` iff `lie.is_se3(T)` is false).
Mathlib-free; executable over `Rat`.
-/
import EvoModel.Model.Lin
namespace Evo.Traj
open Evo

abbrev P := Pose Rat
abbrev Item := P × Option Rat

/-! ### pose-list functions shared by both levels -/

/-- `transformations.quaternion_matrix` (w, x, y, z), rotation block -/
def quatToRot (w x y z : Rat) : M3 Rat :=
  let n := w * w + x * x + y * y + z * z
  if n < 1 / 1125899906842624 then M3.one   -- `_EPS = 4·2⁻⁵² = 2⁻⁵⁰`
  else
    let k := 2 / n
    ⟨1 - k * (y * y) - k * (z * z), k * (x * y) - k * (z * w), k * (x * z) + k * (y * w),
     k * (x * y) + k * (z * w), 1 - k * (x * x) - k * (z * z), k * (y * z) - k * (x * w),
     k * (x * z) - k * (y * w), k * (y * z) + k * (x * w), 1 - k * (x * x) - k * (y * y)⟩

inductive Mode | left | right | prop
deriving DecidableEq, Repr

/-- `[relative_se3(p[i], p[i+1]) for i …]` -/
def relsOf : List P → List P
  | a :: b :: r => Pose.rel a b :: relsOf (b :: r)
  | _ => []

/-- `new = [p0]; for d in rels: new.append(new[-1]·d)` -/
def propagate (p0 : P) : List P → List P
  | [] => [p0]
  | d :: r => p0 :: propagate (p0.mul d) r

/-- the three branches of `transform()` before the Sim(3) normalisation -/
def transformPoses (m : Mode) (T : P) (ps : List P) : List P :=
  match m with
  | .left => ps.map (fun p => T.mul p)
  | .right => ps.map (fun p => p.mul T)
  | .prop =>
      match ps with
      | [] => []
      | p0 :: r => propagate p0 ((relsOf (p0 :: r)).map (fun d => d.mul T))

/-- `lie.se3(p[:3,:3] / k, p[:3,3])` -/
def unscale (k : Rat) (p : P) : P := ⟨M3.smul (1 / k) p.rot, p.t⟩

/-- normalisation with scale `s^e` for the pose at offset `e` (propagation multiplies the
accumulated pose by a further Sim(3) factor at every step) -/
def unscalePow (s : Rat) : Nat → List P → List P
  | _, [] => []
  | e, p :: r => unscale (s ^ e) p :: unscalePow s (e + 1) r

/-- `lie.se3(p[:3,:3] / lie.sim3_scale(p), p[:3,3])` for every pose; `sim3_scale(p)` is the cube
root of the determinant, i.e. `s` for left/right multiplication of a rigid pose by a Sim(3) matrix
of scale `s`, and `s^i` for the `i`-th pose of a propagation -/
def normalise (m : Mode) (s : Rat) (ps : List P) : List P :=
  match m with
  | .prop => unscalePow s 0 ps
  | _ => ps.map (unscale s)

/-- complete pose-list effect of `transform(t, right_mul, propagate)` -/
def transformFull (m : Mode) (T : P) (norm : Option Rat) (ps : List P) : List P :=
  match norm with
  | none => transformPoses m T ps
  | some s => normalise m s (transformPoses m T ps)

def scalePose (s : Rat) (p : P) : P := ⟨p.rot, V3.smul s p.t⟩

/-- `pose[null_dim, 3] = 0` -/
def zeroDim (nd : Nat) (v : V3 Rat) : V3 Rat :=
  match nd with
  | 0 => ⟨0, v.y, v.z⟩
  | 1 => ⟨v.x, 0, v.z⟩
  | _ => ⟨v.x, v.y, 0⟩

/-- `project()`: zero the coordinate normal to the plane, replace the rotation by the given
(planar) one; a missing rotation keeps the old one so that the length is preserved -/
def projPoses (nd : Nat) : List (M3 Rat) → List P → List P
  | _, [] => []
  | [], p :: r => ⟨p.rot, zeroDim nd p.t⟩ :: projPoses nd [] r
  | q :: qs, p :: r => ⟨q, zeroDim nd p.t⟩ :: projPoses nd qs r

def se3Of (r : M3 Rat) (t : V3 Rat) : P := ⟨r, t⟩

/-- `align_origin`: `to_ref_origin = ref_origin · se3_inverse(traj_origin)` -/
def originTransform (ref p0 : P) : P := ref.mul p0.inv

inductive AlignMode | rigid | withScale | onlyScale
deriving DecidableEq, Repr

/-- squared lengths of the steps between consecutive positions (`path_length`, `distances`
and `speeds` are `√`/cumulative sums/quotients of these) -/
def segSq : List (V3 Rat) → List Rat
  | a :: b :: r => V3.normSq (V3.sub a b) :: segSq (b :: r)
  | _ => []

def strictAsc : List Rat → Bool
  | a :: b :: r => decide (a < b) && strictAsc (b :: r)
  | _ => true

/-- largest entry of `|RᵀR − I|` and `|det R − 1|` -/
def orthoResid (r : M3 Rat) : Rat :=
  let d := (M3.mul (M3.transpose r) r).sub M3.one
  let l := [d.a00, d.a01, d.a02, d.a10, d.a11, d.a12, d.a20, d.a21, d.a22, r.det - 1]
  l.foldl (fun acc x => if acc < absR x then absR x else acc) 0

def maxResid (ps : List P) : Rat := ps.foldl (fun acc p => if acc < orthoResid p.rot then orthoResid p.rot else acc) 0

def properRot (r : M3 Rat) : Bool := decide (M3.mul (M3.transpose r) r = M3.one) && decide (r.det = 1)

/-- Python / numpy semantics of one index into an array of length `n`: `i ≥ 0` is position `i`, `i < 0` is position
`n + i` (`−1` = last, `−n` = first); anything outside `[−n, n)` raises `IndexError` (`none`) -/
def normIdx (n : Nat) (i : Int) : Option Nat :=
  if i < 0 then (if -i ≤ (n : Int) then some (n - (-i).toNat) else none)
  else (if i < (n : Int) then some i.toNat else none)

/-- a whole index list; one bad index refuses the whole call -/
def normIds (n : Nat) : List Int → Option (List Nat)
  | [] => some []
  | i :: r =>
      match normIdx n i, normIds n r with
      | some j, some l => some (j :: l)
      | _, _ => none

/-! ### operations and observations -/

inductive View | pos | quat | se3 | stamps | num | dist
deriving DecidableEq, Repr

inductive Op
  | transform (m : Mode) (T : P) (norm : Option Rat)
  | scale (s : Rat)
  | reduce (ids : List Nat)
  /-- `reduce_to_ids` with signed indices as Python accepts them (negative = from the end); out of range: `IndexError` -/
  | reduceInt (ids : List Int)
  /-- `downsample(n)`: ids = `linspace(0, num−1, n, dtype=int)` supplied -/
  | downsample (n : Nat) (ids : List Nat)
  /-- `motion_filter`: ids = `filter_by_motion(poses_se3, …)` supplied -/
  | motionFilter (ids : List Nat)
  /-- `reduce_to_time_range`: ids supplied -/
  | crop (ids : List Nat)
  | align (am : AlignMode) (r : M3 Rat) (t : V3 Rat) (c : Rat) (norm : Option Rat)
  | alignOrigin (ref : P) (norm : Option Rat)
  | project (nd : Nat) (rots : List (M3 Rat))
  | copy
  | read (v : View)
  | check
deriving Repr

inductive Out
  | unit
  | err
  | vecs (l : List (V3 Rat))
  | rots (l : List (M3 Rat))
  | poses (l : List P)
  | stamps (l : Option (List Rat))
  | num (n : Nat)
  | rats (l : List Rat)
  /-- `check()`: same lengths, all matrices exactly proper rigid, largest residual, stamps ok -/
  | chk (sameLen rigid : Bool) (resid : Rat) (stampsOk : Bool)
deriving DecidableEq, Repr

/-! ### abstract spec -/

structure ATraj where
  items : List Item
  timed : Bool
  projected : Bool
deriving DecidableEq, Repr

def poses (l : List Item) : List P := l.map (·.1)
def stampsOf (l : List Item) : List (Option Rat) := l.map (·.2)

/-- replace the poses by `f poses`, keeping each item's stamp -/
def onPoses (f : List P → List P) (l : List Item) : List Item :=
  List.zipWith (fun p it => (p, it.2)) (f (poses l)) l

/-- the abstract trajectory a constructor call denotes -/
def mkItems (ps : List P) : Option (List Rat) → List Item
  | none => ps.map (fun p => (p, none))
  | some l => List.zipWith (fun p t => (p, some t)) ps l

def ATraj.init (ps : List P) (stamps : Option (List Rat)) : ATraj := ⟨mkItems ps stamps, stamps.isSome, false⟩

def ATraj.stampsView (a : ATraj) : Option (List Rat) :=
  if a.timed then some (a.items.filterMap (·.2)) else none

def ATraj.view (a : ATraj) : View → Out
  | .pos => .vecs ((poses a.items).map (·.t))
  | .quat => .rots ((poses a.items).map (·.rot))
  | .se3 => .poses (poses a.items)
  | .stamps => .stamps a.stampsView
  | .num => .num a.items.length
  | .dist => .rats (segSq ((poses a.items).map (·.t)))

def checkOut (ps : List P) (stamps : Option (List Rat)) : Out :=
  if ps.length = 0 then .chk true true 0 true
  else
    .chk true (ps.all (fun p => properRot p.rot)) (maxResid ps)
      (match stamps with
       | none => true
       | some l => decide (l.length = ps.length) && strictAsc l)

/-- pose-list effect of `align()` for a given Umeyama triple: `scale(c)` and/or `transform(se3(r, t))` -/
def alignPoses (am : AlignMode) (r : M3 Rat) (t : V3 Rat) (c : Rat) (norm : Option Rat) (ps : List P) : List P :=
  match am with
  | .onlyScale => ps.map (scalePose c)
  | .withScale => transformFull .left (se3Of r t) norm (ps.map (scalePose c))
  | .rigid => transformFull .left (se3Of r t) norm ps

def alignItems (am : AlignMode) (r : M3 Rat) (t : V3 Rat) (c : Rat) (norm : Option Rat) (l : List Item) : List Item :=
  match am with
  | .onlyScale => onPoses (List.map (scalePose c)) l
  | .withScale => onPoses (transformFull .left (se3Of r t) norm) (onPoses (List.map (scalePose c)) l)
  | .rigid => onPoses (transformFull .left (se3Of r t) norm) l

def specStep (a : ATraj) : Op → ATraj × Out
  | .transform m T norm => ({ a with items := onPoses (transformFull m T norm) a.items }, .unit)
  | .scale s => ({ a with items := onPoses (List.map (scalePose s)) a.items }, .unit)
  | .reduce ids => ({ a with items := reduceIds a.items ids }, .unit)
  | .reduceInt ids =>
      match normIds a.items.length ids with
      | some l => ({ a with items := reduceIds a.items l }, .unit)
      | none => (a, .err)
  | .downsample n ids =>
      if a.items.length ≤ n then (a, .unit)
      else if n < 1 then (a, .err)
      else ({ a with items := reduceIds a.items ids }, .unit)
  | .motionFilter ids => ({ a with items := reduceIds a.items ids }, .unit)
  | .crop ids => if a.timed then ({ a with items := reduceIds a.items ids }, .unit) else (a, .err)
  | .align am r t c norm => ({ a with items := alignItems am r t c norm a.items }, .unit)
  | .alignOrigin ref norm =>
      match poses a.items with
      | [] => (a, .err)
      | p0 :: _ => ({ a with items := onPoses (transformFull .left (originTransform ref p0) norm) a.items }, .unit)
  | .project nd rots =>
      if a.projected then (a, .err)
      else ({ a with items := onPoses (projPoses nd rots) a.items, projected := true }, .unit)
  | .copy => (a, .unit)
  | .read v => (a, a.view v)
  | .check => (a, checkOut (poses a.items) a.stampsView)

def specRun (a : ATraj) : List Op → ATraj × List Out
  | [] => (a, [])
  | op :: r =>
      let (a', o) := specStep a op
      let (a'', os) := specRun a' r
      (a'', o :: os)

/-! ### the cache machine -/

structure St where
  pos? : Option (List (V3 Rat))
  quat? : Option (List (M3 Rat))
  se3? : Option (List P)
  stamps : Option (List Rat)
  projected : Bool
deriving DecidableEq, Repr

/-- `PosePath3D(poses_se3=…)` / `PoseTrajectory3D(poses_se3=…, timestamps=…)` -/
def initSe3 (ps : List P) (stamps : Option (List Rat)) : St :=
  ⟨none, none, some ps, stamps, false⟩

/-- `PosePath3D(positions_xyz=…, orientations_quat_wxyz=…)` (rotations encoded by the quaternions) -/
def initPosQuat (xyz : List (V3 Rat)) (rots : List (M3 Rat)) (stamps : Option (List Rat)) : St :=
  ⟨some xyz, some rots, none, stamps, false⟩

/-- the `poses_se3` property: cached value, else `xyz_quat_wxyz_to_se3_poses(pos, quat)` -/
def St.getSe3 (s : St) : List P :=
  match s.se3? with
  | some l => l
  | none => List.zipWith se3Of (s.quat?.getD []) (s.pos?.getD [])

def St.forceSe3 (s : St) : St := { s with se3? := some s.getSe3 }

/-- the `positions_xyz` property -/
def St.getPos (s : St) : List (V3 Rat) :=
  match s.pos? with
  | some l => l
  | none => (s.se3?.getD []).map (·.t)

def St.forcePos (s : St) : St := { s with pos? := some s.getPos }

/-- the `orientations_quat_wxyz` property (as rotations) -/
def St.getQuat (s : St) : List (M3 Rat) :=
  match s.quat? with
  | some l => l
  | none => (s.se3?.getD []).map (·.rot)

def St.forceQuat (s : St) : St := { s with quat? := some s.getQuat }

/-- `num_poses` -/
def St.numPoses (s : St) : Nat :=
  match s.se3? with
  | some l => l.length
  | none => s.getPos.length

/-- `transform()`: force the matrices, rewrite them, then
`_positions_xyz, _orientations_quat_wxyz = se3_poses_to_xyz_quat_wxyz(poses_se3)` -/
def St.transform (s : St) (m : Mode) (T : P) (norm : Option Rat) : St :=
  let ps := transformFull m T norm s.getSe3
  { s with se3? := some ps, pos? := some (ps.map (·.t)), quat? := some (ps.map (·.rot)) }

/-- `scale()`: rewrites the matrix cache if present and the position cache if present -/
def St.scale (s : St) (c : Rat) : St :=
  { s with se3? := s.se3?.map (List.map (scalePose c)),
           pos? := s.pos?.map (List.map (V3.smul c)) }

/-- `reduce_to_ids()` of `PoseTrajectory3D`: slices every cache that exists and the stamps -/
def St.reduce (s : St) (ids : List Nat) : St :=
  { s with pos? := s.pos?.map (reduceIds · ids),
           quat? := s.quat?.map (reduceIds · ids),
           se3? := s.se3?.map (reduceIds · ids),
           stamps := s.stamps.map (reduceIds · ids) }

/-- `project()`: force the matrices, edit them, flush the other two caches, set the flag -/
def St.project (s : St) (nd : Nat) (rots : List (M3 Rat)) : St :=
  { s with se3? := some (projPoses nd rots s.getSe3), pos? := none, quat? := none, projected := true }

def St.align (s : St) (am : AlignMode) (r : M3 Rat) (t : V3 Rat) (c : Rat) (norm : Option Rat) : St :=
  let s := s.forcePos    -- `self.positions_xyz` is read for the Umeyama fit
  match am with
  | .onlyScale => s.scale c
  | .withScale => (s.scale c).transform .left (se3Of r t) norm
  | .rigid => s.transform .left (se3Of r t) norm

def St.view (s : St) : View → St × Out
  | .pos => (s.forcePos, .vecs s.getPos)
  | .quat => (s.forceQuat, .rots s.getQuat)
  | .se3 => (s.forceSe3, .poses s.getSe3)
  | .stamps => (s, .stamps s.stamps)
  | .num => (s, .num s.numPoses)
  | .dist => (s.forcePos, .rats (segSq s.getPos))

/-- `check()` reads all three views (and fills their caches) unless the object is empty -/
def St.check (s : St) : St × Out :=
  if s.numPoses = 0 then (s, .chk true true 0 true)
  else
    let s1 := s.forcePos
    let s2 := s1.forceQuat
    let s3 := s2.forceSe3
    let n := s3.getSe3.length
    (s3, .chk (decide (s3.getPos.length = s3.getQuat.length) && decide (s3.getQuat.length = n))
           (s3.getSe3.all (fun p => properRot p.rot)) (maxResid s3.getSe3)
           (match s3.stamps with
            | none => true
            | some l => decide (l.length = s3.getPos.length) && strictAsc l))

def step (s : St) : Op → St × Out
  | .transform m T norm => (s.transform m T norm, .unit)
  | .scale c => (s.scale c, .unit)
  | .reduce ids => (s.reduce ids, .unit)
  | .reduceInt ids =>
      match normIds s.numPoses ids with
      | some l => (s.reduce l, .unit)      -- every cache and the stamps are indexed with the same signed list
      | none => (s, .err)                  -- numpy raises at the first indexing, before anything is rebound
  | .downsample n ids =>
      if s.numPoses ≤ n then (s, .unit)
      else if n < 1 then (s, .err)
      else (s.reduce ids, .unit)
  | .motionFilter ids => (s.forceSe3.reduce ids, .unit)
  | .crop ids => if s.stamps.isSome then (s.reduce ids, .unit) else (s, .err)
  | .align am r t c norm => (s.align am r t c norm, .unit)
  | .alignOrigin ref norm =>
      match s.getSe3 with
      | [] => (s, .err)
      | p0 :: _ => (s.forceSe3.transform .left (originTransform ref p0) norm, .unit)
  | .project nd rots =>
      if s.projected then (s, .err) else (s.project nd rots, .unit)
  | .copy => (s, .unit)   -- `copy.deepcopy(self)`: same caches, same flag
  | .read v => s.view v
  | .check => s.check

def run (s : St) : List Op → St × List Out
  | [] => (s, [])
  | op :: r =>
      let (s', o) := step s op
      let (s'', os) := run s' r
      (s'', o :: os)

/-- diagnostic only: which caches are present -/
def St.cacheBits (s : St) : String :=
  (if s.pos?.isSome then "p" else "-") ++ (if s.quat?.isSome then "q" else "-") ++
  (if s.se3?.isSome then "m" else "-") ++ (if s.projected then "P" else "-")

end Evo.Traj
